import DispensoVerif.Model.ArenaTables
/-! helper lemmas for the table ledger of ConcurrentObjectArena (C37): the invariant and its preservation -/
namespace Dispenso.Arena
namespace Tables
open Dispenso.ArenaTables

/-- Invariant of the table ledger: nothing is freed while the arena is alive; a dead arena has no reader
snapshot; while alive, every table ever published is the current one or retained in `deleteLater_`
(`retired` lists exactly the ids below the current one); snapshots name published tables. -/
def Inv (s : St) : Prop :=
  (s.alive = true → s.freed = []) ∧
  (s.alive = false → s.snaps = []) ∧
  (s.alive = true → s.retired.length + 1 = s.tables ∨ (s.tables = 0 ∧ s.retired = [])) ∧
  (∀ p ∈ s.snaps, p.2.1 < s.tables) ∧
  (s.alive = true → ∀ k ∈ s.retired, k + 1 < s.tables)

theorem inv_init : Inv ({} : St) := by
  simp [Inv]

theorem step_inv (s : St) (o : Op) (h : Inv s) : Inv (step s o).1 := by
  obtain ⟨h1, h2, h3, h4, h5⟩ := h
  cases o with
  | alloc =>
    by_cases ha : s.alive = true
    · by_cases hu : s.used < s.size
      · have e : (step s .alloc).1 = { s with used := s.used + 1 } := by simp [step, ha, hu]
        rw [e]; exact ⟨h1, h2, h3, h4, h5⟩
      · have e : (step s .alloc).1 = { s with
            size := if s.size = 0 then 2 else s.size * 2
            used := s.used + 1
            tables := s.tables + 1
            retired := if s.tables = 0 then s.retired else (s.tables - 1) :: s.retired } := by
          simp [step, ha, hu]
        rw [e]
        refine ⟨h1, h2, ?_, ?_, ?_⟩
        · intro _
          show (if s.tables = 0 then s.retired else (s.tables - 1) :: s.retired).length + 1 = s.tables + 1 ∨ _
          left
          by_cases ht : s.tables = 0
          · rcases h3 ha with h | ⟨_, h⟩
            · omega
            · simp [ht, h]
          · rcases h3 ha with h | ⟨h, _⟩
            · simp [ht]; omega
            · exact absurd h ht
        · intro p hp; have := h4 p hp; show p.2.1 < s.tables + 1; omega
        · intro _ k hk
          show k + 1 < s.tables + 1
          change k ∈ (if s.tables = 0 then s.retired else (s.tables - 1) :: s.retired) at hk
          by_cases ht : s.tables = 0
          · simp [ht] at hk; have := h5 ha k hk; omega
          · simp [ht] at hk
            rcases hk with rfl | hk
            · omega
            · have := h5 ha k hk; omega
    · have e : (step s .alloc).1 = s := by simp [step, ha]
      rw [e]; exact ⟨h1, h2, h3, h4, h5⟩
  | load r =>
    by_cases hc : s.alive = true ∧ s.tables ≠ 0
    · have e : (step s (.load r)).1 = { s with snaps := (r, s.tables - 1, s.used) :: s.snaps.filter (·.1 ≠ r) } := by
        simp [step, hc.1, hc.2]
      rw [e]
      refine ⟨h1, ?_, h3, ?_, h5⟩
      · intro ha; exact absurd hc.1 (by simp [show s.alive = false from ha])
      · intro p hp
        change p ∈ (r, s.tables - 1, s.used) :: s.snaps.filter (·.1 ≠ r) at hp
        rcases List.mem_cons.mp hp with rfl | hp
        · show s.tables - 1 < s.tables; omega
        · exact h4 p (List.mem_filter.mp hp).1
    · have e : (step s (.load r)).1 = s := by
        by_cases ha : s.alive = true
        · have : s.tables = 0 := by by_cases ht : s.tables = 0; exact ht; exact absurd ⟨ha, ht⟩ hc
          simp [step, this]
        · simp [step, ha]
      rw [e]; exact ⟨h1, h2, h3, h4, h5⟩
  | index r i =>
    cases hs : snapOf s r with
    | none =>
      have e : (step s (.index r i)).1 = s := by simp [step, hs]
      rw [e]; exact ⟨h1, h2, h3, h4, h5⟩
    | some p =>
      obtain ⟨id, n⟩ := p
      by_cases hi : i < n
      · have e : (step s (.index r i)).1 = { s with snaps := s.snaps.filter (·.1 ≠ r) } := by simp [step, hs, hi]
        rw [e]
        refine ⟨h1, ?_, h3, ?_, h5⟩
        · intro ha; show s.snaps.filter _ = []; simp [h2 ha]
        · intro p hp; exact h4 p (List.mem_filter.mp hp).1
      · have e : (step s (.index r i)).1 = s := by simp [step, hs, hi]
        rw [e]; exact ⟨h1, h2, h3, h4, h5⟩
  | destroy =>
    by_cases hc : s.alive = true ∧ s.snaps = []
    · have e : (step s .destroy).1 = { s with alive := false, freed := (if s.tables = 0 then [] else [s.tables - 1]) ++ s.retired ++ s.freed, retired := [] } := by
        simp [step, hc.1, hc.2]
      rw [e]
      refine ⟨?_, fun _ => hc.2, ?_, fun p hp => h4 p hp, ?_⟩ <;> (intro h; exact absurd h (by simp))
    · have e : (step s .destroy).1 = s := by
        by_cases ha : s.alive = true
        · have : s.snaps ≠ [] := fun h => hc ⟨ha, h⟩
          simp [step, ha, this]
        · simp [step, ha]
      rw [e]; exact ⟨h1, h2, h3, h4, h5⟩

theorem run_inv (s : St) (ops : List Op) (h : Inv s) : Inv (run s ops).1 := by
  induction ops generalizing s with
  | nil => simpa [run]
  | cons o os ih => simp only [run]; exact ih _ (step_inv s o h)


end Tables
end Dispenso.Arena
