import DispensoVerif.Proofs.Future
/-
Proofs for C18, layer S: the status protocol and the functor.

`InvS` (on top of `InvR`): the status word only moves 0 → 1 → 2; the CAS 0 → 1 has one winner, which
is the only thread that ever runs the functor (counter 0 → 1), stores the result / the exception
before the release store of `kReady`, decrements the task-set counter afterwards; `kReady` implies
"functor ran once, result (or exception) in place as long as a reference exists".
Core Lean only.
-/
namespace Dispenso.Future
open Dispenso.Conc Dispenso.ConcL

/-- between the winning CAS and the store of `kReady` -/
def inRun : PC → Bool
  | .fnInc _ | .fnStore _ | .fnThrow _ | .ntStore _ => true
  | _ => false

/-- after the store of `kReady`, still inside `run(int)` -/
def inPost : PC → Bool
  | .ntWake _ | .tsSub _ => true
  | _ => false

def inFn (pc : PC) : Bool := inRun pc || inPost pc

/-- the functor's outcome is in place -/
def resOK (cfg : Cfg) (m : Fld → Int) : Prop :=
  if cfg.throws then m 6 = 1 else m 6 = 0 ∧ m 3 = cfg.val

/-- what a thread's control state implies about the memory -/
def LocS (cfg : Cfg) (m : Fld → Int) : PC → Prop
  | .fnInc _ => m 0 = 1 ∧ m 2 = 0 ∧ m 6 = 0
  | .fnStore _ => m 0 = 1 ∧ m 2 = 1 ∧ m 6 = 0 ∧ cfg.throws = false
  | .fnThrow _ => m 0 = 1 ∧ m 2 = 1 ∧ m 6 = 0 ∧ cfg.throws = true
  | .ntStore _ => m 0 = 1 ∧ m 2 = 1 ∧ resOK cfg m
  | .ntWake _ => m 0 = 2
  | .tsSub _ => m 0 = 2
  | .gtExc => m 0 = 2
  | .gtLoad => m 0 = 2 ∧ cfg.throws = false
  | .wdone => m 0 = 2
  | .gdone r => m 0 = 2 ∧ r = (if cfg.throws then -1 else cfg.val)
  | .tdone r _ => r = 1 → m 0 = 2
  | _ => True

structure InvS {cfg e} (s : State (mkP cfg e)) : Prop where
  st : s.mem 0 = 0 ∨ s.mem 0 = 1 ∨ s.mem 0 = 2
  rn : s.mem 2 = 0 ∨ s.mem 2 = 1
  z : s.mem 0 = 0 → s.mem 2 = 0 ∧ s.mem 6 = 0 ∧ ∀ t, inFn (s.loc t).pc = false
  uq : ∀ t u, inFn (s.loc t).pc = true → inFn (s.loc u).pc = true → t = u
  lc : ∀ t, LocS cfg s.mem (s.loc t).pc
  rd : s.mem 0 = 2 → s.mem 2 = 1 ∧ (resOK cfg s.mem ∨ s.mem 1 = 0)
  tz : cfg.hasTsc = true → s.mem 4 = 1 ∨ (s.mem 4 = 0 ∧ s.mem 0 = 2)
  tf : cfg.hasTsc = true → ∀ t, inFn (s.loc t).pc = true → s.mem 4 = 1

/-- the fields the S-layer looks at -/
def sameView (m m' : Fld → Int) : Prop :=
  m' 0 = m 0 ∧ m' 1 = m 1 ∧ m' 2 = m 2 ∧ m' 3 = m 3 ∧ m' 4 = m 4 ∧ m' 6 = m 6

theorem LocS_view {cfg : Cfg} {m m' : Fld → Int} (h : sameView m m') (pc : PC) (hl : LocS cfg m pc) :
    LocS cfg m' pc := by
  obtain ⟨h0, h1, h2, h3, h4, h6⟩ := h
  cases pc <;> simp only [LocS, resOK] at hl ⊢ <;> (try split at hl) <;> simp_all

theorem resOK_view {cfg : Cfg} {m m' : Fld → Int} (h : sameView m m') (hl : resOK cfg m) :
    resOK cfg m' := by
  obtain ⟨h0, h1, h2, h3, h4, h6⟩ := h
  unfold resOK at *
  split <;> simp_all

/-- a thread inside `run(int)` holds a reference -/
theorem inFn_w {pc : PC} {h : Nat} (hf : inFn pc = true) (hh : needsHandle pc = true → 1 ≤ h) :
    1 ≤ w ⟨h, pc⟩ := by
  cases pc <;> simp [inFn, inRun, inPost] at hf <;> simp only [w, pcw, needsHandle] at hh ⊢
  all_goals (rename_i k; cases k <;> simp_all [kw, kNeeds] <;> omega)

/-- frame lemma: the S-relevant memory is unchanged, threads move to control states whose local
facts hold and that are inside `run(int)` only if they were before -/
theorem invS_relabel {cfg e} {s s' : State (mkP cfg e)} (I : InvS s)
    (hv : sameView s.mem s'.mem)
    (hloc : ∀ u, LocS cfg s'.mem (s'.loc u).pc ∧
      (inFn (s'.loc u).pc = true → inFn (s.loc u).pc = true)) : InvS s' := by
  obtain ⟨h0, h1, h2, h3, h4, h6⟩ := hv
  refine ⟨by rw [h0]; exact I.st, by rw [h2]; exact I.rn, fun hz => ?_, fun t u ht hu => ?_,
    fun t => (hloc t).1, fun hr => ?_, fun ht => by rw [h4, h0]; exact I.tz ht,
    fun ht t hf => by rw [h4]; exact I.tf ht t ((hloc t).2 hf)⟩
  · rw [h0] at hz
    obtain ⟨a, b, c⟩ := I.z hz
    refine ⟨by rw [h2]; exact a, by rw [h6]; exact b, fun t => ?_⟩
    cases hf : inFn (s'.loc t).pc
    · rfl
    · have := (hloc t).2 hf; rw [c t] at this; cases this
  · exact I.uq t u ((hloc t).2 ht) ((hloc u).2 hu)
  · rw [h0] at hr
    obtain ⟨a, b⟩ := I.rd hr
    refine ⟨by rw [h2]; exact a, ?_⟩
    rcases b with b | b
    · exact Or.inl (resOK_view ⟨h0, h1, h2, h3, h4, h6⟩ b)
    · exact Or.inr (by rw [h1]; exact b)

/-- outside `run(int)` the local facts only say "the status is `kReady`" -/
theorem LocS_notFn {cfg : Cfg} {m m' : Fld → Int} {pc : PC} (hf : inFn pc = false)
    (hl : LocS cfg m pc) (h2 : m 0 = 2 → m' 0 = 2) : LocS cfg m' pc := by
  cases pc <;> simp [inFn, inRun, inPost] at hf <;> simp only [LocS] at hl ⊢ <;> simp_all

/-- restatement of `InvS` for the state in which thread `t` has moved to `l'` and the memory is `m'` -/
theorem invS_move {cfg e} {s : State (mkP cfg e)} (t : TId) (m' : Fld → Int) (l' : L)
    (hst : m' 0 = 0 ∨ m' 0 = 1 ∨ m' 0 = 2)
    (hrn : m' 2 = 0 ∨ m' 2 = 1)
    (hz : m' 0 = 0 → m' 2 = 0 ∧ m' 6 = 0 ∧ inFn l'.pc = false ∧
      ∀ u, u ≠ t → inFn (s.loc u).pc = false)
    (huq : ∀ u v, u ≠ t → v ≠ t → inFn (s.loc u).pc = true → inFn (s.loc v).pc = true → u = v)
    (huq' : inFn l'.pc = true → ∀ u, u ≠ t → inFn (s.loc u).pc = false)
    (hlt : LocS cfg m' l'.pc)
    (hlo : ∀ u, u ≠ t → LocS cfg m' (s.loc u).pc)
    (hrd : m' 0 = 2 → m' 2 = 1 ∧ (resOK cfg m' ∨ m' 1 = 0))
    (htz : cfg.hasTsc = true → m' 4 = 1 ∨ (m' 4 = 0 ∧ m' 0 = 2))
    (htf : cfg.hasTsc = true → (inFn l'.pc = true → m' 4 = 1) ∧
      ∀ u, u ≠ t → inFn (s.loc u).pc = true → m' 4 = 1) :
    InvS (setLoc { s with mem := m' } t l') := by
  refine ⟨hst, hrn, fun h0 => ?_, fun u v hu hv => ?_, fun u => ?_, hrd, htz, fun ht u hu => ?_⟩
  · obtain ⟨a, b, c, d⟩ := hz h0
    refine ⟨a, b, fun u => ?_⟩
    simp only [setLoc_loc]
    split
    · exact c
    · rename_i hut; exact d u hut
  · simp only [setLoc_loc] at hu hv
    by_cases hut : u = t <;> by_cases hvt : v = t
    · rw [hut, hvt]
    · rw [if_pos hut] at hu; rw [if_neg hvt] at hv
      rw [huq' hu v hvt] at hv; cases hv
    · rw [if_neg hut] at hu; rw [if_pos hvt] at hv
      rw [huq' hv u hut] at hu; cases hu
    · rw [if_neg hut] at hu; rw [if_neg hvt] at hv
      exact huq u v hut hvt hu hv
  · simp only [setLoc_loc]
    split
    · exact hlt
    · rename_i hut; exact hlo u hut
  · simp only [setLoc_loc] at hu
    split at hu
    · exact (htf ht).1 hu
    · rename_i hut; exact (htf ht).2 u hut hu

theorem inFn_fin (k : K) : inFn (fin k) = false := by cases k <;> rfl
theorem inFn_slow (k : K) : inFn (slow k) = false := by cases k <;> rfl
theorem LocS_fin {cfg : Cfg} {m : Fld → Int} (k : K) (h : m 0 = 2) : LocS cfg m (fin k) := by
  cases k <;> simp [fin, LocS, h]
theorem LocS_slow {cfg : Cfg} {m : Fld → Int} (k : K) : LocS cfg m (slow k) := by
  cases k <;> simp [slow, LocS]

/-- a thread inside `run(int)` keeps the reference count positive -/
theorem InvR.fn_ref {cfg e} {s : State (mkP cfg e)} (R : InvR s) {u : TId}
    (hf : inFn (s.loc u).pc = true) : 1 ≤ s.mem 1 := by
  have hu : u ∈ s.threads := R.inThreads (fun h => by rw [h] at hf; cases hf)
  have h1 := inFn_w (h := (s.loc u).h) hf (R.hh u)
  have h2 := R.w_le hu
  have : (⟨(s.loc u).h, (s.loc u).pc⟩ : L) = s.loc u := rfl
  rw [this] at h1
  omega

theorem InvR.handle_ref {cfg e} {s : State (mkP cfg e)} (R : InvR s) {u : TId}
    (hf : needsHandle (s.loc u).pc = true) : 1 ≤ s.mem 1 := by
  have hu : u ∈ s.threads := R.inThreads (fun h => by rw [h] at hf; cases hf)
  have h1 := R.hh u hf
  have h2 := R.w_le hu
  have : (s.loc u).h ≤ w (s.loc u) := by unfold w; omega
  omega

/-- frame lemma for the steps that do not write the status word, the functor's counter, the
result, the exception flag or the task-set counter -/
theorem invS_neutral {cfg e} {s : State (mkP cfg e)} (I : InvS s) (t : TId) (m' : Fld → Int) (l' : L)
    (h0 : m' 0 = s.mem 0) (h2 : m' 2 = s.mem 2) (h3 : m' 3 = s.mem 3) (h4 : m' 4 = s.mem 4)
    (h6 : m' 6 = s.mem 6) (h1 : m' 1 = s.mem 1 ∨ s.mem 1 ≠ 0)
    (hl : LocS cfg m' l'.pc) (hf : inFn l'.pc = true → inFn (s.loc t).pc = true) :
    InvS (setLoc { s with mem := m' } t l') := by
  have hres : resOK cfg s.mem → resOK cfg m' := by
    unfold resOK; rw [h3, h6]; exact id
  have hlo : ∀ u, LocS cfg s.mem (s.loc u).pc → LocS cfg m' (s.loc u).pc := by
    intro u hu
    generalize (s.loc u).pc = pc at hu
    cases pc <;> simp only [LocS, resOK] at hu ⊢ <;> simp_all
  refine invS_move t m' l' (by rw [h0]; exact I.st) (by rw [h2]; exact I.rn) (fun hz => ?_)
    (fun u v _ _ hu hv => I.uq u v hu hv) (fun hfl u hut => ?_) hl (fun u _ => hlo u (I.lc u))
    (fun hr => ?_) (fun ht => by rw [h4, h0]; exact I.tz ht) (fun ht => ⟨fun hfl => ?_, fun u _ hu => ?_⟩)
  · rw [h0] at hz
    obtain ⟨a, b, c⟩ := I.z hz
    refine ⟨by rw [h2]; exact a, by rw [h6]; exact b, ?_, fun u _ => c u⟩
    cases hx : inFn l'.pc
    · rfl
    · have := hf hx; rw [c t] at this; cases this
  · cases hx : inFn (s.loc u).pc
    · rfl
    · exact absurd (I.uq u t hx (hf hfl)) hut
  · rw [h0] at hr
    obtain ⟨a, b⟩ := I.rd hr
    refine ⟨by rw [h2]; exact a, ?_⟩
    rcases b with b | b
    · exact Or.inl (hres b)
    · rcases h1 with h1 | h1
      · exact Or.inr (by rw [h1]; exact b)
      · exact absurd b h1
  · rw [h4]; exact I.tf ht t (hf hfl)
  · rw [h4]; exact I.tf ht u hu

set_option hygiene false in
/-- close a case of `invS_step` in which the step is S-neutral and the target has no local facts -/
macro "s_neutral" : tactic => `(tactic| (
  refine invS_neutral I t _ _ (by simp [upd]) (by simp [upd]) (by simp [upd]) (by simp [upd])
    (by simp [upd]) (by first | (left; simp [upd]; done) | (right; assumption)) ?_ ?_
  · simp only [cont, contPC]
    (repeat' split) <;>
      first | exact LocS_slow _ | (simp [LocS]; done) | (simp only [LocS]; intros; omega) |
        contradiction | omega
  · simp only [cont, contPC]
    (repeat' split) <;>
      first | (simp [inFn_slow, inFn_fin, inFn, inRun, inPost]; done) | contradiction | omega))

theorem invS_step {cfg e} (hc : cfg.c = 2) {s s' : State (mkP cfg e)} {t : TId} (I : InvS s)
    (R : InvR s) (hx : exec s (.step t) = some s') : InvS s' := by
  obtain ⟨hp, hcs⟩ := exec_step hx
  rcases hcs with ⟨cur, b, ho, hm, rfl⟩ | ⟨r, m', hs, rfl⟩
  · exact ⟨I.st, I.rn, I.z, I.uq, I.lc, I.rd, I.tz, I.tf⟩
  have key : ∀ l, s.loc t = l → StepM cfg s.mem l.pc r m' →
      InvS (setLoc { s with mem := m' } t (cont cfg l r)) := by
    intro l hl h
    obtain ⟨hh, pc⟩ := l
    have hlc := I.lc t
    have hothers : inFn pc = true → ∀ u, u ≠ t → inFn (s.loc u).pc = false := by
      intro hf u hut
      cases hx : inFn (s.loc u).pc
      · rfl
      · exact absurd (I.uq u t hx (by rw [hl]; exact hf)) hut
    have hloN : ∀ (m2 : Fld → Int), (s.mem 0 = 2 → m2 0 = 2) → inFn pc = true →
        ∀ u, u ≠ t → LocS cfg m2 (s.loc u).pc := fun m2 h2 hf u hut =>
      LocS_notFn (hothers hf u hut) (I.lc u) h2
    rw [hl] at hlc
    simp only at h
    cases pc
    case idle => simp [StepM, stepRes, opPC] at h
    case done => simp [StepM, stepRes, opPC] at h
    case tdone => simp [StepM, stepRes, opPC] at h
    case bad => simp [StepM, stepRes, opPC] at h
    case wdone => simp [StepM, stepRes, opPC] at h
    case gdone => simp [StepM, stepRes, opPC] at h
    case ntWake => simp [StepM, stepRes, opPC, effRes] at h
    case rnTake => step_norm <;> s_neutral
    case rnCas k =>
      step_norm
      · -- the winning CAS
        rename_i h0
        obtain ⟨z2, z6, zf⟩ := I.z h0
        refine invS_move t _ _ (by simp [upd]) (by simp [upd, z2]) (by simp [upd])
          (fun u v _ _ hu _ => by rw [zf u] at hu; cases hu) (fun _ u _ => zf u)
          (by simp [cont, contPC, h0, LocS, upd, z2, z6])
          (fun u hut => LocS_notFn (zf u) (I.lc u) (fun h2 => by omega))
          (by simp [upd]) (fun ht => ?_) (fun ht => ⟨fun _ => ?_, fun u _ hu => by rw [zf u] at hu; cases hu⟩)
        · rcases I.tz ht with h4 | ⟨_, h4⟩
          · left; simpa [upd] using h4
          · exfalso; omega
        · rcases I.tz ht with h4 | ⟨_, h4⟩
          · simpa [upd] using h4
          · exfalso; omega
      · refine invS_neutral I t _ _ rfl rfl rfl rfl rfl (Or.inl rfl) ?_ ?_
        · simp only [cont, contPC]
          split
          · contradiction
          · exact LocS_slow _
        · simp only [cont, contPC]
          split
          · contradiction
          · rw [inFn_slow]; intro hx; cases hx
    case fnInc k =>
      step_norm
      obtain ⟨l0, l2, l6⟩ := hlc
      have hf : inFn (PC.fnInc k) = true := rfl
      refine invS_move t _ _ (by simp [upd, l0]) (by simp [upd, l2]) (by simp [upd, l0])
        (fun u v hut _ hu _ => by rw [hothers hf u hut] at hu; cases hu) (fun _ => hothers hf)
        ?_ (hloN _ (by simp [upd]) hf) (by simp [upd, l0]) (fun ht => by simpa [upd] using I.tz ht)
        (fun ht => ⟨fun _ => by simpa [upd] using I.tf ht t (by rw [hl]; exact hf), fun u hut hu => by
          rw [hothers hf u hut] at hu; cases hu⟩)
      simp only [cont, contPC]
      split <;> simp_all [LocS, upd]
    case fnStore k =>
      step_norm
      obtain ⟨l0, l2, l6, lt⟩ := hlc
      have hf : inFn (PC.fnStore k) = true := rfl
      refine invS_move t _ _ (by simp [upd, l0]) (by simp [upd, l2]) (by simp [upd, l0])
        (fun u v hut _ hu _ => by rw [hothers hf u hut] at hu; cases hu) (fun _ => hothers hf)
        (by simp [cont, contPC, LocS, upd, l0, l2, l6, resOK, lt])
        (hloN _ (by simp [upd]) hf) (by simp [upd, l0]) (fun ht => by simpa [upd] using I.tz ht)
        (fun ht => ⟨fun _ => by simpa [upd] using I.tf ht t (by rw [hl]; exact hf), fun u hut hu => by
          rw [hothers hf u hut] at hu; cases hu⟩)
    case fnThrow k =>
      step_norm
      obtain ⟨l0, l2, l6, lt⟩ := hlc
      have hf : inFn (PC.fnThrow k) = true := rfl
      refine invS_move t _ _ (by simp [upd, l0]) (by simp [upd, l2]) (by simp [upd, l0])
        (fun u v hut _ hu _ => by rw [hothers hf u hut] at hu; cases hu) (fun _ => hothers hf)
        (by simp [cont, contPC, LocS, upd, l0, l2, resOK, lt])
        (hloN _ (by simp [upd]) hf) (by simp [upd, l0]) (fun ht => by simpa [upd] using I.tz ht)
        (fun ht => ⟨fun _ => by simpa [upd] using I.tf ht t (by rw [hl]; exact hf), fun u hut hu => by
          rw [hothers hf u hut] at hu; cases hu⟩)
    case ntStore k =>
      step_norm
      obtain ⟨l0, l2, lr⟩ := hlc
      have hf : inFn (PC.ntStore k) = true := rfl
      have hr' : resOK cfg (upd s.mem 0 cfg.c) := by
        unfold resOK at lr ⊢; simpa [upd] using lr
      refine invS_move t _ _ (by simp [upd, hc]) (by simp [upd, l2]) (by simp [upd, hc])
        (fun u v hut _ hu _ => by rw [hothers hf u hut] at hu; cases hu) (fun _ => hothers hf)
        (by simp [cont, contPC, LocS, upd, hc])
        (hloN _ (by simp [upd, hc]) hf) (fun _ => ⟨by simp [upd, l2], Or.inl hr'⟩)
        (fun ht => ?_)
        (fun ht => ⟨fun _ => by simpa [upd] using I.tf ht t (by rw [hl]; exact hf), fun u hut hu => by
          rw [hothers hf u hut] at hu; cases hu⟩)
      left
      simpa [upd] using I.tf ht t (by rw [hl]; exact hf)
    case tsSub k =>
      step_norm
      have l0 : s.mem 0 = 2 := hlc
      have hf : inFn (PC.tsSub k) = true := rfl
      obtain ⟨r2, rr⟩ := I.rd l0
      refine invS_move t _ _ (by simp [upd, l0]) (by simp [upd, r2]) (by simp [upd, l0])
        (fun u v hut _ hu _ => by rw [hothers hf u hut] at hu; cases hu)
        (fun hx => by simp [cont, contPC, inFn_fin] at hx)
        (by simp only [cont, contPC]; exact LocS_fin k (by simp [upd, l0]))
        (hloN _ (by simp [upd]) hf) (fun _ => ⟨by simp [upd, r2], ?_⟩)
        (fun ht => ?_)
        (fun ht => ⟨fun hx => by simp [cont, contPC, inFn_fin] at hx, fun u hut hu => by
          rw [hothers hf u hut] at hu; cases hu⟩)
      · rcases rr with rr | rr
        · left; unfold resOK at rr ⊢; simpa [upd] using rr
        · right; simpa [upd] using rr
      · right
        have := I.tf ht t (by rw [hl]; exact hf)
        simp [upd, this, l0]
    case rcSub =>
      have hm1 : s.mem 1 ≠ 0 := by
        have ht : t ∈ s.threads := R.inThreads (fun h' => by rw [hl] at h'; cases h')
        have := R.w_le ht
        rw [hl] at this
        simp [w, pcw] at this
        omega
      step_norm
      s_neutral
    case cpAdd =>
      have hm1 : s.mem 1 ≠ 0 := by
        have := R.handle_ref (u := t) (by rw [hl]; rfl)
        omega
      step_norm
      s_neutral
    case dtExc => step_norm; s_neutral
    case dtFree => step_norm; s_neutral
    case dtStore =>
      step_norm
      obtain ⟨d1, d7⟩ := R.dz t (by rw [hl]; rfl)
      have hnofn : ∀ u, inFn (s.loc u).pc = false := by
        intro u
        cases hx : inFn (s.loc u).pc
        · rfl
        · have := R.fn_ref hx; omega
      refine invS_move t _ _ (by simpa [upd] using I.st) (by simpa [upd] using I.rn)
        (fun hz => ?_) (fun u v _ _ hu _ => by rw [hnofn u] at hu; cases hu)
        (fun _ u _ => hnofn u) (by simp [cont, contPC, LocS]) (fun u _ => ?_)
        (fun hr => ?_) (fun ht => by simpa [upd] using I.tz ht)
        (fun ht => ⟨fun hx => by simp [cont, contPC, inFn, inRun, inPost] at hx,
          fun u _ hu => by rw [hnofn u] at hu; cases hu⟩)
      · obtain ⟨a, b, c⟩ := I.z (by simpa [upd] using hz)
        exact ⟨by simpa [upd] using a, by simpa [upd] using b, by simp [cont, contPC, inFn, inRun, inPost],
          fun u _ => c u⟩
      · exact LocS_notFn (hnofn u) (I.lc u) (by simp [upd])
      · obtain ⟨a, _⟩ := I.rd (by simpa [upd] using hr)
        exact ⟨by simpa [upd] using a, Or.inr (by simpa [upd] using d1)⟩
    case wcLoad k a =>
      step_norm
      refine invS_neutral I t _ _ rfl rfl rfl rfl rfl (Or.inl rfl) ?_ ?_
      · simp only [cont, contPC]
        split
        · rename_i h0; exact LocS_fin k (by omega)
        · split
          · simp [LocS]
          · exact LocS_slow k
      · simp only [cont, contPC]
        intro hx
        (repeat' split at hx) <;>
          first | (rw [inFn_fin] at hx; cases hx) | (rw [inFn_slow] at hx; cases hx) |
            (simp [inFn, inRun, inPost] at hx)
    case evLoad k =>
      step_norm
      refine invS_neutral I t _ _ rfl rfl rfl rfl rfl (Or.inl rfl) ?_ ?_
      · simp only [cont, contPC]
        split
        · rename_i h0; exact LocS_fin k (by omega)
        · simp [LocS]
      · simp only [cont, contPC]
        intro hx
        (repeat' split at hx) <;>
          first | (rw [inFn_fin] at hx; cases hx) | (rw [inFn_slow] at hx; cases hx) |
            (simp [inFn, inRun, inPost] at hx)
    case evWait k c => step_norm; s_neutral
    case tfClock rel fut => step_norm; s_neutral
    case wuLoad abs => step_norm; s_neutral
    case wuClock abs => step_norm; s_neutral
    case wfLoad0 rel lb => step_norm; s_neutral
    case wfLoad rel lb => step_norm; s_neutral
    case wfWait rel lb c => step_norm; s_neutral
    case gtExc =>
      step_norm
      have l0 : s.mem 0 = 2 := hlc
      have hm1 := R.handle_ref (u := t) (by rw [hl]; rfl)
      have hres : resOK cfg s.mem := by
        rcases (I.rd l0).2 with hr | hr
        · exact hr
        · omega
      refine invS_neutral I t _ _ rfl rfl rfl rfl rfl (Or.inl rfl) ?_ (by
        simp only [cont, contPC]; split <;> simp [inFn, inRun, inPost])
      simp only [cont, contPC]
      unfold resOK at hres
      split
      · rename_i h6
        refine ⟨l0, ?_⟩
        split at hres
        · omega
        · rename_i ht; simpa using ht
      · rename_i h6
        refine ⟨l0, ?_⟩
        split at hres
        · rename_i ht; simp [ht]
        · omega
    case gtLoad =>
      step_norm
      obtain ⟨l0, lt⟩ := hlc
      have hm1 := R.handle_ref (u := t) (by rw [hl]; rfl)
      have hres : resOK cfg s.mem := by
        rcases (I.rd l0).2 with hr | hr
        · exact hr
        · omega
      refine invS_neutral I t _ _ rfl rfl rfl rfl rfl (Or.inl rfl) ?_ (by
        simp [cont, contPC, inFn, inRun, inPost])
      simp only [cont, contPC]
      unfold resOK at hres
      rw [lt] at hres
      simp at hres
      exact ⟨l0, by simp [lt, hres.2]⟩
    case irLoad => step_norm; s_neutral
    case twLoad => step_norm; s_neutral
    case twLoad2 => step_norm; s_neutral
    case tick n => step_norm; s_neutral
  exact key _ rfl hs

/-- a thread leaving a futex wait re-reads the status: no local facts, not inside `run(int)` -/
theorem unpark_S {cfg : Cfg} {l : L} {cur : Int} {b : Bool} (m : Fld → Int)
    (ho : opPC cfg l.pc = some (.fwait 0 cur b)) (r : Int) :
    LocS cfg m (cont cfg l r).pc ∧ inFn (cont cfg l r).pc = false := by
  obtain ⟨hh, pc⟩ := l
  cases pc <;> simp only [opPC, reduceCtorEq, Option.some.injEq] at ho
  case evWait k c => simp [cont, contPC, LocS, inFn, inRun, inPost]
  case wfWait rel lb c =>
    simp only [cont, contPC]
    split <;> simp [LocS, inFn, inRun, inPost]

theorem sameView_refl (m : Fld → Int) : sameView m m := ⟨rfl, rfl, rfl, rfl, rfl, rfl⟩

theorem invS_wake {cfg e} {s s' : State (mkP cfg e)} {t : TId} {ws : List TId} (I : InvS s)
    (R : InvR s) (h : exec s (.wake t ws) = some s') : InvS s' := by
  obtain ⟨hp, f, n, ho, hnd, hsub, hall, htw, rfl⟩ := exec_wake_inv h
  have ho' : opPC cfg (s.loc t).pc = some (.fwake f n) := ho
  refine invS_relabel I (by simpa using sameView_refl s.mem) (fun u => ?_)
  simp only [setLoc_loc, setLoc_mem, unparkAll_mem, unparkAll_loc s ws hnd]
  split
  · rename_i hut
    subst hut
    have hlc := I.lc u
    generalize s.loc u = l at ho' hlc ⊢
    obtain ⟨hh, pc⟩ := l
    cases pc <;> simp only [opPC, reduceCtorEq, Option.some.injEq] at ho'
    case ntWake k =>
      have l0 : s.mem 0 = 2 := hlc
      simp only [cont, contPC]
      split
      · exact ⟨l0, fun _ => rfl⟩
      · exact ⟨LocS_fin k l0, fun hx => by rw [inFn_fin] at hx; cases hx⟩
  · split
    · rename_i huw
      obtain ⟨_, b, hb⟩ := (mem_parkedOn s f u).mp (hsub u huw)
      obtain ⟨rfl, cur, hcur⟩ := R.pk u f b hb
      obtain ⟨h1, h2⟩ := unpark_S s.mem hcur rWoken
      exact ⟨h1, fun hx => by rw [h2] at hx; cases hx⟩
    · exact ⟨I.lc u, id⟩

theorem invS_unpark {cfg e} {s s' : State (mkP cfg e)} {t : TId} (I : InvS s) (R : InvR s)
    (h : exec s (.timeout t) = some s' ∨ exec s (.spurious t) = some s') : InvS s' := by
  obtain ⟨p, r, hp, rfl⟩ := exec_unpark_inv h
  obtain ⟨f, b⟩ := p
  obtain ⟨rfl, cur, hcur⟩ := R.pk t f b hp
  refine invS_relabel I (by simpa using sameView_refl s.mem) (fun u => ?_)
  simp only [setLoc_loc, setLoc_mem, setParked_mem, setParked_loc]
  split
  · rename_i hut
    subst hut
    obtain ⟨h1, h2⟩ := unpark_S s.mem hcur r
    exact ⟨h1, fun hx => by rw [h2] at hx; cases hx⟩
  · exact ⟨I.lc u, id⟩

/-- the entry points of the Future's client contract carry no local facts -/
theorem futEntry_S {cfg : Cfg} {l l' : L} (h : futEntry cfg l l' = true) (m : Fld → Int) :
    LocS cfg m l'.pc ∧ inFn l'.pc = false := by
  obtain ⟨h0, pc⟩ := l
  obtain ⟨h1, pc'⟩ := l'
  simp only [futEntry, Bool.and_eq_true, Bool.or_eq_true, decide_eq_true_eq] at h
  obtain ⟨_, hc⟩ := h
  rcases hc with (⟨_, hf⟩ | ⟨_, hf⟩) | ⟨_, rfl⟩
  · cases pc' <;> simp_all [freeEntry, LocS, inFn, inRun, inPost]
  · cases pc' <;> simp_all [handleEntry, LocS, inFn, inRun, inPost]
  · simp [LocS, inFn, inRun, inPost]

theorem invS_call {cfg} {s s' : State (mkP cfg (futEntry cfg))} {t : TId} {l : L} (I : InvS s)
    (h : exec s (.call t l) = some s') : InvS s' := by
  obtain ⟨hp, ho, he, hm, hpk, hloc, hth⟩ := exec_call_inv h
  refine invS_relabel I (by rw [hm]; exact sameView_refl _) (fun u => ?_)
  rw [hloc, hm]
  split
  · obtain ⟨h1, h2⟩ := futEntry_S he s.mem
    exact ⟨h1, fun hx => by rw [h2] at hx; cases hx⟩
  · exact ⟨I.lc u, id⟩

theorem invS_exec {cfg} (hc : cfg.c = 2) {s s' : State (mkP cfg (futEntry cfg))}
    (a : Act (mkP cfg (futEntry cfg))) (I : InvS s) (R : InvR s) (h : exec s a = some s') :
    InvS s' := by
  cases a with
  | step t => exact invS_step hc I R h
  | wake t ws => exact invS_wake I R h
  | timeout t => exact invS_unpark I R (Or.inl h)
  | spurious t => exact invS_unpark I R (Or.inr h)
  | call t l => exact invS_call I h

theorem invS_init (cfg : Cfg) (hs : List Nat) (now : Int) :
    InvS (cfg := cfg) (e := futEntry cfg) (futInit cfg hs now) := by
  refine ⟨Or.inl rfl, Or.inl rfl, fun _ => ⟨rfl, rfl, fun _ => rfl⟩, fun t u h => (by cases h),
    fun t => trivial, fun h => (by cases h), fun ht => Or.inl ?_, fun _ t h => (by cases h)⟩
  simp [futInit, ht]

/-- both invariants hold in every reachable state of a Future (`cfg.c = 2`) -/
theorem inv_reachable {cfg : Cfg} (hc : cfg.c = 2) {hs : List Nat} {now : Int}
    {s : State (futProto cfg)} (h : Reachable (futInit cfg hs now) s) :
    InvR (cfg := cfg) (e := futEntry cfg) s ∧ InvS (cfg := cfg) (e := futEntry cfg) s :=
  invariant (P := mkP cfg (futEntry cfg)) (fun s => InvR s ∧ InvS s)
    ⟨invR_init cfg hs now, invS_init cfg hs now⟩
    (fun _ a _ I he => ⟨invR_exec a I.1 he, invS_exec hc a I.2 I.1 he⟩) s h

end Dispenso.Future
