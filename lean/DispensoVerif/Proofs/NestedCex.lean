import DispensoVerif.Proofs.Nested
/-! Negative witnesses for C06: two acyclic programs (not in fork-join discipline: a task waits on a set
    scheduled by another task) with a reachable state in which tasks are unfinished and no thread can
    take any step. -/
namespace Dispenso.Nested

/-! ### (i) the helping wait buries the awaited task

Root task 0 schedules `a = 1` (set 1) and `b = 2` (set 2) and waits.  `a` waits on set 2 (a set it did
not schedule).  `b` schedules `d = 3` into its own set 3 and waits.  One thread executes everything
(the worker exists but is never scheduled before the final state, where nothing is queued any more):
it takes `b`; `b` waits for its child and, helping, takes `a` onto the stack above itself; `a` waits
for set 2, i.e. for `b`, helping: it takes and finishes `d`.  Now `a` (top of the stack) waits for `b`,
which sits below it on the same stack and can only continue after `a` returns.  Every actor polls every
tier in this configuration. -/
def progBuried : Prog where
  scripts := [[.spawn 1 1, .spawn 2 2, .wait 2 true, .wait 1 true], [.wait 2 true], [.spawn 3 3, .wait 3 true], []]
  roots := [0]

def evsBuried : List Ev :=
  [.decide 1 1 1 .central 0, .decide 1 2 2 .central 0, .take 1 2 .central, .decide 1 3 3 .central 0,
   .take 1 1 .central, .take 1 3 .central, .finish 1]

theorem buried_runs : (runEvents (cfgAll 1) (init (cfgAll 1) progBuried) evsBuried).isSome = true := by decide

theorem buried_stuck (s : St) (h : runEvents (cfgAll 1) (init (cfgAll 1) progBuried) evsBuried = some s) :
    Stuck (cfgAll 1) s := by
  simp [runEvents, evsBuried, step?, init, progBuried, cfgAll, St.consume, St.place, St.start, Prog.script, upd] at h
  subst h
  refine ⟨⟨2, Or.inl (by simp [upd])⟩, ?_⟩
  apply no_step_of_blocked
  · intro th
    by_cases h1 : th = 1
    · subst h1
      refine Or.inr ⟨1, [2, 0], 2, true, [], by simp [upd], by simp, by simp [upd, Prog.script], by simp, ?_, by simp⟩
      intro _ c T hq
      simp only [upd] at hq
      split_ifs at hq
    · refine Or.inl ?_
      simp only [upd, if_neg h1]
      rcases th with _ | _ | th
      · simp
      · exact absurd rfl h1
      · simp
  · intro th c T _ hq
    simp only [upd] at hq
    split_ifs at hq

theorem buried_acyclic : Acyclic progBuried :=
  acyclic_of_check (fun t => match t with | 0 => 3 | 1 => 2 | 2 => 1 | _ => 0) (by decide)

/-! ### (ii) waiters do not poll the steal rings

Unchanged code configuration (`cfgCode`), one worker (thread 0) and the main thread (thread 1).  The root
schedules `a = 1` to the central queue, then schedules `b = 2` by placed scheduling: it claims the parked
worker; the woken worker first finds `a` in the central queue and runs it; `a` waits on set 2 (which it
did not schedule); the root's push puts `b` into steal ring 0.  Now both threads are inside helping
waits for set 2, whose only member sits in a tier no waiter polls, and the only worker is not idle. -/
def progSteal : Prog where
  scripts := [[.spawn 1 1, .spawn 2 2, .wait 2 true, .wait 1 true], [.wait 2 true], []]
  roots := [0]

def evsSteal : List Ev :=
  [.decide 1 1 1 .central 0, .decide 1 2 2 (.steal 0) 0, .take 0 1 .central, .push 1 (.steal 0)]

theorem steal_runs : (runEvents (cfgCode 1) (init (cfgCode 1) progSteal) evsSteal).isSome = true := by decide

theorem steal_stuck (s : St) (h : runEvents (cfgCode 1) (init (cfgCode 1) progSteal) evsSteal = some s) :
    Stuck (cfgCode 1) s := by
  simp [runEvents, evsSteal, step?, init, progSteal, cfgCode, St.consume, St.place, St.start, Prog.script, upd] at h
  subst h
  refine ⟨⟨2, Or.inr ⟨.steal 0, by simp [upd]⟩⟩, ?_⟩
  apply no_step_of_blocked
  · intro th
    rcases th with _ | _ | th
    · refine Or.inr ⟨1, [], 2, true, [], by simp [upd], by simp [upd], by simp [upd, Prog.script], by simp [upd], ?_, by simp⟩
      intro _ c T hq
      simp only [upd] at hq
      split_ifs at hq
      cases hq; rfl
    · refine Or.inr ⟨0, [], 2, true, [.wait 1 true], by simp [upd], by simp [upd], by simp [upd], by simp [upd], ?_, by simp⟩
      intro _ c T hq
      simp only [upd] at hq
      split_ifs at hq
      cases hq; rfl
    · exact Or.inl (by simp [upd])
  · intro th c T hst hq
    rcases th with _ | _ | th
    · simp [upd] at hst
    · simp [upd] at hst
    · intro ⟨hlt, _⟩; simp [cfgCode] at hlt

theorem steal_acyclic : Acyclic progSteal :=
  acyclic_of_check (fun t => match t with | 0 => 2 | 1 => 1 | _ => 0) (by decide)

end Dispenso.Nested
