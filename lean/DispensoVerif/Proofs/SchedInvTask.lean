import DispensoVerif.Proofs.SchedMeas

/-!
Preservation of the task bookkeeping invariants (exactly-once, exception state, rings,
conservation of submitted tasks) by every `Step`.
-/
set_option linter.unusedSimpArgs false

namespace Dispenso.Sched

section
variable {s s' : St} {t : Nat} {f : Frame} {rest : List Frame} {e : Ev}

/-! ## exactly-once bookkeeping (C01) -/

theorem runs_step (hw : WF' s.tids s.thr) (hs : norm (s.thr t) = f :: rest) (i : Nat)
    (ha : (s.begun.count i : Int) = s.ended.count i + tot (mRun i) s)
    (h : Step s t f rest e s') :
    (s'.begun.count i : Int) = s'.ended.count i + tot (mRun i) s' := by
  simp only [tot] at ha
  cases h
  all_goals meas_fin hw

theorem subNd_step (ha : (s.sub.map Prod.fst).Nodup) (h : Step s t f rest e s') :
    (s'.sub.map Prod.fst).Nodup := by
  cases h
  case callSched set id fq hd hid hp =>
    simp only [setStack_sub, List.map_cons, List.nodup_cons]
    refine ⟨fun hm => ?_, ha⟩
    obtain ⟨p, hp1, hp2⟩ := List.mem_map.1 hm
    exact hid p hp1 hp2
  case gen id hk hd hid =>
    simp only [setStack_sub, List.map_cons, List.nodup_cons]
    refine ⟨fun hm => ?_, ha⟩
    obtain ⟨p, hp1, hp2⟩ := List.mem_map.1 hm
    exact hid p hp1 hp2
  all_goals exact ha

theorem begNd_step (ha : s.begun.Nodup) (h : Step s t f rest e s') : s'.begun.Nodup := by
  cases h
  case beginTook id hb hp hsub hq => exact List.nodup_cons.2 ⟨hb, ha⟩
  case beginGuarded id st hb hp hsub => exact List.nodup_cons.2 ⟨hb, ha⟩
  case beginInlPool id hb hp hr hfq => exact List.nodup_cons.2 ⟨hb, ha⟩
  case beginInlGuarded id st hb hp hr hfq htc => exact List.nodup_cons.2 ⟨hb, ha⟩
  case beginInlTs id hb hp hr hfq => exact List.nodup_cons.2 ⟨hb, ha⟩
  all_goals exact ha

theorem begSub_step (hf : FrameOK s.sub f) (ha : ∀ i ∈ s.begun, ∃ S, (i, S) ∈ s.sub)
    (h : Step s t f rest e s') : ∀ i ∈ s'.begun, ∃ S, (i, S) ∈ s'.sub := by
  obtain ⟨f1, _, _, _, _⟩ := hf
  have hb : ∀ (id st : Nat), (id, st) ∈ s.sub → ∀ i ∈ id :: s.begun, ∃ S, (i, S) ∈ s.sub := by
    intro id st hm i hi
    rcases List.mem_cons.1 hi with rfl | hi
    · exact ⟨st, hm⟩
    · exact ha i hi
  cases h
  case callSched set id fq hd hid hp =>
    intro i hi
    obtain ⟨S, hS⟩ := ha i hi
    exact ⟨S, List.mem_cons_of_mem _ hS⟩
  case gen id hk hd hid =>
    intro i hi
    obtain ⟨S, hS⟩ := ha i hi
    exact ⟨S, List.mem_cons_of_mem _ hS⟩
  case beginTook id hb' hp hsub hq => exact hb _ _ hsub
  case beginGuarded id st hb' hp hsub => exact hb _ _ hsub
  case beginInlPool id hb' hp hr hfq => exact hb _ _ (f1 (id, 0) (by simp [hr])).1
  case beginInlGuarded id st hb' hp hr hfq htc => exact hb _ _ (f1 (id, st) (by simp [hr])).1
  case beginInlTs id hb' hp hr hfq => exact hb _ _ (f1 (id, f.set) (by simp [hr])).1
  all_goals exact ha

/-! ## exception state (C05) -/

theorem cap_step
    (ha : s.captured.Nodup ∧ ∀ S, (S ∈ s.captured → s.captures S = s.rethrows S + 1) ∧
      (S ∉ s.captured → s.captures S = s.rethrows S))
    (h : Step s t f rest e s') :
    s'.captured.Nodup ∧ ∀ S, (S ∈ s'.captured → s'.captures S = s'.rethrows S + 1) ∧
      (S ∉ s'.captured → s'.captures S = s'.rethrows S) := by
  cases h
  case tsCapture set hn =>
    refine ⟨List.nodup_cons.2 ⟨hn, ha.1⟩, fun S => ?_⟩
    have := ha.2 S
    have h2 := ha.2 set
    by_cases hS : S = set
    · subst hS
      simp [h2.2 hn]
    · simpa [hS] using this
  case tsRethrow set hk hset hz hc =>
    refine ⟨ha.1.erase _, fun S => ?_⟩
    have := ha.2 S
    have h2 := ha.2 set
    by_cases hS : S = set
    · subst hS
      simp [upd_apply, ha.1.mem_erase_iff, h2.1 hc]
    · simpa [hS, ha.1.mem_erase_iff] using this
  all_goals exact ha

/-! ## rings (C03) -/

theorem ring_step (ha : ∀ c ∈ s.tierItems, isRing c = true → ringIdx c < s.nRings)
    (h : Step s t f rest e s') : ∀ c ∈ s'.tierItems, isRing c = true → ringIdx c < s'.nRings := by
  cases h
  case push tier n hk hr hn1 hn2 hts hall =>
    intro c hc
    simp only [setStack_tierItems, List.mem_append, List.mem_replicate] at hc
    rcases hc with ⟨_, rfl⟩ | hc
    · exact hr
    · exact ha c hc
  case take tier hp hpd hk1 hk2 hk3 hm =>
    intro c hc
    exact ha c (List.mem_of_mem_erase hc)
  case rings n hk hall => exact hall
  case ctor n hk he hr =>
    intro c hc
    simp [he] at hc
  all_goals exact ha


/-! ## conservation of submitted tasks (C01 / C02 counting form) -/

/-- number of submitted tasks of set `S` -/
def subOf (S : Nat) (sub : List (Nat × Nat)) : Nat := (sub.filter (fun p => p.2 = S)).length
/-- number of begun tasks of set `S` -/
def begunOf (S : Nat) (begun : List Nat) (sub : List (Nat × Nat)) : Nat :=
  (begun.filter (fun i => (i, S) ∈ sub)).length

theorem subOf_cons (S id st : Nat) (sub : List (Nat × Nat)) :
    subOf S ((id, st) :: sub) = subOf S sub + if st = S then 1 else 0 := by
  unfold subOf
  by_cases h : st = S <;> simp [List.filter_cons, h]

theorem begunOf_cons_sub {S id st : Nat} {begun : List Nat} {sub : List (Nat × Nat)}
    (hb : ∀ i ∈ begun, ∃ S', (i, S') ∈ sub) (hid : ∀ p ∈ sub, p.1 ≠ id) :
    begunOf S begun ((id, st) :: sub) = begunOf S begun sub := by
  unfold begunOf
  congr 1
  apply List.filter_congr
  intro i hi
  obtain ⟨S', hS'⟩ := hb i hi
  have : i ≠ id := hid _ hS'
  simp [this]

theorem begunOf_cons_begun {S id st : Nat} {begun : List Nat} {sub : List (Nat × Nat)}
    (hnd : (sub.map Prod.fst).Nodup) (hm : (id, st) ∈ sub) :
    begunOf S (id :: begun) sub = begunOf S begun sub + if st = S then 1 else 0 := by
  unfold begunOf
  by_cases h : st = S
  · subst h
    simp [List.filter_cons, hm]
  · have : (id, S) ∉ sub := fun h' => h (sub_unique hnd hm h')
    simp [List.filter_cons, this, h]

theorem count_map_snd (S : Nat) (l : List (Nat × Nat)) :
    (l.map Prod.snd).count S = (l.filter (fun p => p.2 = S)).length := by
  induction l with
  | nil => rfl
  | cons p l ih =>
    by_cases h : p.2 = S <;> simp [List.count_cons, List.filter_cons, ih, h]

theorem take_drop_resv (S n : Nat) (l : List (Nat × Nat)) :
    ((l.take n).map Prod.snd).count S + ((l.drop n).filter (fun p => p.2 = S)).length
      = (l.filter (fun p => p.2 = S)).length := by
  rw [count_map_snd, ← List.length_append, ← List.filter_append, List.take_append_drop]

theorem cons_step (hw : WF' s.tids s.thr) (hf : FrameOK s.sub f) (hs : norm (s.thr t) = f :: rest)
    (hnd : (s.sub.map Prod.fst).Nodup) (hb : ∀ i ∈ s.begun, ∃ S, (i, S) ∈ s.sub) (S : Nat)
    (ha : (subOf S s.sub : Int) = tot (mResv S) s + s.queuedSets.count S + tot (mGuarded S) s +
      begunOf S s.begun s.sub + s.skipped S + s.dropped S)
    (h : Step s t f rest e s') :
    (subOf S s'.sub : Int) = tot (mResv S) s' + s'.queuedSets.count S + tot (mGuarded S) s' +
      begunOf S s'.begun s'.sub + s'.skipped S + s'.dropped S := by
  obtain ⟨f1, hcan, hoth, _, _⟩ := hf
  simp only [tot] at ha
  cases h
  case callSched set id fq hd hid hp =>
    have h1 := subOf_cons S id set s.sub
    have h2 := begunOf_cons_sub (S := S) (st := set) hb hid
    simp only [setStack_sub, setStack_begun, h1, h2]
    meas_fin hw
  case gen id hk hd hid =>
    have h1 := subOf_cons S id f.set s.sub
    have h2 := begunOf_cons_sub (S := S) (st := f.set) hb hid
    simp only [setStack_sub, setStack_begun, h1, h2]
    meas_fin hw
  case beginTook id hb' hp hsub hq =>
    have h2 := begunOf_cons_begun (S := S) (begun := s.begun) hnd hsub
    have := List.count_pos_iff.2 hq
    simp only [setStack_sub, setStack_begun, h2]
    meas_fin hw
  case beginGuarded id st hb' hp hsub =>
    have h2 := begunOf_cons_begun (S := S) (begun := s.begun) hnd hsub
    simp only [setStack_sub, setStack_begun, h2]
    meas_fin hw
  case beginInlPool id hb' hp hr hfq =>
    have h2 := begunOf_cons_begun (S := S) (begun := s.begun) hnd (f1 (id, 0) (by simp [hr])).1
    simp only [setStack_sub, setStack_begun, h2]
    meas_fin hw
  case beginInlGuarded id st hb' hp hr hfq htc =>
    have h2 := begunOf_cons_begun (S := S) (begun := s.begun) hnd (f1 (id, st) (by simp [hr])).1
    simp only [setStack_sub, setStack_begun, h2]
    meas_fin hw
  case beginInlTs id hb' hp hr hfq =>
    have h2 := begunOf_cons_begun (S := S) (begun := s.begun) hnd (f1 (id, f.set) (by simp [hr])).1
    simp only [setStack_sub, setStack_begun, h2]
    meas_fin hw
  case push tier n hk hr hn1 hn2 hts hall =>
    have hcm := take_drop_resv S n f.resv
    simp only [placed]
    generalize hmv : (f.resv.take n).map Prod.snd = moved at *
    meas_fin hw
  case guardTookSkip set hp h0 hq hpd =>
    have := List.count_pos_iff.2 hq
    meas_fin hw
  case guardTookPass set hc hp h0 hq hpd =>
    have := List.count_pos_iff.2 hq
    meas_fin hw
  case guardDrop set x hk hset h0 hp hr =>
    have := (f1 x (by simp [hr])).2
    meas_fin hw
  all_goals meas_fin hw


end
end Dispenso.Sched
