import DispensoVerif.Model.SmallBuf
import Mathlib.Data.List.Perm.Basic
import Mathlib.Tactic.SplitIfs
/-
Helper lemmas for C41 (`SmallBufferAllocator`): every action of the model is an action of one thread
on the shared memory and its own record; the lemmas below describe the effect of such a local
transition on (a) the block tokens (`loc`: a permutation, plus the fresh blocks of a new slab),
(b) the per-thread shape invariant `TInv` (cache/hold sizes per control point), (c) the lock word and
the number of threads inside the critical section, and lift them to the global state.
-/
namespace Dispenso.SmallBuf
open List

/-- `l₁ ~ l₂` by counting: all the lists involved are `++`/`::` combinations of the same atoms -/
macro "perm_count" : tactic =>
  `(tactic| (rw [List.perm_iff_count]; intro y;
             simp only [List.count_append, List.count_cons, List.count_nil]; omega))

theorem removeAll_perm : ∀ (bs l rest : List Blk), removeAll l bs = some rest → l ~ bs ++ rest
  | [], l, rest, h => by simp [removeAll] at h; subst h; simp
  | b :: bs, l, rest, h => by
    simp only [removeAll] at h
    split_ifs at h with hb
    have ih := removeAll_perm bs (l.erase b) rest h
    exact (perm_cons_erase hb).trans (by simpa using ih.cons b)

theorem flatMap_erase_perm {α β : Type} [DecidableEq α] (f : α → List β) {x : α} {l : List α} (h : x ∈ l) :
    l.flatMap f ~ f x ++ (l.erase x).flatMap f := by
  have := (perm_cons_erase h).flatMap_right f
  simpa using this

theorem countP_erase_add {α : Type} [DecidableEq α] (p : α → Bool) {x : α} {l : List α} (h : x ∈ l) :
    l.countP p = (l.erase x).countP p + if p x = true then 1 else 0 := by
  have := (perm_cons_erase h).countP_eq p
  rw [this, countP_cons]

theorem findT_some {s : St} {t : TId} {x : Thr} (h : findT s t = some x) : x ∈ s.thr ∧ x.tid = t := by
  unfold findT at h
  exact ⟨mem_of_find?_eq_some h, by simpa using find?_some h⟩

/-! ### local transitions -/

/-- the tokens a local transition can touch -/
def loc (g : Sh) (x : Thr) : List Blk := g.central ++ g.live ++ tblocks x

/-- the blocks of the slabs obtained between `g` and `g'` -/
def fresh (c : Cfg) (g g' : Sh) : List Blk :=
  List.range' (g.nextChunk * c.P) ((g'.nextChunk - g.nextChunk) * c.P)

/-- shape of a thread record at each control point -/
def TInv (c : Cfg) (x : Thr) : Prop :=
  match x.pc with
  | .gDeq | .gFaa | .gSpin | .gMalloc => x.cache = [] ∧ x.hold = []
  | .gPushRd _ | .gPushWr _ _ | .gEnq => x.cache = [] ∧ x.hold.length = c.P
  | .gUnlock | .gFill => x.cache = [] ∧ x.hold.length = c.I
  | .aPop => x.hold = [] ∧ x.cache ≠ [] ∧ x.cache.length < 2 * c.I
  | .dPush => x.hold.length = 1 ∧ x.cache.length < 2 * c.I
  | .dRecycle => x.hold = [] ∧ x.cache.length = 2 * c.I
  | .bCas e => (x.hold = [] ∧ x.cache.length < 2 * c.I) ∧ (c.fixed = true → e = 0)
  | _ => x.hold = [] ∧ x.cache.length < 2 * c.I

/-- a local transition: same tid, tokens conserved up to the fresh slab, shape kept -/
structure LocalOK (c : Cfg) (g : Sh) (x : Thr) (g' : Sh) (x' : Thr) : Prop where
  tid : x'.tid = x.tid
  mono : g.nextChunk ≤ g'.nextChunk
  perm : loc g' x' ~ loc g x ++ fresh c g g'
  tinv : TInv c x'

theorem fresh_same (c : Cfg) {g g' : Sh} (h : g'.nextChunk = g.nextChunk) : fresh c g g' = [] := by
  simp [fresh, h]

theorem tcall_ok (c : Cfg) {g : Sh} {x : Thr} {cl : Call} {g' : Sh} {x' : Thr}
    (hx : TInv c x) (h : tcall g x cl = some (g', x')) : LocalOK c g x g' x' := by
  cases cl with
  | alloc =>
    simp only [tcall] at h
    split_ifs at h with hp
    obtain ⟨rfl, rfl⟩ := by simpa using h
    simp only [TInv, hp] at hx
    exact ⟨rfl, Nat.le_refl _, by simp [fresh, loc, tblocks], by simpa [TInv] using hx⟩
  | bytes =>
    simp only [tcall] at h
    split_ifs at h with hp
    obtain ⟨rfl, rfl⟩ := by simpa using h
    simp only [TInv, hp] at hx
    exact ⟨rfl, Nat.le_refl _, by simp [fresh, loc, tblocks], by simpa [TInv] using hx⟩
  | dealloc b =>
    simp only [tcall] at h
    split_ifs at h with hp
    obtain ⟨rfl, rfl⟩ := by simpa using h
    obtain ⟨hp, hb⟩ := hp
    simp only [TInv, hp] at hx
    refine ⟨rfl, Nat.le_refl _, ?_, by simpa [TInv] using hx.2⟩
    have := perm_cons_erase hb
    simp only [loc, tblocks, fresh, hx.1, Nat.sub_self, Nat.zero_mul, range'_zero, append_nil]
    have h2 : g.central ++ g.live ++ x.cache ~ g.central ++ (b :: g.live.erase b) ++ x.cache :=
      (this.append_left _).append_right _
    refine Perm.trans ?_ h2.symm
    perm_count

theorem tret_ok (c : Cfg) {g : Sh} {x : Thr} {g' : Sh} {x' : Thr}
    (hx : TInv c x) (h : tret g x = some (g', x')) : LocalOK c g x g' x' := by
  unfold tret at h
  split at h <;> first
    | (rename_i hp
       obtain ⟨rfl, rfl⟩ := by simpa using h
       simp only [TInv, hp] at hx
       exact ⟨rfl, Nat.le_refl _, by simp [fresh, loc, tblocks], by simpa [TInv] using hx⟩)
    | simp at h

theorem tspur_ok (c : Cfg) {g : Sh} {x : Thr} {g' : Sh} {x' : Thr}
    (hx : TInv c x) (h : tspur c g x = some (g', x')) : LocalOK c g x g' x' := by
  unfold tspur at h
  split at h
  · rename_i hp
    obtain ⟨rfl, rfl⟩ := by simpa using h
    simp only [TInv, hp] at hx
    refine ⟨rfl, Nat.le_refl _, by simp [fresh, loc, tblocks], ?_⟩
    simp only [TInv]
    exact ⟨hx.1, fun hf => by simp [hf]⟩
  · simp at h

theorem tdeq_ok (c : Cfg) (hI : 1 ≤ c.I) {g : Sh} {x : Thr} {bs : List Blk} {g' : Sh} {x' : Thr}
    (hx : TInv c x) (h : tdeq c g x bs = some (g', x')) : LocalOK c g x g' x' := by
  unfold tdeq at h
  by_cases hp : x.pc = .gDeq ∧ bs.length ≤ c.I
  · rw [if_pos hp] at h
    obtain ⟨hp, hlen⟩ := hp
    simp only [TInv, hp] at hx
    cases hr : removeAll g.central bs with
    | none => simp [hr] at h
    | some rest =>
      rw [hr] at h
      by_cases hb : bs = []
      · simp only [if_pos hb] at h
        obtain ⟨rfl, rfl⟩ := by simpa using h
        exact ⟨rfl, Nat.le_refl _, by simp [fresh, loc, tblocks], by simpa [TInv] using hx⟩
      · simp only [if_neg hb] at h
        obtain ⟨rfl, rfl⟩ := by simpa using h
        refine ⟨rfl, Nat.le_refl _, ?_, ?_⟩
        · have := removeAll_perm bs g.central rest hr
          simp only [loc, tblocks, fresh, hx.1, hx.2, Nat.sub_self, Nat.zero_mul, range'_zero, append_nil]
          have h2 : g.central ++ g.live ~ (bs ++ rest) ++ g.live := this.append_right _
          refine Perm.trans ?_ h2.symm
          perm_count
        · simp only [TInv]
          exact ⟨hx.2, hb, by omega⟩
  · rw [if_neg hp] at h
    simp at h

theorem tstep_ok (c : Cfg) (hI : 1 ≤ c.I) (hP : c.I ≤ c.P) {g : Sh} {x : Thr} {g' : Sh} {x' : Thr}
    (hx : TInv c x) (h : tstep c g x = some (g', x')) : LocalOK c g x g' x' := by
  unfold tstep at h
  cases hp : x.pc <;> simp only [hp] at h <;> simp only [TInv, hp] at hx
  case idle | gDeq | aRet | dRet | bRet => simp at h
  case aStart =>
    obtain ⟨rfl, rfl⟩ := by simpa using h
    refine ⟨rfl, Nat.le_refl _, by simp [fresh, loc, tblocks], ?_⟩
    by_cases hc : x.cache = []
    · simp [TInv, hc, hx.1]
    · simp only [TInv, if_neg hc]; exact ⟨hx.1, hc, hx.2⟩
  case gFaa =>
    obtain ⟨rfl, rfl⟩ := by simpa using h
    refine ⟨rfl, Nat.le_refl _, by simp [fresh, loc, tblocks], ?_⟩
    by_cases hl : g.lock = 0 <;> simp [TInv, hl, hx.1, hx.2]
  case gSpin =>
    obtain ⟨rfl, rfl⟩ := by simpa using h
    refine ⟨rfl, Nat.le_refl _, by simp [fresh, loc, tblocks], ?_⟩
    by_cases hl : g.lock = 0 <;> simp [TInv, hl, hx.1, hx.2]
  case gMalloc =>
    obtain ⟨rfl, rfl⟩ := by simpa using h
    refine ⟨rfl, Nat.le_succ _, ?_, by simp [TInv, hx.1]⟩
    simp only [loc, tblocks, fresh, hx.1, hx.2, Nat.add_sub_cancel_left, Nat.one_mul, append_nil, nil_append]
    exact Perm.refl _
  case gPushRd ch =>
    obtain ⟨rfl, rfl⟩ := by simpa using h
    exact ⟨rfl, Nat.le_refl _, by simp [fresh, loc, tblocks], by simpa [TInv] using hx⟩
  case gPushWr ch n =>
    obtain ⟨rfl, rfl⟩ := by simpa using h
    exact ⟨rfl, Nat.le_refl _, by simp [fresh, loc, tblocks], by simpa [TInv] using hx⟩
  case gEnq =>
    obtain ⟨rfl, rfl⟩ := by simpa using h
    refine ⟨rfl, Nat.le_refl _, ?_, ?_⟩
    · simp only [loc, tblocks, fresh, hx.1, Nat.sub_self, Nat.zero_mul, range'_zero, append_nil, nil_append]
      have := take_append_drop (c.P - c.I) x.hold
      rw [show g.central ++ g.live ++ x.hold = g.central ++ g.live ++ (take (c.P - c.I) x.hold ++ drop (c.P - c.I) x.hold) by rw [this]]
      perm_count
    · simp only [TInv, length_drop]; exact ⟨hx.1, by omega⟩
  case gUnlock =>
    obtain ⟨rfl, rfl⟩ := by simpa using h
    exact ⟨rfl, Nat.le_refl _, by simp [fresh, loc, tblocks], by simpa [TInv] using hx⟩
  case gFill =>
    obtain ⟨rfl, rfl⟩ := by simpa using h
    refine ⟨rfl, Nat.le_refl _, by simp [fresh, loc, tblocks, hx.1], ?_⟩
    simp only [TInv]
    refine ⟨trivial, ?_, by omega⟩
    intro h0; have := hx.2; rw [h0] at this; simp at this; omega
  case aPop =>
    cases hl : x.cache.getLast? with
    | none => simp [hl] at h
    | some b =>
      simp only [hl] at h
      obtain ⟨rfl, rfl⟩ := by simpa using h
      have hc := dropLast_append_getLast? (l := x.cache) b hl
      refine ⟨rfl, Nat.le_refl _, ?_, ?_⟩
      · simp only [loc, tblocks, fresh, hx.1, Nat.sub_self, Nat.zero_mul, range'_zero, append_nil]
        rw [show g.central ++ g.live ++ x.cache = g.central ++ g.live ++ (x.cache.dropLast ++ [b]) by rw [hc]]
        perm_count
      · simp only [TInv, length_dropLast]; exact ⟨hx.1, by omega⟩
  case dPush =>
    obtain ⟨rfl, rfl⟩ := by simpa using h
    refine ⟨rfl, Nat.le_refl _, by simp [fresh, loc, tblocks], ?_⟩
    by_cases hl : x.cache.length + x.hold.length = 2 * c.I
    · unfold TInv; simp only [if_pos hl]; exact ⟨trivial, by simpa using hl⟩
    · unfold TInv; simp only [if_neg hl]; refine ⟨trivial, ?_⟩
      simp only [length_append]; omega
  case dRecycle =>
    obtain ⟨rfl, rfl⟩ := by simpa using h
    refine ⟨rfl, Nat.le_refl _, ?_, ?_⟩
    · simp only [loc, tblocks, fresh, hx.1, Nat.sub_self, Nat.zero_mul, range'_zero, append_nil]
      have := take_append_drop c.I x.cache
      rw [show g.central ++ g.live ++ x.cache = g.central ++ g.live ++ (take c.I x.cache ++ drop c.I x.cache) by rw [this]]
      perm_count
    · simp only [TInv, length_take]; exact ⟨hx.1, by omega⟩
  case bCas e =>
    by_cases hl : g.lock = e
    · simp only [if_pos hl] at h
      obtain ⟨rfl, rfl⟩ := by simpa using h
      exact ⟨rfl, Nat.le_refl _, by simp [fresh, loc, tblocks], by simpa [TInv] using hx.1⟩
    · simp only [if_neg hl] at h
      obtain ⟨rfl, rfl⟩ := by simpa using h
      refine ⟨rfl, Nat.le_refl _, by simp [fresh, loc, tblocks], ?_⟩
      simp only [TInv]
      exact ⟨hx.1, fun hf => by simp [hf]⟩
  case bRead =>
    obtain ⟨rfl, rfl⟩ := by simpa using h
    exact ⟨rfl, Nat.le_refl _, by simp [fresh, loc, tblocks], by simpa [TInv] using hx⟩
  case bUnlock v =>
    obtain ⟨rfl, rfl⟩ := by simpa using h
    exact ⟨rfl, Nat.le_refl _, by simp [fresh, loc, tblocks], by simpa [TInv] using hx⟩

/-! ### the global invariant -/

/-- every block of every slab obtained so far is in exactly one place, and every thread record has
the shape its control point requires -/
structure Inv (c : Cfg) (s : St) : Prop where
  perm : blocks s ~ List.range (s.sh.nextChunk * c.P)
  tinv : ∀ x ∈ s.thr, TInv c x

theorem range_fresh (c : Cfg) (g g' : Sh) (h : g.nextChunk ≤ g'.nextChunk) :
    List.range (g.nextChunk * c.P) ++ fresh c g g' = List.range (g'.nextChunk * c.P) := by
  unfold fresh
  rw [range_eq_range', range_eq_range']
  have := @range'_append 0 (g.nextChunk * c.P) ((g'.nextChunk - g.nextChunk) * c.P) 1
  simp only [Nat.one_mul, Nat.zero_add] at this
  rw [this, ← Nat.add_mul, Nat.add_sub_cancel' h]

theorem put_inv (c : Cfg) {s : St} {x : Thr} {g' : Sh} {x' : Thr} (hm : x ∈ s.thr)
    (hl : LocalOK c s.sh x g' x') (I : Inv c s) : Inv c (put s x (g', x')) := by
  constructor
  · have h1 : blocks s ~ loc s.sh x ++ (s.thr.erase x).flatMap tblocks := by
      have := flatMap_erase_perm tblocks hm
      unfold blocks loc
      refine Perm.trans (this.append_left _) ?_
      simp [append_assoc]
    have h2 : blocks (put s x (g', x')) = loc g' x' ++ (s.thr.erase x).flatMap tblocks := by
      simp [blocks, put, loc, append_assoc]
    rw [h2]
    show _ ~ List.range (g'.nextChunk * c.P)
    rw [← range_fresh c s.sh g' hl.mono]
    have h3 : loc g' x' ++ (s.thr.erase x).flatMap tblocks ~
        (loc s.sh x ++ fresh c s.sh g') ++ (s.thr.erase x).flatMap tblocks := hl.perm.append_right _
    refine h3.trans ?_
    have h4 : loc s.sh x ++ (s.thr.erase x).flatMap tblocks ++ fresh c s.sh g' ~
        List.range (s.sh.nextChunk * c.P) ++ fresh c s.sh g' := (h1.symm.trans I.perm).append_right _
    refine Perm.trans ?_ h4
    perm_count
  · intro y hy
    simp only [put, mem_cons] at hy
    rcases hy with rfl | hy
    · exact hl.tinv
    · exact I.tinv y (mem_of_mem_erase hy)

theorem fresh_tinv (c : Cfg) (hI : 1 ≤ c.I) (t : TId) : TInv c (Thr.fresh t) := by
  simp only [TInv, Thr.fresh]; exact ⟨trivial, by simp; omega⟩

theorem new_inv (c : Cfg) {s : St} {t : TId} {g' : Sh} {x' : Thr}
    (hl : LocalOK c s.sh (Thr.fresh t) g' x') (I : Inv c s) :
    Inv c { s with sh := g', thr := x' :: s.thr } := by
  constructor
  · have h1 : blocks s = loc s.sh (Thr.fresh t) ++ s.thr.flatMap tblocks := by
      simp [blocks, loc, tblocks, Thr.fresh]
    have h2 : blocks { s with sh := g', thr := x' :: s.thr } = loc g' x' ++ s.thr.flatMap tblocks := by
      simp [blocks, loc, append_assoc]
    rw [h2]
    show _ ~ List.range (g'.nextChunk * c.P)
    rw [← range_fresh c s.sh g' hl.mono]
    refine (hl.perm.append_right _).trans ?_
    have h4 : loc s.sh (Thr.fresh t) ++ s.thr.flatMap tblocks ++ fresh c s.sh g' ~
        List.range (s.sh.nextChunk * c.P) ++ fresh c s.sh g' := by
      rw [← h1]; exact I.perm.append_right _
    refine Perm.trans ?_ h4
    perm_count
  · intro y hy
    simp only [mem_cons] at hy
    rcases hy with rfl | hy
    · exact hl.tinv
    · exact I.tinv y hy

theorem init_inv (c : Cfg) : Inv c St.init :=
  ⟨by simp [blocks, St.init, Sh.init], by simp [St.init]⟩

theorem exec_inv (c : Cfg) (hI : 1 ≤ c.I) (hP : c.I ≤ c.P) (hE : c.exitResets = true) {s s' : St} {a : Act}
    (I : Inv c s) (h : exec c s a = some s') : Inv c s' := by
  cases a with
  | call t cl =>
    simp only [exec] at h
    cases hf : findT s t with
    | some x =>
      simp only [hf, Option.map_eq_some_iff] at h
      obtain ⟨⟨g', x'⟩, hr, rfl⟩ := h
      have hm := (findT_some hf).1
      exact put_inv c hm (tcall_ok c (I.tinv x hm) hr) I
    | none =>
      simp only [hf, Option.map_eq_some_iff] at h
      obtain ⟨⟨g', x'⟩, hr, rfl⟩ := h
      exact new_inv c (tcall_ok c (fresh_tinv c hI t) hr) I
  | step t =>
    simp only [exec] at h
    cases hf : findT s t with
    | none => simp [hf] at h
    | some x =>
      simp only [hf, Option.map_eq_some_iff] at h
      obtain ⟨⟨g', x'⟩, hr, rfl⟩ := h
      have hm := (findT_some hf).1
      exact put_inv c hm (tstep_ok c hI hP (I.tinv x hm) hr) I
  | deq t bs =>
    simp only [exec] at h
    cases hf : findT s t with
    | none => simp [hf] at h
    | some x =>
      simp only [hf, Option.map_eq_some_iff] at h
      obtain ⟨⟨g', x'⟩, hr, rfl⟩ := h
      have hm := (findT_some hf).1
      exact put_inv c hm (tdeq_ok c hI (I.tinv x hm) hr) I
  | spur t =>
    simp only [exec] at h
    cases hf : findT s t with
    | none => simp [hf] at h
    | some x =>
      simp only [hf, Option.map_eq_some_iff] at h
      obtain ⟨⟨g', x'⟩, hr, rfl⟩ := h
      have hm := (findT_some hf).1
      exact put_inv c hm (tspur_ok c (I.tinv x hm) hr) I
  | ret t =>
    simp only [exec] at h
    cases hf : findT s t with
    | none => simp [hf] at h
    | some x =>
      simp only [hf, Option.map_eq_some_iff] at h
      obtain ⟨⟨g', x'⟩, hr, rfl⟩ := h
      have hm := (findT_some hf).1
      exact put_inv c hm (tret_ok c (I.tinv x hm) hr) I
  | exit t =>
    simp only [exec] at h
    split_ifs at h with he
    cases hf : findT s t with
    | none =>
      simp only [hf, Option.some.injEq] at h
      subst h
      exact ⟨I.perm, I.tinv⟩
    | some x =>
      simp only [hf, hE, if_true] at h
      split_ifs at h with hp
      simp only [Option.some.injEq] at h
      subst h
      have hm := (findT_some hf).1
      have hx := I.tinv x hm
      simp only [TInv, hp] at hx
      constructor
      · have h1 := flatMap_erase_perm tblocks hm
        have h0 : tblocks x = x.cache := by simp [tblocks, hx.1]
        rw [h0] at h1
        refine Perm.trans ?_ I.perm
        unfold blocks
        refine Perm.trans ?_ (h1.symm.append_left _)
        simp only
        perm_count
      · intro y hy
        exact I.tinv y (mem_of_mem_erase hy)

theorem reachable_inv (c : Cfg) (hI : 1 ≤ c.I) (hP : c.I ≤ c.P) (hE : c.exitResets = true) {s : St}
    (h : Reachable c s) : Inv c s := by
  induction h with
  | init => exact init_inv c
  | step a _ he ih => exact exec_inv c hI hP hE ih he

/-! ### the lock: mutual exclusion over all its users (repaired `bytesAllocated`) -/

def cs (x : Thr) : Nat := if inCS x.pc = true then 1 else 0

/-- lock word vs. critical-section occupancy, with `k` holders among the other threads -/
def LockRel (lock : Nat) (n : Nat) : Prop := (lock = 0 ↔ n = 0) ∧ n ≤ 1

/-- effect of a local transition on the lock, whatever the other threads are doing -/
def LockOK (g : Sh) (x : Thr) (g' : Sh) (x' : Thr) : Prop :=
  ∀ k, LockRel g.lock (cs x + k) → LockRel g'.lock (cs x' + k)

theorem tstep_lock (c : Cfg) (hf : c.fixed = true) {g : Sh} {x : Thr} {g' : Sh} {x' : Thr}
    (hx : TInv c x) (h : tstep c g x = some (g', x')) : LockOK g x g' x' := by
  unfold tstep at h
  intro k
  cases hp : x.pc <;> simp only [hp] at h
  case idle | gDeq | aRet | dRet | bRet => simp at h
  case aPop =>
    cases hl : x.cache.getLast? with
    | none => simp [hl] at h
    | some b =>
      simp only [hl] at h
      obtain ⟨rfl, rfl⟩ := by simpa using h
      simp [LockRel, cs, inCS, hp]
  case gFaa =>
    obtain ⟨rfl, rfl⟩ := by simpa using h
    by_cases hl : g.lock = 0 <;> simp only [LockRel, cs, inCS, hp, hl, if_true, if_false] <;> simp <;> omega
  case aStart =>
    obtain ⟨rfl, rfl⟩ := by simpa using h
    by_cases hl : x.cache = [] <;> simp [LockRel, cs, inCS, hp, hl]
  case gSpin =>
    obtain ⟨rfl, rfl⟩ := by simpa using h
    by_cases hl : g.lock = 0 <;> simp [LockRel, cs, inCS, hp, hl]
  case dPush =>
    obtain ⟨rfl, rfl⟩ := by simpa using h
    by_cases hl : x.cache.length + x.hold.length = 2 * c.I <;> simp [LockRel, cs, inCS, hp, hl]
  case bCas e =>
    simp only [TInv, hp] at hx
    have he : e = 0 := hx.2 hf
    subst he
    by_cases hl : g.lock = 0
    · simp only [if_pos hl] at h
      obtain ⟨rfl, rfl⟩ := by simpa using h
      simp only [LockRel, cs, inCS, hp, hl]
      simp; omega
    · simp only [if_neg hl] at h
      obtain ⟨rfl, rfl⟩ := by simpa using h
      simp [LockRel, cs, inCS, hp]
  all_goals
    obtain ⟨rfl, rfl⟩ := by simpa using h
    simp [LockRel, cs, inCS, hp] <;> try omega

theorem lockOK_same {g : Sh} {x : Thr} {g' : Sh} {x' : Thr} (h1 : g'.lock = g.lock) (h2 : cs x' = cs x) :
    LockOK g x g' x' := by
  intro k hk; rw [h1, h2]; exact hk

theorem tcall_lock {g : Sh} {x : Thr} {cl : Call} {g' : Sh} {x' : Thr}
    (h : tcall g x cl = some (g', x')) : LockOK g x g' x' := by
  cases cl <;> simp only [tcall] at h <;> split_ifs at h with hp <;>
    (obtain ⟨rfl, rfl⟩ := by simpa using h) <;>
    exact lockOK_same rfl (by simp [cs, inCS, hp])

theorem tret_lock {g : Sh} {x : Thr} {g' : Sh} {x' : Thr}
    (h : tret g x = some (g', x')) : LockOK g x g' x' := by
  unfold tret at h
  split at h <;> first
    | (rename_i hp
       obtain ⟨rfl, rfl⟩ := by simpa using h
       exact lockOK_same rfl (by simp [cs, inCS, hp]))
    | simp at h

theorem tspur_lock (c : Cfg) {g : Sh} {x : Thr} {g' : Sh} {x' : Thr}
    (h : tspur c g x = some (g', x')) : LockOK g x g' x' := by
  unfold tspur at h
  split at h
  · rename_i hp
    obtain ⟨rfl, rfl⟩ := by simpa using h
    exact lockOK_same rfl (by simp [cs, inCS, hp])
  · simp at h

theorem tdeq_lock (c : Cfg) {g : Sh} {x : Thr} {bs : List Blk} {g' : Sh} {x' : Thr}
    (h : tdeq c g x bs = some (g', x')) : LockOK g x g' x' := by
  unfold tdeq at h
  by_cases hp : x.pc = .gDeq ∧ bs.length ≤ c.I
  · rw [if_pos hp] at h
    cases hr : removeAll g.central bs with
    | none => simp [hr] at h
    | some rest =>
      rw [hr] at h
      by_cases hb : bs = []
      · simp only [if_pos hb] at h
        obtain ⟨rfl, rfl⟩ := by simpa using h
        exact lockOK_same rfl (by simp [cs, inCS, hp.1])
      · simp only [if_neg hb] at h
        obtain ⟨rfl, rfl⟩ := by simpa using h
        exact lockOK_same rfl (by simp [cs, inCS, hp.1])
  · rw [if_neg hp] at h
    simp at h

/-- lock word zero iff nobody is inside; at most one thread inside -/
def MInv (s : St) : Prop := LockRel s.sh.lock (holders s)

theorem holders_put {s : St} {x : Thr} (r : Sh × Thr) (hm : x ∈ s.thr) :
    holders s = cs x + (s.thr.erase x).countP (fun y => inCS y.pc) ∧
    holders (put s x r) = cs r.2 + (s.thr.erase x).countP (fun y => inCS y.pc) := by
  constructor
  · unfold holders cs
    rw [countP_erase_add (fun y => inCS y.pc) hm]; omega
  · unfold holders cs put
    simp only [countP_cons]; omega

theorem put_minv {s : St} {x : Thr} {g' : Sh} {x' : Thr} (hm : x ∈ s.thr)
    (hl : LockOK s.sh x g' x') (M : MInv s) : MInv (put s x (g', x')) := by
  have := holders_put (s := s) (g', x') hm
  unfold MInv at M ⊢
  rw [this.2]
  rw [this.1] at M
  exact hl _ M

theorem exec_minv (c : Cfg) (hf : c.fixed = true) {s s' : St} {a : Act} (I : Inv c s) (M : MInv s)
    (h : exec c s a = some s') : MInv s' := by
  cases a with
  | call t cl =>
    simp only [exec] at h
    cases hf' : findT s t with
    | some x =>
      simp only [hf', Option.map_eq_some_iff] at h
      obtain ⟨⟨g', x'⟩, hr, rfl⟩ := h
      exact put_minv (findT_some hf').1 (tcall_lock hr) M
    | none =>
      simp only [hf', Option.map_eq_some_iff] at h
      obtain ⟨⟨g', x'⟩, hr, rfl⟩ := h
      have hl := tcall_lock hr (holders s)
      unfold MInv at M ⊢
      have h0 : cs (Thr.fresh t) = 0 := by simp [cs, inCS, Thr.fresh]
      rw [h0, Nat.zero_add] at hl
      have h1 : holders { s with sh := g', thr := x' :: s.thr } = cs x' + holders s := by
        unfold holders cs; simp only [countP_cons]; omega
      rw [h1]; exact hl M
  | step t =>
    simp only [exec] at h
    cases hf' : findT s t with
    | none => simp [hf'] at h
    | some x =>
      simp only [hf', Option.map_eq_some_iff] at h
      obtain ⟨⟨g', x'⟩, hr, rfl⟩ := h
      have hm := (findT_some hf').1
      exact put_minv hm (tstep_lock c hf (I.tinv x hm) hr) M
  | deq t bs =>
    simp only [exec] at h
    cases hf' : findT s t with
    | none => simp [hf'] at h
    | some x =>
      simp only [hf', Option.map_eq_some_iff] at h
      obtain ⟨⟨g', x'⟩, hr, rfl⟩ := h
      exact put_minv (findT_some hf').1 (tdeq_lock c hr) M
  | spur t =>
    simp only [exec] at h
    cases hf' : findT s t with
    | none => simp [hf'] at h
    | some x =>
      simp only [hf', Option.map_eq_some_iff] at h
      obtain ⟨⟨g', x'⟩, hr, rfl⟩ := h
      exact put_minv (findT_some hf').1 (tspur_lock c hr) M
  | ret t =>
    simp only [exec] at h
    cases hf' : findT s t with
    | none => simp [hf'] at h
    | some x =>
      simp only [hf', Option.map_eq_some_iff] at h
      obtain ⟨⟨g', x'⟩, hr, rfl⟩ := h
      exact put_minv (findT_some hf').1 (tret_lock hr) M
  | exit t =>
    simp only [exec] at h
    by_cases he : t ∈ s.exited
    · simp [he] at h
    simp only [he, if_false] at h
    cases hf' : findT s t with
    | none =>
      simp only [hf', Option.some.injEq] at h
      subst h
      exact M
    | some x =>
      simp only [hf'] at h
      by_cases hp : x.pc = .idle
      · simp only [hp, if_true, Option.some.injEq] at h
        subst h
        have hm := (findT_some hf').1
        unfold MInv at M ⊢
        by_cases hE : c.exitResets = true
        · simp only [hE, if_true]
          have h1 : holders s = holders { sh := { s.sh with central := s.sh.central ++ x.cache },
                                           thr := s.thr.erase x, exited := t :: s.exited } := by
            unfold holders
            rw [countP_erase_add (fun y => inCS y.pc) hm]
            simp [inCS, hp]
          rw [← h1]; exact M
        · simp only [hE]
          exact M
      · simp [hp] at h

theorem init_minv : MInv St.init := by
  simp [MInv, LockRel, holders, St.init, Sh.init]

theorem reachable_minv (c : Cfg) (hI : 1 ≤ c.I) (hP : c.I ≤ c.P) (hE : c.exitResets = true) (hf : c.fixed = true)
    {s : St} (h : Reachable c s) : MInv s := by
  induction h with
  | init => exact init_minv
  | step a hr he ih => exact exec_minv c hf (reachable_inv c hI hP hE hr) ih he

/-! ### who removes a block from `live` -/

theorem tstep_live (c : Cfg) {g : Sh} {x : Thr} {g' : Sh} {x' : Thr} (h : tstep c g x = some (g', x')) :
    ∀ b ∈ g.live, b ∈ g'.live := by
  unfold tstep at h
  intro b hb
  cases hp : x.pc <;> simp only [hp] at h
  case idle | gDeq | aRet | dRet | bRet => simp at h
  case aPop =>
    cases hl : x.cache.getLast? with
    | none => simp [hl] at h
    | some b' =>
      simp only [hl] at h
      obtain ⟨rfl, rfl⟩ := by simpa using h
      exact mem_cons_of_mem _ hb
  case bCas e =>
    by_cases hl : g.lock = e
    · simp only [if_pos hl] at h
      obtain ⟨rfl, rfl⟩ := by simpa using h
      exact hb
    · simp only [if_neg hl] at h
      obtain ⟨rfl, rfl⟩ := by simpa using h
      exact hb
  all_goals
    obtain ⟨rfl, rfl⟩ := by simpa using h
    exact hb

theorem tdeq_live (c : Cfg) {g : Sh} {x : Thr} {bs : List Blk} {g' : Sh} {x' : Thr}
    (h : tdeq c g x bs = some (g', x')) : g'.live = g.live := by
  unfold tdeq at h
  by_cases hp : x.pc = .gDeq ∧ bs.length ≤ c.I
  · rw [if_pos hp] at h
    cases hr : removeAll g.central bs with
    | none => simp [hr] at h
    | some rest =>
      rw [hr] at h
      by_cases hb : bs = []
      · simp only [if_pos hb] at h
        obtain ⟨rfl, rfl⟩ := by simpa using h
        rfl
      · simp only [if_neg hb] at h
        obtain ⟨rfl, rfl⟩ := by simpa using h
        rfl
  · rw [if_neg hp] at h
    simp at h

theorem tspur_live (c : Cfg) {g : Sh} {x : Thr} {g' : Sh} {x' : Thr}
    (h : tspur c g x = some (g', x')) : g'.live = g.live := by
  unfold tspur at h
  split at h
  · obtain ⟨rfl, rfl⟩ := by simpa using h
    rfl
  · simp at h

theorem tret_live {g : Sh} {x : Thr} {g' : Sh} {x' : Thr}
    (h : tret g x = some (g', x')) : g'.live = g.live := by
  unfold tret at h
  split at h <;> first
    | (obtain ⟨rfl, rfl⟩ := by simpa using h
       rfl)
    | simp at h

theorem tcall_live {g : Sh} {x : Thr} {cl : Call} {g' : Sh} {x' : Thr}
    (h : tcall g x cl = some (g', x')) (b : Blk) (hb : b ∈ g.live) (hb' : b ∉ g'.live) :
    cl = .dealloc b := by
  cases cl with
  | alloc =>
    simp only [tcall] at h
    split_ifs at h
    obtain ⟨rfl, rfl⟩ := by simpa using h
    exact absurd hb hb'
  | bytes =>
    simp only [tcall] at h
    split_ifs at h
    obtain ⟨rfl, rfl⟩ := by simpa using h
    exact absurd hb hb'
  | dealloc b2 =>
    simp only [tcall] at h
    split_ifs at h
    obtain ⟨rfl, rfl⟩ := by simpa using h
    by_cases he : b = b2
    · rw [he]
    · exact absurd ((mem_erase_of_ne he).mpr hb) hb'

theorem live_leaves (c : Cfg) {s s' : St} {a : Act} (h : exec c s a = some s')
    {b : Blk} (hb : b ∈ s.sh.live) (hb' : b ∉ s'.sh.live) : ∃ t, a = .call t (.dealloc b) := by
  cases a with
  | call t cl =>
    simp only [exec] at h
    cases hf : findT s t with
    | some x =>
      simp only [hf, Option.map_eq_some_iff] at h
      obtain ⟨⟨g', x'⟩, hr, rfl⟩ := h
      exact ⟨t, by rw [tcall_live hr b hb hb']⟩
    | none =>
      simp only [hf, Option.map_eq_some_iff] at h
      obtain ⟨⟨g', x'⟩, hr, rfl⟩ := h
      exact ⟨t, by rw [tcall_live hr b hb hb']⟩
  | step t =>
    simp only [exec] at h
    cases hf : findT s t with
    | none => simp [hf] at h
    | some x =>
      simp only [hf, Option.map_eq_some_iff] at h
      obtain ⟨⟨g', x'⟩, hr, rfl⟩ := h
      exact absurd (tstep_live c hr b hb) hb'
  | deq t bs =>
    simp only [exec] at h
    cases hf : findT s t with
    | none => simp [hf] at h
    | some x =>
      simp only [hf, Option.map_eq_some_iff] at h
      obtain ⟨⟨g', x'⟩, hr, rfl⟩ := h
      have := tdeq_live c hr
      simp only [put] at hb'
      rw [this] at hb'
      exact absurd hb hb'
  | spur t =>
    simp only [exec] at h
    cases hf : findT s t with
    | none => simp [hf] at h
    | some x =>
      simp only [hf, Option.map_eq_some_iff] at h
      obtain ⟨⟨g', x'⟩, hr, rfl⟩ := h
      have := tspur_live c hr
      simp only [put] at hb'
      rw [this] at hb'
      exact absurd hb hb'
  | ret t =>
    simp only [exec] at h
    cases hf : findT s t with
    | none => simp [hf] at h
    | some x =>
      simp only [hf, Option.map_eq_some_iff] at h
      obtain ⟨⟨g', x'⟩, hr, rfl⟩ := h
      have := tret_live hr
      simp only [put] at hb'
      rw [this] at hb'
      exact absurd hb hb'
  | exit t =>
    simp only [exec] at h
    by_cases he : t ∈ s.exited
    · simp [he] at h
    simp only [he, if_false] at h
    cases hf : findT s t with
    | none =>
      simp only [hf, Option.some.injEq] at h
      subst h
      exact absurd hb hb'
    | some x =>
      simp only [hf] at h
      by_cases hp : x.pc = .idle
      · simp only [hp, if_true, Option.some.injEq] at h
        subst h
        exact absurd hb hb'
      · simp [hp] at h

theorem tinv_cache_le (c : Cfg) {x : Thr} (h : TInv c x) : x.cache.length ≤ 2 * c.I := by
  unfold TInv at h
  split at h <;> first
    | (rw [h.1]; simp)
    | omega

theorem reachable_of_run (c : Cfg) : ∀ (as : List Act) (s0 s : St), Reachable c s0 →
    run c s0 as = some s → Reachable c s
  | [], s0, s, hr, h => by simp only [run, Option.some.injEq] at h; subst h; exact hr
  | a :: as, s0, s, hr, h => by
    simp only [run] at h
    cases he : exec c s0 a with
    | none => simp [he] at h
    | some s1 =>
      simp only [he] at h
      exact reachable_of_run c as s1 s (.step a hr he) h

/-! ### address arithmetic -/

theorem blk_aligned (base : Nat → Nat) (P N : Nat) (hal : ∀ ch, N ∣ base ch) (b : Nat) :
    N ∣ blkAddr base P N b :=
  Nat.dvd_add (hal _) (Nat.dvd_mul_left _ _)

theorem blk_inside (base : Nat → Nat) (P N : Nat) (hP : 0 < P) (b : Nat) :
    base (b / P) ≤ blkAddr base P N b ∧ blkAddr base P N b + N ≤ base (b / P) + P * N := by
  unfold blkAddr
  have h1 : b % P + 1 ≤ P := Nat.mod_lt _ hP
  have h2 : (b % P + 1) * N ≤ P * N := Nat.mul_le_mul_right _ h1
  rw [Nat.add_mul, Nat.one_mul] at h2
  generalize b % P * N = X at h2 ⊢
  generalize P * N = Y at h2 ⊢
  constructor <;> omega

theorem blk_disjoint (base : Nat → Nat) (P N : Nat) (hP : 0 < P)
    (hdis : ∀ ch ch', ch ≠ ch' → base ch + P * N ≤ base ch' ∨ base ch' + P * N ≤ base ch)
    (b b' : Nat) (hne : b ≠ b') :
    blkAddr base P N b + N ≤ blkAddr base P N b' ∨ blkAddr base P N b' + N ≤ blkAddr base P N b := by
  by_cases hc : b / P = b' / P
  · have hm : b % P ≠ b' % P := by
      intro hm
      apply hne
      rw [← Nat.div_add_mod b P, ← Nat.div_add_mod b' P, hc, hm]
    unfold blkAddr
    rw [hc]
    rcases Nat.lt_or_gt_of_ne hm with hlt | hgt
    · left
      have : (b % P + 1) * N ≤ (b' % P) * N := Nat.mul_le_mul_right _ hlt
      rw [Nat.add_mul, Nat.one_mul] at this
      generalize b % P * N = X at this ⊢
      generalize b' % P * N = Y at this ⊢
      omega
    · right
      have : (b' % P + 1) * N ≤ (b % P) * N := Nat.mul_le_mul_right _ hgt
      rw [Nat.add_mul, Nat.one_mul] at this
      generalize b % P * N = X at this ⊢
      generalize b' % P * N = Y at this ⊢
      omega
  · have h1 := blk_inside base P N hP b
    have h2 := blk_inside base P N hP b'
    generalize blkAddr base P N b = A at h1 ⊢
    generalize blkAddr base P N b' = A' at h2 ⊢
    rcases hdis _ _ hc with h | h
    · left; omega
    · right; omega

/-! ### `backingStore` holds one entry per slab (repaired lock) -/

/-- `backingStore` is `[0, …, nextChunk-1]` except while the lock holder is between `alignedMalloc`
and the end of `push_back`, when the last slab is still missing -/
def BInv (g : Sh) (thr : List Thr) : Prop :=
  (∀ x ∈ thr, (∀ ch, x.pc = .gPushRd ch → ch = g.backing.length ∧ g.nextChunk = ch + 1 ∧ g.backing = List.range ch) ∧
     (∀ ch n, x.pc = .gPushWr ch n → n = ch ∧ ch = g.backing.length ∧ g.nextChunk = ch + 1 ∧ g.backing = List.range ch)) ∧
  ((∀ x ∈ thr, pushing x.pc = false) → g.backing = List.range g.nextChunk)

/-- a transition that neither touches `backingStore` / the slab counter nor starts a `push_back` -/
theorem binv_quiet {g g' : Sh} {thr thr' : List Thr} (hB : BInv g thr)
    (hn : g'.nextChunk = g.nextChunk) (hb : g'.backing = g.backing)
    (h1 : ∀ y ∈ thr', pushing y.pc = true → y ∈ thr)
    (h2 : (∀ y ∈ thr', pushing y.pc = false) → ∀ y ∈ thr, pushing y.pc = false) : BInv g' thr' := by
  refine ⟨fun y hy => ⟨fun ch hc => ?_, fun ch n hc => ?_⟩, fun hq => ?_⟩
  · have := (hB.1 y (h1 y hy (by simp [hc, pushing]))).1 ch hc
    rw [hn, hb]; exact this
  · have := (hB.1 y (h1 y hy (by simp [hc, pushing]))).2 ch n hc
    rw [hn, hb]; exact this
  · rw [hn, hb]; exact hB.2 (h2 hq)

theorem binv_put_quiet {s : St} {x : Thr} {g' : Sh} {x' : Thr} (hm : x ∈ s.thr) (hB : BInv s.sh s.thr)
    (hn : g'.nextChunk = s.sh.nextChunk) (hb : g'.backing = s.sh.backing)
    (hx : pushing x.pc = false) (hx' : pushing x'.pc = false) : BInv g' (x' :: s.thr.erase x) := by
  refine binv_quiet hB hn hb ?_ ?_
  · intro y hy hp
    simp only [mem_cons] at hy
    rcases hy with rfl | hy
    · rw [hx'] at hp; cases hp
    · exact mem_of_mem_erase hy
  · intro hq y hy
    by_cases he : y = x
    · rw [he]; exact hx
    · exact hq y (mem_cons_of_mem _ ((mem_erase_of_ne he).mpr hy))

/-- what a step does to `backingStore` and the slab counter -/
inductive BStep (g : Sh) (x : Thr) (g' : Sh) (x' : Thr) : Prop where
  | malloc : x.pc = .gMalloc → g'.nextChunk = g.nextChunk + 1 → g'.backing = g.backing →
      x'.pc = .gPushRd g.nextChunk → BStep g x g' x'
  | rd (ch : Nat) : x.pc = .gPushRd ch → g'.nextChunk = g.nextChunk → g'.backing = g.backing →
      x'.pc = .gPushWr ch g.backing.length → BStep g x g' x'
  | wr (ch n : Nat) : x.pc = .gPushWr ch n → g'.nextChunk = g.nextChunk → g'.backing = g.backing.take n ++ [ch] →
      x'.pc = .gEnq → BStep g x g' x'
  | quiet : pushing x.pc = false → x.pc ≠ .gMalloc → g'.nextChunk = g.nextChunk → g'.backing = g.backing →
      pushing x'.pc = false → BStep g x g' x'

theorem tstep_bstep (c : Cfg) {g : Sh} {x : Thr} {g' : Sh} {x' : Thr} (h : tstep c g x = some (g', x')) :
    BStep g x g' x' := by
  unfold tstep at h
  cases hp : x.pc <;> simp only [hp] at h
  case idle | gDeq | aRet | dRet | bRet => simp at h
  case gMalloc =>
    obtain ⟨rfl, rfl⟩ := by simpa using h
    exact .malloc hp rfl rfl rfl
  case gPushRd ch =>
    obtain ⟨rfl, rfl⟩ := by simpa using h
    exact .rd ch hp rfl rfl rfl
  case gPushWr ch n =>
    obtain ⟨rfl, rfl⟩ := by simpa using h
    exact .wr ch n hp rfl rfl rfl
  case aPop =>
    cases hl : x.cache.getLast? with
    | none => simp [hl] at h
    | some b =>
      simp only [hl] at h
      obtain ⟨rfl, rfl⟩ := by simpa using h
      exact .quiet (by simp [hp, pushing]) (by simp [hp]) rfl rfl (by simp [pushing])
  case bCas e =>
    by_cases hl : g.lock = e
    · simp only [if_pos hl] at h
      obtain ⟨rfl, rfl⟩ := by simpa using h
      exact .quiet (by simp [hp, pushing]) (by simp [hp]) rfl rfl (by simp [pushing])
    · simp only [if_neg hl] at h
      obtain ⟨rfl, rfl⟩ := by simpa using h
      exact .quiet (by simp [hp, pushing]) (by simp [hp]) rfl rfl (by simp [pushing])
  case aStart =>
    obtain ⟨rfl, rfl⟩ := by simpa using h
    exact .quiet (by simp [hp, pushing]) (by simp [hp]) rfl rfl (by by_cases hc : x.cache = [] <;> simp [hc, pushing])
  case gFaa =>
    obtain ⟨rfl, rfl⟩ := by simpa using h
    exact .quiet (by simp [hp, pushing]) (by simp [hp]) rfl rfl (by by_cases hc : g.lock = 0 <;> simp [hc, pushing])
  case gSpin =>
    obtain ⟨rfl, rfl⟩ := by simpa using h
    exact .quiet (by simp [hp, pushing]) (by simp [hp]) rfl rfl (by by_cases hc : g.lock = 0 <;> simp [hc, pushing])
  case dPush =>
    obtain ⟨rfl, rfl⟩ := by simpa using h
    exact .quiet (by simp [hp, pushing]) (by simp [hp]) rfl rfl
      (by by_cases hc : x.cache.length + x.hold.length = 2 * c.I <;> simp [hc, pushing])
  all_goals
    obtain ⟨rfl, rfl⟩ := by simpa using h
    exact .quiet (by simp [hp, pushing]) (by simp [hp]) rfl rfl (by simp [pushing])

theorem others_outside {s : St} {x : Thr} (hm : x ∈ s.thr) (M : MInv s) (hx : inCS x.pc = true) :
    ∀ y ∈ s.thr.erase x, inCS y.pc = false := by
  have h := countP_erase_add (fun y : Thr => inCS y.pc) hm
  have hM := M.2
  unfold holders at hM
  simp only [hx, if_true] at h
  have h0 : (s.thr.erase x).countP (fun y => inCS y.pc) = 0 := by omega
  intro y hy
  have := (countP_eq_zero.mp h0) y hy
  simpa using this

theorem pushing_inCS {pc : PC} (h : pushing pc = true) : inCS pc = true := by
  cases pc <;> simp [pushing] at h <;> simp [inCS]

theorem step_binv (c : Cfg) {s : St} {x : Thr} {g' : Sh} {x' : Thr} (hm : x ∈ s.thr) (M : MInv s)
    (hB : BInv s.sh s.thr) (h : tstep c s.sh x = some (g', x')) : BInv g' (x' :: s.thr.erase x) := by
  have others_quiet : inCS x.pc = true → ∀ y ∈ s.thr.erase x, pushing y.pc = false := by
    intro hx y hy
    by_contra hp
    have hp' : pushing y.pc = true := by simpa using hp
    have := others_outside hm M hx y hy
    rw [pushing_inCS hp'] at this
    cases this
  rcases tstep_bstep c h with ⟨hp, hn, hb, hp'⟩ | ⟨ch, hp, hn, hb, hp'⟩ | ⟨ch, n, hp, hn, hb, hp'⟩ | ⟨hq, _, hn, hb, hq'⟩
  · -- alignedMalloc: nobody is pushing, so backingStore is complete up to the old counter
    have hoq := others_quiet (by simp [hp, inCS])
    have hall : ∀ y ∈ s.thr, pushing y.pc = false := by
      intro y hy
      by_cases he : y = x
      · rw [he, hp]; rfl
      · exact hoq y ((mem_erase_of_ne he).mpr hy)
    have hbk := hB.2 hall
    refine ⟨fun y hy => ?_, fun hq => ?_⟩
    · simp only [mem_cons] at hy
      rcases hy with rfl | hy
      · refine ⟨fun ch hc => ?_, fun ch n hc => ?_⟩
        · rw [hp'] at hc
          simp only [PC.gPushRd.injEq] at hc
          subst hc
          rw [hn, hb, hbk]
          exact ⟨by simp, rfl, rfl⟩
        · rw [hp'] at hc; simp at hc
      · have := hoq y hy
        refine ⟨fun ch hc => ?_, fun ch n hc => ?_⟩ <;> (rw [hc] at this; simp [pushing] at this)
    · have := hq x' (mem_cons_self ..)
      rw [hp'] at this; simp [pushing] at this
  · -- push_back reads the size
    have hoq := others_quiet (by simp [hp, inCS])
    have hx := (hB.1 x hm).1 ch hp
    refine ⟨fun y hy => ?_, fun hq => ?_⟩
    · simp only [mem_cons] at hy
      rcases hy with rfl | hy
      · refine ⟨fun ch' hc => ?_, fun ch' n hc => ?_⟩
        · rw [hp'] at hc; simp at hc
        · rw [hp'] at hc
          simp only [PC.gPushWr.injEq] at hc
          obtain ⟨rfl, rfl⟩ := hc
          rw [hn, hb]
          exact ⟨hx.1.symm, hx.1, hx.2.1, hx.2.2⟩
      · have := hoq y hy
        refine ⟨fun ch hc => ?_, fun ch n hc => ?_⟩ <;> (rw [hc] at this; simp [pushing] at this)
    · have := hq x' (mem_cons_self ..)
      rw [hp'] at this; simp [pushing] at this
  · -- push_back writes the slot: the slab is recorded
    have hoq := others_quiet (by simp [hp, inCS])
    have hx := (hB.1 x hm).2 ch n hp
    obtain ⟨rfl, hlen, hnc, hbk⟩ := hx
    have hnew : g'.backing = List.range g'.nextChunk := by
      rw [hb, hn, hnc, hbk, range_succ]
      simp
    refine ⟨fun y hy => ?_, fun _ => hnew⟩
    simp only [mem_cons] at hy
    rcases hy with rfl | hy
    · refine ⟨fun ch hc => ?_, fun ch n hc => ?_⟩ <;> (rw [hp'] at hc; simp at hc)
    · have := hoq y hy
      refine ⟨fun ch hc => ?_, fun ch n hc => ?_⟩ <;> (rw [hc] at this; simp [pushing] at this)
  · exact binv_put_quiet hm hB hn hb hq hq'

structure Quiet (g : Sh) (x : Thr) (g' : Sh) (x' : Thr) : Prop where
  nc : g'.nextChunk = g.nextChunk
  bk : g'.backing = g.backing
  px : pushing x.pc = false
  px' : pushing x'.pc = false

theorem tcall_quiet {g : Sh} {x : Thr} {cl : Call} {g' : Sh} {x' : Thr}
    (h : tcall g x cl = some (g', x')) : Quiet g x g' x' := by
  cases cl <;> simp only [tcall] at h <;> split_ifs at h with hp <;>
    (obtain ⟨rfl, rfl⟩ := by simpa using h) <;>
    exact ⟨rfl, rfl, by simp [pushing, hp], by simp [pushing]⟩

theorem tret_quiet {g : Sh} {x : Thr} {g' : Sh} {x' : Thr}
    (h : tret g x = some (g', x')) : Quiet g x g' x' := by
  unfold tret at h
  split at h <;> first
    | (rename_i hp
       obtain ⟨rfl, rfl⟩ := by simpa using h
       exact ⟨rfl, rfl, by simp [pushing, hp], by simp [pushing]⟩)
    | simp at h

theorem tspur_quiet (c : Cfg) {g : Sh} {x : Thr} {g' : Sh} {x' : Thr}
    (h : tspur c g x = some (g', x')) : Quiet g x g' x' := by
  unfold tspur at h
  split at h
  · rename_i hp
    obtain ⟨rfl, rfl⟩ := by simpa using h
    exact ⟨rfl, rfl, by simp [pushing, hp], by simp [pushing]⟩
  · simp at h

theorem tdeq_quiet (c : Cfg) {g : Sh} {x : Thr} {bs : List Blk} {g' : Sh} {x' : Thr}
    (h : tdeq c g x bs = some (g', x')) : Quiet g x g' x' := by
  unfold tdeq at h
  by_cases hp : x.pc = .gDeq ∧ bs.length ≤ c.I
  · rw [if_pos hp] at h
    cases hr : removeAll g.central bs with
    | none => simp [hr] at h
    | some rest =>
      rw [hr] at h
      by_cases hb : bs = []
      · simp only [if_pos hb] at h
        obtain ⟨rfl, rfl⟩ := by simpa using h
        exact ⟨rfl, rfl, by simp [pushing, hp.1], by simp [pushing]⟩
      · simp only [if_neg hb] at h
        obtain ⟨rfl, rfl⟩ := by simpa using h
        exact ⟨rfl, rfl, by simp [pushing, hp.1], by simp [pushing]⟩
  · rw [if_neg hp] at h
    simp at h

theorem exec_binv (c : Cfg) {s s' : St} {a : Act} (M : MInv s) (hB : BInv s.sh s.thr)
    (h : exec c s a = some s') : BInv s'.sh s'.thr := by
  cases a with
  | call t cl =>
    simp only [exec] at h
    cases hf : findT s t with
    | some x =>
      simp only [hf, Option.map_eq_some_iff] at h
      obtain ⟨⟨g', x'⟩, hr, rfl⟩ := h
      have q := tcall_quiet hr
      exact binv_put_quiet (findT_some hf).1 hB q.nc q.bk q.px q.px'
    | none =>
      simp only [hf, Option.map_eq_some_iff] at h
      obtain ⟨⟨g', x'⟩, hr, rfl⟩ := h
      have q := tcall_quiet hr
      refine binv_quiet hB q.nc q.bk ?_ ?_
      · intro y hy hp
        simp only [mem_cons] at hy
        rcases hy with rfl | hy
        · rw [q.px'] at hp; cases hp
        · exact hy
      · intro hq y hy
        exact hq y (mem_cons_of_mem _ hy)
  | step t =>
    simp only [exec] at h
    cases hf : findT s t with
    | none => simp [hf] at h
    | some x =>
      simp only [hf, Option.map_eq_some_iff] at h
      obtain ⟨⟨g', x'⟩, hr, rfl⟩ := h
      exact step_binv c (findT_some hf).1 M hB hr
  | deq t bs =>
    simp only [exec] at h
    cases hf : findT s t with
    | none => simp [hf] at h
    | some x =>
      simp only [hf, Option.map_eq_some_iff] at h
      obtain ⟨⟨g', x'⟩, hr, rfl⟩ := h
      have q := tdeq_quiet c hr
      exact binv_put_quiet (findT_some hf).1 hB q.nc q.bk q.px q.px'
  | spur t =>
    simp only [exec] at h
    cases hf : findT s t with
    | none => simp [hf] at h
    | some x =>
      simp only [hf, Option.map_eq_some_iff] at h
      obtain ⟨⟨g', x'⟩, hr, rfl⟩ := h
      have q := tspur_quiet c hr
      exact binv_put_quiet (findT_some hf).1 hB q.nc q.bk q.px q.px'
  | ret t =>
    simp only [exec] at h
    cases hf : findT s t with
    | none => simp [hf] at h
    | some x =>
      simp only [hf, Option.map_eq_some_iff] at h
      obtain ⟨⟨g', x'⟩, hr, rfl⟩ := h
      have q := tret_quiet hr
      exact binv_put_quiet (findT_some hf).1 hB q.nc q.bk q.px q.px'
  | exit t =>
    simp only [exec] at h
    by_cases he : t ∈ s.exited
    · simp [he] at h
    simp only [he, if_false] at h
    cases hf : findT s t with
    | none =>
      simp only [hf, Option.some.injEq] at h
      subst h
      exact hB
    | some x =>
      simp only [hf] at h
      by_cases hp : x.pc = .idle
      · simp only [hp, if_true, Option.some.injEq] at h
        subst h
        have hm := (findT_some hf).1
        refine binv_quiet hB rfl rfl ?_ ?_
        · intro y hy _
          by_cases hE : c.exitResets = true
          · simp only [hE, if_true] at hy; exact mem_of_mem_erase hy
          · simpa [hE] using hy
        · intro hq y hy
          by_cases hyx : y = x
          · rw [hyx, hp]; rfl
          · by_cases hE : c.exitResets = true
            · simp only [hE, if_true] at hq; exact hq y ((mem_erase_of_ne hyx).mpr hy)
            · simp only [hE] at hq; exact hq y (by simpa using hy)
      · simp [hp] at h

theorem reachable_binv (c : Cfg) (hI : 1 ≤ c.I) (hP : c.I ≤ c.P) (hE : c.exitResets = true) (hf : c.fixed = true)
    {s : St} (h : Reachable c s) : BInv s.sh s.thr := by
  induction h with
  | init => exact ⟨by simp [St.init], by simp [St.init, Sh.init]⟩
  | step a hr he ih => exact exec_binv c (reachable_minv c hI hP hE hf hr) ih he

end Dispenso.SmallBuf
