import DispensoVerif.Model.Bits
import Mathlib.Data.Nat.Log
import Mathlib.Tactic.Ring

/-!
Helper lemmas for C44 (bit-math helpers).
-/
namespace Dispenso.Bits

/-! ### smearing (nextPow2) -/

/-- bit `i` of `s` is set iff some bit of `u` in the window `[i, i+w)` is set -/
def Window (w u s : Nat) : Prop :=
  ∀ i, s.testBit i = true ↔ ∃ j, i ≤ j ∧ j < i + w ∧ u.testBit j = true

theorem window_init (u : Nat) : Window 1 u u := by
  intro i
  constructor
  · intro h; exact ⟨i, Nat.le_refl _, by omega, h⟩
  · rintro ⟨j, h1, h2, h3⟩
    have : j = i := by omega
    subst this; exact h3

theorem window_step (w u s : Nat) (h : Window w u s) : Window (2 * w) u (s ||| (s >>> w)) := by
  intro i
  rw [Nat.testBit_or, Nat.testBit_shiftRight, Bool.or_eq_true, h i, h (w + i)]
  constructor
  · rintro (⟨j, h1, h2, h3⟩ | ⟨j, h1, h2, h3⟩)
    · exact ⟨j, h1, by omega, h3⟩
    · exact ⟨j, by omega, by omega, h3⟩
  · rintro ⟨j, h1, h2, h3⟩
    by_cases hj : j < i + w
    · exact Or.inl ⟨j, h1, hj, h3⟩
    · exact Or.inr ⟨j, by omega, by omega, h3⟩

/-- the Nat-level smear performed by nextPow2 -/
def smear (u : Nat) : Nat :=
  let v := u
  let v := v ||| (v >>> 1)
  let v := v ||| (v >>> 2)
  let v := v ||| (v >>> 4)
  let v := v ||| (v >>> 8)
  let v := v ||| (v >>> 16)
  let v := v ||| (v >>> 32)
  v

theorem smear_window (u : Nat) : Window 64 u (smear u) := by
  have h1 := window_step 1 u _ (window_init u)
  have h2 := window_step 2 u _ h1
  have h4 := window_step 4 u _ h2
  have h8 := window_step 8 u _ h4
  have h16 := window_step 16 u _ h8
  have h32 := window_step 32 u _ h16
  exact h32

theorem smear_testBit (u : Nat) (hu : u < 2 ^ 64) (i : Nat) :
    (smear u).testBit i = true ↔ 2 ^ i ≤ u := by
  rw [smear_window u i]
  constructor
  · rintro ⟨j, h1, _, h3⟩
    have := Nat.ge_two_pow_of_testBit h3
    have : 2 ^ i ≤ 2 ^ j := Nat.pow_le_pow_right (by decide) h1
    omega
  · intro h
    obtain ⟨j, h1, h2⟩ := Nat.exists_ge_and_testBit_of_ge_two_pow h
    refine ⟨j, h1, ?_, h2⟩
    have h3 := Nat.ge_two_pow_of_testBit h2
    have : j < 64 := (Nat.pow_lt_pow_iff_right (by decide : 1 < 2)).1 (by omega)
    omega

theorem smear_eq (u : Nat) (hu : u < 2 ^ 64) (h0 : u ≠ 0) :
    smear u = 2 ^ (Nat.log2 u + 1) - 1 := by
  apply Nat.eq_of_testBit_eq
  intro i
  rw [Nat.testBit_two_pow_sub_one]
  have hlo := Nat.log2_self_le h0
  have hhi := @Nat.lt_log2_self u
  rw [Bool.eq_iff_iff, smear_testBit u hu i, decide_eq_true_iff]
  constructor
  · intro h
    exact (Nat.pow_lt_pow_iff_right (by decide : 1 < 2)).1 (by omega)
  · intro h
    have : 2 ^ i ≤ 2 ^ Nat.log2 u := Nat.pow_le_pow_right (by decide) (by omega)
    omega

theorem nextPow2_toNat (v : BitVec 64) :
    (nextPow2 v).toNat = (smear ((v - 1).toNat) + 1) % 2 ^ 64 := by
  simp only [nextPow2, smear, BitVec.toNat_add, BitVec.toNat_or, BitVec.toNat_ushiftRight]
  rfl


theorem nextPow2_spec (v : BitVec 64) (h1 : 1 ≤ v.toNat) (h2 : v.toNat ≤ 2 ^ 63) :
    ∃ k : Nat, (nextPow2 v).toNat = 2 ^ k ∧ v.toNat ≤ 2 ^ k ∧
      (∀ j : Nat, v.toNat ≤ 2 ^ j → 2 ^ k ≤ 2 ^ j) := by
  have hu : (v - 1).toNat = v.toNat - 1 := by
    have h1' : (1 : BitVec 64).toNat = 1 := rfl
    rw [BitVec.toNat_sub, h1']; omega
  rw [nextPow2_toNat, hu]
  by_cases h0 : v.toNat - 1 = 0
  · refine ⟨0, ?_, by omega, ?_⟩
    · rw [h0]; decide
    · intro j _; exact Nat.pow_le_pow_right (by decide) (Nat.zero_le _)
  · have hlt : v.toNat - 1 < 2 ^ 64 := by omega
    rw [smear_eq _ hlt h0]
    have hlo := Nat.log2_self_le h0
    have hhi := @Nat.lt_log2_self (v.toNat - 1)
    have hm : Nat.log2 (v.toNat - 1) < 63 :=
      (Nat.log2_lt h0).2 (by omega)
    have hp : 2 ^ (Nat.log2 (v.toNat - 1) + 1) ≤ 2 ^ 63 :=
      Nat.pow_le_pow_right (by decide) (by omega)
    have hpos : 0 < 2 ^ (Nat.log2 (v.toNat - 1) + 1) := Nat.pow_pos (by decide)
    refine ⟨Nat.log2 (v.toNat - 1) + 1, ?_, by omega, ?_⟩
    · rw [Nat.sub_add_cancel hpos, Nat.mod_eq_of_lt (by omega)]
    · intro j hj
      apply Nat.pow_le_pow_right (by decide)
      have : Nat.log2 (v.toNat - 1) < j :=
        (Nat.pow_lt_pow_iff_right (by decide : 1 < 2)).1 (by omega)
      omega

/-! ### log2const -/

/-- mask test: for `v < 2^(2S)`, `v &&& hi = 0 ↔ v < 2^S`, where `hi` is the upper-half mask. -/
theorem and_hi_eq_zero_iff (v S hi : Nat) (hv : v < 2 ^ (2 * S))
    (hdisj : (2 ^ S - 1) &&& hi = 0) (hfull : hi ||| (2 ^ S - 1) = 2 ^ (2 * S) - 1) :
    v &&& hi = 0 ↔ v < 2 ^ S := by
  constructor
  · intro h
    have h1 : v = v &&& (hi ||| (2 ^ S - 1)) := by
      rw [hfull, Nat.and_two_pow_sub_one_eq_mod, Nat.mod_eq_of_lt hv]
    rw [Nat.and_or_distrib_left, h, Nat.zero_or, Nat.and_two_pow_sub_one_eq_mod] at h1
    rw [h1]; exact Nat.mod_lt _ (Nat.pow_pos (by decide))
  · intro h
    have h1 : v = v &&& (2 ^ S - 1) := by
      rw [Nat.and_two_pow_sub_one_eq_mod, Nat.mod_eq_of_lt h]
    rw [h1, Nat.and_assoc, hdisj, Nat.and_zero]

theorem log2_shift (v S : Nat) (h : 2 ^ S ≤ v) : Nat.log2 v = S + Nat.log2 (v / 2 ^ S) := by
  have hpos : 0 < 2 ^ S := Nat.pow_pos (by decide)
  have hv0 : v ≠ 0 := by omega
  have hq0 : v / 2 ^ S ≠ 0 := by
    have := (Nat.le_div_iff_mul_le hpos).2 (by omega : 1 * 2 ^ S ≤ v)
    omega
  rw [Nat.log2_eq_iff hv0]
  have hlo := Nat.log2_self_le hq0
  have hhi := @Nat.lt_log2_self (v / 2 ^ S)
  constructor
  · rw [Nat.pow_add]
    calc 2 ^ S * 2 ^ (v / 2 ^ S).log2 ≤ 2 ^ S * (v / 2 ^ S) := Nat.mul_le_mul_left _ hlo
      _ ≤ v := Nat.mul_div_le _ _
  · rw [Nat.div_lt_iff_lt_mul hpos] at hhi
    rw [show S + (v / 2 ^ S).log2 + 1 = (v / 2 ^ S).log2 + 1 + S by omega, Nat.pow_add]
    exact hhi

/-- loop invariant of log2const before the step with shift `P/2`: the remaining value is below
`2^P`, the accumulated result is a multiple of `P`, and `log2 v0 = r + log2 v`. -/
def LogInv {w : Nat} (v0 P : Nat) (st : BitVec w × BitVec 32) : Prop :=
  st.1.toNat ≠ 0 ∧ st.1.toNat < 2 ^ P ∧ P ∣ st.2.toNat ∧ st.2.toNat < 64 ∧
    Nat.log2 v0 = st.2.toNat + Nat.log2 st.1.toNat

/-- generic (width-independent) loop step -/
def logStep {w : Nat} (b : BitVec w) (S : Nat) (st : BitVec w × BitVec 32) : BitVec w × BitVec 32 :=
  if st.1 &&& b ≠ 0 then (st.1 >>> S, st.2 ||| BitVec.ofNat 32 S) else st

theorem logStep_inv {w : Nat} (v0 : Nat) (b : BitVec w) (S : Nat) (st : BitVec w × BitVec 32)
    (hS : S < 64)
    (hdisj : (2 ^ S - 1) &&& b.toNat = 0) (hfull : b.toNat ||| (2 ^ S - 1) = 2 ^ (2 * S) - 1)
    (hor : ∀ r, r < 64 → r % (2 * S) = 0 → r ||| S = r + S ∧ r + S < 64)
    (h : LogInv v0 (2 * S) st) : LogInv v0 S (logStep b S st) := by
  obtain ⟨hne, hlt, hdvd, hr, hlog⟩ := h
  have hmask := and_hi_eq_zero_iff st.1.toNat S b.toNat hlt hdisj hfull
  have hdS : S ∣ st.2.toNat := Nat.dvd_trans (Nat.dvd_mul_left S 2) hdvd
  unfold logStep
  by_cases hc : st.1 &&& b ≠ 0
  · rw [if_pos hc]
    have hge : 2 ^ S ≤ st.1.toNat := by
      apply Nat.le_of_not_lt
      intro hlt'
      apply hc
      apply BitVec.eq_of_toNat_eq
      rw [BitVec.toNat_and, hmask.2 hlt']; rfl
    have hpos : 0 < 2 ^ S := Nat.pow_pos (by decide)
    obtain ⟨hor1, hor2⟩ := hor st.2.toNat hr (Nat.mod_eq_zero_of_dvd hdvd)
    have hSmod : S % 2 ^ 32 = S := Nat.mod_eq_of_lt (by omega)
    refine ⟨?_, ?_, ?_, ?_, ?_⟩
    · show (st.1 >>> S).toNat ≠ 0
      rw [BitVec.toNat_ushiftRight, Nat.shiftRight_eq_div_pow]
      have := (Nat.le_div_iff_mul_le hpos).2 (by omega : 1 * 2 ^ S ≤ st.1.toNat)
      omega
    · show (st.1 >>> S).toNat < 2 ^ S
      rw [BitVec.toNat_ushiftRight, Nat.shiftRight_eq_div_pow, Nat.div_lt_iff_lt_mul hpos,
        ← Nat.pow_add, ← Nat.two_mul]
      exact hlt
    · show S ∣ (st.2 ||| BitVec.ofNat 32 S).toNat
      rw [BitVec.toNat_or, BitVec.toNat_ofNat, hSmod, hor1]
      exact Nat.dvd_add hdS (Nat.dvd_refl S)
    · show (st.2 ||| BitVec.ofNat 32 S).toNat < 64
      rw [BitVec.toNat_or, BitVec.toNat_ofNat, hSmod, hor1]
      exact hor2
    · show Nat.log2 v0 = (st.2 ||| BitVec.ofNat 32 S).toNat + Nat.log2 (st.1 >>> S).toNat
      rw [BitVec.toNat_or, BitVec.toNat_ofNat, hSmod, hor1, BitVec.toNat_ushiftRight,
        Nat.shiftRight_eq_div_pow, hlog, log2_shift _ _ hge]
      omega
  · rw [if_neg hc]
    have hz : st.1 &&& b = 0 := Classical.not_not.1 hc
    have hlt' : st.1.toNat < 2 ^ S := by
      apply hmask.1
      rw [← BitVec.toNat_and, hz]; rfl
    exact ⟨hne, hlt', hdS, hr, hlog⟩

theorem logInv_final {w : Nat} (v0 : Nat) (st : BitVec w × BitVec 32) (h : LogInv v0 1 st) :
    st.2.toNat = Nat.log2 v0 := by
  obtain ⟨hne, hlt, _, _, hlog⟩ := h
  have : st.1.toNat = 1 := by omega
  rw [hlog, this]
  have : Nat.log2 1 = 0 := by decide
  omega

theorem log2const64_spec (v : BitVec 64) (hv : v ≠ 0) :
    (log2const64 v).toNat = Nat.log2 v.toNat := by
  have h0 : LogInv (w := 64) v.toNat 64 (v, 0) := by
    refine ⟨?_, v.isLt, by simp, by simp, by simp⟩
    intro h; apply hv; apply BitVec.eq_of_toNat_eq; simpa using h
  have h32 := logStep_inv v.toNat 0xFFFFFFFF00000000#64 32 _ (by decide) (by decide) (by decide)
    (by decide) h0
  have h16 := logStep_inv v.toNat 0xFFFF0000#64 16 _ (by decide) (by decide) (by decide)
    (by decide) h32
  have h8 := logStep_inv v.toNat 0xFF00#64 8 _ (by decide) (by decide) (by decide)
    (by decide) h16
  have h4 := logStep_inv v.toNat 0xF0#64 4 _ (by decide) (by decide) (by decide)
    (by decide) h8
  have h2 := logStep_inv v.toNat 0xC#64 2 _ (by decide) (by decide) (by decide)
    (by decide) h4
  have h1 := logStep_inv v.toNat 0x2#64 1 _ (by decide) (by decide) (by decide)
    (by decide) h2
  exact logInv_final _ _ h1

theorem log2const32_spec (v : BitVec 32) (hv : v ≠ 0) :
    (log2const32 v).toNat = Nat.log2 v.toNat := by
  have h0 : LogInv (w := 32) v.toNat 32 (v, 0) := by
    refine ⟨?_, v.isLt, by simp, by simp, by simp⟩
    intro h; apply hv; apply BitVec.eq_of_toNat_eq; simpa using h
  have h16 := logStep_inv v.toNat 0xFFFF0000#32 16 _ (by decide) (by decide) (by decide)
    (by decide) h0
  have h8 := logStep_inv v.toNat 0xFF00#32 8 _ (by decide) (by decide) (by decide)
    (by decide) h16
  have h4 := logStep_inv v.toNat 0xF0#32 4 _ (by decide) (by decide) (by decide)
    (by decide) h8
  have h2 := logStep_inv v.toNat 0xC#32 2 _ (by decide) (by decide) (by decide)
    (by decide) h4
  have h1 := logStep_inv v.toNat 0x2#32 1 _ (by decide) (by decide) (by decide)
    (by decide) h2
  exact logInv_final _ _ h1


/-! ### alignment masks -/

/-- `x & ~(2^k - 1)` rounds `x` down to a multiple of `2^k`. -/
theorem and_not_mask_toNat {w : Nat} (x m : BitVec w) (k : Nat) (hm : m.toNat = 2 ^ k - 1) :
    (x &&& ~~~m).toNat = x.toNat / 2 ^ k * 2 ^ k := by
  apply Nat.eq_of_testBit_eq
  intro i
  rw [BitVec.testBit_toNat, BitVec.getLsbD_and, BitVec.getLsbD_not, Nat.testBit_mul_two_pow,
    Nat.testBit_div_two_pow, ← BitVec.testBit_toNat m, hm, Nat.testBit_two_pow_sub_one,
    ← BitVec.testBit_toNat x]
  by_cases hik : i < k
  · simp [hik, Nat.not_le.2 hik]
  · have hki : k ≤ i := Nat.le_of_not_lt hik
    rw [Nat.sub_add_cancel hki]
    by_cases hiw : i < w
    · simp [hik, hki, hiw]
    · have : x.toNat.testBit i = false := by
        rw [BitVec.testBit_toNat]; exact BitVec.getLsbD_of_ge x i (Nat.le_of_not_lt hiw)
      simp [this]

theorem alignToCacheLine_spec (val : BitVec 64) (h : val.toNat + 63 < 2 ^ 64) :
    (alignToCacheLine val).toNat % 64 = 0 ∧ val.toNat ≤ (alignToCacheLine val).toNat ∧
      (alignToCacheLine val).toNat < val.toNat + 64 := by
  have hm : (BitVec.ofNat 64 (kCacheLineSize - 1)).toNat = 2 ^ 6 - 1 := by decide
  have hm' : (BitVec.ofNat 64 (kCacheLineSize - 1)).toNat = 63 := by decide
  unfold alignToCacheLine
  simp only []
  rw [and_not_mask_toNat _ _ 6 hm, BitVec.toNat_add, hm']
  omega

theorem alignedMalloc_spec (base alignment : BitVec 64) (k : Nat)
    (hk : alignment.toNat = 2 ^ k) (hk16 : k ≤ 16) (hb : base.toNat % 16 = 0)
    (hbase : base.toNat + 2 ^ 17 < 2 ^ 64) :
    let a := max alignment.toNat 8
    let r := alignedMallocAddr base alignment
    r.1.toNat % alignment.toNat = 0 ∧ base.toNat + 8 ≤ r.1.toNat ∧ r.1.toNat ≤ base.toNat + a ∧
      r.2.toNat = r.1.toNat - 8 ∧ base.toNat ≤ r.2.toNat := by
  intro a r
  -- the effective alignment max(alignment, 8) = 2^k'
  obtain ⟨al', k', hal', hk', hkk', hr⟩ :
      ∃ (al' : BitVec 64) (k' : Nat), al'.toNat = 2 ^ k' ∧ 3 ≤ k' ∧ k' ≤ 16 ∧
        (al'.toNat = a ∧ k ≤ k' ∧ r = ((base + al') &&& ~~~(al' - 1), ((base + al') &&& ~~~(al' - 1)) - 8)) := by
    by_cases hlt : alignment < 8
    · refine ⟨8, 3, by decide, by omega, by omega, ?_, ?_, ?_⟩
      · have : alignment.toNat < 8 := hlt
        show 8 = max alignment.toNat 8
        omega
      · have : alignment.toNat < 8 := hlt
        rw [hk] at this
        have := (Nat.pow_lt_pow_iff_right (by decide : 1 < 2) (n := k) (m := 3)).1 this
        omega
      · show alignedMallocAddr base alignment = _
        unfold alignedMallocAddr
        simp only [if_pos hlt]
    · refine ⟨alignment, k, hk, ?_, hk16, ?_, Nat.le_refl _, ?_⟩
      · have : ¬ alignment.toNat < 8 := hlt
        rw [hk] at this
        have := (Nat.pow_le_pow_iff_right (by decide : 1 < 2) (n := 3) (m := k)).1 (by omega)
        omega
      · have : ¬ alignment.toNat < 8 := hlt
        show alignment.toNat = max alignment.toNat 8
        omega
      · show alignedMallocAddr base alignment = _
        unfold alignedMallocAddr
        simp only [if_neg hlt]
  obtain ⟨ha, hkle, hr⟩ := hr
  have hA16 : 2 ^ k' ≤ 2 ^ 16 := Nat.pow_le_pow_right (by decide) hkk'
  have hA8 : 2 ^ k' = 8 * 2 ^ (k' - 3) := by
    rw [show (8 : Nat) = 2 ^ 3 by decide, ← Nat.pow_add]; congr 1; omega
  have hAk : 2 ^ k' = 2 ^ k * 2 ^ (k' - k) := by
    rw [← Nat.pow_add]; congr 1; omega
  have hApos : 0 < 2 ^ k' := Nat.pow_pos (by decide)
  have hmask : (al' - 1).toNat = 2 ^ k' - 1 := by
    have h1' : (1 : BitVec 64).toNat = 1 := rfl
    rw [BitVec.toNat_sub, h1', hal']; omega
  have hsum : (base + al').toNat = base.toNat + 2 ^ k' := by
    rw [BitVec.toNat_add, hal']; omega
  have hb1 : ((base + al') &&& ~~~(al' - 1)).toNat
      = (base.toNat + 2 ^ k') / 2 ^ k' * 2 ^ k' := by
    rw [and_not_mask_toNat _ _ k' hmask, hsum]
  generalize hB : ((base + al') &&& ~~~(al' - 1)) = B at hr hb1
  have hdm := Nat.div_add_mod (base.toNat + 2 ^ k') (2 ^ k')
  have hml := Nat.mod_lt (base.toNat + 2 ^ k') hApos
  rw [Nat.mul_comm] at hdm
  generalize hq : (base.toNat + 2 ^ k') / 2 ^ k' = q at hdm hb1
  -- B = q * 2^k' = 8 * (q * 2^(k'-3)) = 2^k * (q * 2^(k'-k))
  have hB8 : B.toNat = 8 * (q * 2 ^ (k' - 3)) := by
    rw [hb1, hA8]; ring
  have hBk : B.toNat = 2 ^ k * (q * 2 ^ (k' - k)) := by
    rw [hb1, hAk]; ring
  have h81 : (8 : BitVec 64).toNat = 8 := rfl
  rw [hr]
  show B.toNat % alignment.toNat = 0 ∧ base.toNat + 8 ≤ B.toNat ∧ B.toNat ≤ base.toNat + a ∧
      (B - 8).toNat = B.toNat - 8 ∧ base.toNat ≤ (B - 8).toNat
  have hge : base.toNat + 8 ≤ B.toNat := by omega
  have hle : B.toNat ≤ base.toNat + a := by omega
  have hsub : (B - 8).toNat = B.toNat - 8 := by
    rw [BitVec.toNat_sub, h81]; omega
  refine ⟨?_, hge, hle, hsub, by omega⟩
  rw [hk, hBk]; exact Nat.mul_mod_right _ _

end Dispenso.Bits
