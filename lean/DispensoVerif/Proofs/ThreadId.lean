import DispensoVerif.Model.ThreadId
import DispensoVerif.Proofs.ExecInv
/-
Inductive invariant for C45 (`threadId()`): every cached id lies in `[start, nextThread)`, cached
ids are pairwise distinct, nobody ever parks.
Core Lean only.
-/
namespace Dispenso.ThreadId
open Dispenso.Conc

/-- `proto` as a reducible abbreviation (so that `simp` sees `TP.L = L`); `TP = proto` by `rfl` -/
abbrev TP : Proto := { L := L, op := op, cont := cont, entry := entry }

theorem TP_eq : TP = proto := rfl

structure Inv (start : Int) (s : State TP) : Prop where
  np : ∀ t, s.parked t = none
  ge : start ≤ s.mem 0
  range : ∀ t v, cacheOf (s.loc t) = some v → start ≤ v ∧ v < s.mem 0
  uniq : ∀ t u v, cacheOf (s.loc t) = some v → cacheOf (s.loc u) = some v → t = u

theorem inv_init (start : Int) : Inv start (initState TP (L.idle none) (fun _ => start)) :=
  ⟨fun _ => rfl, Int.le_refl _, fun _ _ h => by simp [initState, cacheOf] at h,
    fun _ _ _ h => by simp [initState, cacheOf] at h⟩

/-- the possible effects of one action -/
inductive Eff (s : State TP) : State TP → Prop
  | fetch (t : TId) : s.loc t = .fetch →
      Eff s (setLoc (setMem s 0 (s.mem 0 + 1)) t (.idle (some (s.mem 0))))
  | keep (t : TId) (l' : L) (s1 : State TP) : s1.mem = s.mem → s1.parked = s.parked →
      (∀ u, s1.loc u = if u = t then l' else s.loc u) → cacheOf l' = cacheOf (s.loc t) → Eff s s1

theorem exec_eff {start : Int} {s s' : State TP} {a : Act TP} (I : Inv start s)
    (he : exec s a = some s') : Eff s s' := by
  cases a with
  | step t =>
    obtain ⟨_, o, ho, hc⟩ := exec_step_gen he
    change op (s.loc t) = some o at ho
    cases hl : s.loc t with
    | idle c => rw [hl] at ho; cases ho
    | fetch =>
      rw [hl] at ho
      simp only [op, Option.some.injEq] at ho
      subst ho
      rcases hc with ⟨_, _, _, h, _⟩ | ⟨_, _, _, h, _⟩ | ⟨r, h, _⟩ | ⟨r, f, v, h, rfl⟩
      · cases h
      · cases h
      · simp [memEffect] at h
      · simp only [memEffect, Option.some.injEq, Prod.mk.injEq] at h
        obtain ⟨rfl, rfl, rfl⟩ := h
        have : TP.cont (s.loc t) (s.mem 0) = L.idle (some (s.mem 0)) := by rw [hl]; rfl
        rw [this]
        exact .fetch t hl
    | hit v =>
      rw [hl] at ho
      simp only [op, Option.some.injEq] at ho
      subst ho
      rcases hc with ⟨_, _, _, h, _⟩ | ⟨_, _, _, h, _⟩ | ⟨r, h, rfl⟩ | ⟨r, f, v, h, rfl⟩
      · cases h
      · cases h
      · refine .keep t (.idle (some v)) _ rfl rfl (fun u => ?_) (by rw [hl]; rfl)
        simp only [setLoc_loc]
        rw [hl]; rfl
      · simp [memEffect] at h
  | wake t ws =>
    obtain ⟨_, f, n, ho, _⟩ := exec_wake_gen he
    change op (s.loc t) = some _ at ho
    cases hl : s.loc t <;> rw [hl] at ho <;> simp [op] at ho
  | timeout t =>
    obtain ⟨f, b, r, hp, _⟩ := exec_unpark_gen (Or.inl he)
    rw [I.np t] at hp; cases hp
  | spurious t =>
    obtain ⟨f, b, r, hp, _⟩ := exec_unpark_gen (Or.inr he)
    rw [I.np t] at hp; cases hp
  | call t l =>
    obtain ⟨_, _, hen, hm, hp, hloc, _⟩ := exec_call_gen he
    refine .keep t l s' hm hp hloc ?_
    change entry (s.loc t) l = true at hen
    cases hl : s.loc t with
    | idle c =>
      rw [hl] at hen
      cases c <;> cases l <;> simp_all [entry, cacheOf]
    | fetch => rw [hl] at hen; simp [entry] at hen
    | hit v => rw [hl] at hen; simp [entry] at hen

theorem inv_eff {start : Int} {s s' : State TP} (I : Inv start s) (h : Eff s s') :
    Inv start s' := by
  cases h with
  | fetch t hl =>
    have hlt : ∀ u v, cacheOf (s.loc u) = some v → v ≠ s.mem 0 := fun u v hv h => by
      have := (I.range u v hv).2; omega
    have h0 := I.ge
    refine ⟨fun u => I.np u, ?_, fun u v hv => ?_, fun u w v hu hw => ?_⟩
    · simp only [setLoc_mem, setMem_mem]; omega
    · simp only [setLoc_loc, setLoc_mem, setMem_mem, setMem_loc, if_pos] at hv ⊢
      split at hv
      · simp only [cacheOf, Option.some.injEq] at hv
        subst hv
        omega
      · have := I.range u v hv; omega
    · simp only [setLoc_loc, setMem_loc] at hu hw
      split at hu <;> split at hw
      · rename_i h1 h2; rw [h1, h2]
      · simp only [cacheOf, Option.some.injEq] at hu
        exact absurd hu.symm (hlt _ _ hw)
      · simp only [cacheOf, Option.some.injEq] at hw
        exact absurd hw.symm (hlt _ _ hu)
      · exact I.uniq u w v hu hw
  | keep t l' _ hm hp hloc hc =>
    have key : ∀ u, cacheOf (s'.loc u) = cacheOf (s.loc u) := fun u => by
      rw [hloc]; split
      · rename_i h; rw [h, hc]
      · rfl
    refine ⟨fun u => by rw [hp]; exact I.np u, by rw [hm]; exact I.ge, fun u v hv => ?_,
      fun u w v hu hw => ?_⟩
    · rw [key] at hv; rw [hm]; exact I.range u v hv
    · rw [key] at hu hw; exact I.uniq u w v hu hw

theorem eff_stable {s s' : State TP} (hE : Eff s s') (t : TId) (v : Int)
    (hv : cacheOf (s.loc t) = some v) : cacheOf (s'.loc t) = some v := by
  cases hE with
  | fetch t' hl =>
    simp only [setLoc_loc, setMem_loc]
    split
    · rename_i htt
      subst htt
      rw [hl] at hv
      cases hv
    · exact hv
  | keep t' l' _ hm hp hloc hc =>
    rw [hloc]
    split
    · rename_i htt
      subst htt
      rw [hc]; exact hv
    · exact hv

theorem eff_mono {s s' : State TP} (hE : Eff s s') : s.mem 0 ≤ s'.mem 0 := by
  cases hE with
  | fetch t' hl =>
    simp only [setLoc_mem, setMem_mem, if_pos]
    omega
  | keep t' l' _ hm hp hloc hc => rw [hm]; exact Int.le_refl _

theorem inv_reachable (start : Int) (s : State TP)
    (h : Reachable (initState TP (L.idle none) (fun _ => start)) s) : Inv start s :=
  invariant (Inv start) (inv_init start) (fun _ _ _ I he => inv_eff I (exec_eff I he)) s h

end Dispenso.ThreadId
