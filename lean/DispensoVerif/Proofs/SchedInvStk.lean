import DispensoVerif.Proofs.SchedMeas

/-!
Preservation of the thread-table and stack well-formedness invariants by every `Step`.
-/
set_option linter.unusedSimpArgs false

namespace Dispenso.Sched

section
variable {s s' : St} {t : Nat} {f : Frame} {rest : List Frame} {e : Ev}

/-! ## the basic invariants -/

theorem wf_step (hw : WF' s.tids s.thr) (h : Step s t f rest e s') : WF' s'.tids s'.thr := by
  cases h <;> first | exact hw | exact WF'_upd hw _ _

theorem stk_step (hall : AllStk (StackOK s.sub) s.thr) (hs : norm (s.thr t) = f :: rest)
    (h : Step s t f rest e s') : AllStk (StackOK s'.sub) s'.thr := by
  have hst : StackOK s.sub (f :: rest) := hs ▸ hall t
  obtain ⟨hf, hlk, hrest⟩ := hst
  obtain ⟨f1, f2, f3, f4, f5⟩ := hf
  have hf : FrameOK s.sub f := ⟨f1, f2, f3, f4, f5⟩
  have hm : ∀ (x : Nat × Nat), ∀ p ∈ s.sub, p ∈ x :: s.sub := fun x p hp => List.mem_cons_of_mem _ hp
  have hsb : ∀ p ∈ s.sub, p ∈ s.sub := fun _ h => h
  cases h
  case callSched set id fq hd hid hp =>
    exact stk_upd hall (hm _) t ⟨by simp [FrameOK], by simp [Link], FrameOK_mono (hm _) hf, hlk,
      StackOK_mono (hm _) hrest⟩
  case gen id hk hd hid =>
    refine stk_upd hall (hm _) t ⟨?_, hlk, StackOK_mono (hm _) hrest⟩
    refine FrameOK_call (Or.inr hk) ?_ (f4 (Or.inr hk))
    intro p hp
    rcases List.mem_append.1 hp with hp | hp
    · exact ⟨hm _ _ (f1 p hp).1, (f1 p hp).2⟩
    · simp only [List.mem_singleton] at hp
      subst hp
      exact ⟨List.mem_cons_self, rfl⟩
  case endPkNil id hk hid hst hpk hr =>
    exact stk_upd hall hsb t ⟨by simp [FrameOK], by simp [Link], trivial⟩
  case endPkCons id g rest' hk hid hst hpk hr hg =>
    subst hr
    obtain ⟨⟨g1, g2, g3, g4, g5⟩, glk, grest⟩ := hrest
    exact stk_upd hall hsb t ⟨⟨g1, fun hgk => absurd hgk (hlk hk).1, g3, g4, g5⟩, glk, grest⟩
  case beginTook id hb hp hsub hq =>
    have hk := kind_of_took hf (Or.inl hp)
    refine stk_upd hall hsb t ⟨FrameOK_run _ hsub, fun _ => ⟨hk.2.2, by simp⟩, ?_, hlk, hrest⟩
    exact FrameOK_other hk.1 hk.2.1 hk.2.2 (have h3 := f3 hk.1 hk.2.1; ⟨h3.1, h3.2.1, h3.2.2.1, by simp, by simp, by simp⟩) f5
  case beginGuarded id st hb hp hsub =>
    have hk := kind_of_took hf (Or.inr ⟨st, hp⟩)
    refine stk_upd hall hsb t ⟨FrameOK_run _ hsub, fun _ => ⟨hk.2.2, by simp⟩, ?_, hlk, hrest⟩
    exact FrameOK_other hk.1 hk.2.1 hk.2.2 (have h3 := f3 hk.1 hk.2.1; ⟨h3.1, h3.2.1, h3.2.2.1, by simp, by simp, by simp⟩) f5
  case beginInlPool id hb hp hr hfq =>
    have hk := kind_of_inl hf (Or.inl hp)
    refine stk_upd hall hsb t ⟨FrameOK_run _ (f1 _ (by simp [hr])).1,
      fun _ => ⟨(call_ne hk).1, by simp⟩, ?_, hlk, hrest⟩
    exact FrameOK_call hk (by simp) (by simp)
  case beginInlGuarded id st hb hp hr hfq htc =>
    have hk := kind_of_inl hf (Or.inr (Or.inl ⟨st, hp⟩))
    refine stk_upd hall hsb t ⟨FrameOK_run _ (f1 _ (by simp [hr])).1,
      fun _ => ⟨(call_ne hk).1, by simp⟩, ?_, hlk, hrest⟩
    exact FrameOK_call hk (by simp) (by simp)
  case beginInlTs id hb hp hr hfq =>
    have hk := kind_of_inl hf (Or.inr (Or.inr hp))
    refine stk_upd hall hsb t ⟨FrameOK_run _ (f1 _ (by simp [hr])).1,
      fun _ => ⟨(call_ne hk).1, fun _ _ => ⟨hk, rfl⟩⟩, ?_, hlk, hrest⟩
    exact FrameOK_call hk (by simp) (by simp)
  case push tier n hk hr hn1 hn2 hts hall' =>
    exact stk_upd hall hsb t ⟨FrameOK_call hk (fun p hp => f1 p (List.mem_of_mem_drop hp)) (f4 hk),
      hlk, hrest⟩
  case callBulk | callWait | callCancel | callResize | callPoolDtor =>
    exact stk_upd hall hsb t ⟨by simp [FrameOK], by simp [Link], hf, hlk, hrest⟩
  case retSched | retBulk | endPlain | retWait | retCancel | retResize | retPoolDtor =>
    exact stk_upd hall hsb t hrest
  case quiesce | rings | ctor | resizeBegin | resizeEnd | dtorBegin | dtorEnd | tsCancel |
      tsZeroOther | tsCapture =>
    exact hall
  case guardFail | guardOk | tsZeroWait | tsRethrow =>
    exact stk_upd hall hsb t ⟨⟨f1, f2, f3, f4, f5⟩, hlk, hrest⟩
  case inline0 hk hp hn =>
    exact stk_upd hall hsb t ⟨FrameOK_call hk f1 (by simp), hlk, hrest⟩
  case inlinePool hk hp hfq =>
    exact stk_upd hall hsb t ⟨FrameOK_call hk f1 (by simp), hlk, hrest⟩
  case tsInline hk hset h0 hp hg hfq =>
    exact stk_upd hall hsb t ⟨FrameOK_call hk f1 (by simp), hlk, hrest⟩
  case countPos d hd hk =>
    exact stk_upd hall hsb t ⟨FrameOK_call hk f1 (f4 hk), hlk, hrest⟩
  case tsInc set n hk hset h0 =>
    exact stk_upd hall hsb t ⟨FrameOK_call hk f1 (f4 hk), hlk, hrest⟩
  case guardDrop set x hk hset h0 hp hr =>
    exact stk_upd hall hsb t ⟨FrameOK_call hk (by simp) (f4 hk), hlk, hrest⟩
  case countNeg d hd hu hp =>
    refine stk_upd hall hsb t ⟨⟨f1, fun hc => ?_, f3, f4, f5⟩, hlk, hrest⟩
    have := f2 hc
    exact ⟨by simp [this.1], this.2⟩
  case tsDec set hpd =>
    exact stk_upd hall hsb t ⟨⟨f1, fun hc => ⟨(f2 hc).1, (f2 hc).2.1, rfl⟩, f3, f4, f5⟩, hlk, hrest⟩
  case take tier hp hpd hk1 hk2 hk3 hm =>
    exact stk_upd hall hsb t ⟨FrameOK_other hk1 hk2 hk3 (have h3 := f3 hk1 hk2; ⟨h3.1, h3.2.1, h3.2.2.1, by simp, by simp, by simp⟩) f5, hlk, hrest⟩
  case guardTookSkip set hp h0 hq hpd =>
    have hk := kind_of_took hf (Or.inl hp)
    exact stk_upd hall hsb t ⟨FrameOK_other hk.1 hk.2.1 hk.2.2 (have h3 := f3 hk.1 hk.2.1; ⟨h3.1, h3.2.1, h3.2.2.1, by simp, by simp, by simp⟩) f5,
      hlk, hrest⟩
  case guardTookPass set hc hp h0 hq hpd =>
    have hk := kind_of_took hf (Or.inl hp)
    exact stk_upd hall hsb t ⟨FrameOK_other hk.1 hk.2.1 hk.2.2 (have h3 := f3 hk.1 hk.2.1; ⟨h3.1, h3.2.1, h3.2.2.1, by simp, by simp, by simp⟩) f5,
      hlk, hrest⟩
  case guardInlSkip set id0 hp hr h0 htc hpd =>
    have hk := kind_of_inl hf (Or.inl hp)
    exact stk_upd hall hsb t ⟨FrameOK_call hk (by simp) (by simp), hlk, hrest⟩
  case guardInlPass set id0 hc hp hr h0 htc hpd =>
    have hk := kind_of_inl hf (Or.inl hp)
    exact stk_upd hall hsb t ⟨FrameOK_call hk f1 (by simp), hlk, hrest⟩

/-! ## further bookkeeping -/

theorem skip0_step (ha : s.skipped 0 = 0) (h : Step s t f rest e s') : s'.skipped 0 = 0 := by
  cases h
  case guardTookSkip set hp h0 hq hpd =>
    simp only [setStack_skipped]
    rw [upd_ne _ _ _ _ (Ne.symm h0)]
    exact ha
  case guardInlSkip set id0 hp hr h0 htc hpd =>
    simp only [setStack_skipped]
    rw [upd_ne _ _ _ _ (Ne.symm h0)]
    exact ha
  all_goals exact ha

theorem drop0_step (ha : s.dropped 0 = 0) (h : Step s t f rest e s') : s'.dropped 0 = 0 := by
  cases h
  case guardDrop set x hk hset h0 hp hr =>
    simp only [setStack_dropped]
    rw [upd_ne _ _ _ _ (Ne.symm h0)]
    exact ha
  all_goals exact ha

/-- kind of the bottom frame of a stack -/
def botKind : List Frame → FK
  | [] => .base
  | [f] => f.kind
  | _ :: g :: r => botKind (g :: r)

theorem botKind_top {f f' : Frame} (h : f'.kind = f.kind) (rest : List Frame) :
    botKind (f' :: rest) = botKind (f :: rest) := by
  cases rest with
  | nil => exact h
  | cons g r => rfl

theorem botKind_top' {f f' : Frame} (rest : List Frame) (h : f'.kind = f.kind)
    (hb : botKind (f :: rest) = .base) : botKind (f' :: rest) = .base :=
  (botKind_top h rest).trans hb

theorem botKind_pop {f : Frame} {rest : List Frame} (h : botKind (f :: rest) = .base)
    (hk : f.kind ≠ .base) : rest ≠ [] ∧ botKind rest = .base := by
  cases rest with
  | nil => exact absurd h hk
  | cons g r => exact ⟨by simp, h⟩

theorem bot_upd {thr : Nat → List Frame} (hall : AllStk (fun l => botKind l = .base) thr) (t : Nat)
    {l : List Frame} (hl : botKind l = .base) : AllStk (fun l => botKind l = .base) (upd thr t l) := by
  refine AllStk_upd hall t l ?_
  cases l with
  | nil => rfl
  | cons a l => exact hl

theorem bot_step (hall : AllStk (fun l => botKind l = .base) s.thr)
    (hs : norm (s.thr t) = f :: rest) (h : Step s t f rest e s') :
    AllStk (fun l => botKind l = .base) s'.thr := by
  have hb : botKind (f :: rest) = .base := hs ▸ hall t
  have hpop : f.kind ≠ .base → botKind rest = .base := fun hk => (botKind_pop hb hk).2
  cases h
  case retSched hk hst => exact bot_upd hall t (hpop (by simp [hk]))
  case retBulk hk hst => exact bot_upd hall t (hpop (by simp [hk]))
  case endPlain id hk hid hst hpk => exact bot_upd hall t (hpop (by simp [hk]))
  case retWait set d x hk hset hst hz hexc hc => exact bot_upd hall t (hpop (by simp [hk]))
  case retCancel set hk hset hc => exact bot_upd hall t (hpop (by simp [hk]))
  case retResize hk hst hr => exact bot_upd hall t (hpop (by simp [hk]))
  case retPoolDtor hk hst hd => exact bot_upd hall t (hpop (by simp [hk]))
  case endPkNil id hk hid hst hpk hr =>
    subst hr
    exact absurd hb (by simp [botKind, hk])
  case endPkCons id g rest' hk hid hst hpk hr hg =>
    subst hr
    have := hpop (by simp [hk])
    refine bot_upd hall t ?_
    exact botKind_top' (f := g) rest' rfl this
  case quiesce | rings | ctor | resizeBegin | resizeEnd | dtorBegin | dtorEnd | tsCancel |
      tsZeroOther | tsCapture =>
    exact hall
  all_goals
    refine bot_upd hall t ?_
    first
    | exact hb
    | exact botKind_top' (f := f) rest rfl hb

/-- in a reachable stack the bottom frame is the base frame, so a pop never empties a stack -/
theorem rest_ne_nil_of_pop (hall : AllStk (fun l => botKind l = .base) s.thr)
    (hs : norm (s.thr t) = f :: rest) (hk : f.kind ≠ .base) : rest ≠ [] :=
  (botKind_pop (hs ▸ hall t) hk).1

/-! ## the `zeroPath` mark of a bulk call -/

/-- a frame marked `zeroPath` is a bulk-submission frame whose tag has been cleared: the mark is only
ever set by an `inline0` of a bulk frame, which clears `fq` in the same step, and nothing sets `fq`
of an existing frame -/
def ZpOK (l : List Frame) : Prop := ∀ g ∈ l, g.zeroPath = true → g.fq = false ∧ g.kind = .bulk

theorem ZpOK_nil : ZpOK [] := fun _ h => by cases h

theorem ZpOK_cons {a : Frame} {l : List Frame} :
    ZpOK (a :: l) ↔ (a.zeroPath = true → a.fq = false ∧ a.kind = .bulk) ∧ ZpOK l := by
  simp [ZpOK]

theorem ZpOK_base : ZpOK [{}] := by simp [ZpOK]

theorem zp_upd {thr : Nat → List Frame} (hall : AllStk ZpOK thr) (t : Nat) {l : List Frame}
    (hl : ZpOK l) : AllStk ZpOK (upd thr t l) := by
  refine AllStk_upd hall t l ?_
  cases l with
  | nil => exact ZpOK_base
  | cons a l => exact hl

theorem zp_step (hall : AllStk ZpOK s.thr) (hs : norm (s.thr t) = f :: rest)
    (h : Step s t f rest e s') : AllStk ZpOK s'.thr := by
  have hb : ZpOK (f :: rest) := hs ▸ hall t
  obtain ⟨hf, hrest⟩ := ZpOK_cons.1 hb
  cases h
  case quiesce | rings | ctor | resizeBegin | resizeEnd | dtorBegin | dtorEnd | tsCancel |
      tsZeroOther | tsCapture =>
    exact hall
  case retSched | retBulk | endPlain | retWait | retCancel | retResize | retPoolDtor =>
    exact zp_upd hall t hrest
  case endPkNil id hk hid hst hpk hr =>
    exact zp_upd hall t (ZpOK_cons.2 ⟨by simp, ZpOK_nil⟩)
  case endPkCons id g rest' hk hid hst hpk hr hg =>
    subst hr
    obtain ⟨hg', hrest'⟩ := ZpOK_cons.1 hrest
    exact zp_upd hall t (ZpOK_cons.2 ⟨hg', hrest'⟩)
  case inline0 hk hp hn =>
    exact zp_upd hall t (ZpOK_cons.2 ⟨fun h => ⟨rfl, by simpa using h⟩, hrest⟩)
  case callSched | callBulk | callWait | callCancel | callResize | callPoolDtor =>
    exact zp_upd hall t (ZpOK_cons.2 ⟨by simp, hb⟩)
  case beginTook | beginGuarded | beginInlPool | beginInlGuarded | beginInlTs =>
    exact zp_upd hall t (ZpOK_cons.2 ⟨by simp, ZpOK_cons.2 ⟨hf, hrest⟩⟩)
  all_goals exact zp_upd hall t (ZpOK_cons.2 ⟨hf, hrest⟩)

end
end Dispenso.Sched
