import DispensoVerif.Proofs.SchedInv
import DispensoVerif.Proofs.SchedSamples

/-!
The invariant of the scheduling ledger, bundled, and its validity in every reachable state.
-/
namespace Dispenso.Sched

structure Inv (s : St) : Prop where
  wf : WF' s.tids s.thr
  stk : AllStk (StackOK s.sub) s.thr
  subNd : (s.sub.map Prod.fst).Nodup
  begNd : s.begun.Nodup
  begSub : ∀ i ∈ s.begun, ∃ S, (i, S) ∈ s.sub
  acc : s.pending = tot mCredit s + s.tierItems.length + tot mUnacc s
  que : (s.queuedSets.length : Int) = s.tierItems.length + tot mTook s
  out : ∀ S, S ≠ 0 → s.outstanding S = tot (mTs S) s + s.queuedSets.count S + tot (mGuarded S) s +
      tot (mRunPk S) s + tot (mPendDec S) s
  runs : ∀ i, (s.begun.count i : Int) = s.ended.count i + tot (mRun i) s
  cons : ∀ S, (subOf S s.sub : Int) = tot (mResv S) s + s.queuedSets.count S + tot (mGuarded S) s +
      begunOf S s.begun s.sub + s.skipped S + s.dropped S
  cap : s.captured.Nodup ∧ ∀ S, (S ∈ s.captured → s.captures S = s.rethrows S + 1) ∧
      (S ∉ s.captured → s.captures S = s.rethrows S)
  ring : ∀ c ∈ s.tierItems, isRing c = true → ringIdx c < s.nRings
  skip0 : s.skipped 0 = 0
  drop0 : s.dropped 0 = 0
  bot : AllStk (fun l => botKind l = .base) s.thr
  zp : AllStk ZpOK s.thr

theorem Inv.init (n : Nat) : Inv (St.init n) := by
  constructor <;> simp [St.init, tot, totalT, subOf, begunOf]
  · exact ⟨List.nodup_nil, fun _ _ => rfl⟩
  · intro t; exact ⟨FrameOK_base _, by simp [Link], trivial⟩
  · intro t; rfl
  · intro t; exact ZpOK_base

theorem Inv.frame {s : St} (hI : Inv s) {t : Nat} {f : Frame} {rest : List Frame}
    (hs : norm (s.thr t) = f :: rest) : FrameOK s.sub f := (hs ▸ hI.stk t).1

theorem Inv.next {s s' : St} {t : Nat} {e : Ev} (hI : Inv s) (h : step s t e = some s') :
    Inv s' := by
  obtain ⟨f, rest, hs, hst⟩ := step_inv' h
  have hf := hI.frame hs
  exact {
    wf := wf_step hI.wf hst
    stk := stk_step hI.stk hs hst
    subNd := subNd_step hI.subNd hst
    begNd := begNd_step hI.begNd hst
    begSub := begSub_step hf hI.begSub hst
    acc := acc_step hI.wf hf hs hI.acc hst
    que := que_step hI.wf hf hs hI.que hst
    out := fun S hS => out_step hI.wf hf hs S hS (hI.out S hS) hst
    runs := fun i => runs_step hI.wf hs i (hI.runs i) hst
    cons := fun S => cons_step hI.wf hf hs hI.subNd hI.begSub S (hI.cons S) hst
    cap := cap_step hI.cap hst
    ring := ring_step hI.ring hst
    skip0 := skip0_step hI.skip0 hst
    drop0 := drop0_step hI.drop0 hst
    bot := bot_step hI.bot hs hst
    zp := zp_step hI.zp hs hst }

theorem Inv.reach {s : St} (h : Reach s) : Inv s :=
  Reach.induct (Inv.init 0) (fun _ _ _ _ _ hI hs => hI.next hs) s h


/-! ## derived facts -/

theorem quiescent_iff (s : St) : s.quiescent = true ↔
    s.tierItems = [] ∧ ∀ f ∈ allFrames s, f.settled = true ∧ f.kind ≠ .run := by
  simp [St.quiescent, List.all_eq_true]

/-- totals in terms of `allFrames` -/
theorem tot_eq (m : Frame → Nat) (s : St) : tot m s = ((allFrames s).map m).sum :=
  totalT_eq_allFrames m s

theorem tot_eq_zero (m : Frame → Nat) (s : St) : tot m s = 0 ↔ ∀ f ∈ allFrames s, m f = 0 :=
  totalT_eq_zero m s

theorem le_tot (m : Frame → Nat) (s : St) {f : Frame} (h : f ∈ allFrames s) : m f ≤ tot m s :=
  le_totalT m s h

/-- every frame of a reachable state is well formed -/
theorem Inv.frameOK {s : St} (hI : Inv s) {f : Frame} (h : f ∈ allFrames s) : FrameOK s.sub f := by
  obtain ⟨t, _, ht⟩ := mem_allFrames h
  exact StackOK_mem (hI.stk t) f ht

/-- the frame below a frame of a stack (or the base frame), with the link between them -/
theorem StackOK_link {sub : List (Nat × Nat)} : ∀ {l : List Frame}, StackOK sub l →
    ∀ f ∈ l, ∃ g, Link f g ∧ (g = {} ∨ g ∈ l)
  | [], _, _, hf => by cases hf
  | a :: l, ⟨_, h2, h3⟩, f, hf => by
    rcases List.mem_cons.1 hf with rfl | hf
    · refine ⟨l.headD {}, h2, ?_⟩
      cases l with
      | nil => exact Or.inl rfl
      | cons b l => exact Or.inr (by simp)
    · obtain ⟨g, hg1, hg2⟩ := StackOK_link h3 f hf
      exact ⟨g, hg1, hg2.imp id (List.mem_cons_of_mem _)⟩

theorem ind_sum_eq_countP (P : Frame → Prop) [DecidablePred P] (l : List Frame) :
    (l.map (fun f => if P f then 1 else 0)).sum = l.countP (fun f => decide (P f)) :=
  sumL_ind P l

theorem ite_sum_eq_filter (P : Frame → Prop) [DecidablePred P] (g : Frame → Nat) (l : List Frame) :
    (l.map (fun f => if P f then g f else 0)).sum = ((l.filter (fun f => decide (P f))).map g).sum := by
  induction l with
  | nil => rfl
  | cons a l ih =>
    by_cases h : P a <;> simp [h, ih]

end Dispenso.Sched
