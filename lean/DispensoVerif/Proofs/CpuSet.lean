import DispensoVerif.Model.CpuSet
/-
Helper lemmas for C43 (`CpuSet`, `buildGroupsFromCacheTopology`): sorted-insertion facts, the
range operations as folds, and the grouping fold re-expressed on *lists of atoms* (`AState`), whose
invariant gives the partition / size / single-L3 properties.  The CPU-list parser is treated in
`Proofs/CpuSetParse.lean`; `Array.qsort` returning a permutation in `Proofs/QSortPerm.lean`.
Core Lean only.
-/
namespace Dispenso.CpuSet
open List

/-- a well-formed set: strictly increasing ids below `setSize` -/
def WFSet (s : Set) : Prop := s.Pairwise (· < ·) ∧ ∀ x ∈ s, x < setSize

theorem WFSet.nil : WFSet [] := ⟨Pairwise.nil, fun _ h => nomatch h⟩

theorem WFSet.nodup {s : Set} (h : WFSet s) : s.Nodup :=
  h.1.imp (fun hab => Nat.ne_of_lt hab)

/-! ### sorted insertion -/

theorem mem_insertSorted (x j : Nat) (l : List Nat) : j ∈ insertSorted x l ↔ j = x ∨ j ∈ l := by
  induction l with
  | nil => simp [insertSorted]
  | cons y ys ih =>
    unfold insertSorted
    split
    · simp
    · split
      · rename_i _ h; subst h; simp
      · simp only [mem_cons, ih]
        constructor
        · rintro (h | h | h)
          · exact Or.inr (Or.inl h)
          · exact Or.inl h
          · exact Or.inr (Or.inr h)
        · rintro (h | h | h)
          · exact Or.inr (Or.inl h)
          · exact Or.inl h
          · exact Or.inr (Or.inr h)

theorem insertSorted_sorted (x : Nat) (l : List Nat) (h : l.Pairwise (· < ·)) :
    (insertSorted x l).Pairwise (· < ·) := by
  induction l with
  | nil => simp [insertSorted]
  | cons y ys ih =>
    obtain ⟨hy, hys⟩ := pairwise_cons.1 h
    unfold insertSorted
    split
    · rename_i hxy
      refine pairwise_cons.2 ⟨?_, h⟩
      intro z hz
      rcases mem_cons.1 hz with rfl | hz
      · exact hxy
      · exact Nat.lt_trans hxy (hy z hz)
    · split
      · exact h
      · rename_i h1 h2
        refine pairwise_cons.2 ⟨?_, ih hys⟩
        intro z hz
        rcases (mem_insertSorted x z ys).1 hz with rfl | hz
        · omega
        · exact hy z hz

theorem insertSorted_wf {s : Set} (h : WFSet s) (x : Nat) (hx : x < setSize) :
    WFSet (insertSorted x s) := by
  refine ⟨insertSorted_sorted x s h.1, ?_⟩
  intro z hz
  rcases (mem_insertSorted x z s).1 hz with rfl | hz
  · exact hx
  · exact h.2 z hz

/-- folding sorted insertion over a list of offsets -/
theorem mem_foldl_insert (lo j : Nat) (ks : List Nat) (s : List Nat) :
    j ∈ ks.foldl (fun acc k => insertSorted (lo + k) acc) s ↔ j ∈ s ∨ ∃ k ∈ ks, j = lo + k := by
  induction ks generalizing s with
  | nil => simp
  | cons k ks ih =>
    rw [foldl_cons, ih, mem_insertSorted]
    constructor
    · rintro ((h | h) | ⟨k', hk', h⟩)
      · exact Or.inr ⟨k, mem_cons_self, h⟩
      · exact Or.inl h
      · exact Or.inr ⟨k', mem_cons_of_mem _ hk', h⟩
    · rintro (h | ⟨k', hk', h⟩)
      · exact Or.inl (Or.inr h)
      · rcases mem_cons.1 hk' with rfl | hk'
        · exact Or.inl (Or.inl h)
        · exact Or.inr ⟨k', hk', h⟩

theorem foldl_insert_wf (lo : Nat) (ks : List Nat) (s : Set) (h : WFSet s)
    (hk : ∀ k ∈ ks, lo + k < setSize) :
    WFSet (ks.foldl (fun acc k => insertSorted (lo + k) acc) s) := by
  induction ks generalizing s with
  | nil => exact h
  | cons k ks ih =>
    rw [foldl_cons]
    exact ih _ (insertSorted_wf h _ (hk k mem_cons_self)) (fun k' hk' => hk k' (mem_cons_of_mem _ hk'))

theorem filter_wf {s : Set} (h : WFSet s) (p : Nat → Bool) : WFSet (s.filter p) :=
  ⟨h.1.filter p, fun x hx => h.2 x (mem_filter.1 hx).1⟩

/-! ### grouping: the fold on lists of atoms -/

/-- one step of the fold of `buildGroups` -/
def gstep (l3 : List (List Int)) (maxG : Int) (g : GState) (atom : List Int) : GState :=
  match atom with
  | [] => g
  | cpu0 :: _ =>
    let aL3 := l3Of l3 cpu0
    let crosses := aL3 ≠ g.currentL3 ∧ g.currentL3 ≥ 0
    let exceeds := (g.pending.length : Int) + atom.length > maxG
    let g1 := if crosses ∨ exceeds then flush g else g
    { g1 with currentL3 := aL3, pending := g1.pending ++ atom }

theorem buildGroups_eq (l2 l3 : List (List Int)) (m : Int) :
    buildGroups l2 l3 m =
      (flush (l2.foldl (gstep l3 (max m (largestGroupSize l2)))
        { result := [], pending := [], currentL3 := -1 })).result := by
  rfl

/-- the L3 group of an atom is that of its first CPU -/
def atomL3 (l3 : List (List Int)) : List Int → Int
  | [] => -1
  | c :: _ => l3Of l3 c

/-- the fold state with groups kept as lists of atoms -/
structure AState where
  result : List (List (List Int))
  pending : List (List Int)
  currentL3 : Int

def aflush (g : AState) : AState :=
  if g.pending = [] then g else { g with result := g.result ++ [g.pending], pending := [] }

def astep (l3 : List (List Int)) (maxG : Int) (g : AState) (atom : List Int) : AState :=
  if atom = [] then g else
    let g1 := if (atomL3 l3 atom ≠ g.currentL3 ∧ g.currentL3 ≥ 0) ∨
        ((g.pending.flatten.length : Int) + atom.length > maxG) then aflush g else g
    { g1 with currentL3 := atomL3 l3 atom, pending := g1.pending ++ [atom] }

/-- forget the atom structure -/
def AState.abs (a : AState) : GState :=
  { result := a.result.map fun G => sortInts G.flatten, pending := a.pending.flatten,
    currentL3 := a.currentL3 }

theorem flatten_eq_nil_of_ne {p : List (List Int)} (hne : ∀ x ∈ p, x ≠ []) :
    p.flatten = [] ↔ p = [] := by
  cases p with
  | nil => simp
  | cons x xs =>
    have := hne x mem_cons_self
    simp [this]

theorem aflush_pending (a : AState) : (aflush a).pending = [] := by
  unfold aflush
  split
  · assumption
  · rfl

theorem flush_abs (a : AState) (hne : ∀ x ∈ a.pending, x ≠ []) :
    flush a.abs = (aflush a).abs := by
  unfold flush aflush
  by_cases h : a.pending = []
  · have h' : a.abs.pending = [] := by simp [AState.abs, h]
    rw [if_pos h, if_pos h']
  · have h' : ¬ a.abs.pending = [] := by
      intro h'
      exact h ((flatten_eq_nil_of_ne hne).1 h')
    rw [if_neg h, if_neg h']
    simp [AState.abs]

theorem gstep_abs (l3 : List (List Int)) (maxG : Int) (a : AState)
    (hne : ∀ x ∈ a.pending, x ≠ []) (atom : List Int) :
    gstep l3 maxG a.abs atom = (astep l3 maxG a atom).abs := by
  cases atom with
  | nil => simp [gstep, astep]
  | cons c cs =>
    have hc : (c :: cs) ≠ [] := by simp
    have hL : atomL3 l3 (c :: cs) = l3Of l3 c := rfl
    simp only [gstep, astep, if_neg hc]
    rw [hL]
    have e1 : a.abs.currentL3 = a.currentL3 := rfl
    have e2 : a.abs.pending = a.pending.flatten := rfl
    rw [e1, e2]
    split
    · rw [flush_abs a hne]
      simp [AState.abs]
    · simp [AState.abs]

/-- a finished group: non-empty atoms, total size within the bound, at most one known L3 -/
structure GroupOK (l3 : List (List Int)) (maxG : Int) (G : List (List Int)) : Prop where
  ne : ∀ x ∈ G, x ≠ []
  size : (G.flatten.length : Int) ≤ maxG
  l3one : ∀ x ∈ G, ∀ y ∈ G, 0 ≤ atomL3 l3 x → 0 ≤ atomL3 l3 y → atomL3 l3 x = atomL3 l3 y

/-- the invariant of the atom-level fold after processing the atoms `done` -/
structure AInv (l3 : List (List Int)) (maxG : Int) (done : List (List Int)) (a : AState) : Prop where
  ne : ∀ x ∈ a.pending, x ≠ []
  order : a.result.flatten ++ a.pending = done.filter (fun x => !x.isEmpty)
  size : (a.pending.flatten.length : Int) ≤ maxG
  l3p : ∀ x ∈ a.pending, atomL3 l3 x = a.currentL3 ∨ atomL3 l3 x < 0
  groups : ∀ G ∈ a.result, GroupOK l3 maxG G

theorem AInv.init (l3 : List (List Int)) (maxG : Int) (h : 0 ≤ maxG) :
    AInv l3 maxG [] { result := [], pending := [], currentL3 := -1 } :=
  ⟨by simp, by simp, by simpa using h, by simp, by simp⟩

theorem AInv.pendingOK {l3 maxG done a} (I : AInv l3 maxG done a) : GroupOK l3 maxG a.pending := by
  refine ⟨I.ne, I.size, ?_⟩
  intro x hx y hy h1 h2
  have := I.l3p x hx
  have := I.l3p y hy
  omega

theorem AInv.aflush {l3 maxG done a} (I : AInv l3 maxG done a) : AInv l3 maxG done (aflush a) := by
  unfold CpuSet.aflush
  split
  · exact I
  · refine ⟨by simp, ?_, ?_, by simp, ?_⟩
    · simpa using I.order
    · have := I.size
      have h0 : (0 : Int) ≤ ((a.pending.flatten.length : Nat) : Int) := Int.natCast_nonneg _
      simp only [flatten_nil, length_nil]
      omega
    · intro G hG
      rcases mem_append.1 hG with hG | hG
      · exact I.groups G hG
      · rw [mem_singleton] at hG
        subst hG
        exact I.pendingOK

theorem AInv.astep {l3 maxG done a} (I : AInv l3 maxG done a) (atom : List Int)
    (hlen : (atom.length : Int) ≤ maxG) : AInv l3 maxG (done ++ [atom]) (astep l3 maxG a atom) := by
  unfold CpuSet.astep
  by_cases hat : atom = []
  · rw [if_pos hat]
    subst hat
    refine ⟨I.ne, ?_, I.size, I.l3p, I.groups⟩
    rw [filter_append]
    simpa using I.order
  · rw [if_neg hat]
    have hfilter : (done ++ [atom]).filter (fun x => !x.isEmpty) =
        done.filter (fun x => !x.isEmpty) ++ [atom] := by
      rw [filter_append]
      congr 1
      have : atom.isEmpty = false := by
        cases atom with
        | nil => exact absurd rfl hat
        | cons _ _ => rfl
      simp [this]
    by_cases hc : (atomL3 l3 atom ≠ a.currentL3 ∧ a.currentL3 ≥ 0) ∨
        ((a.pending.flatten.length : Int) + atom.length > maxG)
    · rw [if_pos hc]
      have J := I.aflush
      have hp := aflush_pending a
      refine ⟨?_, ?_, ?_, ?_, J.groups⟩
      · intro x hx
        simp only [hp, nil_append, mem_singleton] at hx
        subst hx; exact hat
      · show (CpuSet.aflush a).result.flatten ++ ((CpuSet.aflush a).pending ++ [atom]) = _
        rw [hfilter, ← J.order, append_assoc]
      · show ((((CpuSet.aflush a).pending ++ [atom]).flatten.length : Nat) : Int) ≤ maxG
        rw [hp]
        simpa using hlen
      · intro x hx
        simp only [hp, nil_append, mem_singleton] at hx
        subst hx
        exact Or.inl rfl
    · rw [if_neg hc]
      refine ⟨?_, ?_, ?_, ?_, I.groups⟩
      · intro x hx
        rcases mem_append.1 hx with hx | hx
        · exact I.ne x hx
        · rw [mem_singleton] at hx; subst hx; exact hat
      · show a.result.flatten ++ (a.pending ++ [atom]) = _
        rw [hfilter, ← I.order, append_assoc]
      · show (((a.pending ++ [atom]).flatten.length : Nat) : Int) ≤ maxG
        simp only [flatten_append, flatten_cons, flatten_nil, append_nil, length_append,
          Int.natCast_add]
        omega
      · intro x hx
        show atomL3 l3 x = atomL3 l3 atom ∨ atomL3 l3 x < 0
        rcases mem_append.1 hx with hx | hx
        · have := I.l3p x hx
          omega
        · rw [mem_singleton] at hx; subst hx; exact Or.inl rfl

theorem AInv.foldl {l3 maxG} (atoms : List (List Int)) (hlen : ∀ x ∈ atoms, (x.length : Int) ≤ maxG)
    (done : List (List Int)) (a : AState) (I : AInv l3 maxG done a) :
    AInv l3 maxG (done ++ atoms) (atoms.foldl (CpuSet.astep l3 maxG) a) := by
  induction atoms generalizing done a with
  | nil => simpa using I
  | cons x xs ih =>
    rw [foldl_cons]
    have := ih (fun y hy => hlen y (mem_cons_of_mem _ hy)) (done ++ [x]) _
      (I.astep x (hlen x mem_cons_self))
    simpa using this

/-- the groups of `buildGroups`, as lists of atoms -/
def groupsA (l2 l3 : List (List Int)) (m : Int) : List (List (List Int)) :=
  (aflush (l2.foldl (astep l3 (max m (largestGroupSize l2)))
    { result := [], pending := [], currentL3 := -1 })).result

theorem foldl_gstep_abs (l3 : List (List Int)) (maxG : Int) (atoms : List (List Int))
    (hlen : ∀ x ∈ atoms, (x.length : Int) ≤ maxG) (done : List (List Int)) (a : AState)
    (I : AInv l3 maxG done a) :
    atoms.foldl (gstep l3 maxG) a.abs = (atoms.foldl (astep l3 maxG) a).abs := by
  induction atoms generalizing done a with
  | nil => rfl
  | cons x xs ih =>
    rw [foldl_cons, foldl_cons, gstep_abs l3 maxG a I.ne x]
    exact ih (fun y hy => hlen y (mem_cons_of_mem _ hy)) (done ++ [x]) _
      (I.astep x (hlen x mem_cons_self))

theorem foldl_max_le (groups : List (List Int)) (init : Int) :
    init ≤ groups.foldl (fun m g => max m (g.length : Int)) init ∧
    ∀ g ∈ groups, (g.length : Int) ≤ groups.foldl (fun m g => max m (g.length : Int)) init := by
  induction groups generalizing init with
  | nil => simp
  | cons x xs ih =>
    rw [foldl_cons]
    obtain ⟨h1, h2⟩ := ih (max init (x.length : Int))
    refine ⟨by omega, ?_⟩
    intro g hg
    rcases mem_cons.1 hg with rfl | hg
    · omega
    · exact h2 g hg

theorem le_largestGroupSize (groups : List (List Int)) :
    0 ≤ largestGroupSize groups ∧ ∀ g ∈ groups, (g.length : Int) ≤ largestGroupSize groups :=
  foldl_max_le groups 0

/-- the structure theorem: `buildGroups` cuts the list of non-empty atoms into consecutive runs,
each of which is a well-formed group, and sorts the CPUs of each run. -/
theorem buildGroups_structure (l2 l3 : List (List Int)) (m : Int) :
    buildGroups l2 l3 m = (groupsA l2 l3 m).map (fun G => sortInts G.flatten) ∧
    (groupsA l2 l3 m).flatten = l2.filter (fun x => !x.isEmpty) ∧
    ∀ G ∈ groupsA l2 l3 m, G ≠ [] ∧ GroupOK l3 (max m (largestGroupSize l2)) G := by
  obtain ⟨h0, hle⟩ := le_largestGroupSize l2
  have hlen : ∀ x ∈ l2, (x.length : Int) ≤ max m (largestGroupSize l2) := by
    intro x hx; have := hle x hx; omega
  have I0 := AInv.init l3 (max m (largestGroupSize l2)) (by omega)
  have I := AInv.foldl l2 hlen [] _ I0
  rw [nil_append] at I
  have habs := foldl_gstep_abs l3 _ l2 hlen [] _ I0
  have J := I.aflush
  refine ⟨?_, ?_, ?_⟩
  · rw [buildGroups_eq]
    have e : ({ result := [], pending := [], currentL3 := -1 } : GState) =
        AState.abs { result := [], pending := [], currentL3 := -1 } := rfl
    rw [e, habs, flush_abs _ I.ne]
    rfl
  · have := J.order
    rw [aflush_pending, append_nil] at this
    exact this
  · intro G hG
    refine ⟨?_, J.groups G hG⟩
    -- groups are only ever created from a non-empty pending list
    have key : ∀ (atoms : List (List Int)) (a : AState), (∀ G ∈ a.result, G ≠ []) →
        ∀ G ∈ (aflush (atoms.foldl (astep l3 (max m (largestGroupSize l2))) a)).result, G ≠ [] := by
      have hfl : ∀ a : AState, (∀ G ∈ a.result, G ≠ []) → ∀ G ∈ (aflush a).result, G ≠ [] := by
        intro a ha G hG
        unfold aflush at hG
        split at hG
        · exact ha G hG
        · rcases mem_append.1 hG with hG | hG
          · exact ha G hG
          · rw [mem_singleton] at hG; subst hG; assumption
      intro atoms
      induction atoms with
      | nil => intro a ha; exact hfl a ha
      | cons x xs ih =>
        intro a ha
        rw [foldl_cons]
        apply ih
        unfold astep
        split
        · exact ha
        · split
          · exact hfl a ha
          · exact ha
    exact key l2 _ (by simp) G hG

/-! ### permutations and flattening -/

theorem flatten_map_perm {α β : Type} (f g : α → List β) (l : List α) (h : ∀ x ∈ l, (f x).Perm (g x)) :
    (l.map f).flatten.Perm (l.map g).flatten := by
  induction l with
  | nil => exact Perm.refl _
  | cons x xs ih =>
    simp only [map_cons, flatten_cons]
    exact (h x mem_cons_self).append (ih fun y hy => h y (mem_cons_of_mem _ hy))

theorem flatten_filter_nonempty {α : Type} (l : List (List α)) :
    (l.filter (fun x => !x.isEmpty)).flatten = l.flatten := by
  induction l with
  | nil => rfl
  | cons x xs ih =>
    cases x with
    | nil => simpa using ih
    | cons a as => simp [ih]

theorem pairwise_mem_or {α : Type} {R : α → α → Prop} (hsymm : ∀ a b, R a b → R b a)
    {l : List α} (h : l.Pairwise R) {a b : α} (ha : a ∈ l) (hb : b ∈ l) : a = b ∨ R a b := by
  induction l with
  | nil => cases ha
  | cons x xs ih =>
    obtain ⟨hx, hxs⟩ := pairwise_cons.1 h
    rcases mem_cons.1 ha with h1 | h1
    · rcases mem_cons.1 hb with h2 | h2
      · exact Or.inl (h1.trans h2.symm)
      · subst h1; exact Or.inr (hx b h2)
    · rcases mem_cons.1 hb with h2 | h2
      · subst h2; exact Or.inr (hsymm _ _ (hx a h1))
      · exact ih hxs h1 h2

end Dispenso.CpuSet
