import DispensoVerif.Proofs.Graph
import Mathlib.Data.List.Perm.Basic
/-
Construction operations (`addSubgraph`, `addNode`, `dependsOn`) and `setAllNodesIncomplete`:
they establish `WF`, `PredOK`, `Consistent`, `Closed`.
-/
namespace Dispenso.Graph
open List

theorem wrap_add_one' (x : Nat) (h2 : x + 1 < kCompleted) : wrap (x + 1) = x + 1 := by
  unfold wrap kCompleted at *; omega

/-! ### flatten / set -/

theorem flatten_set_perm : ∀ (l : List (List Nat)) (k : Nat) (v : List Nat), k < l.length →
    (l.set k v).flatten ~ v ++ (l.eraseIdx k).flatten := by
  intro l
  induction l with
  | nil => intro k v h; cases h
  | cons a l ih =>
    intro k v h
    cases k with
    | zero => simp
    | succ k =>
      simp only [List.set_cons_succ, List.flatten_cons, List.eraseIdx_cons_succ]
      have := ih k v (by simpa using h)
      exact (this.append_left a).trans (List.perm_append_comm_assoc _ _ _)

theorem flatten_perm_getD : ∀ (l : List (List Nat)) (k : Nat), k < l.length →
    l.flatten ~ l.getD k [] ++ (l.eraseIdx k).flatten := by
  intro l
  induction l with
  | nil => intro k h; cases h
  | cons a l ih =>
    intro k h
    cases k with
    | zero => simp
    | succ k =>
      simp only [List.getD_cons_succ, List.flatten_cons, List.eraseIdx_cons_succ]
      have := ih k (by simpa using h)
      exact (this.append_left a).trans (List.perm_append_comm_assoc _ _ _)

/-! ### all nodes incomplete with `inc` = in-degree -/

theorem incPreds_eq_indeg_of_all_incomplete {g : G}
    (h : ∀ n, (g.node n).alive = true → ¬ completed (g.node n) = true) (n : Nat) :
    incPreds g n = indeg g n := by
  unfold incPreds indeg
  apply List.countP_congr
  rintro ⟨p, d⟩ he
  have := h p (mem_edges.1 he).1
  simp [this]

theorem consistent_of_all_incomplete {g : G} (hw : WF g) (hb : EdgeBound g)
    (hinc : ∀ n, (g.node n).alive = true → (g.node n).inc = indeg g n) :
    Consistent g ∧ Closed g ∧ ∀ n, (g.node n).alive = true → ¬ completed (g.node n) = true := by
  have hall : ∀ n, (g.node n).alive = true → ¬ completed (g.node n) = true := by
    intro n hal
    rw [completed_iff, hinc n hal]
    have := indeg_le_length g n
    unfold EdgeBound at hb
    omega
  refine ⟨⟨hw, ?_⟩, ?_, hall⟩
  · intro n hal _
    rw [incPreds_eq_indeg_of_all_incomplete hall]
    refine ⟨hinc n hal, ?_⟩
    have := indeg_le_length g n
    unfold EdgeBound at hb
    omega
  · intro p d he _
    exact hall d (hw.deps_live p d he)

/-! ### addSubgraph -/

theorem addSubgraph_node (g : G) (j : Nat) : (addSubgraph g).1.node j = g.node j := rfl

theorem addSubgraph_edges (g : G) : edges (addSubgraph g).1 = edges g := rfl

theorem addSubgraph_allNodes (g : G) : allNodes (addSubgraph g).1 = allNodes g := by
  simp [allNodes, addSubgraph]

theorem WF.addSubgraph {g : G} (hw : WF g) : WF (addSubgraph g).1 := by
  refine ⟨?_, ?_, ?_⟩
  · intro p d he; exact hw.deps_live p d he
  · rw [addSubgraph_allNodes]; exact hw.nodup
  · intro i; rw [addSubgraph_allNodes]; exact hw.mem_all i

/-! ### addNode -/

def newNode (sub : Nat) : NodeS :=
  { dependents := [], numPred := 0, inc := 0, sub := sub, biSet := none, alive := true }

theorem addNode_length (g : G) (sub : Nat) :
    (addNode g sub).1.nodes.length = g.nodes.length + 1 := by
  simp [addNode]

theorem addNode_node (g : G) (sub j : Nat) :
    (addNode g sub).1.node j = if j = g.nodes.length then newNode sub else g.node j := by
  unfold G.node addNode
  simp only [List.getD_eq_getElem?_getD, List.getElem?_append]
  by_cases h1 : j < g.nodes.length
  · have : j ≠ g.nodes.length := by omega
    simp [h1, this]
  · by_cases h2 : j = g.nodes.length
    · subst h2
      simp [newNode]
    · have h3 : g.nodes.length ≤ j := by omega
      have h4 : 0 < j - g.nodes.length := by omega
      simp only [h1, if_false, h2]
      rw [List.getElem?_eq_none h3, List.getElem?_eq_none (by simp; omega)]

theorem addNode_node_lt (g : G) (sub j : Nat) (h : j < g.nodes.length) :
    (addNode g sub).1.node j = g.node j := by
  rw [addNode_node, if_neg (by omega)]

theorem addNode_edges (g : G) (sub : Nat) : edges (addNode g sub).1 = edges g := by
  unfold edges
  rw [addNode_length, List.range_succ, List.flatMap_append]
  have : ([g.nodes.length].flatMap fun p =>
      if ((addNode g sub).1.node p).alive = true then
        ((addNode g sub).1.node p).dependents.map (fun d => (p, d)) else []) = [] := by
    simp [addNode_node, newNode]
  rw [this, List.append_nil]
  apply List.flatMap_congr
  intro p hp
  rw [addNode_node_lt g sub p (List.mem_range.1 hp)]

theorem addNode_allNodes_perm (g : G) (sub : Nat) (h : sub < g.subs.length) :
    allNodes (addNode g sub).1 ~ g.nodes.length :: allNodes g := by
  unfold allNodes
  show (g.subs.set sub (g.subs.getD sub [] ++ [g.nodes.length])).flatten ~ _
  refine (flatten_set_perm g.subs sub _ h).trans ?_
  have h2 := (flatten_perm_getD g.subs sub h).symm
  have : g.subs.getD sub [] ++ [g.nodes.length] ++ (g.subs.eraseIdx sub).flatten ~
      g.nodes.length :: (g.subs.getD sub [] ++ (g.subs.eraseIdx sub).flatten) := by
    rw [List.append_assoc]
    exact List.perm_middle (a := g.nodes.length) (l₁ := g.subs.getD sub [])
      (l₂ := (g.subs.eraseIdx sub).flatten)
  exact this.trans (h2.cons _)

theorem WF.addNode {g : G} (hw : WF g) (sub : Nat) (h : sub < g.subs.length) :
    WF (addNode g sub).1 := by
  have hperm := addNode_allNodes_perm g sub h
  refine ⟨?_, ?_, ?_⟩
  · intro p d he
    rw [addNode_edges] at he
    have := hw.deps_live p d he
    rw [addNode_node_lt g sub d (lt_of_alive this)]
    exact this
  · rw [hperm.nodup_iff, List.nodup_cons]
    refine ⟨fun hm => ?_, hw.nodup⟩
    have := lt_of_alive ((hw.mem_all _).1 hm)
    omega
  · intro i
    rw [hperm.mem_iff, List.mem_cons, addNode_node, hw.mem_all]
    by_cases hi : i = g.nodes.length
    · simp [hi, newNode]
    · simp [hi]

theorem indeg_addNode (g : G) (sub n : Nat) : indeg (addNode g sub).1 n = indeg g n := by
  unfold indeg; rw [addNode_edges]

theorem indeg_eq_zero_of_not_alive {g : G} (hw : WF g) {n : Nat}
    (h : ¬ (g.node n).alive = true) : indeg g n = 0 := by
  unfold indeg
  rw [List.countP_eq_zero]
  rintro ⟨p, d⟩ he
  simp only [decide_eq_true_eq]
  rintro rfl
  exact h (hw.deps_live p _ he)

/-! ### dependsOn -/

theorem dependsOn_node (g : G) (n p j : Nat) (hn : n < g.nodes.length) (hp : p < g.nodes.length) :
    (dependsOn g n p).node j =
      { dependents := if j = p then (g.node j).dependents ++ [n] else (g.node j).dependents,
        numPred := if j = n then (g.node j).numPred + 1 else (g.node j).numPred,
        inc := if j = n then
            (if ¬ completed (g.node n) = true ∧ ¬ completed (g.node p) = true
              then wrap ((g.node n).inc + 1) else (g.node n).inc)
          else (g.node j).inc,
        sub := (g.node j).sub, biSet := (g.node j).biSet, alive := (g.node j).alive } := by
  unfold dependsOn
  simp only [setNode_node, setNode_length]
  by_cases h1 : j = n <;> by_cases h2 : j = p
  · subst h1; subst h2; simp [hn, completed]
  · subst h1
    have : ¬ p = j := fun e => h2 e.symm
    simp [hn, h2, this, completed]
  · subst h2
    have : ¬ n = j := fun e => h1 e.symm
    simp [hp, h1, this]
  · have h3 : ¬ n = j := fun e => h1 e.symm
    have h4 : ¬ p = j := fun e => h2 e.symm
    simp [h1, h2, h3, h4]

theorem dependsOn_length (g : G) (n p : Nat) : (dependsOn g n p).nodes.length = g.nodes.length := by
  simp [dependsOn]

theorem dependsOn_subs (g : G) (n p : Nat) : (dependsOn g n p).subs = g.subs := rfl
theorem dependsOn_biSets (g : G) (n p : Nat) : (dependsOn g n p).biSets = g.biSets := rfl
theorem dependsOn_biProp (g : G) (n p : Nat) : (dependsOn g n p).biProp = g.biProp := rfl

theorem countP_edges_dependsOn (g : G) (n p : Nat) (hn : (g.node n).alive = true)
    (hp : (g.node p).alive = true) (q : Nat × Nat → Bool) :
    (edges (dependsOn g n p)).countP q = (edges g).countP q + if q (p, n) = true then 1 else 0 := by
  have hnl := lt_of_alive hn
  have hpl := lt_of_alive hp
  rw [countP_edges, countP_edges, dependsOn_length]
  apply sum_map_update _ List.nodup_range _ _ p _ (List.mem_range.2 hpl)
  · intro a _ hap
    rw [dependsOn_node g n p a hnl hpl]
    simp [hap]
  · rw [dependsOn_node g n p p hnl hpl]
    simp only [hp, if_true, List.countP_append, List.countP_cons, List.countP_nil, Nat.zero_add]

theorem mem_edges_dependsOn (g : G) (n p : Nat) (hn : (g.node n).alive = true)
    (hp : (g.node p).alive = true) (a d : Nat) :
    (a, d) ∈ edges (dependsOn g n p) ↔ ((a, d) ∈ edges g ∨ (a = p ∧ d = n)) := by
  rw [mem_edges, mem_edges, dependsOn_node g n p a (lt_of_alive hn) (lt_of_alive hp)]
  by_cases hap : a = p
  · subst hap
    simp only [if_true, List.mem_append, List.mem_singleton, true_and, hp]
  · simp [hap]

theorem edges_dependsOn_length (g : G) (n p : Nat) (hn : (g.node n).alive = true)
    (hp : (g.node p).alive = true) :
    (edges (dependsOn g n p)).length = (edges g).length + 1 := by
  have := countP_edges_dependsOn g n p hn hp (fun _ => true)
  simpa using this

theorem edges_dependsOn_perm (g : G) (n p : Nat) (hn : (g.node n).alive = true)
    (hp : (g.node p).alive = true) : edges (dependsOn g n p) ~ (p, n) :: edges g := by
  rw [List.perm_iff_count]
  intro e
  rw [List.count_eq_countP, countP_edges_dependsOn g n p hn hp, List.count_cons,
    List.count_eq_countP]

theorem indeg_dependsOn (g : G) (n p : Nat) (hn : (g.node n).alive = true)
    (hp : (g.node p).alive = true) (m : Nat) :
    indeg (dependsOn g n p) m = indeg g m + if m = n then 1 else 0 := by
  unfold indeg
  rw [countP_edges_dependsOn g n p hn hp]
  by_cases h : m = n
  · simp [h]
  · have : ¬ n = m := fun e => h e.symm
    simp [h, this]

theorem WF.dependsOn {g : G} (hw : WF g) (n p : Nat) (hn : (g.node n).alive = true)
    (hp : (g.node p).alive = true) : WF (dependsOn g n p) := by
  have hal : ∀ j, ((Dispenso.Graph.dependsOn g n p).node j).alive = (g.node j).alive := by
    intro j; rw [dependsOn_node g n p j (lt_of_alive hn) (lt_of_alive hp)]
  refine ⟨?_, hw.nodup, ?_⟩
  · intro a d he
    rw [hal]
    rcases (mem_edges_dependsOn g n p hn hp a d).1 he with he | ⟨_, rfl⟩
    · exact hw.deps_live a d he
    · exact hn
  · intro i
    rw [hal]; exact hw.mem_all i

/-! ### freshly built graphs -/

/-- every live node is incomplete with `inc = numPred =` in-degree -/
structure Fresh (g : G) : Prop where
  wf : WF g
  pred : PredOK g
  inc : ∀ n, (g.node n).alive = true → (g.node n).inc = (g.node n).numPred

theorem Fresh.init (b : Bool) : Fresh (G.init b) := by
  have hn : ∀ i, (G.init b).node i = dead := fun i => node_of_ge (by simp [G.init])
  refine ⟨⟨?_, ?_, ?_⟩, ?_, ?_⟩
  · intro p d he
    have := (mem_edges.1 he).1
    rw [hn] at this; cases this
  · simp [allNodes, G.init]
  · intro i
    rw [hn]
    simp [allNodes, G.init, dead]
  · intro n h; rw [hn] at h; cases h
  · intro n h; rw [hn] at h; cases h

theorem Fresh.addSubgraph {g : G} (h : Fresh g) : Fresh (addSubgraph g).1 :=
  ⟨h.wf.addSubgraph, h.pred, h.inc⟩

theorem PredOK.addNode {g : G} (hw : WF g) (h : PredOK g) (sub : Nat) :
    PredOK (addNode g sub).1 := by
  intro n hal
  rw [indeg_addNode]
  rw [addNode_node] at hal ⊢
  by_cases hn : n = g.nodes.length
  · rw [if_pos hn]
    have : ¬ (g.node n).alive = true := fun e => by
      have := lt_of_alive e; omega
    rw [indeg_eq_zero_of_not_alive hw this]; rfl
  · rw [if_neg hn] at hal ⊢
    exact h n hal

theorem Fresh.addNode {g : G} (h : Fresh g) (sub : Nat) (hs : sub < g.subs.length) :
    Fresh (addNode g sub).1 := by
  refine ⟨h.wf.addNode sub hs, h.pred.addNode h.wf sub, ?_⟩
  intro n hal
  rw [addNode_node] at hal ⊢
  by_cases hn : n = g.nodes.length
  · rw [if_pos hn]; rfl
  · rw [if_neg hn] at hal ⊢
    exact h.inc n hal

theorem PredOK.dependsOn {g : G} (h : PredOK g) (n p : Nat) (hn : (g.node n).alive = true)
    (hp : (g.node p).alive = true) : PredOK (dependsOn g n p) := by
  intro m hal
  rw [indeg_dependsOn g n p hn hp]
  rw [dependsOn_node g n p m (lt_of_alive hn) (lt_of_alive hp)] at hal ⊢
  simp only at hal ⊢
  rw [h m hal]
  split_ifs <;> rfl

theorem Fresh.dependsOn {g : G} (h : Fresh g) (n p : Nat) (hn : (g.node n).alive = true)
    (hp : (g.node p).alive = true) (hb : EdgeBound (dependsOn g n p)) :
    Fresh (dependsOn g n p) := by
  refine ⟨h.wf.dependsOn n p hn hp, h.pred.dependsOn n p hn hp, ?_⟩
  unfold EdgeBound at hb
  rw [edges_dependsOn_length g n p hn hp] at hb
  have hinc : ∀ m, (g.node m).alive = true → (g.node m).inc = indeg g m :=
    fun m hm => (h.inc m hm).trans (h.pred m hm)
  have hnc : ∀ m, (g.node m).alive = true → ¬ completed (g.node m) = true := by
    intro m hm
    rw [completed_iff, hinc m hm]
    have := indeg_le_length g m
    omega
  intro m hal
  rw [dependsOn_node g n p m (lt_of_alive hn) (lt_of_alive hp)] at hal ⊢
  simp only at hal ⊢
  by_cases hm : m = n
  · subst hm
    have h1 := hnc m hn
    have h2 := hnc p hp
    have h3 := hinc m hn
    have h4 := indeg_le_length g m
    rw [if_pos rfl, if_pos rfl, if_pos ⟨h1, h2⟩, wrap_add_one' _ (by omega), h.inc m hn]
  · simp only [hm, if_false]
    exact h.inc m hal

theorem Fresh.consistent {g : G} (h : Fresh g) (hb : EdgeBound g) :
    Consistent g ∧ Closed g ∧ ∀ n, (g.node n).alive = true → ¬ completed (g.node n) = true :=
  consistent_of_all_incomplete h.wf hb (fun m hm => (h.inc m hm).trans (h.pred m hm))

/-! ### folds of pointwise node updates -/

theorem foldl_setNode_node (f : NodeS → NodeS) (hf : ∀ x, f (f x) = f x) :
    ∀ (l : List Nat) (g : G), (∀ i ∈ l, i < g.nodes.length) →
      (∀ i, (l.foldl (fun g id => g.setNode id (f (g.node id))) g).node i =
        if i ∈ l then f (g.node i) else g.node i) ∧
      (l.foldl (fun g id => g.setNode id (f (g.node id))) g).nodes.length = g.nodes.length ∧
      (l.foldl (fun g id => g.setNode id (f (g.node id))) g).subs = g.subs ∧
      (l.foldl (fun g id => g.setNode id (f (g.node id))) g).biSets = g.biSets ∧
      (l.foldl (fun g id => g.setNode id (f (g.node id))) g).biProp = g.biProp := by
  intro l
  induction l with
  | nil => intro g _; simp
  | cons a l ih =>
    intro g hl
    rw [List.foldl_cons]
    have ha : a < g.nodes.length := hl a List.mem_cons_self
    obtain ⟨h1, h2, h3, h4, h5⟩ := ih (g.setNode a (f (g.node a)))
      (fun i hi => by rw [setNode_length]; exact hl i (List.mem_cons_of_mem _ hi))
    refine ⟨?_, by rw [h2, setNode_length], by rw [h3, setNode_subs], by rw [h4, setNode_biSets],
      by rw [h5, setNode_biProp]⟩
    intro i
    rw [h1 i, setNode_node]
    by_cases hia : a = i
    · subst hia
      simp [ha, hf]
    · have : ¬ i = a := fun e => hia e.symm
      simp [hia, this]

/-! ### setAllNodesIncomplete -/

theorem setAll_node (g : G) (hw : WF g) (i : Nat) :
    (setAllNodesIncomplete g).node i =
      if (g.node i).alive = true then { g.node i with inc := (g.node i).numPred } else g.node i := by
  have h := (foldl_setNode_node (fun n => { n with inc := n.numPred }) (fun _ => rfl)
    (allNodes g) g (fun i hi => lt_of_alive ((hw.mem_all i).1 hi))).1 i
  simp only [hw.mem_all] at h
  exact h

theorem setAll_shape (g : G) (hw : WF g) : SameShape g (setAllNodesIncomplete g) := by
  have h := foldl_setNode_node (fun n => { n with inc := n.numPred }) (fun _ => rfl)
    (allNodes g) g (fun i hi => lt_of_alive ((hw.mem_all i).1 hi))
  refine ⟨h.2.1, h.2.2.1, h.2.2.2.2, h.2.2.2.1, ?_, ?_, ?_, ?_⟩ <;> intro i <;>
    rw [setAll_node g hw i] <;> split_ifs <;> rfl

theorem setAll_spec (g : G) (hw : WF g) (hp : PredOK g) (hb : EdgeBound g) :
    Consistent (setAllNodesIncomplete g) ∧ Closed (setAllNodesIncomplete g) ∧
    (∀ n, ((setAllNodesIncomplete g).node n).alive = true →
      ¬ completed ((setAllNodesIncomplete g).node n) = true) ∧
    SameShape g (setAllNodesIncomplete g) := by
  have hs := setAll_shape g hw
  have hw' := WF.of_sameShape hs hw
  have hb' : EdgeBound (setAllNodesIncomplete g) := by
    unfold EdgeBound; rw [hs.edges]; exact hb
  have := consistent_of_all_incomplete hw' hb' (by
    intro n hal
    rw [hs.alive] at hal
    unfold indeg
    rw [hs.edges, setAll_node g hw n, if_pos hal]
    exact hp n hal)
  exact ⟨this.1, this.2.1, this.2.2, hs⟩

end Dispenso.Graph
