import DispensoVerif.Proofs.HBSpsc
/-
C10, SPSC ring: every non-relaxed entry of the `need` table is necessary.  For each site the
declared-order table of the source (`binding.reqOrder`) with THAT site weakened to relaxed admits a
role-respecting execution (producer thread 0, consumer thread 1, buffer size 2) with a data race on
a slot (decided by evaluation: `HB.raceAt`).
-/
namespace Dispenso.Spsc
open Dispenso.Conc Dispenso.HB

inductive Site where
  | pLoadH | pPub | cLoadT | cPub | bLoadH | bPub | qLoadT | qPub
  deriving DecidableEq, Repr

def siteOf : L → Option Site
  | .pLoadH _ _ => some .pLoadH
  | .pPub _ => some .pPub
  | .cLoadT _ => some .cLoadT
  | .cPub _ _ => some .cPub
  | .bLoadH _ _ => some .bLoadH
  | .bPub _ _ => some .bPub
  | .qLoadT _ _ => some .qLoadT
  | .qPub _ _ => some .qPub
  | _ => none

/-- the source's table with site `c` weakened to `memory_order_relaxed` -/
def reqBut (K : Nat) (c : Site) : L → Nat :=
  fun l => if siteOf l = some c then 0 else (binding K).reqOrder l

def rolesB (P C : TId) {K : Nat} (as : List (Act (proto K))) : Bool :=
  as.all fun a => match a with
    | .call t l => (!isPushCall l || t == P) && (!isPopCall l || t == C)
    | _ => true

theorem roles_of_rolesB {P C : TId} {K : Nat} {as : List (Act (proto K))}
    (h : rolesB P C as = true) : Roles P C as := by
  intro a ha t l e
  have := List.all_eq_true.1 h a ha
  subst e
  simp only [Bool.and_eq_true, Bool.or_eq_true, Bool.not_eq_true', beq_iff_eq] at this
  refine ⟨fun h1 => ?_, fun h1 => ?_⟩
  · rcases this.1 with h2 | h2
    · rw [h1] at h2; cases h2
    · exact h2
  · rcases this.2 with h2 | h2
    · rw [h1] at h2; cases h2
    · exact h2

def push (v : Int) : List (Act (proto 2)) := [.call 0 (L.pLoadT v), .step 0, .step 0, .step 0, .step 0]
def pop : List (Act (proto 2)) := [.call 1 L.cLoadH, .step 1, .step 1, .step 1, .step 1]
def pushB (v : Int) : List (Act (proto 2)) :=
  [.call 0 (L.bLoadT [v]), .step 0, .step 0, .step 0, .step 0]
def popB : List (Act (proto 2)) := [.call 1 (L.qLoadH 1), .step 1, .step 1, .step 1, .step 1]
/-- the same calls up to (and including) the slot access -/
def pushW (v : Int) : List (Act (proto 2)) := [.call 0 (L.pLoadT v), .step 0, .step 0, .step 0]
def popW : List (Act (proto 2)) := [.call 1 L.cLoadH, .step 1, .step 1, .step 1]
def pushBW (v : Int) : List (Act (proto 2)) := [.call 0 (L.bLoadT [v]), .step 0, .step 0, .step 0]
def popBW : List (Act (proto 2)) := [.call 1 (L.qLoadH 1), .step 1, .step 1, .step 1]

/-- hand-off of a filled slot: push, then pop up to the move-out -/
def fill : List (Act (proto 2)) := push 7 ++ popW
/-- reuse of a slot: the third push writes slot 0, which the first pop moved out -/
def reuse : List (Act (proto 2)) := push 7 ++ pop ++ push 8 ++ pop ++ pushW 9

abbrev Wit (c : Site) (acts : List (Act (proto 2))) : Prop :=
  ∃ s tr, runH (hbSpec 2 (reqBut 2 c)) (init 2) acts = some (s, tr) ∧ Race tr

theorem needed_pPub : Wit .pPub fill := exists_race_of_runH (i := 2) (j := 6) (by decide)
theorem needed_cLoadT : Wit .cLoadT fill := exists_race_of_runH (i := 2) (j := 6) (by decide)
theorem needed_cPub : Wit .cPub reuse := exists_race_of_runH (i := 6) (j := 18) (by decide)
theorem needed_pLoadH : Wit .pLoadH reuse := exists_race_of_runH (i := 6) (j := 18) (by decide)
theorem needed_bPub : Wit .bPub (pushB 7 ++ popW) :=
  exists_race_of_runH (i := 2) (j := 6) (by decide)
theorem needed_qLoadT : Wit .qLoadT (push 7 ++ popBW) :=
  exists_race_of_runH (i := 2) (j := 6) (by decide)
theorem needed_qPub : Wit .qPub (push 7 ++ popB ++ push 8 ++ popB ++ pushW 9) :=
  exists_race_of_runH (i := 6) (j := 18) (by decide)
theorem needed_bLoadH : Wit .bLoadH (pushB 7 ++ pop ++ pushB 8 ++ pop ++ pushBW 9) :=
  exists_race_of_runH (i := 6) (j := 18) (by decide)

theorem wit_roles : rolesB 0 1 fill = true ∧ rolesB 0 1 reuse = true ∧
    rolesB 0 1 (pushB 7 ++ popW) = true ∧ rolesB 0 1 (push 7 ++ popBW) = true ∧
    rolesB 0 1 (push 7 ++ popB ++ push 8 ++ popB ++ pushW 9) = true ∧
    rolesB 0 1 (pushB 7 ++ pop ++ pushB 8 ++ pop ++ pushBW 9) = true := by decide

/-- with the unweakened table the longest witness execution is accepted by the detector -/
example : (runH (hbSpec 2 (binding 2).reqOrder) (init 2) reuse).map
    (fun p => (D.init.run p.2).isSome) = some true := by decide

end Dispenso.Spsc
