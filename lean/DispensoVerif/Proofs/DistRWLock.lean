import DispensoVerif.Model.DistRWLock
import DispensoVerif.Proofs.ExecInv
/-
Inductive invariant for C23 (`DistributedRWLockImpl<N>`).

Per slot `i < N` the lock word is `readers_i + W * owners_i`, where `readers_i` is the number of
threads that currently contribute a reader unit to slot `i` and `owners_i ≤ 1` the number of
threads that own the writer bit of slot `i`.  A writer in phase 2 has *drained* the slots below
its cursor: no reader holds on a drained slot (readers that arrive later see the bit and back
out).  Only phase-2 writers park, on the slot they are draining, and a slot word that becomes
exactly `W` while its owner is parked leaves a pending notifier behind.
Core Lean only.
-/
set_option linter.unusedSimpArgs false

namespace Dispenso.DistRWLock
open Dispenso.Conc

/-- `proto N` as a reducible abbreviation (so that `simp` sees `(DP N).L = L`) -/
abbrev DP (N : Nat) : Proto := { L := L, op := op, cont := cont N, entry := entry N }

theorem DP_eq (N : Nat) : DP N = proto N := rfl

/-! ### the writer bit -/

theorem W_val : W = 2147483648 := rfl
theorem R_val : R = 2147483647 := rfl

theorem nat_or_lo (n : Nat) (h : n < 2147483648) : n ||| 2147483648 = n + 2147483648 := by
  have := Nat.two_pow_add_eq_or_of_lt (i := 31) (b := n) (by omega) 1
  rw [Nat.or_comm]
  simp only [Nat.mul_one, Nat.reducePow] at this
  omega

theorem nat_or_hi (n : Nat) (h1 : 2147483648 ≤ n) (h2 : n < 4294967296) :
    n ||| 2147483648 = n := by
  obtain ⟨m, rfl⟩ : ∃ m, n = 2147483648 + m := ⟨n - 2147483648, by omega⟩
  have := Nat.two_pow_add_eq_or_of_lt (i := 31) (b := m) (by omega) 1
  simp only [Nat.mul_one, Nat.reducePow] at this
  rw [this, Nat.or_comm, ← Nat.or_assoc, Nat.or_self]

theorem nat_and_hi (n : Nat) (h1 : 2147483648 ≤ n) (h2 : n < 4294967296) :
    n &&& 2147483647 = n - 2147483648 := by
  have := Nat.and_two_pow_sub_one_eq_mod n 31
  simp only [Nat.reducePow, Nat.reduceSub] at this
  omega

theorem nat_and_lo (n : Nat) (h : n < 2147483648) : n &&& 2147483647 = n := by
  have := Nat.and_two_pow_sub_one_eq_mod n 31
  simp only [Nat.reducePow, Nat.reduceSub] at this
  omega

/-- setting the writer bit of a word that does not have it adds `W` -/
theorem bor_lo {x : Int} (h0 : 0 ≤ x) (h1 : x < W) : bor x W = x + W := by
  obtain ⟨n, rfl⟩ := Int.eq_ofNat_of_zero_le h0
  rw [W_val] at h1 ⊢
  have : n < 2147483648 := by omega
  show Int.ofNat (n ||| 2147483648) = _
  rw [nat_or_lo n this]
  rfl

/-- setting the writer bit of a word that has it changes nothing -/
theorem bor_hi {x : Int} (h0 : W ≤ x) (h1 : x < 2 * W) : bor x W = x := by
  rw [W_val] at h0 h1
  obtain ⟨n, rfl⟩ := Int.eq_ofNat_of_zero_le (a := x) (by omega)
  show Int.ofNat (n ||| 2147483648) = _
  rw [nat_or_hi n (by omega) (by omega)]
  rfl

/-- clearing the writer bit of a word that has it subtracts `W` -/
theorem band_hi {x : Int} (h0 : W ≤ x) (h1 : x < 2 * W) : band x R = x - W := by
  rw [W_val] at h0 h1 ⊢
  obtain ⟨n, rfl⟩ := Int.eq_ofNat_of_zero_le (a := x) (by omega)
  show Int.ofNat (n &&& 2147483647) = _
  rw [nat_and_hi n (by omega) (by omega)]
  show ((n - 2147483648 : Nat) : Int) = _
  omega

/-- clearing the writer bit of a word that does not have it changes nothing -/
theorem band_lo {x : Int} (h0 : 0 ≤ x) (h1 : x < W) : band x R = x := by
  rw [W_val] at h1
  obtain ⟨n, rfl⟩ := Int.eq_ofNat_of_zero_le h0
  show Int.ofNat (n &&& 2147483647) = _
  rw [nat_and_lo n (by omega)]
  rfl

/-! ### roles of the local states -/

/-- slot indices in range; a parked-or-about-to-park writer did not see the drained value -/
def wfL (N : Nat) : L → Prop
  | .idle => True
  | .done _ (.read f) => f < N
  | .done _ _ => True
  | .lkOr i => i < N
  | .lkLoad i => i < N
  | .lkWait i cur => i < N ∧ cur ≠ W
  | .tlOr i => i < N
  | .tlRollback j i => j < i ∧ i < N
  | .ulAnd i => i < N
  | .lsAdd f => f < N
  | .lsRelease f => f < N
  | .lsNotify f => f < N
  | .lsSpin f => f < N
  | .tsAdd f => f < N
  | .tsRelease f => f < N
  | .tsNotify f => f < N
  | .usSub f => f < N
  | .usNotify f => f < N

/-- the thread owns the writer bit of slot `k` -/
def ownsBit (N : Nat) : L → Nat → Prop
  | .lkOr i, k => k < i
  | .lkLoad _, k => k < N
  | .lkWait _ _, k => k < N
  | .done _ .write, k => k < N
  | .tlOr i, k => k < i
  | .tlRollback j i, k => j ≤ k ∧ k < i
  | .ulAnd i, k => i ≤ k ∧ k < N
  | _, _ => False

instance (N : Nat) (l : L) (k : Nat) : Decidable (ownsBit N l k) := by
  unfold ownsBit; split <;> infer_instance

/-- number of writer bits of slot `k` owned by a thread in local state `l` (0 or 1) -/
def wc (N k : Nat) (l : L) : Nat := if ownsBit N l k then 1 else 0

/-- number of reader units a thread in local state `l` contributes to slot `k` (0 or 1) -/
def rc (k : Nat) : L → Nat
  | .done _ (.read f) => if f = k then 1 else 0
  | .usSub f => if f = k then 1 else 0
  | .lsRelease f => if f = k then 1 else 0
  | .tsRelease f => if f = k then 1 else 0
  | _ => 0

/-- the thread holds slot `k` shared (its `fetch_add` saw no writer bit and it has not released) -/
def rh (k : Nat) : L → Prop
  | .done _ (.read f) => f = k
  | .usSub f => f = k
  | _ => False

/-- phase-2 progress of a writer: slots `j < drained` were observed to be exactly `W` -/
def drained (N : Nat) : L → Nat
  | .lkLoad i => i
  | .lkWait i _ => i
  | .done _ .write => N
  | _ => 0

/-- a pending futex wake on slot `i` -/
def isNotify (i : Nat) (l : L) : Prop := l = .lsNotify i ∨ l = .tsNotify i ∨ l = .usNotify i

theorem wc_le (N k : Nat) (l : L) : wc N k l ≤ 1 := by unfold wc; split <;> omega
theorem rc_le (k : Nat) (l : L) : rc k l ≤ 1 := by unfold rc; split <;> (try split) <;> omega

theorem wc_eq_one {N k : Nat} {l : L} : wc N k l = 1 ↔ ownsBit N l k := by
  unfold wc; split <;> simp_all

theorem wc_eq_zero {N k : Nat} {l : L} : wc N k l = 0 ↔ ¬ ownsBit N l k := by
  unfold wc; split <;> simp_all

theorem rh_rc {k : Nat} {l : L} (h : rh k l) : rc k l = 1 := by
  cases l <;> simp_all [rh, rc]
  rename_i r h'; cases h' <;> simp_all [rh, rc]

theorem rh_drained {N k : Nat} {l : L} (h : rh k l) : drained N l = 0 := by
  cases l <;> simp_all [rh, drained]
  rename_i r h'; cases h' <;> simp_all [rh, drained]

theorem drained_owns {N j : Nat} {l : L} (hw : wfL N l) (h : j < drained N l) :
    ownsBit N l j ∧ j < N := by
  cases l <;> simp_all [wfL, drained, ownsBit]
  · rename_i r h'; cases h' <;> simp_all [drained, ownsBit]
  · omega
  · omega

theorem owns_lt {N k : Nat} {l : L} (hw : wfL N l) (h : ownsBit N l k) : k < N := by
  cases l <;> simp_all [wfL, ownsBit]
  · rename_i r h'; cases h' <;> simp_all [ownsBit]
  all_goals omega

theorem owns_ne_idle {N k : Nat} {l : L} (h : ownsBit N l k) : l ≠ .idle := by
  rintro rfl; exact h

theorem rc_ne_idle {k : Nat} {l : L} (h : rc k l ≠ 0) : l ≠ .idle := by
  rintro rfl; exact h rfl

/-! ### the invariant -/

structure Inv (N : Nat) (s : State (DP N)) : Prop where
  small : s.threads.length < 2 ^ 30
  nd : s.threads.Nodup
  out : ∀ t, t ∉ s.threads → s.loc t = .idle ∧ s.parked t = none
  wf : ∀ t, wfL N (s.loc t)
  pk : ∀ u f b, s.parked u = some (f, b) → b = false ∧ ∃ cur, s.loc u = .lkWait f cur
  cm : ∀ i, i < N → s.mem i =
    (cntL (rc i) s.loc s.threads : Int) + W * (cntL (wc N i) s.loc s.threads : Int)
  w1 : ∀ i, i < N → cntL (wc N i) s.loc s.threads ≤ 1
  dr : ∀ t u j, j < drained N (s.loc t) → ¬ rh j (s.loc u)
  nl : ∀ u i, s.parked u = some (i, false) → s.mem i = W → ∃ t, isNotify i (s.loc t)

section
variable {N : Nat} {s : State (DP N)}

theorem Inv.inThreads (I : Inv N s) {t : TId} (h : s.loc t ≠ .idle) : t ∈ s.threads := by
  apply Classical.byContradiction
  intro hn
  exact h (I.out t hn).1

theorem Inv.rlt (I : Inv N s) (i : Nat) : cntL (rc i) s.loc s.threads < 2 ^ 30 :=
  Nat.lt_of_le_of_lt (cntL_le_length _ _ (rc_le i)) I.small

/-- the word of slot `i` is in `[0, 2W)` -/
theorem Inv.range (I : Inv N s) {i : Nat} (hi : i < N) : 0 ≤ s.mem i ∧ s.mem i < 2 * W := by
  have h1 := I.cm i hi
  have h2 := I.w1 i hi
  have h3 := I.rlt i
  rw [W_val] at h1 ⊢
  omega

theorem Inv.owner_cnt (I : Inv N s) {i : Nat} (hi : i < N) {t : TId}
    (h : ownsBit N (s.loc t) i) : cntL (wc N i) s.loc s.threads = 1 := by
  have h1 := cntL_mem_le (wc N i) s.loc (I.inThreads (owns_ne_idle h))
  rw [wc_eq_one.mpr h] at h1
  have := I.w1 i hi
  omega

/-- the owner of a writer bit is unique -/
theorem Inv.owner_unique (I : Inv N s) {i : Nat} (hi : i < N) {t u : TId}
    (ht : ownsBit N (s.loc t) i) (hu : ownsBit N (s.loc u) i) : t = u := by
  apply Classical.byContradiction
  intro hne
  have h1 := cntL_two (wc N i) s.loc I.nd (I.inThreads (owns_ne_idle ht))
    (I.inThreads (owns_ne_idle hu)) hne
  rw [wc_eq_one.mpr ht, wc_eq_one.mpr hu] at h1
  have := I.w1 i hi
  omega

theorem Inv.owner_mem (I : Inv N s) {i : Nat} (hi : i < N) {t : TId}
    (h : ownsBit N (s.loc t) i) : W ≤ s.mem i := by
  have h1 := I.cm i hi
  rw [I.owner_cnt hi h] at h1
  rw [W_val] at h1 ⊢
  omega

theorem Inv.mem_owner (I : Inv N s) {i : Nat} (hi : i < N) (h : W ≤ s.mem i) :
    ∃ t, ownsBit N (s.loc t) i := by
  have h1 := I.cm i hi
  have h3 := I.rlt i
  have : 0 < cntL (wc N i) s.loc s.threads := by
    rw [W_val] at h1 h
    omega
  obtain ⟨t, _, ht⟩ := cntL_pos _ _ this
  refine ⟨t, wc_eq_one.mp ?_⟩
  have := wc_le N i (s.loc t)
  omega

/-- a slot word that is exactly `W` has no reader contribution at all -/
theorem Inv.drained_slot (I : Inv N s) {i : Nat} (hi : i < N) (h : s.mem i = W) (u : TId) :
    rc i (s.loc u) = 0 := by
  have h1 := I.cm i hi
  have h2 := I.w1 i hi
  have h3 := I.rlt i
  have h0 : cntL (rc i) s.loc s.threads = 0 := by
    rw [W_val] at h1 h
    omega
  apply Classical.byContradiction
  intro hne
  have := cntL_mem_le (rc i) s.loc (I.inThreads (rc_ne_idle hne))
  omega

/-- a parked thread owns every writer bit -/
theorem Inv.parked_owns (I : Inv N s) {u : TId} {i : Nat} {b : Bool}
    (h : s.parked u = some (i, b)) : ownsBit N (s.loc u) i ∧ i < N := by
  obtain ⟨_, cur, hl⟩ := I.pk u i b h
  have := I.wf u
  rw [hl] at this ⊢
  exact ⟨this.1, this.1⟩

/-- frame lemma: the unparked thread `t` moves to local state `l'`, possibly changing memory -/
theorem Inv.update {s1 : State (DP N)} (I : Inv N s) {t : TId} (ht : t ∈ s.threads)
    (hp : s.parked t = none) (l' : L)
    (h1 : s1.loc = s.loc) (h2 : s1.parked = s.parked) (h3 : s1.threads = s.threads)
    (hwf : wfL N l')
    (hm : ∀ i, i < N → s1.mem i + (rc i (s.loc t) : Int) + W * (wc N i (s.loc t) : Int) =
      s.mem i + (rc i l' : Int) + W * (wc N i l' : Int))
    (hgain : ∀ i, i < N → ownsBit N l' i → ownsBit N (s.loc t) i ∨ s.mem i < W)
    (hdrain : ∀ j, j < drained N l' → j < drained N (s.loc t) ∨ s.mem j = W)
    (hhold : ∀ j, rh j l' → rh j (s.loc t) ∨ s.mem j < W)
    (hnl : ∀ u i, s.parked u = some (i, false) → s1.mem i = W →
      (s.mem i = W ∧ ¬ isNotify i (s.loc t)) ∨ isNotify i l' ∨ ownsBit N (s.loc t) i ∨
        s.mem i < W) :
    Inv N (setLoc s1 t l') := by
  have hloc : (setLoc s1 t l').loc = fun u => if u = t then l' else s.loc u := by
    funext u; simp [h1]
  have hcr := fun i => cntL_update (rc i) s.loc I.nd ht l'
  have hcw := fun i => cntL_update (wc N i) s.loc I.nd ht l'
  refine ⟨?_, ?_, fun u hu => ?_, fun u => ?_, fun u f b hu => ?_, fun i hi => ?_, fun i hi => ?_,
    fun t2 u j hj hr => ?_, fun u i hu hz => ?_⟩
  · simpa [h3] using I.small
  · simpa [h3] using I.nd
  · simp only [setLoc_threads, h3] at hu
    have : u ≠ t := fun h => hu (h ▸ ht)
    simpa [this, h1, h2] using I.out u hu
  · rw [hloc]
    show wfL N (if u = t then l' else s.loc u)
    split
    · exact hwf
    · exact I.wf u
  · simp only [setLoc_parked, h2] at hu
    have : u ≠ t := fun h => by rw [h, hp] at hu; cases hu
    rw [hloc]
    simpa [this] using I.pk u f b hu
  · rw [hloc]
    simp only [setLoc_threads, h3, setLoc_mem]
    have a := hcr i
    have b := hcw i
    have c := hm i hi
    have d := I.cm i hi
    rw [W_val] at c d ⊢
    omega
  · rw [hloc]
    simp only [setLoc_threads, h3]
    have b := hcw i
    have d := I.w1 i hi
    by_cases ho : ownsBit N l' i
    · rcases hgain i hi ho with h | h
      · rw [wc_eq_one.mpr ho, wc_eq_one.mpr h] at b; omega
      · have c := I.cm i hi
        have e := I.rlt i
        have : cntL (wc N i) s.loc s.threads = 0 := by
          rw [W_val] at c h
          omega
        have := wc_le N i l'
        omega
    · rw [wc_eq_zero.mpr ho] at b; omega
  · rw [hloc] at hj hr
    simp only at hj hr
    by_cases e1 : t2 = t <;> by_cases e2 : u = t
    · subst e1 e2
      simp only [if_pos] at hj hr
      rw [rh_drained hr] at hj
      omega
    · subst e1
      simp only [if_pos, if_neg e2] at hj hr
      rcases hdrain j hj with h | h
      · exact I.dr t2 u j h hr
      · have := I.drained_slot (drained_owns hwf hj).2 h u
        rw [rh_rc hr] at this
        cases this
    · subst e2
      simp only [if_pos, if_neg e1] at hj hr
      rcases hhold j hr with h | h
      · exact I.dr t2 u j hj h
      · obtain ⟨ho, hjN⟩ := drained_owns (I.wf t2) hj
        have := I.owner_mem hjN ho
        omega
    · simp only [if_neg e1, if_neg e2] at hj hr
      exact I.dr t2 u j hj hr
  · simp only [setLoc_parked, h2, setLoc_mem] at hu hz
    have hut : u ≠ t := fun h => by rw [h, hp] at hu; cases hu
    obtain ⟨hou, hiN⟩ := I.parked_owns hu
    rcases hnl u i hu hz with ⟨ha, hb⟩ | h | h | h
    · obtain ⟨t0, h0⟩ := I.nl u i hu ha
      have : t0 ≠ t := fun h => hb (h ▸ h0)
      refine ⟨t0, ?_⟩
      rw [hloc]
      simpa [this] using h0
    · refine ⟨t, ?_⟩
      rw [hloc]
      simpa using h
    · exact absurd (I.owner_unique hiN hou h) hut
    · have := I.owner_mem hiN hou
      omega

/-- frame lemma: some parked writers are woken (`lkWait i cur ↦ lkLoad i`), nothing else changes -/
theorem Inv.congr {s' : State (DP N)} (I : Inv N s) (hth : s'.threads = s.threads)
    (hmem : s'.mem = s.mem)
    (hloc : ∀ u, s'.loc u = s.loc u ∨
      ∃ i cur, s.loc u = .lkWait i cur ∧ s'.loc u = .lkLoad i ∧ s'.parked u = none)
    (hpk : ∀ u, s'.parked u = s.parked u ∨ s'.parked u = none) : Inv N s' := by
  have key : ∀ u, (∀ i, rc i (s'.loc u) = rc i (s.loc u)) ∧
      (∀ i, wc N i (s'.loc u) = wc N i (s.loc u)) ∧
      drained N (s'.loc u) = drained N (s.loc u) ∧ (∀ i, rh i (s'.loc u) ↔ rh i (s.loc u)) ∧
      wfL N (s'.loc u) ∧ (s.loc u = .idle → s'.loc u = .idle) ∧
      (∀ i, isNotify i (s.loc u) → s'.loc u = s.loc u) := by
    intro u
    have hw := I.wf u
    rcases hloc u with h | ⟨i, cur, ha, hb, _⟩
    · rw [h]; exact ⟨fun _ => rfl, fun _ => rfl, rfl, fun _ => Iff.rfl, hw, id, fun _ _ => rfl⟩
    · rw [ha] at hw ⊢
      rw [hb]
      refine ⟨fun _ => rfl, fun _ => rfl, rfl, fun _ => Iff.rfl, hw.1, fun h => (by cases h),
        fun i h => ?_⟩
      rcases h with h | h | h <;> cases h
  have hpk' : ∀ u p, s'.parked u = some p → s.parked u = some p := fun u p h => by
    rcases hpk u with h1 | h1 <;> rw [h1] at h
    · exact h
    · cases h
  refine ⟨by rw [hth]; exact I.small, by rw [hth]; exact I.nd, fun u hu => ?_, fun u => (key u).2.2.2.2.1,
    fun u f b hu => ?_, fun i hi => ?_, fun i hi => ?_, fun t2 u j hj hr => ?_, fun u i hu hz => ?_⟩
  · rw [hth] at hu
    obtain ⟨h1, h2⟩ := I.out u hu
    refine ⟨(key u).2.2.2.2.2.1 h1, ?_⟩
    rcases hpk u with h | h
    · rw [h, h2]
    · exact h
  · have h := hpk' u _ hu
    obtain ⟨hb, cur, hl⟩ := I.pk u f b h
    refine ⟨hb, cur, ?_⟩
    rcases hloc u with h1 | ⟨_, _, _, _, h1⟩
    · rw [h1, hl]
    · rw [h1] at hu; cases hu
  · rw [hth, hmem, cntL_congr (rc i) fun u _ => (key u).1 i,
      cntL_congr (wc N i) fun u _ => (key u).2.1 i]
    exact I.cm i hi
  · rw [hth, cntL_congr (wc N i) fun u _ => (key u).2.1 i]
    exact I.w1 i hi
  · rw [(key t2).2.2.1] at hj
    exact I.dr t2 u j hj (((key u).2.2.2.1 j).mp hr)
  · rw [hmem] at hz
    obtain ⟨t0, h0⟩ := I.nl u i (hpk' u _ hu) hz
    exact ⟨t0, by rw [(key t0).2.2.2.2.2.2 i h0]; exact h0⟩

/-- a phase-2 writer parks on the slot it is draining -/
theorem Inv.park (I : Inv N s) {t : TId} {i : Nat} {cur : Int} (hl : s.loc t = .lkWait i cur)
    (hm : s.mem i = cur) : Inv N (setParked s t (some (i, false))) := by
  have hw := I.wf t
  rw [hl] at hw
  refine ⟨I.small, I.nd, fun u hu => ?_, I.wf, fun u f b hu => ?_, I.cm, I.w1, I.dr,
    fun u i' hu hz => ?_⟩
  · have ht : t ∈ s.threads := I.inThreads (by rw [hl]; simp)
    have : u ≠ t := fun h => hu (h ▸ ht)
    simpa [this] using I.out u hu
  · simp only [setParked_parked, setParked_loc] at hu ⊢
    split at hu
    · rename_i hut
      subst hut
      simp only [Option.some.injEq, Prod.mk.injEq] at hu
      obtain ⟨rfl, rfl⟩ := hu
      exact ⟨rfl, cur, hl⟩
    · exact I.pk u f b hu
  · simp only [setParked_parked, setParked_loc, setParked_mem] at hu hz ⊢
    split at hu
    · simp only [Option.some.injEq, Prod.mk.injEq, and_true] at hu
      subst hu
      exact absurd (hm.symm.trans hz) hw.2
    · exact I.nl u i' hu hz

/-- a thread that was never seen before is added to the thread list -/
theorem Inv.addThread (I : Inv N s) {t : TId} (ht : t ∉ s.threads)
    (hs : s.threads.length + 1 < 2 ^ 30) : Inv N { s with threads := t :: s.threads } := by
  have hl := (I.out t ht).1
  refine ⟨by simpa using hs, List.nodup_cons.mpr ⟨ht, I.nd⟩, fun u hu => ?_, I.wf, I.pk,
    fun i hi => ?_, fun i hi => ?_, I.dr, I.nl⟩
  · exact I.out u fun h => hu (List.mem_cons_of_mem _ h)
  · have := I.cm i hi
    simp only [cntL_cons, hl, rc, wc, ownsBit, if_false, Nat.zero_add]
    exact this
  · have := I.w1 i hi
    simp only [cntL_cons, hl, wc, ownsBit, if_false, Nat.zero_add]
    exact this

end

/-! ### one lemma per local state: a `step` preserves the invariant -/

section
variable {N : Nat} {s s' : State (DP N)}

/-- closes the side goals of `Inv.update` for a concrete transition -/
macro "upd" : tactic => `(tactic| (
  intros
  (try simp only [W_val, setMem_mem, rc, wc, ownsBit, rh, drained, isNotify, wfL] at *) <;> grind))

/-- applies `Inv.update` to every branch of the continuation -/
macro "upd_all" I:ident ht:ident hp:ident hl:ident : tactic => `(tactic| (
  (try split) <;>
  (refine Inv.update $I $ht $hp _ rfl rfl rfl ?_ ?_ ?_ ?_ ?_ ?_ <;> (try rw [$hl:ident]) <;> upd)))

theorem step_lkOr (I : Inv N s) {t : TId} {i : Nat} (hl : s.loc t = .lkOr i)
    (he : exec s (.step t) = some s') : Inv N s' := by
  have hw := I.wf t
  rw [hl] at hw
  have ht : t ∈ s.threads := I.inThreads (by rw [hl]; simp)
  obtain ⟨hp, rfl⟩ := exec_step_mem (o := .for_ i W) (r := s.mem i) (f := i)
    (v := bor (s.mem i) W) he (by rw [hl]; rfl) rfl
  clear he
  obtain ⟨r0, r1⟩ := I.range hw
  have hc : (DP N).cont (s.loc t) (s.mem i) = if W ≤ s.mem i then .lkOr i else
      if i + 1 < N then .lkOr (i + 1) else .lkLoad 0 := by
    rw [hl]; simp [cont, hasBit]
  rw [hc]; clear hc
  by_cases hb : W ≤ s.mem i
  · rw [if_pos hb, bor_hi hb r1, setMem_self]
    upd_all I ht hp hl
  · rw [if_neg hb, bor_lo r0 (by omega)]
    upd_all I ht hp hl

theorem step_tlOr (I : Inv N s) {t : TId} {i : Nat} (hl : s.loc t = .tlOr i)
    (he : exec s (.step t) = some s') : Inv N s' := by
  have hw := I.wf t
  rw [hl] at hw
  have ht : t ∈ s.threads := I.inThreads (by rw [hl]; simp)
  obtain ⟨hp, rfl⟩ := exec_step_mem (o := .for_ i W) (r := s.mem i) (f := i)
    (v := bor (s.mem i) W) he (by rw [hl]; rfl) rfl
  clear he
  obtain ⟨r0, r1⟩ := I.range hw
  have hc : (DP N).cont (s.loc t) (s.mem i) = if W ≤ s.mem i then (if i = 0 then .done 0 .none else .tlRollback 0 i) else
      if i + 1 < N then .tlOr (i + 1) else .lkLoad 0 := by
    rw [hl]; simp [cont, hasBit]
  rw [hc]; clear hc
  by_cases hb : W ≤ s.mem i
  · rw [if_pos hb, bor_hi hb r1, setMem_self]
    upd_all I ht hp hl
  · rw [if_neg hb, bor_lo r0 (by omega)]
    upd_all I ht hp hl

theorem step_lkLoad (I : Inv N s) {t : TId} {i : Nat} (hl : s.loc t = .lkLoad i)
    (he : exec s (.step t) = some s') : Inv N s' := by
  have hw := I.wf t
  rw [hl] at hw
  have ht : t ∈ s.threads := I.inThreads (by rw [hl]; simp)
  obtain ⟨hp, rfl⟩ := exec_step_nomem (o := .load i) (r := s.mem i) he (by rw [hl]; rfl) rfl
  clear he
  have hc : (DP N).cont (s.loc t) (s.mem i) = if s.mem i = W then
      (if i + 1 < N then .lkLoad (i + 1) else .done 1 .write) else .lkWait i (s.mem i) := by
    rw [hl]; simp [cont]
  rw [hc]; clear hc
  by_cases hb : s.mem i = W
  · rw [if_pos hb]
    upd_all I ht hp hl
  · rw [if_neg hb]
    upd_all I ht hp hl

theorem step_lsSpin (I : Inv N s) {t : TId} {f : Nat} (hl : s.loc t = .lsSpin f)
    (he : exec s (.step t) = some s') : Inv N s' := by
  have hw := I.wf t
  rw [hl] at hw
  have ht : t ∈ s.threads := I.inThreads (by rw [hl]; simp)
  obtain ⟨hp, rfl⟩ := exec_step_nomem (o := .load f) (r := s.mem f) he (by rw [hl]; rfl) rfl
  clear he
  have hc : (DP N).cont (s.loc t) (s.mem f) = if W ≤ s.mem f then .lsSpin f else .lsAdd f := by
    rw [hl]; simp [cont, hasBit]
  rw [hc]; clear hc
  upd_all I ht hp hl

theorem step_lkWait (I : Inv N s) {t : TId} {i : Nat} {cur : Int} (hl : s.loc t = .lkWait i cur)
    (he : exec s (.step t) = some s') : Inv N s' := by
  have hw := I.wf t
  rw [hl] at hw
  have ht : t ∈ s.threads := I.inThreads (by rw [hl]; simp)
  obtain ⟨hp, ⟨hm, rfl⟩ | ⟨hm, rfl⟩⟩ := exec_step_fwait (f := i) (e := cur) (b := false) he
    (by rw [hl]; rfl)
  · exact I.park hl hm
  · clear he
    have hc : (DP N).cont (s.loc t) rAgain = .lkLoad i := by rw [hl]; rfl
    rw [hc]; clear hc
    upd_all I ht hp hl

theorem step_tlRollback (I : Inv N s) {t : TId} {j i : Nat} (hl : s.loc t = .tlRollback j i)
    (he : exec s (.step t) = some s') : Inv N s' := by
  have hw := I.wf t
  rw [hl] at hw
  have ht : t ∈ s.threads := I.inThreads (by rw [hl]; simp)
  obtain ⟨hp, rfl⟩ := exec_step_mem (o := .fand j R) (r := s.mem j) (f := j)
    (v := band (s.mem j) R) he (by rw [hl]; rfl) rfl
  clear he
  have hf : j < N := (Nat.lt_trans hw.1 hw.2)
  obtain ⟨r0, r1⟩ := I.range hf
  have hb : W ≤ s.mem j := I.owner_mem (t := t) hf (by rw [hl]; exact ⟨Nat.le_refl _, hw.1⟩)
  have hc : (DP N).cont (s.loc t) (s.mem j) = if j + 1 < i then .tlRollback (j + 1) i else .done 0 .none := by
    rw [hl]; simp [cont]
  rw [hc, band_hi hb r1]; clear hc
  upd_all I ht hp hl

theorem step_ulAnd (I : Inv N s) {t : TId} {i : Nat} (hl : s.loc t = .ulAnd i)
    (he : exec s (.step t) = some s') : Inv N s' := by
  have hw := I.wf t
  rw [hl] at hw
  have ht : t ∈ s.threads := I.inThreads (by rw [hl]; simp)
  obtain ⟨hp, rfl⟩ := exec_step_mem (o := .fand i R) (r := s.mem i) (f := i)
    (v := band (s.mem i) R) he (by rw [hl]; rfl) rfl
  clear he
  have hf : i < N := hw
  obtain ⟨r0, r1⟩ := I.range hf
  have hb : W ≤ s.mem i := I.owner_mem (t := t) hf (by rw [hl]; exact ⟨Nat.le_refl _, hw⟩)
  have hc : (DP N).cont (s.loc t) (s.mem i) = if i + 1 < N then .ulAnd (i + 1) else .done 0 .none := by
    rw [hl]; simp [cont]
  rw [hc, band_hi hb r1]; clear hc
  upd_all I ht hp hl

theorem step_lsAdd (I : Inv N s) {t : TId} {f : Nat} (hl : s.loc t = .lsAdd f)
    (he : exec s (.step t) = some s') : Inv N s' := by
  have hw := I.wf t
  rw [hl] at hw
  have ht : t ∈ s.threads := I.inThreads (by rw [hl]; simp)
  obtain ⟨hp, rfl⟩ := exec_step_mem (o := .fadd f 1) (r := s.mem f) (f := f)
    (v := s.mem f + 1) he (by rw [hl]; rfl) rfl
  clear he
  obtain ⟨r0, r1⟩ := I.range hw
  have hc : (DP N).cont (s.loc t) (s.mem f) =
      if W ≤ s.mem f then .lsRelease f else .done 1 (.read f) := by
    rw [hl]; simp [cont, hasBit]
  rw [hc]; clear hc
  upd_all I ht hp hl

theorem step_tsAdd (I : Inv N s) {t : TId} {f : Nat} (hl : s.loc t = .tsAdd f)
    (he : exec s (.step t) = some s') : Inv N s' := by
  have hw := I.wf t
  rw [hl] at hw
  have ht : t ∈ s.threads := I.inThreads (by rw [hl]; simp)
  obtain ⟨hp, rfl⟩ := exec_step_mem (o := .fadd f 1) (r := s.mem f) (f := f)
    (v := s.mem f + 1) he (by rw [hl]; rfl) rfl
  clear he
  obtain ⟨r0, r1⟩ := I.range hw
  have hc : (DP N).cont (s.loc t) (s.mem f) =
      if W ≤ s.mem f then .tsRelease f else .done 1 (.read f) := by
    rw [hl]; simp [cont, hasBit]
  rw [hc]; clear hc
  upd_all I ht hp hl

theorem step_lsRelease (I : Inv N s) {t : TId} {f : Nat} (hl : s.loc t = .lsRelease f)
    (he : exec s (.step t) = some s') : Inv N s' := by
  have hw := I.wf t
  rw [hl] at hw
  have ht : t ∈ s.threads := I.inThreads (by rw [hl]; simp)
  obtain ⟨hp, rfl⟩ := exec_step_mem (o := .fsub f 1) (r := s.mem f) (f := f)
    (v := s.mem f - 1) he (by rw [hl]; rfl) rfl
  clear he
  obtain ⟨r0, r1⟩ := I.range hw
  have hc : (DP N).cont (s.loc t) (s.mem f) = if s.mem f = W + 1 then .lsNotify f else .lsSpin f := by
    rw [hl]; simp [cont]
  rw [hc]; clear hc
  upd_all I ht hp hl

theorem step_tsRelease (I : Inv N s) {t : TId} {f : Nat} (hl : s.loc t = .tsRelease f)
    (he : exec s (.step t) = some s') : Inv N s' := by
  have hw := I.wf t
  rw [hl] at hw
  have ht : t ∈ s.threads := I.inThreads (by rw [hl]; simp)
  obtain ⟨hp, rfl⟩ := exec_step_mem (o := .fsub f 1) (r := s.mem f) (f := f)
    (v := s.mem f - 1) he (by rw [hl]; rfl) rfl
  clear he
  obtain ⟨r0, r1⟩ := I.range hw
  have hc : (DP N).cont (s.loc t) (s.mem f) = if s.mem f = W + 1 then .tsNotify f else .done 0 .none := by
    rw [hl]; simp [cont]
  rw [hc]; clear hc
  upd_all I ht hp hl

theorem step_usSub (I : Inv N s) {t : TId} {f : Nat} (hl : s.loc t = .usSub f)
    (he : exec s (.step t) = some s') : Inv N s' := by
  have hw := I.wf t
  rw [hl] at hw
  have ht : t ∈ s.threads := I.inThreads (by rw [hl]; simp)
  obtain ⟨hp, rfl⟩ := exec_step_mem (o := .fsub f 1) (r := s.mem f) (f := f)
    (v := s.mem f - 1) he (by rw [hl]; rfl) rfl
  clear he
  obtain ⟨r0, r1⟩ := I.range hw
  have hc : (DP N).cont (s.loc t) (s.mem f) = if s.mem f = W + 1 then .usNotify f else .done 0 .none := by
    rw [hl]; simp [cont]
  rw [hc]; clear hc
  upd_all I ht hp hl

/-- a `step` preserves the invariant -/
theorem inv_step (I : Inv N s) {t : TId} (he : exec s (.step t) = some s') : Inv N s' := by
  cases hl : s.loc t with
  | idle => exact (exec_step_none he (Or.inl (by rw [hl]; rfl))).elim
  | done r h => exact (exec_step_none he (Or.inl (by rw [hl]; rfl))).elim
  | lkOr i => exact step_lkOr I hl he
  | lkLoad i => exact step_lkLoad I hl he
  | lkWait i cur => exact step_lkWait I hl he
  | tlOr i => exact step_tlOr I hl he
  | tlRollback j i => exact step_tlRollback I hl he
  | ulAnd i => exact step_ulAnd I hl he
  | lsAdd f => exact step_lsAdd I hl he
  | lsRelease f => exact step_lsRelease I hl he
  | lsNotify f => exact (exec_step_none he (Or.inr ⟨f, intMax, by rw [hl]; rfl⟩)).elim
  | lsSpin f => exact step_lsSpin I hl he
  | tsAdd f => exact step_tsAdd I hl he
  | tsRelease f => exact step_tsRelease I hl he
  | tsNotify f => exact (exec_step_none he (Or.inr ⟨f, intMax, by rw [hl]; rfl⟩)).elim
  | usSub f => exact step_usSub I hl he
  | usNotify f => exact (exec_step_none he (Or.inr ⟨f, intMax, by rw [hl]; rfl⟩)).elim

/-! ### the other actions -/

theorem inv_unpark (I : Inv N s) {t : TId}
    (he : exec s (.timeout t) = some s' ∨ exec s (.spurious t) = some s') : Inv N s' := by
  obtain ⟨f, b, r, hpk, rfl⟩ := exec_unpark_gen he
  obtain ⟨_, cur, hl⟩ := I.pk t f b hpk
  refine I.congr rfl rfl (fun u => ?_) (fun u => ?_)
  · by_cases hu : u = t
    · subst hu
      refine Or.inr ⟨f, cur, hl, ?_, ?_⟩
      · simp only [setLoc_loc, if_pos]
        rw [hl]; rfl
      · simp
    · left; simp [hu]
  · by_cases hu : u = t
    · right; simp [hu]
    · left; simp [hu]

theorem op_fwake {l : L} {f : Fld} {n : Nat} (h : op l = some (.fwake f n)) :
    isNotify f l ∧ n = intMax := by
  cases l <;> simp [op] at h <;> obtain ⟨rfl, rfl⟩ := h <;> simp [isNotify]

theorem wake_final (I : Inv N s) {t : TId} {f : Nat} (ht : t ∈ s.threads)
    (hp : s.parked t = none) (hl : isNotify f (s.loc t))
    (hnone : ∀ u b, s.parked u ≠ some (f, b)) (r : Int) :
    Inv N (setLoc s t ((DP N).cont (s.loc t) r)) := by
  have hw := I.wf t
  have hnl : ∀ u i, s.parked u = some (i, false) → s.mem i = W →
      s.mem i = W ∧ ¬ isNotify i (s.loc t) := fun u i hu hz => by
    refine ⟨hz, fun hn => ?_⟩
    have : i = f := by
      rcases hl with h | h | h <;> rw [h] at hn <;> rcases hn with h' | h' | h' <;> cases h' <;> rfl
    subst this
    exact hnone u false hu
  rcases hl with hl | hl | hl
  · rw [hl] at hw
    have hc : (DP N).cont (s.loc t) r = .lsSpin f := by rw [hl]; rfl
    rw [hc]
    refine I.update ht hp _ rfl rfl rfl ?_ ?_ ?_ ?_ ?_ (fun u i hu hz => Or.inl (hnl u i hu hz))
    all_goals (try rw [hl])
    all_goals upd
  · rw [hl] at hw
    have hc : (DP N).cont (s.loc t) r = .done 0 .none := by rw [hl]; rfl
    rw [hc]
    refine I.update ht hp _ rfl rfl rfl ?_ ?_ ?_ ?_ ?_ (fun u i hu hz => Or.inl (hnl u i hu hz))
    all_goals (try rw [hl])
    all_goals upd
  · rw [hl] at hw
    have hc : (DP N).cont (s.loc t) r = .done 0 .none := by rw [hl]; rfl
    rw [hc]
    refine I.update ht hp _ rfl rfl rfl ?_ ?_ ?_ ?_ ?_ (fun u i hu hz => Or.inl (hnl u i hu hz))
    all_goals (try rw [hl])
    all_goals upd

theorem inv_wake (I : Inv N s) {t : TId} {ws : List TId}
    (he : exec s (.wake t ws) = some s') : Inv N s' := by
  obtain ⟨hp, f, n, ho, hnd, hsub, hle, hall, htw, rfl⟩ := exec_wake_gen he
  obtain ⟨hl, rfl⟩ := op_fwake ho
  have hne : s.loc t ≠ .idle := by
    rcases hl with h | h | h <;> rw [h] <;> simp
  have ht : t ∈ s.threads := I.inThreads hne
  have hpo : ∀ u ∈ ws, u ∈ s.threads ∧ ∃ b, s.parked u = some (f, b) := fun u hu =>
    (mem_parkedOn s f u).mp (hsub u hu)
  have I1 : Inv N (unparkAll s ws) := by
    refine I.congr (unparkAll_threads s ws) (unparkAll_mem s ws) (fun u => ?_) (fun u => ?_)
    · rw [unparkAll_loc s ws hnd u, unparkAll_parked]
      by_cases hu : u ∈ ws
      · obtain ⟨_, b, hb⟩ := hpo u hu
        obtain ⟨_, cur, hlu⟩ := I.pk u f b hb
        refine Or.inr ⟨f, cur, hlu, ?_, by simp [hu]⟩
        rw [if_pos hu, hlu]; rfl
      · left; rw [if_neg hu]
    · rw [unparkAll_parked]
      by_cases hu : u ∈ ws
      · right; simp [hu]
      · left; simp [hu]
  have hlt : (unparkAll s ws).loc t = s.loc t := by
    rw [unparkAll_loc s ws hnd t, if_neg htw]
  have hlen : ws.length < intMax := by
    have h1 : ws.length ≤ s.threads.length :=
      List.Nodup.length_le_of_subset hnd (fun u hu => (hpo u hu).1)
    have h2 := I.small
    have : intMax = 2147483647 := rfl
    omega
  have := wake_final (f := f) I1 (t := t) (by rw [unparkAll_threads]; exact ht)
    (by rw [unparkAll_parked, if_neg htw]; exact hp) (by rw [hlt]; exact hl)
    (fun u b hu => by
      rw [unparkAll_parked] at hu
      by_cases hw : u ∈ ws
      · rw [if_pos hw] at hu; cases hu
      · rw [if_neg hw] at hu
        have hut : u ∈ s.threads := by
          apply Classical.byContradiction
          intro hn
          rw [(I.out u hn).2] at hu; cases hu
        exact hw (hall hlen u ((mem_parkedOn s f u).mpr ⟨hut, b, hu⟩)))
    ws.length
  rw [hlt] at this
  exact this

theorem entry_cases {l l' : L} (h : entry N l l' = true) :
    ((l = .idle ∨ ∃ r, l = .done r .none) ∧
      (l' = .lkOr 0 ∨ l' = .tlOr 0 ∨ ∃ f, f < N ∧ (l' = .lsAdd f ∨ l' = .tsAdd f))) ∨
    (∃ r, l = .done r .write ∧ l' = .ulAnd 0) ∨ (∃ r f, l = .done r (.read f) ∧ l' = .usSub f) := by
  have hfree : ∀ l : L, (match l with | .idle => true | .done _ .none => true | _ => false) = true →
      (l = .idle ∨ ∃ r, l = .done r .none) := by
    intro l h
    cases l <;> simp at h ⊢
    rename_i r hh; cases hh <;> simp at h ⊢
  have hold : ∀ (l : L) (x : Hold), x ≠ .none → holdOf l = x → ∃ r, l = .done r x := by
    intro l x hx h
    cases l <;> simp [holdOf] at h <;> first | exact absurd h.symm hx | exact ⟨_, by rw [h]⟩
  cases l' with
  | lkOr i => cases i <;> simp [entry] at h; exact Or.inl ⟨hfree l h, Or.inl rfl⟩
  | tlOr i => cases i <;> simp [entry] at h; exact Or.inl ⟨hfree l h, Or.inr (Or.inl rfl)⟩
  | ulAnd i =>
    cases i <;> simp [entry] at h
    obtain ⟨r, hr⟩ := hold l .write (by simp) h
    exact Or.inr (Or.inl ⟨r, hr, rfl⟩)
  | lsAdd f =>
    simp [entry] at h
    exact Or.inl ⟨hfree l h.1, Or.inr (Or.inr ⟨f, h.2, Or.inl rfl⟩)⟩
  | tsAdd f =>
    simp [entry] at h
    exact Or.inl ⟨hfree l h.1, Or.inr (Or.inr ⟨f, h.2, Or.inr rfl⟩)⟩
  | usSub f =>
    simp [entry] at h
    obtain ⟨r, hr⟩ := hold l (.read f) (by simp) h
    exact Or.inr (Or.inr ⟨r, f, hr, rfl⟩)
  | _ => simp [entry] at h

theorem inv_call (hN : 1 ≤ N) (I : Inv N s) {t : TId} {l : L}
    (he : exec s (.call t l) = some s') (hs : s'.threads.length < 2 ^ 30) : Inv N s' := by
  obtain ⟨hp, ho, hen, -, -, -, hth⟩ := exec_call_gen he
  have hE := exec_call_eq he
  subst hE
  have I0 : Inv N { s with threads := if t ∈ s.threads then s.threads else t :: s.threads } := by
    by_cases ht : t ∈ s.threads
    · simp only [if_pos ht]; exact I
    · simp only [if_neg ht]
      refine I.addThread ht ?_
      simp only [setLoc_threads, if_neg ht, List.length_cons] at hs
      exact hs
  have ht0 : t ∈ (if t ∈ s.threads then s.threads else t :: s.threads) := by
    split
    · assumption
    · exact List.mem_cons_self
  have hw := I.wf t
  rcases entry_cases hen with ⟨hl | ⟨r, hl⟩, rfl | rfl | ⟨f, hf, rfl | rfl⟩⟩ | ⟨r, hl, rfl⟩ |
    ⟨r, f, hl, rfl⟩
  all_goals
    change s.loc t = _ at hl
    rw [hl] at hw
    refine I0.update ht0 hp _ rfl rfl rfl ?_ ?_ ?_ ?_ ?_ ?_
    all_goals (try dsimp only)
    all_goals (try rw [hl])
    all_goals upd

theorem inv_init : Inv N (initState (DP N) L.idle (fun _ => 0)) := by
  refine ⟨by simp [initState], List.nodup_nil, fun _ _ => ⟨rfl, rfl⟩, fun _ => trivial,
    fun _ _ _ h => (by cases h), fun i _ => ?_, fun i _ => ?_, fun t u j h => ?_,
    fun _ _ h => (by cases h)⟩
  · simp [initState]
  · simp [initState]
  · simp [initState, drained] at h

theorem inv_exec (hN : 1 ≤ N) (I : Inv N s) (a : Act (DP N)) (he : exec s a = some s')
    (hs : s'.threads.length < 2 ^ 30) : Inv N s' := by
  cases a with
  | step t => exact inv_step I he
  | wake t ws => exact inv_wake I he
  | timeout t => exact inv_unpark I (Or.inl he)
  | spurious t => exact inv_unpark I (Or.inr he)
  | call t l => exact inv_call hN I he hs

theorem inv_reachable (hN : 1 ≤ N) (s : State (DP N))
    (h : Reachable (initState (DP N) L.idle (fun _ => 0)) s) (hn : s.threads.length < 2 ^ 30) :
    Inv N s :=
  invariant (fun s => s.threads.length < 2 ^ 30 → Inv N s) (fun _ => inv_init)
    (fun _ a _ I he hs =>
      inv_exec hN (I (Nat.lt_of_le_of_lt (exec_threads_length he) hs)) a he hs) s h hn

/-! ### consequences -/

theorem holdOf_write {l : L} (h : holdOf l = .write) : ∃ r, l = .done r .write := by
  cases l <;> simp [holdOf] at h
  exact ⟨_, by rw [h]⟩

theorem Inv.exclusion (hN : 1 ≤ N) (I : Inv N s) (t u : TId) (ht : holdOf (s.loc t) = .write)
    (hu : holdOf (s.loc u) ≠ .none) : t = u := by
  obtain ⟨r, hl⟩ := holdOf_write ht
  cases hlu : s.loc u with
  | done r' h' =>
    cases h' with
    | none => rw [hlu] at hu; exact absurd rfl hu
    | read f =>
      have hw := I.wf u
      rw [hlu] at hw
      have := I.dr t u f (by rw [hl]; exact hw)
      rw [hlu] at this
      exact absurd rfl this
    | write =>
      refine I.owner_unique (i := 0) hN ?_ ?_
      · rw [hl]; exact hN
      · rw [hlu]; exact hN
  | _ => rw [hlu] at hu; exact absurd rfl hu

theorem Inv.bit_iff (I : Inv N s) {i : Nat} (hi : i < N) :
    W ≤ s.mem i ↔ ∃ t, ownsBit N (s.loc t) i :=
  ⟨I.mem_owner hi, fun ⟨_, h⟩ => I.owner_mem hi h⟩

/-- one rollback step of a failed `try_lock` -/
theorem Inv.rollback_step (I : Inv N s) {t : TId} {j i : Nat} (hl : s.loc t = .tlRollback j i)
    (he : exec s (.step t) = some s') :
    s'.mem j = s.mem j - W ∧ (∀ f, f ≠ j → s'.mem f = s.mem f) ∧
      s'.loc t = (if j + 1 < i then .tlRollback (j + 1) i else .done 0 .none) ∧
      (∀ u, u ≠ t → s'.loc u = s.loc u) ∧ s'.parked = s.parked := by
  have hw := I.wf t
  rw [hl] at hw
  obtain ⟨hp, rfl⟩ := exec_step_mem (o := .fand j R) (r := s.mem j) (f := j)
    (v := band (s.mem j) R) he (by rw [hl]; rfl) rfl
  have hf : j < N := Nat.lt_trans hw.1 hw.2
  obtain ⟨r0, r1⟩ := I.range hf
  have hb : W ≤ s.mem j := I.owner_mem (t := t) hf (by rw [hl]; exact ⟨Nat.le_refl _, hw.1⟩)
  have hc : (DP N).cont (s.loc t) (s.mem j) =
      if j + 1 < i then .tlRollback (j + 1) i else .done 0 .none := by
    rw [hl]; simp [cont]
  rw [hc, band_hi hb r1]
  refine ⟨by simp, fun f hf => by simp [hf], by simp, fun u hu => by simp [hu], rfl⟩

theorem Inv.quiescent (I : Inv N s)
    (hq : ∀ t, s.parked t ≠ none ∨ (op (s.loc t) = none ∧ holdOf (s.loc t) = .none)) (u : TId) :
    s.parked u = none := by
  cases hpu : s.parked u with
  | none => rfl
  | some p =>
    exfalso
    obtain ⟨i, b⟩ := p
    obtain ⟨rfl, cur, hlu⟩ := I.pk u i b hpu
    obtain ⟨hou, hi⟩ := I.parked_owns hpu
    -- a quiescent thread contributes no reader unit and is not a notifier
    have hq' : ∀ v, rc i (s.loc v) = 0 ∧ ¬ isNotify i (s.loc v) := by
      intro v
      rcases hq v with h | ⟨h1, h2⟩
      · cases hpv : s.parked v with
        | none => exact absurd hpv h
        | some p =>
          obtain ⟨_, cur', hlv⟩ := I.pk v p.1 p.2 hpv
          rw [hlv]
          exact ⟨rfl, fun h => by rcases h with h | h | h <;> cases h⟩
      · cases hlv : s.loc v <;> rw [hlv] at h1 h2 <;> simp [op] at h1
        · exact ⟨rfl, fun h => by rcases h with h | h | h <;> cases h⟩
        · simp only [holdOf] at h2
          subst h2
          exact ⟨rfl, fun h => by rcases h with h | h | h <;> cases h⟩
    have hr0 : cntL (rc i) s.loc s.threads = 0 := by
      apply Classical.byContradiction
      intro hne
      obtain ⟨v, _, hv⟩ := cntL_pos (rc i) s.loc (Nat.pos_of_ne_zero hne)
      rw [(hq' v).1] at hv
      cases hv
    have hm : s.mem i = W := by
      have h1 := I.cm i hi
      rw [hr0, I.owner_cnt hi hou] at h1
      rw [h1, W_val]
      simp
    obtain ⟨t0, h0⟩ := I.nl u i hpu hm
    exact (hq' t0).2 h0

end

end Dispenso.DistRWLock
