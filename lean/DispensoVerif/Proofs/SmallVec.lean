import DispensoVerif.Model.SmallVec

/-! Helper lemmas for C38 (`SmallVector`): association-list facts about `get`/`put`/`add`,
weighted sums over the pool (`totalItems`, `heapVecs`), specifications of the vector-level
functions, a projection form `stepSt` of the state component of `step`, the invariants and their
preservation. -/
namespace Dispenso.SmallVec

abbrev Pool := List (Nat × Vec)

/-- lookup in a raw pool -/
def lk (l : Pool) (o : Nat) : Option Vec := (l.find? (·.1 = o)).map (·.2)

/-- overwrite in a raw pool -/
def upd (l : Pool) (o : Nat) (v : Vec) : Pool := l.map fun p => if p.1 = o then (p.1, v) else p

/-- weighted sum over a raw pool -/
def wsum (w : Vec → Int) (l : Pool) : Int := (l.map fun p => w p.2).sum

/-- 1 for a heap vector, 0 for an inline one -/
def hb (b : Bool) : Int := if b then 1 else 0

/-- size of a vector, as an integer -/
def len (v : Vec) : Int := (v.items.length : Nat)

/-- heap weight of a vector -/
def hw (v : Vec) : Int := hb v.heap

theorem get_eq (s : St) (o : Nat) : get s o = lk s.vecs o := rfl
@[simp] theorem put_vecs (s : St) (o : Nat) (v : Vec) : (put s o v).vecs = upd s.vecs o v := rfl
@[simp] theorem put_live (s : St) (o : Nat) (v : Vec) : (put s o v).live = s.live := rfl
@[simp] theorem put_heapBlocks (s : St) (o : Nat) (v : Vec) :
    (put s o v).heapBlocks = s.heapBlocks := rfl
@[simp] theorem put_next (s : St) (o : Nat) (v : Vec) : (put s o v).next = s.next := rfl
@[simp] theorem put_N (s : St) (o : Nat) (v : Vec) : (put s o v).N = s.N := rfl
@[simp] theorem add_vecs (s : St) (v : Vec) : (add s v).vecs = s.vecs ++ [(s.next, v)] := rfl
@[simp] theorem add_live (s : St) (v : Vec) : (add s v).live = s.live := rfl
@[simp] theorem add_heapBlocks (s : St) (v : Vec) : (add s v).heapBlocks = s.heapBlocks := rfl
@[simp] theorem add_next (s : St) (v : Vec) : (add s v).next = s.next + 1 := rfl
@[simp] theorem add_N (s : St) (v : Vec) : (add s v).N = s.N := rfl

/-! ### raw pool lemmas -/

@[simp] theorem lk_nil (o : Nat) : lk [] o = none := rfl
theorem lk_cons (p : Nat × Vec) (t : Pool) (o : Nat) :
    lk (p :: t) o = if p.1 = o then some p.2 else lk t o := by
  unfold lk
  by_cases h : p.1 = o <;> simp [h]

@[simp] theorem upd_nil (o : Nat) (c : Vec) : upd [] o c = [] := rfl
theorem upd_cons (p : Nat × Vec) (t : Pool) (o : Nat) (c : Vec) :
    upd (p :: t) o c = (if p.1 = o then (p.1, c) else p) :: upd t o c := rfl

@[simp] theorem wsum_nil (w : Vec → Int) : wsum w [] = 0 := rfl
theorem wsum_cons (w : Vec → Int) (p : Nat × Vec) (t : Pool) :
    wsum w (p :: t) = w p.2 + wsum w t := by
  unfold wsum; simp

theorem wsum_append (w : Vec → Int) (l₁ l₂ : Pool) :
    wsum w (l₁ ++ l₂) = wsum w l₁ + wsum w l₂ := by
  induction l₁ with
  | nil => simp
  | cons p t ih => rw [List.cons_append, wsum_cons, wsum_cons, ih]; omega

theorem wsum_single (w : Vec → Int) (n : Nat) (v : Vec) : wsum w [(n, v)] = w v := by
  rw [wsum_cons]; simp

theorem upd_ids (l : Pool) (o : Nat) (c : Vec) : (upd l o c).map Prod.fst = l.map Prod.fst := by
  induction l with
  | nil => rfl
  | cons p t ih =>
    rw [upd_cons, List.map_cons, List.map_cons, ih]
    by_cases h : p.1 = o <;> simp [h]

theorem lk_none_iff (l : Pool) (o : Nat) : lk l o = none ↔ o ∉ l.map Prod.fst := by
  induction l with
  | nil => simp
  | cons p t ih =>
    rw [lk_cons]
    by_cases h : p.1 = o
    · simp [h]
    · simp only [h, if_false, ih, List.map_cons, List.mem_cons, not_or]
      exact ⟨fun h' => ⟨fun e => h e.symm, h'⟩, fun h' => h'.2⟩

theorem lk_mem {l : Pool} {o : Nat} {v : Vec} (h : lk l o = some v) : (o, v) ∈ l := by
  induction l with
  | nil => simp at h
  | cons p t ih =>
    rw [lk_cons] at h
    by_cases hp : p.1 = o
    · simp only [hp, if_true, Option.some.injEq] at h
      have : p = (o, v) := by rw [← hp, ← h]
      rw [this]; exact List.mem_cons_self
    · simp only [hp, if_false] at h
      exact List.mem_cons_of_mem _ (ih h)

theorem upd_of_not_mem (l : Pool) (o : Nat) (c : Vec) (h : o ∉ l.map Prod.fst) :
    upd l o c = l := by
  induction l with
  | nil => rfl
  | cons p t ih =>
    simp only [List.map_cons, List.mem_cons, not_or] at h
    rw [upd_cons, ih h.2, if_neg (fun e => h.1 e.symm)]

theorem lk_upd_self (l : Pool) (o : Nat) (c : Vec) :
    lk (upd l o c) o = (lk l o).map fun _ => c := by
  induction l with
  | nil => rfl
  | cons p t ih =>
    rw [upd_cons, lk_cons, lk_cons]
    by_cases h : p.1 = o <;> simp [h, ih]

theorem lk_upd_ne (l : Pool) (o o' : Nat) (c : Vec) (hne : o' ≠ o) :
    lk (upd l o c) o' = lk l o' := by
  induction l with
  | nil => rfl
  | cons p t ih =>
    rw [upd_cons, lk_cons, lk_cons, ih]
    by_cases h : p.1 = o
    · simp [h, Ne.symm hne]
    · simp [h]

theorem lk_append (l₁ l₂ : Pool) (o : Nat) :
    lk (l₁ ++ l₂) o = (lk l₁ o).or (lk l₂ o) := by
  induction l₁ with
  | nil => simp
  | cons p t ih =>
    rw [List.cons_append, lk_cons, lk_cons, ih]
    by_cases h : p.1 = o <;> simp [h]

theorem lk_filter (l : Pool) (o o' : Nat) :
    lk (l.filter (·.1 ≠ o)) o' = if o' = o then none else lk l o' := by
  induction l with
  | nil => simp
  | cons p t ih =>
    by_cases h : p.1 = o
    · rw [List.filter_cons_of_neg (by simp [h]), ih, lk_cons]
      by_cases h' : o' = o
      · simp [h']
      · have : ¬ p.1 = o' := fun e => h' (e.symm.trans h)
        simp [h', this]
    · rw [List.filter_cons_of_pos (by simp [h]), lk_cons, lk_cons, ih]
      by_cases h' : o' = o
      · simp [h', h]
      · simp [h']

theorem filter_of_not_mem (l : Pool) (o : Nat) (h : o ∉ l.map Prod.fst) :
    l.filter (·.1 ≠ o) = l := by
  induction l with
  | nil => rfl
  | cons p t ih =>
    simp only [List.map_cons, List.mem_cons, not_or] at h
    rw [List.filter_cons_of_pos (by simpa using fun e => h.1 e.symm), ih h.2]

/-- effect of overwriting the (unique) vector `o` on a weighted sum -/
theorem wsum_upd (w : Vec → Int) (l : Pool) (o : Nat) (c d : Vec)
    (hn : (l.map Prod.fst).Nodup) (hd : lk l o = some d) :
    wsum w (upd l o c) = wsum w l - w d + w c := by
  induction l with
  | nil => simp at hd
  | cons p t ih =>
    rw [List.map_cons, List.nodup_cons] at hn
    rw [lk_cons] at hd
    rw [upd_cons, wsum_cons, wsum_cons]
    by_cases h : p.1 = o
    · simp only [h, if_true, Option.some.injEq] at hd
      rw [upd_of_not_mem t o c (h ▸ hn.1), if_pos h, hd]
      simp only
      omega
    · simp only [h, if_false] at hd
      rw [ih hn.2 hd, if_neg h]
      omega

/-- effect of removing the (unique) vector `o` on a weighted sum -/
theorem wsum_filter (w : Vec → Int) (l : Pool) (o : Nat) (d : Vec)
    (hn : (l.map Prod.fst).Nodup) (hd : lk l o = some d) :
    wsum w (l.filter (·.1 ≠ o)) = wsum w l - w d := by
  induction l with
  | nil => simp at hd
  | cons p t ih =>
    rw [List.map_cons, List.nodup_cons] at hn
    rw [lk_cons] at hd
    by_cases h : p.1 = o
    · simp only [h, if_true, Option.some.injEq] at hd
      rw [List.filter_cons_of_neg (by simp [h]), filter_of_not_mem t o (h ▸ hn.1), wsum_cons, hd]
      omega
    · simp only [h, if_false] at hd
      rw [List.filter_cons_of_pos (by simp [h]), wsum_cons, wsum_cons, ih hn.2 hd]
      omega

theorem totalItems_eq (s : St) : totalItems s = wsum len s.vecs := rfl

theorem heapVecs_eq (s : St) : heapVecs s = wsum hw s.vecs := by
  unfold heapVecs
  generalize s.vecs = l
  induction l with
  | nil => rfl
  | cons p t ih =>
    rw [wsum_cons, ← ih]
    by_cases h : p.2.heap = true <;> simp [h, hw, hb] <;> omega

/-! ### vector-level specifications -/

/-- size within capacity; inline vectors have capacity `N`; heap buffers are non-empty -/
def VecOK (N : Nat) (v : Vec) : Prop :=
  v.items.length ≤ v.cap ∧ (v.heap = false → v.cap = N) ∧ (v.heap = true → 1 ≤ v.cap)

theorem VecOK.empty (N : Nat) : VecOK N (emptyVec N) := by simp [VecOK, emptyVec]

@[simp] theorem emptyVec_items (N : Nat) : (emptyVec N).items = [] := rfl
@[simp] theorem emptyVec_heap (N : Nat) : (emptyVec N).heap = false := rfl
@[simp] theorem len_empty (N : Nat) : len (emptyVec N) = 0 := rfl
@[simp] theorem hw_empty (N : Nat) : hw (emptyVec N) = 0 := rfl

theorem emplaceBack_items (N : Nat) (v : Vec) (x : Int) :
    (emplaceBack N v x).1.items = v.items ++ [x] := by
  unfold emplaceBack growToHeap
  cases v.heap <;> simp <;> split <;> rfl

theorem emplaceBack_dh (N : Nat) (v : Vec) (x : Int) :
    (emplaceBack N v x).2 = hw (emplaceBack N v x).1 - hw v := by
  unfold emplaceBack growToHeap hw hb
  cases hh : v.heap <;> simp <;> split <;> simp [hh]

theorem emplaceBack_ok (N : Nat) (hN : 1 ≤ N) (v : Vec) (x : Int) (h : VecOK N v) :
    VecOK N (emplaceBack N v x).1 := by
  obtain ⟨h1, h2, h3⟩ := h
  unfold emplaceBack growToHeap VecOK
  cases hh : v.heap
  · have := h2 hh
    simp
    split <;> simp <;> omega
  · have := h3 hh
    simp
    split <;> simp [hh] <;> omega

/-- accumulated `emplaceBack`s -/
theorem pushAll_aux (N : Nat) (xs : List Int) (v : Vec) (a : Int) :
    let r := xs.foldl
      (fun acc x => ((emplaceBack N acc.1 x).1, acc.2 + (emplaceBack N acc.1 x).2)) (v, a)
    r.1.items = v.items ++ xs ∧ r.2 = a + (hw r.1 - hw v) ∧
    (1 ≤ N → VecOK N v → VecOK N r.1) := by
  induction xs generalizing v a with
  | nil => simp
  | cons x xs ih =>
    simp only [List.foldl_cons]
    obtain ⟨i1, i2, i3⟩ := ih (emplaceBack N v x).1 (a + (emplaceBack N v x).2)
    refine ⟨?_, ?_, ?_⟩
    · rw [i1, emplaceBack_items]; simp
    · rw [i2, emplaceBack_dh]; omega
    · intro hN hv; exact i3 hN (emplaceBack_ok N hN v x hv)

theorem pushAll_items (N : Nat) (v : Vec) (xs : List Int) :
    (pushAll N v xs).1.items = v.items ++ xs := (pushAll_aux N xs v 0).1

theorem pushAll_dh (N : Nat) (v : Vec) (xs : List Int) :
    (pushAll N v xs).2 = hw (pushAll N v xs).1 - hw v := by
  have := (pushAll_aux N xs v 0).2.1
  simp only [Int.zero_add] at this
  exact this

theorem pushAll_ok (N : Nat) (hN : 1 ≤ N) (v : Vec) (xs : List Int) (h : VecOK N v) :
    VecOK N (pushAll N v xs).1 := (pushAll_aux N xs v 0).2.2 hN h

theorem ensureCapacity_items (N : Nat) (v : Vec) (n : Nat) :
    (ensureCapacity N v n).1.items = v.items := by
  unfold ensureCapacity growToHeap
  split
  · rfl
  · split
    · rfl
    · split <;> rfl

theorem ensureCapacity_dh (N : Nat) (v : Vec) (n : Nat) :
    (ensureCapacity N v n).2 = hw (ensureCapacity N v n).1 - hw v := by
  unfold ensureCapacity growToHeap hw hb
  cases hh : v.heap <;> simp <;> split <;> simp [hh]

theorem ensureCapacity_ok (N : Nat) (v : Vec) (n : Nat) (h : VecOK N v) :
    VecOK N (ensureCapacity N v n).1 ∧
    (v.items.length ≤ n → n ≤ (ensureCapacity N v n).1.cap) := by
  obtain ⟨h1, h2, h3⟩ := h
  unfold ensureCapacity growToHeap VecOK
  cases hh : v.heap
  · have := h2 hh
    simp
    split <;> simp [hh] <;> omega
  · have := h3 hh
    simp
    split <;> simp [hh] <;> omega

theorem resizeVec_items (N : Nat) (v : Vec) (n : Nat) (x : Int) :
    (resizeVec N v n x).1.items = v.items.take n ++ List.replicate (n - v.items.length) x := by
  unfold resizeVec
  split
  · next h =>
    simp only [ensureCapacity_items]
    rw [List.take_of_length_le (by omega)]
  · split
    · next h =>
      have : n - v.items.length = 0 := by omega
      simp [this]
    · next h1 h2 =>
      have : n - v.items.length = 0 := by omega
      rw [List.take_of_length_le (by omega)]
      simp [this]

theorem resizeVec_dl (N : Nat) (v : Vec) (n : Nat) (x : Int) :
    (resizeVec N v n x).2.1 = len (resizeVec N v n x).1 - len v := by
  unfold len
  rw [resizeVec_items]
  unfold resizeVec
  split
  · simp; omega
  · split
    · simp; omega
    · simp; omega

theorem resizeVec_dh (N : Nat) (v : Vec) (n : Nat) (x : Int) :
    (resizeVec N v n x).2.2 = hw (resizeVec N v n x).1 - hw v := by
  unfold resizeVec
  split
  · simp only [ensureCapacity_dh]; rfl
  · split
    · simp [hw]
    · simp

theorem resizeVec_ok (N : Nat) (v : Vec) (n : Nat) (x : Int) (h : VecOK N v) :
    VecOK N (resizeVec N v n x).1 := by
  unfold resizeVec
  split
  · next hn =>
    obtain ⟨⟨_, e2⟩, e3⟩ := ensureCapacity_ok N v n h
    have e4 := ensureCapacity_items N v n
    refine ⟨?_, e2⟩
    simp only [List.length_append, List.length_replicate, e4]
    have := e3 (by omega)
    omega
  · split
    · refine ⟨?_, h.2⟩
      simp only [List.length_take]
      have := h.1
      omega
    · exact h

theorem moveFrom_fst_items (N : Nat) (v : Vec) : (moveFrom N v).1.items = v.items := by
  unfold moveFrom; split <;> rfl
theorem moveFrom_fst_heap (N : Nat) (v : Vec) : (moveFrom N v).1.heap = v.heap := by
  unfold moveFrom; split <;> simp_all
theorem moveFrom_snd (N : Nat) (v : Vec) : (moveFrom N v).2 = emptyVec N := by
  unfold moveFrom; split <;> rfl
theorem moveFrom_ok (N : Nat) (v : Vec) (h : VecOK N v) : VecOK N (moveFrom N v).1 := by
  obtain ⟨h1, h2, h3⟩ := h
  unfold moveFrom VecOK
  cases hh : v.heap
  · have := h2 hh
    simp; omega
  · have := h3 hh
    simp; omega

theorem len_moveFrom (N : Nat) (v : Vec) : len (moveFrom N v).1 = len v := by
  unfold len; rw [moveFrom_fst_items]
theorem hw_moveFrom (N : Nat) (v : Vec) : hw (moveFrom N v).1 = hw v := by
  unfold hw; rw [moveFrom_fst_heap]

/-- the copy performed by the copy constructor / copy assignment -/
def copyE (N : Nat) (sv : Vec) : Vec × Int := ensureCapacity N (emptyVec N) sv.items.length
def copyP (N : Nat) (sv : Vec) : Vec × Int := pushAll N (copyE N sv).1 sv.items

theorem copyP_items (N : Nat) (sv : Vec) : (copyP N sv).1.items = sv.items := by
  unfold copyP copyE
  rw [pushAll_items, ensureCapacity_items]; rfl

theorem copyP_dh (N : Nat) (sv : Vec) : (copyE N sv).2 + (copyP N sv).2 = hw (copyP N sv).1 := by
  unfold copyP copyE
  rw [pushAll_dh, ensureCapacity_dh, hw_empty]; omega

theorem copyP_ok (N : Nat) (hN : 1 ≤ N) (sv : Vec) : VecOK N (copyP N sv).1 :=
  pushAll_ok N hN _ _ (ensureCapacity_ok N _ _ (VecOK.empty N)).1

theorem len_copyP (N : Nat) (sv : Vec) : len (copyP N sv).1 = len sv := by
  unfold len; rw [copyP_items]

theorem destroyAllDelta_fst (v : Vec) : (destroyAllDelta v).1 = -len v := rfl
theorem destroyAllDelta_snd (v : Vec) : (destroyAllDelta v).2 = -hw v := by
  unfold destroyAllDelta hw hb; cases v.heap <;> simp

/-! ### the state component of `step`, in projection form -/

def stepSt (s : St) : Op → St
  | .mk => add s (emptyVec s.N)
  | .mkCount n x =>
    add { s with live := s.live + (resizeVec s.N (emptyVec s.N) n x).2.1,
                 heapBlocks := s.heapBlocks + (resizeVec s.N (emptyVec s.N) n x).2.2 }
      (resizeVec s.N (emptyVec s.N) n x).1
  | .copyCtor src =>
    match get s src with
    | none => s
    | some sv =>
      add { s with live := s.live + sv.items.length,
                   heapBlocks := s.heapBlocks + (copyE s.N sv).2 + (copyP s.N sv).2 }
        (copyP s.N sv).1
  | .moveCtor src =>
    match get s src with
    | none => s
    | some sv => add (put s src (moveFrom s.N sv).2) (moveFrom s.N sv).1
  | .copyAssign dst src =>
    match get s dst, get s src with
    | some dv, some sv =>
      if dst = src then s else
      put { s with live := s.live + (destroyAllDelta dv).1 + sv.items.length,
                   heapBlocks := s.heapBlocks + (destroyAllDelta dv).2 + (copyE s.N sv).2
                     + (copyP s.N sv).2 } dst (copyP s.N sv).1
    | _, _ => s
  | .moveAssign dst src =>
    match get s dst, get s src with
    | some dv, some sv =>
      if dst = src then s else
      put (put { s with live := s.live + (destroyAllDelta dv).1,
                        heapBlocks := s.heapBlocks + (destroyAllDelta dv).2 }
            dst (moveFrom s.N sv).1) src (moveFrom s.N sv).2
    | _, _ => s
  | .pushBack o x =>
    match get s o with
    | some v =>
      put { s with live := s.live + 1, heapBlocks := s.heapBlocks + (emplaceBack s.N v x).2 }
        o (emplaceBack s.N v x).1
    | none => s
  | .popBack o =>
    match get s o with
    | some v =>
      if v.items = [] then s else
      put { s with live := s.live - 1 } o { v with items := v.items.dropLast }
    | none => s
  | .resize o n x =>
    match get s o with
    | some v =>
      put { s with live := s.live + (resizeVec s.N v n x).2.1,
                   heapBlocks := s.heapBlocks + (resizeVec s.N v n x).2.2 }
        o (resizeVec s.N v n x).1
    | none => s
  | .reserve o n =>
    match get s o with
    | some v =>
      put { s with heapBlocks := s.heapBlocks + (ensureCapacity s.N v n).2 }
        o (ensureCapacity s.N v n).1
    | none => s
  | .clear o =>
    match get s o with
    | some v =>
      put { s with live := s.live + (destroyAllDelta v).1,
                   heapBlocks := s.heapBlocks + (destroyAllDelta v).2 } o (emptyVec s.N)
    | none => s
  | .erase o idx =>
    match get s o with
    | some v =>
      if idx < v.items.length then
        put { s with live := s.live - 1 } o { v with items := v.items.eraseIdx idx }
      else s
    | none => s
  | .destroy o =>
    match get s o with
    | some v =>
      { s with vecs := s.vecs.filter (·.1 ≠ o), live := s.live + (destroyAllDelta v).1,
               heapBlocks := s.heapBlocks + (destroyAllDelta v).2 }
    | none => s
  | .query _ => s

theorem step_fst (s : St) (op : Op) : (step s op).1 = stepSt s op := by
  cases op with
  | mk => rfl
  | mkCount n x => rfl
  | query o => simp only [step, stepSt]; cases get s o <;> rfl
  | copyAssign dst src =>
    simp only [step, stepSt]
    cases get s dst <;> cases get s src <;> (try rfl)
    simp only []; split <;> rfl
  | moveAssign dst src =>
    simp only [step, stepSt]
    cases get s dst <;> cases get s src <;> (try rfl)
    simp only []; split <;> rfl
  | popBack o =>
    simp only [step, stepSt]
    cases get s o <;> (try rfl)
    simp only []; split <;> rfl
  | erase o idx =>
    simp only [step, stepSt]
    cases get s o <;> (try rfl)
    simp only []; split <;> rfl
  | _ => simp only [step, stepSt]; cases get s _ <;> rfl

theorem runOps_cons (s : St) (o : Op) (os : List Op) :
    runOps s (o :: os) = runOps (stepSt s o) os := by
  rw [runOps, step_fst]

/-! ### id-uniqueness invariant -/

structure WFp (l : Pool) (n : Nat) : Prop where
  nodup : (l.map Prod.fst).Nodup
  lt : ∀ p ∈ l, p.1 < n

/-- ids are unique and below `next` -/
@[reducible] def WF (s : St) : Prop := WFp s.vecs s.next

theorem WFp.not_mem {l : Pool} {n : Nat} (h : WFp l n) : n ∉ l.map Prod.fst := by
  intro hm
  obtain ⟨p, hp, e⟩ := List.mem_map.1 hm
  have := h.lt p hp
  omega

theorem WFp.pres_upd {l : Pool} {n : Nat} (h : WFp l n) (o : Nat) (v : Vec) :
    WFp (upd l o v) n := by
  constructor
  · rw [upd_ids]; exact h.nodup
  · intro p hp
    have : p.1 ∈ (upd l o v).map Prod.fst := List.mem_map.2 ⟨p, hp, rfl⟩
    rw [upd_ids] at this
    obtain ⟨q, hq, e⟩ := List.mem_map.1 this
    rw [← e]; exact h.lt q hq

theorem WFp.pres_app {l : Pool} {n : Nat} (h : WFp l n) (v : Vec) :
    WFp (l ++ [(n, v)]) (n + 1) := by
  constructor
  · simp only [List.map_append, List.map_cons, List.map_nil]
    rw [List.nodup_append]
    refine ⟨h.nodup, by simp, ?_⟩
    intro a ha b hb e
    simp only [List.mem_singleton] at hb
    subst hb; subst e
    exact h.not_mem ha
  · intro p hp
    simp only [List.mem_append, List.mem_singleton] at hp
    rcases hp with hp | hp
    · have := h.lt p hp; omega
    · subst hp; simp

theorem WFp.pres_filter {l : Pool} {n : Nat} (h : WFp l n) (o : Nat) :
    WFp (l.filter (·.1 ≠ o)) n := by
  constructor
  · exact (List.filter_sublist.map Prod.fst).nodup h.nodup
  · intro p hp
    exact h.lt p (List.mem_filter.1 hp).1

theorem WF.init (N : Nat) : WF (St.init N) := ⟨by simp [St.init], by simp [St.init]⟩

theorem WF.get_next {s : St} (h : WF s) : get s s.next = none :=
  (lk_none_iff _ _).2 h.not_mem

theorem WF.pres_stepSt {s : St} (h : WF s) (op : Op) : WF (stepSt s op) := by
  cases op <;> simp only [stepSt] <;> (try split) <;> (try split) <;>
    first
    | exact h
    | exact h.pres_upd _ _
    | exact h.pres_app _
    | exact (h.pres_upd _ _).pres_app _
    | exact (h.pres_upd _ _).pres_upd _ _
    | exact h.pres_filter _

theorem WF.pres_runOps {s : St} (h : WF s) (ops : List Op) : WF (runOps s ops) := by
  induction ops generalizing s with
  | nil => exact h
  | cons o os ih => rw [runOps_cons]; exact ih (h.pres_stepSt o)

/-! ### `get` after the primitive updates -/

theorem get_put_self (s : St) (o : Nat) (v : Vec) :
    get (put s o v) o = (get s o).map fun _ => v := by
  rw [get_eq, put_vecs, lk_upd_self, get_eq]

theorem get_put_ne (s : St) (o o' : Nat) (v : Vec) (h : o' ≠ o) :
    get (put s o v) o' = get s o' := by
  rw [get_eq, put_vecs, lk_upd_ne _ _ _ _ h, get_eq]

theorem get_add (s : St) (v : Vec) (o : Nat) :
    get (add s v) o = (get s o).or (if s.next = o then some v else none) := by
  rw [get_eq, get_eq, add_vecs, lk_append, lk_cons, lk_nil]

theorem get_add_next {s : St} (h : WF s) (v : Vec) : get (add s v) s.next = some v := by
  rw [get_add, h.get_next]; simp

theorem get_add_ne (s : St) (v : Vec) (o : Nat) (h : o ≠ s.next) :
    get (add s v) o = get s o := by
  rw [get_add, if_neg (Ne.symm h)]; simp

theorem get_congr {s s' : St} (h : s'.vecs = s.vecs) (o : Nat) : get s' o = get s o := by
  rw [get_eq, get_eq, h]

/-! ### ledger invariant -/

structure Led (s : St) : Prop where
  live : s.live = wsum len s.vecs
  heap : s.heapBlocks = wsum hw s.vecs

theorem Led.init (N : Nat) : Led (St.init N) := ⟨rfl, rfl⟩

theorem Led.of_upd {s s' : St} (hw' : WF s) (hl : Led s) {o : Nat} {v v' : Vec}
    (hg : get s o = some v) (hv : s'.vecs = upd s.vecs o v')
    (hL : s'.live = s.live - len v + len v')
    (hH : s'.heapBlocks = s.heapBlocks - hw v + hw v') : Led s' := by
  constructor
  · rw [hv, wsum_upd len _ _ _ _ hw'.nodup hg, hL, hl.live]
  · rw [hv, wsum_upd hw _ _ _ _ hw'.nodup hg, hH, hl.heap]

theorem Led.of_app {s s' : St} (hl : Led s) {n : Nat} {v : Vec}
    (hv : s'.vecs = s.vecs ++ [(n, v)])
    (hL : s'.live = s.live + len v) (hH : s'.heapBlocks = s.heapBlocks + hw v) : Led s' := by
  constructor
  · rw [hv, wsum_append, wsum_single, hL, hl.live]
  · rw [hv, wsum_append, wsum_single, hH, hl.heap]

theorem Led.of_filter {s s' : St} (hw' : WF s) (hl : Led s) {o : Nat} {v : Vec}
    (hg : get s o = some v) (hv : s'.vecs = s.vecs.filter (·.1 ≠ o))
    (hL : s'.live = s.live - len v) (hH : s'.heapBlocks = s.heapBlocks - hw v) : Led s' := by
  constructor
  · rw [hv, wsum_filter len _ _ _ hw'.nodup hg, hL, hl.live]
  · rw [hv, wsum_filter hw _ _ _ hw'.nodup hg, hH, hl.heap]

theorem len_def (v : Vec) : len v = (v.items.length : Nat) := rfl

theorem Led.pres_stepSt {s : St} (hw' : WF s) (hl : Led s) (op : Op) : Led (stepSt s op) := by
  cases op with
  | mk =>
    exact Led.of_app hl (v := emptyVec s.N) rfl (by simp [stepSt]) (by simp [stepSt])
  | mkCount n x =>
    refine Led.of_app hl (v := (resizeVec s.N (emptyVec s.N) n x).1) rfl ?_ ?_
    · show s.live + _ = _
      rw [resizeVec_dl, len_empty]; omega
    · show s.heapBlocks + _ = _
      rw [resizeVec_dh, hw_empty]; omega
  | copyCtor src =>
    simp only [stepSt]
    split
    · exact hl
    · next sv hsv =>
      refine Led.of_app hl (v := (copyP s.N sv).1) rfl ?_ ?_
      · show s.live + _ = _
        rw [len_copyP]; rfl
      · show s.heapBlocks + _ + _ = _
        rw [← copyP_dh]; omega
  | moveCtor src =>
    simp only [stepSt]
    split
    · exact hl
    · next sv hsv =>
      have h1 : Led ⟨s.N, upd s.vecs src (moveFrom s.N sv).2, s.live - len sv,
          s.heapBlocks - hw sv, s.next⟩ :=
        Led.of_upd hw' hl hsv rfl (by simp [moveFrom_snd]) (by simp [moveFrom_snd])
      refine Led.of_app h1 (v := (moveFrom s.N sv).1) rfl ?_ ?_
      · show s.live = _
        rw [len_moveFrom]; simp
      · show s.heapBlocks = _
        rw [hw_moveFrom]; simp
  | copyAssign dst src =>
    simp only [stepSt]
    split
    · next dv sv hdv hsv =>
      split
      · exact hl
      · refine Led.of_upd hw' hl hdv rfl ?_ ?_
        · show s.live + _ + _ = _
          rw [destroyAllDelta_fst, len_copyP]; simp only [len_def]; omega
        · show s.heapBlocks + _ + _ + _ = _
          rw [destroyAllDelta_snd, ← copyP_dh]; omega
    · exact hl
  | moveAssign dst src =>
    simp only [stepSt]
    split
    · next dv sv hdv hsv =>
      split
      · exact hl
      · next hne =>
        have h1 : Led ⟨s.N, upd s.vecs dst (moveFrom s.N sv).1, s.live - len dv + len sv,
            s.heapBlocks - hw dv + hw sv, s.next⟩ :=
          Led.of_upd hw' hl hdv rfl (by simp [len_moveFrom]) (by simp [hw_moveFrom])
        have hw1 : WF ⟨s.N, upd s.vecs dst (moveFrom s.N sv).1, s.live - len dv + len sv,
            s.heapBlocks - hw dv + hw sv, s.next⟩ := hw'.pres_upd _ _
        have hg : get ⟨s.N, upd s.vecs dst (moveFrom s.N sv).1, s.live - len dv + len sv,
            s.heapBlocks - hw dv + hw sv, s.next⟩ src = some sv := by
          rw [get_eq]; simp only []
          rw [lk_upd_ne _ _ _ _ (Ne.symm hne)]; exact hsv
        refine Led.of_upd hw1 h1 hg rfl ?_ ?_
        · show s.live + _ = _
          rw [destroyAllDelta_fst, moveFrom_snd, len_empty]; simp only []; omega
        · show s.heapBlocks + _ = _
          rw [destroyAllDelta_snd, moveFrom_snd, hw_empty]; simp only []; omega
    · exact hl
  | pushBack o x =>
    simp only [stepSt]
    split
    · next v hv =>
      refine Led.of_upd hw' hl hv rfl ?_ ?_
      · show s.live + 1 = _
        simp only [len_def, emplaceBack_items, List.length_append, List.length_singleton]; omega
      · show s.heapBlocks + _ = _
        rw [emplaceBack_dh]; omega
    · exact hl
  | popBack o =>
    simp only [stepSt]
    split
    · next v hv =>
      split
      · exact hl
      · next hne =>
        refine Led.of_upd hw' hl hv rfl ?_ ?_
        · show s.live - 1 = _
          have : v.items.length ≠ 0 := fun e => hne (List.length_eq_zero_iff.1 e)
          simp only [len_def, List.length_dropLast]; omega
        · show s.heapBlocks = _
          simp only [hw]; omega
    · exact hl
  | resize o n x =>
    simp only [stepSt]
    split
    · next v hv =>
      refine Led.of_upd hw' hl hv rfl ?_ ?_
      · show s.live + _ = _
        rw [resizeVec_dl]; omega
      · show s.heapBlocks + _ = _
        rw [resizeVec_dh]; omega
    · exact hl
  | reserve o n =>
    simp only [stepSt]
    split
    · next v hv =>
      refine Led.of_upd hw' hl hv rfl ?_ ?_
      · show s.live = _
        simp only [len_def, ensureCapacity_items]; omega
      · show s.heapBlocks + _ = _
        rw [ensureCapacity_dh]; omega
    · exact hl
  | clear o =>
    simp only [stepSt]
    split
    · next v hv =>
      refine Led.of_upd hw' hl hv rfl ?_ ?_
      · show s.live + _ = _
        rw [destroyAllDelta_fst, len_empty]; omega
      · show s.heapBlocks + _ = _
        rw [destroyAllDelta_snd, hw_empty]; omega
    · exact hl
  | erase o idx =>
    simp only [stepSt]
    split
    · next v hv =>
      split
      · next hlt =>
        refine Led.of_upd hw' hl hv rfl ?_ ?_
        · show s.live - 1 = _
          simp only [len_def, List.length_eraseIdx, hlt, if_true]; omega
        · show s.heapBlocks = _
          simp only [hw]; omega
      · exact hl
    · exact hl
  | destroy o =>
    simp only [stepSt]
    split
    · next v hv =>
      refine Led.of_filter hw' hl hv rfl ?_ ?_
      · show s.live + _ = _
        rw [destroyAllDelta_fst]; omega
      · show s.heapBlocks + _ = _
        rw [destroyAllDelta_snd]; omega
    · exact hl
  | query o => exact hl

theorem Led.pres_runOps {s : St} (hw' : WF s) (hl : Led s) (ops : List Op) :
    Led (runOps s ops) := by
  induction ops generalizing s with
  | nil => exact hl
  | cons o os ih => rw [runOps_cons]; exact ih (hw'.pres_stepSt o) (hl.pres_stepSt hw' o)

/-! ### capacity invariant -/

/-- every vector of the pool is `VecOK` for the inline capacity `N = s.N` -/
structure Cap (N : Nat) (s : St) : Prop where
  hN : s.N = N
  ok : ∀ p ∈ s.vecs, VecOK N p.2

theorem Cap.init (N : Nat) : Cap N (St.init N) := ⟨rfl, by simp [St.init]⟩

theorem Cap.get {N : Nat} {s : St} (h : Cap N s) {o : Nat} {v : Vec} (hg : get s o = some v) :
    VecOK N v := h.ok _ (lk_mem hg)

theorem capp_upd {N : Nat} {l : Pool} (h : ∀ p ∈ l, VecOK N p.2) (o : Nat) {v : Vec}
    (hv : VecOK N v) : ∀ p ∈ upd l o v, VecOK N p.2 := by
  intro p hp
  obtain ⟨q, hq, e⟩ := List.mem_map.1 hp
  subst e
  split
  · exact hv
  · exact h q hq

theorem capp_app {N : Nat} {l : Pool} (h : ∀ p ∈ l, VecOK N p.2) (n : Nat) {v : Vec}
    (hv : VecOK N v) : ∀ p ∈ l ++ [(n, v)], VecOK N p.2 := by
  intro p hp
  simp only [List.mem_append, List.mem_singleton] at hp
  rcases hp with hp | hp
  · exact h p hp
  · subst hp; exact hv

theorem capp_filter {N : Nat} {l : Pool} (h : ∀ p ∈ l, VecOK N p.2) (o : Nat) :
    ∀ p ∈ l.filter (·.1 ≠ o), VecOK N p.2 :=
  fun p hp => h p (List.mem_filter.1 hp).1

theorem stepSt_N (s : St) (op : Op) : (stepSt s op).N = s.N := by
  cases op <;> simp only [stepSt] <;> (try split) <;> (try split) <;> rfl

theorem Cap.pres_stepSt {N : Nat} (hN1 : 1 ≤ N) {s : St} (h : Cap N s) (op : Op) :
    Cap N (stepSt s op) := by
  refine ⟨(stepSt_N s op).trans h.hN, ?_⟩
  have hN := h.hN
  have hok := h.ok
  cases op with
  | mk => exact capp_app hok _ (hN ▸ VecOK.empty s.N)
  | mkCount n x =>
    exact capp_app hok _ (by rw [hN]; exact resizeVec_ok N _ n x (VecOK.empty N))
  | copyCtor src =>
    simp only [stepSt]
    split
    · exact hok
    · exact capp_app hok _ (by rw [hN]; exact copyP_ok N hN1 _)
  | moveCtor src =>
    simp only [stepSt]
    split
    · exact hok
    · next sv hsv =>
      refine capp_app (capp_upd hok _ ?_) _ ?_
      · rw [moveFrom_snd, hN]; exact VecOK.empty N
      · rw [hN]; exact moveFrom_ok N sv (h.get hsv)
  | copyAssign dst src =>
    simp only [stepSt]
    split
    · split
      · exact hok
      · exact capp_upd hok _ (by rw [hN]; exact copyP_ok N hN1 _)
    · exact hok
  | moveAssign dst src =>
    simp only [stepSt]
    split
    · next dv sv hdv hsv =>
      split
      · exact hok
      · refine capp_upd (capp_upd hok _ ?_) _ ?_
        · rw [hN]; exact moveFrom_ok N sv (h.get hsv)
        · rw [moveFrom_snd, hN]; exact VecOK.empty N
    · exact hok
  | pushBack o x =>
    simp only [stepSt]
    split
    · next v hv => exact capp_upd hok _ (by rw [hN]; exact emplaceBack_ok N hN1 v x (h.get hv))
    · exact hok
  | popBack o =>
    simp only [stepSt]
    split
    · next v hv =>
      split
      · exact hok
      · refine capp_upd hok _ ?_
        obtain ⟨h1, h2⟩ := h.get hv
        refine ⟨?_, h2⟩
        simp only [List.length_dropLast]; omega
    · exact hok
  | resize o n x =>
    simp only [stepSt]
    split
    · next v hv => exact capp_upd hok _ (by rw [hN]; exact resizeVec_ok N v n x (h.get hv))
    · exact hok
  | reserve o n =>
    simp only [stepSt]
    split
    · next v hv => exact capp_upd hok _ (by rw [hN]; exact (ensureCapacity_ok N v n (h.get hv)).1)
    · exact hok
  | clear o =>
    simp only [stepSt]
    split
    · exact capp_upd hok _ (hN ▸ VecOK.empty s.N)
    · exact hok
  | erase o idx =>
    simp only [stepSt]
    split
    · next v hv =>
      split
      · refine capp_upd hok _ ?_
        obtain ⟨h1, h2⟩ := h.get hv
        refine ⟨?_, h2⟩
        simp only [List.length_eraseIdx]; split <;> omega
      · exact hok
    · exact hok
  | destroy o =>
    simp only [stepSt]
    split
    · exact capp_filter hok _
    · exact hok
  | query o => exact hok

theorem Cap.pres_runOps {N : Nat} (hN1 : 1 ≤ N) {s : St} (h : Cap N s) (ops : List Op) :
    Cap N (runOps s ops) := by
  induction ops generalizing s with
  | nil => exact h
  | cons o os ih => rw [runOps_cons]; exact ih (h.pres_stepSt hN1 o)

end Dispenso.SmallVec
