import DispensoVerif.Model.ParForExec
import DispensoVerif.Proofs.Pigeon
import DispensoVerif.Proofs.ParFor
import Mathlib.Tactic.SplitIfs
/-!
Inductive invariant of the `parallel_for` execution model (`Model/ParForExec.lean`) and its
consequences (C14).  The heart is the exit-ticket argument: the actor that leaves last (exit number
`W - 1`, i.e. exit ticket `numChunks + W - 1`) leaves after every other actor has left, hence after
every other actor's last body invocation returned.
-/
namespace Dispenso.ParForExec

/-- consistency of an actor's control state `p` with its exit number `x` -/
def PcOkV (S : Sys) (x : Option Nat) (p : Pc) : Prop :=
  match p with
  | .ready => x = none
  | .claimed _ => x = none
  | .body _ => x = none
  | .exited t => ∃ n, x = some n ∧ t = S.numChunks + n
  | .tail => x = some (S.W - 1) ∧ S.tailByWorker = true
  | .done => ∃ n, x = some n

/-- accounting of tail invocations -/
def TailsOk (S : Sys) (s : St) : Prop :=
  if S.tailByWorker = true then
    s.tails ≤ 1 ∧ (s.tails = 1 ↔ ∃ a, s.xt a = some (S.W - 1) ∧ (s.pc a = .tail ∨ s.pc a = .done))
  else if S.wait = true ∧ S.hasTail = true then
    (s.tails = 1 ∧ (s.caller = .inTail ∨ s.caller = .returned)) ∨
      (s.tails = 0 ∧ (s.caller = .running ∨ s.caller = .tailPending))
  else s.tails = 0

structure Inv (S : Sys) (s : St) : Prop where
  pcok : ∀ a, PcOkV S (s.xt a) (s.pc a)
  rng : ∀ a, s.pc a ≠ .ready → a < S.W
  xtlt : ∀ a n, s.xt a = some n → n < s.xc ∧ a < S.W
  inj : ∀ a b n, s.xt a = some n → s.xt b = some n → a = b
  own : ∀ n, n < s.xc → ∃ a, a < S.W ∧ s.xt a = some n
  idx : S.kind = .dynamic → (s.index ≤ S.numChunks ∧ s.xc = 0) ∨ s.index = S.numChunks + s.xc
  call : S.wait = true → s.caller ≠ .running → ∀ a, a < S.W → s.pc a = .done
  cnw : S.wait = false → s.caller = .running ∨ s.caller = .returned
  ctl : (s.caller = .tailPending ∨ s.caller = .inTail) → S.hasTail = true
  tl : TailsOk S s
  wt : s.waited = true → s.caller = .returned ∧ ∀ a, a < S.W → s.pc a = .done

theorem allDone_iff (S : Sys) (s : St) : allDone S s = true ↔ ∀ a, a < S.W → s.pc a = .done := by
  unfold allDone
  simp [List.all_eq_true]

theorem tbw_wait {S : Sys} (h : S.tailByWorker = true) : S.wait = false ∧ S.hasTail = true := by
  unfold Sys.tailByWorker at h
  simp only [Bool.and_eq_true, Bool.not_eq_true'] at h
  exact ⟨h.1.2, h.2⟩

theorem inv_init (S : Sys) : Inv S St.init := by
  refine ⟨?_, ?_, ?_, ?_, ?_, ?_, ?_, ?_, ?_, ?_, ?_⟩
  · intro a; exact rfl
  · intro a h; exact absurd rfl h
  · intro a n h; cases h
  · intro a b n h; cases h
  · intro n h; exact absurd h (Nat.not_lt_zero n)
  · intro _; left; exact ⟨Nat.zero_le _, rfl⟩
  · intro _ h; exact absurd rfl h
  · intro _; left; rfl
  · intro h; rcases h with h | h <;> cases h
  · unfold TailsOk
    split_ifs with h1 h2
    · refine ⟨Nat.zero_le _, ?_⟩
      constructor
      · intro h; cases h
      · rintro ⟨a, h, _⟩; cases h
    · right; exact ⟨rfl, Or.inl rfl⟩
    · rfl
  · intro h; cases h

/-- an actor that is neither `ready` nor `done` is mid-flight: the caller has not passed the barrier
and the task set's `wait()` has not returned -/
theorem midflight {S : Sys} {s : St} (h : Inv S s) (a : Nat) (hnr : s.pc a ≠ .ready)
    (hnd : s.pc a ≠ .done) : (S.wait = true → s.caller = .running) ∧ s.waited = false := by
  have ha := h.rng a hnr
  constructor
  · intro hw
    by_contra hc
    exact hnd (h.call hw hc a ha)
  · cases hwt : s.waited with
    | false => rfl
    | true => exact absurd ((h.wt hwt).2 a ha) hnd

/-- changing only the control state of a mid-flight actor (and the tail counter) -/
theorem inv_setPc {S : Sys} {s : St} (h : Inv S s) (a : Nat) (p : Pc) (n' : Nat)
    (hnr : s.pc a ≠ .ready) (hnd : s.pc a ≠ .done)
    (hp : PcOkV S (s.xt a) p)
    (htl : TailsOk S { setPc s a p with tails := n' }) :
    Inv S { setPc s a p with tails := n' } := by
  have ha := h.rng a hnr
  obtain ⟨mf1, mf2⟩ := midflight h a hnr hnd
  refine ⟨?_, ?_, h.xtlt, h.inj, h.own, h.idx, ?_, h.cnw, h.ctl, htl, ?_⟩
  · intro b
    show PcOkV S (s.xt b) (if b = a then p else s.pc b)
    by_cases hb : b = a
    · rw [if_pos hb, hb]; exact hp
    · rw [if_neg hb]; exact h.pcok b
  · intro b
    show (if b = a then p else s.pc b) ≠ .ready → b < S.W
    by_cases hb : b = a
    · rw [if_pos hb, hb]; intro _; exact ha
    · rw [if_neg hb]; exact h.rng b
  · intro hw hc
    exact absurd (mf1 hw) hc
  · intro hwt
    have : s.waited = true := hwt
    rw [mf2] at this; cases this

/-- `TailsOk` only looks at `tails`, `caller` and, on the worker-tail paths, at who holds exit
number `W - 1` in `tail`/`done` -/
theorem tailsOk_congr {S : Sys} {s s' : St} (h : TailsOk S s) (ht : s'.tails = s.tails)
    (hc : s'.caller = s.caller)
    (hx : S.tailByWorker = true → ∀ b,
      (s'.xt b = some (S.W - 1) ∧ (s'.pc b = .tail ∨ s'.pc b = .done)) ↔
      (s.xt b = some (S.W - 1) ∧ (s.pc b = .tail ∨ s.pc b = .done))) : TailsOk S s' := by
  unfold TailsOk at h ⊢
  rw [ht, hc]
  split_ifs at h ⊢ with h1 h2
  · refine ⟨h.1, ?_⟩
    rw [h.2]
    constructor
    · rintro ⟨b, hb⟩; exact ⟨b, ((hx h1 b).mpr hb)⟩
    · rintro ⟨b, hb⟩; exact ⟨b, ((hx h1 b).mp hb)⟩
  · exact h
  · exact h

theorem inv_pick {S : Sys} {s s' : St} (h : Inv S s) (a k : Nat)
    (e : step S s (.pick a k) = some s') : Inv S s' := by
  simp only [step] at e
  split_ifs at e with hg
  cases e
  obtain ⟨haW, hpc, hk, _, hok⟩ := hg
  have hxa : s.xt a = none := by have := h.pcok a; rw [hpc] at this; exact this
  refine ⟨?_, ?_, h.xtlt, h.inj, h.own, ?_, ?_, h.cnw, h.ctl, ?_, ?_⟩
  · intro b
    show PcOkV S (s.xt b) (if b = a then .claimed k else s.pc b)
    by_cases hb : b = a
    · rw [if_pos hb, hb]; exact hxa
    · rw [if_neg hb]; exact h.pcok b
  · intro b
    show (if b = a then Pc.claimed k else s.pc b) ≠ .ready → b < S.W
    by_cases hb : b = a
    · rw [if_pos hb, hb]; intro _; exact haW
    · rw [if_neg hb]; exact h.rng b
  · intro hd
    show ((bump S s.index ≤ S.numChunks ∧ s.xc = 0) ∨ bump S s.index = S.numChunks + s.xc)
    unfold bump
    rw [if_pos hd]
    have hki : k = s.index := by
      unfold pickOk at hok; rw [hd] at hok; simpa using hok
    rcases h.idx hd with h1 | h1
    · left; exact ⟨by omega, h1.2⟩
    · omega
  · intro hw hc
    have := h.call hw hc a haW
    rw [hpc] at this; cases this
  · refine tailsOk_congr h.tl rfl rfl ?_
    intro _ b
    show (s.xt b = some (S.W - 1) ∧ ((if b = a then Pc.claimed k else s.pc b) = .tail ∨
      (if b = a then Pc.claimed k else s.pc b) = .done)) ↔ _
    by_cases hb : b = a
    · rw [if_pos hb, hb, hpc]
      constructor
      · rintro ⟨_, h1 | h1⟩ <;> cases h1
      · rintro ⟨_, h1 | h1⟩ <;> cases h1
    · rw [if_neg hb]
  · intro hwt
    have := (h.wt hwt).2 a haW
    rw [hpc] at this; cases this

theorem inv_begin {S : Sys} {s s' : St} (h : Inv S s) (a : Nat)
    (e : step S s (.begin a) = some s') : Inv S s' := by
  simp only [step] at e
  split at e
  · rename_i k hpc
    cases e
    have hxa : s.xt a = none := by have := h.pcok a; rw [hpc] at this; exact this
    refine inv_setPc h a (.body k) s.tails (by rw [hpc]; intro x; cases x) (by rw [hpc]; intro x; cases x)
      hxa ?_
    refine tailsOk_congr h.tl rfl rfl ?_
    intro _ b
    show (s.xt b = some (S.W - 1) ∧ ((if b = a then Pc.body k else s.pc b) = .tail ∨
      (if b = a then Pc.body k else s.pc b) = .done)) ↔ _
    by_cases hb : b = a
    · rw [if_pos hb, hb, hpc]
      constructor
      · rintro ⟨_, h1 | h1⟩ <;> cases h1
      · rintro ⟨_, h1 | h1⟩ <;> cases h1
    · rw [if_neg hb]
  · cases e

theorem inv_end {S : Sys} {s s' : St} (h : Inv S s) (a : Nat)
    (e : step S s (.end_ a) = some s') : Inv S s' := by
  simp only [step] at e
  split at e
  · rename_i k hpc
    cases e
    have hxa : s.xt a = none := by have := h.pcok a; rw [hpc] at this; exact this
    refine inv_setPc h a .ready s.tails (by rw [hpc]; intro x; cases x) (by rw [hpc]; intro x; cases x)
      hxa ?_
    refine tailsOk_congr h.tl rfl rfl ?_
    intro _ b
    show (s.xt b = some (S.W - 1) ∧ ((if b = a then Pc.ready else s.pc b) = .tail ∨
      (if b = a then Pc.ready else s.pc b) = .done)) ↔ _
    by_cases hb : b = a
    · rw [if_pos hb, hb, hpc]
      constructor
      · rintro ⟨_, h1 | h1⟩ <;> cases h1
      · rintro ⟨_, h1 | h1⟩ <;> cases h1
    · rw [if_neg hb]
  · cases e

theorem inv_leave {S : Sys} {s s' : St} (h : Inv S s) (a : Nat)
    (e : step S s (.leave a) = some s') : Inv S s' := by
  simp only [step] at e
  split_ifs at e with hg
  cases e
  obtain ⟨haW, hpc, hok⟩ := hg
  have hxa : s.xt a = none := by have := h.pcok a; rw [hpc] at this; exact this
  have hxb : ∀ b, b ≠ a → (if b = a then some s.xc else s.xt b) = s.xt b := fun b hb => if_neg hb
  refine ⟨?_, ?_, ?_, ?_, ?_, ?_, ?_, h.cnw, h.ctl, ?_, ?_⟩
  · intro b
    show PcOkV S (if b = a then some s.xc else s.xt b) (if b = a then .exited (exitTicket S s) else s.pc b)
    by_cases hb : b = a
    · rw [if_pos hb, if_pos hb]
      refine ⟨s.xc, rfl, ?_⟩
      unfold exitTicket
      split_ifs with hd
      · have hle : S.numChunks ≤ s.index := by
          unfold leaveOk at hok; rw [hd] at hok; simpa using hok
        rcases h.idx hd with h1 | h1 <;> omega
      · rfl
    · rw [if_neg hb, if_neg hb]; exact h.pcok b
  · intro b
    show (if b = a then Pc.exited (exitTicket S s) else s.pc b) ≠ .ready → b < S.W
    by_cases hb : b = a
    · rw [if_pos hb, hb]; intro _; exact haW
    · rw [if_neg hb]; exact h.rng b
  · intro b n
    show (if b = a then some s.xc else s.xt b) = some n → n < s.xc + 1 ∧ b < S.W
    by_cases hb : b = a
    · rw [if_pos hb, hb]; intro hn; cases hn; exact ⟨Nat.lt_succ_self _, haW⟩
    · rw [if_neg hb]; intro hn; have := h.xtlt b n hn; exact ⟨by omega, this.2⟩
  · intro b c n
    show (if b = a then some s.xc else s.xt b) = some n → (if c = a then some s.xc else s.xt c) = some n → b = c
    by_cases hb : b = a <;> by_cases hc : c = a
    · intro _ _; rw [hb, hc]
    · rw [if_pos hb, if_neg hc]; intro h1 h2; cases h1
      have := (h.xtlt c _ h2).1; omega
    · rw [if_neg hb, if_pos hc]; intro h1 h2; cases h2
      have := (h.xtlt b _ h1).1; omega
    · rw [if_neg hb, if_neg hc]; exact h.inj b c n
  · intro n hn
    have hn : n < s.xc + 1 := hn
    show ∃ b, b < S.W ∧ (if b = a then some s.xc else s.xt b) = some n
    by_cases hnx : n = s.xc
    · exact ⟨a, haW, by rw [if_pos rfl, hnx]⟩
    · obtain ⟨b, hbW, hb⟩ := h.own n (by omega)
      have hba : b ≠ a := by intro hba; rw [hba, hxa] at hb; cases hb
      exact ⟨b, hbW, by rw [if_neg hba]; exact hb⟩
  · intro hd
    show ((bump S s.index ≤ S.numChunks ∧ s.xc + 1 = 0) ∨ bump S s.index = S.numChunks + (s.xc + 1))
    unfold bump
    rw [if_pos hd]
    have hle : S.numChunks ≤ s.index := by
      unfold leaveOk at hok; rw [hd] at hok; simpa using hok
    rcases h.idx hd with h1 | h1 <;> omega
  · intro hw hc
    have := h.call hw hc a haW
    rw [hpc] at this; cases this
  · refine tailsOk_congr h.tl rfl rfl ?_
    intro _ b
    show ((if b = a then some s.xc else s.xt b) = some (S.W - 1) ∧
      ((if b = a then Pc.exited (exitTicket S s) else s.pc b) = .tail ∨
       (if b = a then Pc.exited (exitTicket S s) else s.pc b) = .done)) ↔ _
    by_cases hb : b = a
    · rw [if_pos hb, if_pos hb, hb, hpc]
      constructor
      · rintro ⟨_, h1 | h1⟩ <;> cases h1
      · rintro ⟨_, h1 | h1⟩ <;> cases h1
    · rw [if_neg hb, if_neg hb]
  · intro hwt
    have := (h.wt hwt).2 a haW
    rw [hpc] at this; cases this

theorem inv_exitStep {S : Sys} {s s' : St} (h : Inv S s) (a : Nat)
    (e : step S s (.exitStep a) = some s') : Inv S s' := by
  simp only [step] at e
  split at e
  · rename_i t hpc
    have hnr : s.pc a ≠ .ready := by rw [hpc]; intro x; cases x
    have hnd : s.pc a ≠ .done := by rw [hpc]; intro x; cases x
    have haW := h.rng a hnr
    obtain ⟨n, hxa, htn⟩ : ∃ n, s.xt a = some n ∧ t = S.numChunks + n := by
      have := h.pcok a; rw [hpc] at this; exact this
    split_ifs at e with hg
    · cases e
      obtain ⟨htb, hte⟩ := hg
      have hn : n = S.W - 1 := by unfold Sys.lastExit at hte; omega
      refine inv_setPc h a .tail (s.tails + 1) hnr hnd ⟨by rw [hxa, hn], htb⟩ ?_
      have htl := h.tl
      unfold TailsOk at htl ⊢
      rw [if_pos htb] at htl ⊢
      have h0 : s.tails = 0 := by
        have hne : s.tails ≠ 1 := by
          intro h1
          obtain ⟨b, hb1, hb2⟩ := htl.2.mp h1
          have : b = a := h.inj b a _ hb1 (by rw [hxa, hn])
          rw [this, hpc] at hb2
          rcases hb2 with hb2 | hb2 <;> cases hb2
        have := htl.1; omega
      show s.tails + 1 ≤ 1 ∧ (s.tails + 1 = 1 ↔ ∃ b, s.xt b = some (S.W - 1) ∧
        ((if b = a then Pc.tail else s.pc b) = .tail ∨ (if b = a then Pc.tail else s.pc b) = .done))
      refine ⟨by omega, ?_⟩
      constructor
      · intro _; exact ⟨a, by rw [hxa, hn], Or.inl (if_pos rfl)⟩
      · intro _; omega
    · cases e
      refine inv_setPc h a .done s.tails hnr hnd ⟨n, hxa⟩ ?_
      refine tailsOk_congr h.tl rfl rfl ?_
      intro htb b
      show (s.xt b = some (S.W - 1) ∧ ((if b = a then Pc.done else s.pc b) = .tail ∨
        (if b = a then Pc.done else s.pc b) = .done)) ↔ _
      by_cases hb : b = a
      · rw [if_pos hb, hb, hpc, hxa]
        have hne : n ≠ S.W - 1 := by
          intro hn; apply hg; refine ⟨htb, ?_⟩; unfold Sys.lastExit; omega
        constructor
        · rintro ⟨h1, _⟩; cases h1; exact absurd rfl hne
        · rintro ⟨_, h1 | h1⟩ <;> cases h1
      · rw [if_neg hb]
  · cases e

theorem inv_endTail {S : Sys} {s s' : St} (h : Inv S s) (a : Nat)
    (e : step S s (.endTail a) = some s') : Inv S s' := by
  simp only [step] at e
  split at e
  · rename_i hpc
    cases e
    have hnr : s.pc a ≠ .ready := by rw [hpc]; intro x; cases x
    have hnd : s.pc a ≠ .done := by rw [hpc]; intro x; cases x
    obtain ⟨hxa, _⟩ : s.xt a = some (S.W - 1) ∧ S.tailByWorker = true := by
      have := h.pcok a; rw [hpc] at this; exact this
    refine inv_setPc h a .done s.tails hnr hnd ⟨_, hxa⟩ ?_
    refine tailsOk_congr h.tl rfl rfl ?_
    intro _ b
    show (s.xt b = some (S.W - 1) ∧ ((if b = a then Pc.done else s.pc b) = .tail ∨
      (if b = a then Pc.done else s.pc b) = .done)) ↔ _
    by_cases hb : b = a
    · rw [if_pos hb, hb, hpc]
      constructor
      · rintro ⟨h1, _⟩; exact ⟨h1, Or.inl rfl⟩
      · rintro ⟨h1, _⟩; exact ⟨h1, Or.inr rfl⟩
    · rw [if_neg hb]
  · cases e

theorem inv_barrier {S : Sys} {s s' : St} (h : Inv S s)
    (e : step S s .barrier = some s') : Inv S s' := by
  simp only [step] at e
  split_ifs at e with hg
  cases e
  obtain ⟨hw, hc, hall⟩ := hg
  have hnt : S.tailByWorker ≠ true := by intro ht; rw [(tbw_wait ht).1] at hw; cases hw
  refine ⟨h.pcok, h.rng, h.xtlt, h.inj, h.own, h.idx, ?_, ?_, ?_, ?_, ?_⟩
  · intro _ _; exact (allDone_iff S s).mp hall
  · intro hw'; rw [hw] at hw'; cases hw'
  · show (afterBarrier S = .tailPending ∨ afterBarrier S = .inTail) → S.hasTail = true
    unfold afterBarrier
    split_ifs with ht
    · intro _; exact ht
    · rintro (h1 | h1) <;> cases h1
  · have htl := h.tl
    unfold TailsOk at htl ⊢
    rw [if_neg hnt] at htl ⊢
    show (if S.wait = true ∧ S.hasTail = true then
      (s.tails = 1 ∧ (afterBarrier S = .inTail ∨ afterBarrier S = .returned)) ∨
      (s.tails = 0 ∧ (afterBarrier S = .running ∨ afterBarrier S = .tailPending)) else s.tails = 0)
    split_ifs at htl ⊢ with h2
    · right
      rcases htl with h3 | h3
      · rw [hc] at h3; rcases h3.2 with h4 | h4 <;> cases h4
      · refine ⟨h3.1, Or.inr ?_⟩
        unfold afterBarrier; rw [if_pos h2.2]
    · exact htl
  · intro hwt
    have := (h.wt hwt).1
    rw [hc] at this; cases this

theorem inv_cBeginTail {S : Sys} {s s' : St} (h : Inv S s)
    (e : step S s .cBeginTail = some s') : Inv S s' := by
  simp only [step] at e
  split_ifs at e with hc
  cases e
  have hht : S.hasTail = true := h.ctl (Or.inl hc)
  have hw : S.wait = true := by
    cases hw : S.wait with
    | true => rfl
    | false => rcases h.cnw hw with h1 | h1 <;> rw [hc] at h1 <;> cases h1
  have hnt : S.tailByWorker ≠ true := by intro ht; rw [(tbw_wait ht).1] at hw; cases hw
  refine ⟨h.pcok, h.rng, h.xtlt, h.inj, h.own, h.idx, ?_, ?_, ?_, ?_, ?_⟩
  · intro hw' _; exact h.call hw' (by rw [hc]; intro x; cases x)
  · intro hw'; rw [hw] at hw'; cases hw'
  · intro _; exact hht
  · have htl := h.tl
    unfold TailsOk at htl ⊢
    rw [if_neg hnt, if_pos ⟨hw, hht⟩] at htl ⊢
    left
    rcases htl with h3 | h3
    · rw [hc] at h3; rcases h3.2 with h4 | h4 <;> cases h4
    · exact ⟨by show s.tails + 1 = 1; omega, Or.inl rfl⟩
  · intro hwt
    have := (h.wt hwt).1
    rw [hc] at this; cases this

theorem inv_cEndTail {S : Sys} {s s' : St} (h : Inv S s)
    (e : step S s .cEndTail = some s') : Inv S s' := by
  simp only [step] at e
  split_ifs at e with hc
  cases e
  have hht : S.hasTail = true := h.ctl (Or.inr hc)
  have hw : S.wait = true := by
    cases hw : S.wait with
    | true => rfl
    | false => rcases h.cnw hw with h1 | h1 <;> rw [hc] at h1 <;> cases h1
  have hnt : S.tailByWorker ≠ true := by intro ht; rw [(tbw_wait ht).1] at hw; cases hw
  refine ⟨h.pcok, h.rng, h.xtlt, h.inj, h.own, h.idx, ?_, ?_, ?_, ?_, ?_⟩
  · intro hw' _; exact h.call hw' (by rw [hc]; intro x; cases x)
  · intro _; right; rfl
  · rintro (h1 | h1) <;> cases h1
  · have htl := h.tl
    unfold TailsOk at htl ⊢
    rw [if_neg hnt, if_pos ⟨hw, hht⟩] at htl ⊢
    left
    rcases htl with h3 | h3
    · exact ⟨h3.1, Or.inr rfl⟩
    · rw [hc] at h3; rcases h3.2 with h4 | h4 <;> cases h4
  · intro hwt
    have := (h.wt hwt).1
    rw [hc] at this; cases this

theorem inv_ret {S : Sys} {s s' : St} (h : Inv S s)
    (e : step S s .ret = some s') : Inv S s' := by
  simp only [step] at e
  split_ifs at e with hg
  cases e
  obtain ⟨hw, hc⟩ := hg
  refine ⟨h.pcok, h.rng, h.xtlt, h.inj, h.own, h.idx, ?_, ?_, ?_, ?_, ?_⟩
  · intro hw'; rw [hw] at hw'; cases hw'
  · intro _; right; rfl
  · rintro (h1 | h1) <;> cases h1
  · have htl := h.tl
    unfold TailsOk at htl ⊢
    have hn2 : ¬ (S.wait = true ∧ S.hasTail = true) := by rintro ⟨h1, _⟩; rw [hw] at h1; cases h1
    rw [if_neg hn2] at htl ⊢
    exact htl
  · intro hwt
    have := (h.wt hwt).1
    rw [hc] at this; cases this

theorem inv_waitDone {S : Sys} {s s' : St} (h : Inv S s)
    (e : step S s .waitDone = some s') : Inv S s' := by
  simp only [step] at e
  split_ifs at e with hg
  cases e
  obtain ⟨hc, hall, _⟩ := hg
  exact ⟨h.pcok, h.rng, h.xtlt, h.inj, h.own, h.idx, h.call, h.cnw, h.ctl, h.tl,
    fun _ => ⟨hc, (allDone_iff S s).mp hall⟩⟩

theorem inv_step {S : Sys} {s s' : St} (h : Inv S s) (a : Act) (e : step S s a = some s') :
    Inv S s' := by
  cases a with
  | pick a k => exact inv_pick h a k e
  | begin a => exact inv_begin h a e
  | end_ a => exact inv_end h a e
  | leave a => exact inv_leave h a e
  | exitStep a => exact inv_exitStep h a e
  | endTail a => exact inv_endTail h a e
  | barrier => exact inv_barrier h e
  | cBeginTail => exact inv_cBeginTail h e
  | cEndTail => exact inv_cEndTail h e
  | ret => exact inv_ret h e
  | waitDone => exact inv_waitDone h e

theorem inv_reachable {S : Sys} {s : St} (r : Reachable S s) : Inv S s := by
  induction r with
  | init => exact inv_init S
  | step a _ e ih => exact inv_step ih a e

/-! ### consequences -/

/-- well-formed systems: a worker-run tail needs a worker; a separate tail is run by somebody -/
structure Sys.WF (S : Sys) : Prop where
  worker : S.tailByWorker = true → 1 ≤ S.W
  tailRun : S.hasTail = true → S.wait = true ∨ S.tailByWorker = true

/-- while an actor runs the tail, every other actor has left its loop -/
theorem tail_alone {S : Sys} {s : St} (h : Inv S s) (a b : Nat) (ha : s.pc a = .tail)
    (hb : b < S.W) (hne : b ≠ a) : (∃ t, s.pc b = .exited t) ∨ s.pc b = .done := by
  obtain ⟨hxa, _⟩ : s.xt a = some (S.W - 1) ∧ S.tailByWorker = true := by
    have := h.pcok a; rw [ha] at this; exact this
  have hlt := h.xtlt a _ hxa
  obtain ⟨n, _, hn⟩ := Pigeon.all_own S.W s.xc s.xt h.own (by omega) b hb
  have hpb := h.pcok b
  cases hpc : s.pc b with
  | ready => rw [hpc] at hpb; rw [hpb] at hn; cases hn
  | claimed k => rw [hpc] at hpb; rw [hpb] at hn; cases hn
  | body k => rw [hpc] at hpb; rw [hpb] at hn; cases hn
  | exited t => exact Or.inl ⟨t, rfl⟩
  | tail =>
    rw [hpc] at hpb
    exact absurd (h.inj b a _ hpb.1 hxa) hne
  | done => exact Or.inr rfl

/-- while the calling thread runs the tail, every actor is done -/
theorem caller_tail_alone {S : Sys} {s : St} (h : Inv S s) (hc : s.caller = .inTail) :
    ∀ a, a < S.W → s.pc a = .done := by
  have hw : S.wait = true := by
    cases hw : S.wait with
    | true => rfl
    | false => rcases h.cnw hw with h1 | h1 <;> rw [hc] at h1 <;> cases h1
  exact h.call hw (by rw [hc]; intro x; cases x)

theorem uses_lt {S : Sys} {s : St} (h : Inv S s) (a i : Nat) (hu : uses s a = some i) : i < S.W := by
  unfold uses at hu
  cases hpc : s.pc a with
  | ready => rw [hpc] at hu; cases hu
  | claimed k => rw [hpc] at hu; cases hu
  | body k =>
    rw [hpc] at hu; cases hu
    exact h.rng a (by rw [hpc]; intro x; cases x)
  | exited t => rw [hpc] at hu; cases hu
  | tail =>
    rw [hpc] at hu; cases hu
    have := h.rng a (by rw [hpc]; intro x; cases x)
    omega
  | done => rw [hpc] at hu; cases hu

theorem exclusive_actors {S : Sys} {s : St} (h : Inv S s) (a b i j : Nat) (hne : a ≠ b)
    (ha : uses s a = some i) (hb : uses s b = some j) : i ≠ j := by
  have haW : a < S.W := by
    apply h.rng a; intro hp; unfold uses at ha; rw [hp] at ha; cases ha
  have hbW : b < S.W := by
    apply h.rng b; intro hp; unfold uses at hb; rw [hp] at hb; cases hb
  unfold uses at ha hb
  cases hpa : s.pc a with
  | ready => rw [hpa] at ha; cases ha
  | claimed k => rw [hpa] at ha; cases ha
  | exited t => rw [hpa] at ha; cases ha
  | done => rw [hpa] at ha; cases ha
  | body k =>
    rw [hpa] at ha; cases ha
    cases hpb : s.pc b with
    | ready => rw [hpb] at hb; cases hb
    | claimed k => rw [hpb] at hb; cases hb
    | exited t => rw [hpb] at hb; cases hb
    | done => rw [hpb] at hb; cases hb
    | body k' => rw [hpb] at hb; cases hb; exact hne
    | tail =>
      rcases tail_alone h b a hpb haW hne with ⟨t, h1⟩ | h1 <;> rw [hpa] at h1 <;> cases h1
  | tail =>
    rw [hpa] at ha; cases ha
    rcases tail_alone h a b hpa hbW (Ne.symm hne) with ⟨t, h1⟩ | h1 <;> rw [h1] at hb <;> cases hb

theorem tails_le_one {S : Sys} {s : St} (h : Inv S s) : s.tails ≤ 1 := by
  have htl := h.tl
  unfold TailsOk at htl
  split_ifs at htl
  · exact htl.1
  · rcases htl with h1 | h1 <;> omega
  · omega

/-- when every actor is done and (wait = true) the caller has returned, the tail has been run
exactly once if there is one, and not at all otherwise -/
theorem tails_final {S : Sys} (wf : S.WF) {s : St} (h : Inv S s)
    (hall : ∀ a, a < S.W → s.pc a = .done) (hc : S.wait = true → s.caller = .returned) :
    s.tails = if S.hasTail = true then 1 else 0 := by
  have htl := h.tl
  unfold TailsOk at htl
  split_ifs at htl with h1 h2
  · rw [if_pos (tbw_wait h1).2]
    have hW := wf.worker h1
    have hall' : ∀ b, b < S.W → ∃ n, n < s.xc ∧ s.xt b = some n := by
      intro b hb
      have := h.pcok b
      rw [hall b hb] at this
      obtain ⟨n, hn⟩ := this
      exact ⟨n, (h.xtlt b n hn).1, hn⟩
    have hle := Pigeon.le_of_own S.W s.xc s.xt h.own
    obtain ⟨a, haW, hxa⟩ := Pigeon.hit S.W s.xc s.xt hall' h.inj hle (S.W - 1) (by omega)
    exact htl.2.mpr ⟨a, hxa, Or.inr (hall a haW)⟩
  · rw [if_pos h2.2]
    rcases htl with h3 | h3
    · exact h3.1
    · rw [hc h2.1] at h3; rcases h3.2 with h4 | h4 <;> cases h4
  · have : S.hasTail ≠ true := by
      intro ht
      rcases wf.tailRun ht with h3 | h3
      · exact h2 ⟨h3, ht⟩
      · exact h1 h3
    rw [if_neg this]; exact htl

/-! ### facts about the plan the system is derived from -/

open Dispenso.ParFor in
theorem plan_facts (c : Cfg) :
    ((plan c).mode = .none ↔ c.stop ≤ c.start) ∧ (c.start < c.stop → 1 ≤ (plan c).tasks) ∧
    ((plan c).mode = .stripes → c.wait = true) ∧
    ((plan c).mode = .dynamic → 1 ≤ (plan c).tasks) := by
  apply plan_cases c (fun p => (p.mode = .none ↔ c.stop ≤ c.start) ∧ (c.start < c.stop → 1 ≤ p.tasks) ∧
    (p.mode = .stripes → c.wait = true) ∧ (p.mode = .dynamic → 1 ≤ p.tasks))
  · intro h0
    exact ⟨⟨fun _ => h0, fun _ => rfl⟩, (fun h => by omega), (fun h => by cases h), (fun h => by cases h)⟩
  · intro hlt
    refine ⟨⟨(fun h => by cases h), (fun h => by omega)⟩, fun _ => ?_, (fun h => by cases h), (fun h => by cases h)⟩
    show (1 : Int) ≤ 1; omega
  · intro g te ht mt st ctx _ _ _
    obtain ⟨gs, hN, hsz⟩ := ctx.facts
    obtain ⟨s1, _, _, _⟩ := staticThreads_spec c.poolThreads mt (te - c.start) g hN ctx.mt2 hsz gs.g_pos gs.dvd
    have := ctx.lt
    exact ⟨⟨(fun h => by cases h), (fun h => by omega)⟩, fun _ => s1, (fun h => by cases h), (fun h => by cases h)⟩
  · intro g te ht mt st ctx _ _
    obtain ⟨gs, hN, hsz⟩ := ctx.facts
    obtain ⟨s1, _, _, _⟩ := staticThreads_spec c.poolThreads mt (te - c.start) g hN ctx.mt2 hsz gs.g_pos gs.dvd
    have := ctx.lt
    exact ⟨⟨(fun h => by cases h), (fun h => by omega)⟩, fun _ => s1, (fun h => by cases h), (fun h => by cases h)⟩
  · intro g te ht mt st ctx _ _ hw
    obtain ⟨l1, _, _⟩ := toLaunch_spec c mt ctx.pool ctx.mt2
    have := ctx.lt
    refine ⟨⟨(fun h => by cases h), (fun h => by omega)⟩, fun _ => ?_, fun _ => hw, (fun h => by cases h)⟩
    show 1 ≤ toLaunch c mt + 1; omega
  · intro g te ht mt st ctx _ _
    obtain ⟨l1, _, _⟩ := toLaunch_spec c mt ctx.pool ctx.mt2
    have := ctx.lt
    have := b2n_range c.wait
    refine ⟨⟨(fun h => by cases h), (fun h => by omega)⟩, fun _ => ?_, (fun h => by cases h), fun _ => ?_⟩
    · show 1 ≤ toLaunch c mt + b2n c.wait; omega
    · show 1 ≤ toLaunch c mt + b2n c.wait; omega

end Dispenso.ParForExec
