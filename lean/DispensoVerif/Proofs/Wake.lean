import DispensoVerif.Model.Wake
import DispensoVerif.Proofs.ExecInv
/-
Proofs for C09 / C07 (wake protocol of the thread pool, `Model/Wake.lean`).

Part 1: classification of the operations and continuations of the protocol.
Part 2: the inductive invariant `Inv` over all interleavings (`Conc.Reachable`), any number of
threads, any `N`, `G ≥ 1`:
  * every epoch value a worker holds is at most the current epoch of its group (epochs only grow);
  * a stopper that is past `running_[i].store(false)` leaves `running_[i] = 0` for ever;
  * once a stopper has bumped the epoch of group `g`, every worker of `g` that is between its
    running re-check and its futex wait holds a stale epoch (so its futex wait cannot block);
  * once a stopper has issued the wake-all of group `g`, nobody is parked on that group's futex.
-/
namespace Dispenso.Wake
open Dispenso.Conc

/-! ### fields -/

theorem fEpoch_inj {g h : Nat} : fEpoch g = fEpoch h ↔ g = h := by
  show (3 + 3 * g : Nat) = 3 + 3 * h ↔ g = h; omega
theorem fRun_inj {i j : Nat} : fRun i = fRun j ↔ i = j := by
  show (4 + 3 * i : Nat) = 4 + 3 * j ↔ i = j; omega
theorem fMask_inj {g h : Nat} : fMask g = fMask h ↔ g = h := by
  show (2 + 3 * g : Nat) = 2 + 3 * h ↔ g = h; omega
@[simp] theorem fEpoch_ne_fRun (g i : Nat) : (fEpoch g = fRun i) = False := by
  apply eq_false; show (3 + 3 * g : Nat) ≠ 4 + 3 * i; omega
@[simp] theorem fRun_ne_fEpoch (g i : Nat) : (fRun i = fEpoch g) = False := by
  apply eq_false; show (4 + 3 * i : Nat) ≠ 3 + 3 * g; omega
@[simp] theorem fEpoch_ne_fMask (g h : Nat) : (fEpoch g = fMask h) = False := by
  apply eq_false; show (3 + 3 * g : Nat) ≠ 2 + 3 * h; omega
@[simp] theorem fMask_ne_fEpoch (g h : Nat) : (fMask h = fEpoch g) = False := by
  apply eq_false; show (2 + 3 * h : Nat) ≠ 3 + 3 * g; omega
@[simp] theorem fRun_ne_fMask (i h : Nat) : (fRun i = fMask h) = False := by
  apply eq_false; show (4 + 3 * i : Nat) ≠ 2 + 3 * h; omega
@[simp] theorem fMask_ne_fRun (i h : Nat) : (fMask h = fRun i) = False := by
  apply eq_false; show (2 + 3 * h : Nat) ≠ 4 + 3 * i; omega
@[simp] theorem fEpoch_ne_total (g : Nat) : (fEpoch g = fTotal) = False := by
  apply eq_false; show (3 + 3 * g : Nat) ≠ 0; omega
@[simp] theorem total_ne_fEpoch (g : Nat) : (fTotal = fEpoch g) = False := by
  apply eq_false; show (0 : Nat) ≠ 3 + 3 * g; omega
@[simp] theorem fEpoch_ne_nwg (g : Nat) : (fEpoch g = fNwg) = False := by
  apply eq_false; show (3 + 3 * g : Nat) ≠ 1; omega
@[simp] theorem nwg_ne_fEpoch (g : Nat) : (fNwg = fEpoch g) = False := by
  apply eq_false; show (1 : Nat) ≠ 3 + 3 * g; omega
@[simp] theorem fRun_ne_total (g : Nat) : (fRun g = fTotal) = False := by
  apply eq_false; show (4 + 3 * g : Nat) ≠ 0; omega
@[simp] theorem total_ne_fRun (g : Nat) : (fTotal = fRun g) = False := by
  apply eq_false; show (0 : Nat) ≠ 4 + 3 * g; omega
@[simp] theorem fRun_ne_nwg (g : Nat) : (fRun g = fNwg) = False := by
  apply eq_false; show (4 + 3 * g : Nat) ≠ 1; omega
@[simp] theorem nwg_ne_fRun (g : Nat) : (fNwg = fRun g) = False := by
  apply eq_false; show (1 : Nat) ≠ 4 + 3 * g; omega
@[simp] theorem fMask_ne_total (g : Nat) : (fMask g = fTotal) = False := by
  apply eq_false; show (2 + 3 * g : Nat) ≠ 0; omega
@[simp] theorem total_ne_fMask (g : Nat) : (fTotal = fMask g) = False := by
  apply eq_false; show (0 : Nat) ≠ 2 + 3 * g; omega
@[simp] theorem fMask_ne_nwg (g : Nat) : (fMask g = fNwg) = False := by
  apply eq_false; show (2 + 3 * g : Nat) ≠ 1; omega
@[simp] theorem nwg_ne_fMask (g : Nat) : (fNwg = fMask g) = False := by
  apply eq_false; show (1 : Nat) ≠ 2 + 3 * g; omega
@[simp] theorem total_ne_nwg : (fTotal = fNwg) = False := by
  apply eq_false; show (0 : Nat) ≠ 1; omega
@[simp] theorem nwg_ne_total : (fNwg = fTotal) = False := by
  apply eq_false; show (1 : Nat) ≠ 0; omega

theorem div_lt_numGroups {N G i : Nat} (hG : 1 ≤ G) (hi : i < N) : i / G < numGroups N G := by
  unfold numGroups
  rw [Nat.div_lt_iff_lt_mul hG]
  have h3 := Nat.div_add_mod (N + G - 1) G
  have h4 := Nat.mod_lt (N + G - 1) hG
  have h5 : G * ((N + G - 1) / G) = (N + G - 1) / G * G := Nat.mul_comm _ _
  omega

theorem numGroups_pos {N G : Nat} (hN : 1 ≤ N) (hG : 1 ≤ G) : 0 < numGroups N G := by
  exact Nat.lt_of_le_of_lt (Nat.zero_le _) (div_lt_numGroups (i := 0) hG hN)

/-! ### classification of local states -/

/-- index of a worker state -/
def widx : L → Option Nat
  | .wCur i | .wIdle i _ | .wRun i _ | .wOn i _ | .wOr i _ | .wInc i _ | .wRe i _ | .wXAnd i
  | .wXDec i | .wE1 i _ | .wE2 i _ | .wWait i _ | .wE3 i | .wAnd i _ | .wDec i _ | .wExit i => some i
  | _ => none

/-- the epoch value a worker holds (will pass to / got from waitFor) -/
def wE : L → Option (Nat × Int)
  | .wIdle i e | .wRun i e | .wOn i e | .wOr i e | .wInc i e | .wRe i e | .wE1 i e | .wE2 i e
  | .wWait i e | .wAnd i e | .wDec i e => some (i, e)
  | _ => none

/-- between the running re-check (which saw `running`) and the futex wait -/
def inZ : L → Option (Nat × Int)
  | .wE1 i e | .wE2 i e | .wWait i e => some (i, e)
  | _ => none

/-- the stopper has executed `running_[i].store(false)` -/
def pastStore : L → Nat → Prop
  | .sStore j _, i => i < j
  | .aBump _, _ | .aWake _, _ | .sDone, _ => True
  | _, _ => False

/-- the stopper's wakeAll has bumped the epoch of group g -/
def pastBump (NG : Nat) : L → Nat → Prop
  | .aBump j, g => g < j
  | .aWake j, g => g ≤ j
  | .sDone, g => g < NG
  | _, _ => False

/-- the stopper's wakeAll has issued the futex wake of group g -/
def pastWake (NG : Nat) : L → Nat → Prop
  | .aBump j, g => g < j
  | .aWake j, g => g < j
  | .sDone, g => g < NG
  | _, _ => False

theorem pastWake_pastBump {NG : Nat} {l : L} {g : Nat} (h : pastWake NG l g) : pastBump NG l g := by
  cases l <;> simp [pastWake, pastBump] at h ⊢ <;> omega

theorem inZ_wE {l : L} {p : Nat × Int} (h : inZ l = some p) : wE l = some p := by
  cases l <;> simp [inZ, wE] at h ⊢ <;> exact h

theorem wE_widx {l : L} {i : Nat} {e : Int} (h : wE l = some (i, e)) : widx l = some i := by
  cases l <;> simp [wE, widx] at h ⊢ <;> exact h.1


section
variable {N G : Nat}

/-! ### the helper continuations are never worker / stopper-progress states -/

@[simp] theorem widx_afterMask (g gi m : Nat) : widx (afterMask N G g gi m) = none := by
  unfold afterMask; split
  · rfl
  · split <;> rfl
@[simp] theorem widx_rNext (g c : Nat) (b : Bool) : widx (rNext N G g c b) = none := by
  unfold rNext; split <;> rfl
@[simp] theorem widx_aNext (g : Nat) : widx (aNext N G g) = none := by
  unfold aNext; split <;> rfl
@[simp] theorem widx_oNext (g : Nat) : widx (oNext N G g) = none := by
  unfold oNext; split <;> rfl

theorem pastStore_afterMask (g gi m i : Nat) : ¬ pastStore (afterMask N G g gi m) i := by
  unfold afterMask; split
  · simp [pastStore]
  · split <;> simp [pastStore]
theorem pastStore_rNext (g c : Nat) (b : Bool) (i : Nat) : ¬ pastStore (rNext N G g c b) i := by
  unfold rNext; split <;> simp [pastStore]
theorem pastStore_oNext (g i : Nat) : ¬ pastStore (oNext N G g) i := by
  unfold oNext; split <;> simp [pastStore]
theorem pastBump_afterMask (NG g gi m i : Nat) : ¬ pastBump NG (afterMask N G g gi m) i := by
  unfold afterMask; split
  · simp [pastBump]
  · split <;> simp [pastBump]
theorem pastBump_rNext (NG g c : Nat) (b : Bool) (i : Nat) : ¬ pastBump NG (rNext N G g c b) i := by
  unfold rNext; split <;> simp [pastBump]
theorem pastBump_oNext (NG g i : Nat) : ¬ pastBump NG (oNext N G g) i := by
  unfold oNext; split <;> simp [pastBump]
theorem pastWake_afterMask (NG g gi m i : Nat) : ¬ pastWake NG (afterMask N G g gi m) i := by
  unfold afterMask; split
  · simp [pastWake]
  · split <;> simp [pastWake]
theorem pastWake_rNext (NG g c : Nat) (b : Bool) (i : Nat) : ¬ pastWake NG (rNext N G g c b) i := by
  unfold rNext; split <;> simp [pastWake]
theorem pastWake_oNext (NG g i : Nat) : ¬ pastWake NG (oNext N G g) i := by
  unfold oNext; split <;> simp [pastWake]

theorem widx_wE_none {l : L} (h : widx l = none) : wE l = none := by
  cases l <;> simp [widx, wE] at h ⊢
theorem widx_inZ_none {l : L} (h : widx l = none) : inZ l = none := by
  cases l <;> simp [widx, inZ] at h ⊢

/-! ### how one operation moves a thread through the classification -/

/-- a worker keeps its index; nobody becomes a worker by executing an operation -/
theorem widx_cont {l : L} {r : Int} {i : Nat} (h : widx (cont N G l r) = some i) :
    widx l = some i := by
  cases l <;> simp only [cont] at h <;> (try split at h) <;> (try split at h) <;>
    (try simp only [widx_afterMask, widx_rNext, widx_aNext, widx_oNext] at h) <;>
    simp_all [widx]

/-- the epoch value a worker holds is the one it held, or the value it just loaded from its
group's epoch word -/
theorem wE_cont {l : L} {r : Int} {i : Nat} {e : Int} (h : wE (cont N G l r) = some (i, e)) :
    wE l = some (i, e) ∨ (op N G l = some (.load (fEpoch (i / G))) ∧ r = e) := by
  have hw := widx_cont (wE_widx h)
  cases l <;> simp [widx] at hw <;> subst hw <;> simp only [cont] at h <;> (try split at h) <;>
    simp_all [wE, op]


/-- a worker enters the zone between re-check and futex wait only by seeing `running` -/
theorem inZ_cont {l : L} {r : Int} {i : Nat} {e : Int} (h : inZ (cont N G l r) = some (i, e)) :
    (inZ l = some (i, e) ∧ ∃ f, op N G l = some (.load f)) ∨ (l = .wRe i e ∧ r ≠ 0) := by
  have hw := widx_cont (wE_widx (inZ_wE h))
  cases l <;> simp [widx] at hw <;> subst hw <;> simp only [cont] at h <;> (try split at h) <;>
    simp_all [inZ, op]

theorem pastStore_cont {l : L} {r : Int} {i : Nat} (h : pastStore (cont N G l r) i) (hi : i < N) :
    pastStore l i ∨ ∃ o, l = .sStore i o := by
  cases l <;> simp only [cont] at h <;> (try split at h) <;> (try split at h) <;>
    (try exact absurd h (pastStore_afterMask _ _ _ _)) <;>
    (try exact absurd h (pastStore_rNext _ _ _ _)) <;>
    (try exact absurd h (pastStore_oNext _ _)) <;>
    simp_all [pastStore, aNext]
  all_goals omega


theorem pastBump_cont {l : L} {r : Int} {g : Nat} (h : pastBump (numGroups N G) (cont N G l r) g) :
    pastBump (numGroups N G) l g ∨ l = .aBump g := by
  cases l <;> simp only [cont] at h <;> (try split at h) <;> (try split at h) <;>
    (try exact absurd h (pastBump_afterMask _ _ _ _ _)) <;>
    (try exact absurd h (pastBump_rNext _ _ _ _ _)) <;>
    (try exact absurd h (pastBump_oNext _ _ _)) <;>
    (try unfold aNext at h) <;> (try split at h) <;>
    simp_all [pastBump]
  all_goals omega

theorem pastWake_cont {l : L} {r : Int} {g : Nat} (h : pastWake (numGroups N G) (cont N G l r) g) :
    pastWake (numGroups N G) l g ∨ l = .aWake g := by
  cases l <;> simp only [cont] at h <;> (try split at h) <;> (try split at h) <;>
    (try exact absurd h (pastWake_afterMask _ _ _ _ _)) <;>
    (try exact absurd h (pastWake_rNext _ _ _ _ _)) <;>
    (try exact absurd h (pastWake_oNext _ _ _)) <;>
    (try unfold aNext at h) <;> (try split at h) <;>
    simp_all [pastWake]
  all_goals omega

/-! ### operations -/

/-- the only futex wait of the protocol is the worker's, on its group's epoch word, with the epoch
value the worker holds, and it is timed -/
theorem op_fwait {l : L} {f : Fld} {e : Int} {b : Bool} (h : op N G l = some (.fwait f e b)) :
    ∃ i, l = .wWait i e ∧ f = fEpoch (i / G) ∧ b = true := by
  cases l <;> simp [op] at h
  obtain ⟨h1, h2, h3⟩ := h
  exact ⟨_, by rw [h2], h1.symm, h3⟩

/-- what the memory-writing operations of the protocol write: epoch words are only incremented,
`running_` flags are only cleared -/
theorem op_write {l : L} {o : AOp} {mem : Fld → Int} {r : Int} {f : Fld} {v : Int}
    (ho : op N G l = some o) (hm : memEffect mem o = some (r, some (f, v))) :
    (∀ g, f = fEpoch g → v = mem f + 1 ∧ r = mem f) ∧ (∀ i, f = fRun i → v = 0 ∧ ∃ b, l = .sStore i b) := by
  cases l <;> simp [op] at ho <;> subst ho <;> simp [memEffect] at hm <;>
    obtain ⟨rfl, rfl, rfl⟩ := hm <;> simp [fEpoch_inj, fRun_inj]

theorem pastBump_pastStore {NG : Nat} {l : L} {g : Nat} (h : pastBump NG l g) (i : Nat) :
    pastStore l i := by
  cases l <;> simp [pastBump, pastStore] at h ⊢

theorem pastStore_widx {l : L} {i : Nat} (h : pastStore l i) : widx l = none := by
  cases l <;> simp [pastStore, widx] at h ⊢

/-- client contract: what a call may start -/
theorem entry_class {old : Bool} {l l' : L} (h : entry N G old l l' = true) :
    inZ l' = none ∧ (∀ i, ¬ pastStore l' i) ∧
    (∀ i, widx l' = some i → i < N ∨ widx l = some i) ∧
    (∀ p, wE l' = some p → wE l = some p) ∧ l ≠ .sDone ∧ l ≠ .sDoneOld ∧ (∀ i, l ≠ .wExit i) := by
  unfold entry at h
  split at h
  · simp [inZ, pastStore, widx, wE] at h ⊢; exact h
  · cases l' <;> simp [isEntry] at h <;> simp [inZ, pastStore, widx, wE]
    omega
  · cases l' <;> simp [isEntry] at h <;> simp [inZ, pastStore, widx, wE]
    omega
  · simp at h; obtain ⟨rfl, rfl⟩ := h; simp [inZ, pastStore, widx, wE]
  · simp at h; obtain ⟨rfl, rfl⟩ := h; simp [inZ, pastStore, widx, wE]
  · simp at h; obtain ⟨rfl, rfl⟩ := h; simp [inZ, pastStore, widx, wE]
  · simp at h


/-! ## The invariant -/

structure Inv (N G : Nat) (s : State (proto N G)) : Prop where
  thr : ∀ u, u ∉ s.threads → s.loc u = L.idle
  idx : ∀ u i, widx (s.loc u) = some i → i < N
  eLe : ∀ u i e, wE (s.loc u) = some (i, e) → e ≤ s.mem (fEpoch (i / G))
  run0 : ∀ t i, pastStore (s.loc t) i → i < N → s.mem (fRun i) = 0
  zone : ∀ t u i e, inZ (s.loc u) = some (i, e) → pastBump (numGroups N G) (s.loc t) (i / G) →
    e < s.mem (fEpoch (i / G))
  pk : ∀ u f b, s.parked u = some (f, b) →
    u ∈ s.threads ∧ ∃ i e, s.loc u = L.wWait i e ∧ f = fEpoch (i / G)
  noPk : s.threads.length < intMax → ∀ t g u b, pastWake (numGroups N G) (s.loc t) g →
    s.parked u ≠ some (fEpoch g, b)

theorem Inv.init : Inv N G (init N G) := by
  refine ⟨fun _ _ => rfl, ?_, ?_, ?_, ?_, ?_, ?_⟩ <;> intros <;>
    simp_all [Wake.init, initState, widx, wE, pastStore, inZ, pastWake]

theorem Inv.mem_threads {s : State (proto N G)} (I : Inv N G s) {t : TId}
    (h : s.loc t ≠ L.idle) : t ∈ s.threads := by
  apply Classical.byContradiction
  intro hn
  exact h (I.thr t hn)

/-- one thread executes an operation that returns `r`, memory changes from `s.mem` to `mem'`,
the set of parked threads shrinks to `pk'` (which does not contain the thread) -/
theorem Inv.upd {s : State (proto N G)} (I : Inv N G s) {t : TId} {r : Int} {mem' : Fld → Int}
    {pk' : TId → Option (Fld × Bool)}
    (ht : t ∈ s.threads) (hpk : ∀ u p, pk' u = some p → s.parked u = some p ∧ u ≠ t)
    (hE : ∀ g, mem' (fEpoch g) = s.mem (fEpoch g) ∨ mem' (fEpoch g) = s.mem (fEpoch g) + 1)
    (hR : ∀ i, mem' (fRun i) = s.mem (fRun i) ∨ mem' (fRun i) = 0)
    (hload : ∀ f, op N G (s.loc t) = some (.load f) → r = s.mem f)
    (hbump : ∀ g, s.loc t = L.aBump g → mem' (fEpoch g) = s.mem (fEpoch g) + 1)
    (hstore : ∀ i o, s.loc t = L.sStore i o → mem' (fRun i) = 0)
    (hnw : ∀ g, s.loc t = L.aWake g → s.threads.length < intMax → ∀ u b, pk' u ≠ some (fEpoch g, b)) :
    Inv N G { mem := mem', loc := fun u => if u = t then cont N G (s.loc t) r else s.loc u,
              parked := pk', threads := s.threads } := by
  have mono : ∀ g, s.mem (fEpoch g) ≤ mem' (fEpoch g) := fun g => by
    rcases hE g with h | h <;> omega
  have zero : ∀ i, s.mem (fRun i) = 0 → mem' (fRun i) = 0 := fun i h => by
    rcases hR i with h' | h' <;> omega
  refine ⟨?_, ?_, ?_, ?_, ?_, ?_, ?_⟩
  · intro u hu
    have : u ≠ t := fun h => hu (h ▸ ht)
    simp only [if_neg this]
    exact I.thr u hu
  · intro u i h
    by_cases hut : u = t
    · subst hut; simp only [if_pos] at h; exact I.idx u i (widx_cont h)
    · simp only [if_neg hut] at h; exact I.idx u i h
  · intro u i e h
    show e ≤ mem' (fEpoch (i / G))
    by_cases hut : u = t
    · subst hut; simp only [if_pos] at h
      rcases wE_cont h with h1 | ⟨h1, h2⟩
      · exact Int.le_trans (I.eLe u i e h1) (mono _)
      · have := hload _ h1
        have := mono (i / G)
        omega
    · simp only [if_neg hut] at h
      exact Int.le_trans (I.eLe u i e h) (mono _)
  · intro t' i h hi
    show mem' (fRun i) = 0
    by_cases htt : t' = t
    · subst htt; simp only [if_pos] at h
      rcases pastStore_cont h hi with h1 | ⟨o, h1⟩
      · exact zero i (I.run0 t' i h1 hi)
      · exact hstore i o h1
    · simp only [if_neg htt] at h
      exact zero i (I.run0 t' i h hi)
  · intro t' u i e hz hb
    show e < mem' (fEpoch (i / G))
    by_cases hut : u = t
    · subst hut; simp only [if_pos] at hz
      have htt : t' ≠ u := by
        intro h; subst h
        simp only [if_pos] at hb
        have h1 := pastStore_widx (pastBump_pastStore hb 0)
        have h2 := wE_widx (inZ_wE hz)
        rw [h1] at h2; cases h2
      simp only [if_neg htt] at hb
      rcases inZ_cont hz with ⟨h1, _⟩ | ⟨h1, h2⟩
      · exact Int.lt_of_lt_of_le (I.zone t' u i e h1 hb) (mono _)
      · exfalso
        have hi : i < N := I.idx u i (by rw [h1]; rfl)
        have h0 := I.run0 t' i (pastBump_pastStore hb i) hi
        have := hload (fRun i) (by rw [h1]; rfl)
        omega
    · simp only [if_neg hut] at hz
      by_cases htt : t' = t
      · subst htt; simp only [if_pos] at hb
        rcases pastBump_cont hb with h1 | h1
        · exact Int.lt_of_lt_of_le (I.zone t' u i e hz h1) (mono _)
        · have := hbump _ h1
          have := I.eLe u i e (inZ_wE hz)
          omega
      · simp only [if_neg htt] at hb
        exact Int.lt_of_lt_of_le (I.zone t' u i e hz hb) (mono _)
  · intro u f b h
    obtain ⟨h1, hut⟩ := hpk u _ h
    simp only [if_neg hut]
    exact I.pk u f b h1
  · intro hlen t' g u b h hp
    by_cases htt : t' = t
    · subst htt; simp only [if_pos] at h
      rcases pastWake_cont h with h1 | h1
      · exact I.noPk hlen t' g u b h1 (hpk u _ hp).1
      · exact hnw g h1 hlen u b hp
    · simp only [if_neg htt] at h
      exact I.noPk hlen t' g u b h (hpk u _ hp).1


theorem op_ne_none_mem {s : State (proto N G)} (I : Inv N G s) {t : TId} {o : AOp}
    (h : op N G (s.loc t) = some o) : t ∈ s.threads := by
  apply I.mem_threads
  intro hl
  rw [hl] at h
  cases h

theorem Inv.step {s s' : State (proto N G)} (I : Inv N G s) {t : TId}
    (h : exec s (.step t) = some s') : Inv N G s' := by
  obtain ⟨hpt, o, ho, hc⟩ := exec_step_gen h
  replace ho : op N G (s.loc t) = some o := ho
  have ht : t ∈ s.threads := op_ne_none_mem I ho
  have hpk : ∀ u p, s.parked u = some p → s.parked u = some p ∧ u ≠ t := fun u p hu =>
    ⟨hu, fun h' => by rw [h', hpt] at hu; cases hu⟩
  rcases hc with ⟨f, e, b, rfl, hm, rfl⟩ | ⟨f, e, b, rfl, hm, rfl⟩ | ⟨r, hm, rfl⟩ | ⟨r, f, v, hm, rfl⟩
  · -- the futex wait blocks
    obtain ⟨i, hl, rfl, rfl⟩ := op_fwait ho
    refine ⟨I.thr, I.idx, I.eLe, I.run0, I.zone, ?_, ?_⟩
    · intro u f b hu
      simp only [setParked_parked, setParked_loc, setParked_threads] at hu ⊢
      by_cases hut : u = t
      · subst hut
        rw [if_pos rfl] at hu
        cases hu
        exact ⟨ht, i, e, hl, rfl⟩
      · rw [if_neg hut] at hu
        exact I.pk u f b hu
    · intro hlen t' g u b hw
      simp only [setParked_parked, setParked_loc, setParked_threads] at hlen hw ⊢
      by_cases hut : u = t
      · subst hut
        rw [if_pos rfl]
        intro heq
        have hg : i / G = g := by
          have := (Option.some.inj heq)
          exact fEpoch_inj.mp (congrArg Prod.fst this)
        have := I.zone t' u i e (by rw [hl]; rfl) (hg ▸ pastWake_pastBump hw)
        omega
      · rw [if_neg hut]
        exact I.noPk hlen t' g u b hw
  · -- the futex wait returns EAGAIN
    have := I.upd (r := rAgain) (mem' := s.mem) (pk' := s.parked) ht hpk (fun _ => Or.inl rfl) (fun _ => Or.inl rfl)
      (fun f' hf => by rw [ho] at hf; cases hf) (fun g hg => by rw [hg] at ho; cases ho)
      (fun i o hg => by rw [hg] at ho; cases ho) (fun g hg => by rw [hg] at ho; cases ho)
    exact this
  · -- an operation that does not write
    have hr : ∀ f', o = .load f' → r = s.mem f' := by
      intro f' hf; subst hf; simp [memEffect] at hm; exact hm.symm
    have := I.upd (r := r) (mem' := s.mem) (pk' := s.parked) ht hpk (fun _ => Or.inl rfl) (fun _ => Or.inl rfl)
      (fun f' hf => hr f' (by rw [ho] at hf; exact Option.some.inj hf))
      (fun g hg => by rw [hg] at ho; cases ho; simp [memEffect] at hm)
      (fun i o hg => by rw [hg] at ho; cases ho; simp [memEffect] at hm)
      (fun g hg => by rw [hg] at ho; cases ho; simp [memEffect] at hm)
    exact this
  · -- an operation that writes `v` to `f`
    obtain ⟨hwE, hwR⟩ := op_write ho hm
    have := I.upd (r := r) (mem' := fun g => if g = f then v else s.mem g) (pk' := s.parked) ht hpk
      (fun g => by
        by_cases hg : fEpoch g = f
        · right; simp only [if_pos hg]; rw [hg]; exact (hwE g hg.symm).1
        · left; simp only [if_neg hg])
      (fun i => by
        by_cases hg : fRun i = f
        · right; simp only [if_pos hg]; exact (hwR i hg.symm).1
        · left; simp only [if_neg hg])
      (fun f' hf => by rw [ho] at hf; cases hf; simp [memEffect] at hm)
      (fun g hg => by
        rw [hg] at ho
        have : o = .fadd (fEpoch g) 1 := (Option.some.inj ho).symm
        subst this
        simp [memEffect] at hm
        obtain ⟨_, rfl, rfl⟩ := hm
        simp)
      (fun i b hg => by
        rw [hg] at ho
        have : o = .store (fRun i) 0 := (Option.some.inj ho).symm
        subst this
        simp [memEffect] at hm
        obtain ⟨_, rfl, rfl⟩ := hm
        simp)
      (fun g hg => by rw [hg] at ho; cases ho; simp [memEffect] at hm)
    exact this


/-- a parked thread leaves the futex (woken, timed out, or spuriously) -/
theorem Inv.unpark1 {s : State (proto N G)} (I : Inv N G s) {u : TId} {p : Fld × Bool} {r : Int}
    (hp : s.parked u = some p) :
    Inv N G (setLoc (setParked s u none) u (cont N G (s.loc u) r)) := by
  obtain ⟨hu, i, e, hl, _⟩ := I.pk u p.1 p.2 hp
  have := I.upd (t := u) (r := r) (mem' := s.mem)
    (pk' := fun v => if v = u then none else s.parked v) hu
    (fun v q hv => by
      by_cases hvu : v = u
      · simp [hvu] at hv
      · simp only [if_neg hvu] at hv; exact ⟨hv, hvu⟩)
    (fun _ => Or.inl rfl) (fun _ => Or.inl rfl)
    (fun f hf => by rw [hl] at hf; cases hf) (fun g hg => by rw [hl] at hg; cases hg)
    (fun i o hg => by rw [hl] at hg; cases hg) (fun g hg => by rw [hl] at hg; cases hg)
  exact this

theorem Inv.unparkAll {s : State (proto N G)} (I : Inv N G s) (ws : List TId) (hnd : ws.Nodup)
    (hp : ∀ u ∈ ws, ∃ p, s.parked u = some p) : Inv N G (unparkAll s ws) := by
  induction ws generalizing s with
  | nil => exact I
  | cons u us ih =>
    obtain ⟨hu, hnd'⟩ := List.nodup_cons.mp hnd
    obtain ⟨p, hpu⟩ := hp u List.mem_cons_self
    simp only [Conc.unparkAll]
    apply ih (I.unpark1 (r := rWoken) hpu) hnd'
    intro v hv
    obtain ⟨q, hq⟩ := hp v (List.mem_cons_of_mem _ hv)
    refine ⟨q, ?_⟩
    have : v ≠ u := fun h => hu (h ▸ hv)
    simp [this, hq]

theorem Inv.wake {s s' : State (proto N G)} (I : Inv N G s) {t : TId} {ws : List TId}
    (h : exec s (.wake t ws) = some s') : Inv N G s' := by
  obtain ⟨hpt, f, n, ho, hnd, hsub, hle, hall, htw, rfl⟩ := exec_wake_gen h
  replace ho : op N G (s.loc t) = some (.fwake f n) := ho
  have ht : t ∈ s.threads := op_ne_none_mem I ho
  have hpo : ∀ u ∈ ws, u ∈ s.threads ∧ ∃ b, s.parked u = some (f, b) := fun u hu =>
    (mem_parkedOn s f u).mp (hsub u hu)
  have I1 : Inv N G (Conc.unparkAll s ws) :=
    I.unparkAll ws hnd (fun u hu => ⟨_, (hpo u hu).2.choose_spec⟩)
  have hlt : (Conc.unparkAll s ws).loc t = s.loc t := by
    rw [unparkAll_loc s ws hnd t, if_neg htw]
  have := I1.upd (t := t) (r := (ws.length : Int)) (mem' := (Conc.unparkAll s ws).mem)
    (pk' := (Conc.unparkAll s ws).parked) (by simpa using ht)
    (fun u p hu => ⟨hu, fun h' => by
      rw [h', unparkAll_parked, if_neg htw, hpt] at hu; cases hu⟩)
    (fun _ => Or.inl rfl) (fun _ => Or.inl rfl)
    (fun f' hf => by rw [hlt, ho] at hf; cases hf)
    (fun g hg => by rw [hlt] at hg; rw [hg] at ho; cases ho)
    (fun i o hg => by rw [hlt] at hg; rw [hg] at ho; cases ho)
    (fun g hg hlen u b hu => by
      rw [hlt] at hg
      rw [hg] at ho
      have hfn : fEpoch g = f ∧ intMax = n := by
        simp only [op, Option.some.injEq, AOp.fwake.injEq] at ho; exact ho
      obtain ⟨rfl, rfl⟩ := hfn
      rw [unparkAll_threads] at hlen
      rw [unparkAll_parked] at hu
      by_cases huw : u ∈ ws
      · rw [if_pos huw] at hu; cases hu
      · rw [if_neg huw] at hu
        have hlen' : ws.length < intMax :=
          Nat.lt_of_le_of_lt (List.Nodup.length_le_of_subset hnd (fun v hv => (hpo v hv).1)) hlen
        exact huw (hall hlen' u ((mem_parkedOn s _ u).mpr ⟨(I.pk u _ _ hu).1, b, hu⟩)))
  rw [hlt] at this
  exact this

theorem Inv.unpark {s s' : State (proto N G)} (I : Inv N G s) {t : TId}
    (h : exec s (.timeout t) = some s' ∨ exec s (.spurious t) = some s') : Inv N G s' := by
  obtain ⟨f, b, r, hp, rfl⟩ := exec_unpark_gen h
  exact I.unpark1 hp

theorem Inv.call {s s' : State (proto N G)} (I : Inv N G s) {t : TId} {l : L}
    (h : exec s (.call t l) = some s') : Inv N G s' := by
  obtain ⟨hpt, hop, hent, hmem, hpk, hloc, hthr⟩ := exec_call_gen h
  replace hent : entry N G false (s.loc t) l = true := hent
  obtain ⟨hz, hps, hwi, hwe, _, _, _⟩ := entry_class hent
  have hsub : ∀ u, u ∈ s.threads → u ∈ s'.threads := by
    intro u hu; rw [hthr]; split
    · exact hu
    · exact List.mem_cons_of_mem _ hu
  have htm : t ∈ s'.threads := by
    rw [hthr]; split
    · assumption
    · exact List.mem_cons_self
  have hlen : s.threads.length ≤ s'.threads.length := exec_threads_length h
  refine ⟨?_, ?_, ?_, ?_, ?_, ?_, ?_⟩
  · intro u hu
    have hut : u ≠ t := fun h' => hu (h' ▸ htm)
    rw [hloc, if_neg hut]
    exact I.thr u (fun h' => hu (hsub u h'))
  · intro u i hi
    rw [hloc] at hi
    by_cases hut : u = t
    · rw [if_pos hut] at hi
      rcases hwi i hi with h1 | h1
      · exact h1
      · exact I.idx t i h1
    · rw [if_neg hut] at hi; exact I.idx u i hi
  · intro u i e he
    rw [hloc] at he; rw [hmem]
    by_cases hut : u = t
    · rw [if_pos hut] at he; exact I.eLe t i e (hwe _ he)
    · rw [if_neg hut] at he; exact I.eLe u i e he
  · intro t' i hp hi
    rw [hloc] at hp; rw [hmem]
    by_cases htt : t' = t
    · rw [if_pos htt] at hp; exact absurd hp (hps i)
    · rw [if_neg htt] at hp; exact I.run0 t' i hp hi
  · intro t' u i e hz' hb
    rw [hloc] at hz' hb; rw [hmem]
    by_cases hut : u = t
    · rw [if_pos hut, hz] at hz'; cases hz'
    · rw [if_neg hut] at hz'
      by_cases htt : t' = t
      · rw [if_pos htt] at hb; exact absurd (pastBump_pastStore hb 0) (hps 0)
      · rw [if_neg htt] at hb; exact I.zone t' u i e hz' hb
  · intro u f b hp
    rw [hpk] at hp
    have hut : u ≠ t := fun h' => by rw [h', hpt] at hp; cases hp
    rw [hloc, if_neg hut]
    obtain ⟨h1, h2⟩ := I.pk u f b hp
    exact ⟨hsub u h1, h2⟩
  · intro hl t' g u b hw
    rw [hloc] at hw; rw [hpk]
    by_cases htt : t' = t
    · rw [if_pos htt] at hw
      exact absurd (pastBump_pastStore (pastWake_pastBump hw) 0) (hps 0)
    · rw [if_neg htt] at hw
      exact I.noPk (Nat.lt_of_le_of_lt hlen hl) t' g u b hw

theorem Inv.exec {s s' : State (proto N G)} (I : Inv N G s) (a : Act (proto N G))
    (h : exec s a = some s') : Inv N G s' := by
  cases a with
  | step t => exact I.step h
  | wake t ws => exact I.wake h
  | timeout t => exact I.unpark (Or.inl h)
  | spurious t => exact I.unpark (Or.inr h)
  | call t l => exact I.call h

theorem inv_reachable {s : State (proto N G)} (h : Reachable (init N G) s) : Inv N G s :=
  invariant (Inv N G) Inv.init (fun _ a _ I he => I.exec a he) s h

end

end Dispenso.Wake
