import DispensoVerif.Proofs.SchedMeas

/-!
Preservation of the counter invariants (`workRemaining_`, queue bookkeeping, per-set outstanding
counter) by every `Step`.
-/
set_option linter.unusedSimpArgs false

namespace Dispenso.Sched

section
variable {s s' : St} {t : Nat} {f : Frame} {rest : List Frame} {e : Ev}

/-! ## accounting (C08) -/

theorem acc_step (hw : WF' s.tids s.thr) (hf : FrameOK s.sub f) (hs : norm (s.thr t) = f :: rest)
    (ha : s.pending = tot mCredit s + s.tierItems.length + tot mUnacc s)
    (h : Step s t f rest e s') :
    s'.pending = tot mCredit s' + s'.tierItems.length + tot mUnacc s' := by
  obtain ⟨_, hcan, hoth, _, _⟩ := hf
  simp only [tot] at ha
  cases h <;> (try simp only [settled_iff] at *) <;>
   simp [tot, totalT_upd hw, mCredit, mUnacc, placed, *] <;> (try omega)
  case take hm => have := List.length_pos_of_mem hm; omega


/-! ## queue bookkeeping -/

theorem que_step (hw : WF' s.tids s.thr) (hf : FrameOK s.sub f) (hs : norm (s.thr t) = f :: rest)
    (ha : (s.queuedSets.length : Int) = s.tierItems.length + tot mTook s)
    (h : Step s t f rest e s') :
    (s'.queuedSets.length : Int) = s'.tierItems.length + tot mTook s' := by
  obtain ⟨_, hcan, _, _, _⟩ := hf
  simp only [tot] at ha
  cases h <;> (try simp only [settled_iff] at *) <;>
   simp [tot, totalT_upd hw, mTook, placed, *] <;> (try omega)
  case beginTook hq => have := List.length_pos_of_mem hq; omega
  case take hm => have := List.length_pos_of_mem hm; omega
  case guardTookSkip hq _ => have := List.length_pos_of_mem hq; omega
  case guardTookPass hq _ => have := List.length_pos_of_mem hq; omega


/-! ## per-set outstanding counter (C02) -/

theorem out_step (hw : WF' s.tids s.thr) (hf : FrameOK s.sub f) (hs : norm (s.thr t) = f :: rest)
    (S : Nat) (hS : S ≠ 0)
    (ha : s.outstanding S = tot (mTs S) s + s.queuedSets.count S + tot (mGuarded S) s +
      tot (mRunPk S) s + tot (mPendDec S) s)
    (h : Step s t f rest e s') :
    s'.outstanding S = tot (mTs S) s' + s'.queuedSets.count S + tot (mGuarded S) s' +
      tot (mRunPk S) s' + tot (mPendDec S) s' := by
  obtain ⟨f1, hcan, hoth, _, _⟩ := hf
  have hset : ∀ id st, f.resv = [(id, st)] → f.set = st :=
    fun id st h => (f1 (id, st) (by simp [h])).2.symm
  simp only [tot] at ha
  cases h
  case push tier n hk hr hn1 hn2 hts hall =>
    have hcm := count_moved hall hS
    simp only [placed]
    generalize hmv : (f.resv.take n).map Prod.snd = moved at *
    generalize hnts : (moved.filter (· ≠ 0)).length = nts at *
    meas_fin hw
  case guardTookSkip set hp h0 hq hpd =>
    have := List.count_pos_iff.2 hq
    meas_fin hw
  case guardTookPass set hc hp h0 hq hpd =>
    have := List.count_pos_iff.2 hq
    meas_fin hw
  case guardInlSkip set id0 hp hr h0 htc hpd =>
    have := hset _ _ hr
    meas_fin hw
  case beginInlGuarded id st hb hp hr hfq htc =>
    have := hset _ _ hr
    meas_fin hw
  all_goals meas_fin hw


end
end Dispenso.Sched
