import DispensoVerif.Core.HB
import DispensoVerif.Proofs.AsyncReq
/-
C10 for `AsyncRequest`: the stored object (field 1) is plain data, the state word (field 0) is the
only synchronisation.  Invariant on (protocol state, detector state): a thread that holds the
object (between its claiming CAS and its releasing store) has every earlier access of the object in
its happens-before past; while nobody holds it, the release sequence on the state word carries every
earlier access.  Core Lean only.
-/
namespace Dispenso.AsyncReq
open Dispenso.Conc Dispenso.HB

/-- the object is plain data; `o` is the table of declared orders -/
def hbSpec (o : L → Nat) : Spec proto := { plain := fun f => f == 1, ord := o }

/-- the orders race freedom of the object needs (a sub-table of `binding.reqOrder`) -/
def need : L → Nat
  | .teCas _ => 2
  | .tePublish => 3
  | .guCas => 2
  | .guReset _ => 3
  | _ => 0

structure HJ (s : State proto) (d : D) : Prop where
  inv : Inv s
  hold : ∀ t, holder (s.loc t) = true → d.cA t 1 = true
  msg : s.mem 0 ≠ 2 → d.mA 0 1 = true

theorem hj_init : HJ init D.init :=
  ⟨inv_init, fun _ _ => rfl, fun _ => rfl⟩

theorem hj_step (o : L → Nat) (ho : ∀ l, ordGE (need l) (o l) = true) {s s' : State proto} {d : D}
    {a : Act proto} (hJ : HJ s d) (he : exec s a = some s') :
    ∃ d', d.run (hevl (hbSpec o) s a) = some d' ∧ HJ s' d' := by
  have hI' : Inv s' := inv_step hJ.inv he
  obtain ⟨hI, hold, msg⟩ := hJ
  rcases exec_inv hI.np he with ⟨t, l, rfl, hidle, hent, hm, hp, hloc⟩ | ⟨t, l', rfl, hs, hp, hloc⟩
  · refine ⟨d, by simp [hevl, hevOf], hI', ?_, ?_⟩
    · intro u hu
      rw [hloc] at hu
      by_cases e : u = t
      · subst e
        simp only [if_true] at hu
        cases l <;> simp_all [isEntry, holder]
      · simp only [e] at hu
        exact hold u hu
    · rw [hm]; exact msg
  · have hheld := hI.held
    have huniq := hI.uniq
    have hlk := hI.locOk t
    have acq1 := isAcq_of_ordGE (ho (.teCas 0))
    have acq2 := isAcq_of_ordGE (ho .guCas)
    have rel1 := isRel_of_ordGE (ho .tePublish)
    have rel2 := isRel_of_ordGE (ho (.guReset 0))
    simp only [need] at acq1 acq2 rel1 rel2
    generalize hl : (s.loc t : L) = l at hs hlk
    generalize hm : s'.mem = m' at hs
    have hm0 : s'.mem 0 = m' 0 := by rw [hm]
    cases hs
    case ruCasOk h0 =>
      refine ⟨_, by simp [hevl, hevOf, proto, hl, op, evOfOp, hbSpec, h0, kNone]; rfl, hI', ?_, ?_⟩
      · intro u hu
        rw [hloc] at hu
        by_cases e : u = t
        · simp [e, holder] at hu
        · simp only [e] at hu
          simp [e, hold u hu]
      · intro _
        simp [msg (by omega)]
    case ruCasFail h0 =>
      refine ⟨_, by simp [hevl, hevOf, proto, hl, op, evOfOp, hbSpec, h0, kNone]; rfl, hI', ?_, ?_⟩
      · intro u hu
        rw [hloc] at hu
        by_cases e : u = t
        · simp [e, holder] at hu
        · simp only [e] at hu
          simp [e, hold u hu]
      · intro h2
        rw [hm0] at h2
        exact msg h2
    case urLoad =>
      refine ⟨_, by simp [hevl, hevOf, proto, hl, op, evOfOp, hbSpec]; rfl, hI', ?_, ?_⟩
      · intro u hu
        rw [hloc] at hu
        by_cases e : u = t
        · simp [e, holder] at hu
        · simp only [e] at hu
          simp [e, hold u hu]
      · intro h2
        rw [hm0] at h2
        exact msg h2
    case teCasOk v h1 =>
      refine ⟨_, by simp [hevl, hevOf, proto, hl, op, evOfOp, hbSpec, h1, kNeedsUpdate]; rfl, hI', ?_, ?_⟩
      · intro u hu
        rw [hloc] at hu
        by_cases e : u = t
        · subst e
          have a1 : isAcq (o (.teCas v)) = true := isAcq_of_ordGE (ho (.teCas v)) rfl
          simp [a1, msg (by omega)]
        · simp only [e] at hu
          simp [e, hold u hu]
      · intro h2; rw [hm0] at h2; simp at h2
    case teCasFail v h1 =>
      refine ⟨_, by simp [hevl, hevOf, proto, hl, op, evOfOp, hbSpec, h1, kNeedsUpdate]; rfl, hI', ?_, ?_⟩
      · intro u hu
        rw [hloc] at hu
        by_cases e : u = t
        · simp [e, holder] at hu
        · simp only [e] at hu
          simp [e, hold u hu]
      · intro h2
        rw [hm0] at h2
        exact msg h2
    case teWrite v =>
      have hc : d.cA t 1 = true := hold t (by rw [hl]; rfl)
      refine ⟨_, by simp [hevl, hevOf, proto, hl, op, evOfOp, hbSpec, D.step, hc]; rfl, hI', ?_, ?_⟩
      · intro u hu
        rw [hloc] at hu
        by_cases e : u = t
        · simp [e]
        · simp only [e] at hu
          exact absurd (huniq u t hu (by rw [hl]; rfl)) e
      · intro h2
        have := hheld t (by rw [hl]; rfl)
        rw [hm0] at h2
        simp at h2
        exact absurd this h2
    case tePublish =>
      have hc : d.cA t 1 = true := hold t (by rw [hl]; rfl)
      refine ⟨_, by simp [hevl, hevOf, proto, hl, op, evOfOp, hbSpec]; rfl, hI', ?_, ?_⟩
      · intro u hu
        rw [hloc] at hu
        by_cases e : u = t
        · simp [e, holder] at hu
        · simp only [e] at hu
          exact hold u hu
      · intro _
        simp [rel1 rfl, hc]
    case guCasOk h3 =>
      refine ⟨_, by simp [hevl, hevOf, proto, hl, op, evOfOp, hbSpec, h3, kReady]; rfl, hI', ?_, ?_⟩
      · intro u hu
        rw [hloc] at hu
        by_cases e : u = t
        · subst e
          simp [acq2 rfl, msg (by omega)]
        · simp only [e] at hu
          simp [e, hold u hu]
      · intro h2; rw [hm0] at h2; simp at h2
    case guCasFail h3 =>
      refine ⟨_, by simp [hevl, hevOf, proto, hl, op, evOfOp, hbSpec, h3, kReady]; rfl, hI', ?_, ?_⟩
      · intro u hu
        rw [hloc] at hu
        by_cases e : u = t
        · simp [e, holder] at hu
        · simp only [e] at hu
          simp [e, hold u hu]
      · intro h2
        rw [hm0] at h2
        exact msg h2
    case guTake =>
      have hc : d.cA t 1 = true := hold t (by rw [hl]; rfl)
      refine ⟨_, by simp [hevl, hevOf, proto, hl, op, evOfOp, hbSpec, D.step, hc]; rfl, hI', ?_, ?_⟩
      · intro u hu
        rw [hloc] at hu
        by_cases e : u = t
        · simp [e]
        · simp only [e] at hu
          exact absurd (huniq u t hu (by rw [hl]; rfl)) e
      · intro h2
        have := hheld t (by rw [hl]; rfl)
        rw [hm0] at h2
        simp at h2
        exact absurd this h2
    case guReset v =>
      have hc : d.cA t 1 = true := hold t (by rw [hl]; rfl)
      have r2 : isRel (o (.guReset v)) = true := isRel_of_ordGE (ho (.guReset v)) rfl
      refine ⟨_, by simp [hevl, hevOf, proto, hl, op, evOfOp, hbSpec]; rfl, hI', ?_, ?_⟩
      · intro u hu
        rw [hloc] at hu
        by_cases e : u = t
        · simp [e, holder] at hu
        · simp only [e] at hu
          exact hold u hu
      · intro _
        simp [r2, hc]
    case guLoadOk h3 => simp [LocOk] at hlk
    case guLoadFail h3 => simp [LocOk] at hlk

/-- every execution of the AsyncRequest model, with any declared orders at least `need`, is free of
data races on the stored object -/
theorem race_free (o : L → Nat) (ho : ∀ l, ordGE (need l) (o l) = true)
    (acts : List (Act proto)) (s : State proto) (tr : Trace)
    (hr : runH (hbSpec o) init acts = some (s, tr)) : ¬ Race tr :=
  race_free_of_inv (hbSpec o) HJ (fun _ => True)
    (fun _ _ _ _ hJ _ he => hj_step o ho hJ he) init hj_init acts (fun _ _ => trivial) s tr hr

end Dispenso.AsyncReq
