import DispensoVerif.Model.Sched
import Mathlib.Tactic.SplitIfs

/-!
Framework for the proofs about the scheduling ledger (`Model/Sched.lean`):
reachability, the thread-stack representation (`norm`, `ins`, `upd`), sums of per-frame measures
over all frames (`totalT`) and their behaviour under a stack update, per-stack predicates.
-/
namespace Dispenso.Sched

/-! ## reachability -/

/-- reachable from the initial ledger by an accepted trace -/
def Reach (s : St) : Prop := ∃ tr, run (St.init 0) tr = some s

theorem run_cons (s : St) (t : Nat) (e : Ev) (tr : List (Nat × Ev)) :
    run s ((t, e) :: tr) = (step s t e).bind (fun s' => run s' tr) := by
  simp only [run]
  cases step s t e <;> rfl

theorem run_append (s : St) (a b : List (Nat × Ev)) :
    run s (a ++ b) = (run s a).bind (fun s' => run s' b) := by
  induction a generalizing s with
  | nil => simp [run]
  | cons x a ih =>
    obtain ⟨t, e⟩ := x
    simp only [List.cons_append, run_cons]
    cases h : step s t e with
    | none => simp
    | some s' => simp [ih]

theorem run_snoc (s : St) (tr : List (Nat × Ev)) (t : Nat) (e : Ev) :
    run s (tr ++ [(t, e)]) = (run s tr).bind (fun s' => step s' t e) := by
  rw [run_append]
  congr
  funext s'
  simp only [run_cons]
  cases step s' t e <;> rfl

theorem Reach.init : Reach (St.init 0) := ⟨[], rfl⟩

theorem Reach.next {s s' : St} {t : Nat} {e : Ev} (h : Reach s) (hs : step s t e = some s') :
    Reach s' := by
  obtain ⟨tr, htr⟩ := h
  exact ⟨tr ++ [(t, e)], by rw [run_snoc, htr]; exact hs⟩

theorem run_induct {P : St → Prop}
    (hstep : ∀ s t e s', P s → step s t e = some s' → P s')
    (tr : List (Nat × Ev)) : ∀ s0 s, P s0 → run s0 tr = some s → P s := by
  induction tr with
  | nil => intro s0 s h0 h; simp only [run, Option.some.injEq] at h; exact h ▸ h0
  | cons x tr ih =>
    obtain ⟨t, e⟩ := x
    intro s0 s h0 h
    rw [run_cons] at h
    cases h1 : step s0 t e with
    | none => rw [h1] at h; simp at h
    | some s1 =>
      rw [h1] at h
      exact ih s1 s (hstep s0 t e s1 h0 h1) h

/-- induction over reachable states -/
theorem Reach.induct {P : St → Prop} (h0 : P (St.init 0))
    (hstep : ∀ s t e s', Reach s → P s → Sched.step s t e = some s' → P s') :
    ∀ s, Reach s → P s := by
  intro s ⟨tr, htr⟩
  have := run_induct (P := fun s => Reach s ∧ P s)
    (fun s t e s' h hs => ⟨h.1.next hs, hstep s t e s' h.1 h.2 hs⟩) tr (St.init 0) s
    ⟨Reach.init, h0⟩ htr
  exact this.2

/-! ## stacks -/

/-- the frame stack with the implicit base frame made explicit -/
def norm (l : List Frame) : List Frame := match l with
  | [] => [{}]
  | l => l

/-- insertion of a thread id into the list of known threads -/
def ins (t : Nat) (l : List Nat) : List Nat := if t ∈ l then l else t :: l

theorem stack_eq_norm (s : St) (t : Nat) : s.stack t = norm (s.thr t) := rfl
@[simp] theorem norm_nil : norm [] = [{}] := rfl
@[simp] theorem norm_cons (a : Frame) (l : List Frame) : norm (a :: l) = a :: l := rfl
theorem norm_exists (l : List Frame) : ∃ f rest, norm l = f :: rest := by
  cases l with
  | nil => exact ⟨_, _, rfl⟩
  | cons a l => exact ⟨a, l, rfl⟩

@[simp] theorem upd_same {α} (f : Nat → α) (k : Nat) (v : α) : upd f k v k = v := by simp [upd]
theorem upd_apply {α} (f : Nat → α) (k : Nat) (v : α) (x : Nat) :
    upd f k v x = if x = k then v else f x := rfl
@[simp] theorem upd_ne {α} (f : Nat → α) (k : Nat) (v : α) (x : Nat) (h : x ≠ k) :
    upd f k v x = f x := by simp [upd, h]
@[simp] theorem upd_upd {α} (f : Nat → α) (k : Nat) (v w : α) : upd (upd f k v) k w = upd f k w := by
  funext x; simp only [upd]; split <;> rfl

@[simp] theorem ins_ins (t : Nat) (l : List Nat) : ins t (ins t l) = ins t l := by
  unfold ins; split_ifs <;> simp_all

theorem mem_ins (t : Nat) (l : List Nat) : t ∈ ins t l := by
  unfold ins; split_ifs <;> simp_all

theorem mem_ins_iff (t u : Nat) (l : List Nat) : u ∈ ins t l ↔ u = t ∨ u ∈ l := by
  unfold ins; split_ifs with h
  · constructor
    · exact Or.inr
    · rintro (rfl | h') <;> assumption
  · simp

/-! ### projections of `setStack` -/
@[simp] theorem setStack_thr (s : St) (t l) : (s.setStack t l).thr = upd s.thr t l := rfl
@[simp] theorem setStack_tids (s : St) (t l) : (s.setStack t l).tids = ins t s.tids := rfl
@[simp] theorem setStack_tierItems (s : St) (t l) : (s.setStack t l).tierItems = s.tierItems := rfl
@[simp] theorem setStack_queuedSets (s : St) (t l) : (s.setStack t l).queuedSets = s.queuedSets := rfl
@[simp] theorem setStack_pending (s : St) (t l) : (s.setStack t l).pending = s.pending := rfl
@[simp] theorem setStack_outstanding (s : St) (t l) : (s.setStack t l).outstanding = s.outstanding := rfl
@[simp] theorem setStack_cancelled (s : St) (t l) : (s.setStack t l).cancelled = s.cancelled := rfl
@[simp] theorem setStack_captured (s : St) (t l) : (s.setStack t l).captured = s.captured := rfl
@[simp] theorem setStack_sub (s : St) (t l) : (s.setStack t l).sub = s.sub := rfl
@[simp] theorem setStack_begun (s : St) (t l) : (s.setStack t l).begun = s.begun := rfl
@[simp] theorem setStack_ended (s : St) (t l) : (s.setStack t l).ended = s.ended := rfl
@[simp] theorem setStack_skipped (s : St) (t l) : (s.setStack t l).skipped = s.skipped := rfl
@[simp] theorem setStack_dropped (s : St) (t l) : (s.setStack t l).dropped = s.dropped := rfl
@[simp] theorem setStack_nThreads (s : St) (t l) : (s.setStack t l).nThreads = s.nThreads := rfl
@[simp] theorem setStack_nRings (s : St) (t l) : (s.setStack t l).nRings = s.nRings := rfl
@[simp] theorem setStack_resizing (s : St) (t l) : (s.setStack t l).resizing = s.resizing := rfl
@[simp] theorem setStack_destroyed (s : St) (t l) : (s.setStack t l).destroyed = s.destroyed := rfl
@[simp] theorem setStack_captures (s : St) (t l) : (s.setStack t l).captures = s.captures := rfl
@[simp] theorem setStack_rethrows (s : St) (t l) : (s.setStack t l).rethrows = s.rethrows := rfl

@[simp] theorem setStack_setStack (s : St) (t : Nat) (l l' : List Frame) :
    (s.setStack t l).setStack t l' = s.setStack t l' := by
  cases s
  simp only [St.setStack, upd_upd]
  congr 1
  exact ins_ins _ _

/-! ## sums of frame measures -/

/-- a frame measure that vanishes on the (implicit) base frame -/
class Z0 (m : Frame → Nat) : Prop where
  z : m {} = 0

def sumL (m : Frame → Nat) (l : List Frame) : Nat := (l.map m).sum

@[simp] theorem sumL_nil (m : Frame → Nat) : sumL m [] = 0 := rfl
@[simp] theorem sumL_cons (m : Frame → Nat) (a : Frame) (l : List Frame) :
    sumL m (a :: l) = m a + sumL m l := by simp [sumL]
@[simp] theorem sumL_append (m : Frame → Nat) (a b : List Frame) :
    sumL m (a ++ b) = sumL m a + sumL m b := by simp [sumL]

theorem sumL_norm (m : Frame → Nat) [h : Z0 m] (l : List Frame) : sumL m (norm l) = sumL m l := by
  cases l with
  | nil => simp [h.z]
  | cons a l => rfl

theorem le_sumL (m : Frame → Nat) {l : List Frame} {f : Frame} (h : f ∈ l) : m f ≤ sumL m l := by
  induction l with
  | nil => cases h
  | cons a l ih =>
    simp only [sumL_cons]
    rcases List.mem_cons.1 h with rfl | h
    · omega
    · have := ih h; omega

theorem sumL_eq_zero (m : Frame → Nat) {l : List Frame} : sumL m l = 0 ↔ ∀ f ∈ l, m f = 0 := by
  induction l with
  | nil => simp
  | cons a l ih => simp [ih]

/-- sum of a frame measure over all frames of all known threads -/
def totalT (m : Frame → Nat) (tids : List Nat) (thr : Nat → List Frame) : Nat :=
  (tids.map fun t => sumL m (norm (thr t))).sum

/-- well-formedness of the thread table -/
structure WF' (tids : List Nat) (thr : Nat → List Frame) : Prop where
  nd : tids.Nodup
  out : ∀ t, t ∉ tids → thr t = []

theorem WF'_upd {tids thr} (h : WF' tids thr) (t : Nat) (l : List Frame) :
    WF' (ins t tids) (upd thr t l) := by
  constructor
  · unfold ins; split_ifs with ht
    · exact h.nd
    · exact List.nodup_cons.2 ⟨ht, h.nd⟩
  · intro u hu
    rw [mem_ins_iff] at hu
    have h1 : u ≠ t := fun e => hu (Or.inl e)
    have h2 : u ∉ tids := fun e => hu (Or.inr e)
    rw [upd_ne _ _ _ _ h1]
    exact h.out u h2

private theorem sum_map_upd (g g' : Nat → Nat) (t : Nat) (l : List Nat) (hnd : l.Nodup)
    (ht : t ∈ l) (hg : ∀ u, u ≠ t → g' u = g u) :
    (l.map g').sum + g t = (l.map g).sum + g' t := by
  induction l with
  | nil => cases ht
  | cons a l ih =>
    have hnd' := List.nodup_cons.1 hnd
    simp only [List.map_cons, List.sum_cons]
    by_cases hat : a = t
    · subst hat
      have : (l.map g').sum = (l.map g).sum := by
        congr 1
        apply List.map_congr_left
        intro u hu
        exact hg u (fun e => hnd'.1 (e ▸ hu))
      omega
    · have ht' : t ∈ l := by
        rcases List.mem_cons.1 ht with h | h
        · exact absurd h.symm hat
        · exact h
      have := ih hnd'.2 ht'
      have := hg a hat
      omega

private theorem sum_map_congr (g g' : Nat → Nat) (l : List Nat) (hg : ∀ u ∈ l, g' u = g u) :
    (l.map g').sum = (l.map g).sum := by
  congr 1
  exact List.map_congr_left hg

theorem totalT_upd_nat (m : Frame → Nat) [hz : Z0 m] {tids thr} (h : WF' tids thr) (t : Nat)
    (l : List Frame) :
    totalT m (ins t tids) (upd thr t l) + sumL m (norm (thr t)) = totalT m tids thr + sumL m l := by
  unfold totalT
  by_cases ht : t ∈ tids
  · have hi : ins t tids = tids := by simp [ins, ht]
    rw [hi]
    have := sum_map_upd (fun u => sumL m (norm (thr u))) (fun u => sumL m (norm (upd thr t l u))) t
      tids h.nd ht (fun u hu => by simp [upd_ne _ _ _ _ hu])
    simp only [upd_same, sumL_norm] at this
    simp only [sumL_norm]
    omega
  · have hi : ins t tids = t :: tids := by simp [ins, ht]
    rw [hi]
    simp only [List.map_cons, List.sum_cons, upd_same]
    have h1 : (tids.map fun u => sumL m (norm (upd thr t l u))).sum
        = (tids.map fun u => sumL m (norm (thr u))).sum :=
      sum_map_congr _ _ _ (fun u hu => by
        have : u ≠ t := fun e => ht (e ▸ hu)
        simp [upd_ne _ _ _ _ this])
    rw [h1, h.out t ht]
    simp only [sumL_norm, sumL_nil]
    omega

/-- the effect of replacing the stack of thread `t` on a total, as an integer equation -/
theorem totalT_upd {tids thr} (h : WF' tids thr) (m : Frame → Nat) [Z0 m] (t : Nat)
    (l : List Frame) :
    ((totalT m (ins t tids) (upd thr t l) : Nat) : Int)
      = (totalT m tids thr : Int) - (sumL m (norm (thr t)) : Int) + (sumL m l : Int) := by
  have := totalT_upd_nat m h t l
  omega

theorem totalT_eq_allFrames (m : Frame → Nat) (s : St) :
    totalT m s.tids s.thr = ((allFrames s).map m).sum := by
  unfold totalT allFrames
  induction s.tids with
  | nil => rfl
  | cons a l ih =>
    simp only [List.map_cons, List.sum_cons, List.flatMap_cons, List.map_append, List.sum_append, ih]
    rfl

theorem totalT_eq_sumL (m : Frame → Nat) (s : St) :
    totalT m s.tids s.thr = sumL m (allFrames s) := totalT_eq_allFrames m s

theorem le_totalT (m : Frame → Nat) (s : St) {f : Frame} (h : f ∈ allFrames s) :
    m f ≤ totalT m s.tids s.thr := by
  rw [totalT_eq_sumL]; exact le_sumL m h

theorem totalT_eq_zero (m : Frame → Nat) (s : St) :
    totalT m s.tids s.thr = 0 ↔ ∀ f ∈ allFrames s, m f = 0 := by
  rw [totalT_eq_sumL]; exact sumL_eq_zero m

theorem sumL_ind (P : Frame → Prop) [DecidablePred P] (l : List Frame) :
    sumL (fun f => if P f then 1 else 0) l = l.countP (fun f => decide (P f)) := by
  induction l with
  | nil => rfl
  | cons a l ih =>
    simp only [sumL_cons, ih, List.countP_cons]
    by_cases h : P a <;> simp [h] <;> omega

/-! ## per-stack predicates -/

/-- a predicate holds of the stack of every thread (known or not) -/
def AllStk (Q : List Frame → Prop) (thr : Nat → List Frame) : Prop := ∀ t, Q (norm (thr t))

theorem AllStk_upd {Q : List Frame → Prop} {thr} (h : AllStk Q thr) (t : Nat) (l : List Frame)
    (hl : Q (norm l)) : AllStk Q (upd thr t l) := by
  intro u
  by_cases hu : u = t
  · subst hu; simpa using hl
  · rw [upd_ne _ _ _ _ hu]; exact h u

theorem AllStk_mono {Q Q' : List Frame → Prop} {thr} (h : AllStk Q thr) (hq : ∀ l, Q l → Q' l) :
    AllStk Q' thr := fun t => hq _ (h t)

theorem mem_allFrames {s : St} {f : Frame} (h : f ∈ allFrames s) :
    ∃ t, t ∈ s.tids ∧ f ∈ norm (s.thr t) := by
  unfold allFrames at h
  obtain ⟨t, ht, hf⟩ := List.mem_flatMap.1 h
  exact ⟨t, ht, hf⟩

theorem mem_allFrames_of {s : St} {f : Frame} {t : Nat} (ht : t ∈ s.tids) (h : f ∈ norm (s.thr t)) :
    f ∈ allFrames s := by
  unfold allFrames
  exact List.mem_flatMap.2 ⟨t, ht, h⟩

end Dispenso.Sched
