import DispensoVerif.Proofs.HBLatch
/-
C10, Latch: the non-relaxed entries of the `needLa` table that a latch execution reaches are
necessary.  For each site the declared-order table of the source (`binding.reqOrder`) with THAT site
weakened to relaxed admits a contract-respecting execution (one participant, thread 0, owning
location 1; reader thread 1) with a data race on the client data (decided by evaluation).
-/
namespace Dispenso.Event
open Dispenso.Conc Dispenso.HB

inductive LSite where
  | ntStore | wLoad | twLoad | cdSub | awSub
  deriving DecidableEq, Repr

def lsiteOf : L → Option LSite
  | .ntStore _ => some .ntStore
  | .wLoad _ => some .wLoad
  | .twLoad => some .twLoad
  | .cdSub _ => some .cdSub
  | .awSub => some .awSub
  | _ => none

/-- the source's table with site `c` weakened to `memory_order_relaxed` -/
def lreqBut (c : LSite) : L → Nat := fun l => if lsiteOf l = some c then 0 else binding.reqOrder l

def partyB (parts : List TId) (owner : Fld → TId) (as : List (Act laP)) : Bool :=
  as.all fun a => match a with
    | .call t c => (match c.acc with
        | some (w, x) =>
          if w then decide (t ∈ parts) && decide (owner x = t)
          else (c.rd || (decide (t ∈ parts) && decide (owner x = t)))
        | none => match c.l with
          | .cdSub n => decide (n = 1) && decide (t ∈ parts)
          | .awSub => decide (t ∈ parts)
          | _ => true)
    | _ => true

theorem party_of_partyB {parts : List TId} {owner : Fld → TId} {as : List (Act laP)}
    (h : partyB parts owner as = true) : ∀ a ∈ as, Party parts owner a := by
  intro a ha t c e
  have := List.all_eq_true.1 h a ha
  subst e
  simp only at this
  refine ⟨fun w x hx => ?_, fun hn => ⟨fun n hv => ?_, fun hv => ?_⟩⟩
  · rw [hx] at this
    cases w
    · simp only [Bool.false_eq_true, if_false, Bool.or_eq_true, Bool.and_eq_true,
        decide_eq_true_eq] at this
      exact ⟨fun hh => (by cases hh), fun _ => this⟩
    · simp only [if_true, Bool.and_eq_true, decide_eq_true_eq] at this
      exact ⟨fun _ => this, fun hh => (by cases hh)⟩
  · rw [hn, hv] at this
    simpa using this
  · rw [hn, hv] at this
    simpa using this

def own0 : Fld → TId := fun _ => 0

def writeData : List (Act laP) := [.call 0 ⟨.idle, true, false, some (true, 1)⟩, .step 0]
/-- `count_down()` of the only participant, up to the decrement / up to the store of zero -/
def countDown1 : List (Act laP) := [.call 0 ⟨.cdSub 1, false, false, none⟩, .step 0]
def countDown2 : List (Act laP) := countDown1 ++ [.step 0]
def arrive1 : List (Act laP) := [.call 0 ⟨.awSub, false, false, none⟩, .step 0]
def readAfterL (l l' : L) : List (Act laP) :=
  [.call 1 ⟨l, true, false, none⟩, .step 1, .call 1 ⟨l', true, true, some (false, 1)⟩, .step 1]

abbrev LWit (c : LSite) (acts : List (Act laP)) : Prop :=
  ∃ s tr, runH (cSpec true isLatchEntry (lreqBut c)) (cinit true isLatchEntry 1) acts
    = some (s, tr) ∧ Race tr

def lw1 : List (Act laP) := writeData ++ countDown1 ++ readAfterL .twLoad (.done 1)
def lw2 : List (Act laP) := writeData ++ arrive1 ++ readAfterL .twLoad (.done 1)
def lw3 : List (Act laP) := writeData ++ countDown2 ++ readAfterL .twLoad (.done 1)
def lw4 : List (Act laP) := writeData ++ countDown2 ++ readAfterL (.wLoad 0) (.done 0)

theorem lneeded_cdSub : LWit .cdSub lw1 := exists_race_of_runH (i := 0) (j := 3) (by decide)
theorem lneeded_awSub : LWit .awSub lw2 := exists_race_of_runH (i := 0) (j := 3) (by decide)
theorem lneeded_ntStore : LWit .ntStore lw3 := exists_race_of_runH (i := 0) (j := 4) (by decide)
theorem lneeded_twLoad : LWit .twLoad lw3 := exists_race_of_runH (i := 0) (j := 4) (by decide)
theorem lneeded_wLoad : LWit .wLoad lw4 := exists_race_of_runH (i := 0) (j := 4) (by decide)

theorem lwit_contract : partyB [0] own0 lw1 = true ∧ partyB [0] own0 lw2 = true ∧
    partyB [0] own0 lw3 = true ∧ partyB [0] own0 lw4 = true := by decide

/-- with the unweakened table the witness executions are accepted by the detector -/
example : (runH (cSpec true isLatchEntry binding.reqOrder) (cinit true isLatchEntry 1) lw4).map
    (fun p => (p.2.length, (D.init.run p.2).isSome)) = some (5, true) := by decide

end Dispenso.Event
