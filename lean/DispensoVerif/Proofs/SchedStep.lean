import DispensoVerif.Proofs.SchedBasic

/-!
`Step`: the transition relation of `Sched.step`, one constructor per enabled branch, with the new
state in a normal form (`σ.setStack t l`, the new stack `l` of the acting thread given explicitly
in terms of its old top frame `f` and the frames `rest` below it).  `step_inv` shows that every
successful `step` is one of these constructors; every invariant proof is a case analysis on `Step`.
-/
namespace Dispenso.Sched

theorem settled_iff (f : Frame) : f.settled = true ↔
    f.resv = [] ∧ f.credit = 0 ∧ f.tsCredit = 0 ∧ f.unacc = 0 ∧ f.pend = .none ∧ f.pendDec = none := by
  simp [Frame.settled, and_assoc]

/-- the frame after `placeN f n` -/
def placed (f : Frame) (n : Nat) : Frame :=
  { f with resv := f.resv.drop n, credit := f.credit - n,
           tsCredit := f.tsCredit - (((f.resv.take n).map Prod.snd).filter (· ≠ 0)).length }

theorem placeN_some {f : Frame} {n : Nat} {f' : Frame} {moved : List Nat}
    (h : placeN f n = some (f', moved)) :
    n ≤ f.resv.length ∧ n ≤ f.credit ∧
    (((f.resv.take n).map Prod.snd).filter (· ≠ 0)).length ≤ f.tsCredit ∧
    (∀ x ∈ (f.resv.take n).map Prod.snd, x = 0 ∨ x = f.set) ∧
    f' = placed f n ∧ moved = (f.resv.take n).map Prod.snd := by
  unfold placeN at h
  split at h
  · rename_i h1
    simp only at h
    split at h
    · rename_i h2
      simp only [Option.some.injEq, Prod.mk.injEq] at h
      refine ⟨h1.1, h1.2, h2.1, ?_, h.1.symm, h.2.symm⟩
      intro x hx
      have := List.all_eq_true.1 h2.2 x hx
      simpa using this
    · cases h
  · cases h

inductive Step (s : St) (t : Nat) (f : Frame) (rest : List Frame) : Ev → St → Prop
  | callSched (set id : Nat) (fq : Bool) (hd : s.destroyed = false) (hid : ∀ p ∈ s.sub, p.1 ≠ id)
      (hp : f.pend = .none) :
      Step s t f rest (.callSched set id fq)
        ({ s with sub := (id, set) :: s.sub }.setStack t
          ({ kind := .sched, set := set, id := id, fq := fq, resv := [(id, set)] } :: f :: rest))
  | retSched (hk : f.kind = .sched) (hst : f.settled = true) :
      Step s t f rest .retSched (s.setStack t rest)
  | callBulk (set : Nat) (fq : Bool) (hd : s.destroyed = false) (hp : f.pend = .none) :
      Step s t f rest (.callBulk set fq)
        (s.setStack t ({ kind := .bulk, set := set, fq := fq } :: f :: rest))
  | gen (id : Nat) (hk : f.kind = .bulk) (hd : s.destroyed = false)
      (hid : ∀ p ∈ s.sub, p.1 ≠ id) :
      Step s t f rest (.gen id)
        ({ s with sub := (id, f.set) :: s.sub }.setStack t
          ({ f with resv := f.resv ++ [(id, f.set)] } :: rest))
  | retBulk (hk : f.kind = .bulk) (hst : f.settled = true) :
      Step s t f rest .retBulk (s.setStack t rest)
  | beginTook (id : Nat) (hb : id ∉ s.begun) (hp : f.pend = .took) (hsub : (id, 0) ∈ s.sub)
      (hq : 0 ∈ s.queuedSets) :
      Step s t f rest (.begin_ id)
        ({ s with begun := id :: s.begun, queuedSets := s.queuedSets.erase 0 }.setStack t
          ({ kind := .run, set := 0, id := id } :: { f with pend := .none, guardOK := false } :: rest))
  | beginGuarded (id st : Nat) (hb : id ∉ s.begun) (hp : f.pend = .guarded st)
      (hsub : (id, st) ∈ s.sub) :
      Step s t f rest (.begin_ id)
        ({ s with begun := id :: s.begun }.setStack t
          ({ kind := .run, set := st, id := id, packaged := true }
            :: { f with pend := .none, guardOK := false } :: rest))
  | beginInlPool (id : Nat) (hb : id ∉ s.begun) (hp : f.pend = .inlPool) (hr : f.resv = [(id, 0)])
      (hfq : f.fq = false) :
      Step s t f rest (.begin_ id)
        ({ s with begun := id :: s.begun }.setStack t
          ({ kind := .run, set := 0, id := id }
            :: { f with pend := .none, resv := [], guardOK := false } :: rest))
  | beginInlGuarded (id st : Nat) (hb : id ∉ s.begun) (hp : f.pend = .inlGuarded st)
      (hr : f.resv = [(id, st)]) (hfq : f.fq = false) (htc : 0 < f.tsCredit) :
      Step s t f rest (.begin_ id)
        ({ s with begun := id :: s.begun }.setStack t
          ({ kind := .run, set := st, id := id, packaged := true }
            :: { f with pend := .none, resv := [], tsCredit := f.tsCredit - 1, guardOK := false } :: rest))
  | beginInlTs (id : Nat) (hb : id ∉ s.begun) (hp : f.pend = .inlTs) (hr : f.resv = [(id, f.set)])
      (hfq : f.fq = false) :
      Step s t f rest (.begin_ id)
        ({ s with begun := id :: s.begun }.setStack t
          ({ kind := .run, set := f.set, id := id }
            :: { f with pend := .none, resv := [], guardOK := false } :: rest))
  | endPlain (id : Nat) (hk : f.kind = .run) (hid : f.id = id) (hst : f.settled = true)
      (hpk : f.packaged = false) :
      Step s t f rest (.end_ id) ({ s with ended := id :: s.ended }.setStack t rest)
  | endPkNil (id : Nat) (hk : f.kind = .run) (hid : f.id = id) (hst : f.settled = true)
      (hpk : f.packaged = true) (hrest : rest = []) :
      Step s t f rest (.end_ id)
        ({ s with ended := id :: s.ended }.setStack t [{ ({} : Frame) with pendDec := some f.set }])
  | endPkCons (id : Nat) (g : Frame) (rest' : List Frame) (hk : f.kind = .run) (hid : f.id = id)
      (hst : f.settled = true) (hpk : f.packaged = true) (hrest : rest = g :: rest')
      (hg : g.pendDec = none) :
      Step s t f rest (.end_ id)
        ({ s with ended := id :: s.ended }.setStack t ({ g with pendDec := some f.set } :: rest'))
  | callWait (set : Nat) (hp : f.pend = .none) :
      Step s t f rest (.callWait set) (s.setStack t ({ kind := .wait, set := set } :: f :: rest))
  | retWait (set : Nat) (done exc : Bool) (hk : f.kind = .wait) (hset : f.set = set)
      (hst : f.settled = true) (hz : done = true → f.zeroSeen = true) (hexc : exc = f.rethrown)
      (hc : done = true → set ∉ s.captured) :
      Step s t f rest (.retWait set done exc) (s.setStack t rest)
  | callCancel (set : Nat) :
      Step s t f rest (.callCancel set) (s.setStack t ({ kind := .cancel, set := set } :: f :: rest))
  | retCancel (set : Nat) (hk : f.kind = .cancel) (hset : f.set = set) (hc : set ∈ s.cancelled) :
      Step s t f rest (.retCancel set) (s.setStack t rest)
  | callResize (hp : f.pend = .none) :
      Step s t f rest .callResize (s.setStack t ({ kind := .resize } :: f :: rest))
  | retResize (hk : f.kind = .resize) (hst : f.settled = true) (hr : s.resizing = false) :
      Step s t f rest .retResize (s.setStack t rest)
  | callPoolDtor (hp : f.pend = .none) :
      Step s t f rest .callPoolDtor (s.setStack t ({ kind := .pooldtor } :: f :: rest))
  | retPoolDtor (hk : f.kind = .pooldtor) (hst : f.settled = true) (hd : s.destroyed = true) :
      Step s t f rest .retPoolDtor (s.setStack t rest)
  | quiesce (v : Int) (hq : s.quiescent = true) (hv : v = s.pending) :
      Step s t f rest (.quiesce v) s
  | inline0 (hk : f.kind = .sched ∨ f.kind = .bulk) (hp : f.pend = .none)
      (hn : s.nThreads = 0 ∨ s.resizing = true ∨ f.zeroPath = true) :
      Step s t f rest .inline0
        (s.setStack t ({ f with pend := .inlPool, fq := false, zeroPath := decide (f.kind = .bulk) } :: rest))
  | inlinePool (hk : f.kind = .sched ∨ f.kind = .bulk) (hp : f.pend = .none) (hfq : f.fq = false) :
      Step s t f rest .inlinePool (s.setStack t ({ f with pend := .inlPool } :: rest))
  | countPos (d : Int) (hd : 0 ≤ d) (hk : f.kind = .sched ∨ f.kind = .bulk) :
      Step s t f rest (.count d)
        ({ s with pending := s.pending + d }.setStack t
          ({ f with credit := f.credit + d.toNat } :: rest))
  | countNeg (d : Int) (hd : d < 0) (hu : (-d).toNat ≤ f.unacc) (hp : f.pend = .none) :
      Step s t f rest (.count d)
        ({ s with pending := s.pending + d }.setStack t
          ({ f with unacc := f.unacc - (-d).toNat } :: rest))
  | push (tier n : Nat) (hk : f.kind = .sched ∨ f.kind = .bulk)
      (hr : isRing tier = true → ringIdx tier < s.nRings)
      (hn1 : n ≤ f.resv.length) (hn2 : n ≤ f.credit)
      (hts : (((f.resv.take n).map Prod.snd).filter (· ≠ 0)).length ≤ f.tsCredit)
      (hall : ∀ x ∈ (f.resv.take n).map Prod.snd, x = 0 ∨ x = f.set) :
      Step s t f rest (.push tier n)
        ({ s with tierItems := List.replicate n tier ++ s.tierItems,
                  queuedSets := (f.resv.take n).map Prod.snd ++ s.queuedSets }.setStack t
          (placed f n :: rest))
  | take (tier : Nat) (hp : f.pend = .none) (hpd : f.pendDec = none) (hk1 : f.kind ≠ .sched)
      (hk2 : f.kind ≠ .bulk) (hk3 : f.kind ≠ .cancel) (hm : tier ∈ s.tierItems) :
      Step s t f rest (.take tier)
        ({ s with tierItems := s.tierItems.erase tier }.setStack t
          ({ f with pend := .took, unacc := f.unacc + 1 } :: rest))
  | rings (n : Nat) (hk : f.kind = .resize)
      (hall : ∀ c ∈ s.tierItems, isRing c = true → ringIdx c < n) :
      Step s t f rest (.rings n) { s with nRings := n }
  | ctor (n : Nat) (hk : f.kind = .resize) (he : s.tierItems = []) (hr : s.resizing = false) :
      Step s t f rest (.ctor n) { s with nThreads := n, nRings := n }
  | resizeBegin (hk : f.kind = .resize) (hr : s.resizing = false) :
      Step s t f rest .resizeBegin { s with resizing := true }
  | resizeEnd (n : Nat) (hk : f.kind = .resize) (hr : s.resizing = true) (hst : f.settled = true) :
      Step s t f rest (.resizeEnd n) { s with resizing := false, nThreads := n }
  | dtorBegin (hk : f.kind = .pooldtor) : Step s t f rest .dtorBegin s
  | dtorEnd (hk : f.kind = .pooldtor) (hq : s.quiescent = true) :
      Step s t f rest .dtorEnd { s with destroyed := true }
  | tsInc (set n : Nat) (hk : f.kind = .sched ∨ f.kind = .bulk) (hset : f.set = set)
      (h0 : set ≠ 0) :
      Step s t f rest (.tsInc set n)
        ({ s with outstanding := upd s.outstanding set (s.outstanding set + n) }.setStack t
          ({ f with tsCredit := f.tsCredit + n } :: rest))
  | tsDec (set : Nat) (hpd : f.pendDec = some set) :
      Step s t f rest (.tsDec set)
        ({ s with outstanding := upd s.outstanding set (s.outstanding set - 1) }.setStack t
          ({ f with pendDec := none } :: rest))
  | guardTookSkip (set : Nat) (hp : f.pend = .took) (h0 : set ≠ 0) (hq : set ∈ s.queuedSets)
      (hpd : f.pendDec = none) :
      Step s t f rest (.tsGuard set true 0)
        ({ s with queuedSets := s.queuedSets.erase set,
                  skipped := upd s.skipped set (s.skipped set + 1) }.setStack t
          ({ f with pend := .none, pendDec := some set } :: rest))
  | guardTookPass (set : Nat) (hc : set ∉ s.cancelled) (hp : f.pend = .took) (h0 : set ≠ 0)
      (hq : set ∈ s.queuedSets) (hpd : f.pendDec = none) :
      Step s t f rest (.tsGuard set false 0)
        ({ s with queuedSets := s.queuedSets.erase set }.setStack t
          ({ f with pend := .guarded set } :: rest))
  | guardInlSkip (set id0 : Nat) (hp : f.pend = .inlPool) (hr : f.resv = [(id0, set)])
      (h0 : set ≠ 0) (htc : 0 < f.tsCredit) (hpd : f.pendDec = none) :
      Step s t f rest (.tsGuard set true 0)
        ({ s with skipped := upd s.skipped set (s.skipped set + 1) }.setStack t
          ({ f with pend := .none, resv := [], tsCredit := f.tsCredit - 1, pendDec := some set }
            :: rest))
  | guardInlPass (set id0 : Nat) (hc : set ∉ s.cancelled) (hp : f.pend = .inlPool)
      (hr : f.resv = [(id0, set)]) (h0 : set ≠ 0) (htc : 0 < f.tsCredit) (hpd : f.pendDec = none) :
      Step s t f rest (.tsGuard set false 0)
        (s.setStack t ({ f with pend := .inlGuarded set } :: rest))
  | guardDrop (set : Nat) (x : Nat × Nat) (hk : f.kind = .sched ∨ f.kind = .bulk)
      (hset : f.set = set) (h0 : set ≠ 0) (hp : f.pend = .none) (hr : f.resv = [x]) :
      Step s t f rest (.tsGuard set true 2)
        ({ s with dropped := upd s.dropped set (s.dropped set + 1) }.setStack t
          ({ f with resv := [], guardOK := false } :: rest))
  | guardFail (set site : Nat) (hs0 : site ≠ 0) (hs2 : site ≠ 2)
      (hk : f.kind = .sched ∨ f.kind = .bulk) (hset : f.set = set) (h0 : set ≠ 0)
      (hp : f.pend = .none) :
      Step s t f rest (.tsGuard set true site)
        (s.setStack t ({ f with guardOK := false } :: rest))
  | guardOk (set site : Nat) (hc : set ∉ s.cancelled) (hs0 : site ≠ 0)
      (hk : f.kind = .sched ∨ f.kind = .bulk) (hset : f.set = set) (h0 : set ≠ 0)
      (hp : f.pend = .none) :
      Step s t f rest (.tsGuard set false site)
        (s.setStack t ({ f with guardOK := true } :: rest))
  | tsInline (set : Nat) (hk : f.kind = .sched ∨ f.kind = .bulk) (hset : f.set = set)
      (h0 : set ≠ 0) (hp : f.pend = .none) (hg : f.guardOK = true) (hfq : f.fq = false) :
      Step s t f rest (.tsInline set)
        (s.setStack t ({ f with pend := .inlTs, guardOK := false } :: rest))
  | tsCancel (set : Nat) :
      Step s t f rest (.tsCancel set)
        { s with cancelled := if set ∈ s.cancelled then s.cancelled else set :: s.cancelled }
  | tsZeroWait (set : Nat) (hz : s.outstanding set = 0) (hk : f.kind = .wait) (hset : f.set = set) :
      Step s t f rest (.tsZero set) (s.setStack t ({ f with zeroSeen := true } :: rest))
  | tsZeroOther (set : Nat) (hz : s.outstanding set = 0) (hn : ¬ (f.kind = .wait ∧ f.set = set)) :
      Step s t f rest (.tsZero set) s
  | tsCapture (set : Nat) (hn : set ∉ s.captured) :
      Step s t f rest (.tsCapture set)
        { s with captured := set :: s.captured, captures := upd s.captures set (s.captures set + 1) }
  | tsRethrow (set : Nat) (hk : f.kind = .wait) (hset : f.set = set) (hz : f.zeroSeen = true)
      (hc : set ∈ s.captured) :
      Step s t f rest (.tsRethrow set)
        ({ s with captured := s.captured.erase set,
                  rethrows := upd s.rethrows set (s.rethrows set + 1) }.setStack t
          ({ f with rethrown := true } :: rest))

section inv
variable {s s' : St} {t : Nat} {f : Frame} {rest : List Frame}

theorem top_eq (hs : norm (s.thr t) = f :: rest) : s.top t = f := by
  simp [St.top, stack_eq_norm, hs]
theorem below_eq (hs : norm (s.thr t) = f :: rest) : s.below t = rest := by
  simp [St.below, stack_eq_norm, hs]
theorem stack_eq (hs : norm (s.thr t) = f :: rest) : s.stack t = f :: rest := by
  simp [stack_eq_norm, hs]


/-- bring a state expression built from `pushF` / `setTop` / `popF` into the `setStack` normal form -/
macro "nf " h:term : tactic =>
  `(tactic| simp only [St.pushF, St.setTop, St.popF, St.below, St.top, stack_eq_norm,
      setStack_thr, upd_same, $h:term, norm_cons, norm_nil, List.tail_cons, List.headD_cons,
      List.tail_nil, List.headD_nil, setStack_setStack])

theorem step_inv_call (hs : norm (s.thr t) = f :: rest) {e : Ev} (h : step s t e = some s')
    (he : (∃ a b c, e = .callSched a b c) ∨ e = .retSched ∨ (∃ a b, e = .callBulk a b) ∨
      (∃ a, e = .gen a) ∨ e = .retBulk ∨ (∃ a, e = .callWait a) ∨ (∃ a b c, e = .retWait a b c) ∨
      (∃ a, e = .callCancel a) ∨ (∃ a, e = .retCancel a) ∨ e = .callResize ∨ e = .retResize ∨
      e = .callPoolDtor ∨ e = .retPoolDtor) : Step s t f rest e s' := by
  have htop := top_eq hs
  rcases he with ⟨a, b, c, rfl⟩ | rfl | ⟨a, b, rfl⟩ | ⟨a, rfl⟩ | rfl | ⟨a, rfl⟩ | ⟨a, b, c, rfl⟩ |
    ⟨a, rfl⟩ | ⟨a, rfl⟩ | rfl | rfl | rfl | rfl
  · simp only [step, htop] at h
    split_ifs at h with h1
    cases h
    simp only [not_or, Decidable.not_not] at h1
    nf hs
    exact Step.callSched _ _ _ (by simpa using h1.1)
      (fun p hp e => h1.2.1 (List.any_eq_true.2 ⟨p, hp, by simp [e]⟩)) h1.2.2
  · simp only [step, htop] at h
    split_ifs at h with h1
    cases h
    nf hs
    exact Step.retSched h1.1 h1.2
  · simp only [step, htop] at h
    split_ifs at h with h1
    cases h
    simp only [not_or, Decidable.not_not] at h1
    nf hs
    exact Step.callBulk _ _ (by simpa using h1.1) h1.2
  · simp only [step, htop] at h
    split_ifs at h with h1
    cases h
    nf hs
    exact Step.gen _ h1.1 (by simpa using h1.2.1)
      (fun p hp e => h1.2.2 (List.any_eq_true.2 ⟨p, hp, by simp [e]⟩))
  · simp only [step, htop] at h
    split_ifs at h with h1
    cases h
    nf hs
    exact Step.retBulk h1.1 h1.2
  · simp only [step, htop] at h
    split_ifs at h with h1
    cases h
    simp only [Decidable.not_not] at h1
    nf hs
    exact Step.callWait _ h1
  · simp only [step, htop] at h
    split_ifs at h with h1
    cases h
    nf hs
    exact Step.retWait _ _ _ h1.1 h1.2.1 h1.2.2.1 h1.2.2.2.1 h1.2.2.2.2.1 h1.2.2.2.2.2
  · simp only [step] at h
    cases h
    nf hs
    exact Step.callCancel _
  · simp only [step, htop] at h
    split_ifs at h with h1
    cases h
    nf hs
    exact Step.retCancel _ h1.1 h1.2.1 h1.2.2
  · simp only [step, htop] at h
    split_ifs at h with h1
    cases h
    simp only [Decidable.not_not] at h1
    nf hs
    exact Step.callResize h1
  · simp only [step, htop] at h
    split_ifs at h with h1
    cases h
    nf hs
    exact Step.retResize h1.1 h1.2.1 (by simpa using h1.2.2)
  · simp only [step, htop] at h
    split_ifs at h with h1
    cases h
    simp only [Decidable.not_not] at h1
    nf hs
    exact Step.callPoolDtor h1
  · simp only [step, htop] at h
    split_ifs at h with h1
    cases h
    nf hs
    exact Step.retPoolDtor h1.1 h1.2.1 h1.2.2


theorem step_inv_body (hs : norm (s.thr t) = f :: rest) {e : Ev} (h : step s t e = some s')
    (he : (∃ a, e = .begin_ a) ∨ (∃ a, e = .end_ a)) : Step s t f rest e s' := by
  have htop := top_eq hs
  rcases he with ⟨id, rfl⟩ | ⟨id, rfl⟩
  · by_cases hb : id ∈ s.begun
    · simp only [step, hb, ↓reduceIte] at h
      cases h
    simp only [step, htop, hb, ↓reduceIte] at h
    cases hp : f.pend with
    | took =>
      simp only [hp] at h
      split_ifs at h with h1
      cases h
      nf hs
      exact Step.beginTook _ hb hp h1.1 h1.2
    | guarded st =>
      simp only [hp] at h
      split_ifs at h with h1
      cases h
      nf hs
      exact Step.beginGuarded _ _ hb hp h1
    | inlPool =>
      simp only [hp] at h
      split_ifs at h with h1
      cases h
      nf hs
      exact Step.beginInlPool _ hb hp h1.1 (by simpa using h1.2)
    | inlGuarded st =>
      simp only [hp] at h
      split_ifs at h with h1
      cases h
      nf hs
      exact Step.beginInlGuarded _ _ hb hp h1.1 (by simpa using h1.2.1) h1.2.2
    | inlTs =>
      simp only [hp] at h
      split_ifs at h with h1
      cases h
      nf hs
      exact Step.beginInlTs _ hb hp h1.1 (by simpa using h1.2)
    | none =>
      simp only [hp] at h
      cases h
  · simp only [step, htop] at h
    split_ifs at h with h1 h2 h3
    · cases h
      cases rest with
      | nil =>
        nf hs
        exact Step.endPkNil _ h1.1 h1.2.1 h1.2.2 h2 rfl
      | cons g rest' =>
        nf hs
        refine Step.endPkCons _ g rest' h1.1 h1.2.1 h1.2.2 h2 rfl ?_
        simpa [St.top, St.popF, St.below, stack_eq_norm, hs] using h3
    · cases h
      nf hs
      exact Step.endPlain _ h1.1 h1.2.1 h1.2.2 (by simpa using h2)

theorem step_inv_pool (hs : norm (s.thr t) = f :: rest) {e : Ev} (h : step s t e = some s')
    (he : (∃ a, e = .quiesce a) ∨ e = .inline0 ∨ e = .inlinePool ∨ (∃ a, e = .count a) ∨
      (∃ a b, e = .push a b) ∨ (∃ a, e = .take a) ∨ (∃ a, e = .rings a) ∨ (∃ a, e = .ctor a) ∨
      e = .resizeBegin ∨ (∃ a, e = .resizeEnd a) ∨ e = .dtorBegin ∨ e = .dtorEnd) :
    Step s t f rest e s' := by
  have htop := top_eq hs
  rcases he with ⟨a, rfl⟩ | rfl | rfl | ⟨a, rfl⟩ | ⟨a, b, rfl⟩ | ⟨a, rfl⟩ | ⟨a, rfl⟩ | ⟨a, rfl⟩ |
    rfl | ⟨a, rfl⟩ | rfl | rfl
  · simp only [step] at h
    split_ifs at h with h1
    cases h
    exact Step.quiesce _ h1.1 h1.2
  · simp only [step, htop] at h
    split_ifs at h with h1
    cases h
    nf hs
    exact Step.inline0 h1.1 h1.2.1 h1.2.2
  · simp only [step, htop] at h
    split_ifs at h with h1
    cases h
    nf hs
    exact Step.inlinePool h1.1 h1.2.1 (by simpa using h1.2.2)
  · simp only [step, htop] at h
    split_ifs at h with h1 h2 h3
    · cases h
      nf hs
      exact Step.countPos _ h1 h2
    · cases h
      nf hs
      exact Step.countNeg _ (by omega) h3.1 h3.2
  · simp only [step, htop] at h
    split_ifs at h with h1
    split at h
    · rename_i f' moved hpl
      cases h
      obtain ⟨p1, p2, p3, p4, rfl, rfl⟩ := placeN_some hpl
      nf hs
      exact Step.push _ _ h1.1 h1.2 p1 p2 p3 p4
    · cases h
  · simp only [step, htop] at h
    split_ifs at h with h1
    cases h
    nf hs
    exact Step.take _ h1.1 h1.2.1 h1.2.2.1 h1.2.2.2.1 h1.2.2.2.2.1 h1.2.2.2.2.2
  · simp only [step, htop] at h
    split_ifs at h with h1
    cases h
    refine Step.rings _ h1.1 (fun c hc hr => ?_)
    have := List.all_eq_true.1 h1.2 c hc
    simpa [hr] using this
  · simp only [step, htop] at h
    split_ifs at h with h1
    cases h
    exact Step.ctor _ h1.1 (by simpa using h1.2.1) (by simpa using h1.2.2)
  · simp only [step, htop] at h
    split_ifs at h with h1
    cases h
    exact Step.resizeBegin h1.1 (by simpa using h1.2)
  · simp only [step, htop] at h
    split_ifs at h with h1
    cases h
    exact Step.resizeEnd _ h1.1 h1.2.1 h1.2.2
  · simp only [step, htop] at h
    split_ifs at h with h1
    cases h
    exact Step.dtorBegin h1
  · simp only [step, htop] at h
    split_ifs at h with h1
    cases h
    exact Step.dtorEnd h1.1 h1.2


theorem step_inv_guard (hs : norm (s.thr t) = f :: rest) {set site : Nat} {c : Bool}
    (h : step s t (.tsGuard set c site) = some s') : Step s t f rest (.tsGuard set c site) s' := by
  have htop := top_eq hs
  by_cases hc : ¬ c = true ∧ set ∈ s.cancelled
  · simp only [step, hc] at h
    cases h
  simp only [step, htop, hc, ↓reduceIte] at h
  by_cases hsite : site = 0
  · subst hsite
    simp only [↓reduceIte] at h
    cases hp : f.pend with
    | took =>
      simp only [hp] at h
      split_ifs at h with h1 h2
      · cases h
        subst h2
        nf hs
        exact Step.guardTookSkip _ hp h1.1 h1.2.1 h1.2.2
      · cases h
        have hcf : c = false := by simpa using h2
        subst hcf
        nf hs
        exact Step.guardTookPass _ (fun hm => hc ⟨by simp, hm⟩) hp h1.1 h1.2.1 h1.2.2
    | inlPool =>
      simp only [hp] at h
      split at h
      · rename_i id0 st hr
        split_ifs at h with h1 h2
        · cases h
          subst h2
          obtain ⟨rfl, h0, htc, hpd⟩ := h1
          nf hs
          exact Step.guardInlSkip _ id0 hp hr h0 htc hpd
        · cases h
          have hcf : c = false := by simpa using h2
          subst hcf
          obtain ⟨rfl, h0, htc, hpd⟩ := h1
          nf hs
          exact Step.guardInlPass _ id0 (fun hm => hc ⟨by simp, hm⟩) hp hr h0 htc hpd
      · cases h
    | guarded st => simp only [hp] at h; cases h
    | inlGuarded st => simp only [hp] at h; cases h
    | inlTs => simp only [hp] at h; cases h
    | none => simp only [hp] at h; cases h
  · simp only [hsite, ↓reduceIte] at h
    split_ifs at h with h1 h2 h3
    · subst h2 h3
      split at h
      · rename_i x hr
        cases h
        nf hs
        exact Step.guardDrop _ x h1.1 h1.2.1 h1.2.2.1 h1.2.2.2 hr
      · cases h
    · cases h
      subst h2
      nf hs
      exact Step.guardFail _ _ hsite h3 h1.1 h1.2.1 h1.2.2.1 h1.2.2.2
    · cases h
      have hcf : c = false := by simpa using h2
      subst hcf
      nf hs
      exact Step.guardOk _ _ (fun hm => hc ⟨by simp, hm⟩) hsite h1.1 h1.2.1 h1.2.2.1 h1.2.2.2

theorem step_inv_ts (hs : norm (s.thr t) = f :: rest) {e : Ev} (h : step s t e = some s')
    (he : (∃ a b, e = .tsInc a b) ∨ (∃ a, e = .tsDec a) ∨ (∃ a, e = .tsInline a) ∨
      (∃ a, e = .tsCancel a) ∨ (∃ a, e = .tsZero a) ∨ (∃ a, e = .tsCapture a) ∨
      (∃ a, e = .tsRethrow a)) : Step s t f rest e s' := by
  have htop := top_eq hs
  rcases he with ⟨a, b, rfl⟩ | ⟨a, rfl⟩ | ⟨a, rfl⟩ | ⟨a, rfl⟩ | ⟨a, rfl⟩ | ⟨a, rfl⟩ | ⟨a, rfl⟩
  · simp only [step, htop] at h
    split_ifs at h with h1
    cases h
    nf hs
    exact Step.tsInc _ _ h1.1 h1.2.1 h1.2.2
  · simp only [step, htop] at h
    split_ifs at h with h1
    cases h
    nf hs
    exact Step.tsDec _ h1
  · simp only [step, htop] at h
    split_ifs at h with h1
    cases h
    nf hs
    exact Step.tsInline _ h1.1 h1.2.1 h1.2.2.1 h1.2.2.2.1 h1.2.2.2.2.1
      (by simpa using h1.2.2.2.2.2)
  · simp only [step] at h
    cases h
    exact Step.tsCancel _
  · simp only [step, htop] at h
    split_ifs at h with h1 h2
    · cases h
      nf hs
      exact Step.tsZeroWait _ h1 h2.1 h2.2
    · cases h
      exact Step.tsZeroOther _ h1 h2
  · simp only [step] at h
    split_ifs at h with h1
    cases h
    exact Step.tsCapture _ h1
  · simp only [step, htop] at h
    split_ifs at h with h1
    cases h
    nf hs
    exact Step.tsRethrow _ h1.1 h1.2.1 h1.2.2.1 h1.2.2.2

/-- every successful `step` is a `Step` -/
theorem step_inv (hs : norm (s.thr t) = f :: rest) {e : Ev} (h : step s t e = some s') :
    Step s t f rest e s' := by
  cases e with
  | callSched a b c => exact step_inv_call hs h (by simp)
  | retSched => exact step_inv_call hs h (by simp)
  | callBulk a b => exact step_inv_call hs h (by simp)
  | gen a => exact step_inv_call hs h (by simp)
  | retBulk => exact step_inv_call hs h (by simp)
  | begin_ a => exact step_inv_body hs h (by simp)
  | end_ a => exact step_inv_body hs h (by simp)
  | callWait a => exact step_inv_call hs h (by simp)
  | retWait a b c => exact step_inv_call hs h (by simp)
  | callCancel a => exact step_inv_call hs h (by simp)
  | retCancel a => exact step_inv_call hs h (by simp)
  | callResize => exact step_inv_call hs h (by simp)
  | retResize => exact step_inv_call hs h (by simp)
  | callPoolDtor => exact step_inv_call hs h (by simp)
  | retPoolDtor => exact step_inv_call hs h (by simp)
  | quiesce a => exact step_inv_pool hs h (by simp)
  | inline0 => exact step_inv_pool hs h (by simp)
  | inlinePool => exact step_inv_pool hs h (by simp)
  | count a => exact step_inv_pool hs h (by simp)
  | push a b => exact step_inv_pool hs h (by simp)
  | take a => exact step_inv_pool hs h (by simp)
  | rings a => exact step_inv_pool hs h (by simp)
  | ctor a => exact step_inv_pool hs h (by simp)
  | resizeBegin => exact step_inv_pool hs h (by simp)
  | resizeEnd a => exact step_inv_pool hs h (by simp)
  | dtorBegin => exact step_inv_pool hs h (by simp)
  | dtorEnd => exact step_inv_pool hs h (by simp)
  | tsInc a b => exact step_inv_ts hs h (by simp)
  | tsDec a => exact step_inv_ts hs h (by simp)
  | tsGuard a b c => exact step_inv_guard hs h
  | tsInline a => exact step_inv_ts hs h (by simp)
  | tsCancel a => exact step_inv_ts hs h (by simp)
  | tsZero a => exact step_inv_ts hs h (by simp)
  | tsCapture a => exact step_inv_ts hs h (by simp)
  | tsRethrow a => exact step_inv_ts hs h (by simp)

/-- existence form -/
theorem step_inv' {e : Ev} (h : step s t e = some s') :
    ∃ f rest, norm (s.thr t) = f :: rest ∧ Step s t f rest e s' := by
  obtain ⟨f, rest, hs⟩ := norm_exists (s.thr t)
  exact ⟨f, rest, hs, step_inv hs h⟩

end inv

end Dispenso.Sched
