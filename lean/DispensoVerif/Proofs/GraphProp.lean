import DispensoVerif.Proofs.GraphBuild
/-
ForwardPropagator, phase 1 (the BFS): micro-step invariant `PInv`, the folds of `propLevel`,
`propLoop`, and the characterisation of the result (`phase1_spec`).
-/
namespace Dispenso.Graph
open List

/-- number of edges into `n` whose source is in `S` -/
def srcCount (g : G) (S : List Nat) (n : Nat) : Nat :=
  (edges g).countP (fun e => decide (e.2 = n ∧ e.1 ∈ S))

theorem srcCount_le_length (g : G) (S : List Nat) (n : Nat) : srcCount g S n ≤ (edges g).length :=
  List.countP_le_length

theorem srcCount_nil (g : G) (n : Nat) : srcCount g [] n = 0 := by
  unfold srcCount
  rw [List.countP_eq_zero]
  intro e _
  simp

theorem srcCount_snoc (g : G) (S : List Nat) (c n : Nat) (hc : (g.node c).alive = true)
    (hcS : c ∉ S) :
    srcCount g (S ++ [c]) n = srcCount g S n + (g.node c).dependents.count n := by
  unfold srcCount
  rw [← countP_edges_src g c n hc]
  apply countP_split
  intro e _
  simp only [decide_eq_true_eq, List.mem_append, List.mem_singleton]
  constructor
  · constructor
    · rintro ⟨h1, h2 | h2⟩
      · exact Or.inl ⟨h1, h2⟩
      · exact Or.inr ⟨h2, h1⟩
    · rintro (⟨h1, h2⟩ | ⟨h1, h2⟩)
      · exact ⟨h1, Or.inl h2⟩
      · exact ⟨h2, Or.inr h1⟩
  · rintro ⟨⟨_, h2⟩, h3, _⟩
    exact hcS (h3 ▸ h2)

theorem srcCount_pos {g : G} {S : List Nat} {p n : Nat} (he : (p, n) ∈ edges g) (hp : p ∈ S) :
    0 < srcCount g S n := by
  unfold srcCount
  rw [List.countP_pos_iff]
  exact ⟨(p, n), he, by simp [hp]⟩

theorem exists_of_srcCount_pos {g : G} {S : List Nat} {n : Nat} (h : 0 < srcCount g S n) :
    ∃ p, (p, n) ∈ edges g ∧ p ∈ S := by
  unfold srcCount at h
  rw [List.countP_pos_iff] at h
  obtain ⟨⟨p, d⟩, he, hq⟩ := h
  simp only [decide_eq_true_eq] at hq
  obtain ⟨rfl, hq⟩ := hq
  exact ⟨p, he, hq⟩

/-- the counter read as "number of incomplete predecessors seen so far" -/
def val (n : NodeS) : Nat := if completed n = true then 0 else n.inc

theorem val_of_not_completed {n : NodeS} (h : ¬ completed n = true) : val n = n.inc := by
  unfold val; rw [if_neg h]

theorem val_of_completed {n : NodeS} (h : completed n = true) : val n = 0 := by
  unfold val; rw [if_pos h]

/-! ### addIncompletePredecessor -/

theorem addInc_shape (g : G) (d : Nat) : SameShape g (addIncompletePredecessor g d) :=
  sameShape_setInc g d _

theorem addInc_node_ne (g : G) (d j : Nat) (h : j ≠ d) :
    (addIncompletePredecessor g d).node j = g.node j :=
  setNode_node_ne g d _ j (Ne.symm h)

theorem addInc_node_self (g : G) (d : Nat) (hd : d < g.nodes.length)
    (hb : val (g.node d) + 1 < kCompleted) :
    ¬ completed ((addIncompletePredecessor g d).node d) = true ∧
    ((addIncompletePredecessor g d).node d).inc = val (g.node d) + 1 := by
  have hinc : ((addIncompletePredecessor g d).node d).inc =
      if completed (g.node d) = true then 1 else wrap ((g.node d).inc + 1) := by
    unfold addIncompletePredecessor; rw [setNode_node_self g d _ hd]
  rw [completed_iff, hinc]
  by_cases hc : completed (g.node d) = true
  · rw [if_pos hc, val_of_completed hc]; unfold kCompleted; omega
  · rw [val_of_not_completed hc] at hb
    rw [if_neg hc, val_of_not_completed hc, wrap_add_one' _ hb]; omega

/-! ### the invariant of the BFS -/

structure PInv (gI g : G) (V Dn Q pend : List Nat) : Prop where
  shape : SameShape gI g
  nonroot : ∀ i, completed (gI.node i) = true → ¬ completed (g.node i) = true →
    1 ≤ (g.node i).inc
  cnt : ∀ n, (g.node n).alive = true → val (g.node n) + pend.count n = srcCount gI Dn n
  memV : ∀ v, v ∈ V ↔ (v ∈ Dn ∨ v ∈ Q)
  ndV : V.Nodup
  ndDn : Dn.Nodup
  ndQ : Q.Nodup
  disj : ∀ v, v ∈ Dn → v ∉ Q
  liveV : ∀ v ∈ V, (g.node v).alive = true
  incV : ∀ v ∈ V, ¬ completed (g.node v) = true
  reachV : ∀ v ∈ V, Reach gI v
  rootsV : ∀ i, (gI.node i).alive = true → ¬ completed (gI.node i) = true → i ∈ V
  closedV : ∀ p d, (p, d) ∈ edges gI → p ∈ Dn → (d ∈ V ∨ d ∈ pend)
  pendc : ∀ d ∈ pend, (g.node d).alive = true ∧ Reach gI d

theorem PInv.pop {gI g : G} {V Dn Q : List Nat} {c : Nat} (hw : WF gI)
    (h : PInv gI g V Dn (c :: Q) []) :
    PInv gI g V (Dn ++ [c]) Q (g.node c).dependents := by
  have hcV : c ∈ V := (h.memV c).2 (Or.inr List.mem_cons_self)
  have hal := h.liveV c hcV
  have hal0 : (gI.node c).alive = true := by rw [← h.shape.alive]; exact hal
  have hndQ := List.nodup_cons.1 h.ndQ
  have hcDn : c ∉ Dn := fun hm => h.disj c hm List.mem_cons_self
  refine ⟨h.shape, h.nonroot, ?_, ?_, h.ndV, ?_, hndQ.2, ?_, h.liveV, h.incV, h.reachV, h.rootsV, ?_, ?_⟩
  · intro n hn
    have := h.cnt n hn
    rw [srcCount_snoc gI Dn c n hal0 hcDn, ← h.shape.deps c]
    simp at this
    omega
  · intro v
    rw [h.memV v, List.mem_append, List.mem_singleton, List.mem_cons]
    constructor
    · rintro (h1 | h1 | h1)
      · exact Or.inl (Or.inl h1)
      · exact Or.inl (Or.inr h1)
      · exact Or.inr h1
    · rintro ((h1 | h1) | h1)
      · exact Or.inl h1
      · exact Or.inr (Or.inl h1)
      · exact Or.inr (Or.inr h1)
  · rw [List.nodup_append]
    refine ⟨h.ndDn, List.nodup_singleton _, ?_⟩
    intro a ha b hb
    rw [List.mem_singleton] at hb
    subst hb
    exact fun e => hcDn (e ▸ ha)
  · intro v hv
    rw [List.mem_append, List.mem_singleton] at hv
    rcases hv with hv | rfl
    · exact fun hq => h.disj v hv (List.mem_cons_of_mem _ hq)
    · exact hndQ.1
  · intro p d he hp
    rw [List.mem_append, List.mem_singleton] at hp
    rcases hp with hp | rfl
    · rcases h.closedV p d he hp with h1 | h1
      · exact Or.inl h1
      · cases h1
    · right
      rw [h.shape.deps]
      exact (mem_edges.1 he).2
  · intro d hd
    rw [h.shape.deps] at hd
    have he : (c, d) ∈ edges gI := mem_edges.2 ⟨hal0, hd⟩
    refine ⟨?_, Reach.step c d (h.reachV c hcV) he⟩
    rw [h.shape.alive]
    exact hw.deps_live c d he

theorem PInv.visit {gI g : G} {V Dn Q pend : List Nat} {d : Nat} (hb : EdgeBound gI)
    (h : PInv gI g V Dn Q (d :: pend)) :
    PInv gI (addIncompletePredecessor g d) (if V.contains d = true then V else d :: V) Dn
      (if V.contains d = true then Q else Q ++ [d]) pend := by
  have hpd := h.pendc d List.mem_cons_self
  have hal := hpd.1
  have hlt := lt_of_alive hal
  have hcnt := h.cnt d hal
  rw [List.count_cons] at hcnt
  simp only [beq_self_eq_true, if_true] at hcnt
  have hle := srcCount_le_length gI Dn d
  unfold EdgeBound at hb
  have hself := addInc_node_self g d hlt (by omega)
  have hsh := addInc_shape g d
  have hne := fun j (hj : j ≠ d) => addInc_node_ne g d j hj
  have hincV' : ∀ v, ¬ completed (g.node v) = true →
      ¬ completed ((addIncompletePredecessor g d).node v) = true := by
    intro v hv
    by_cases hvd : v = d
    · subst hvd; exact hself.1
    · rw [hne v hvd]; exact hv
  refine ⟨h.shape.trans hsh, ?_, ?_, ?_, ?_, h.ndDn, ?_, ?_, ?_, ?_, ?_, ?_, ?_, ?_⟩
  · intro i hi hnc
    by_cases hid : i = d
    · subst hid; rw [hself.2]; omega
    · rw [hne i hid] at hnc ⊢
      exact h.nonroot i hi hnc
  · intro n hn
    rw [hsh.alive] at hn
    by_cases hnd : n = d
    · subst hnd
      rw [val_of_not_completed hself.1, hself.2]
      omega
    · rw [hne n hnd]
      have := h.cnt n hn
      rw [List.count_cons] at this
      have hdn : ¬ d = n := fun e => hnd e.symm
      simpa [hdn] using this
  · intro v
    by_cases hc : V.contains d = true
    · rw [if_pos hc, if_pos hc]; exact h.memV v
    · rw [if_neg hc, if_neg hc, List.mem_cons, List.mem_append, List.mem_singleton, h.memV v]
      constructor
      · rintro (h1 | h1 | h1)
        · exact Or.inr (Or.inr h1)
        · exact Or.inl h1
        · exact Or.inr (Or.inl h1)
      · rintro (h1 | h1 | h1)
        · exact Or.inr (Or.inl h1)
        · exact Or.inr (Or.inr h1)
        · exact Or.inl h1
  · by_cases hc : V.contains d = true
    · rw [if_pos hc]; exact h.ndV
    · rw [if_neg hc, List.nodup_cons]
      exact ⟨fun hm => hc (List.contains_iff_mem.2 hm), h.ndV⟩
  · by_cases hc : V.contains d = true
    · rw [if_pos hc]; exact h.ndQ
    · rw [if_neg hc, List.nodup_append]
      refine ⟨h.ndQ, List.nodup_singleton _, ?_⟩
      intro a ha b hb
      rw [List.mem_singleton] at hb
      subst hb
      rintro rfl
      exact hc (List.contains_iff_mem.2 ((h.memV a).2 (Or.inr ha)))
  · intro v hv
    by_cases hc : V.contains d = true
    · rw [if_pos hc]; exact h.disj v hv
    · rw [if_neg hc, List.mem_append, List.mem_singleton]
      rintro (h1 | rfl)
      · exact h.disj v hv h1
      · exact hc (List.contains_iff_mem.2 ((h.memV v).2 (Or.inl hv)))
  · intro v hv
    rw [hsh.alive]
    by_cases hc : V.contains d = true
    · rw [if_pos hc] at hv; exact h.liveV v hv
    · rw [if_neg hc, List.mem_cons] at hv
      rcases hv with rfl | hv
      · exact hal
      · exact h.liveV v hv
  · intro v hv
    by_cases hc : V.contains d = true
    · rw [if_pos hc] at hv; exact hincV' v (h.incV v hv)
    · rw [if_neg hc, List.mem_cons] at hv
      rcases hv with rfl | hv
      · exact hself.1
      · exact hincV' v (h.incV v hv)
  · intro v hv
    by_cases hc : V.contains d = true
    · rw [if_pos hc] at hv; exact h.reachV v hv
    · rw [if_neg hc, List.mem_cons] at hv
      rcases hv with rfl | hv
      · exact hpd.2
      · exact h.reachV v hv
  · intro i h1 h2
    have := h.rootsV i h1 h2
    by_cases hc : V.contains d = true
    · rw [if_pos hc]; exact this
    · rw [if_neg hc]; exact List.mem_cons_of_mem _ this
  · intro p x he hp
    have hV : ∀ y, y ∈ V → y ∈ (if V.contains d = true then V else d :: V) := by
      intro y hy
      by_cases hc : V.contains d = true
      · rw [if_pos hc]; exact hy
      · rw [if_neg hc]; exact List.mem_cons_of_mem _ hy
    rcases h.closedV p x he hp with h1 | h1
    · exact Or.inl (hV x h1)
    · rcases List.mem_cons.1 h1 with rfl | h1
      · left
        by_cases hc : V.contains x = true
        · rw [if_pos hc]; exact List.contains_iff_mem.1 hc
        · rw [if_neg hc]; exact List.mem_cons_self
      · exact Or.inr h1
  · intro x hx
    have := h.pendc x (List.mem_cons_of_mem _ hx)
    rw [hsh.alive]; exact this

/-! ### the folds -/

def visitStep (a : G × List Nat × List Nat) (d : Nat) : G × List Nat × List Nat :=
  let g1 := addIncompletePredecessor a.1 d
  if a.2.1.contains d then (g1, a.2.1, a.2.2) else (g1, d :: a.2.1, a.2.2 ++ [d])

def levelStep (acc : G × List Nat × List Nat) (id : Nat) : G × List Nat × List Nat :=
  (acc.1.node id).dependents.foldl visitStep acc

theorem propLevel_eq (g : G) (visited level : List Nat) :
    propLevel g visited level = level.foldl levelStep (g, visited, []) := rfl

theorem visitStep_eq (g : G) (V next : List Nat) (d : Nat) :
    visitStep (g, V, next) d = (addIncompletePredecessor g d,
      (if V.contains d = true then V else d :: V),
      (if V.contains d = true then next else next ++ [d])) := by
  unfold visitStep
  by_cases hc : d ∈ V <;> simp [hc]

theorem PInv.visitFold {gI : G} {Dn rem : List Nat} (hb : EdgeBound gI) :
    ∀ (pend : List Nat) (g : G) (V next : List Nat), PInv gI g V Dn (rem ++ next) pend →
      PInv gI (pend.foldl visitStep (g, V, next)).1 (pend.foldl visitStep (g, V, next)).2.1 Dn
        (rem ++ (pend.foldl visitStep (g, V, next)).2.2) [] := by
  intro pend
  induction pend with
  | nil => intro g V next h; exact h
  | cons d pend ih =>
    intro g V next h
    rw [List.foldl_cons, visitStep_eq]
    apply ih
    have h' := h.visit hb
    by_cases hc : V.contains d = true
    · rw [if_pos hc] at h' ⊢
      rw [if_pos hc] at h'
      rw [if_pos hc]
      exact h'
    · rw [if_neg hc] at h' ⊢
      rw [if_neg hc] at h'
      rw [if_neg hc, ← List.append_assoc]
      exact h'

theorem PInv.levelFold {gI : G} (hw : WF gI) (hb : EdgeBound gI) :
    ∀ (rem : List Nat) (g : G) (V Dn next : List Nat), PInv gI g V Dn (rem ++ next) [] →
      PInv gI (rem.foldl levelStep (g, V, next)).1 (rem.foldl levelStep (g, V, next)).2.1
        (Dn ++ rem) (rem.foldl levelStep (g, V, next)).2.2 [] := by
  intro rem
  induction rem with
  | nil => intro g V Dn next h; simpa using h
  | cons c rem ih =>
    intro g V Dn next h
    rw [List.foldl_cons]
    have h1 : PInv gI g V (Dn ++ [c]) (rem ++ next) (g.node c).dependents :=
      PInv.pop hw (by simpa using h)
    have h2 := PInv.visitFold hb _ _ _ _ h1
    have hstep : levelStep (g, V, next) c = (g.node c).dependents.foldl visitStep (g, V, next) := rfl
    rw [hstep]
    have h3 := ih _ _ (Dn ++ [c]) _ h2
    have : Dn ++ [c] ++ rem = Dn ++ c :: rem := by simp
    rw [this] at h3
    exact h3

theorem PInv.Dn_length_le {gI g : G} {V Dn Q pend : List Nat} (hw : WF gI)
    (h : PInv gI g V Dn Q pend) : Dn.length ≤ (allNodes gI).length := by
  apply List.Nodup.length_le_of_subset h.ndDn
  intro i hi
  rw [hw.mem_all, ← h.shape.alive]
  exact h.liveV i ((h.memV i).2 (Or.inl hi))

theorem propLoop_inv {gI : G} (hw : WF gI) (hb : EdgeBound gI) :
    ∀ (fuel : Nat) (g : G) (V Dn level : List Nat), PInv gI g V Dn level [] →
      (allNodes gI).length < fuel + Dn.length →
      ∃ Dn', PInv gI (propLoop fuel g V level).1 (propLoop fuel g V level).2 Dn' [] [] := by
  intro fuel
  induction fuel with
  | zero =>
    intro g V Dn level h hf
    have := h.Dn_length_le hw
    omega
  | succ fuel ih =>
    intro g V Dn level h hf
    unfold propLoop
    by_cases hl : level = []
    · rw [if_pos hl]; subst hl; exact ⟨Dn, h⟩
    · rw [if_neg hl]
      have h1 := PInv.levelFold hw hb level g V Dn [] (by simpa using h)
      rw [← propLevel_eq] at h1
      have hlen : 0 < level.length := List.length_pos_iff.2 hl
      exact ih _ _ _ _ h1 (by rw [List.length_append]; omega)

/-! ### phase 1 of `forwardPropagate` -/

def propRoots (g : G) : List Nat := (allNodes g).filter fun id => ¬ completed (g.node id)

def propReset (g : G) : G :=
  (propRoots g).foldl (fun g id => g.setNode id { g.node id with inc := 0 }) g

def propPhase1 (g : G) : G × List Nat :=
  propLoop ((allNodes g).length + 1) (propReset g) (propRoots g) (propRoots g)

theorem mem_propRoots {g : G} (hw : WF g) (i : Nat) :
    i ∈ propRoots g ↔ ((g.node i).alive = true ∧ ¬ completed (g.node i) = true) := by
  unfold propRoots
  rw [List.mem_filter, hw.mem_all]
  simp

theorem propReset_facts (g : G) (hw : WF g) :
    (∀ i, (propReset g).node i =
      if i ∈ propRoots g then { g.node i with inc := 0 } else g.node i) ∧
    SameShape g (propReset g) := by
  have h := foldl_setNode_node (fun n => { n with inc := 0 }) (fun _ => rfl)
    (propRoots g) g (fun i hi => lt_of_alive ((mem_propRoots hw i).1 hi).1)
  have h1 : ∀ i, (propReset g).node i =
      if i ∈ propRoots g then { g.node i with inc := 0 } else g.node i := h.1
  refine ⟨h1, h.2.1, h.2.2.1, h.2.2.2.2, h.2.2.2.1, ?_, ?_, ?_, ?_⟩ <;> intro i <;>
    rw [h1 i] <;> split_ifs <;> rfl

theorem PInv.init (g : G) (hw : WF g) :
    PInv g (propReset g) (propRoots g) [] (propRoots g) [] := by
  obtain ⟨hn, hs⟩ := propReset_facts g hw
  have hroot : ∀ i, i ∈ propRoots g → ¬ completed ((propReset g).node i) = true := by
    intro i hi
    rw [hn i, if_pos hi, completed_iff]
    show (0 : Nat) ≠ kCompleted
    unfold kCompleted; omega
  refine ⟨hs, ?_, ?_, ?_, hw.nodup.filter _, List.nodup_nil, hw.nodup.filter _, ?_, ?_, hroot, ?_, ?_, ?_, ?_⟩
  · intro i hi hnc
    exfalso
    have : i ∉ propRoots g := fun hm => ((mem_propRoots hw i).1 hm).2 hi
    rw [hn i, if_neg this] at hnc
    exact hnc hi
  · intro n hal
    rw [srcCount_nil]
    rw [hs.alive] at hal
    by_cases hr : n ∈ propRoots g
    · rw [val_of_not_completed (hroot n hr), hn n, if_pos hr]; rfl
    · have hc : completed (g.node n) = true := by
        by_contra hc
        exact hr ((mem_propRoots hw n).2 ⟨hal, hc⟩)
      rw [hn n, if_neg hr, val_of_completed hc]; rfl
  · intro v; simp
  · intro v hv; cases hv
  · intro v hv
    rw [hs.alive]
    exact ((mem_propRoots hw v).1 hv).1
  · intro v hv
    have := (mem_propRoots hw v).1 hv
    exact Reach.root v this.1 this.2
  · intro i h1 h2
    exact (mem_propRoots hw i).2 ⟨h1, h2⟩
  · intro p d _ hp; cases hp
  · intro d hd; cases hd

/-- what the BFS establishes -/
structure Phase1 (g g1 : G) (V : List Nat) : Prop where
  shape : SameShape g g1
  ndV : V.Nodup
  memV : ∀ i, i ∈ V ↔ Reach g i
  liveV : ∀ i ∈ V, (g.node i).alive = true
  inc_iff : ∀ i, (g.node i).alive = true → (¬ completed (g1.node i) = true ↔ i ∈ V)
  inc_eq : ∀ n, (g.node n).alive = true → ¬ completed (g1.node n) = true →
    (g1.node n).inc = srcCount g V n

theorem reach_alive {g : G} (hw : WF g) {i : Nat} (h : Reach g i) : (g.node i).alive = true := by
  induction h with
  | root i h1 _ => exact h1
  | step p d _ he _ => exact hw.deps_live p d he

theorem phase1_spec (g : G) (hw : WF g) (hb : EdgeBound g) :
    Phase1 g (propPhase1 g).1 (propPhase1 g).2 := by
  obtain ⟨Dn, h⟩ := propLoop_inv hw hb ((allNodes g).length + 1) (propReset g) (propRoots g) []
    (propRoots g) (PInv.init g hw) (by simp)
  change PInv g (propPhase1 g).1 (propPhase1 g).2 Dn [] [] at h
  have hVD : ∀ v, v ∈ (propPhase1 g).2 ↔ v ∈ Dn := by
    intro v; rw [h.memV v]; simp
  have hreach : ∀ i, Reach g i → i ∈ (propPhase1 g).2 := by
    intro i hi
    induction hi with
    | root i h1 h2 => exact h.rootsV i h1 h2
    | step p d _ he ih =>
      rcases h.closedV p d he ((hVD p).1 ih) with h1 | h1
      · exact h1
      · cases h1
  have hmem : ∀ i, i ∈ (propPhase1 g).2 ↔ Reach g i := fun i => ⟨h.reachV i, hreach i⟩
  have hsrc : ∀ n, srcCount g Dn n = srcCount g (propPhase1 g).2 n := by
    intro n
    unfold srcCount
    apply List.countP_congr
    intro e _
    simp [hVD]
  have hinc_iff : ∀ i, (g.node i).alive = true →
      (¬ completed ((propPhase1 g).1.node i) = true ↔ i ∈ (propPhase1 g).2) := by
    intro i hal
    constructor
    · intro hnc
      by_cases hr : completed (g.node i) = true
      · have h1 := h.nonroot i hr hnc
        have h2 := h.cnt i (by rw [h.shape.alive]; exact hal)
        rw [val_of_not_completed hnc] at h2
        simp only [List.count_nil, Nat.add_zero] at h2
        obtain ⟨p, he, hp⟩ := exists_of_srcCount_pos (g := g) (S := Dn) (n := i) (by omega)
        rcases h.closedV p i he hp with h3 | h3
        · exact h3
        · cases h3
      · exact h.rootsV i hal hr
    · intro hi; exact h.incV i hi
  refine ⟨h.shape, h.ndV, hmem, ?_, hinc_iff, ?_⟩
  · intro i hi
    rw [← h.shape.alive]; exact h.liveV i hi
  · intro n hal hnc
    have h2 := h.cnt n (by rw [h.shape.alive]; exact hal)
    rw [val_of_not_completed hnc] at h2
    simp only [List.count_nil, Nat.add_zero] at h2
    rw [h2, hsrc]

end Dispenso.Graph
