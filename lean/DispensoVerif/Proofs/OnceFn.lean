import DispensoVerif.Model.OnceFn
import DispensoVerif.Proofs.Bits

/-! Helper lemmas for C39 (`OnceFunction`): the storage decision, association-list facts about
`get`/`put`, the `bump`/`count` ledgers, weighted sums over the object pool (holders of a callable,
objects holding a spilled callable), a projection form `stepSt` of the state component of `step`,
the exactly-once invariant and its preservation. -/
namespace Dispenso.OnceFn

/-! ### storage decision -/

theorem plan_inline (size align : Nat) (h : plan size align = .inline) :
    size ≤ 56 ∧ align ≤ 64 := by
  unfold plan kInlineSize at h
  split at h
  · assumption
  · cases h

theorem plan_spill_eq (size align a : Nat) (h : plan size align = .spill a) :
    a = (Bits.nextPow2 (BitVec.ofNat 64 (max size align))).toNat := by
  unfold plan at h
  split at h
  · cases h
  · injection h with h; exact h.symm

theorem plan_spill (size align k a : Nat) (ha : align = 2 ^ k) (hk : k ≤ 8) (hs : 1 ≤ size)
    (hsz : size ≤ 2 ^ 32) (hp : plan size align = .spill a) :
    size ≤ a ∧ align ∣ a ∧ ∃ j, a = 2 ^ j := by
  have hal : align ≤ 2 ^ 8 := by rw [ha]; exact Nat.pow_le_pow_right (by decide) hk
  have hm : max size align ≤ 2 ^ 32 := by
    have : (2 : Nat) ^ 8 ≤ 2 ^ 32 := by decide
    omega
  have hto : (BitVec.ofNat 64 (max size align)).toNat = max size align := by
    rw [BitVec.toNat_ofNat]
    apply Nat.mod_eq_of_lt
    have : (2 : Nat) ^ 32 < 2 ^ 64 := by decide
    omega
  obtain ⟨j, hj1, hj2, _⟩ := Bits.nextPow2_spec (BitVec.ofNat 64 (max size align))
    (by rw [hto]; omega) (by rw [hto]; have : (2 : Nat) ^ 32 ≤ 2 ^ 63 := by decide
                             omega)
  rw [hto] at hj2
  have haj : a = 2 ^ j := by rw [plan_spill_eq size align a hp, hj1]
  refine ⟨by omega, ?_, j, haj⟩
  rw [haj, ha]
  apply Nat.pow_dvd_pow
  have : 2 ^ k ≤ 2 ^ j := by omega
  exact (Nat.pow_le_pow_iff_right (by decide : 1 < 2)).1 this

/-! ### raw association lists -/

/-- lookup in an association list -/
def lk {α : Type} (l : List (Nat × α)) (o : Nat) : Option α := (l.find? (·.1 = o)).map (·.2)

/-- overwrite in an association list -/
def pupd {α : Type} (l : List (Nat × α)) (o : Nat) (v : α) : List (Nat × α) :=
  l.map fun p => if p.1 = o then (p.1, v) else p

/-- weighted sum over an association list -/
def wsum {α : Type} (w : α → Int) (l : List (Nat × α)) : Int := (l.map fun p => w p.2).sum

section assoc
variable {α : Type}

@[simp] theorem lk_nil (o : Nat) : lk ([] : List (Nat × α)) o = none := rfl
theorem lk_cons (p : Nat × α) (t : List (Nat × α)) (o : Nat) :
    lk (p :: t) o = if p.1 = o then some p.2 else lk t o := by
  unfold lk
  by_cases h : p.1 = o <;> simp [h]

@[simp] theorem pupd_nil (o : Nat) (c : α) : pupd ([] : List (Nat × α)) o c = [] := rfl
theorem pupd_cons (p : Nat × α) (t : List (Nat × α)) (o : Nat) (c : α) :
    pupd (p :: t) o c = (if p.1 = o then (p.1, c) else p) :: pupd t o c := rfl

@[simp] theorem wsum_nil (w : α → Int) : wsum w ([] : List (Nat × α)) = 0 := rfl
theorem wsum_cons (w : α → Int) (p : Nat × α) (t : List (Nat × α)) :
    wsum w (p :: t) = w p.2 + wsum w t := by
  unfold wsum; simp

theorem wsum_append (w : α → Int) (l₁ l₂ : List (Nat × α)) :
    wsum w (l₁ ++ l₂) = wsum w l₁ + wsum w l₂ := by
  induction l₁ with
  | nil => simp
  | cons p t ih => rw [List.cons_append, wsum_cons, wsum_cons, ih]; omega

theorem wsum_single (w : α → Int) (n : Nat) (v : α) : wsum w [(n, v)] = w v := by
  rw [wsum_cons]; simp

theorem wsum_nonneg (w : α → Int) (hw : ∀ x, 0 ≤ w x) (l : List (Nat × α)) : 0 ≤ wsum w l := by
  induction l with
  | nil => simp
  | cons p t ih => rw [wsum_cons]; have := hw p.2; omega

theorem wsum_eq_zero (w : α → Int) (l : List (Nat × α)) (h : ∀ p ∈ l, w p.2 = 0) :
    wsum w l = 0 := by
  induction l with
  | nil => simp
  | cons p t ih =>
    rw [wsum_cons, h p List.mem_cons_self, ih (fun q hq => h q (List.mem_cons_of_mem _ hq))]
    rfl

theorem pupd_ids (l : List (Nat × α)) (o : Nat) (c : α) :
    (pupd l o c).map Prod.fst = l.map Prod.fst := by
  induction l with
  | nil => rfl
  | cons p t ih =>
    rw [pupd_cons, List.map_cons, List.map_cons, ih]
    by_cases h : p.1 = o <;> simp [h]

theorem lk_none_iff (l : List (Nat × α)) (o : Nat) : lk l o = none ↔ o ∉ l.map Prod.fst := by
  induction l with
  | nil => simp
  | cons p t ih =>
    rw [lk_cons]
    by_cases h : p.1 = o
    · simp [h]
    · simp only [h, if_false, ih, List.map_cons, List.mem_cons, not_or]
      exact ⟨fun h' => ⟨fun e => h e.symm, h'⟩, fun h' => h'.2⟩

theorem pupd_of_not_mem (l : List (Nat × α)) (o : Nat) (c : α) (h : o ∉ l.map Prod.fst) :
    pupd l o c = l := by
  induction l with
  | nil => rfl
  | cons p t ih =>
    simp only [List.map_cons, List.mem_cons, not_or] at h
    rw [pupd_cons, ih h.2, if_neg (fun e => h.1 e.symm)]

theorem lk_pupd_self (l : List (Nat × α)) (o : Nat) (c : α) :
    lk (pupd l o c) o = (lk l o).map fun _ => c := by
  induction l with
  | nil => rfl
  | cons p t ih =>
    rw [pupd_cons, lk_cons, lk_cons]
    by_cases h : p.1 = o <;> simp [h, ih]

theorem lk_pupd_ne (l : List (Nat × α)) (o o' : Nat) (c : α) (hne : o' ≠ o) :
    lk (pupd l o c) o' = lk l o' := by
  induction l with
  | nil => rfl
  | cons p t ih =>
    rw [pupd_cons, lk_cons, lk_cons, ih]
    by_cases h : p.1 = o
    · simp [h, Ne.symm hne]
    · simp [h]

theorem lk_append (l₁ l₂ : List (Nat × α)) (o : Nat) :
    lk (l₁ ++ l₂) o = (lk l₁ o).or (lk l₂ o) := by
  induction l₁ with
  | nil => simp
  | cons p t ih =>
    rw [List.cons_append, lk_cons, lk_cons, ih]
    by_cases h : p.1 = o <;> simp [h]

theorem lk_filter (l : List (Nat × α)) (o o' : Nat) :
    lk (l.filter (·.1 ≠ o)) o' = if o' = o then none else lk l o' := by
  induction l with
  | nil => simp
  | cons p t ih =>
    by_cases h : p.1 = o
    · rw [List.filter_cons_of_neg (by simp [h]), ih, lk_cons]
      by_cases h' : o' = o
      · simp [h']
      · have : ¬ p.1 = o' := fun e => h' (e.symm.trans h)
        simp [h', this]
    · rw [List.filter_cons_of_pos (by simp [h]), lk_cons, lk_cons, ih]
      by_cases h' : o' = o
      · simp [h', h]
      · simp [h']

theorem filter_of_not_mem (l : List (Nat × α)) (o : Nat) (h : o ∉ l.map Prod.fst) :
    l.filter (·.1 ≠ o) = l := by
  induction l with
  | nil => rfl
  | cons p t ih =>
    simp only [List.map_cons, List.mem_cons, not_or] at h
    rw [List.filter_cons_of_pos (by simpa using fun e => h.1 e.symm), ih h.2]

/-- effect of overwriting the (unique) entry `o` on a weighted sum -/
theorem wsum_pupd (w : α → Int) (l : List (Nat × α)) (o : Nat) (c d : α)
    (hn : (l.map Prod.fst).Nodup) (hd : lk l o = some d) :
    wsum w (pupd l o c) = wsum w l - w d + w c := by
  induction l with
  | nil => simp at hd
  | cons p t ih =>
    rw [List.map_cons, List.nodup_cons] at hn
    rw [lk_cons] at hd
    rw [pupd_cons, wsum_cons, wsum_cons]
    by_cases h : p.1 = o
    · simp only [h, if_true, Option.some.injEq] at hd
      rw [pupd_of_not_mem t o c (h ▸ hn.1), if_pos h, hd]
      simp only
      omega
    · simp only [h, if_false] at hd
      rw [ih hn.2 hd, if_neg h]
      omega

/-- effect of removing the (unique) entry `o` on a weighted sum -/
theorem wsum_filter (w : α → Int) (l : List (Nat × α)) (o : Nat) (d : α)
    (hn : (l.map Prod.fst).Nodup) (hd : lk l o = some d) :
    wsum w (l.filter (·.1 ≠ o)) = wsum w l - w d := by
  induction l with
  | nil => simp at hd
  | cons p t ih =>
    rw [List.map_cons, List.nodup_cons] at hn
    rw [lk_cons] at hd
    by_cases h : p.1 = o
    · simp only [h, if_true, Option.some.injEq] at hd
      rw [List.filter_cons_of_neg (by simp [h]), filter_of_not_mem t o (h ▸ hn.1), wsum_cons, hd]
      omega
    · simp only [h, if_false] at hd
      rw [List.filter_cons_of_pos (by simp [h]), wsum_cons, wsum_cons, ih hn.2 hd]
      omega

/-- a present entry contributes its weight -/
theorem wsum_ge (w : α → Int) (hw : ∀ x, 0 ≤ w x) (l : List (Nat × α)) (o : Nat) (d : α)
    (hd : lk l o = some d) : w d ≤ wsum w l := by
  induction l with
  | nil => simp at hd
  | cons p t ih =>
    rw [lk_cons] at hd
    rw [wsum_cons]
    by_cases h : p.1 = o
    · simp only [h, if_true, Option.some.injEq] at hd
      have := wsum_nonneg w hw t
      rw [hd]; omega
    · simp only [h, if_false] at hd
      have := ih hd
      have := hw p.2
      omega

/-- an indicator sum is a count -/
theorem wsum_ind (q : α → Bool) (l : List (Nat × α)) :
    wsum (fun x => if q x then 1 else 0) l = ((l.countP fun p => q p.2 : Nat) : Int) := by
  induction l with
  | nil => rfl
  | cons p t ih =>
    rw [wsum_cons, ih, List.countP_cons]
    by_cases h : q p.2 <;> simp [h]; omega

end assoc

/-! ### `bump` / `count` -/

theorem count_nil (k : Nat) : count [] k = 0 := rfl

theorem count_cons (p : Nat × Nat) (t : List (Nat × Nat)) (k : Nat) :
    count (p :: t) k = if p.1 = k then p.2 else count t k := by
  unfold count
  by_cases h : p.1 = k <;> simp [h]

theorem count_map_ne (l : List (Nat × Nat)) (k k' : Nat) (h : k' ≠ k) :
    count (l.map fun p => if p.1 = k then (p.1, p.2 + 1) else p) k' = count l k' := by
  induction l with
  | nil => rfl
  | cons p t ih =>
    rw [List.map_cons, count_cons, count_cons, ih]
    by_cases hp : p.1 = k
    · have : ¬ p.1 = k' := fun e => h (e.symm.trans hp)
      simp [hp, Ne.symm h]
    · simp [hp]

theorem count_map_self (l : List (Nat × Nat)) (k : Nat) (h : l.any (·.1 = k) = true) :
    count (l.map fun p => if p.1 = k then (p.1, p.2 + 1) else p) k = count l k + 1 := by
  induction l with
  | nil => simp at h
  | cons p t ih =>
    rw [List.map_cons, count_cons, count_cons]
    by_cases hp : p.1 = k
    · simp [hp]
    · have ht : t.any (·.1 = k) = true := by simpa [hp] using h
      simp [hp, ih ht]

theorem count_append_absent (l : List (Nat × Nat)) (k k' : Nat) (h : l.any (·.1 = k) = false) :
    count (l ++ [(k, 1)]) k' = count l k' + if k' = k then 1 else 0 := by
  induction l with
  | nil =>
    simp only [List.nil_append, count_cons, count_nil]
    by_cases e : k = k'
    · simp [e]
    · have : ¬ k' = k := fun e' => e e'.symm
      simp [e, this]
  | cons p t ih =>
    have hp : ¬ p.1 = k := by
      intro e; simp [e] at h
    have ht : t.any (·.1 = k) = false := by simpa [hp] using h
    rw [List.cons_append, count_cons, count_cons, ih ht]
    by_cases e : p.1 = k'
    · have : ¬ k' = k := fun e' => hp (e.trans e')
      simp [e, this]
    · simp [e]

theorem count_bump (l : List (Nat × Nat)) (k k' : Nat) :
    count (bump l k) k' = count l k' + if k' = k then 1 else 0 := by
  unfold bump
  by_cases h : l.any (·.1 = k) = true
  · rw [if_pos h]
    by_cases e : k' = k
    · subst e; rw [count_map_self l k' h]; simp
    · rw [count_map_ne l k k' e]; simp [e]
  · rw [if_neg h]
    exact count_append_absent l k k' (Bool.eq_false_iff.2 h)

theorem count_bump_self (l : List (Nat × Nat)) (k : Nat) : count (bump l k) k = count l k + 1 := by
  rw [count_bump]; simp

theorem count_bump_ne (l : List (Nat × Nat)) (k k' : Nat) (h : k' ≠ k) :
    count (bump l k) k' = count l k' := by
  rw [count_bump]; simp [h]

/-! ### weights -/

/-- 1 if the object holds callable `c` -/
def hold (c : Nat) (x : Option Fn) : Int := if x.map (·.callable) = some c then 1 else 0

/-- 1 if the storage is a spill block -/
def spS : Storage → Int
  | .inline => 0
  | .spill _ => 1

/-- 1 if the object holds a spilled callable -/
def spw : Option Fn → Int
  | some f => spS f.storage
  | none => 0

@[simp] theorem hold_none (c : Nat) : hold c none = 0 := rfl
theorem hold_some (c : Nat) (f : Fn) : hold c (some f) = if f.callable = c then 1 else 0 := by
  simp [hold]
@[simp] theorem hold_some_self (f : Fn) : hold f.callable (some f) = 1 := by simp [hold]
theorem hold_nonneg (c : Nat) (x : Option Fn) : 0 ≤ hold c x := by
  unfold hold; split <;> decide
@[simp] theorem spw_none : spw none = 0 := rfl
theorem spw_nonneg (x : Option Fn) : 0 ≤ spw x := by
  cases x with
  | none => decide
  | some f => rcases f with ⟨c, _ | a⟩ <;> simp [spw, spS]

/-! ### the state component of `step`, in projection form -/

theorem get_eq (s : St) (o : Nat) : get s o = lk s.objs o := rfl
@[simp] theorem put_objs (s : St) (o : Nat) (c : Option Fn) : (put s o c).objs = pupd s.objs o c := rfl
@[simp] theorem put_called (s : St) (o : Nat) (c : Option Fn) : (put s o c).called = s.called := rfl
@[simp] theorem put_destroyed (s : St) (o : Nat) (c : Option Fn) :
    (put s o c).destroyed = s.destroyed := rfl
@[simp] theorem put_blocks (s : St) (o : Nat) (c : Option Fn) : (put s o c).blocks = s.blocks := rfl
@[simp] theorem put_nextObj (s : St) (o : Nat) (c : Option Fn) : (put s o c).nextObj = s.nextObj := rfl
@[simp] theorem put_nextCallable (s : St) (o : Nat) (c : Option Fn) :
    (put s o c).nextCallable = s.nextCallable := rfl

def stepSt (s : St) : Op → St
  | .create size align =>
    { s with objs := s.objs ++ [(s.nextObj, some ⟨s.nextCallable, plan size align⟩)],
             nextObj := s.nextObj + 1, nextCallable := s.nextCallable + 1,
             blocks := s.blocks + spS (plan size align) }
  | .mkEmpty => { s with objs := s.objs ++ [(s.nextObj, none)], nextObj := s.nextObj + 1 }
  | .moveCtor src =>
    match get s src with
    | some (some f) =>
      { s with objs := pupd s.objs src none ++ [(s.nextObj, some f)], nextObj := s.nextObj + 1 }
    | _ => s
  | .moveAssign dst src =>
    match get s dst, get s src with
    | some none, some (some f) => if dst = src then s else put (put s src none) dst (some f)
    | _, _ => s
  | .invoke o =>
    match get s o with
    | some (some f) =>
      { s with objs := pupd s.objs o none, called := bump s.called f.callable,
               destroyed := bump s.destroyed f.callable, blocks := s.blocks + -spS f.storage }
    | _ => s
  | .cleanup o =>
    match get s o with
    | some (some f) =>
      { s with objs := pupd s.objs o none, destroyed := bump s.destroyed f.callable,
               blocks := s.blocks + -spS f.storage }
    | _ => s
  | .drop o =>
    match get s o with
    | some none => { s with objs := s.objs.filter (·.1 ≠ o) }
    | _ => s

theorem step_fst (s : St) (op : Op) : (step s op).1 = stepSt s op := by
  cases op with
  | create size align =>
    simp only [step, stepSt]
    cases plan size align <;> rfl
  | mkEmpty => rfl
  | moveCtor src =>
    simp only [step, stepSt]
    rcases get s src with _ | _ | f <;> rfl
  | moveAssign dst src =>
    simp only [step, stepSt]
    rcases get s dst with _ | _ | g <;> rcases get s src with _ | _ | f <;> (try rfl)
    simp only []; split <;> rfl
  | invoke o =>
    simp only [step, stepSt]
    rcases get s o with _ | _ | f <;> (try rfl)
    rcases f with ⟨c, _ | a⟩ <;> rfl
  | cleanup o =>
    simp only [step, stepSt]
    rcases get s o with _ | _ | f <;> (try rfl)
    rcases f with ⟨c, _ | a⟩ <;> rfl
  | drop o =>
    simp only [step, stepSt]
    rcases get s o with _ | _ | f <;> rfl

theorem runOps_cons (s : St) (o : Op) (os : List Op) :
    runOps s (o :: os) = runOps (stepSt s o) os := by
  rw [runOps, step_fst]

/-! ### `get` after the primitive updates -/

theorem get_put_self (s : St) (o : Nat) (v : Option Fn) :
    get (put s o v) o = (get s o).map fun _ => v := by
  rw [get_eq, put_objs, lk_pupd_self, get_eq]

theorem get_put_ne (s : St) (o o' : Nat) (v : Option Fn) (h : o' ≠ o) :
    get (put s o v) o' = get s o' := by
  rw [get_eq, put_objs, lk_pupd_ne _ _ _ _ h, get_eq]

/-! ### invariant -/

structure WFp (l : List (Nat × Option Fn)) (n : Nat) : Prop where
  nodup : (l.map Prod.fst).Nodup
  lt : ∀ p ∈ l, p.1 < n

theorem WFp.not_mem {l : List (Nat × Option Fn)} {n : Nat} (h : WFp l n) :
    n ∉ l.map Prod.fst := by
  intro hm
  obtain ⟨p, hp, e⟩ := List.mem_map.1 hm
  have := h.lt p hp
  omega

theorem WFp.pres_upd {l : List (Nat × Option Fn)} {n : Nat} (h : WFp l n) (o : Nat)
    (v : Option Fn) : WFp (pupd l o v) n := by
  constructor
  · rw [pupd_ids]; exact h.nodup
  · intro p hp
    have : p.1 ∈ (pupd l o v).map Prod.fst := List.mem_map.2 ⟨p, hp, rfl⟩
    rw [pupd_ids] at this
    obtain ⟨q, hq, e⟩ := List.mem_map.1 this
    rw [← e]; exact h.lt q hq

theorem WFp.pres_app {l : List (Nat × Option Fn)} {n : Nat} (h : WFp l n) (v : Option Fn) :
    WFp (l ++ [(n, v)]) (n + 1) := by
  constructor
  · simp only [List.map_append, List.map_cons, List.map_nil]
    rw [List.nodup_append]
    refine ⟨h.nodup, by simp, ?_⟩
    intro a ha b hb e
    simp only [List.mem_singleton] at hb
    subst hb; subst e
    exact h.not_mem ha
  · intro p hp
    simp only [List.mem_append, List.mem_singleton] at hp
    rcases hp with hp | hp
    · have := h.lt p hp; omega
    · subst hp; simp

theorem WFp.pres_filter {l : List (Nat × Option Fn)} {n : Nat} (h : WFp l n) (o : Nat) :
    WFp (l.filter (·.1 ≠ o)) n := by
  constructor
  · exact (List.filter_sublist.map Prod.fst).nodup h.nodup
  · intro p hp
    exact h.lt p (List.mem_filter.1 hp).1

/-- number of objects holding callable `c` -/
def holders (s : St) (c : Nat) : Int := wsum (hold c) s.objs

/-- number of objects holding a spilled callable -/
def spilled (s : St) : Int := wsum spw s.objs

/-- the exactly-once invariant -/
structure Inv (s : St) : Prop where
  /-- object ids are unique and below `nextObj` -/
  wf : WFp s.objs s.nextObj
  /-- a callable already created is either held by exactly one object and has been neither called
      nor destroyed, or held by no object, destroyed exactly once and called at most once -/
  once : ∀ c, c < s.nextCallable →
    (holders s c = 1 ∧ count s.called c = 0 ∧ count s.destroyed c = 0) ∨
    (holders s c = 0 ∧ count s.destroyed c = 1 ∧ count s.called c ≤ 1)
  /-- callable ids not yet created are held by nobody and have empty ledgers -/
  fresh : ∀ c, s.nextCallable ≤ c →
    holders s c = 0 ∧ count s.called c = 0 ∧ count s.destroyed c = 0
  /-- spill blocks outstanding = objects holding a spilled callable -/
  blocks : s.blocks = spilled s

theorem Inv.init : Inv St.init :=
  ⟨⟨by simp [St.init], by simp [St.init]⟩, fun c hc => absurd hc (Nat.not_lt_zero c),
   fun _ _ => ⟨rfl, rfl, rfl⟩, rfl⟩

/-- a callable held by an object is held by that object only, and has been neither called nor
    destroyed -/
theorem Inv.held {s : St} (h : Inv s) {o : Nat} {f : Fn} (hg : get s o = some (some f)) :
    f.callable < s.nextCallable ∧ holders s f.callable = 1 ∧
      count s.called f.callable = 0 ∧ count s.destroyed f.callable = 0 := by
  have hge : 1 ≤ holders s f.callable := by
    have := wsum_ge (hold f.callable) (hold_nonneg _) s.objs o (some f) hg
    rw [hold_some_self] at this
    exact this
  by_cases hc : f.callable < s.nextCallable
  · rcases h.once _ hc with h1 | h1
    · exact ⟨hc, h1⟩
    · omega
  · have := (h.fresh f.callable (by omega)).1
    omega

theorem Inv.get_next {s : St} (h : Inv s) : get s s.nextObj = none :=
  (lk_none_iff _ _).2 h.wf.not_mem

theorem Inv.pres_stepSt {s : St} (h : Inv s) (op : Op) : Inv (stepSt s op) := by
  cases op with
  | create size align =>
    simp only [stepSt]
    have hH : ∀ c, holders ⟨s.objs ++ [(s.nextObj, some ⟨s.nextCallable, plan size align⟩)],
        s.called, s.destroyed, s.blocks + spS (plan size align), s.nextObj + 1,
        s.nextCallable + 1⟩ c = holders s c + if s.nextCallable = c then 1 else 0 := by
      intro c
      simp only [holders, wsum_append, wsum_single, hold_some]
    refine ⟨h.wf.pres_app _, ?_, ?_, ?_⟩
    · intro c hc
      rw [hH]
      simp only [] at hc ⊢
      by_cases e : s.nextCallable = c
      · have := h.fresh c (by omega)
        simp only [e, if_true]
        left; omega
      · simp only [e, if_false]
        have := h.once c (by omega)
        omega
    · intro c hc
      rw [hH]
      simp only [] at hc ⊢
      have := h.fresh c (by omega)
      rw [if_neg (by omega)]
      omega
    · simp only [spilled, wsum_append, wsum_single, spw]
      rw [h.blocks]; rfl
  | mkEmpty =>
    simp only [stepSt]
    have hH : ∀ c, holders ⟨s.objs ++ [(s.nextObj, none)], s.called, s.destroyed, s.blocks,
        s.nextObj + 1, s.nextCallable⟩ c = holders s c := by
      intro c
      simp only [holders, wsum_append, wsum_single, hold_none]; omega
    refine ⟨h.wf.pres_app _, ?_, ?_, ?_⟩
    · intro c hc; rw [hH]; exact h.once c hc
    · intro c hc; rw [hH]; exact h.fresh c hc
    · simp only [spilled, wsum_append, wsum_single, spw_none]
      rw [h.blocks]; simp [spilled]
  | moveCtor src =>
    simp only [stepSt]
    split
    · next f hf =>
      have hH : ∀ c, holders ⟨pupd s.objs src none ++ [(s.nextObj, some f)], s.called, s.destroyed,
          s.blocks, s.nextObj + 1, s.nextCallable⟩ c = holders s c := by
        intro c
        simp only [holders, wsum_append, wsum_single,
          wsum_pupd _ _ _ none _ h.wf.nodup hf, hold_none]
        omega
      refine ⟨(h.wf.pres_upd _ _).pres_app _, ?_, ?_, ?_⟩
      · intro c hc; rw [hH]; exact h.once c hc
      · intro c hc; rw [hH]; exact h.fresh c hc
      · simp only [spilled, wsum_append, wsum_single,
          wsum_pupd _ _ _ none _ h.wf.nodup hf, spw_none]
        rw [h.blocks]; simp only [spilled]; omega
    · exact h
  | moveAssign dst src =>
    simp only [stepSt]
    split
    · next f hd hf =>
      split
      · exact h
      · next hne =>
        have hd' : lk (pupd s.objs src none) dst = some none := by
          rw [lk_pupd_ne _ _ _ _ hne]; exact hd
        have hn' : ((pupd s.objs src (none : Option Fn)).map Prod.fst).Nodup := by
          rw [pupd_ids]; exact h.wf.nodup
        have hH : ∀ c, holders (put (put s src none) dst (some f)) c = holders s c := by
          intro c
          simp only [holders, put_objs, wsum_pupd _ _ _ (some f) _ hn' hd',
            wsum_pupd _ _ _ none _ h.wf.nodup hf, hold_none]
          omega
        refine ⟨(h.wf.pres_upd _ _).pres_upd _ _, ?_, ?_, ?_⟩
        · intro c hc; rw [hH]; exact h.once c hc
        · intro c hc; rw [hH]; exact h.fresh c hc
        · simp only [spilled, put_objs, put_blocks, wsum_pupd _ _ _ (some f) _ hn' hd',
            wsum_pupd _ _ _ none _ h.wf.nodup hf, spw_none]
          rw [h.blocks]; simp only [spilled]; omega
    · exact h
  | invoke o =>
    simp only [stepSt]
    split
    · next f hf =>
      obtain ⟨hlt, hh, hc0, hd0⟩ := h.held hf
      have hH : ∀ c, holders ⟨pupd s.objs o none, bump s.called f.callable,
          bump s.destroyed f.callable, s.blocks + -spS f.storage, s.nextObj, s.nextCallable⟩ c
          = holders s c - if f.callable = c then 1 else 0 := by
        intro c
        simp only [holders, wsum_pupd _ _ _ none _ h.wf.nodup hf, hold_none, hold_some]
        omega
      refine ⟨h.wf.pres_upd _ _, ?_, ?_, ?_⟩
      · intro c hc
        rw [hH]
        simp only [count_bump] at hc ⊢
        by_cases e : f.callable = c
        · subst e
          simp only [if_true]
          right; omega
        · have := h.once c hc
          simp only [e, Ne.symm e, if_false]
          omega
      · intro c hc
        rw [hH]
        simp only [count_bump] at hc ⊢
        have e : ¬ f.callable = c := by omega
        have := h.fresh c hc
        simp only [e, Ne.symm e, if_false]
        omega
      · simp only [spilled, wsum_pupd _ _ _ none _ h.wf.nodup hf, spw]
        rw [h.blocks]; simp only [spilled]; omega
    · exact h
  | cleanup o =>
    simp only [stepSt]
    split
    · next f hf =>
      obtain ⟨hlt, hh, hc0, hd0⟩ := h.held hf
      have hH : ∀ c, holders ⟨pupd s.objs o none, s.called,
          bump s.destroyed f.callable, s.blocks + -spS f.storage, s.nextObj, s.nextCallable⟩ c
          = holders s c - if f.callable = c then 1 else 0 := by
        intro c
        simp only [holders, wsum_pupd _ _ _ none _ h.wf.nodup hf, hold_none, hold_some]
        omega
      refine ⟨h.wf.pres_upd _ _, ?_, ?_, ?_⟩
      · intro c hc
        rw [hH]
        simp only [count_bump] at hc ⊢
        by_cases e : f.callable = c
        · subst e
          simp only [if_true]
          right; omega
        · have := h.once c hc
          simp only [e, Ne.symm e, if_false]
          omega
      · intro c hc
        rw [hH]
        simp only [count_bump] at hc ⊢
        have e : ¬ f.callable = c := by omega
        have := h.fresh c hc
        simp only [e, Ne.symm e, if_false]
        omega
      · simp only [spilled, wsum_pupd _ _ _ none _ h.wf.nodup hf, spw]
        rw [h.blocks]; simp only [spilled]; omega
    · exact h
  | drop o =>
    simp only [stepSt]
    split
    · next hf =>
      have hH : ∀ c, holders ⟨s.objs.filter (·.1 ≠ o), s.called, s.destroyed, s.blocks, s.nextObj,
          s.nextCallable⟩ c = holders s c := by
        intro c
        simp only [holders, wsum_filter _ _ _ _ h.wf.nodup hf, hold_none]
        omega
      refine ⟨h.wf.pres_filter _, ?_, ?_, ?_⟩
      · intro c hc; rw [hH]; exact h.once c hc
      · intro c hc; rw [hH]; exact h.fresh c hc
      · simp only [spilled, wsum_filter _ _ _ _ h.wf.nodup hf, spw_none]
        rw [h.blocks]; simp only [spilled]; omega
    · exact h

theorem Inv.pres_runOps {s : St} (h : Inv s) (ops : List Op) : Inv (runOps s ops) := by
  induction ops generalizing s with
  | nil => exact h
  | cons o os ih => rw [runOps_cons]; exact ih (h.pres_stepSt o)

end Dispenso.OnceFn
