import DispensoVerif.Proofs.PipeOnce
/-!
Definitions used in the statements of C27–C29 (`inflight`, `genInflight`, the configuration of the
witness runs) and the lemmas that connect the invariants to those statements.
-/
namespace Dispenso.Pipe
open Choice
set_option linter.unusedSimpArgs false
set_option linter.unusedTactic false
set_option linter.unusedVariables false

theorem wP1_le_lvl (j i : Nat) (f : Frame) : wP1 (j + 1) i f ≤ wLvl j f := by
  cases f <;> simp [wP1, hwP1, wLvl, wL0, wLs] <;> (repeat' split) <;> simp_all <;> omega

theorem wP2_le_ls (s i : Nat) (f : Frame) : wP2 s i f ≤ wLs s f := by
  cases f <;> simp [wP2, wLs] <;> (repeat' split) <;> simp_all <;> omega

theorem wP3_le_ls (s i : Nat) (f : Frame) : wP3 s i f ≤ wLs s f := by
  cases f <;> simp [wP3, wLs] <;> (repeat' split) <;> simp_all <;> omega

theorem pastL_done (s : Nat) (r : Option Exc) : pastL s (.done r) := by simp [pastL]


/-- the conservation equations of item `i` at stage `s` once `pipeline()` has returned -/
theorem item_final {c : Cfg} {st : St} (hr : Reach c st) {r : Option Exc}
    (hd : st.sh.mpc = .done r) (hT : st.sh.thrown = 0) (s i : Nat) (h1 : 1 ≤ s) (hn : s ≤ c.n) :
    st.sh.ran s i = st.sh.arr s i ∧ st.sh.arr (s + 1) i = st.sh.passed s i ∧
      st.sh.passed s i + st.sh.stopped s i = st.sh.ran s i := by
  have hc := calm hr hT
  obtain ⟨j, rfl⟩ : ∃ j, s = j + 1 := ⟨s - 1, by omega⟩
  have hp : pastL (j + 1) st.sh.mpc := by rw [hd]; exact pastL_done _ _
  obtain ⟨h0, _, hpend, _⟩ := hc.lv j hn hp
  -- the previous level is empty as well
  have hprev : SW (wLvl j) c st = 0 := by
    cases j with
    | zero =>
      have a := (hc.l0 (pastL_past0 hp)).1
      have b := (z0_inv c hr).1
      unfold SW at *
      rw [wLvl_zero, sumT_add]; omega
    | succ j' =>
      rw [wLvl_succ]
      exact (hc.lv j' (by omega) (pastL_succ hp)).1
  have e1 := p1_inv c (j + 1) i hr
  have e2 := p2_inv c (j + 1) i hr
  have e3 := p3_inv c (j + 1) i hr
  have e4 := (item_chain hr (j + 1) i).2.2.1
  have z1 : SW (wP1 (j + 1) i) c st = 0 :=
    SW_zero_of_le (wP1_nn _ _) (wP1_le_lvl j i) (by omega)
  have z2 : SW (wP2 (j + 1) i) c st = 0 := SW_zero_of_le (wP2_nn _ _) (wP2_le_ls _ i) (by omega)
  have z3 : SW (wP3 (j + 1) i) c st = 0 := SW_zero_of_le (wP3_nn _ _) (wP3_le_ls _ i) (by omega)
  have hrel : st.sh.rel (j + 1) i = 0 := (hc.ne (j + 1) i).2.2.2.2.2.1
  simp only [GP1, GP2, GP3, hpend, hrel] at e1 e2 e3
  simp at e1 e3
  refine ⟨by omega, by omega, by omega⟩

/-- every generated item is handed to the first stage exactly once -/
theorem arr_first {c : Cfg} {st : St} (hr : Reach c st) (i : Nat) (hz : SW (wP3 0 i) c st = 0) :
    st.sh.arr 1 i = st.sh.made i := by
  have e3 := p3_inv c 0 i hr
  obtain ⟨a, b, d, _⟩ := item_chain hr 0 i
  have h0 := arr_zero hr i
  simp only [GP3] at e3
  simp at e3
  omega


/-- frames that are inside the stage function of stage `s` -/
def wRun (s : Nat) : Frame → Int
  | .qr s' _ .in_ => if s' = s then 1 else 0
  | .ur s' _ _ .in_ => if s' = s then 1 else 0
  | _ => 0

/-- number of invocations of stage `s`'s function that are in progress in state `st` -/
def inflight (c : Cfg) (st : St) (s : Nat) : Int := SW (wRun s) c st

/-- frames that are inside the generator function -/
def wGenRun : Frame → Int
  | .gen _ .in_ => 1
  | _ => 0

def genInflight (c : Cfg) (st : St) : Int := SW wGenRun c st

theorem sumL_comb (a b d : Frame → Int) (l : List Frame) :
    sumL (fun f => a f - b f + d f) l = sumL a l - sumL b l + sumL d l := by
  induction l with
  | nil => simp
  | cons f l ih => simp [ih]; omega

theorem sumT_comb (a b d : Frame → Int) (thr : Nat → List Frame) (n : Nat) :
    sumT (fun f => a f - b f + d f) thr n = sumT a thr n - sumT b thr n + sumT d thr n := by
  induction n with
  | zero => simp [sumT, sumL_comb]
  | succ n ih => simp only [sumT, ih, sumL_comb]; omega

theorem wRun_le (s : Nat) (f : Frame) : wRun s f ≤ wSlot s f - wFk s f + wNou s f := by
  cases f <;> simp [wRun, wSlot, wFk, wNou, hwSlot, hwFk]
  all_goals (try (rename_i pc; cases pc <;> simp))
  all_goals (try (split <;> simp))
  all_goals (try (rename_i h; cases h <;> simp))
  all_goals (try (split <;> omega))
  all_goals (try omega)


theorem wGenRun_le (f : Frame) : wGenRun f ≤ wCpl f := by
  cases f <;> simp [wGenRun, wCpl]
  all_goals (try (rename_i pc; cases pc <;> simp))
  all_goals (try (split <;> omega))


/-- one limited stage, `pool` threads, `gi` generator instances, the original code -/
def cfgOld (pool gi : Nat) : Cfg :=
  { n := 1, lim := fun _ => some 1, filt := fun _ => false, genInst := gi, pool := pool, fix := Fix.none }

theorem stuck_in_completion_wait {c : Cfg} {st : St} (ht : ∀ t, t ≤ c.pool → st.thr t = []) (hp : st.sh.pool = [])
    (hm : st.sh.mpc = .compl) (hc : st.sh.compl ≠ 0) : ∀ t ch, step c st t ch = none := by
  intro t ch
  unfold step
  split
  · rename_i h0
    subst h0
    simp [ht 0 (Nat.zero_le _), hm]
    cases ch <;> simp [stepMain, hc]
  · split
    · rename_i hle
      simp [ht t hle]
      cases ch <;> simp [takeTask, hp]
    · rfl


end Dispenso.Pipe
