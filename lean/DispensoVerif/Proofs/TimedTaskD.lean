import DispensoVerif.Proofs.TimedTask

/-! C26: the destructor's observation `inProgress = 0` (after cancelling) leaves no wrap busy, for ever -/
namespace Dispenso.TimedTask
set_option linter.unusedSimpArgs false

theorem busy_imp_notDone (w : W) : w.busy = true → notDone w = true := by
  cases w <;> simp [W.busy, notDone]

theorem running_imp_busy (w : W) : isRunning w = true → w.busy = true := by
  cases w <;> simp [W.busy, isRunning]

theorem any_running_false {l : List W} (h : cnt W.busy l = 0) : (l.any fun w => w == W.running) = false :=
  any_false_of_cnt (p := fun w => w == W.running)
    (cnt_zero_of_imp (p := W.busy) (q := fun w => w == W.running) (fun w hw => running_imp_busy w hw) h)

structure InvD (s : St) : Prop where
  clr : s.d = .clear → cnt W.busy s.wraps = 0
  ret : s.dtorRet = true → cnt W.busy s.wraps = 0

theorem invD_init (c : Cfg) : InvD (init c) := by
  constructor <;> simp [init]

theorem invD_step {c : Cfg} {s s' : St} {a : Act} (hB : InvB c s) (hC : InvC s) (h : InvD s)
    (hs : step c s a = some s') : InvD s' := by
  obtain ⟨h1, h2⟩ := h
  obtain ⟨c1, c2, c3, c4, c5⟩ := hC
  unfold InvB at hB
  have hz : cnt notDone s.wraps = 0 → cnt W.busy s.wraps = 0 := cnt_zero_of_imp busy_imp_notDone
  tt_steps s a hs => (constructor <;> tt_close)

end Dispenso.TimedTask
