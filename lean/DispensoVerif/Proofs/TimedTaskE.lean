import DispensoVerif.Proofs.TimedTask

/-! C26: run count -/
namespace Dispenso.TimedTask
set_option linter.unusedSimpArgs false

structure InvE (c : Cfg) (s : St) : Prop where
  st : s.started + cnt isPending s.wraps ≤ s.wraps.length
  wk : s.wraps.length + pk s.k ≤ s.kicks
  kn : s.kicks ≤ c.n0
  mkk : mayKick s = true → s.kicks + s.ttr ≤ c.n0

theorem invE_init (c : Cfg) : InvE c (init c) := by
  constructor <;> simp [init, cnt_nil, pk, mayKick]

set_option maxHeartbeats 1000000 in
theorem invE_step {c : Cfg} {s s' : St} {a : Act} (hA : InvA c s) (h : InvE c s)
    (hs : step c s a = some s') : InvE c s' := by
  obtain ⟨h1, h2, h3, h4⟩ := h
  obtain ⟨a1, a2, a3, a4, a5, a6⟩ := hA
  tt_steps s a hs => (constructor <;> tt_close)

end Dispenso.TimedTask
