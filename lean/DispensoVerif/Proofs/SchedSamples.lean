import DispensoVerif.Model.Sched

/-!
Concrete accepted traces of the scheduling ledger, used by the non-vacuity examples of
`Props/C01 … C08, C47` (and two traces that an earlier version of the ledger accepted and that
refuted `C01_exactly_once`; they are rejected now).
Every trace starts with the harness constructing the pool (`callResize; ctor n; retResize`).
-/
namespace Dispenso.Sched

/-- a sample accepted trace: construct a one-thread pool, submit task 7 directly to the pool,
thread 1 takes and runs it, destroy the pool -/
def sampleTrace : List (Nat × Ev) :=
  [(0, .callResize), (0, .ctor 1), (0, .retResize), (0, .callSched 0 7 false), (0, .count 1),
   (0, .push 0 1), (0, .retSched), (1, .take 0), (1, .begin_ 7), (1, .end_ 7), (1, .count (-1)),
   (0, .callPoolDtor), (0, .dtorBegin), (0, .dtorEnd), (0, .retPoolDtor)]

/-- formerly accepted (now rejected at the `gen`): a bulk call open on thread 1 generates task 5 after the
pool was destroyed -/
def cexGenAfterDtor : List (Nat × Ev) :=
  [(0, .callResize), (0, .ctor 1), (0, .retResize), (1, .callBulk 0 false),
   (0, .callPoolDtor), (0, .dtorBegin), (0, .dtorEnd), (1, .gen 5)]

/-- formerly accepted (now rejected at the `tsGuard`): the task-set drop path for the pool itself
(set 0) -/
def cexDropSet0 : List (Nat × Ev) :=
  [(0, .callResize), (0, .ctor 1), (0, .retResize), (0, .callSched 0 7 false),
   (0, .tsGuard 0 true 2), (0, .retSched), (0, .callPoolDtor), (0, .dtorBegin), (0, .dtorEnd),
   (0, .retPoolDtor)]

/-- a packaged task of set 1 submitted through the queue, run by thread 1, and a `wait` on the
set by thread 0 that reports completion after observing zero -/
def sampleSetTrace : List (Nat × Ev) :=
  [(0, .callResize), (0, .ctor 1), (0, .retResize),
   (0, .callSched 1 7 false), (0, .tsGuard 1 false 2), (0, .tsInc 1 1), (0, .count 1),
   (0, .push 0 1), (0, .retSched),
   (1, .take 0), (1, .tsGuard 1 false 0), (1, .begin_ 7), (1, .end_ 7), (1, .tsDec 1),
   (1, .count (-1)),
   (0, .callWait 1), (0, .tsZero 1), (0, .retWait 1 true false)]

/-- a task pushed into ring 0 of a one-thread pool, taken from that ring and run -/
def sampleRingTrace : List (Nat × Ev) :=
  [(0, .callResize), (0, .ctor 1), (0, .retResize), (0, .callSched 0 7 false), (0, .count 1),
   (0, .push 1 1), (0, .retSched), (1, .take 1), (1, .begin_ 7), (1, .end_ 7), (1, .count (-1))]

/-- set 1: one task queued and run before `cancel`, a second one queued and then skipped by its
package wrapper after `cancel` -/
def sampleCancelTrace : List (Nat × Ev) :=
  [(0, .callResize), (0, .ctor 1), (0, .retResize),
   (0, .callSched 1 7 false), (0, .tsGuard 1 false 2), (0, .tsInc 1 1), (0, .count 1),
   (0, .push 0 1), (0, .retSched),
   (0, .callSched 1 8 false), (0, .tsGuard 1 false 2), (0, .tsInc 1 1), (0, .count 1),
   (0, .push 0 1), (0, .retSched),
   (1, .take 0), (1, .tsGuard 1 false 0), (1, .begin_ 7),
   (0, .callCancel 1), (0, .tsCancel 1), (0, .retCancel 1),
   (1, .end_ 7), (1, .tsDec 1), (1, .count (-1)),
   (1, .take 0), (1, .tsGuard 1 true 0), (1, .tsDec 1), (1, .count (-1))]

/-- a task of set 1 throws (captured by the package wrapper), `wait` observes zero, rethrows and
reports completion with an exception -/
def sampleExcTrace : List (Nat × Ev) :=
  [(0, .callResize), (0, .ctor 1), (0, .retResize),
   (0, .callSched 1 7 false), (0, .tsGuard 1 false 2), (0, .tsInc 1 1), (0, .count 1),
   (0, .push 0 1), (0, .retSched),
   (1, .take 0), (1, .tsGuard 1 false 0), (1, .begin_ 7), (1, .end_ 7), (1, .tsCapture 1),
   (1, .tsDec 1), (1, .count (-1)),
   (0, .callWait 1), (0, .tsZero 1), (0, .tsRethrow 1), (0, .retWait 1 true true)]

/-- a force-queued task on a pool with one thread: queued, then run by thread 1 -/
def sampleFqTrace : List (Nat × Ev) :=
  [(0, .callResize), (0, .ctor 1), (0, .retResize), (0, .callSched 0 7 true), (0, .count 1),
   (0, .push 0 1), (0, .retSched), (1, .take 0), (1, .begin_ 7), (1, .end_ 7), (1, .count (-1))]

end Dispenso.Sched
