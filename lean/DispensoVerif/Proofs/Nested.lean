import DispensoVerif.Model.Nested
import Mathlib.Tactic.SplitIfs
/-! Inductive invariant of the nested-wait model (C06) and its preservation by every step. -/
namespace Dispenso.Nested

@[simp] theorem upd_same {α : Type} (f : Nat → α) (a : Nat) (b : α) : upd f a b a = b := by simp [upd]
theorem upd_ne {α : Type} (f : Nat → α) {a x : Nat} (b : α) (h : x ≠ a) : upd f a b x = f x := by simp [upd, h]

def WaitsOn (S : SetId) (l : List Act) : Prop := ∃ h, Act.wait S h ∈ l

/-- The invariant.  `ex` exempts one task from `queuedClaim` (used for the intermediate state of an inline
    start); the invariant proper is `Inv = InvG none`. -/
structure InvG (ex : Option TaskId) (cfg : Cfg) (p : Prog) (s : St) : Prop where
  stampLt : ∀ th x, x ∈ s.stack th → s.stamp x < s.clock
  sorted : ∀ th, (s.stack th).Pairwise (fun a b => s.stamp b < s.stamp a)
  onStack : ∀ x, s.status x = .running → ∃ th, x ∈ s.stack th
  stackRun : ∀ th x, x ∈ s.stack th → s.status x = .running
  uniq : ∀ th th' x, x ∈ s.stack th → x ∈ s.stack th' → th = th'
  pendOK : ∀ t pd, s.pend t = some pd → s.status t = .running ∧ WaitsOn pd.S (s.rem t) ∧
      Act.spawn pd.c pd.S ∈ p.script t ∧ cfg.needsClaim pd.T = true ∧ pd.w < cfg.nWorkers ∧
      cfg.pollsWorker pd.w pd.T = true ∧ ∀ x ∈ s.stack pd.w, s.stamp t < s.stamp x
  queuedClaim : ∀ c T, ex ≠ some c → s.status c = .queued T → cfg.needsClaim T = true →
      ∃ w, w < cfg.nWorkers ∧ cfg.pollsWorker w T = true ∧ ∀ x ∈ s.stack w, s.stamp (s.parent c) < s.stamp x
  liveOK : ∀ S c, c ∈ s.live S → s.Unfinished c ∧ s.status (s.parent c) = .running ∧
      WaitsOn S (s.rem (s.parent c)) ∧ Act.spawn c S ∈ p.script (s.parent c) ∧
      (s.status c = .running → s.stamp (s.parent c) < s.stamp c)
  queuedLive : ∀ c T, s.status c = .queued T → ∃ S, c ∈ s.live S
  suffix : ∀ t, ∃ pre, p.script t = pre ++ s.rem t
  mentioned : ∀ c, s.status c ≠ .idle → c ∈ p.roots ∨ ∃ t S, Act.spawn c S ∈ p.script t

abbrev Inv := InvG none

theorem InvG.weaken {ex : Option TaskId} {cfg : Cfg} {p : Prog} {s : St} (h : InvG none cfg p s) : InvG ex cfg p s :=
  { h with queuedClaim := fun c T _ => h.queuedClaim c T (by simp) }

/-- a running task's stamp is below the clock -/
theorem InvG.runLt {ex cfg p s} (h : InvG ex cfg p s) {x : TaskId} (hx : s.status x = .running) : s.stamp x < s.clock := by
  obtain ⟨th, hth⟩ := h.onStack x hx
  exact h.stampLt th x hth

/-! ### consume -/
theorem inv_consume {cfg : Cfg} {p : Prog} {s : St} {t : TaskId} (h : Inv cfg p s) (hp : s.pend t = none)
    (hw : ∀ S b, (s.rem t).head? = some (.wait S b) → s.live S = []) : Inv cfg p (s.consume t) := by
  refine { h with pendOK := ?_, liveOK := ?_, suffix := ?_ }
  · intro t' pd hpd
    have hne : t' ≠ t := by intro e; subst e; simp [St.consume] at hpd; rw [hp] at hpd; cases hpd
    have := h.pendOK t' pd (by simpa [St.consume] using hpd)
    simpa [St.consume, upd_ne _ _ hne] using this
  · intro S c hc
    have hc' : c ∈ s.live S := by simpa [St.consume] using hc
    obtain ⟨h1, h2, h3, h4, h5⟩ := h.liveOK S c hc'
    refine ⟨h1, h2, ?_, h4, h5⟩
    show WaitsOn S ((s.consume t).rem (s.parent c))
    by_cases e : s.parent c = t
    · obtain ⟨b, hb⟩ := h3
      rw [e] at hb
      simp only [St.consume, e, upd_same]
      cases hr : s.rem t with
      | nil => rw [hr] at hb; cases hb
      | cons a tl =>
        rw [hr] at hb
        rcases List.mem_cons.mp hb with hab | hab
        · exfalso
          have := hw S b (by rw [hr, ← hab]; rfl)
          rw [this] at hc'; cases hc'
        · exact ⟨b, hab⟩
    · simpa [St.consume, upd_ne _ _ e] using h3
  · intro t'
    obtain ⟨pre, hpre⟩ := h.suffix t'
    by_cases e : t' = t
    · subst e
      simp only [St.consume, upd_same]
      cases hr : s.rem t' with
      | nil => exact ⟨pre, by rw [hpre, hr]; rfl⟩
      | cons a tl => exact ⟨pre ++ [a], by rw [hpre, hr]; simp⟩
    · exact ⟨pre, by simpa [St.consume, upd_ne _ _ e] using hpre⟩

/-! ### place -/
theorem inv_place {ex : Option TaskId} {cfg : Cfg} {p : Prog} {s : St} {t c : TaskId} {S : SetId} {T : Tier}
    (h : Inv cfg p s) (ht : s.status t = .running) (hw : WaitsOn S (s.rem t)) (hs : Act.spawn c S ∈ p.script t)
    (hcl : ex = some c ∨ (cfg.needsClaim T = true →
      ∃ w, w < cfg.nWorkers ∧ cfg.pollsWorker w T = true ∧ ∀ x ∈ s.stack w, s.stamp t < s.stamp x)) :
    InvG ex cfg p (s.place t c S T) := by
  by_cases hid' : ¬ s.status c = .idle
  · simp only [St.place, if_neg hid']; exact h.weaken
  have hid : s.status c = .idle := Classical.not_not.mp hid'
  simp only [St.place, if_pos hid]
  have hct : t ≠ c := by intro e; rw [e, hid] at ht; cases ht
  have run_ne : ∀ x, s.status x = .running → x ≠ c := by
    intro x hx e; rw [e, hid] at hx; cases hx
  have unf_ne : ∀ x, s.Unfinished x → x ≠ c := by
    intro x hx e; rw [e] at hx
    rcases hx with hx | ⟨T', hx⟩ <;> rw [hid] at hx <;> cases hx
  refine { stampLt := h.stampLt, sorted := h.sorted, uniq := h.uniq, suffix := h.suffix,
           onStack := ?_, stackRun := ?_, pendOK := ?_, queuedClaim := ?_, liveOK := ?_, queuedLive := ?_,
           mentioned := ?_ }
  · intro x hx
    by_cases e : x = c
    · subst e; simp at hx
    · exact h.onStack x (by simpa [upd_ne _ _ e] using hx)
  · intro th x hx
    have := h.stackRun th x hx
    simpa [upd_ne _ _ (run_ne x this)] using this
  · intro t' pd hpd
    obtain ⟨h1, h2⟩ := h.pendOK t' pd hpd
    exact ⟨by simpa [upd_ne _ _ (run_ne t' h1)] using h1, h2⟩
  · intro c' T' hex hq hn
    by_cases e : c' = c
    · subst e
      simp only [upd_same] at hq ⊢
      cases hq
      rcases hcl with hcl | hcl
      · exact absurd hcl hex
      · exact hcl hn
    · simp only [upd_ne _ _ e] at hq ⊢
      exact h.queuedClaim c' T' (by simp) hq hn
  · intro S' c' hc'
    have hmem : c' = c ∧ S' = S ∨ c' ∈ s.live S' := by
      by_cases e : S' = S
      · subst e
        simp only [upd_same] at hc'
        rcases List.mem_cons.mp hc' with h1 | h1
        · exact Or.inl ⟨h1, rfl⟩
        · exact Or.inr h1
      · exact Or.inr (by simpa [upd_ne _ _ e] using hc')
    rcases hmem with ⟨e1, e2⟩ | hold
    · subst e1; subst e2
      refine ⟨Or.inr ⟨T, by simp⟩, ?_, ?_, ?_, ?_⟩
      · simpa [upd_ne _ _ hct] using ht
      · simpa using hw
      · simpa using hs
      · intro hr; simp at hr
    · obtain ⟨h1, h2, h3, h4, h5⟩ := h.liveOK S' c' hold
      have e : c' ≠ c := unf_ne c' h1
      have e2 : s.parent c' ≠ c := run_ne _ h2
      simp only [upd_ne _ _ e, upd_ne _ _ e2]
      refine ⟨?_, h2, h3, h4, h5⟩
      rcases h1 with h1 | ⟨T', h1⟩
      · exact Or.inl (by simpa [upd_ne _ _ e] using h1)
      · exact Or.inr ⟨T', by simpa [upd_ne _ _ e] using h1⟩
  · intro c' T' hq
    by_cases e : c' = c
    · subst e; exact ⟨S, by simp⟩
    · obtain ⟨S', hS'⟩ := h.queuedLive c' T' (by simpa [upd_ne _ _ e] using hq)
      refine ⟨S', ?_⟩
      by_cases e2 : S' = S
      · subst e2; simp [hS']
      · simpa [upd_ne _ _ e2] using hS'
  · intro c' hc'
    by_cases e : c' = c
    · subst e; exact Or.inr ⟨t, S, hs⟩
    · exact h.mentioned c' (by simpa [upd_ne _ _ e] using hc')

/-! ### start -/
theorem inv_start {ex : Option TaskId} {cfg : Cfg} {p : Prog} {s : St} {th : ThreadId} {c : TaskId} {T : Tier}
    (h : InvG ex cfg p s) (hex : ex = none ∨ ex = some c) (hq : s.status c = .queued T) :
    Inv cfg p (s.start th c) := by
  have notOn : ∀ th' , c ∉ s.stack th' := by
    intro th' hm; have := h.stackRun th' c hm; rw [hq] at this; cases this
  have run_ne : ∀ x, s.status x = .running → x ≠ c := by
    intro x hx e; rw [e, hq] at hx; cases hx
  have mem' : ∀ th' x, x ∈ (s.start th c).stack th' → (x = c ∧ th' = th) ∨ (x ≠ c ∧ x ∈ s.stack th') := by
    intro th' x hx
    simp only [St.start] at hx
    by_cases e : th' = th
    · subst e
      simp only [upd_same] at hx
      rcases List.mem_cons.mp hx with h1 | h1
      · exact Or.inl ⟨h1, rfl⟩
      · exact Or.inr ⟨fun e => notOn _ (e ▸ h1), h1⟩
    · rw [upd_ne _ _ e] at hx
      exact Or.inr ⟨fun e => notOn _ (e ▸ hx), hx⟩
  have mem_old : ∀ th' x, x ∈ s.stack th' → x ∈ (s.start th c).stack th' := by
    intro th' x hx
    simp only [St.start]
    by_cases e : th' = th
    · subst e; simp [hx]
    · simpa [upd_ne _ _ e] using hx
  have stamp_c : (s.start th c).stamp c = s.clock := by simp [St.start]
  have stamp_ne : ∀ x, x ≠ c → (s.start th c).stamp x = s.stamp x := by
    intro x hx; simp [St.start, upd_ne _ _ hx]
  have status_ne : ∀ x, x ≠ c → (s.start th c).status x = s.status x := by
    intro x hx; simp [St.start, upd_ne _ _ hx]
  have status_c : (s.start th c).status c = .running := by simp [St.start]
  have hclock : (s.start th c).clock = s.clock + 1 := rfl
  have hparent : (s.start th c).parent = s.parent := rfl
  have hrem : (s.start th c).rem = s.rem := rfl
  have hpend : (s.start th c).pend = s.pend := rfl
  have hlive : (s.start th c).live = s.live := rfl
  -- a witness stack all of whose entries are younger than a running task stays one
  have wit : ∀ (w : Nat) (t' : TaskId), s.status t' = .running → (∀ x ∈ s.stack w, s.stamp t' < s.stamp x) →
      ∀ x ∈ (s.start th c).stack w, (s.start th c).stamp t' < (s.start th c).stamp x := by
    intro w t' ht' hall x hx
    rw [stamp_ne t' (run_ne t' ht')]
    rcases mem' w x hx with ⟨e, _⟩ | ⟨e, hx'⟩
    · rw [e, stamp_c]; exact h.runLt ht'
    · rw [stamp_ne x e]; exact hall x hx'
  refine { stampLt := ?_, sorted := ?_, onStack := ?_, stackRun := ?_, uniq := ?_, pendOK := ?_,
           queuedClaim := ?_, liveOK := ?_, queuedLive := ?_, suffix := ?_, mentioned := ?_ }
  · intro th' x hx
    rw [hclock]
    rcases mem' th' x hx with ⟨e, _⟩ | ⟨e, hx'⟩
    · rw [e, stamp_c]; omega
    · rw [stamp_ne x e]; have := h.stampLt th' x hx'; omega
  · intro th'
    have hold : (s.stack th').Pairwise (fun a b => (s.start th c).stamp b < (s.start th c).stamp a) := by
      refine List.Pairwise.imp_of_mem ?_ (h.sorted th')
      intro a b ha hb hab
      rw [stamp_ne a (fun e => notOn th' (e ▸ ha)), stamp_ne b (fun e => notOn th' (e ▸ hb))]
      exact hab
    by_cases e : th' = th
    · subst e
      simp only [St.start, upd_same]
      refine List.Pairwise.cons ?_ hold
      intro b hb
      have hbne : b ≠ c := fun e => notOn _ (e ▸ hb)
      have h1 := stamp_ne b hbne
      simp only [St.start] at h1
      rw [h1]; simp only [upd_same]
      exact h.stampLt _ b hb
    · have : (s.start th c).stack th' = s.stack th' := by simp [St.start, upd_ne _ _ e]
      rw [this]; exact hold
  · intro x hx
    by_cases e : x = c
    · exact ⟨th, by subst e; simp [St.start]⟩
    · rw [status_ne x e] at hx
      obtain ⟨th', hth'⟩ := h.onStack x hx
      exact ⟨th', mem_old th' x hth'⟩
  · intro th' x hx
    rcases mem' th' x hx with ⟨e, _⟩ | ⟨e, hx'⟩
    · rw [e]; exact status_c
    · rw [status_ne x e]; exact h.stackRun th' x hx'
  · intro th1 th2 x h1 h2
    rcases mem' th1 x h1 with ⟨e1, f1⟩ | ⟨e1, g1⟩ <;> rcases mem' th2 x h2 with ⟨e2, f2⟩ | ⟨e2, g2⟩
    · rw [f1, f2]
    · exact absurd e1 e2
    · exact absurd e2 e1
    · exact h.uniq th1 th2 x g1 g2
  · intro t' pd hpd
    rw [hpend] at hpd
    obtain ⟨h1, h2, h3, h4, h5, h6, h7⟩ := h.pendOK t' pd hpd
    refine ⟨by rw [status_ne t' (run_ne t' h1)]; exact h1, by rw [hrem]; exact h2, h3, h4, h5, h6, ?_⟩
    exact wit pd.w t' h1 h7
  · intro c' T' _ hq' hn
    have e : c' ≠ c := by intro e; rw [e, status_c] at hq'; cases hq'
    rw [status_ne c' e] at hq'
    have hex' : ex ≠ some c' := by
      rcases hex with hex | hex <;> rw [hex]
      · simp
      · intro e'; exact e (Option.some.inj e').symm
    obtain ⟨w, hw1, hw2, hw3⟩ := h.queuedClaim c' T' hex' hq' hn
    obtain ⟨S', hS'⟩ := h.queuedLive c' T' hq'
    obtain ⟨_, hpr, _⟩ := h.liveOK S' c' hS'
    refine ⟨w, hw1, hw2, ?_⟩
    rw [hparent]
    exact wit w (s.parent c') hpr hw3
  · intro S' c' hc'
    rw [hlive] at hc'
    obtain ⟨h1, h2, h3, h4, h5⟩ := h.liveOK S' c' hc'
    rw [hparent, hrem]
    have e2 : s.parent c' ≠ c := run_ne _ h2
    refine ⟨?_, by rw [status_ne _ e2]; exact h2, h3, h4, ?_⟩
    · by_cases e : c' = c
      · exact Or.inl (by rw [e]; exact status_c)
      · rcases h1 with h1 | ⟨T', h1⟩
        · exact Or.inl (by rw [status_ne c' e]; exact h1)
        · exact Or.inr ⟨T', by rw [status_ne c' e]; exact h1⟩
    · intro hr
      rw [stamp_ne _ e2]
      by_cases e : c' = c
      · subst e; rw [stamp_c]; exact h.runLt h2
      · rw [stamp_ne c' e]; rw [status_ne c' e] at hr; exact h5 hr
  · intro c' T' hq'
    have e : c' ≠ c := by intro e; rw [e, status_c] at hq'; cases hq'
    rw [status_ne c' e] at hq'
    rw [hlive]; exact h.queuedLive c' T' hq'
  · intro t'; rw [hrem]; exact h.suffix t'
  · intro c' hc'
    by_cases e : c' = c
    · subst e; exact h.mentioned c' (by rw [hq]; simp)
    · rw [status_ne c' e] at hc'; exact h.mentioned c' hc'

/-! ### pending claims -/
theorem inv_setPend {cfg : Cfg} {p : Prog} {s : St} {t : TaskId} {pd : Pend} (h : Inv cfg p s)
    (ht : s.status t = .running) (hw : WaitsOn pd.S (s.rem t)) (hs : Act.spawn pd.c pd.S ∈ p.script t)
    (hn : cfg.needsClaim pd.T = true) (hlt : pd.w < cfg.nWorkers) (hpoll : cfg.pollsWorker pd.w pd.T = true)
    (hemp : s.stack pd.w = []) : Inv cfg p { s with pend := upd s.pend t (some pd) } := by
  refine { h with pendOK := ?_ }
  intro t' pd' hpd'
  by_cases e : t' = t
  · subst e
    simp only [upd_same, Option.some.injEq] at hpd'
    subst hpd'
    exact ⟨ht, hw, hs, hn, hlt, hpoll, by intro x hx; rw [hemp] at hx; cases hx⟩
  · exact h.pendOK t' pd' (by simpa [upd_ne _ _ e] using hpd')

theorem inv_clearPend {cfg : Cfg} {p : Prog} {s : St} {t : TaskId} (h : Inv cfg p s) :
    Inv cfg p { s with pend := upd s.pend t none } := by
  refine { h with pendOK := ?_ }
  intro t' pd' hpd'
  by_cases e : t' = t
  · subst e; simp at hpd'
  · exact h.pendOK t' pd' (by simpa [upd_ne _ _ e] using hpd')

/-! ### finish -/
theorem inv_finish {cfg : Cfg} {p : Prog} {s : St} {th : ThreadId} {t : TaskId} {rest : List TaskId}
    (h : Inv cfg p s) (hst : s.stack th = t :: rest) (hrem : s.rem t = []) (hp : s.pend t = none) :
    Inv cfg p { s with status := upd s.status t .done, stack := upd s.stack th rest,
                       live := fun S => (s.live S).filter (· != t) } := by
  have hsorted := h.sorted th
  rw [hst] at hsorted
  have tNotRest : t ∉ rest := by
    intro hm
    have := (List.pairwise_cons.mp hsorted).1 t hm
    omega
  have sub : ∀ th' x, x ∈ upd s.stack th rest th' → x ∈ s.stack th' ∧ x ≠ t := by
    intro th' x hx
    by_cases e : th' = th
    · subst e
      simp only [upd_same] at hx
      exact ⟨by rw [hst]; exact List.mem_cons_of_mem _ hx, fun e => tNotRest (e ▸ hx)⟩
    · rw [upd_ne _ _ e] at hx
      refine ⟨hx, fun e' => e ?_⟩
      exact h.uniq th' th x hx (by rw [hst, e']; exact List.mem_cons_self)
  have tRun : s.status t = .running := h.stackRun th t (by rw [hst]; exact List.mem_cons_self)
  refine { stampLt := ?_, sorted := ?_, onStack := ?_, stackRun := ?_, uniq := ?_, pendOK := ?_,
           queuedClaim := ?_, liveOK := ?_, queuedLive := ?_, suffix := h.suffix, mentioned := ?_ }
  · intro th' x hx; exact h.stampLt th' x (sub th' x hx).1
  · intro th'
    by_cases e : th' = th
    · subst e; simp only [upd_same]; exact (List.pairwise_cons.mp hsorted).2
    · simp only [upd_ne _ _ e]; exact h.sorted th'
  · intro x hx
    have e : x ≠ t := by intro e; subst e; simp at hx
    simp only [upd_ne _ _ e] at hx
    obtain ⟨th', hth'⟩ := h.onStack x hx
    refine ⟨th', ?_⟩
    by_cases e' : th' = th
    · subst e'
      simp only [upd_same]
      rw [hst] at hth'
      rcases List.mem_cons.mp hth' with h1 | h1
      · exact absurd h1 e
      · exact h1
    · simpa [upd_ne _ _ e'] using hth'
  · intro th' x hx
    obtain ⟨h1, h2⟩ := sub th' x hx
    simpa [upd_ne _ _ h2] using h.stackRun th' x h1
  · intro th1 th2 x h1 h2
    exact h.uniq th1 th2 x (sub th1 x h1).1 (sub th2 x h2).1
  · intro t' pd hpd
    have e : t' ≠ t := by intro e; subst e; simp only [hp] at hpd; cases hpd
    obtain ⟨h1, h2, h3, h4, h5, h6, h7⟩ := h.pendOK t' pd hpd
    exact ⟨by simpa [upd_ne _ _ e] using h1, h2, h3, h4, h5, h6, fun x hx => h7 x (sub _ x hx).1⟩
  · intro c T' _ hq hn
    have e : c ≠ t := by intro e; subst e; simp at hq
    simp only [upd_ne _ _ e] at hq
    obtain ⟨w, hw1, hw2, hw3⟩ := h.queuedClaim c T' (by simp) hq hn
    exact ⟨w, hw1, hw2, fun x hx => hw3 x (sub _ x hx).1⟩
  · intro S c hc
    simp only [List.mem_filter, bne_iff_ne, ne_eq] at hc
    obtain ⟨hc1, hc2⟩ := hc
    obtain ⟨h1, h2, h3, h4, h5⟩ := h.liveOK S c hc1
    have e2 : s.parent c ≠ t := by
      intro e2
      obtain ⟨b, hb⟩ := h3
      rw [e2, hrem] at hb; cases hb
    simp only [upd_ne _ _ hc2, upd_ne _ _ e2]
    refine ⟨?_, h2, h3, h4, h5⟩
    rcases h1 with h1 | ⟨T', h1⟩
    · exact Or.inl (by simpa [upd_ne _ _ hc2] using h1)
    · exact Or.inr ⟨T', by simpa [upd_ne _ _ hc2] using h1⟩
  · intro c T' hq
    have e : c ≠ t := by intro e; subst e; simp at hq
    simp only [upd_ne _ _ e] at hq
    obtain ⟨S, hS⟩ := h.queuedLive c T' hq
    exact ⟨S, by simp only [List.mem_filter, bne_iff_ne, ne_eq]; exact ⟨hS, e⟩⟩
  · intro c hc
    by_cases e : c = t
    · subst e; exact h.mentioned c (by rw [tRun]; simp)
    · exact h.mentioned c (by simpa [upd_ne _ _ e] using hc)

/-! ### initial state -/
theorem inv_init {cfg : Cfg} {p : Prog} (hnd : p.roots.Nodup) : Inv cfg p (init cfg p) := by
  have mem : ∀ th x, x ∈ (init cfg p).stack th →
      cfg.nWorkers ≤ th ∧ p.roots[th - cfg.nWorkers]? = some x := by
    intro th x hx
    simp only [init] at hx
    split_ifs at hx with hle
    · cases hr : p.roots[th - cfg.nWorkers]? with
      | none => rw [hr] at hx; cases hx
      | some r =>
        rw [hr] at hx
        simp only [List.mem_singleton] at hx
        exact ⟨hle, by rw [hx]⟩
    · cases hx
  refine { stampLt := ?_, sorted := ?_, onStack := ?_, stackRun := ?_, uniq := ?_, pendOK := ?_,
           queuedClaim := ?_, liveOK := ?_, queuedLive := ?_, suffix := ?_, mentioned := ?_ }
  · intro th x _; simp [init]
  · intro th
    simp only [init]
    split_ifs
    · cases p.roots[th - cfg.nWorkers]? <;> simp
    · simp
  · intro x hx
    simp only [init] at hx
    split_ifs at hx with hm
    obtain ⟨i, hi, hix⟩ := List.getElem_of_mem hm
    refine ⟨cfg.nWorkers + i, ?_⟩
    simp only [init]
    have : cfg.nWorkers ≤ cfg.nWorkers + i := by omega
    rw [if_pos this]
    have e : cfg.nWorkers + i - cfg.nWorkers = i := by omega
    rw [e, List.getElem?_eq_getElem hi, hix]
    simp
  · intro th x hx
    obtain ⟨_, h2⟩ := mem th x hx
    have : x ∈ p.roots := List.mem_of_getElem? h2
    simp [init, this]
  · intro (th : Nat) (th' : Nat) x h1 h2
    obtain ⟨a1, a2⟩ := mem th x h1
    obtain ⟨b1, b2⟩ := mem th' x h2
    have : (th - cfg.nWorkers : Nat) = (th' - cfg.nWorkers : Nat) := (List.getElem?_inj (by
      rcases List.getElem?_eq_some_iff.mp a2 with ⟨hh, _⟩; exact hh) hnd).mp (a2.trans b2.symm)
    calc th = th - cfg.nWorkers + cfg.nWorkers := (Nat.sub_add_cancel a1).symm
      _ = th' - cfg.nWorkers + cfg.nWorkers := by rw [this]
      _ = th' := Nat.sub_add_cancel b1
  · intro t pd hpd; simp [init] at hpd
  · intro c T _ hq; simp only [init] at hq; split_ifs at hq
  · intro S c hc; simp [init] at hc
  · intro c T hq; simp only [init] at hq; split_ifs at hq
  · intro t; exact ⟨[], by simp [init]⟩
  · intro c hc
    simp only [init] at hc
    split_ifs at hc with hm
    · exact Or.inl hm
    · exact absurd rfl hc

/-! ### every step preserves the invariant -/
theorem head_mem {α : Type} {l : List α} {a : α} (h : l.head? = some a) : l = a :: l.tail := by
  cases l with
  | nil => cases h
  | cons b tl => simp only [List.head?_cons, Option.some.injEq] at h; rw [h]; rfl

theorem waitsOn_after {p : Prog} (hfj : ForkJoin p) {s : St} {cfg : Cfg} (h : Inv cfg p s) {t c : TaskId} {S : SetId}
    (hh : (s.rem t).head? = some (.spawn c S)) :
    WaitsOn S (s.rem t).tail ∧ Act.spawn c S ∈ p.script t := by
  obtain ⟨pre, hpre⟩ := h.suffix t
  rw [head_mem hh] at hpre
  exact ⟨hfj.waits t pre c S _ hpre, by rw [hpre]; simp⟩

theorem step_inv {cfg : Cfg} {p : Prog} (hfj : ForkJoin p) {s s' : St} {e : Ev} (h : Inv cfg p s)
    (hs : step? cfg s e = some s') : Inv cfg p s' := by
  cases e with
  | decide th c S T w =>
    simp only [step?] at hs
    cases hst : s.stack th with
    | nil => rw [hst] at hs; cases hs
    | cons t rest =>
      rw [hst] at hs
      simp only at hs
      split_ifs at hs with hg hn
      · -- claim
        cases hs
        obtain ⟨hh, hp, hcl⟩ := hg
        obtain ⟨hw1, hw2, hw3⟩ := hcl hn
        obtain ⟨ha, hb⟩ := waitsOn_after hfj h hh
        have hrun : s.status t = .running := h.stackRun th t (by rw [hst]; exact List.mem_cons_self)
        have hI := inv_consume (t := t) h hp (by intro S' b hh'; rw [hh] at hh'; cases hh')
        exact inv_setPend (pd := ⟨c, S, T, w⟩) hI hrun (by simpa [St.consume] using ha) hb hn hw1 hw2 hw3
      · cases hs
        obtain ⟨hh, hp, _⟩ := hg
        obtain ⟨ha, hb⟩ := waitsOn_after hfj h hh
        have hrun : s.status t = .running := h.stackRun th t (by rw [hst]; exact List.mem_cons_self)
        have hI := inv_consume (t := t) h hp (by intro S' b hh'; rw [hh] at hh'; cases hh')
        exact inv_place hI hrun (by simpa [St.consume] using ha) hb (Or.inr (fun hn' => absurd hn' hn))
  | push th T' =>
    simp only [step?] at hs
    cases hst : s.stack th with
    | nil => rw [hst] at hs; cases hs
    | cons t rest =>
      rw [hst] at hs
      simp only at hs
      cases hpd : s.pend t with
      | none => rw [hpd] at hs; cases hs
      | some pd =>
        rw [hpd] at hs
        simp only at hs
        split_ifs at hs with hg
        cases hs
        obtain ⟨h1, h2, h3, h4, h5, h6, h7⟩ := h.pendOK t pd hpd
        refine inv_place (inv_clearPend h) h1 h2 h3 (Or.inr ?_)
        intro hn
        rcases hg with hg | hg
        · subst hg; exact ⟨pd.w, h5, h6, h7⟩
        · rw [hg] at hn; cases hn
  | inline th c S =>
    simp only [step?] at hs
    cases hst : s.stack th with
    | nil => rw [hst] at hs; cases hs
    | cons t rest =>
      rw [hst] at hs
      simp only at hs
      split_ifs at hs with hg hid
      · cases hs
        obtain ⟨hh, hp⟩ := hg
        obtain ⟨ha, hb⟩ := waitsOn_after hfj h hh
        have hrun : s.status t = .running := h.stackRun th t (by rw [hst]; exact List.mem_cons_self)
        have hI := inv_consume (t := t) h hp (by intro S' b hh'; rw [hh] at hh'; cases hh')
        have hI2 : InvG (some c) cfg p ((s.consume t).place t c S .central) :=
          inv_place hI hrun (by simpa [St.consume] using ha) hb (Or.inl rfl)
        refine inv_start (T := .central) hI2 (Or.inr rfl) ?_
        have : (s.consume t).status c = .idle := hid
        simp [St.place, this]
      · cases hs
        obtain ⟨hh, hp⟩ := hg
        exact inv_consume (t := t) h hp (by intro S' b hh'; rw [hh] at hh'; cases hh')
  | take th c T =>
    simp only [step?] at hs
    by_cases hq' : ¬ s.status c = .queued T
    · rw [if_neg hq'] at hs; cases hs
    have hq : s.status c = .queued T := Classical.not_not.mp hq'
    rw [if_pos hq] at hs
    cases hst : s.stack th with
    | nil =>
      rw [hst] at hs
      simp only at hs
      split_ifs at hs
      cases hs
      exact inv_start h (Or.inl rfl) hq
    | cons t rest =>
      rw [hst] at hs
      simp only at hs
      split at hs
      · split_ifs at hs
        cases hs
        exact inv_start h (Or.inl rfl) hq
      · cases hs
  | takeDirect th c =>
    simp only [step?] at hs
    cases hst : s.stack th with
    | nil => rw [hst] at hs; cases hs
    | cons t rest =>
      rw [hst] at hs
      simp only at hs
      split at hs
      · split_ifs at hs with hg
        cases hs
        obtain ⟨_, _, hq⟩ := hg
        cases hsc : s.status c with
        | queued T => exact inv_start h (Or.inl rfl) hsc
        | idle => rw [hsc] at hq; cases hq
        | running => rw [hsc] at hq; cases hq
        | done => rw [hsc] at hq; cases hq
      · cases hs
  | waitRet th =>
    simp only [step?] at hs
    cases hst : s.stack th with
    | nil => rw [hst] at hs; cases hs
    | cons t rest =>
      rw [hst] at hs
      simp only at hs
      split at hs
      · rename_i S b hh
        split_ifs at hs with hg
        cases hs
        refine inv_consume (t := t) h hg.1 ?_
        intro S' b' hh'
        rw [hh] at hh'
        cases hh'
        exact hg.2
      · cases hs
  | finish th =>
    simp only [step?] at hs
    cases hst : s.stack th with
    | nil => rw [hst] at hs; cases hs
    | cons t rest =>
      rw [hst] at hs
      simp only at hs
      split_ifs at hs with hg
      cases hs
      exact inv_finish h hst hg.1 hg.2

theorem reachable_inv {cfg : Cfg} {p : Prog} (hfj : ForkJoin p) {s : St} (hr : Reachable cfg p s) : Inv cfg p s := by
  induction hr with
  | init => exact inv_init hfj.roots
  | step e _ hs ih => exact step_inv hfj ih hs

/-! ### progress -/

/-- Every tier is polled by helping waiters, or receives tasks only under the claim protocol. -/
def TiersCovered (cfg : Cfg) : Prop := ∀ T, cfg.pollsWaiter T = true ∨ cfg.needsClaim T = true

def Enabled (cfg : Cfg) (s : St) : Prop := ∃ e, (step? cfg s e).isSome = true

theorem progress {cfg : Cfg} {p : Prog} (hfj : ForkJoin p) (hH : TiersCovered cfg) {s : St} (h : Inv cfg p s) :
    ∀ n th t, t ∈ s.stack th → s.clock - s.stamp t ≤ n → Enabled cfg s := by
  intro n
  induction n with
  | zero =>
    intro th t ht hn
    have := h.stampLt th t ht
    omega
  | succ n ih =>
    intro th t ht hn
    cases hst : s.stack th with
    | nil => rw [hst] at ht; cases ht
    | cons x rest =>
      -- the top task is at least as young as `t`
      have hxmem : x ∈ s.stack th := by rw [hst]; exact List.mem_cons_self
      have hxt : s.stamp t ≤ s.stamp x := by
        rw [hst] at ht
        rcases List.mem_cons.mp ht with e | e
        · rw [e]; exact Nat.le_refl _
        · have hs := h.sorted th
          rw [hst] at hs
          exact Nat.le_of_lt ((List.pairwise_cons.mp hs).1 t e)
      have hxlt := h.stampLt th x hxmem
      -- a task on some stack that is younger than `x` gives progress by induction
      have younger : ∀ th' y, y ∈ s.stack th' → s.stamp x < s.stamp y → Enabled cfg s := by
        intro th' y hy hlt
        have := h.stampLt th' y hy
        exact ih th' y hy (by omega)
      cases hpd : s.pend x with
      | some pd => exact ⟨.push th pd.T, by simp [step?, hst, hpd]⟩
      | none =>
        cases hr : s.rem x with
        | nil => exact ⟨.finish th, by simp [step?, hst, hr, hpd]⟩
        | cons a tl =>
          cases a with
          | spawn c S =>
            refine ⟨.inline th c S, ?_⟩
            simp only [step?, hst, hr, hpd, List.head?_cons, and_self, if_true]
            split_ifs <;> rfl
          | wait S b =>
            by_cases hl : s.live S = []
            · exact ⟨.waitRet th, by simp [step?, hst, hr, hpd, hl]⟩
            · obtain ⟨c, hc⟩ := List.exists_mem_of_ne_nil _ hl
              obtain ⟨hunf, hpr, _, hsp, hyoung⟩ := h.liveOK S c hc
              have hpar : s.parent c = x := by
                obtain ⟨pre, hpre⟩ := h.suffix x
                refine hfj.owner x (s.parent c) c S b ?_ hsp
                rw [hpre, hr]; simp
              rcases hunf with hrun | ⟨T, hq⟩
              · obtain ⟨th', hth'⟩ := h.onStack c hrun
                exact younger th' c hth' (by rw [← hpar]; exact hyoung hrun)
              · cases b with
                | false =>
                  refine ⟨.takeDirect th c, ?_⟩
                  simp [step?, hst, hr, hpd, hc, hq, Status.isQueued]
                | true =>
                  rcases hH T with hpw | hnc
                  · exact ⟨.take th c T, by simp [step?, hq, hst, hr, hpd, hpw]⟩
                  · obtain ⟨w, hw1, hw2, hw3⟩ := h.queuedClaim c T (by simp) hq hnc
                    cases hsw : s.stack w with
                    | nil => exact ⟨.take w c T, by simp [step?, hq, hsw, hw1, hw2]⟩
                    | cons y ys =>
                      have hy : y ∈ s.stack w := by rw [hsw]; exact List.mem_cons_self
                      exact younger w y hy (by rw [← hpar]; exact hw3 y hy)

/-- In a reachable state of a fork-join program under `TiersCovered`, an unfinished task implies an enabled step. -/
theorem unfinished_enabled {cfg : Cfg} {p : Prog} (hfj : ForkJoin p) (hH : TiersCovered cfg) {s : St}
    (hr : Reachable cfg p s) {c : TaskId} (hc : s.Unfinished c) : Enabled cfg s := by
  have h := reachable_inv hfj hr
  have onstack : ∀ x, s.status x = .running → Enabled cfg s := by
    intro x hx
    obtain ⟨th, hth⟩ := h.onStack x hx
    exact progress hfj hH h (s.clock - s.stamp x) th x hth (Nat.le_refl _)
  rcases hc with hrun | ⟨T, hq⟩
  · exact onstack c hrun
  · obtain ⟨S, hS⟩ := h.queuedLive c T hq
    exact onstack _ (h.liveOK S c hS).2.1

/-! ### a sufficient condition for "no step is enabled" (used for the negative witnesses) -/
theorem no_step_of_blocked {cfg : Cfg} {s : St}
    (hb : ∀ th, s.stack th = [] ∨ ∃ t rest S b tl, s.stack th = t :: rest ∧ s.pend t = none ∧
      s.rem t = Act.wait S b :: tl ∧ s.live S ≠ [] ∧
      (b = true → ∀ c T, s.status c = .queued T → cfg.pollsWaiter T = false) ∧
      (b = false → ∀ c, c ∈ s.live S → (s.status c).isQueued = false))
    (hw : ∀ th c T, s.stack th = [] → s.status c = .queued T → ¬ (th < cfg.nWorkers ∧ cfg.pollsWorker th T = true)) :
    ∀ e, step? cfg s e = none := by
  intro e
  cases e with
  | decide th c S T w =>
    rcases hb th with h0 | ⟨t, rest, S', b, tl, h1, h2, h3, _⟩
    · simp [step?, h0]
    · simp [step?, h1, h3]
  | push th T' =>
    rcases hb th with h0 | ⟨t, rest, S', b, tl, h1, h2, h3, _⟩
    · simp [step?, h0]
    · simp [step?, h1, h2]
  | inline th c S =>
    rcases hb th with h0 | ⟨t, rest, S', b, tl, h1, h2, h3, _⟩
    · simp [step?, h0]
    · simp [step?, h1, h3]
  | take th c T =>
    simp only [step?]
    by_cases hq : s.status c = .queued T
    · rw [if_pos hq]
      rcases hb th with h0 | ⟨t, rest, S', b, tl, h1, h2, h3, _, h5, _⟩
      · simp only [h0]
        rw [if_neg (hw th c T h0 hq)]
      · cases b with
        | true => simp [h1, h3, h5 rfl c T hq]
        | false => simp [h1, h3]
    · rw [if_neg hq]
  | takeDirect th c =>
    rcases hb th with h0 | ⟨t, rest, S', b, tl, h1, h2, h3, _, _, h6⟩
    · simp [step?, h0]
    · cases b with
      | true => simp [step?, h1, h3]
      | false =>
        simp only [step?, h1, h3, List.head?_cons]
        by_cases hc : c ∈ s.live S'
        · simp [h6 rfl c hc]
        · simp [hc]
  | waitRet th =>
    rcases hb th with h0 | ⟨t, rest, S', b, tl, h1, h2, h3, h4, _⟩
    · simp [step?, h0]
    · simp [step?, h1, h3, h4]
  | finish th =>
    rcases hb th with h0 | ⟨t, rest, S', b, tl, h1, h2, h3, _⟩
    · simp [step?, h0]
    · simp [step?, h1, h3]

theorem reachable_of_run {cfg : Cfg} {p : Prog} : ∀ (evs : List Ev) (s s' : St), Reachable cfg p s →
    runEvents cfg s evs = some s' → Reachable cfg p s' := by
  intro evs
  induction evs with
  | nil => intro s s' hr h; simp only [runEvents, Option.some.injEq] at h; exact h ▸ hr
  | cons e es ih =>
    intro s s' hr h
    simp only [runEvents] at h
    cases hs : step? cfg s e with
    | none => rw [hs] at h; cases h
    | some s1 => rw [hs] at h; exact ih s1 s' (Reachable.step e hr hs) h

/-! ### soundness of the executable program checks -/
theorem script_nil_of_ge {p : Prog} {t : TaskId} (h : p.scripts.length ≤ t) : p.script t = [] := by
  simp [Prog.script, List.getD, List.getElem?_eq_none h]

theorem pairCheck_sound {p : Prog} {f : TaskId → TaskId → Act → Act → Bool} (h : pairCheck p f = true)
    {t t' : TaskId} {a b : Act} (ha : a ∈ p.script t) (hb : b ∈ p.script t') : f t t' a b = true := by
  have ht : t < p.scripts.length :=
    Nat.lt_of_not_le (fun hge => by rw [script_nil_of_ge hge] at ha; cases ha)
  have ht' : t' < p.scripts.length :=
    Nat.lt_of_not_le (fun hge => by rw [script_nil_of_ge hge] at hb; cases hb)
  simp only [pairCheck, List.all_eq_true, List.mem_range] at h
  exact h t ht t' ht' a ha b hb

theorem acyclic_of_check {p : Prog} (rank : TaskId → Nat) (h : acyclicCheck p rank = true) : Acyclic p := by
  refine ⟨rank, ?_⟩
  intro t t' c S b hw hs
  have := pairCheck_sound h hw hs
  simpa using this

theorem waitsAfter_append (pre l : List Act) (h : waitsAfter (pre ++ l) = true) : waitsAfter l = true := by
  induction pre with
  | nil => simpa using h
  | cons a tl ih =>
    cases a with
    | spawn c S => simp only [List.cons_append, waitsAfter, Bool.and_eq_true] at h; exact ih h.2
    | wait S b => simp only [List.cons_append, waitsAfter] at h; exact ih h

theorem nodupB_sound (l : List Nat) (h : nodupB l = true) : l.Nodup := by
  induction l with
  | nil => exact List.nodup_nil
  | cons a tl ih =>
    simp only [nodupB, Bool.and_eq_true, Bool.not_eq_true', List.contains_eq_mem, decide_eq_false_iff_not] at h
    exact List.nodup_cons.mpr ⟨h.1, ih h.2⟩

theorem forkJoin_of_check {p : Prog} (h : forkJoinCheck p = true) : ForkJoin p := by
  simp only [forkJoinCheck, Bool.and_eq_true] at h
  obtain ⟨⟨h1, h2⟩, h3⟩ := h
  refine ⟨?_, ?_, nodupB_sound _ h3⟩
  · intro t t' c S b hw hs
    have := pairCheck_sound h1 hw hs
    simpa using this
  · intro t pre c S post hsc
    have ht : t < p.scripts.length :=
      Nat.lt_of_not_le (fun hge => by
        rw [script_nil_of_ge hge] at hsc
        cases pre <;> cases hsc)
    have hmem : p.script t ∈ p.scripts := by
      simp only [Prog.script, List.getD, List.getElem?_eq_getElem ht, Option.getD_some]
      exact List.getElem_mem ht
    have hwa := List.all_eq_true.mp h2 _ hmem
    rw [hsc] at hwa
    have := waitsAfter_append pre _ hwa
    simp only [waitsAfter, Bool.and_eq_true, List.any_eq_true] at this
    obtain ⟨⟨a, ha, hm⟩, _⟩ := this
    cases a with
    | spawn c' S' => simp at hm
    | wait S' b =>
      simp only [beq_iff_eq] at hm
      subst hm
      exact ⟨b, ha⟩

end Dispenso.Nested
