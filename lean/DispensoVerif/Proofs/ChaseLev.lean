import DispensoVerif.Model.ChaseLev
import Mathlib.Tactic.SplitIfs
import Mathlib.Data.List.Nodup
/-
Helper lemmas for C36 (Chase-Lev deque): inversion of `exec`, the inductive invariant under the
single-owner usage contract, the abstract deque (`absq`, oldest element first) with its step lemma,
and the accounting lemmas behind exactly-once / conservation.
-/
namespace Dispenso.ChaseLev
open Dispenso.Conc

/-! ### projections of the state updates -/

@[simp] theorem setLoc_loc {P : Proto} (s : State P) (t u : TId) (l : P.L) :
    (setLoc s t l).loc u = if u = t then l else s.loc u := rfl
@[simp] theorem setLoc_mem {P : Proto} (s : State P) (t : TId) (l : P.L) :
    (setLoc s t l).mem = s.mem := rfl
@[simp] theorem setLoc_parked {P : Proto} (s : State P) (t : TId) (l : P.L) :
    (setLoc s t l).parked = s.parked := rfl
@[simp] theorem setMem_loc {P : Proto} (s : State P) (f : Fld) (v : Int) :
    (setMem s f v).loc = s.loc := rfl
@[simp] theorem setMem_mem {P : Proto} (s : State P) (f g : Fld) (v : Int) :
    (setMem s f v).mem g = if g = f then v else s.mem g := rfl
@[simp] theorem setMem_parked {P : Proto} (s : State P) (f : Fld) (v : Int) :
    (setMem s f v).parked = s.parked := rfl

/-- memory update -/
def upd (m : Fld → Int) (f : Fld) (v : Int) : Fld → Int := fun g => if g = f then v else m g

@[simp] theorem upd_same (m : Fld → Int) (f : Fld) (v : Int) : upd m f v f = v := by simp [upd]
theorem upd_ne (m : Fld → Int) {f g : Fld} (v : Int) (h : g ≠ f) : upd m f v g = m g := by
  simp [upd, h]

/-! ### one atomic operation of a thread, as a relation -/

/-- `OpStep C m l l' m'`: a thread in local state `l` executes its pending operation on memory `m`,
ending in local state `l'` with memory `m'`. -/
inductive OpStep (C : Nat) (m : Fld → Int) : L → L → (Fld → Int) → Prop where
  | pLoadB v : OpStep C m (.pLoadB v) (.pLoadT v (m 1)) m
  | pLoadTFull v b : b - m 0 ≥ (C : Int) → OpStep C m (.pLoadT v b) (.done [0]) m
  | pLoadTOk v b : ¬ b - m 0 ≥ (C : Int) → OpStep C m (.pLoadT v b) (.pWrite v b) m
  | pWrite v b : OpStep C m (.pWrite v b) (.pPub b) (upd m (slotF C b) v)
  | pPub b : OpStep C m (.pPub b) (.done [1]) (upd m 1 (b + 1))
  | oLoadB into : OpStep C m (.oLoadB into) (.oStoreB into (m 1 - 1)) m
  | oStoreB into b : OpStep C m (.oStoreB into b) (.oFence into b) (upd m 1 b)
  | oFence into b : OpStep C m (.oFence into b) (.oLoadT into b) m
  | oLoadTEmpty into b : m 0 > b → OpStep C m (.oLoadT into b) (.oRestoreEmpty b) m
  | oLoadTRead into b : ¬ m 0 > b → (into = false ∨ m 0 < b) →
      OpStep C m (.oLoadT into b) (.oRead into b (m 0)) m
  | oLoadTLast b : ¬ m 0 > b → ¬ m 0 < b →
      OpStep C m (.oLoadT true b) (.oRestoreLast true b (m 0) 0) m
  | oRestoreEmpty b : OpStep C m (.oRestoreEmpty b) (.done [0]) (upd m 1 (b + 1))
  | oReadFast into b t : t < b → OpStep C m (.oRead into b t) (.done [1, m (slotF C b)]) m
  | oReadLastInto b t : ¬ t < b → OpStep C m (.oRead true b t) (.oCas b t (m (slotF C b))) m
  | oReadLast b t : ¬ t < b →
      OpStep C m (.oRead false b t) (.oRestoreLast false b t (m (slotF C b))) m
  | oRestoreLastInto b t v :
      OpStep C m (.oRestoreLast true b t v) (.oReadLate b t) (upd m 1 (b + 1))
  | oRestoreLast b t v : OpStep C m (.oRestoreLast false b t v) (.oCas b t v) (upd m 1 (b + 1))
  | oReadLate b t : OpStep C m (.oReadLate b t) (.oCas b t (m (slotF C b))) m
  | oCasOk b t v : m 0 = t → OpStep C m (.oCas b t v) (.done [1, v]) (upd m 0 (t + 1))
  | oCasFail b t v : m 0 ≠ t → OpStep C m (.oCas b t v) (.done [0]) m
  | sLoadT : OpStep C m .sLoadT (.sFence (m 0)) m
  | sFence t : OpStep C m (.sFence t) (.sLoadB t) m
  | sLoadBEmpty t : t ≥ m 1 → OpStep C m (.sLoadB t) (.done [0]) m
  | sLoadBOk t : ¬ t ≥ m 1 → OpStep C m (.sLoadB t) (.sRead t) m
  | sRead t : OpStep C m (.sRead t) (.sCas t (m (slotF C t))) m
  | sCasOk t v : m 0 = t → OpStep C m (.sCas t v) (.done [1, v]) (upd m 0 (t + 1))
  | sCasFail t v : m 0 ≠ t → OpStep C m (.sCas t v) (.done [0]) m
  | qLoadB w : OpStep C m (.qLoadB w) (.qLoadT w (m 1)) m
  | qLoadT w b x : OpStep C m (.qLoadT w b) (.done [x]) m

/-- the memory after applying the effect of an operation -/
def applyEff (m : Fld → Int) : Option (Fld × Int) → (Fld → Int)
  | none => m
  | some (f, v) => upd m f v

theorem opstep_of_memEffect (C : Nat) (m : Fld → Int) (l : L) (o : AOp) (r : Int)
    (eff : Option (Fld × Int)) (ho : op C l = some o) (hm : memEffect m o = some (r, eff)) :
    OpStep C m l (cont C l r) (applyEff m eff) := by
  cases l <;> simp only [op, Option.some.injEq, reduceCtorEq] at ho <;> subst ho <;>
    simp only [memEffect, Option.some.injEq, Prod.mk.injEq] at hm <;>
    obtain ⟨rfl, rfl⟩ := hm <;> simp only [cont, applyEff]
  case pLoadB v => exact .pLoadB v
  case pLoadT v b => split_ifs with h; exact .pLoadTFull v b h; exact .pLoadTOk v b h
  case pWrite v b => exact .pWrite v b
  case pPub b => exact .pPub b
  case oLoadB into => exact .oLoadB into
  case oStoreB into b => exact .oStoreB into b
  case oFence into b => exact .oFence into b
  case oLoadT into b =>
    split_ifs with h1 h2 h3
    · exact .oLoadTEmpty into b h1
    · subst h2; exact .oLoadTRead true b h1 (Or.inr h3)
    · subst h2; exact .oLoadTLast b h1 h3
    · have : into = false := by simpa using h2
      subst this; exact .oLoadTRead false b h1 (Or.inl rfl)
  case oRestoreEmpty b => exact .oRestoreEmpty b
  case oRead into b t =>
    split_ifs with h1 h2
    · exact .oReadFast into b t h1
    · subst h2; exact .oReadLastInto b t h1
    · have : into = false := by simpa using h2
      subst this; exact .oReadLast b t h1
  case oRestoreLast into b t v =>
    split_ifs with h
    · subst h; exact .oRestoreLastInto b t v
    · have : into = false := by simpa using h
      subst this; exact .oRestoreLast b t v
  case oReadLate b t => exact .oReadLate b t
  case oCas b t v =>
    split_ifs with h1
    · exact .oCasOk b t v h1
    · exact .oCasFail b t v h1
  case sLoadT => exact .sLoadT
  case sFence t => exact .sFence t
  case sLoadB t => split_ifs with h; exact .sLoadBEmpty t h; exact .sLoadBOk t h
  case sRead t => exact .sRead t
  case sCas t v =>
    split_ifs with h1
    · exact .sCasOk t v h1
    · exact .sCasFail t v h1
  case qLoadB w => exact .qLoadB w
  case qLoadT w b =>
    split <;> exact .qLoadT _ _ _

/-! ### inversion of `exec` -/

theorem exec_step_eq {P : Proto} (s : State P) (t : TId) (o : AOp) (r : Int)
    (eff : Option (Fld × Int)) (hp : s.parked t = none) (ho : P.op (s.loc t) = some o)
    (hm : memEffect s.mem o = some (r, eff)) :
    exec s (.step t) = some (match eff with
      | none => setLoc s t (P.cont (s.loc t) r)
      | some (f, v) => setLoc (setMem s f v) t (P.cont (s.loc t) r)) := by
  simp only [exec, hp, ho, ne_eq, not_true_eq_false, ↓reduceIte]
  cases o <;> simp only [memEffect, reduceCtorEq] at hm <;> simp only [memEffect, hm] <;>
    (cases eff <;> rfl)

theorem memEffect_of_op (C : Nat) (m : Fld → Int) (l : L) (o : AOp) (ho : op C l = some o) :
    ∃ r eff, memEffect m o = some (r, eff) := by
  cases l <;> simp only [op, Option.some.injEq, reduceCtorEq] at ho <;> subst ho <;>
    exact ⟨_, _, rfl⟩

/-- Every enabled action in a state without parked threads is either a client call or one
`OpStep` of some thread. -/
theorem exec_inv {C : Nat} {s s' : State (proto C)} {a : Act (proto C)}
    (hnp : ∀ t, s.parked t = none) (he : exec s a = some s') :
    (∃ t l, a = .call t l ∧ idleOrDone (s.loc t) = true ∧ isEntry l = true ∧
        s'.mem = s.mem ∧ s'.parked = s.parked ∧
        s'.loc = fun u => if u = t then l else s.loc u) ∨
    (∃ t l', a = .step t ∧ OpStep C s.mem (s.loc t) l' s'.mem ∧ s'.parked = s.parked ∧
        s'.loc = fun u => if u = t then l' else s.loc u) := by
  cases a with
  | call t l =>
    left
    simp only [exec] at he
    split at he
    · rename_i hc
      obtain ⟨_, _, hentry⟩ := hc
      simp only [proto, Bool.and_eq_true] at hentry
      cases he
      exact ⟨t, l, rfl, hentry.1, hentry.2, rfl, rfl, rfl⟩
    · cases he
  | step t =>
    right
    cases ho : op C (s.loc t) with
    | none =>
      have ho' : (proto C).op (s.loc t) = none := ho
      simp [exec, hnp, ho'] at he
    | some o =>
      obtain ⟨r, eff, hm⟩ := memEffect_of_op C s.mem _ o ho
      have hs := opstep_of_memEffect C s.mem _ o r eff ho hm
      have ho' : (proto C).op (s.loc t) = some o := ho
      rw [exec_step_eq s t o r eff (hnp t) ho' hm] at he
      cases eff with
      | none =>
        cases he
        exact ⟨t, _, rfl, hs, rfl, rfl⟩
      | some fv =>
        obtain ⟨f, v⟩ := fv
        cases he
        refine ⟨t, _, rfl, ?_, rfl, rfl⟩
        exact hs
  | wake t ws =>
    exfalso
    simp only [exec, hnp, ne_eq, not_true_eq_false, ↓reduceIte] at he
    have hop : (proto C).op (s.loc t) = op C (s.loc t) := rfl
    rw [hop] at he
    cases hl : (s.loc t : L) <;> simp [hl, op] at he
  | timeout t =>
    simp [exec, hnp] at he
  | spurious t =>
    simp [exec, hnp] at he

/-! ### slot arithmetic -/

theorem slotF_ge (C : Nat) (p : Int) : 2 ≤ slotF C p := Nat.le_add_right _ _

theorem slotF_inj {C : Nat} (hC : 1 ≤ C) {p q : Int} (h : slotF C p = slotF C q)
    (h1 : p - q < C) (h2 : q - p < C) : p = q := by
  have hC0 : (C : Int) ≠ 0 := by omega
  have hp := Int.emod_nonneg p hC0
  have hq := Int.emod_nonneg q hC0
  have he : p % (C : Int) = q % (C : Int) := by
    have h' : (p % (C : Int)).toNat = (q % (C : Int)).toNat := Nat.add_left_cancel h
    omega
  have hd : (C : Int) ∣ p - q :=
    Int.dvd_of_emod_eq_zero (Int.emod_eq_emod_iff_emod_sub_eq_zero.1 he)
  obtain ⟨k, hk⟩ := hd
  have hk0 : k = 0 := by
    rcases Int.lt_trichotomy k 0 with hlt | h0 | hgt
    · have : (C : Int) * k ≤ (C : Int) * (-1) :=
        Int.mul_le_mul_of_nonneg_left (by omega) (by omega)
      omega
    · exact h0
    · have : (C : Int) * 1 ≤ (C : Int) * k :=
        Int.mul_le_mul_of_nonneg_left (by omega) (by omega)
      omega
  subst hk0
  omega

@[simp] theorem upd_0_1 (m : Fld → Int) (v : Int) : upd m 0 v 1 = m 1 := by simp [upd]
@[simp] theorem upd_1_0 (m : Fld → Int) (v : Int) : upd m 1 v 0 = m 0 := by simp [upd]
@[simp] theorem upd_0_slot (m : Fld → Int) (v : Int) (C : Nat) (p : Int) :
    upd m 0 v (slotF C p) = m (slotF C p) := by
  have := slotF_ge C p
  simp only [upd]; rw [if_neg (by intro h; simp [h] at this)]
@[simp] theorem upd_1_slot (m : Fld → Int) (v : Int) (C : Nat) (p : Int) :
    upd m 1 v (slotF C p) = m (slotF C p) := by
  have := slotF_ge C p
  simp only [upd]; rw [if_neg (by intro h; simp [h] at this)]
@[simp] theorem upd_slot_0 (m : Fld → Int) (v : Int) (C : Nat) (p : Int) :
    upd m (slotF C p) v 0 = m 0 := by
  have := slotF_ge C p
  simp only [upd]; rw [if_neg (by intro h; simp [← h] at this)]
@[simp] theorem upd_slot_1 (m : Fld → Int) (v : Int) (C : Nat) (p : Int) :
    upd m (slotF C p) v 1 = m 1 := by
  have := slotF_ge C p
  simp only [upd]; rw [if_neg (by intro h; simp [← h] at this)]

theorem upd_slot_slot {C : Nat} (hC : 1 ≤ C) (m : Fld → Int) (v : Int) {p q : Int}
    (hne : p ≠ q) (h1 : p - q < C) (h2 : q - p < C) :
    upd m (slotF C q) v (slotF C p) = m (slotF C p) := by
  simp only [upd]; rw [if_neg]; intro h; exact hne (slotF_inj hC h h1 h2)

/-! ### the inductive invariant -/

/-- local states of the owner-only calls (`try_push`, `try_pop`, `try_pop_into`) -/
def ownerState : L → Bool
  | .pLoadB _ | .pLoadT _ _ | .pWrite _ _ | .pPub _ => true
  | .oLoadB _ | .oStoreB _ _ | .oFence _ _ | .oLoadT _ _ | .oRestoreEmpty _ | .oRead _ _ _
  | .oRestoreLast _ _ _ _ | .oReadLate _ _ | .oCas _ _ _ => true
  | _ => false

/-- the owner is inside a pop, between the store `bottom := b` and the restore / return: the
logical bottom of the deque is still `bottom + 1` -/
def midPop : L → Bool
  | .oFence _ _ | .oLoadT _ _ | .oRestoreEmpty _ | .oRead _ _ _ | .oRestoreLast _ _ _ _ => true
  | _ => false

/-- logical bottom: one past the newest position that is still in the deque -/
def lbot (m : Fld → Int) (l : L) : Int := if midPop l = true then m 1 + 1 else m 1

/-- thieves can only be committed to positions below this bound (given the owner's local state) -/
def tbound (m : Fld → Int) : L → Int
  | .oFence _ _ | .oLoadT _ _ | .oRestoreEmpty _ | .oRestoreLast _ _ _ _ => m 1 + 1
  | .oRead _ b t => if t < b then m 1 else m 1 + 1
  | _ => m 1

/-- what the owner knows in each local state (`m 0` = top, `m 1` = bottom) -/
def OwnOk (C : Nat) (m : Fld → Int) : L → Prop
  | .pLoadT _ b => b = m 1 ∧ m 0 ≤ m 1 ∧ m 1 - m 0 ≤ C
  | .pWrite _ b => b = m 1 ∧ m 0 ≤ m 1 ∧ m 1 - m 0 < C
  | .pPub b => b = m 1 ∧ m 0 ≤ m 1 ∧ m 1 - m 0 < C
  | .oStoreB _ b => b = m 1 - 1 ∧ m 0 ≤ m 1 ∧ m 1 - m 0 ≤ C
  | .oFence _ b => m 1 = b ∧ m 0 ≤ b + 1 ∧ b + 1 - m 0 ≤ C
  | .oLoadT _ b => m 1 = b ∧ m 0 ≤ b + 1 ∧ b + 1 - m 0 ≤ C
  | .oRestoreEmpty b => m 1 = b ∧ m 0 = b + 1
  | .oRead into b t => m 1 = b ∧ t ≤ b ∧ t ≤ m 0 ∧ (t < b → m 0 ≤ b) ∧ m 0 ≤ b + 1 ∧
      (t = b → into = false) ∧ b + 1 - m 0 ≤ C
  | .oRestoreLast into b t v => m 1 = b ∧ t = b ∧ b ≤ m 0 ∧ m 0 ≤ b + 1 ∧
      (into = false → m 0 = b → v = m (slotF C b))
  | .oReadLate b t => m 1 = b + 1 ∧ t = b ∧ b ≤ m 0 ∧ m 0 ≤ b + 1
  | .oCas b t v => m 1 = b + 1 ∧ t = b ∧ b ≤ m 0 ∧ m 0 ≤ b + 1 ∧ (m 0 = b → v = m (slotF C b))
  | _ => m 0 ≤ m 1 ∧ m 1 - m 0 ≤ C

/-- what a thief knows in each local state; `bd` is `tbound` -/
def ThiefOk (C : Nat) (m : Fld → Int) (bd : Int) : L → Prop
  | .sFence t => t ≤ m 0
  | .sLoadB t => t ≤ m 0
  | .sRead t => t ≤ m 0 ∧ t < bd
  | .sCas t v => t ≤ m 0 ∧ t < bd ∧ (t = m 0 → v = m (slotF C t))
  | _ => True

structure Inv (C : Nat) (O : TId) (s : State (proto C)) : Prop where
  np : ∀ t, s.parked t = none
  top0 : 0 ≤ s.mem 0
  own : OwnOk C s.mem (s.loc O)
  others : ∀ u, u ≠ O → ownerState (s.loc u) = false
  thief : ∀ u, ThiefOk C s.mem (tbound s.mem (s.loc O)) (s.loc u)

theorem inv_init (C : Nat) (O : TId) : Inv C O (init C) := by
  refine ⟨fun _ => rfl, by simp [init, initState], ?_, ?_, ?_⟩
  · simp [init, initState, OwnOk]
  · intro u _; simp [init, initState, ownerState]
  · intro u; simp [init, initState, ThiefOk]

theorem tbound_nonowner {m : Fld → Int} {l : L} (h : ownerState l = false) :
    tbound m l = m 1 := by
  cases l <;> simp_all [ownerState, tbound]

theorem ownOk_nonowner {C : Nat} {m : Fld → Int} {l : L} (h : ownerState l = false) :
    OwnOk C m l ↔ (m 0 ≤ m 1 ∧ m 1 - m 0 ≤ C) := by
  cases l <;> simp_all [ownerState, OwnOk]

theorem thiefOk_owner {C : Nat} {m : Fld → Int} {bd : Int} {l : L} (h : ownerState l = true) :
    ThiefOk C m bd l := by
  cases l <;> simp_all [ownerState, ThiefOk]

theorem tbound_congr {m m' : Fld → Int} (l : L) (h : m' 1 = m 1) : tbound m' l = tbound m l := by
  cases l <;> simp [tbound, h]

theorem thief_frame {C : Nat} {m m' : Fld → Int} {bd bd' : Int} {l : L}
    (h : ThiefOk C m bd l) (h0 : m 0 ≤ m' 0) (hb : ∀ x, x ≤ m 0 → x < bd → x < bd')
    (hs : ∀ x, x = m' 0 → x = m 0 → x < bd → m' (slotF C x) = m (slotF C x)) :
    ThiefOk C m' bd' l := by
  cases l <;> simp only [ThiefOk] at h ⊢
  case sFence t => omega
  case sLoadB t => omega
  case sRead t => exact ⟨by omega, hb t h.1 h.2⟩
  case sCas t v =>
    refine ⟨by omega, hb t h.1 h.2.1, fun ht => ?_⟩
    have ht0 : t = m 0 := by omega
    rw [hs t ht ht0 h.2.1]; exact h.2.2 ht0

/-- a successful CAS on `top` by a committed thread keeps the owner's knowledge valid -/
theorem ownOk_top_succ {C : Nat} {m : Fld → Int} {l : L} (h : OwnOk C m l)
    (hlt : m 0 < tbound m l) : OwnOk C (upd m 0 (m 0 + 1)) l := by
  cases l <;> simp only [OwnOk, tbound, upd_same, upd_0_1, upd_0_slot] at h hlt ⊢
  all_goals (try split_ifs at hlt)
  all_goals (first | omega | grind)

theorem le_tbound (m : Fld → Int) (l : L) : m 1 ≤ tbound m l := by
  cases l <;> simp only [tbound] <;> (try split_ifs) <;> omega

/-- one step of the owner inside a push or pop: effect on the owner's knowledge, `top`, the thief
bound and the slots -/
theorem owner_step {C : Nat} (hC : 1 ≤ C) {m m' : Fld → Int} {l l' : L} (h0 : 0 ≤ m 0)
    (hown : ownerState l = true) (hok : OwnOk C m l) (hs : OpStep C m l l' m') :
    OwnOk C m' l' ∧ 0 ≤ m' 0 ∧ m 0 ≤ m' 0 ∧
    (∀ x, x ≤ m 0 → x < tbound m l → x < tbound m' l') ∧
    (∀ x, x = m' 0 → x = m 0 → x < tbound m l → m' (slotF C x) = m (slotF C x)) ∧
    (∀ bd, ThiefOk C m' bd l') := by
  cases hs <;> simp only [ownerState, reduceCtorEq] at hown <;>
    simp only [OwnOk, tbound, ThiefOk, upd_same, upd_0_1, upd_1_0, upd_0_slot, upd_1_slot,
      upd_slot_0, upd_slot_1] at hok ⊢
  all_goals refine ⟨?_, ?_, ?_, ?_, ?_, ?_⟩
  all_goals (first | omega | trivial | (intros; trivial) | (intros; omega) | grind | skip)
  case pWrite.refine_5 v b =>
    intro x hx _ hlt
    exact upd_slot_slot hC m _ (by omega) (by omega) (by omega)

/-- one step of a thread inside a steal or a query -/
theorem thief_step {C : Nat} {m m' : Fld → Int} {l l' : L} {bd : Int}
    (hno : ownerState l = false) (hth : ThiefOk C m bd l) (hbd : m 1 ≤ bd)
    (hs : OpStep C m l l' m') :
    ownerState l' = false ∧ m' 1 = m 1 ∧ m 0 ≤ m' 0 ∧ ThiefOk C m' bd l' ∧
    (∀ x, m' (slotF C x) = m (slotF C x)) ∧
    (m' = m ∨ (m 0 < bd ∧ m' = upd m 0 (m 0 + 1))) := by
  cases hs <;> simp only [ownerState, reduceCtorEq] at hno <;>
    simp only [ThiefOk, ownerState, upd_same, upd_0_1, upd_0_slot] at hth ⊢
  all_goals refine ⟨?_, ?_, ?_, ?_, ?_, ?_⟩
  all_goals (first | omega | trivial | (intro _; trivial) | grind)

theorem inv_step_thief {C : Nat} {O : TId} {s s' : State (proto C)} {t : TId} {l' : L}
    (hI : Inv C O s) (hno : ownerState (s.loc t) = false)
    (hs : OpStep C s.mem (s.loc t) l' s'.mem) (hp : s'.parked = s.parked)
    (hloc : s'.loc = fun u => if u = t then l' else s.loc u) : Inv C O s' := by
  obtain ⟨np, top0, own, others, thief⟩ := hI
  obtain ⟨hl', hm1, hm0, hth, hslot, hmem⟩ :=
    thief_step hno (thief t) (le_tbound s.mem (s.loc O)) hs
  have hownm : OwnOk C s'.mem (s.loc O) := by
    rcases hmem with h | ⟨hlt, h⟩
    · rw [h]; exact own
    · rw [h]; exact ownOk_top_succ own hlt
  have hbd : tbound s'.mem (s'.loc O) = tbound s.mem (s.loc O) := by
    rw [hloc]
    by_cases hOt : O = t
    · subst hOt
      simp only [↓reduceIte]
      rw [tbound_nonowner hl', tbound_nonowner hno, hm1]
    · simp only [hOt, ↓reduceIte]
      exact tbound_congr _ hm1
  refine ⟨by simpa [hp] using np, by omega, ?_, ?_, ?_⟩
  · rw [hloc]
    by_cases hOt : O = t
    · subst hOt
      simp only [↓reduceIte]
      exact (ownOk_nonowner hl').2 ((ownOk_nonowner hno).1 hownm)
    · simpa only [hOt, ↓reduceIte] using hownm
  · intro u hu
    rw [hloc]
    by_cases hut : u = t
    · simpa only [hut, ↓reduceIte] using hl'
    · simpa only [hut, ↓reduceIte] using others u hu
  · intro u
    rw [hbd, hloc]
    by_cases hut : u = t
    · simpa only [hut, ↓reduceIte] using hth
    · simp only [hut, ↓reduceIte]
      exact thief_frame (thief u) hm0 (fun _ _ h => h) (fun x _ _ _ => hslot x)

theorem inv_step_owner {C : Nat} (hC : 1 ≤ C) {O : TId} {s s' : State (proto C)} {l' : L}
    (hI : Inv C O s) (hown : ownerState (s.loc O) = true)
    (hs : OpStep C s.mem (s.loc O) l' s'.mem) (hp : s'.parked = s.parked)
    (hloc : s'.loc = fun u => if u = O then l' else s.loc u) : Inv C O s' := by
  obtain ⟨np, top0, own, others, thief⟩ := hI
  obtain ⟨hok', h0', hm0, hb, hslot, hth⟩ := owner_step hC top0 hown own hs
  have hlO : s'.loc O = l' := by rw [hloc]; exact if_pos rfl
  refine ⟨by simpa [hp] using np, h0', by rw [hlO]; exact hok', ?_, ?_⟩
  · intro u hu
    rw [hloc]
    simpa only [hu, ↓reduceIte] using others u hu
  · intro u
    rw [hlO, hloc]
    by_cases hu : u = O
    · simpa only [hu, ↓reduceIte] using hth _
    · simp only [hu, ↓reduceIte]
      exact thief_frame (thief u) hm0 hb hslot

theorem inv_call {C : Nat} {O : TId} {s s' : State (proto C)} {t : TId} {l : L}
    (hI : Inv C O s) (hrole : isOwnerCall l = true → t = O)
    (hidle : idleOrDone (s.loc t) = true) (hent : isEntry l = true) (hm : s'.mem = s.mem)
    (hp : s'.parked = s.parked) (hloc : s'.loc = fun u => if u = t then l else s.loc u) :
    Inv C O s' := by
  obtain ⟨np, top0, own, others, thief⟩ := hI
  have hno : ownerState (s.loc t) = false := by
    cases hlt : (s.loc t : L) <;> simp_all [idleOrDone, ownerState]
  have hl : (ownerState l = true → isOwnerCall l = true) ∧ (∀ bd, ThiefOk C s.mem bd l) ∧
      tbound s.mem l = s.mem 1 ∧ (OwnOk C s.mem l ↔ (s.mem 0 ≤ s.mem 1 ∧ s.mem 1 - s.mem 0 ≤ C)) := by
    cases l <;> simp_all [isEntry, ownerState, isOwnerCall, ThiefOk, tbound, OwnOk]
  obtain ⟨hl1, hl2, hl3, hl4⟩ := hl
  have hbd : tbound s'.mem (s'.loc O) = tbound s.mem (s.loc O) := by
    rw [hloc, hm]
    by_cases hOt : O = t
    · subst hOt
      simp only [↓reduceIte]
      rw [hl3, tbound_nonowner hno]
    · simp only [hOt, ↓reduceIte]
  refine ⟨by simpa [hp] using np, by rw [hm]; exact top0, ?_, ?_, ?_⟩
  · rw [hloc, hm]
    by_cases hOt : O = t
    · subst hOt
      simp only [↓reduceIte]
      exact hl4.2 ((ownOk_nonowner hno).1 own)
    · simpa only [hOt, ↓reduceIte] using own
  · intro u hu
    rw [hloc]
    by_cases hut : u = t
    · subst hut
      simp only [↓reduceIte]
      cases h : ownerState l
      · rfl
      · exact absurd (hrole (hl1 h)) hu
    · simpa only [hut, ↓reduceIte] using others u hu
  · intro u
    rw [hbd, hloc, hm]
    by_cases hut : u = t
    · simpa only [hut, ↓reduceIte] using hl2 _
    · simpa only [hut, ↓reduceIte] using thief u

/-- the role contract for one action: owner calls are made by `O` only -/
def RoleOk (O : TId) {C : Nat} (a : Act (proto C)) : Prop :=
  ∀ t l, a = Act.call t l → isOwnerCall l = true → t = O

theorem inv_step {C : Nat} (hC : 1 ≤ C) {O : TId} {s s' : State (proto C)} {a : Act (proto C)}
    (hI : Inv C O s) (hr : RoleOk O a) (he : exec s a = some s') : Inv C O s' := by
  rcases exec_inv hI.np he with ⟨t, l, rfl, hidle, hent, hm, hp, hloc⟩ | ⟨t, l', rfl, hs, hp, hloc⟩
  · exact inv_call hI (hr t l rfl) hidle hent hm hp hloc
  · by_cases hown : ownerState (s.loc t) = true
    · have htO : t = O := by
        by_contra hne
        have := hI.others t hne
        rw [this] at hown; cases hown
      subst htO
      exact inv_step_owner hC hI hown hs hp hloc
    · exact inv_step_thief hI (by simpa using hown) hs hp hloc

/-! ### the abstract deque -/

/-- `[f lo, f (lo+1), …, f (lo+n-1)]` -/
def seg (f : Int → Int) (lo : Int) (n : Nat) : List Int :=
  (List.range n).map fun (i : Nat) => f (lo + (i : Int))

@[simp] theorem seg_zero (f : Int → Int) (lo : Int) : seg f lo 0 = [] := rfl

theorem seg_succ_right (f : Int → Int) (lo : Int) (n : Nat) :
    seg f lo (n + 1) = seg f lo n ++ [f (lo + (n : Int))] := by
  simp [seg, List.range_succ]

theorem seg_succ_left (f : Int → Int) (lo : Int) (n : Nat) :
    seg f lo (n + 1) = f lo :: seg f (lo + 1) n := by
  simp only [seg, List.range_succ_eq_map, List.map_cons, List.map_map]
  refine congrArg₂ _ (by simp) (List.map_congr_left fun i _ => ?_)
  simp only [Function.comp]
  congr 1
  push_cast
  omega

theorem seg_congr {f g : Int → Int} {lo : Int} {n : Nat}
    (h : ∀ i : Nat, i < n → f (lo + (i : Int)) = g (lo + (i : Int))) : seg f lo n = seg g lo n := by
  unfold seg
  exact List.map_congr_left fun i hi => h i (List.mem_range.1 hi)

/-- the abstract deque, oldest element first: the slots of the positions `top ≤ p < lbot` -/
def absq (C : Nat) (m : Fld → Int) (l : L) : List Int :=
  seg (fun p => m (slotF C p)) (m 0) (lbot m l - m 0).toNat

/-- the value of a push in progress (not yet published) -/
def pend (C : Nat) (m : Fld → Int) : L → List Int
  | .pLoadB v => [v]
  | .pLoadT v _ => [v]
  | .pWrite v _ => [v]
  | .pPub b => [m (slotF C b)]
  | _ => []

/-- the value returned by a take (`try_pop`, `try_pop_into`, `try_steal`) ending in `l` -/
def takenOpt : L → Option Int
  | .done [1, v] => some v
  | _ => none

@[simp] theorem takenOpt_single (x : Int) : takenOpt (.done [x]) = none := by
  simp [takenOpt]

@[simp] theorem takenOpt_pair (v : Int) : takenOpt (.done [1, v]) = some v := by
  simp [takenOpt]

theorem absq_congr {C : Nat} {m m' : Fld → Int} {l l' : L} (h0 : m' 0 = m 0)
    (hb : lbot m' l' = lbot m l) (hs : ∀ x, m' (slotF C x) = m (slotF C x)) :
    absq C m' l' = absq C m l := by
  unfold absq
  rw [h0, hb]
  exact seg_congr fun i _ => hs _

theorem tbound_le_lbot (m : Fld → Int) (l : L) : tbound m l ≤ lbot m l := by
  cases l <;> simp only [tbound, lbot, midPop] <;> (try split_ifs) <;> omega

/-- a successful steal removes the oldest element -/
theorem absq_steal {C : Nat} {m : Fld → Int} {l : L} (hlt : m 0 < tbound m l) :
    absq C m l = m (slotF C (m 0)) :: absq C (upd m 0 (m 0 + 1)) l := by
  have h1 := tbound_le_lbot m l
  have hb : lbot (upd m 0 (m 0 + 1)) l = lbot m l := by simp [lbot]
  unfold absq
  rw [hb, upd_same]
  have hn : (lbot m l - m 0).toNat = (lbot m l - (m 0 + 1)).toNat + 1 := by omega
  rw [hn, seg_succ_left]
  congr 1
  exact seg_congr fun i _ => by simp

/-- effect of one owner step (inside push/pop) on the abstract deque -/
theorem owner_step_kind {C : Nat} (hC : 1 ≤ C) {m m' : Fld → Int} {l l' : L}
    (hown : ownerState l = true) (hok : OwnOk C m l) (hs : OpStep C m l l' m') :
    (takenOpt l' = none ∧ absq C m' l' = absq C m l ∧ pend C m' l' = pend C m l) ∨
    (l' = .done [0] ∧ ∃ v, pend C m l = [v] ∧ absq C m' l' = absq C m l) ∨
    (l' = .done [1] ∧ ∃ v, pend C m l = [v] ∧ absq C m' l' = absq C m l ++ [v]) ∨
    (∃ v, l' = .done [1, v] ∧ pend C m l = [] ∧ absq C m l = absq C m' l' ++ [v]) := by
  cases hs <;> simp only [ownerState, reduceCtorEq] at hown <;> simp only [OwnOk] at hok
  case pLoadB v => left; exact ⟨rfl, absq_congr rfl rfl fun _ => rfl, rfl⟩
  case pLoadTFull v b _ => right; left; exact ⟨rfl, v, rfl, absq_congr rfl rfl fun _ => rfl⟩
  case pLoadTOk v b _ => left; exact ⟨rfl, absq_congr rfl rfl fun _ => rfl, rfl⟩
  case pWrite v b =>
    left
    refine ⟨rfl, ?_, by simp [pend]⟩
    unfold absq
    have hb : lbot (upd m (slotF C b) v) (.pPub b) = lbot m (.pWrite v b) := by
      simp [lbot, midPop]
    rw [hb, upd_slot_0]
    refine seg_congr fun i hi => ?_
    have hl : lbot m (.pWrite v b) = m 1 := by simp [lbot, midPop]
    rw [hl] at hi
    exact upd_slot_slot hC m v (by omega) (by omega) (by omega)
  case pPub b =>
    right; right; left
    refine ⟨rfl, m (slotF C b), rfl, ?_⟩
    unfold absq
    have h1 : lbot (upd m 1 (b + 1)) (.done [1]) = b + 1 := by simp [lbot, midPop]
    have h2 : lbot m (.pPub b) = b := by simp [lbot, midPop, hok.1]
    rw [h1, h2, upd_1_0]
    have hn : (b + 1 - m 0).toNat = (b - m 0).toNat + 1 := by omega
    rw [hn, seg_succ_right]
    have hb : m 0 + ((b - m 0).toNat : Int) = b := by omega
    rw [hb, upd_1_slot]
    congr 1
    exact seg_congr fun i _ => by simp
  case oLoadB into => left; exact ⟨rfl, absq_congr rfl rfl fun _ => rfl, rfl⟩
  case oStoreB into b =>
    left
    exact ⟨rfl, absq_congr (by simp) (by simp [lbot, midPop]; omega) (fun _ => by simp), rfl⟩
  case oFence into b => left; exact ⟨rfl, absq_congr rfl rfl fun _ => rfl, rfl⟩
  case oLoadTEmpty into b _ => left; exact ⟨rfl, absq_congr rfl rfl fun _ => rfl, rfl⟩
  case oLoadTRead into b _ _ => left; exact ⟨rfl, absq_congr rfl rfl fun _ => rfl, rfl⟩
  case oLoadTLast b _ _ => left; exact ⟨rfl, absq_congr rfl rfl fun _ => rfl, rfl⟩
  case oRestoreEmpty b =>
    left
    exact ⟨rfl, absq_congr (by simp) (by simp [lbot, midPop]; omega) (fun _ => by simp), rfl⟩
  case oReadFast into b t htb =>
    right; right; right
    refine ⟨_, rfl, rfl, ?_⟩
    unfold absq
    have h1 : lbot m (.oRead into b t) = b + 1 := by simp [lbot, midPop, hok.1]
    have h2 : lbot m (.done [1, m (slotF C b)]) = b := by simp [lbot, midPop, hok.1]
    have hle : m 0 ≤ b := hok.2.2.2.1 htb
    rw [h1, h2]
    have hn : (b + 1 - m 0).toNat = (b - m 0).toNat + 1 := by omega
    rw [hn, seg_succ_right]
    have hb : m 0 + ((b - m 0).toNat : Int) = b := by omega
    rw [hb]
  case oReadLastInto b t hnt =>
    exfalso
    have := hok.2.2.2.2.2.1 (by omega)
    cases this
  case oReadLast b t _ => left; exact ⟨rfl, absq_congr rfl rfl fun _ => rfl, rfl⟩
  case oRestoreLastInto b t v =>
    left
    exact ⟨rfl, absq_congr (by simp) (by simp [lbot, midPop]; omega) (fun _ => by simp), rfl⟩
  case oRestoreLast b t v =>
    left
    exact ⟨rfl, absq_congr (by simp) (by simp [lbot, midPop]; omega) (fun _ => by simp), rfl⟩
  case oReadLate b t => left; exact ⟨rfl, absq_congr rfl rfl fun _ => rfl, rfl⟩
  case oCasOk b t v hmt =>
    right; right; right
    refine ⟨v, rfl, rfl, ?_⟩
    obtain ⟨hb1, htb, _, _, hv⟩ := hok
    unfold absq
    have h1 : lbot m (.oCas b t v) = b + 1 := by simp [lbot, midPop, hb1]
    have h2 : lbot (upd m 0 (t + 1)) (.done [1, v]) = b + 1 := by simp [lbot, midPop, hb1]
    rw [h1, h2, upd_same]
    have hn1 : (b + 1 - m 0).toNat = 0 + 1 := by omega
    have hn2 : (b + 1 - (t + 1)).toNat = 0 := by omega
    rw [hn1, hn2, seg_succ_right]
    simp only [seg_zero, List.nil_append, Int.add_zero, Int.natCast_zero]
    rw [hv (by omega), hmt, htb]
  case oCasFail b t v _ => left; exact ⟨rfl, absq_congr rfl rfl fun _ => rfl, rfl⟩

/-- effect of one step of a thread inside a steal or a query -/
theorem thief_step_kind {C : Nat} {m m' : Fld → Int} {l l' : L} {bd : Int}
    (hno : ownerState l = false) (hth : ThiefOk C m bd l) (hs : OpStep C m l l' m') :
    (takenOpt l' = none ∧ m' = m) ∨
    (∃ v, l' = .done [1, v] ∧ m 0 < bd ∧ m' = upd m 0 (m 0 + 1) ∧ v = m (slotF C (m 0))) := by
  cases hs <;> simp only [ownerState, reduceCtorEq] at hno <;> simp only [ThiefOk] at hth
  case sCasOk t v hmt =>
    right
    subst hmt
    exact ⟨v, rfl, hth.2.1, rfl, hth.2.2 rfl⟩
  all_goals exact Or.inl ⟨by simp [takenOpt], rfl⟩

theorem pend_nonowner {C : Nat} {m : Fld → Int} {l : L} (h : ownerState l = false) :
    pend C m l = [] := by
  cases l <;> simp_all [ownerState, pend]

theorem lbot_nonowner {m : Fld → Int} {l : L} (h : ownerState l = false) : lbot m l = m 1 := by
  cases l <;> simp_all [ownerState, lbot, midPop]

theorem opstep_op_some {C : Nat} {m m' : Fld → Int} {l l' : L} (hs : OpStep C m l l' m') :
    (op C l).isSome = true := by
  cases hs <;> rfl

/-! ### the usage contract, call/return bookkeeping -/

/-- usage contract: all owner calls (`try_push`, `try_pop`, `try_pop_into`) are made by thread `O` -/
def Roles (O : TId) {C : Nat} (as : List (Act (proto C))) : Prop :=
  ∀ a ∈ as, ∀ t l, a = Act.call t l → isOwnerCall l = true → t = O

/-- the argument of a `try_push` call -/
def pushArgOpt : L → Option Int
  | .pLoadB v => some v
  | _ => none

/-- the arguments of all `try_push` calls started along an action list -/
def pushArgs {C : Nat} (as : List (Act (proto C))) : List Int :=
  (callsOf as).filterMap fun p => pushArgOpt p.2

/-- the values returned by the successful takes among the completed calls -/
def takenVals {C : Nat} (rs : List (TId × (proto C).L)) : List Int :=
  rs.filterMap fun p => takenOpt p.2

/-- the calls of thread `O`, in order: `some v` for `try_push v`, `none` for any other call -/
def ocalls (O : TId) {C : Nat} (as : List (Act (proto C))) : List (Option Int) :=
  (callsOf as).filterMap fun p => if p.1 = O then some (pushArgOpt p.2) else none

/-- the returns of thread `O`, in order: `true` iff the call returned `[1]` (push succeeded) -/
def orets (O : TId) {C : Nat} (rs : List (TId × (proto C).L)) : List Bool :=
  rs.filterMap fun p => if p.1 = O then some (decide (p.2 = L.done [1])) else none

/-- pair the i-th call with the i-th return; keep the push arguments whose call returned `[1]` -/
def pz (cs : List (Option Int)) (rs : List Bool) : List Int :=
  (List.zip cs rs).filterMap fun p => if p.2 = true then p.1 else none

/-- the values of the successful pushes: calls of `O` paired with the returns of `O` -/
def pushedOk (O : TId) {C : Nat} (rs : List (TId × (proto C).L)) (as : List (Act (proto C))) :
    List Int :=
  pz (ocalls O as) (orets O rs)

@[simp] theorem pz_nil_left (rs : List Bool) : pz [] rs = [] := by simp [pz]
@[simp] theorem pz_nil_right (cs : List (Option Int)) : pz cs [] = [] := by simp [pz]
@[simp] theorem pz_none (cs : List (Option Int)) (r : Bool) (rs : List Bool) :
    pz (none :: cs) (r :: rs) = pz cs rs := by simp [pz]
@[simp] theorem pz_false (c : Option Int) (cs : List (Option Int)) (rs : List Bool) :
    pz (c :: cs) (false :: rs) = pz cs rs := by simp [pz]
@[simp] theorem pz_true (v : Int) (cs : List (Option Int)) (rs : List Bool) :
    pz (some v :: cs) (true :: rs) = v :: pz cs rs := by simp [pz]

theorem pz_sublist (cs : List (Option Int)) : ∀ rs : List Bool,
    (pz cs rs).Sublist (cs.filterMap id) := by
  induction cs with
  | nil => intro rs; simp
  | cons c cs ih =>
    intro rs
    cases rs with
    | nil => simp
    | cons r rs =>
      cases c with
      | none => simpa using ih rs
      | some v =>
        cases r with
        | false => simpa using (ih rs).trans (List.sublist_cons_self v _)
        | true => simpa using ih rs

theorem callsOf_cons {P : Proto} (a : Act P) (as : List (Act P)) :
    callsOf (a :: as) = callsOf [a] ++ callsOf as := by
  cases a <;> simp [callsOf]

theorem ocalls_cons (O : TId) {C : Nat} (a : Act (proto C)) (as : List (Act (proto C))) :
    ocalls O (a :: as) = ocalls O [a] ++ ocalls O as := by
  unfold ocalls; rw [callsOf_cons, List.filterMap_append]

theorem orets_append (O : TId) {C : Nat} (r1 r2 : List (TId × (proto C).L)) :
    orets O (r1 ++ r2) = orets O r1 ++ orets O r2 := by
  unfold orets; rw [List.filterMap_append]

theorem takenVals_append {C : Nat} (r1 r2 : List (TId × (proto C).L)) :
    takenVals (r1 ++ r2) = takenVals r1 ++ takenVals r2 := by
  unfold takenVals; rw [List.filterMap_append]

theorem mem_callsOf {P : Proto} {as : List (Act P)} {p : TId × P.L} (h : p ∈ callsOf as) :
    Act.call p.1 p.2 ∈ as := by
  induction as with
  | nil => simp [callsOf] at h
  | cons a as ih =>
    cases a <;> simp only [callsOf, List.mem_cons] at h ⊢
    case call t l =>
      rcases h with rfl | h
      · left; rfl
      · right; exact ih h
    all_goals exact Or.inr (ih h)

theorem ocalls_filterMap_id {O : TId} {C : Nat} {as : List (Act (proto C))} (hr : Roles O as) :
    (ocalls O as).filterMap id = pushArgs as := by
  unfold ocalls pushArgs
  rw [List.filterMap_filterMap]
  refine List.filterMap_congr fun p hp => ?_
  have hm := mem_callsOf hp
  by_cases hO : p.1 = O
  · simp [hO]
  · simp only [hO, ↓reduceIte, Option.bind_none]
    cases hl : (p.2 : L) <;> simp only [pushArgOpt]
    case pLoadB v =>
      exact absurd (hr _ hm p.1 p.2 rfl (by rw [hl]; rfl)) hO

theorem takenOpt_op {C : Nat} {l : L} {v : Int} (h : takenOpt l = some v) : op C l = none := by
  cases l <;> simp_all [takenOpt, op]

/-- the current call of `O` (if it is inside one): `some v` while a push of `v` is in progress -/
def cur (C : Nat) (O : TId) (s : State (proto C)) : List (Option Int) :=
  if (op C (s.loc O)).isSome = true then [(pend C s.mem (s.loc O)).head?] else []

/-- the abstract deque of a state (oldest element first) -/
def sabs (C : Nat) (O : TId) (s : State (proto C)) : List Int := absq C s.mem (s.loc O)

theorem retsOf_step {C : Nat} {s s' : State (proto C)} {t : TId} {l' : L}
    (hsome : (op C (s.loc t)).isSome = true)
    (hloc : s'.loc = fun u => if u = t then l' else s.loc u) :
    retsOf s s' (.step t) =
      (if (op C l').isNone = true then [(t, (l' : (proto C).L))] else [] :
        List (TId × (proto C).L)) := by
  have h1 : (proto C).op (s.loc t) = op C (s.loc t) := rfl
  have h2 : s'.loc t = l' := by rw [hloc]; exact if_pos rfl
  have h3 : (proto C).op (s'.loc t) = op C l' := by rw [h2]; rfl
  simp only [retsOf, List.filter, h1, h3, hsome, Bool.true_and]
  cases h : (op C l').isNone
  · simp
  · simp [h2]

theorem takenVals_retsOf_step {C : Nat} {s s' : State (proto C)} {t : TId} {l' : L}
    (hsome : (op C (s.loc t)).isSome = true)
    (hloc : s'.loc = fun u => if u = t then l' else s.loc u) :
    takenVals (retsOf s s' (.step t)) = (takenOpt l').toList := by
  rw [retsOf_step hsome hloc]
  split
  · cases ht : takenOpt l' <;> simp [takenVals, ht]
  · rename_i h
    cases ht : takenOpt l' with
    | none => simp [takenVals]
    | some v => rw [takenOpt_op ht] at h; simp at h

theorem orets_retsOf_step {C : Nat} {O : TId} {s s' : State (proto C)} {t : TId} {l' : L}
    (hsome : (op C (s.loc t)).isSome = true)
    (hloc : s'.loc = fun u => if u = t then l' else s.loc u) :
    orets O (retsOf s s' (.step t)) =
      if t = O ∧ (op C l').isNone = true then [decide (l' = L.done [1])] else [] := by
  rw [retsOf_step hsome hloc]
  by_cases h1 : (op C l').isNone = true <;> by_cases h2 : t = O <;> simp [orets, h1, h2]

/-! ### conservation: one action -/

theorem pend_op_none {C : Nat} {m : Fld → Int} {l : L} (h : op C l = none) : pend C m l = [] := by
  cases l <;> simp_all [op, pend]

theorem pend_upd0 {C : Nat} (m : Fld → Int) (v : Int) (l : L) :
    pend C (upd m 0 v) l = pend C m l := by
  cases l <;> simp [pend]

theorem cur_of_some {C : Nat} {O : TId} {s : State (proto C)}
    (h : (op C (s.loc O)).isSome = true) :
    cur C O s = [(pend C s.mem (s.loc O)).head?] := by
  simp [cur, h]

theorem cur_of_none {C : Nat} {O : TId} {s : State (proto C)} (h : op C (s.loc O) = none) :
    cur C O s = [] := by
  simp [cur, h]

theorem conserve_call {C : Nat} {O : TId} {s s' : State (proto C)} {t : TId} {l : L}
    (hidle : idleOrDone (s.loc t) = true) (hent : isEntry l = true) (hm : s'.mem = s.mem)
    (hloc : s'.loc = fun u => if u = t then l else s.loc u)
    (cs : List (Option Int)) (rs' : List Bool) :
    (sabs C O s ++ pz (cur C O s ++ ocalls O [(Act.call t l : Act (proto C))] ++ cs)
        (orets O (retsOf s s' (.call t l)) ++ rs')).Perm
      (takenVals (retsOf s s' (.call t l)) ++ sabs C O s' ++ pz (cur C O s' ++ cs) rs') := by
  have hr : retsOf s s' (.call t l) = [] := by simp [retsOf]
  rw [hr]
  simp only [orets, takenVals, List.filterMap_nil, List.nil_append]
  by_cases hOt : t = O
  · subst hOt
    have hlt : s'.loc t = l := by rw [hloc]; exact if_pos rfl
    have hopn : op C (s.loc t) = none := by
      cases h : (s.loc t : L) <;> simp_all [idleOrDone, op]
    have hno : ownerState (s.loc t) = false := by
      cases h : (s.loc t : L) <;> simp_all [idleOrDone, ownerState]
    have hl : (op C l).isSome = true ∧ (pend C s.mem l).head? = pushArgOpt l ∧
        lbot s.mem l = s.mem 1 := by
      cases l <;> simp_all [isEntry, op, pend, pushArgOpt, lbot, midPop]
    have hA : sabs C t s' = sabs C t s := by
      unfold sabs
      rw [hlt, hm]
      exact absq_congr rfl (by rw [hl.2.2, lbot_nonowner hno]) fun _ => rfl
    have hc : cur C t s' = [pushArgOpt l] := by
      rw [cur_of_some (by rw [hlt]; exact hl.1), hlt, hm, hl.2.1]
    have hoc : ocalls t [(Act.call t l : Act (proto C))] = [pushArgOpt l] := by
      simp [ocalls, callsOf]
    rw [hA, hc, cur_of_none hopn, hoc]
    exact List.Perm.refl _
  · have hlO : s'.loc O = s.loc O := by
      rw [hloc]; exact if_neg (fun h => hOt h.symm)
    have hA : sabs C O s' = sabs C O s := by unfold sabs; rw [hlO, hm]
    have hc : cur C O s' = cur C O s := by unfold cur; rw [hlO, hm]
    have hoc : ocalls O [(Act.call t l : Act (proto C))] = [] := by
      simp [ocalls, callsOf, hOt]
    rw [hA, hc, hoc, List.append_nil]

theorem conserve_thief {C : Nat} {O : TId} {s s' : State (proto C)} {t : TId} {l' : L}
    (hI : Inv C O s) (hno : ownerState (s.loc t) = false)
    (hs : OpStep C s.mem (s.loc t) l' s'.mem)
    (hloc : s'.loc = fun u => if u = t then l' else s.loc u)
    (cs : List (Option Int)) (rs' : List Bool) :
    (sabs C O s ++ pz (cur C O s ++ ocalls O [(Act.step t : Act (proto C))] ++ cs)
        (orets O (retsOf s s' (.step t)) ++ rs')).Perm
      (takenVals (retsOf s s' (.step t)) ++ sabs C O s' ++ pz (cur C O s' ++ cs) rs') := by
  have hsome := opstep_op_some hs
  have hl' := (thief_step hno (hI.thief t) (le_tbound s.mem (s.loc O)) hs).1
  rw [takenVals_retsOf_step hsome hloc, orets_retsOf_step hsome hloc]
  have hoc : ocalls O [(Act.step t : Act (proto C))] = [] := by simp [ocalls, callsOf]
  rw [hoc, List.append_nil]
  -- bookkeeping of the current call of `O`
  have hbook : ∀ m', s'.mem = m' → (∀ lo, pend C m' lo = pend C s.mem lo) →
      pz (cur C O s ++ cs)
        ((if t = O ∧ (op C l').isNone = true then [decide (l' = L.done [1])] else []) ++ rs') =
      pz (cur C O s' ++ cs) rs' := by
    intro m' hm' hpend
    by_cases hOt : t = O
    · subst hOt
      have hlt : s'.loc t = l' := by rw [hloc]; exact if_pos rfl
      have hc : cur C t s = [none] := by
        rw [cur_of_some hsome, pend_nonowner hno]; rfl
      rw [hc]
      cases hopl : op C l' with
      | none =>
        have : cur C t s' = [] := cur_of_none (by rw [hlt]; exact hopl)
        simp [this]
      | some o =>
        have : cur C t s' = [none] := by
          rw [cur_of_some (by rw [hlt, hopl]; rfl), hlt, pend_nonowner hl']; rfl
        simp [this]
    · have hlO : s'.loc O = s.loc O := by
        rw [hloc]; exact if_neg (fun h => hOt h.symm)
      have hc : cur C O s' = cur C O s := by
        unfold cur; rw [hlO, hm', hpend (s.loc O)]
      simp [hOt, hc]
  have hlo : lbot s'.mem (s'.loc O) = lbot s'.mem (s.loc O) := by
    rw [hloc]
    by_cases hOt : O = t
    · subst hOt
      simp only [↓reduceIte]
      rw [lbot_nonowner hl', lbot_nonowner hno]
    · simp only [hOt, ↓reduceIte]
  have hA' : sabs C O s' = absq C s'.mem (s.loc O) := by
    unfold sabs
    exact absq_congr rfl hlo fun _ => rfl
  rcases thief_step_kind hno (hI.thief t) hs with ⟨htk, hm⟩ | ⟨v, rfl, hlt, hm, hv⟩
  · rw [hbook s.mem hm (fun _ => rfl), hA', hm, htk]
    exact List.Perm.refl _
  · rw [hbook _ hm (fun lo => pend_upd0 _ _ lo), hA', hm]
    have := absq_steal (C := C) hlt
    unfold sabs
    rw [this, ← hv]
    simp

theorem conserve_owner {C : Nat} (hC : 1 ≤ C) {O : TId} {s s' : State (proto C)} {l' : L}
    (hI : Inv C O s) (hown : ownerState (s.loc O) = true)
    (hs : OpStep C s.mem (s.loc O) l' s'.mem)
    (hloc : s'.loc = fun u => if u = O then l' else s.loc u)
    (cs : List (Option Int)) (rs' : List Bool) :
    (sabs C O s ++ pz (cur C O s ++ ocalls O [(Act.step O : Act (proto C))] ++ cs)
        (orets O (retsOf s s' (.step O)) ++ rs')).Perm
      (takenVals (retsOf s s' (.step O)) ++ sabs C O s' ++ pz (cur C O s' ++ cs) rs') := by
  have hsome := opstep_op_some hs
  rw [takenVals_retsOf_step hsome hloc, orets_retsOf_step hsome hloc]
  have hoc : ocalls O [(Act.step O : Act (proto C))] = [] := by simp [ocalls, callsOf]
  rw [hoc, List.append_nil, cur_of_some hsome]
  have hlO : s'.loc O = l' := by rw [hloc]; exact if_pos rfl
  have hA' : sabs C O s' = absq C s'.mem l' := by unfold sabs; rw [hlO]
  have hcn : ∀ {x}, l' = L.done x → cur C O s' = [] := by
    intro x hx; exact cur_of_none (by rw [hlO, hx]; rfl)
  rw [hA']
  unfold sabs
  rcases owner_step_kind hC hown hI.own hs with ⟨htk, hA, hP⟩ | ⟨rfl, v, hP, hA⟩ |
      ⟨rfl, v, hP, hA⟩ | ⟨v, rfl, hP, hA⟩
  · rw [htk, hA]
    cases hopl : op C l' with
    | none =>
      have hc : cur C O s' = [] := cur_of_none (by rw [hlO]; exact hopl)
      rw [← hP, pend_op_none hopl, hc]
      simp
    | some o =>
      have hc : cur C O s' = [(pend C s.mem (s.loc O)).head?] := by
        rw [cur_of_some (by rw [hlO, hopl]; rfl), hlO, hP]
      rw [hc]
      simp
  · rw [hcn rfl, hP, hA]
    simp [op]
  · rw [hcn rfl, hP, hA]
    simp [op]
  · rw [hcn rfl, hP, hA]
    simp only [op, Option.isNone_none, and_self, ↓reduceIte, List.head?_nil, List.cons_append,
      List.nil_append, pz_none, takenOpt_pair, Option.toList_some]
    exact List.perm_append_comm.append_right _

/-- **Conservation, one action.**  `cs` / `rs'` are the future calls / returns of `O`. -/
theorem step_conserve {C : Nat} (hC : 1 ≤ C) {O : TId} {s s' : State (proto C)}
    {a : Act (proto C)} (hI : Inv C O s) (he : exec s a = some s')
    (cs : List (Option Int)) (rs' : List Bool) :
    (sabs C O s ++ pz (cur C O s ++ ocalls O [a] ++ cs) (orets O (retsOf s s' a) ++ rs')).Perm
      (takenVals (retsOf s s' a) ++ sabs C O s' ++ pz (cur C O s' ++ cs) rs') := by
  rcases exec_inv hI.np he with ⟨t, l, rfl, hidle, hent, hm, _, hloc⟩ | ⟨t, l', rfl, hs, _, hloc⟩
  · exact conserve_call hidle hent hm hloc cs rs'
  · by_cases hown : ownerState (s.loc t) = true
    · have htO : t = O := by
        by_contra hne
        have := hI.others t hne
        rw [this] at hown; cases hown
      subst htO
      exact conserve_owner hC hI hown hs hloc cs rs'
    · exact conserve_thief hI (by simpa using hown) hs hloc cs rs'

/-! ### order: a steal takes the oldest element, a pop the newest -/

theorem order_step {C : Nat} (hC : 1 ≤ C) {O : TId} {s s' : State (proto C)} {u : TId} {v : Int}
    (hI : Inv C O s) (he : exec s (.step u) = some s') (hv : s'.loc u = L.done [1, v]) :
    (ownerState (s.loc u) = false →
      (∃ t, s.loc u = L.sCas t v ∧ t = s.mem 0 ∧ v = s.mem (slotF C t)) ∧
      sabs C O s = v :: sabs C O s') ∧
    (ownerState (s.loc u) = true → u = O ∧ sabs C O s = sabs C O s' ++ [v]) := by
  rcases exec_inv hI.np he with ⟨t, l, h, _⟩ | ⟨t, l', h, hs, _, hloc⟩
  · cases h
  · cases h
    have hlu : s'.loc u = l' := by rw [hloc]; exact if_pos rfl
    have hl' : l' = L.done [1, v] := by rw [← hlu]; exact hv
    subst hl'
    constructor
    · intro hno
      have hl'no := (thief_step hno (hI.thief u) (le_tbound s.mem (s.loc O)) hs).1
      have hlo : lbot s'.mem (s'.loc O) = lbot s'.mem (s.loc O) := by
        rw [hloc]
        by_cases hOu : O = u
        · subst hOu
          simp only [↓reduceIte]
          rw [lbot_nonowner hl'no, lbot_nonowner hno]
        · simp only [hOu, ↓reduceIte]
      have hA' : sabs C O s' = absq C s'.mem (s.loc O) := by
        unfold sabs
        exact absq_congr rfl hlo fun _ => rfl
      rcases thief_step_kind hno (hI.thief u) hs with ⟨htk, _⟩ | ⟨w, hw, hlt, hm, hwv⟩
      · simp at htk
      · have hwv' : w = v := by
          have := L.done.inj hw
          simp only [List.cons.injEq, and_true, true_and] at this
          exact this.symm
        subst hwv'
        refine ⟨?_, ?_⟩
        · generalize hl : (s.loc u : L) = l at hs hno
          generalize s'.mem = m' at hs
          cases hs <;> simp only [ownerState, reduceCtorEq] at hno
          case sCasOk t hmt => exact ⟨t, rfl, hmt.symm, by rw [hwv, hmt]⟩
        · rw [hA', hm, hwv]
          exact absq_steal hlt
    · intro hown
      have huO : u = O := by
        by_contra hne
        have := hI.others u hne
        rw [this] at hown; cases hown
      subst huO
      refine ⟨rfl, ?_⟩
      have hA' : sabs C u s' = absq C s'.mem (L.done [1, v]) := by unfold sabs; rw [hlu]
      rw [hA']
      unfold sabs
      rcases owner_step_kind hC hown hI.own hs with ⟨htk, _, _⟩ | ⟨h, _⟩ | ⟨h, _⟩ | ⟨w, hw, _, hA⟩
      · simp at htk
      · simp at h
      · simp at h
      · have := L.done.inj hw
        simp only [List.cons.injEq, and_true, true_and] at this
        subst this
        exact hA

/-! ### runs -/

theorem roles_cons {O : TId} {C : Nat} {a : Act (proto C)} {as : List (Act (proto C))}
    (h : Roles O (a :: as)) : RoleOk O a ∧ Roles O as :=
  ⟨fun t l ha hl => h a (List.mem_cons_self ..) t l ha hl,
   fun b hb => h b (List.mem_cons_of_mem _ hb)⟩

theorem inv_run {C : Nat} (hC : 1 ≤ C) {O : TId} (as : List (Act (proto C))) :
    ∀ (s sf : State (proto C)), Inv C O s → Roles O as → run s as = some sf → Inv C O sf := by
  induction as with
  | nil =>
    intro s sf hI _ h
    simp only [run, Option.some.injEq] at h
    subst h; exact hI
  | cons a as ih =>
    intro s sf hI hr h
    obtain ⟨hra, hras⟩ := roles_cons hr
    simp only [run] at h
    split at h
    · rename_i s' he
      exact ih s' sf (inv_step hC hI hra he) hras h
    · cases h

theorem run_of_runRets {P : Proto} (as : List (Act P)) :
    ∀ (s sf : State P) (rs : List (TId × P.L)), runRets s as = some (sf, rs) →
      run s as = some sf := by
  induction as with
  | nil =>
    intro s sf rs h
    simp only [runRets, Option.some.injEq, Prod.mk.injEq] at h
    simp [run, h.1]
  | cons a as ih =>
    intro s sf rs h
    simp only [runRets] at h
    simp only [run]
    split at h
    · rename_i s' he
      split at h
      · rename_i sf' rs' hr
        simp only [Option.some.injEq, Prod.mk.injEq] at h
        rw [← h.1]
        exact ih s' sf' rs' hr
      · cases h
    · cases h

/-- **Conservation along a run** (from any state satisfying the invariant). -/
theorem conserve_run {C : Nat} (hC : 1 ≤ C) {O : TId} (as : List (Act (proto C))) :
    ∀ (s sf : State (proto C)) (rs : List (TId × (proto C).L)), Inv C O s → Roles O as →
      runRets s as = some (sf, rs) →
      (sabs C O s ++ pz (cur C O s ++ ocalls O as) (orets O rs)).Perm
        (takenVals rs ++ sabs C O sf) := by
  induction as with
  | nil =>
    intro s sf rs _ _ h
    simp only [runRets, Option.some.injEq, Prod.mk.injEq] at h
    obtain ⟨rfl, rfl⟩ := h
    simp [orets, takenVals]
  | cons a as ih =>
    intro s sf rs hI hr h
    obtain ⟨hra, hras⟩ := roles_cons hr
    simp only [runRets] at h
    split at h
    · rename_i s' he
      split at h
      · rename_i sf' rs' hrr
        simp only [Option.some.injEq, Prod.mk.injEq] at h
        obtain ⟨rfl, rfl⟩ := h
        have h1 := step_conserve hC hI he (ocalls O as) (orets O rs')
        have h2 := ih s' sf' rs' (inv_step hC hI hra he) hras hrr
        rw [ocalls_cons, orets_append, takenVals_append, ← List.append_assoc]
        refine h1.trans ?_
        rw [List.append_assoc, List.append_assoc]
        exact h2.append_left _
      · cases h
    · cases h

end Dispenso.ChaseLev
