import DispensoVerif.Proofs.Wake
/-
C09, second part: once `stopAll` has returned, every worker runs to the end of its loop.
`rem l` bounds the number of actions (operations and loop-internal calls) a worker in local state `l`
still executes before it has left its loop, given that its `running_` flag is clear and, inside the
wait path, that it holds a stale epoch.  Also: epochs never decrease (used by C07).
-/
namespace Dispenso.Wake
open Dispenso.Conc

/-- a state with a decidable observation `v`, reached by a concrete schedule -/
theorem exists_of_run_obs {P : Proto} {α : Type} (obs : State P → α) {s0 : State P}
    {as : List (Act P)} {v : α} (h : (run s0 as).map obs = some v) :
    ∃ s, Reachable s0 s ∧ obs s = v := by
  cases hr : run s0 as with
  | none => rw [hr] at h; cases h
  | some s =>
    rw [hr] at h
    exact ⟨s, reachable_of_run as hr, Option.some.inj h⟩

section
variable {N G : Nat}

/-- the thread an action belongs to -/
def actor : Act (proto N G) → TId
  | .step t | .wake t _ | .timeout t | .spurious t | .call t _ => t

/-- remaining actions of a stopped worker (upper bound) -/
def rem : L → Nat
  | .wExit _ => 0
  | .wRun _ _ | .wXDec _ => 1
  | .wXAnd _ | .wIdle _ _ => 2
  | .wCur _ | .wDec _ _ | .wRe _ _ => 3
  | .wAnd _ _ | .wInc _ _ => 4
  | .wE3 _ | .wE1 _ _ | .wE2 _ _ | .wOr _ _ => 5
  | .wWait _ _ | .wOn _ _ => 6
  | _ => 0

/-- one operation of a stopped worker brings it closer to the end of its loop -/
theorem rem_cont {l : L} {r : Int} {i : Nat} (hw : widx l = some i) (hne : op N G l ≠ none)
    (hrun : ∀ e, (l = .wRun i e ∨ l = .wRe i e) → r = 0)
    (hstale : ∀ e, (l = .wE1 i e ∨ l = .wE2 i e) → r ≠ e) :
    rem (cont N G l r) < rem l := by
  cases l <;> simp [widx] at hw <;> subst hw <;> simp [op] at hne <;> simp only [cont]
  case wRun e => simp [hrun e (Or.inl rfl), rem]
  case wRe e => simp [hrun e (Or.inr rfl), rem]
  case wE1 e => simp [hstale e (Or.inl rfl), rem]
  case wE2 e => simp [hstale e (Or.inr rfl), rem]
  all_goals simp [rem]

theorem rem_entry {l l' : L} {i : Nat} (hw : widx l = some i) (h : entry N G false l l' = true) :
    rem l' < rem l := by
  unfold entry at h
  split at h <;> simp [widx] at hw <;> simp_all [rem]

/-- a thread that is not parked is not affected by the actions of other threads -/
theorem loc_other {s s' : State (proto N G)} {a : Act (proto N G)} {u : TId}
    (h : exec s a = some s') (hp : s.parked u = none) (hu : actor a ≠ u) :
    s'.loc u = s.loc u ∧ s'.parked u = none := by
  cases a with
  | step t =>
    have hut : u ≠ t := fun h' => hu h'.symm
    obtain ⟨_, o, _, hc⟩ := exec_step_gen h
    rcases hc with ⟨_, _, _, _, _, rfl⟩ | ⟨_, _, _, _, _, rfl⟩ | ⟨_, _, rfl⟩ | ⟨_, _, _, _, rfl⟩ <;>
      simp [hut, hp]
  | wake t ws =>
    have hut : u ≠ t := fun h' => hu h'.symm
    obtain ⟨_, f, n, _, hnd, hsub, _, _, _, rfl⟩ := exec_wake_gen h
    have huw : u ∉ ws := by
      intro hw
      obtain ⟨_, b, hb⟩ := (mem_parkedOn s f u).mp (hsub u hw)
      rw [hp] at hb; cases hb
    simp [hut, unparkAll_loc s ws hnd u, unparkAll_parked, huw, hp]
  | timeout t =>
    have hut : u ≠ t := fun h' => hu h'.symm
    obtain ⟨_, _, _, _, rfl⟩ := exec_unpark_gen (Or.inl h)
    simp [hut, hp]
  | spurious t =>
    have hut : u ≠ t := fun h' => hu h'.symm
    obtain ⟨_, _, _, _, rfl⟩ := exec_unpark_gen (Or.inr h)
    simp [hut, hp]
  | call t l =>
    have hut : u ≠ t := fun h' => hu h'.symm
    obtain ⟨_, _, _, _, hpk, hloc, _⟩ := exec_call_gen h
    rw [hloc, hpk, if_neg hut]
    exact ⟨rfl, hp⟩

/-- a local state without pending operation and without permitted call stays for ever -/
theorem loc_final {s s' : State (proto N G)} {a : Act (proto N G)} {t : TId}
    (h : exec s a = some s') (hp : s.parked t = none) (hop : op N G (s.loc t) = none)
    (hent : ∀ l', entry N G false (s.loc t) l' = false) : s'.loc t = s.loc t := by
  by_cases ha : actor a = t
  · cases a with
    | step u =>
      have : u = t := ha
      subst this
      obtain ⟨_, o, ho, _⟩ := exec_step_gen h
      replace ho : op N G (s.loc u) = some o := ho
      rw [hop] at ho; cases ho
    | wake u ws =>
      have : u = t := ha
      subst this
      obtain ⟨_, f, n, ho, _⟩ := exec_wake_gen h
      replace ho : op N G (s.loc u) = some (.fwake f n) := ho
      rw [hop] at ho; cases ho
    | timeout u =>
      have : u = t := ha
      subst this
      obtain ⟨_, _, _, hpk, _⟩ := exec_unpark_gen (Or.inl h)
      rw [hp] at hpk; cases hpk
    | spurious u =>
      have : u = t := ha
      subst this
      obtain ⟨_, _, _, hpk, _⟩ := exec_unpark_gen (Or.inr h)
      rw [hp] at hpk; cases hpk
    | call u l =>
      have : u = t := ha
      subst this
      obtain ⟨_, _, he, _⟩ := exec_call_gen h
      replace he : entry N G false (s.loc u) l = true := he
      rw [hent l] at he; cases he
  · exact (loc_other h hp ha).1

/-- epoch words never decrease -/
theorem epoch_mono {s s' : State (proto N G)} {a : Act (proto N G)} (h : exec s a = some s')
    (g : Nat) : s.mem (fEpoch g) ≤ s'.mem (fEpoch g) := by
  cases a with
  | step t =>
    obtain ⟨_, o, ho, hc⟩ := exec_step_gen h
    replace ho : op N G (s.loc t) = some o := ho
    rcases hc with ⟨_, _, _, _, _, rfl⟩ | ⟨_, _, _, _, _, rfl⟩ | ⟨_, _, rfl⟩ | ⟨r, f, v, hm, rfl⟩
    · exact Int.le_refl _
    · exact Int.le_refl _
    · exact Int.le_refl _
    · simp only [setLoc_mem, setMem_mem]
      by_cases hg : fEpoch g = f
      · rw [if_pos hg]
        have := ((op_write ho hm).1 g hg.symm).1
        rw [hg]; omega
      · rw [if_neg hg]; exact Int.le_refl _
  | wake t ws =>
    obtain ⟨_, f, n, _, _, _, _, _, _, rfl⟩ := exec_wake_gen h
    simp
  | timeout t =>
    obtain ⟨_, _, _, _, rfl⟩ := exec_unpark_gen (Or.inl h)
    simp
  | spurious t =>
    obtain ⟨_, _, _, _, rfl⟩ := exec_unpark_gen (Or.inr h)
    simp
  | call t l =>
    obtain ⟨_, _, _, hmem, _⟩ := exec_call_gen h
    rw [hmem]; exact Int.le_refl _

/-- a worker with a pending operation can execute it (no operation of a worker is a futex wake) -/
theorem worker_step_enabled {s : State (proto N G)} {u : TId} {i : Nat}
    (hw : widx (s.loc u) = some i) (hp : s.parked u = none) (hop : op N G (s.loc u) ≠ none) :
    ∃ s', exec s (.step u) = some s' := by
  have hop' : (proto N G).op (s.loc u) = op N G (s.loc u) := rfl
  cases hl : s.loc u <;> rw [hl] at hw hop <;> simp [widx] at hw <;> simp [op] at hop <;>
    simp [exec, hp, hl, op, memEffect]
  case wWait i e => split <;> simp

end
end Dispenso.Wake
