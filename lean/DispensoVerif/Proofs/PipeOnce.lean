import DispensoVerif.Proofs.PipeCalm
/-!
Per-item accounting of the pipeline model: an item never runs a stage twice (any reachable state, any
configuration), and the conservation equations that hold once nothing of a stage exists any more.
-/
namespace Dispenso.Pipe
set_option linter.unusedSimpArgs false
set_option linter.unusedTactic false
set_option linter.unusedVariables false

theorem wP1_nn (s i : Nat) : ∀ f, 0 ≤ wP1 s i f := by
  intro f
  cases f <;> simp [wP1, hwP1] <;> (repeat' split) <;> omega

theorem wP2_nn (s i : Nat) : ∀ f, 0 ≤ wP2 s i f := by
  intro f
  cases f <;> simp [wP2] <;> (repeat' split) <;> omega

theorem wP3_nn (s i : Nat) : ∀ f, 0 ≤ wP3 s i f := by
  intro f
  cases f <;> simp [wP3] <;> (repeat' split) <;> omega

/-- the per-item inequalities that hold in every reachable state -/
theorem item_chain {c : Cfg} {st : St} (hr : Reach c st) (s i : Nat) :
    st.sh.ran s i ≤ st.sh.arr s i ∧ st.sh.ended s i ≤ st.sh.ran s i ∧
      st.sh.passed s i + st.sh.stopped s i = st.sh.ended s i ∧
      st.sh.arr (s + 1) i ≤ st.sh.passed s i + (if s = 0 then st.sh.made i else 0) := by
  have h1 := p1_inv c s i hr
  have h2 := p2_inv c s i hr
  have h3 := p3_inv c s i hr
  have h4 := p4_inv c s i hr
  have n1 := sumT_nonneg (wP1 s i) (wP1_nn s i) st.thr c.pool
  have n2 := sumT_nonneg (wP2 s i) (wP2_nn s i) st.thr c.pool
  have n3 := sumT_nonneg (wP3 s i) (wP3_nn s i) st.thr c.pool
  have n4 : SW wP4 c st = 0 := by
    have : ∀ n, sumT wP4 st.thr n = 0 := by
      intro n
      induction n with
      | zero => simp [sumT]; induction st.thr 0 <;> simp_all [wP4]
      | succ n ih => simp only [sumT, ih]; induction st.thr (n + 1) <;> simp_all [wP4]
    exact this _
  simp only [SW, GP1, GP2, GP3, GP4] at *
  refine ⟨by omega, by omega, by omega, ?_⟩
  split <;> simp_all <;> omega

theorem arr_zero {c : Cfg} {st : St} (hr : Reach c st) (i : Nat) : st.sh.arr 0 i = 0 := by
  have h := p0_inv c i hr
  have : SW wP0 c st = 0 := by
    have : ∀ n, sumT wP0 st.thr n = 0 := by
      intro n
      induction n with
      | zero => simp [sumT]; induction st.thr 0 <;> simp_all [wP0]
      | succ n ih => simp only [sumT, ih]; induction st.thr (n + 1) <;> simp_all [wP0]
    exact this _
  simp only [GP0] at h
  omega

/-- an item is handed to every stage at most once -/
theorem arr_le_one {c : Cfg} {st : St} (hr : Reach c st) (i : Nat) : ∀ s, st.sh.arr s i ≤ 1 := by
  intro s
  induction s with
  | zero => rw [arr_zero hr i]; omega
  | succ s ih =>
    obtain ⟨a, b, d, e⟩ := item_chain hr s i
    have hm : st.sh.made i ≤ 1 := mde_inv c i (fun _ _ => trivial) hr
    have h0 := arr_zero hr i
    split at e
    · subst_vars; omega
    · omega

/-- **no item runs a stage twice** (every reachable state, every configuration) -/
theorem ran_le_one {c : Cfg} {st : St} (hr : Reach c st) (s i : Nat) : st.sh.ran s i ≤ 1 := by
  have := (item_chain hr s i).1
  have := arr_le_one hr i s
  omega

end Dispenso.Pipe
