import DispensoVerif.Model.ParFor
import DispensoVerif.Props.C17
import DispensoVerif.Core.Partition
import Mathlib.Tactic.Ring
import Mathlib.Tactic.Linarith
import Mathlib.Tactic.SplitIfs

/-! Helper lemmas for C12 / C13 / C48 (planning logic of `parallel_for`). -/
namespace Dispenso

/-! ### generic tiling facts -/

theorem tiles_range (b : Nat → Int) (n : Nat) (h : ∀ i, i < n → b i < b (i + 1)) :
    Tiles (b 0) (b n) ((List.range n).map fun i => (b i, b (i + 1))) := by
  induction n with
  | zero => simp [Tiles]
  | succ k ih =>
    rw [List.range_succ, List.map_append]
    refine Tiles.append (ih (fun i hi => h i (by omega))) ?_
    exact ⟨rfl, h k (by omega), rfl⟩

/-- boundary sequence `b` whose last end is replaced by `hi` -/
theorem tiles_range_last (b : Nat → Int) (n : Nat) (hi : Int) (hn : 0 < n)
    (h : ∀ i, i + 1 < n → b i < b (i + 1)) (hl : b (n - 1) < hi) :
    Tiles (b 0) hi ((List.range n).map fun i => (b i, if i + 1 = n then hi else b (i + 1))) := by
  have key := tiles_range (fun k => if k = n then hi else b k) n (by
    intro i hin
    have hne : ¬ (i = n) := by omega
    show (if i = n then hi else b i) < (if i + 1 = n then hi else b (i + 1))
    rw [if_neg hne]
    by_cases hlast : i + 1 = n
    · rw [if_pos hlast]
      have : i = n - 1 := by omega
      subst this; exact hl
    · rw [if_neg hlast]; exact h i (by omega))
  have h0 : ¬ (0 = n) := by omega
  simp only [if_true, if_neg h0] at key
  have e : ((List.range n).map fun i => (b i, if i + 1 = n then hi else b (i + 1)))
      = (List.range n).map fun i => ((if i = n then hi else b i), if i + 1 = n then hi else b (i + 1)) := by
    apply List.map_congr_left
    intro i hi'
    have : i < n := List.mem_range.mp hi'
    have hne : ¬ (i = n) := by omega
    rw [if_neg hne]
  rw [e]; exact key

theorem Tiles.getLast_snd : ∀ {lo hi : Int} {l : List (Int × Int)}, Tiles lo hi l →
    ∀ p, l.getLast? = some p → p.2 = hi
  | lo, hi, [], _, p, hp => by simp at hp
  | lo, hi, [(s, e)], h, p, hp => by
    obtain ⟨_, _, h3⟩ := h
    simp [Tiles] at h3
    simp at hp
    subst hp; exact h3
  | lo, hi, (s, e) :: q :: rest, h, p, hp => by
    obtain ⟨_, _, h3⟩ := h
    rw [List.getLast?_cons_cons] at hp
    exact Tiles.getLast_snd h3 p hp

end Dispenso

namespace Dispenso.ParFor
open Dispenso Dispenso.Chunk

/-! ### computeGranularity -/

structure GranSpec (c : Cfg) (g te : Int) (ht : Bool) : Prop where
  g_pos : 1 ≤ g
  te_ge : c.start ≤ te
  te_le : te ≤ c.stop
  dvd : g ∣ te - c.start
  tail_lt : ht = true → te < c.stop
  notail : ht = false → te = c.stop
  explicit : ¬ (c.chunk = 0 ∨ c.chunk = c.ty.maxVal) → g = 1 ∧ te = c.stop
  gran : (c.chunk = 0 ∨ c.chunk = c.ty.maxVal) → g = max 1 (c.granularity : Int)

theorem emod_facts (sz G : Int) (hsz : 0 ≤ sz) (hG : 0 < G) :
    0 ≤ sz % G ∧ sz % G < G ∧ G * (sz / G) + sz % G = sz ∧ 0 ≤ G * (sz / G) :=
  ⟨Int.emod_nonneg _ (by omega), Int.emod_lt_of_pos _ hG, Int.mul_ediv_add_emod sz G,
    Int.mul_nonneg (by omega) (Int.ediv_nonneg hsz (by omega))⟩

theorem computeGranularity_spec (c : Cfg) (h : c.start ≤ c.stop) {g te : Int} {ht : Bool}
    (e : computeGranularity c = (g, te, ht)) : GranSpec c g te ht := by
  unfold computeGranularity at e
  dsimp only at e
  by_cases hm : c.chunk = 0 ∨ c.chunk = c.ty.maxVal
  · rw [if_pos hm] at e
    obtain ⟨f1, f2, f3, f4⟩ := emod_facts (c.stop - c.start) (max 1 (c.granularity : Int))
      (by omega) (by omega)
    split_ifs at e with h1 h2 <;> simp only [Prod.mk.injEq] at e <;> obtain ⟨rfl, rfl, rfl⟩ := e
    · refine ⟨by omega, by omega, by omega, ⟨(c.stop - c.start) / max 1 (c.granularity : Int), by omega⟩,
        (by intro; omega), (by intro h; cases h), (by intro h; exact absurd hm h), by intro; rfl⟩
    · refine ⟨by omega, by omega, by omega, ⟨(c.stop - c.start) / max 1 (c.granularity : Int), by omega⟩,
        (by intro h; cases h), (by intro; rfl), (by intro h; exact absurd hm h), by intro; rfl⟩
    · have : max 1 (c.granularity : Int) = 1 := by omega
      rw [this]
      refine ⟨by omega, by omega, by omega, Int.one_dvd _,
        (by intro h; cases h), (by intro; rfl), (by intro; exact ⟨rfl, rfl⟩), by intro; omega⟩
  · rw [if_neg hm] at e
    simp only [gt_iff_lt, Int.lt_irrefl, if_false, Prod.mk.injEq] at e
    obtain ⟨rfl, rfl, rfl⟩ := e
    exact ⟨by omega, by omega, by omega, Int.one_dvd _,
        (by intro h; cases h), (by intro; rfl), (by intro; exact ⟨rfl, rfl⟩), by intro h; exact absurd h hm⟩

/-! ### the plan as a case tree -/

def staticThreads (N mt size g : Int) : Int :=
  let nt := min (min (N + 1) mt) size
  if g > 1 ∧ size.tdiv g < nt then max 1 (size.tdiv g) else nt

def adj (c : Cfg) (te : Int) : Int × Bool :=
  adjustChunkSizing (te - c.start) (decide (c.chunk = 0)) (decide (c.chunk = c.ty.maxVal))
    (clampMaxThreads c.maxThreads) (decide (c.chunk = c.ty.maxVal)) (max 1 (c.minItemsPerChunk : Int))
    c.poolThreads c.wait

def toLaunch (c : Cfg) (mt : Int) : Int := min (mt - b2n c.wait) c.poolThreads

structure ParCtx (c : Cfg) (g te : Int) (ht : Bool) (mt : Int) (st : Bool) : Prop where
  lt : c.start < c.stop
  cg : computeGranularity c = (g, te, ht)
  te_gt : c.start < te
  pool : c.poolThreads ≠ 0
  adj_eq : adj c te = (mt, st)
  mt2 : 2 ≤ mt

def serialPlan (c : Cfg) : Plan :=
  { mode := .serial, chunks := [(c.start, c.stop)], tasks := 1, tailConcurrent := false }


def planAlt (c : Cfg) : Plan :=
  if c.stop ≤ c.start then { mode := .none, chunks := [], tasks := 0, tailConcurrent := false } else
  if (computeGranularity c).2.1 ≤ c.start ∨ (c.poolThreads : Int) = 0 ∨ c.recursive = true then serialPlan c else
  if (adj c (computeGranularity c).2.1).1 < 2 then serialPlan c else
  if (adj c (computeGranularity c).2.1).2 = true then
    if (computeGranularity c).2.2 = true ∧ ¬ c.wait = true then
      { mode := .static_,
          chunks := ({ mkMapper c.start (computeGranularity c).2.1 (staticThreads c.poolThreads (adj c (computeGranularity c).2.1).1 ((computeGranularity c).2.1 - c.start) (computeGranularity c).1) (computeGranularity c).1 with
                        rangeEnd := c.stop } : Mapper).chunks,
          tasks := staticThreads c.poolThreads (adj c (computeGranularity c).2.1).1 ((computeGranularity c).2.1 - c.start) (computeGranularity c).1, tailConcurrent := false }
    else
      { mode := .static_,
          chunks := (mkMapper c.start (computeGranularity c).2.1 (staticThreads c.poolThreads (adj c (computeGranularity c).2.1).1 ((computeGranularity c).2.1 - c.start) (computeGranularity c).1) (computeGranularity c).1).chunks
                      ++ tailChunks (computeGranularity c).2.1 c.stop (computeGranularity c).2.2,
          tasks := staticThreads c.poolThreads (adj c (computeGranularity c).2.1).1 ((computeGranularity c).2.1 - c.start) (computeGranularity c).1, tailConcurrent := false }
  else
    if decide (c.chunk = 0) = true ∧ c.wait = true then
      { mode := .stripes,
          chunks := stripesFrom c.start (computeGranularity c).2.1
              (calcChunkSize ((computeGranularity c).2.1 - c.start) c.chunk (toLaunch c (adj c (computeGranularity c).2.1).1) true (max 1 (c.minItemsPerChunk : Int)) (computeGranularity c).1 64).1
              (stripeBounds c.start (computeGranularity c).2.1 (toLaunch c (adj c (computeGranularity c).2.1).1 + 1) (computeGranularity c).1) ++ tailChunks (computeGranularity c).2.1 c.stop (computeGranularity c).2.2,
          tasks := toLaunch c (adj c (computeGranularity c).2.1).1 + 1, tailConcurrent := false }
    else
      { mode := .dynamic,
          chunks := dynChunks c.start (computeGranularity c).2.1
              (calcChunkSize ((computeGranularity c).2.1 - c.start) c.chunk (toLaunch c (adj c (computeGranularity c).2.1).1) c.wait (max 1 (c.minItemsPerChunk : Int)) (computeGranularity c).1 16).1
              (calcChunkSize ((computeGranularity c).2.1 - c.start) c.chunk (toLaunch c (adj c (computeGranularity c).2.1).1) c.wait (max 1 (c.minItemsPerChunk : Int)) (computeGranularity c).1 16).2
              ++ tailChunks (computeGranularity c).2.1 c.stop (computeGranularity c).2.2,
          tasks := toLaunch c (adj c (computeGranularity c).2.1).1 + b2n c.wait, tailConcurrent := false }

theorem plan_eq_alt (c : Cfg) : plan c = planAlt c := rfl

theorem plan_cases (c : Cfg) (P : Plan → Prop)
    (h_none : c.stop ≤ c.start → P { mode := .none, chunks := [], tasks := 0, tailConcurrent := false })
    (h_serial : c.start < c.stop → P (serialPlan c))
    (h_fold : ∀ g te ht mt st, ParCtx c g te ht mt st → st = true → ht = true → c.wait = false →
      P { mode := .static_,
          chunks := ({ mkMapper c.start te (staticThreads c.poolThreads mt (te - c.start) g) g with
                        rangeEnd := c.stop } : Mapper).chunks,
          tasks := staticThreads c.poolThreads mt (te - c.start) g, tailConcurrent := false })
    (h_static : ∀ g te ht mt st, ParCtx c g te ht mt st → st = true → ¬ (ht = true ∧ c.wait = false) →
      P { mode := .static_,
          chunks := (mkMapper c.start te (staticThreads c.poolThreads mt (te - c.start) g) g).chunks
                      ++ tailChunks te c.stop ht,
          tasks := staticThreads c.poolThreads mt (te - c.start) g, tailConcurrent := false })
    (h_stripes : ∀ g te ht mt st, ParCtx c g te ht mt st → st = false → c.chunk = 0 → c.wait = true →
      P { mode := .stripes,
          chunks := stripesFrom c.start te
              (calcChunkSize (te - c.start) c.chunk (toLaunch c mt) true (max 1 (c.minItemsPerChunk : Int)) g 64).1
              (stripeBounds c.start te (toLaunch c mt + 1) g) ++ tailChunks te c.stop ht,
          tasks := toLaunch c mt + 1, tailConcurrent := false })
    (h_dyn : ∀ g te ht mt st, ParCtx c g te ht mt st → st = false → ¬ (c.chunk = 0 ∧ c.wait = true) →
      P { mode := .dynamic,
          chunks := dynChunks c.start te
              (calcChunkSize (te - c.start) c.chunk (toLaunch c mt) c.wait (max 1 (c.minItemsPerChunk : Int)) g 16).1
              (calcChunkSize (te - c.start) c.chunk (toLaunch c mt) c.wait (max 1 (c.minItemsPerChunk : Int)) g 16).2
              ++ tailChunks te c.stop ht,
          tasks := toLaunch c mt + b2n c.wait, tailConcurrent := false }) :
    P (plan c) := by
  rw [plan_eq_alt]; unfold planAlt
  by_cases h0 : c.stop ≤ c.start
  · rw [if_pos h0]; exact h_none h0
  rw [if_neg h0]
  by_cases h1 : (computeGranularity c).2.1 ≤ c.start ∨ (c.poolThreads : Int) = 0 ∨ c.recursive = true
  · rw [if_pos h1]; exact h_serial (by omega)
  rw [if_neg h1]
  by_cases h2 : (adj c (computeGranularity c).2.1).1 < 2
  · rw [if_pos h2]; exact h_serial (by omega)
  rw [if_neg h2]
  have ctx : ParCtx c (computeGranularity c).1 (computeGranularity c).2.1 (computeGranularity c).2.2
      (adj c (computeGranularity c).2.1).1 (adj c (computeGranularity c).2.1).2 :=
    ⟨by omega, rfl, by omega, by intro h; apply h1; right; left; simp [h], rfl, by omega⟩
  by_cases h3 : (adj c (computeGranularity c).2.1).2 = true
  · rw [if_pos h3]
    by_cases h4 : (computeGranularity c).2.2 = true ∧ ¬ c.wait = true
    · rw [if_pos h4]
      exact h_fold _ _ _ _ _ ctx h3 h4.1 (by simpa using h4.2)
    · rw [if_neg h4]
      exact h_static _ _ _ _ _ ctx h3 (by simpa using h4)
  · rw [if_neg h3]
    by_cases h4 : decide (c.chunk = 0) = true ∧ c.wait = true
    · rw [if_pos h4]
      exact h_stripes _ _ _ _ _ ctx (by simpa using h3) (by simpa using h4.1) h4.2
    · rw [if_neg h4]
      exact h_dyn _ _ _ _ _ ctx (by simpa using h3) (by simpa using h4)


theorem tdiv_mul_cancel (g u : Int) (hg : 1 ≤ g) (hu : 0 ≤ u) : (g * u).tdiv g = u := by
  rw [Int.tdiv_eq_ediv_of_nonneg (Int.mul_nonneg (by omega) hu)]
  exact Int.mul_ediv_cancel_left u (by omega)

theorem staticThreads_spec (N mt size g : Int) (hN : 1 ≤ N) (hmt : 2 ≤ mt) (hsz : 1 ≤ size)
    (hg : 1 ≤ g) (hd : g ∣ size) :
    1 ≤ staticThreads N mt size g ∧ staticThreads N mt size g * g ≤ size ∧
    staticThreads N mt size g ≤ mt ∧ staticThreads N mt size g ≤ N + 1 := by
  obtain ⟨u, rfl⟩ := hd
  have hu : 1 ≤ u := by
    by_contra hneg
    have : g * u ≤ 0 := Int.mul_nonpos_of_nonneg_of_nonpos (by omega) (by omega)
    omega
  unfold staticThreads
  simp only [tdiv_mul_cancel g u hg (by omega)]
  split_ifs with h
  · have e : max 1 u = u := by omega
    rw [e]
    refine ⟨hu, by rw [Int.mul_comm], by omega, by omega⟩
  · refine ⟨by omega, ?_, by omega, by omega⟩
    by_cases hg1 : g = 1
    · subst hg1; omega
    · have h2 : min (min (N + 1) mt) (g * u) ≤ u := by
        by_contra hlt; exact h ⟨by omega, by omega⟩
      have : min (min (N + 1) mt) (g * u) * g ≤ u * g := Int.mul_le_mul_of_nonneg_right h2 (by omega)
      rw [Int.mul_comm u g] at this
      exact this

theorem mkMapper_key (s e n g : Int) (hn : 0 < n) (hg : 1 ≤ g) (hdvd : g ∣ e - s)
    (hle : n * g ≤ e - s) :
    ∃ cu t : Int, 1 ≤ cu ∧ (t ≠ n → 2 ≤ cu) ∧
      staticChunkSizeGranular (e - s) n g = { transitionTaskIndex := t, ceilChunkSize := cu * g } := by
  obtain ⟨u, hu⟩ := hdvd
  have hun : n ≤ u := by
    by_contra hlt
    have h1 : u + 1 ≤ n := by omega
    have : (u + 1) * g ≤ n * g := Int.mul_le_mul_of_nonneg_right h1 (by omega)
    have e2 : (u + 1) * g = g * u + g := by ring
    omega
  obtain ⟨b1, b2, b3⟩ := ceil_div_bounds u n (by omega) hn
  have key : staticChunkSizeGranular (e - s) n g =
      { transitionTaskIndex := (staticChunkSize u n).transitionTaskIndex,
        ceilChunkSize := (staticChunkSize u n).ceilChunkSize * g } := by
    by_cases h1 : g ≤ 1
    · have : g = 1 := by omega
      subst this
      rw [granular_one _ _ _ h1, hu]; simp
    · rw [hu]; exact granular_eq_units u n g (by omega) (by omega)
  have hcu : 1 ≤ (u + n - 1).tdiv n := by
    by_contra hneg
    have : (u + n - 1).tdiv n * n ≤ 0 := Int.mul_nonpos_of_nonpos_of_nonneg (by omega) (by omega)
    omega
  refine ⟨(u + n - 1).tdiv n, n - ((u + n - 1).tdiv n * n - u), hcu, ?_, ?_⟩
  · intro hne
    by_contra hneg
    have : (u + n - 1).tdiv n = 1 := by omega
    rw [this] at hne b1
    omega
  · rw [key]; simp only [staticChunkSize]

theorem mkMapper_size (s e n g : Int) (hn : 0 < n) (hg : 1 ≤ g) (hdvd : g ∣ e - s)
    (hle : n * g ≤ e - s) (idx : Int) :
    0 < (mkMapper s e n g).size idx ∧ g ∣ (mkMapper s e n g).size idx := by
  obtain ⟨cu, t, h1, h2, key⟩ := mkMapper_key s e n g hn hg hdvd hle
  have hstep : (if g > 1 then g else 1) = g := by split_ifs <;> omega
  unfold mkMapper Mapper.size
  simp only [key, hstep]
  have p1 : 0 < cu * g := Int.mul_pos (by omega) (by omega)
  split_ifs with ha hb hb
  · exact ⟨p1, Dvd.intro_left cu rfl⟩
  · exact ⟨by omega, ⟨cu, by ring⟩⟩
  · exact ⟨p1, Dvd.intro_left cu rfl⟩
  · have : 2 ≤ cu := h2 ha
    have e2 : cu * g - g = (cu - 1) * g := by ring
    rw [e2]
    exact ⟨Int.mul_pos (by omega) (by omega), Dvd.intro_left _ rfl⟩



theorem dropLast_range (n : Nat) : (List.range n).dropLast = List.range (n - 1) := by
  cases n with
  | zero => rfl
  | succ k => rw [List.range_succ, List.dropLast_concat]; rfl

/-- chunk list of a mapper whose last end is replaced by `stop` -/
theorem fold_chunks_eq (m : Mapper) (h : m.WF) (stop : Int) :
    ({ m with rangeEnd := stop } : Mapper).chunks =
      (List.range m.numThreads.toNat).map fun i =>
        (m.bound i, if i + 1 = m.numThreads.toNat then stop else m.bound (i + 1)) := by
  unfold Mapper.chunks
  apply List.map_congr_left
  intro i hi
  have hi' : i < m.numThreads.toNat := List.mem_range.mp hi
  have hn := h.n_pos
  have e1 : ({ m with rangeEnd := stop } : Mapper).start (i : Int) = m.bound i := rfl
  rw [e1]
  congr 1
  unfold Mapper.stop
  by_cases hl : i + 1 = m.numThreads.toNat
  · rw [if_pos hl, if_pos (by show (i : Int) + 1 = m.numThreads; omega)]
  · rw [if_neg hl, if_neg (by show ¬ ((i : Int) + 1 = m.numThreads); omega)]
    have e2 : m.bound (i + 1) = m.start ((i : Int) + 1) := by
      unfold Mapper.bound; congr 1
    rw [e2, m.start_succ]
    show (if (i : Int) < m.transIdx then m.start i + m.chunkSize else m.start i + m.smallChunk) = _
    unfold Mapper.size
    split_ifs <;> rfl

theorem mapper_tiles_fold (m : Mapper) (h : m.WF) (hp : ∀ idx, 0 < m.size idx) (stop : Int)
    (hs : m.rangeEnd ≤ stop) :
    Tiles m.rangeStart stop ({ m with rangeEnd := stop } : Mapper).chunks := by
  rw [fold_chunks_eq m h]
  have hn := h.n_pos
  have h0 : m.bound 0 = m.rangeStart := m.start_zero h
  have hstep : ∀ i : Nat, m.bound i < m.bound (i + 1) := by
    intro i
    have e2 : m.bound (i + 1) = m.start ((i : Int) + 1) := by
      unfold Mapper.bound; congr 1
    rw [e2, m.start_succ]
    have := hp i
    show m.start i < _
    omega
  rw [← h0]
  apply tiles_range_last m.bound m.numThreads.toNat stop (by omega) (fun i _ => hstep i)
  have := hstep (m.numThreads.toNat - 1)
  have e : m.numThreads.toNat - 1 + 1 = m.numThreads.toNat := by omega
  rw [e, m.bound_last h] at this
  omega

theorem mapper_tiles (m : Mapper) (h : m.WF) (hp : ∀ idx, 0 < m.size idx) :
    Tiles m.rangeStart m.rangeEnd m.chunks :=
  mapper_tiles_fold m h hp m.rangeEnd (Int.le_refl _)

/-- every size in the list is a multiple of `g` -/
def AllDvd (g : Int) (l : List (Int × Int)) : Prop := ∀ p ∈ l, g ∣ p.2 - p.1

theorem AllDvd.append {g : Int} {l1 l2 : List (Int × Int)} (h1 : AllDvd g l1) (h2 : AllDvd g l2) :
    AllDvd g (l1 ++ l2) := by
  intro p hp
  rcases List.mem_append.mp hp with h | h
  · exact h1 p h
  · exact h2 p h

theorem mapper_allDvd (m : Mapper) (h : m.WF) (g : Int) (hd : ∀ idx, g ∣ m.size idx) :
    AllDvd g m.chunks := by
  intro p hp
  unfold Mapper.chunks at hp
  obtain ⟨i, _, rfl⟩ := List.mem_map.mp hp
  show g ∣ m.stop i - m.start i
  rw [m.stop_eq h]
  have := hd i
  have e : m.start i + m.size i - m.start i = m.size i := by omega
  rw [e]; exact this

theorem mapper_fold_allDvd (m : Mapper) (h : m.WF) (g : Int) (hd : ∀ idx, g ∣ m.size idx) (stop : Int) :
    AllDvd g ({ m with rangeEnd := stop } : Mapper).chunks.dropLast := by
  rw [fold_chunks_eq m h, ← List.map_dropLast, dropLast_range]
  intro p hp
  obtain ⟨i, hi, rfl⟩ := List.mem_map.mp hp
  have hi' := List.mem_range.mp hi
  rw [if_neg (by omega)]
  have e2 : m.bound (i + 1) = m.start ((i : Int) + 1) := by
    unfold Mapper.bound; congr 1
  show g ∣ m.bound (i + 1) - m.bound i
  rw [e2, m.start_succ]
  have := hd i
  have e : m.start i + m.size i - m.bound i = m.size i := by
    show m.start i + m.size i - m.start i = m.size i
    omega
  rw [e]; exact this



/-! ### dynamic chunk size -/

theorem calcAdaptive_pos (size wt mc g : Int) (hs : 1 ≤ size) (hm : 1 ≤ mc) :
    ∀ (fuel : Nat) (d : Int), 1 ≤ calcAdaptive size wt mc g fuel d
  | 0, _ => by simp only [calcAdaptive]; exact hs
  | fuel + 1, d => by
    simp only [calcAdaptive]
    split_ifs <;> first | exact calcAdaptive_pos size wt mc g hs hm fuel _ | omega

theorem calcAdaptive_dvd (size wt mc g : Int) (hg : 1 < g) (hd : g ∣ size) :
    ∀ (fuel : Nat) (d : Int), g ∣ calcAdaptive size wt mc g fuel d
  | 0, _ => by simp only [calcAdaptive]; exact hd
  | fuel + 1, d => by
    simp only [calcAdaptive]
    split_ifs <;> first | exact calcAdaptive_dvd size wt mc g hg hd fuel _ | exact Dvd.intro_left _ rfl

theorem ceilDiv_spec (a b : Int) (ha : 1 ≤ a) (hb : 1 ≤ b) :
    1 ≤ ceilDiv a b ∧ (ceilDiv a b - 1) * b < a ∧ a ≤ ceilDiv a b * b := by
  obtain ⟨b1, b2, b3⟩ := ceil_div_bounds a b (by omega) (by omega)
  unfold ceilDiv
  have e : ((a + b - 1).tdiv b - 1) * b = (a + b - 1).tdiv b * b - b := by ring
  refine ⟨?_, by omega, b1⟩
  by_contra hneg
  have : (a + b - 1).tdiv b = 0 := by omega
  rw [this] at b1
  omega

theorem calcChunkSize_spec (size chunk nl : Int) (oc : Bool) (mc g mdf : Int) (hs : 1 ≤ size)
    (hm : 1 ≤ mc) (hc : 0 ≤ chunk) :
    1 ≤ (calcChunkSize size chunk nl oc mc g mdf).1 ∧
    1 ≤ (calcChunkSize size chunk nl oc mc g mdf).2 ∧
    ((calcChunkSize size chunk nl oc mc g mdf).2 - 1) * (calcChunkSize size chunk nl oc mc g mdf).1 < size := by
  unfold calcChunkSize
  dsimp only
  split_ifs with h0
  · have h1 := calcAdaptive_pos size (nl + b2n oc) mc g hs hm
      ((min mdf (size.tdiv (nl + b2n oc))).toNat + 1) (min mdf (size.tdiv (nl + b2n oc)))
    obtain ⟨a1, a2, _⟩ := ceilDiv_spec size _ hs h1
    exact ⟨h1, a1, a2⟩
  · have h1 : 1 ≤ chunk := by omega
    obtain ⟨a1, a2, _⟩ := ceilDiv_spec size _ hs h1
    exact ⟨h1, a1, a2⟩

theorem calcChunkSize_dvd (size chunk nl : Int) (oc : Bool) (mc g mdf : Int) (hc : chunk = 0)
    (hg : 1 < g) (hd : g ∣ size) :
    g ∣ (calcChunkSize size chunk nl oc mc g mdf).1 := by
  subst hc
  unfold calcChunkSize
  dsimp only
  rw [if_pos rfl]
  exact calcAdaptive_dvd size _ mc g hg hd _ _

theorem dynChunks_eq (start stop cs n : Int) :
    dynChunks start stop cs n = (List.range n.toNat).map fun i : Nat =>
      (start + (i : Int) * cs, if i + 1 = n.toNat then stop else start + ((i + 1 : Nat) : Int) * cs) := by
  unfold dynChunks
  apply List.map_congr_left
  intro i hi
  have hi' : i < n.toNat := List.mem_range.mp hi
  dsimp only
  congr 1
  by_cases hl : i + 1 = n.toNat
  · rw [if_pos hl, if_pos (by omega)]
  · rw [if_neg hl, if_neg (by omega)]
    push_cast; ring

theorem dynChunks_tiles (start stop cs n : Int) (hcs : 1 ≤ cs) (hn : 1 ≤ n)
    (h1 : (n - 1) * cs < stop - start) : Tiles start stop (dynChunks start stop cs n) := by
  rw [dynChunks_eq]
  have key := tiles_range_last (fun k : Nat => start + (k : Int) * cs) n.toNat stop (by omega)
    (by intro i _; push_cast; have : (↑i + 1) * cs = ↑i * cs + cs := by ring
        omega)
    (by have : ((n.toNat - 1 : Nat) : Int) = n - 1 := by omega
        rw [this]; omega)
  simpa using key

theorem dynChunks_allDvd (start stop cs n g : Int) (h1 : g ∣ cs) (h2 : g ∣ stop - start) :
    AllDvd g (dynChunks start stop cs n) := by
  intro p hp
  unfold dynChunks at hp
  obtain ⟨i, _, rfl⟩ := List.mem_map.mp hp
  dsimp only
  split_ifs
  · have e : stop - (start + (i : Int) * cs) = (stop - start) - (i : Int) * cs := by ring
    rw [e]; exact Int.dvd_sub h2 (Dvd.dvd.mul_left h1 _)
  · have e : start + (i : Int) * cs + cs - (start + (i : Int) * cs) = cs := by ring
    rw [e]; exact h1



/-! ### stripes -/

theorem stripeChunks_nil (lo hi cs : Int) (h : hi ≤ lo) : ∀ fuel, stripeChunks lo hi cs fuel = []
  | 0 => rfl
  | fuel + 1 => by simp only [stripeChunks]; rw [if_neg (by omega)]

theorem stripeChunks_tiles (hi cs : Int) (hcs : 1 ≤ cs) :
    ∀ (fuel : Nat) (lo : Int), lo ≤ hi → hi - lo ≤ fuel → Tiles lo hi (stripeChunks lo hi cs fuel)
  | 0, lo, h1, h2 => by
    simp only [stripeChunks, Tiles]; omega
  | fuel + 1, lo, h1, h2 => by
    simp only [stripeChunks]
    by_cases hlt : lo < hi
    · rw [if_pos hlt]
      refine ⟨rfl, by omega, ?_⟩
      by_cases hle : lo + cs ≤ hi
      · have e : min (lo + cs) hi = lo + cs := by omega
        rw [e]
        exact stripeChunks_tiles hi cs hcs fuel (lo + cs) hle (by push_cast at h2; omega)
      · have e : min (lo + cs) hi = hi := by omega
        rw [e, stripeChunks_nil (lo + cs) hi cs (by omega)]
        rfl
    · rw [if_neg hlt]
      show lo = hi
      omega

theorem stripeChunks_allDvd (hi cs g : Int) (h1 : g ∣ cs) :
    ∀ (fuel : Nat) (lo : Int), g ∣ hi - lo → AllDvd g (stripeChunks lo hi cs fuel)
  | 0, lo, _ => by intro p hp; simp [stripeChunks] at hp
  | fuel + 1, lo, h2 => by
    simp only [stripeChunks]
    split_ifs with hlt
    · intro p hp
      rcases List.mem_cons.mp hp with rfl | hp
      · dsimp only
        by_cases hle : lo + cs ≤ hi
        · have e : min (lo + cs) hi - lo = cs := by omega
          rw [e]; exact h1
        · have e : min (lo + cs) hi - lo = hi - lo := by omega
          rw [e]; exact h2
      · refine stripeChunks_allDvd hi cs g h1 fuel (lo + cs) ?_ p hp
        have e : hi - (lo + cs) = (hi - lo) - cs := by ring
        rw [e]; exact Int.dvd_sub h2 h1
    · intro p hp; simp at hp

theorem stripesFrom_tiles (stop cs : Int) (hcs : 1 ≤ cs) :
    ∀ (bounds : List Int) (cursor : Int), cursor ≤ stop → bounds.getLast? = some stop →
      Tiles cursor stop (stripesFrom cursor stop cs bounds)
  | [], _, _, h => by simp at h
  | [b], cursor, hc, h => by
    simp at h
    subst h
    simp only [stripesFrom]
    have e : min (max b cursor) b = b := by omega
    rw [e]
    refine Tiles.append (stripeChunks_tiles b cs hcs _ cursor hc (by omega)) ?_
    rfl
  | b :: b' :: bs, cursor, hc, h => by
    rw [List.getLast?_cons_cons] at h
    simp only [stripesFrom]
    refine Tiles.append
      (stripeChunks_tiles (min (max b cursor) stop) cs hcs _ cursor (by omega) (by omega)) ?_
    exact stripesFrom_tiles stop cs hcs (b' :: bs) _ (by omega) h

theorem stripesFrom_allDvd (start stop cs g : Int) (h1 : g ∣ cs) (h2 : g ∣ stop - start) :
    ∀ (bounds : List Int) (cursor : Int), g ∣ cursor - start → (∀ b ∈ bounds, g ∣ b - start) →
      AllDvd g (stripesFrom cursor stop cs bounds)
  | [], _, _, _ => by intro p hp; simp [stripesFrom] at hp
  | b :: bs, cursor, hc, hb => by
    simp only [stripesFrom]
    have hbd : g ∣ b - start := hb b (List.mem_cons_self ..)
    have he : g ∣ min (max b cursor) stop - start := by
      rcases Int.le_total (max b cursor) stop with h | h
      · rw [Int.min_eq_left h]
        rcases Int.le_total b cursor with h' | h'
        · rw [Int.max_eq_right h']; exact hc
        · rw [Int.max_eq_left h']; exact hbd
      · rw [Int.min_eq_right h]; exact h2
    apply AllDvd.append
    · apply stripeChunks_allDvd _ cs g h1
      have e : min (max b cursor) stop - cursor = (min (max b cursor) stop - start) - (cursor - start) := by
        ring
      rw [e]; exact Int.dvd_sub he hc
    · exact stripesFrom_allDvd start stop cs g h1 h2 bs _ he
        (fun b' hb' => hb b' (List.mem_cons_of_mem _ hb'))

theorem stripeBounds_last (start stop nw g : Int) (h : 1 ≤ nw) :
    (stripeBounds start stop nw g).getLast? = some stop := by
  unfold stripeBounds
  dsimp only
  have e : nw.toNat = (nw.toNat - 1) + 1 := by omega
  rw [e, List.range_succ, List.map_append, List.map_singleton, List.getLast?_concat]
  rw [if_pos (by omega)]

theorem stripeBounds_dvd (start stop nw g : Int) (hg : 1 < g) (h2 : g ∣ stop - start) :
    ∀ b ∈ stripeBounds start stop nw g, g ∣ b - start := by
  intro b hb
  unfold stripeBounds at hb
  obtain ⟨i, _, rfl⟩ := List.mem_map.mp hb
  dsimp only
  split_ifs
  · exact h2
  · have e : ∀ r : Int, start + (r - r % g) - start = g * (r / g) := by
      intro r
      have := Int.mul_ediv_add_emod r g
      omega
    rw [e]; exact Dvd.intro _ rfl

theorem tail_tiles (te stop : Int) (ht : Bool) (h1 : ht = true → te < stop) (h2 : ht = false → te = stop) :
    Tiles te stop (tailChunks te stop ht) := by
  unfold tailChunks
  cases ht with
  | true => exact ⟨rfl, h1 rfl, rfl⟩
  | false => exact h2 rfl



/-! ### adjustChunkSizing, thread counts -/

theorem b2n_range (b : Bool) : 0 ≤ b2n b ∧ b2n b ≤ 1 := by cases b <;> decide

theorem clamp_pos (mt : Nat) : 1 ≤ clampMaxThreads mt := by
  unfold clampMaxThreads; dsimp only; omega

theorem adjust_le_pool (size : Int) (ia isr : Bool) (mt : Int) (st : Bool) (mi N : Int) (w : Bool) :
    (adjustChunkSizing size ia isr mt st mi N w).1 ≤ N + 1 := by
  have := b2n_range w
  unfold adjustChunkSizing; dsimp only; split_ifs <;> dsimp only <;> omega

theorem adjust_le_mt (size : Int) (ia isr : Bool) (mt : Int) (st : Bool) (mi N : Int) (w : Bool) :
    (adjustChunkSizing size ia isr mt st mi N w).1 ≤ mt := by
  unfold adjustChunkSizing; dsimp only
  split_ifs <;> dsimp only <;> omega

theorem adjust_static (size : Int) (ia isr : Bool) (mt : Int) (mi N : Int) (w : Bool) :
    (adjustChunkSizing size ia isr mt true mi N w).2 = true := by
  unfold adjustChunkSizing; dsimp only; split_ifs <;> rfl

/-- The one configuration class in which the *original* `adjustChunkSizing` overwrote the thread
budget (`maxThreads = range.size() - wait`; repaired to `min(maxThreads, size - wait)`):
explicit chunk size, `minItemsPerChunk ≤ 1`, and a range no longer than the pool (+ the caller).
See `adjustChunkSizingOld` / `planOld` below. -/
def SmallExplicit (c : Cfg) : Prop :=
  c.chunk ≠ 0 ∧ c.chunk ≠ c.ty.maxVal ∧ c.minItemsPerChunk ≤ 1 ∧
    c.stop - c.start ≤ (c.poolThreads : Int) + b2n c.wait

instance (c : Cfg) : Decidable (SmallExplicit c) := by unfold SmallExplicit; infer_instance

theorem adj_le_pool (c : Cfg) (te : Int) : (adj c te).1 ≤ (c.poolThreads : Int) + 1 :=
  adjust_le_pool ..

theorem adj_le_clamp (c : Cfg) (te : Int) : (adj c te).1 ≤ clampMaxThreads c.maxThreads :=
  adjust_le_mt ..

theorem adj_static (c : Cfg) (te : Int) (h : c.chunk = c.ty.maxVal) : (adj c te).2 = true := by
  unfold adj
  rw [decide_eq_true h]
  exact adjust_static ..

theorem toLaunch_spec (c : Cfg) (mt : Int) (hp : c.poolThreads ≠ 0) (hmt : 2 ≤ mt) :
    1 ≤ toLaunch c mt ∧ toLaunch c mt ≤ c.poolThreads ∧ toLaunch c mt + b2n c.wait ≤ mt := by
  have := b2n_range c.wait
  unfold toLaunch
  omega

theorem AllDvd.dropLast {g : Int} {l : List (Int × Int)} (h : AllDvd g l) : AllDvd g l.dropLast :=
  fun p hp => h p ((List.dropLast_sublist l).subset hp)

theorem allDvd_dropLast_tail {g : Int} {A : List (Int × Int)} (te stop : Int) (ht : Bool)
    (h : AllDvd g A) : AllDvd g (A ++ tailChunks te stop ht).dropLast := by
  unfold tailChunks
  cases ht with
  | true => rw [if_pos rfl, List.dropLast_concat]; exact h
  | false => simp only [Bool.false_eq_true, if_false, List.append_nil]; exact h.dropLast

/-- what the parallel branches share -/
theorem ParCtx.facts {c : Cfg} {g te : Int} {ht : Bool} {mt : Int} {st : Bool}
    (ctx : ParCtx c g te ht mt st) :
    GranSpec c g te ht ∧ (1 : Int) ≤ c.poolThreads ∧ 1 ≤ te - c.start :=
  ⟨computeGranularity_spec c (by have := ctx.lt; omega) ctx.cg,
    by have := ctx.pool; omega, by have := ctx.te_gt; omega⟩

theorem ParCtx.mapper {c : Cfg} {g te : Int} {ht : Bool} {mt : Int} {st : Bool}
    (ctx : ParCtx c g te ht mt st) :
    (mkMapper c.start te (staticThreads c.poolThreads mt (te - c.start) g) g).WF ∧
    (∀ idx, 0 < (mkMapper c.start te (staticThreads c.poolThreads mt (te - c.start) g) g).size idx ∧
      g ∣ (mkMapper c.start te (staticThreads c.poolThreads mt (te - c.start) g) g).size idx) ∧
    staticThreads c.poolThreads mt (te - c.start) g ≤ mt ∧
    staticThreads c.poolThreads mt (te - c.start) g ≤ (c.poolThreads : Int) + 1 := by
  obtain ⟨gs, hN, hsz⟩ := ctx.facts
  obtain ⟨s1, s2, s3, s4⟩ := staticThreads_spec c.poolThreads mt (te - c.start) g hN ctx.mt2 hsz gs.g_pos gs.dvd
  exact ⟨mkMapper_wf c.start te _ g gs.te_ge (by omega) gs.g_pos gs.dvd,
    fun idx => mkMapper_size c.start te _ g (by omega) gs.g_pos gs.dvd s2 idx, s3, s4⟩


/-! ### the original (defective) thread budget, kept as a witness

`adjustChunkSizingOld` / `planOld` differ from the model's `adjustChunkSizing` / `plan` only by the
overwrite `(size - b2n wait, isStatic)` where the repaired code takes
`min maxThreads (size - b2n wait)`. -/

def adjustChunkSizingOld (size : Int) (isAuto isStaticRange : Bool) (maxThreads : Int) (isStatic : Bool)
    (minItems : Int) (poolThreads : Int) (wait : Bool) : Int × Bool :=
  let maxThreads := min maxThreads (poolThreads + 1)
  if minItems > 1 then
    let maxWorkers := size.tdiv minItems
    let maxThreads := if maxWorkers < maxThreads then maxWorkers else maxThreads
    if maxThreads > 0 ∧ size.tdiv (maxThreads + b2n wait) < minItems ∧ isAuto then (maxThreads, true)
    else (maxThreads, isStatic)
  else if size ≤ poolThreads + b2n wait then
    if isAuto then (maxThreads, true)
    else if ¬ isStaticRange then (size - b2n wait, isStatic)   -- original: overwrites the budget
    else (maxThreads, isStatic)
  else (maxThreads, isStatic)

/-- outside the `SmallExplicit` branch the original and the repaired sizing agree -/
theorem adjustChunkSizingOld_eq (size : Int) (ia isr : Bool) (mt : Int) (st : Bool) (mi N : Int)
    (w : Bool) (h : ia = true ∨ isr = true ∨ 1 < mi ∨ N + b2n w < size) :
    adjustChunkSizingOld size ia isr mt st mi N w = adjustChunkSizing size ia isr mt st mi N w := by
  unfold adjustChunkSizingOld adjustChunkSizing; dsimp only
  rcases h with h | h | h | h <;> split_ifs <;> first | rfl | omega

def planOld (c : Cfg) : Plan :=
  if c.stop ≤ c.start then { mode := .none, chunks := [], tasks := 0, tailConcurrent := false } else
  let (g, trimmedEnd, hasTail) := computeGranularity c
  let minItems : Int := max 1 (c.minItemsPerChunk : Int)
  let maxThreads := clampMaxThreads c.maxThreads
  let isStaticRange := decide (c.chunk = c.ty.maxVal)
  let isAuto := decide (c.chunk = 0)
  let N : Int := c.poolThreads
  let serial : Plan := { mode := .serial, chunks := [(c.start, c.stop)], tasks := 1, tailConcurrent := false }
  if trimmedEnd ≤ c.start ∨ N = 0 ∨ c.recursive then serial else
  let size := trimmedEnd - c.start
  let (maxThreads, isStatic) := adjustChunkSizingOld size isAuto isStaticRange maxThreads isStaticRange minItems N c.wait
  if maxThreads < 2 then serial else
  let tail := tailChunks trimmedEnd c.stop hasTail
  if isStatic then
    let numThreads := min (min (N + 1) maxThreads) size
    let numThreads := if g > 1 ∧ size.tdiv g < numThreads then max 1 (size.tdiv g) else numThreads
    let m := mkMapper c.start trimmedEnd numThreads g
    if hasTail ∧ ¬ c.wait then
      { mode := .static_, chunks := ({ m with rangeEnd := c.stop } : Mapper).chunks, tasks := numThreads,
        tailConcurrent := false }
    else
      { mode := .static_, chunks := m.chunks ++ tail, tasks := numThreads, tailConcurrent := false }
  else
    let numToLaunch := min (maxThreads - b2n c.wait) N
    let (chunkSize, numChunks) := calcChunkSize size c.chunk numToLaunch c.wait minItems g 16
    if isAuto ∧ c.wait then
      let workers := numToLaunch + 1
      let acs := (calcChunkSize size c.chunk numToLaunch true minItems g 64).1
      let cs := acs
      { mode := .stripes, chunks := stripesFrom c.start trimmedEnd cs (stripeBounds c.start trimmedEnd workers g) ++ tail,
        tasks := workers, tailConcurrent := false }
    else
      { mode := .dynamic, chunks := dynChunks c.start trimmedEnd chunkSize numChunks ++ tail,
        tasks := numToLaunch + b2n c.wait, tailConcurrent := false }

end Dispenso.ParFor
