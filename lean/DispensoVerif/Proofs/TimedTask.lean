import DispensoVerif.Model.TimedTask

/-! Invariants of the TimedTask model (C26). Core Lean only. -/
namespace Dispenso.TimedTask
set_option linter.unusedSimpArgs false

/-- split `h : step c s a = some s'` into one goal per leaf of the step function, with `s'`
    substituted and the branch conditions in the context -/
syntax "step_split " ident : tactic
macro_rules
  | `(tactic| step_split $h:ident) => `(tactic| (
      simp only [step, kstepF, wstepF, cstepF, dstepF] at $h:ident
      repeat' (split at $h:ident)
      all_goals (first | (simp at $h:ident; done) | skip)
      all_goals (try simp only [Option.some.injEq] at $h:ident)
      all_goals (try subst $h:ident)))

/-! ### counting wraps -/

/-- number of wraps satisfying `p` (kept irreducible so that `simp` does not rewrite counting facts) -/
@[irreducible] def cnt (p : W → Bool) (l : List W) : Nat := l.countP p

theorem cnt_nil (p : W → Bool) : cnt p [] = 0 := by unfold cnt; rfl

theorem cnt_append1 (p : W → Bool) (l : List W) (v : W) :
    cnt p (l ++ [v]) = cnt p l + (if p v then 1 else 0) := by
  unfold cnt; simp [List.countP_append, List.countP_cons]

theorem countP_set' (p : W → Bool) {l : List W} {i : Nat} {w : W} (h : l[i]? = some w) (v : W) :
    (l.set i v).countP p + (if p w then 1 else 0) = l.countP p + (if p v then 1 else 0) := by
  induction l generalizing i with
  | nil => simp at h
  | cons x xs ih =>
    cases i with
    | zero =>
      simp only [List.getElem?_cons_zero, Option.some.injEq] at h; subst h
      simp only [List.set_cons_zero, List.countP_cons]; omega
    | succ j =>
      simp only [List.getElem?_cons_succ] at h
      have := ih h
      simp only [List.set_cons_succ, List.countP_cons]; omega

theorem cnt_pos (p : W → Bool) {l : List W} {i : Nat} {w : W} (h : l[i]? = some w) (hp : p w = true) :
    1 ≤ cnt p l := by
  unfold cnt
  have := countP_set' p h w
  have hm : w ∈ l := List.mem_of_getElem? h
  exact List.countP_pos_iff.mpr ⟨w, hm, hp⟩

theorem cnt_set (p : W → Bool) {l : List W} {i : Nat} {w : W} (h : l[i]? = some w) (v : W) :
    cnt p (l.set i v) = cnt p l + (if p v then 1 else 0) - (if p w then 1 else 0) := by
  have h1 := countP_set' p h v
  have h2 : p w = true → 1 ≤ cnt p l := cnt_pos p h
  unfold cnt at *
  split at h1 <;> split at h1 <;> simp_all <;> omega

theorem cnt_le_length (p : W → Bool) (l : List W) : cnt p l ≤ l.length := by
  unfold cnt; exact List.countP_le_length

theorem cnt_zero_of_imp {p q : W → Bool} (hpq : ∀ w, q w = true → p w = true) {l : List W}
    (h : cnt p l = 0) : cnt q l = 0 := by
  unfold cnt at *
  have := List.countP_mono_left (l := l) (p := q) (q := p) (fun w _ hw => hpq w hw)
  omega

theorem any_false_of_cnt {p : W → Bool} {l : List W} (h : cnt p l = 0) : l.any p = false := by
  unfold cnt at h
  rw [List.countP_eq_zero] at h
  rw [List.any_eq_false]
  exact h

/-- kicker states that only the original code uses -/
def K.isOld : K → Bool
  | .check _ _ | .incr _ _ => true
  | _ => false

/-- kicker states that only the repaired code uses -/
def K.isNew : K → Bool
  | .announce _ _ | .recheck _ _ | .retract => true
  | _ => false

/-- the kicker's fetch_sub has returned a value ≥ 1 -/
def K.after : K → Bool
  | .idle | .fetch _ => false
  | _ => true

def isClear (w : W) : Bool := w == .clear
def isPending (w : W) : Bool := w == .pending
def notDone (w : W) : Bool := w != .done
def isRunning (w : W) : Bool := w == .running
/-- the invocation in this wrap returned false and has not yet published the cancellation -/
def midFalse : W → Bool
  | .storeTtr | .setFlag => true
  | _ => false

/-- units of `inProgress` held by the kick-off in flight -/
def kHolds (fixed : Bool) : K → Nat
  | .recheck _ _ | .retract | .submit _ _ => 1
  | .call _ _ => if fixed then 1 else 0
  | _ => 0

/-- a counted kick-off that has not yet produced its wrap -/
def pk : K → Nat
  | .announce _ _ | .recheck _ _ | .retract | .call _ _ | .check _ _ | .incr _ _ | .submit _ _ => 1
  | _ => 0

/-- the kick-off in flight will put the impl back into the queue -/
def kMore : K → Bool
  | .idle | .retract => false
  | .fetch _ => true
  | .announce m _ | .recheck m _ | .call m _ | .check m _ | .incr m _ | .submit m _ | .inl m _ _
  | .requeue m _ => m

/-- another kick-off of this impl is possible -/
def mayKick (s : St) : Bool := !s.created || s.inQueue || kMore s.k

def K.isInl : K → Bool
  | .inl _ _ _ => true
  | _ => false

/-- the kicker is about to call `func` or is executing its closure -/
def K.usesFunc : K → Bool
  | .call _ _ | .check _ _ | .incr _ _ | .submit _ _ => true
  | _ => false

/-- closing tactic for the per-case goals: normalise with the model's definitions, then arithmetic -/
syntax "tt_simp" : tactic
macro_rules
  | `(tactic| tt_simp) => `(tactic|
      simp_all [K.isOld, K.isNew, K.after, setCl, setWrap, useFunc, clearFunc, isClear, isPending,
        notDone, isRunning, cnt_append1, cnt_nil, W.busy, kHolds, pk, kMore, mayKick, K.usesFunc,
        entryOk, canCall, midFalse, K.isInl])

syntax "tt_close" : tactic
macro_rules
  | `(tactic| tt_close) => `(tactic| (
      (try tt_simp)
      <;> (first | assumption | omega | (intros; tt_simp; (first | done | omega)))))

structure InvA (c : Cfg) (s : St) : Prop where
  created : (s.k ≠ .idle ∨ s.inQueue = true) → s.created = true
  noQ : s.k ≠ .idle → s.inQueue = false
  kwfF : c.fixed = true → s.k.isOld = false
  kwfO : c.fixed = false → s.k.isNew = false
  wwf : c.fixed = true → cnt isClear s.wraps = 0
  kicked : s.k.after = true → 0 < s.kicks

theorem invA_init (c : Cfg) : InvA c (init c) := by
  constructor <;> simp [init, K.isOld, K.isNew, K.after, cnt_nil]

theorem invA_step {c : Cfg} {s s' : St} {a : Act} (h : InvA c s) (hs : step c s a = some s') :
    InvA c s' := by
  obtain ⟨h1, h2, h3, h4, h5, h6⟩ := h
  cases a with
  | wstep i =>
    simp only [step, wstepF] at hs
    cases hw : s.wraps[i]? with
    | none => simp [hw] at hs
    | some w =>
      have hc := fun v => cnt_set isClear hw v
      have hp := cnt_pos isClear hw
      simp only [hw] at hs
      cases w <;> simp only [] at hs <;> (repeat' (split at hs)) <;>
        (first | (simp at hs; done) | skip) <;>
        (try simp only [Option.some.injEq] at hs) <;> (try subst hs) <;>
        constructor <;> tt_close
  | wret i r =>
    simp only [step] at hs
    split at hs
    · rename_i hw
      have hc := fun v => cnt_set isClear hw v
      have hp := cnt_pos isClear hw
      simp only [Option.some.injEq] at hs; subst hs
      cases r <;> constructor <;> tt_close
    · simp at hs
  | _ =>
    step_split hs
    all_goals (constructor <;> tt_close)

/-- case analysis of one step: one goal per leaf of `step`, `s'` substituted; in the wrap cases the
    counting facts for the replaced element are in the context -/
syntax "tt_steps " ident ident ident " => " tacticSeq : tactic
macro_rules
  | `(tactic| tt_steps $s:ident $a:ident $hs:ident => $tac:tacticSeq) => `(tactic| (
      cases $a:ident with
      | wstep i =>
        simp only [step, wstepF] at $hs:ident
        cases hw : (St.wraps $s)[i]? with
        | none => simp [hw] at $hs:ident
        | some w =>
          have hc1 := fun v => cnt_set isClear hw v
          have hp1 := cnt_pos isClear hw
          have hc2 := fun v => cnt_set isPending hw v
          have hp2 := cnt_pos isPending hw
          have hc3 := fun v => cnt_set notDone hw v
          have hp3 := cnt_pos notDone hw
          have hc4 := fun v => cnt_set isRunning hw v
          have hp4 := cnt_pos isRunning hw
          have hc5 := fun v => cnt_set W.busy hw v
          have hp5 := cnt_pos W.busy hw
          have hc6 := fun v => cnt_set midFalse hw v
          have hp6 := cnt_pos midFalse hw
          simp only [hw] at $hs:ident
          cases w <;> simp only [] at $hs:ident <;> (repeat' (split at $hs:ident)) <;>
            (first | (simp at $hs:ident; done) | skip) <;>
            (try simp only [Option.some.injEq] at $hs:ident) <;> (try subst $hs:ident) <;> ($tac)
      | wret i r =>
        simp only [step] at $hs:ident
        cases hw : (St.wraps $s)[i]? with
        | none => simp [hw] at $hs:ident
        | some w =>
          have hc1 := fun v => cnt_set isClear hw v
          have hp1 := cnt_pos isClear hw
          have hc2 := fun v => cnt_set isPending hw v
          have hp2 := cnt_pos isPending hw
          have hc3 := fun v => cnt_set notDone hw v
          have hp3 := cnt_pos notDone hw
          have hc4 := fun v => cnt_set isRunning hw v
          have hp4 := cnt_pos isRunning hw
          have hc5 := fun v => cnt_set W.busy hw v
          have hp5 := cnt_pos W.busy hw
          have hc6 := fun v => cnt_set midFalse hw v
          have hp6 := cnt_pos midFalse hw
          simp only [hw] at $hs:ident
          cases w <;> simp only [Option.some.injEq, reduceCtorEq, if_false, if_true] at $hs:ident <;>
            (first | (simp at $hs:ident; done) | skip) <;>
            (try subst $hs:ident) <;> cases r <;> ($tac)
      | call t cc => cases cc <;> step_split $hs <;> ($tac)
      | _ => step_split $hs <;> ($tac)))

/-! ### the in-progress counter counts the kick-off in flight and the wraps not yet done -/

def InvB (c : Cfg) (s : St) : Prop := kHolds c.fixed s.k + cnt notDone s.wraps = s.inProgress

theorem invB_init (c : Cfg) : InvB c (init c) := by simp [InvB, init, kHolds, cnt_nil]

theorem invB_step {c : Cfg} {s s' : St} {a : Act} (hA : InvA c s) (h : InvB c s)
    (hs : step c s a = some s') : InvB c s' := by
  obtain ⟨h1, h2, h3, h4, h5, h6⟩ := hA
  unfold InvB at *
  tt_steps s a hs => tt_close

/-! ### the cancelled flag is sticky and is set before anybody reports it -/

structure InvC (s : St) : Prop where
  cr : s.cancelRet = true → s.cancelled = true
  fp : s.falsePub = true → s.cancelled = true
  dr : s.dtorRet = true → s.cancelled = true
  spin : s.d = .spin → s.cancelled = true
  clr : s.d = .clear → s.cancelled = true

theorem invC_init (c : Cfg) : InvC (init c) := by
  constructor <;> simp [init]

theorem invC_step {c : Cfg} {s s' : St} {a : Act} (h : InvC s) (hs : step c s a = some s') :
    InvC s' := by
  obtain ⟨h1, h2, h3, h4, h5⟩ := h
  tt_steps s a hs => (constructor <;> tt_close)

end Dispenso.TimedTask
