import DispensoVerif.Proofs.SchedShape
import DispensoVerif.Proofs.SchedReach

/-!
C47, second theorem: the only step that turns the `fq` (ForceQueuingTag) flag of a frame from true
to false is `inline0` acting on the top frame of its thread, in a pool without threads or being
resized (a frame that still carries the tag is not marked `zeroPath`: `ZpOK`).
-/
namespace Dispenso.Sched

theorem fq_cleared_shape {s s' : St} {t : Nat} {e : Ev} {f0 : Frame} {rest : List Frame}
    (hbot : AllStk (fun l => botKind l = .base) s.thr) (hzp : AllStk ZpOK s.thr)
    (hs : norm (s.thr t) = f0 :: rest)
    (hsh : Shape s t f0 rest e s') (t' k : Nat) (f f' : Frame)
    (h1 : frameAt (norm (s.thr t')) k = some f) (h2 : frameAt (norm (s'.thr t')) k = some f')
    (hq : f.fq = true) (hq' : f'.fq = false) :
    e = .inline0 ∧ t' = t ∧ k + 1 = (norm (s.thr t)).length ∧
      (s.nThreads = 0 ∨ s.resizing = true) := by
  have hne : f ≠ f' := fun h => by rw [h, hq'] at hq; cases hq
  by_cases ht : t' ≠ t
  · rw [hsh.thr_other ht, h1] at h2
    exact absurd (Option.some.inj h2) hne
  have ht : t' = t := Decidable.not_not.1 ht
  subst ht
  rw [hs] at h1 ⊢
  have hk := frameAt_lt h1
  simp only [List.length_cons] at hk
  cases hsh with
  | same h hb =>
    rw [h, hs, h1] at h2
    exact absurd (Option.some.inj h2) hne
  | push F h hF hb =>
    rw [h, upd_same, norm_cons, frameAt_cons_lt _ (by simpa using hk), h1] at h2
    exact absurd (Option.some.inj h2) hne
  | pop h hk' hb =>
    have hr := rest_ne_nil_of_pop hbot hs hk'
    obtain ⟨g, rest', rfl⟩ := List.exists_cons_of_ne_nil hr
    rw [h, upd_same, norm_cons] at h2
    rw [frameAt_cons_lt _ (frameAt_lt h2), h2] at h1
    exact absurd (Option.some.inj h1).symm hne
  | top f0' h hb hset hfq hO =>
    rw [h, upd_same, norm_cons] at h2
    rcases frameAt_top h1 h2 with heq | ⟨hk1, rfl, rfl⟩
    · exact absurd heq hne
    · rcases hfq with hfq | ⟨he, hn⟩
      · rw [hfq, hq] at hq'; cases hq'
      · -- the frame still carries the tag, so it is not marked `zeroPath`
        have hz : f.zeroPath = true → f.fq = false := fun hz =>
          ((hs ▸ hzp t') f List.mem_cons_self hz).1
        refine ⟨he, rfl, by simp [hk1], ?_⟩
        rcases hn with hn | hn | hn
        · exact Or.inl hn
        · exact Or.inr hn
        · rw [hz hn] at hq; cases hq
  | begin F f0' id he h hF hp hg hset hfq =>
    rw [h, upd_same, norm_cons, frameAt_cons_lt _ (by simpa using hk)] at h2
    rcases frameAt_top h1 h2 with heq | ⟨_, rfl, rfl⟩
    · exact absurd heq hne
    · rw [hfq, hq] at hq'; cases hq'
  | endPk g rest' g' hr h hk' hb hp hg hset hfq =>
    subst hr
    rw [h, upd_same, norm_cons] at h2
    have hk2 := frameAt_lt h2
    rw [frameAt_cons_lt _ (by simpa using hk2)] at h1
    rcases frameAt_top h1 h2 with heq | ⟨_, rfl, rfl⟩
    · exact absurd heq hne
    · rw [hfq, hq] at hq'; cases hq'
  | endNil l h hr hk' =>
    subst hr
    have := hbot t'
    rw [hs] at this
    simp [botKind, hk'] at this

end Dispenso.Sched
