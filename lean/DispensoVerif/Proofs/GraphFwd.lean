import DispensoVerif.Proofs.GraphProp
import DispensoVerif.Proofs.GraphExec
/-
`forwardPropagate`: decomposition into the BFS (`propPhase1`) and the bidirectional phase
(`biPhase`), and the specification for plain graphs.
-/
namespace Dispenso.Graph
open List

def biMark (g1 : G) (members : List Nat) : G × List Nat :=
  members.foldl (fun (acc : G × List Nat) id =>
    if completed (acc.1.node id) then (setIncomplete acc.1 id, acc.2 ++ [id]) else acc) (g1, [])

def biCount (g2 : G) (newly : List Nat) : G :=
  newly.foldl (fun g id => (g.node id).dependents.foldl (fun g d =>
    let n := g.node d
    if ¬ completed n then g.setNode d { n with inc := wrap (n.inc + 1) } else g) g) g2

def biMembers (g1 : G) (visited : List Nat) : List Nat :=
  (((visited.filterMap fun id => (g1.node id).biSet).eraseDups).map
    fun s => g1.biSets.getD s []).flatten

def biPhase (g1 : G) (visited : List Nat) : G :=
  biCount (biMark g1 (biMembers g1 visited)).1 (biMark g1 (biMembers g1 visited)).2

theorem forwardPropagate_eq (g : G) : forwardPropagate g =
    if ¬ g.biProp = true then (propPhase1 g).1
    else biPhase (propPhase1 g).1 (propPhase1 g).2 := rfl

/-- a state in which exactly the live nodes of the duplicate-free list `I` are incomplete and each
    of them counts the edges from `I` is consistent -/
theorem consistent_of_srcCount {g g1 : G} {I : List Nat} (hs : SameShape g g1) (hw : WF g)
    (hb : EdgeBound g)
    (hiff : ∀ i, (g.node i).alive = true → (¬ completed (g1.node i) = true ↔ i ∈ I))
    (hinc : ∀ n, (g.node n).alive = true → ¬ completed (g1.node n) = true →
      (g1.node n).inc = srcCount g I n) : Consistent g1 := by
  refine ⟨WF.of_sameShape hs hw, ?_⟩
  intro n hal hnc
  rw [hs.alive] at hal
  have : incPreds g1 n = srcCount g I n := by
    unfold incPreds srcCount
    rw [hs.edges]
    apply List.countP_congr
    rintro ⟨p, d⟩ he
    have := hiff p (mem_edges.1 he).1
    simp only [decide_eq_true_eq]
    rw [this]
  rw [this]
  refine ⟨hinc n hal hnc, ?_⟩
  have := srcCount_le_length g I n
  unfold EdgeBound at hb
  omega

theorem Phase1.consistent {g g1 : G} {V : List Nat} (h : Phase1 g g1 V) (hw : WF g)
    (hb : EdgeBound g) : Consistent g1 ∧ Closed g1 := by
  refine ⟨consistent_of_srcCount h.shape hw hb h.inc_iff h.inc_eq, ?_⟩
  intro p d he hp
  rw [h.shape.edges] at he
  have hpal := (mem_edges.1 he).1
  have hpV := (h.inc_iff p hpal).1 hp
  have hd : Reach g d := Reach.step p d ((h.memV p).1 hpV) he
  exact (h.inc_iff d (hw.deps_live p d he)).2 ((h.memV d).2 hd)

/-- plain graphs: the incomplete set afterwards is the forward closure of the marked nodes -/
theorem forwardPropagate_plain (g : G) (hw : WF g) (hb : EdgeBound g) (hbp : g.biProp = false) :
    (∀ id ∈ allNodes g, (¬ completed ((forwardPropagate g).node id) = true ↔ Reach g id)) ∧
    Consistent (forwardPropagate g) ∧ Closed (forwardPropagate g) ∧
    SameShape g (forwardPropagate g) := by
  have h := phase1_spec g hw hb
  have heq : forwardPropagate g = (propPhase1 g).1 := by
    rw [forwardPropagate_eq, if_pos (by simp [hbp])]
  rw [heq]
  have hc := h.consistent hw hb
  refine ⟨?_, hc.1, hc.2, h.shape⟩
  intro id hid
  rw [hw.mem_all] at hid
  rw [h.inc_iff id hid, h.memV]

end Dispenso.Graph
