import DispensoVerif.Model.CpuSet
import Batteries.Tactic.OpenPrivate

/-!
# `Array.qsort` returns a permutation of its input

Core's `Array.qsort` has no lemmas in this toolchain.  Its workers
(`Array.qpartition.loop`, `Array.qsort.sort`) are private `let rec`s of a `module`
file; we reach them with `open private` and unfold them.
-/

open private Array.qpartition.loop from Init.Data.Array.QSort.Basic
open private Array.qsort.sort from Init.Data.Array.QSort.Basic

namespace Array

theorem qpartition_loop_perm {α : Type _} {n : Nat} (lt : α → α → Bool) (lo hi : Nat)
    (hhi : hi < n) (pivot : α) (as : Vector α n) (i k : Nat)
    (ilo : lo ≤ i) (ik : i ≤ k) (w : k ≤ hi) :
    (Array.qpartition.loop lt lo hi hhi pivot as i k ilo ik w).2.Perm as := by
  generalize hd : hi - k = d
  induction d generalizing as i k with
  | zero =>
    unfold Array.qpartition.loop
    have : ¬ k < hi := by omega
    simp only [this, dite_false]
    exact Vector.swap_perm _ _
  | succ d ih =>
    unfold Array.qpartition.loop
    have hk : k < hi := by omega
    simp only [hk, dite_true]
    split
    · exact (ih _ _ _ _ _ _ (by omega)).trans (Vector.swap_perm _ _)
    · exact ih _ _ _ _ _ _ (by omega)

theorem qpartition_perm {α : Type _} {n : Nat} (as : Vector α n) (lt : α → α → Bool)
    (lo hi : Nat) (w : lo ≤ hi) (hlo : lo < n) (hhi : hi < n) :
    (Array.qpartition as lt lo hi w hlo hhi).2.Perm as := by
  unfold Array.qpartition
  refine (qpartition_loop_perm ..).trans ?_
  have step : ∀ (c : Prop) [Decidable c] (xs ys : Vector α n), ys.Perm xs →
      ∀ a b (ha : a < n) (hb : b < n), (if c then ys.swap a b ha hb else ys).Perm xs := by
    intro c _ xs ys h a b ha hb
    split
    · exact (Vector.swap_perm _ _).trans h
    · exact h
  exact step _ _ _ (step _ _ _ (step _ _ _ (Vector.Perm.refl _) _ _ _ _) _ _ _ _) _ _ _ _

theorem qsort_sort_perm {α : Type _} (lt : α → α → Bool) {n : Nat} (as : Vector α n)
    (lo hi : Nat) (w : lo ≤ hi) (hlo : lo < n) (hhi : hi < n) :
    (Array.qsort.sort lt as lo hi w hlo hhi).Perm as := by
  generalize hd : hi - lo = d
  induction d using Nat.strongRecOn generalizing as lo hi with
  | _ d ih =>
    unfold Array.qsort.sort
    split
    · rename_i h₁
      have hp := qpartition_perm as lt lo hi w hlo hhi
      revert hp
      generalize Array.qpartition as lt lo hi w hlo hhi = r
      obtain ⟨⟨mid, hmid⟩, as'⟩ := r
      intro hp
      simp only at hp ⊢
      split
      · exact hp
      · rename_i h₂
        refine (ih _ ?_ _ _ _ _ _ _ rfl).trans ((ih _ ?_ _ _ _ _ _ _ rfl).trans hp) <;> omega
    · exact Vector.Perm.refl _

/-- `Array.qsort` returns a permutation of its input (as an `Array.Perm`). -/
theorem qsort_perm' {α : Type _} (as : Array α) (lt : α → α → Bool) (lo hi : Nat) :
    (as.qsort lt lo hi).Perm as := by
  unfold Array.qsort
  split
  · exact Array.Perm.refl _
  · have := qsort_sort_perm lt as.toVector (min lo (as.size - 1))
      (max (min lo (as.size - 1)) (min hi (as.size - 1))) (by omega) (by omega) (by omega)
    exact Vector.perm_iff_toArray_perm.mp this

/-- `Array.qsort` returns a permutation of its input (`List.Perm` form). -/
theorem qsort_perm {α : Type _} (as : Array α) (lt : α → α → Bool) (lo hi : Nat) :
    (as.qsort lt lo hi).toList.Perm as.toList :=
  Array.perm_iff_toList_perm.mp (qsort_perm' as lt lo hi)

end Array

namespace Dispenso.CpuSet

theorem sortInts_perm (l : List Int) : (sortInts l).Perm l := by
  unfold sortInts
  exact Array.qsort_perm l.toArray _ _ _

end Dispenso.CpuSet
