import DispensoVerif.Proofs.HBGeneric
/-
C10 for `CompletionEvent` (the Linux `CompletionEventImpl`): data written before `notify()` is
visible to every thread whose `wait()` / `waitFor()` / `completed()` observed the completed status.

The protocol model `Model/Event.lean` has no payload, so the client is modelled around it
(`cproto`): between calls a thread may perform a plain access of a data location (fields ≥ 1) —
a write only while it has not yet called a publishing operation (`wr`), a read once one of its
calls observed the completed value (`rd`), or while it is itself still the writer.  The operations
and continuations of the calls themselves are literally `Event.op` / `Event.cont`.
Contract of the theorem (`Notifier`): one thread `N` is the writer and the only caller of `notify`.
Core Lean only.
-/
namespace Dispenso.Event
open Dispenso.Conc Dispenso.HB

/-- client-side local state around the event protocol -/
structure CL where
  l : L
  /-- the thread has not yet started a publishing call: it may still write data -/
  wr : Bool
  /-- one of the thread's calls observed the completed status: it may read data -/
  rd : Bool
  /-- pending plain access (isWrite, location) -/
  acc : Option (Bool × Fld)
  deriving DecidableEq, Repr

/-- the operation at `l` returning `r` lets the caller conclude that the event is completed -/
def observed : L → Int → Bool
  | .wLoad c, r => r == c
  | .wfLoad0 c _, r => r == c
  | .wfLoad c, r => r == c
  | .cLoad, r => r != 0
  | .twLoad, r => r == 0
  | .awSub, r => decide (r ≤ 1)
  | _, _ => false

def publishes : L → Bool
  | .ntStore _ => true
  | .cdSub _ => true
  | .awSub => true
  | _ => false

def cop (c : CL) : Option AOp :=
  match c.acc with
  | some (true, x) => some (.store x 1)
  | some (false, x) => some (.load x)
  | none => op c.l

def ccont (c : CL) (r : Int) : CL :=
  match c.acc with
  | some _ => { c with acc := none }
  | none => { c with l := cont c.l r, rd := c.rd || observed c.l r }

def centry (once : Bool) (allowed : L → Bool) (c c' : CL) : Bool :=
  c.acc.isNone && idleOrDone c.l &&
  (match c'.acc with
   | some (w, x) =>
     decide (c'.l = c.l) && (c'.wr == c.wr) && (c'.rd == c.rd) && decide (1 ≤ x) &&
       (if w then c.wr else (c.rd || c.wr))
   | none => allowed c'.l && (!once || !publishes c'.l || c.wr) &&
       (c'.wr == (c.wr && !publishes c'.l)) && (c'.rd == c.rd))

/-- the event protocol with a client that accesses plain data between calls; `once`: a thread
makes at most one publishing call (`count_down` / `arrive_and_wait` of a latch participant) -/
def cproto (once : Bool) (allowed : L → Bool) : Proto :=
  { L := CL, op := cop, cont := ccont, entry := centry once allowed }

def cSpec (once : Bool) (allowed : L → Bool) (o : L → Nat) : Spec (cproto once allowed) :=
  { plain := fun f => decide (1 ≤ f)
    ord := fun c => match c.acc with
      | some _ => 0
      | none => o c.l }

def cinit (once : Bool) (allowed : L → Bool) (v : Int) : State (cproto once allowed) :=
  initState (cproto once allowed) ⟨.idle, true, false, none⟩ (fun f => if f = 0 then v else 0)

/-- the orders the publication needs (a sub-table of `binding.reqOrder`) -/
def needEv : L → Nat
  | .ntStore _ => 3 | .wLoad _ => 2 | .wfLoad0 _ _ => 2 | .wfLoad _ => 2 | .cLoad => 2
  | _ => 0

abbrev evP : Proto := cproto false isEventEntry

/-- client contract: `N` is the only writer of the data and the only caller of `notify`; the other
threads read the data only after one of their calls observed completion -/
def Notifier (N : TId) (a : Act evP) : Prop :=
  ∀ t (c : CL), a = Act.call t c →
    (∀ w x, c.acc = some (w, x) → (w = true → t = N) ∧ (w = false → t = N ∨ c.rd = true)) ∧
    (c.acc = none → ∀ v, c.l = .ntStore v → t = N)

/-- what is known about thread `t` in client state `c` -/
structure LocOK (N : TId) (m0 : Int) (d : D) (t : TId) (c : CL) : Prop where
  wf : wf 1 c.l
  ntw : c.l ≠ .twLoad
  rd : c.rd = true → m0 = 1 ∧ ∀ x, 1 ≤ x → d.cW t x = true
  nt : ∀ v, c.l = .ntStore v → t = N ∧ c.wr = false
  wrN : t = N → c.wr = true → m0 = 0
  acc : ∀ w x, c.acc = some (w, x) → 1 ≤ x ∧ op c.l = none ∧ (w = true → t = N ∧ c.wr = true) ∧
    (w = false → c.rd = true ∨ (t = N ∧ c.wr = true))

structure EJ (N : TId) (s : State evP) (d : D) : Prop where
  pk : ParkedFutex s
  m01 : s.mem 0 = 0 ∨ s.mem 0 = 1
  cAN : s.mem 0 = 0 → ∀ x, 1 ≤ x → d.cA N x = true
  cWN : ∀ x, 1 ≤ x → d.cW N x = true
  mW : s.mem 0 = 1 → ∀ x, 1 ≤ x → d.mW 0 x = true
  loc : ∀ t, LocOK N (s.mem 0) d t (s.loc t)

theorem ej_init (N : TId) : EJ N (cinit false isEventEntry 0) D.init := by
  refine ⟨parkedFutex_init _ _, Or.inl rfl, fun _ _ _ => rfl, fun _ _ => rfl, fun _ _ _ => rfl, ?_⟩
  intro t
  refine ⟨trivial, by simp [cinit, initState], ?_, ?_, ?_, ?_⟩
  · intro h; simp [cinit, initState] at h
  · intro v h; simp [cinit, initState] at h
  · intro _ _; rfl
  · intro w x h; simp [cinit, initState] at h

theorem op_idle {l : L} (h : idleOrDone l = true) : op l = none := by
  cases l <;> simp [idleOrDone] at h <;> rfl

theorem futex_cont {l : L} (h : isFutexOp (op l) = true) (r : Int) :
    observed l r = false ∧ cont l r ≠ .twLoad ∧ (∀ v, cont l r ≠ .ntStore v) := by
  cases l <;> simp [op, isFutexOp] at h <;> simp [observed, cont]
  all_goals (split <;> simp)

theorem load_cont_facts {l : L} (k : op l = some (.load 0)) (r : Int) :
    cont l r ≠ .twLoad ∧ ∀ v, cont l r ≠ .ntStore v := by
  cases l <;> simp [op] at k
  all_goals (simp only [cont]; refine ⟨fun hh => ?_, fun v hh => ?_⟩)
  all_goals (repeat' split at hh)
  all_goals cases hh

theorem load_observed {l : L} (k : op l = some (.load 0)) (hwf : wf 1 l) (hn : l ≠ .twLoad)
    {r : Int} (m01 : r = 0 ∨ r = 1) (h : observed l r = true) : r = 1 ∧ needEv l = 2 := by
  cases l <;> simp [op] at k <;> simp [observed] at h <;> simp only [wf] at hwf <;>
    first | exact absurd rfl hn | (refine ⟨by omega, rfl⟩)

theorem store_facts {l : L} {cv : Int} (k : op l = some (.store 0 cv)) (hwf : wf 1 l) :
    (∃ v, l = .ntStore v) ∧ observed l 0 = false := by
  cases l <;> simp [op] at k <;> simp_all [wf, observed]

theorem LocOK.mono {N : TId} {m0 m0' : Int} {d d' : D} {u : TId} {c : CL}
    (h : LocOK N m0 d u c) (hc : ∀ x, d.cW u x = true → d'.cW u x = true)
    (hm : m0' = m0 ∨ (m0' = 1 ∧ (u = N → c.wr = false))) : LocOK N m0' d' u c := by
  refine ⟨h.wf, h.ntw, ?_, h.nt, ?_, h.acc⟩
  · intro hr
    obtain ⟨h1, h2⟩ := h.rd hr
    refine ⟨?_, fun x hx => hc x (h2 x hx)⟩
    rcases hm with hm | hm
    · rw [hm]; exact h1
    · exact hm.1
  · intro hu hw
    rcases hm with hm | hm
    · rw [hm]; exact h.wrN hu hw
    · rw [hm.2 hu] at hw; cases hw

theorem ej_step (N : TId) (o : L → Nat) (ho : ∀ l, ordGE (needEv l) (o l) = true)
    {s s' : State evP} {d : D} {a : Act evP} (hJ : EJ N s d) (hok : Notifier N a)
    (he : exec s a = some s') :
    ∃ d', d.run (hevl (cSpec false isEventEntry o) s a) = some d' ∧ EJ N s' d' := by
  have pk' := parkedFutex_exec hJ.pk he
  obtain ⟨pk, m01, cAN, cWN, mW, hloc⟩ := hJ
  cases exec_kind (cSpec false isEventEntry o) pk he with
  | sched hmem hev hl =>
    refine ⟨d, by rw [hev]; rfl, pk', by rw [hmem]; exact m01, by rw [hmem]; exact cAN, cWN,
      by rw [hmem]; exact mW, ?_⟩
    intro u
    rw [hmem]
    rcases hl u with e | ⟨hf, r, e⟩
    · rw [e]; exact hloc u
    · rw [e]
      have h := hloc u
      have hacc : (s.loc u).acc = none := by
        cases ha : (s.loc u).acc with
        | none => rfl
        | some p =>
          obtain ⟨w, x⟩ := p
          have : (cproto false isEventEntry).op (s.loc u) = cop (s.loc u) := rfl
          rw [this] at hf
          cases w <;> simp [cop, ha, isFutexOp] at hf
      have hf' : isFutexOp (op (s.loc u).l) = true := by
        have : (cproto false isEventEntry).op (s.loc u) = cop (s.loc u) := rfl
        rw [this] at hf
        simpa [cop, hacc] using hf
      obtain ⟨f1, f2, f3⟩ := futex_cont hf' r
      have e2 : (cproto false isEventEntry).cont (s.loc u) r =
          { s.loc u with l := cont (s.loc u).l r, rd := (s.loc u).rd || observed (s.loc u).l r } := by
        show ccont (s.loc u) r = _
        simp [ccont, hacc]
      rw [e2, f1, Bool.or_false]
      exact ⟨wf_cont r h.wf, f2, h.rd, fun v hv => absurd hv (f3 v), h.wrN,
        fun w x hx => by simp [hacc] at hx⟩
  | call t c' ha hop hent hmem hev hl =>
    subst ha
    refine ⟨d, by rw [hev]; rfl, pk', by rw [hmem]; exact m01, by rw [hmem]; exact cAN, cWN,
      by rw [hmem]; exact mW, ?_⟩
    intro u
    rw [hmem, hl]
    by_cases e : u = t
    · subst e
      simp only [if_true]
      have h := hloc u
      obtain ⟨ok1, ok2⟩ := hok u c' rfl
      have hent' : centry false isEventEntry (s.loc u) c' = true := hent
      simp only [centry, Bool.and_eq_true] at hent'
      obtain ⟨⟨hn, hidle⟩, hrest⟩ := hent'
      cases hacc : c'.acc with
      | some p =>
        obtain ⟨w, x⟩ := p
        simp only [hacc, Bool.and_eq_true, decide_eq_true_eq, beq_iff_eq] at hrest
        obtain ⟨⟨⟨⟨e1, e2⟩, e3⟩, e4⟩, e5⟩ := hrest
        obtain ⟨k1, k2⟩ := ok1 w x hacc
        refine ⟨by rw [e1]; exact h.wf, by rw [e1]; exact h.ntw, ?_, ?_, ?_, ?_⟩
        · rw [e3]; exact h.rd
        · rw [e1, e2]; exact h.nt
        · rw [e2]; exact h.wrN
        · intro w' x' hx
          rw [hacc] at hx
          simp only [Option.some.injEq, Prod.mk.injEq] at hx
          obtain ⟨rfl, rfl⟩ := hx
          refine ⟨e4, by rw [e1]; exact op_idle hidle, ?_, ?_⟩
          · intro hw; subst hw
            simp only [if_true] at e5
            exact ⟨k1 rfl, by rw [e2]; exact e5⟩
          · intro hw; subst hw
            simp only [Bool.false_eq_true, if_false, Bool.or_eq_true] at e5
            rcases k2 rfl with k | k
            · rcases e5 with e5 | e5
              · left; rw [e3]; exact e5
              · right; exact ⟨k, by rw [e2]; exact e5⟩
            · left; exact k
      | none =>
        simp only [hacc, Bool.and_eq_true, beq_iff_eq] at hrest
        obtain ⟨⟨⟨e1, -⟩, e2⟩, e3⟩ := hrest
        refine ⟨?_, ?_, ?_, ?_, ?_, ?_⟩
        · exact eventE_wf (s.loc u).l c'.l (by simp [eventE, hidle, e1])
        · intro hh; rw [hh] at e1; simp [isEventEntry] at e1
        · rw [e3]; exact h.rd
        · intro v hv
          refine ⟨ok2 hacc v hv, ?_⟩
          rw [e2, hv]; simp [publishes]
        · intro hu hw
          rw [e2] at hw
          simp only [Bool.and_eq_true] at hw
          exact h.wrN hu hw.1
        · intro w x hx; rw [hacc] at hx; cases hx
    · simp only [if_neg e]
      exact hloc u
  | op t o_ r eff ha hop hnf hme hmem hl hev =>
    subst ha
    have h := hloc t
    have hop' : cop (s.loc t) = some o_ := hop
    cases hacc : (s.loc t).acc with
    | some p =>
      obtain ⟨w, x⟩ := p
      obtain ⟨x1, x2, x3, x4⟩ := h.acc w x hacc
      have hx0 : x ≠ 0 := Nat.ne_of_gt x1
      have e2 : (cproto false isEventEntry).cont (s.loc t) r = { s.loc t with acc := none } := by
        show ccont (s.loc t) r = _
        simp [ccont, hacc]
      have hself : LocOK N (s.mem 0) d t { s.loc t with acc := none } :=
        ⟨h.wf, h.ntw, h.rd, h.nt, h.wrN, fun w x hx => by simp at hx⟩
      cases w with
      | true =>
        obtain ⟨rfl, hwr⟩ := x3 rfl
        have hm0 := h.wrN rfl hwr
        simp only [cop, hacc, Option.some.injEq] at hop'
        subst hop'
        simp only [memEffect, Option.some.injEq, Prod.mk.injEq] at hme
        obtain ⟨rfl, rfl⟩ := hme
        have hm0' : s'.mem 0 = s.mem 0 := by
          rw [hmem]; simp [applyEff, Ne.symm hx0]
        have hc := cAN hm0 x x1
        refine ⟨d.afterWrite t x, ?_, pk', by rw [hm0']; exact m01, ?_, ?_, ?_, ?_⟩
        · rw [hev]
          simp [evl1, evOfOp, cSpec, x1, step_pwrite, hc]
        · intro _ y hy
          simp only [afterWrite_cA]; split
          · simp
          · exact cAN hm0 y hy
        · intro y hy
          show (d.afterWrite t x).cW t y = true
          simp only [D.afterWrite]; split
          · simp
          · exact cWN y hy
        · intro h1; rw [hm0', hm0] at h1; cases h1
        · intro u
          rw [hm0', hl]
          by_cases e : u = t
          · subst e
            simp only [e2]
            refine hself.mono (fun y hy => ?_) (Or.inl rfl)
            simp only [D.afterWrite]; split
            · simp
            · exact hy
          · simp only [if_neg e]
            have hu := hloc u
            refine ⟨hu.wf, hu.ntw, ?_, hu.nt, hu.wrN, hu.acc⟩
            intro hr
            have := (hu.rd hr).1
            rw [hm0] at this; cases this
      | false =>
        simp only [cop, hacc, Option.some.injEq] at hop'
        subst hop'
        simp only [memEffect, Option.some.injEq, Prod.mk.injEq] at hme
        obtain ⟨rfl, rfl⟩ := hme
        have hm0' : s'.mem 0 = s.mem 0 := by rw [hmem]; rfl
        have hc : (d.cW t x || d.cA t x) = true := by
          rcases x4 rfl with k | ⟨rfl, k⟩
          · simp [(h.rd k).2 x x1]
          · simp [cWN x x1]
        refine ⟨d.afterRead t x, ?_, pk', by rw [hm0']; exact m01, ?_, ?_, ?_, ?_⟩
        · rw [hev]
          simp [evl1, evOfOp, cSpec, x1, step_pread, hc]
        · intro hm0 y hy
          rw [hm0'] at hm0
          simp only [afterRead_cA]; split
          · rename_i hyx
            have : t = N := by
              rcases x4 rfl with k | ⟨k, _⟩
              · have := (h.rd k).1; rw [hm0] at this; cases this
              · exact k
            subst this
            simp [cAN hm0 y hy]
          · exact cAN hm0 y hy
        · intro y hy; simp only [afterRead_cW]; exact cWN y hy
        · intro h1 y hy; rw [hm0'] at h1; simp only [afterRead_mW]; exact mW h1 y hy
        · intro u
          rw [hm0', hl]
          by_cases e : u = t
          · subst e
            simp only [e2]
            exact hself.mono (fun y hy => by simpa only [afterRead_cW] using hy) (Or.inl rfl)
          · simp only [if_neg e]
            exact (hloc u).mono (fun y hy => by simpa only [afterRead_cW] using hy) (Or.inl rfl)
    | none =>
      have hop2 : op (s.loc t).l = some o_ := by simpa [cop, hacc] using hop'
      have e2 : (cproto false isEventEntry).cont (s.loc t) r =
          { s.loc t with l := cont (s.loc t).l r, rd := (s.loc t).rd || observed (s.loc t).l r } := by
        show ccont (s.loc t) r = _
        simp [ccont, hacc]
      have hord : (cSpec false isEventEntry o).ord (s.loc t) = o (s.loc t).l := by
        simp [cSpec, hacc]
      rcases op_cases (s.loc t).l with k | k | ⟨cur, b, k⟩ | k | ⟨cv, k⟩ | ⟨n, k⟩
      · rw [k] at hop2; cases hop2
      · rw [k] at hop2; cases hop2; simp [isFutexOp] at hnf
      · rw [k] at hop2; cases hop2; simp [isFutexOp] at hnf
      · -- an atomic load of the status word
        rw [k] at hop2; cases hop2
        simp only [memEffect, Option.some.injEq, Prod.mk.injEq] at hme
        obtain ⟨rfl, rfl⟩ := hme
        have hm0' : s'.mem 0 = s.mem 0 := by rw [hmem]; rfl
        refine ⟨d.afterLoad t 0 (o (s.loc t).l), ?_, pk', by rw [hm0']; exact m01, ?_, ?_, ?_, ?_⟩
        · rw [hev]; simp [evl1, evOfOp, cSpec, hacc, step_load]
        · intro hm0 y hy; rw [hm0'] at hm0; exact afterLoad_cA_mono (cAN hm0 y hy)
        · intro y hy
          simp only [afterLoad_cW]; split <;> simp [cWN y hy]
        · intro h1 y hy; rw [hm0'] at h1; simp only [afterLoad_mW]; exact mW h1 y hy
        · intro u
          rw [hm0', hl]
          have hcw : ∀ v y, d.cW v y = true → (d.afterLoad t 0 (o (s.loc t).l)).cW v y = true := by
            intro v y hy; simp only [afterLoad_cW]; split <;> simp [hy]
          by_cases e : u = t
          · subst e
            simp only [e2]
            obtain ⟨lc1, lc2⟩ := load_cont_facts k (s.mem 0)
            refine ⟨wf_cont _ h.wf, lc1, ?_, fun v hv => absurd hv (lc2 v), h.wrN,
              fun w x hx => by simp [hacc] at hx⟩
            intro hr
            have hr' : ((s.loc u).rd || observed (s.loc u).l (s.mem 0)) = true := hr
            rw [Bool.or_eq_true] at hr'
            rcases hr' with hr | hr
            · obtain ⟨h1, h2⟩ := h.rd hr
              exact ⟨h1, fun x hx => hcw u x (h2 x hx)⟩
            · obtain ⟨hm1, hn2⟩ := load_observed k h.wf h.ntw m01 hr
              have hacq : isAcq (o (s.loc u).l) = true :=
                isAcq_of_ordGE (ho _) (by rw [hn2]; rfl)
              refine ⟨hm1, fun x hx => ?_⟩
              simp [hacq, mW hm1 x hx]
          · simp only [if_neg e]
            exact (hloc u).mono (fun y hy => hcw u y hy) (Or.inl rfl)
      · -- the notifying store
        rw [k] at hop2; cases hop2
        simp only [memEffect, Option.some.injEq, Prod.mk.injEq] at hme
        obtain ⟨rfl, rfl⟩ := hme
        obtain ⟨hcv, hcont⟩ := wf_store h.wf k 0
        obtain ⟨⟨v0, hv0⟩, hobs⟩ := store_facts k h.wf
        obtain ⟨rfl, hwr⟩ := h.nt v0 hv0
        have hrel : isRel (o (s.loc t).l) = true :=
          isRel_of_ordGE (ho _) (by rw [hv0]; rfl)
        have hm0' : s'.mem 0 = 1 := by rw [hmem]; simp [applyEff, hcv]
        refine ⟨d.afterStore t 0 (o (s.loc t).l), ?_, pk', Or.inr hm0', ?_, ?_, ?_, ?_⟩
        · rw [hev]; simp [evl1, evOfOp, cSpec, hacc, step_store]
        · intro h0; rw [hm0'] at h0; cases h0
        · intro y hy; simp only [afterStore_cW]; exact cWN y hy
        · intro _ y hy
          simp only [afterStore_mW, if_true, hrel, Bool.true_and]
          exact cWN y hy
        · intro u
          rw [hm0', hl]
          by_cases e : u = t
          · subst e
            simp only [e2, hcont]
            rw [hobs, Bool.or_false]
            refine ⟨trivial, by simp, ?_, by simp, ?_, fun w x hx => by simp [hacc] at hx⟩
            · intro hr
              exact ⟨rfl, fun x hx => ((h.rd hr).2 x hx)⟩
            · intro _ hw; rw [hwr] at hw; cases hw
          · simp only [if_neg e]
            exact (hloc u).mono (fun y hy => by simpa only [afterStore_cW] using hy)
              (Or.inr ⟨rfl, fun hu => absurd hu e⟩)
      · -- fetch_sub belongs to the latch
        obtain ⟨h0, _, _⟩ := wf_fsub h.wf k
        cases h0

/-- every execution of the CompletionEvent model with a single notifier/writer `N` and readers that
read only after observing completion is free of data races on the client data -/
theorem race_free (N : TId) (o : L → Nat) (ho : ∀ l, ordGE (needEv l) (o l) = true)
    (acts : List (Act evP)) (hok : ∀ a ∈ acts, Notifier N a) (s : State evP) (tr : Trace)
    (hrun : runH (cSpec false isEventEntry o) (cinit false isEventEntry 0) acts = some (s, tr)) : ¬ Race tr :=
  race_free_of_inv (cSpec false isEventEntry o) (EJ N) (Notifier N)
    (fun _ _ _ _ hJ hk he => ej_step N o ho hJ hk he) _ (ej_init N) acts hok s tr hrun

end Dispenso.Event
