import DispensoVerif.Model.PoolAlloc
import DispensoVerif.Proofs.ExecInv
/-
Helper lemmas for C42 (`PoolAllocatorT`): equations for `Seq.step` in each case, the inductive
invariant `Inv` of the sequential allocator and its preservation, and the invariant `LInv` of the
spin lock of the thread-safe variant over the interleaving semantics.
Core Lean only.
-/
namespace Dispenso.PoolAlloc

namespace Seq
open List

/-! ### equations for `step` -/

/-- the state after taking a fresh or recycled slab `slab` when no chunk is free -/
def takeSlab (s : St) (slab : Nat) (reuse' : List Nat) (next' calls' : Nat) : St :=
  { s with active := s.active ++ [slab], reuse := reuse', nextSlab := next', allocCalls := calls',
           free := (List.range (s.k - 1)).map fun i => (slab, i),
           out := s.out ++ [(slab, s.k - 1)] }

theorem step_alloc_k0 (s : St) (hk : s.k = 0) : step s .alloc = (s, none) := by
  simp [step, hk]

theorem step_alloc_free (s : St) (hk : s.k ≠ 0) (f : List (Nat × Nat)) (c : Nat × Nat)
    (hf : s.free = f ++ [c]) :
    step s .alloc = ({ s with free := f, out := s.out ++ [c] },
      mkOut { s with free := f, out := s.out ++ [c] } c.1 c.2) := by
  simp [step, hk, hf]

theorem step_alloc_reuse (s : St) (hk : s.k ≠ 0) (hf : s.free = []) (rs : List Nat) (r : Nat)
    (hr : s.reuse = rs ++ [r]) :
    step s .alloc = (takeSlab s r rs s.nextSlab s.allocCalls,
      mkOut (takeSlab s r rs s.nextSlab s.allocCalls) r ((s.k - 1 : Nat) : Int)) := by
  simp [step, hk, hf, hr, takeSlab]

theorem step_alloc_new (s : St) (hk : s.k ≠ 0) (hf : s.free = []) (hr : s.reuse = []) :
    step s .alloc = (takeSlab s s.nextSlab [] (s.nextSlab + 1) (s.allocCalls + 1),
      mkOut (takeSlab s s.nextSlab [] (s.nextSlab + 1) (s.allocCalls + 1)) s.nextSlab
        ((s.k - 1 : Nat) : Int)) := by
  simp [step, hk, hf, hr, takeSlab]

theorem step_dealloc_in (s : St) (slab idx : Nat) (h : (slab, idx) ∈ s.out) :
    step s (.dealloc slab idx) =
      ({ s with free := s.free ++ [(slab, idx)], out := s.out.erase (slab, idx) },
       mkOut { s with free := s.free ++ [(slab, idx)], out := s.out.erase (slab, idx) } (-1) (-1)) := by
  simp [step, h]

theorem step_dealloc_out (s : St) (slab idx : Nat) (h : (slab, idx) ∉ s.out) :
    step s (.dealloc slab idx) = (s, none) := by
  simp [step, h]

/-- the reuse list after `clear` -/
def clearReuse (s : St) : List Nat :=
  if s.reuse.length < s.active.length then s.active ++ s.reuse else s.reuse ++ s.active

theorem step_clear (s : St) :
    (step s .clear).1 = { s with free := [], out := [], active := [], reuse := clearReuse s } := by
  simp only [step, clearReuse]
  split <;> rfl

theorem step_destroy (s : St) :
    (step s .destroy).1 =
      { s with deallocCalls := s.deallocCalls + s.active.length + s.reuse.length, active := [],
               reuse := [], free := [], out := [] } := rfl

theorem clearReuse_perm (s : St) : (clearReuse s).Perm (s.active ++ s.reuse) := by
  unfold clearReuse
  split
  · exact Perm.refl _
  · exact perm_append_comm

theorem step_k (s : St) (o : Op) : (step s o).1.k = s.k := by
  cases o with
  | alloc =>
    by_cases hk : s.k = 0
    · rw [step_alloc_k0 s hk]
    · rcases eq_nil_or_concat s.free with hf | ⟨f, c, hf⟩
      · rcases eq_nil_or_concat s.reuse with hr | ⟨rs, r, hr⟩
        · rw [step_alloc_new s hk hf hr]; rfl
        · rw [concat_eq_append] at hr; rw [step_alloc_reuse s hk hf rs r hr]; rfl
      · rw [concat_eq_append] at hf; rw [step_alloc_free s hk f c hf]
  | dealloc slab idx =>
    by_cases h : (slab, idx) ∈ s.out
    · rw [step_dealloc_in s slab idx h]
    · rw [step_dealloc_out s slab idx h]
  | clear => rw [step_clear]
  | destroy => rfl

theorem runOps_append (s : St) (a b : List Op) : runOps s (a ++ b) = runOps (runOps s a) b := by
  induction a generalizing s with
  | nil => rfl
  | cons o os ih => simp only [cons_append, runOps, ih]

theorem runOps_k (s : St) (ops : List Op) : (runOps s ops).k = s.k := by
  induction ops generalizing s with
  | nil => rfl
  | cons o os ih => simp only [runOps]; rw [ih, step_k]

/-! ### the invariant -/

structure Inv (s : St) : Prop where
  kpos : 1 ≤ s.k
  chunks : ∀ c ∈ s.free ++ s.out, c.1 ∈ s.active ∧ c.2 < s.k
  slabsNodup : (s.active ++ s.reuse).Nodup
  slabsLt : ∀ x ∈ s.active ++ s.reuse, x < s.nextSlab
  next : s.nextSlab = s.allocCalls
  excl : (s.free ++ s.out).Nodup
  ledger : s.allocCalls = s.deallocCalls + s.active.length + s.reuse.length

theorem Inv.init (k : Nat) (hk : 1 ≤ k) : Inv (St.init k) := by
  refine ⟨hk, ?_, ?_, ?_, rfl, ?_, rfl⟩ <;> simp [St.init]

/-- chunks of a slab not yet in `active`: the `k - 1` free ones and the one handed out -/
theorem fresh_slab (k slab : Nat) (active : List Nat) (out : List (Nat × Nat)) (hk : 1 ≤ k)
    (hout : ∀ c ∈ out, c.1 ∈ active ∧ c.2 < k) (hnd : out.Nodup) (hs : slab ∉ active) :
    (∀ c ∈ (List.range (k - 1)).map (fun i => (slab, i)) ++ (out ++ [(slab, k - 1)]),
        c.1 ∈ active ++ [slab] ∧ c.2 < k) ∧
    ((List.range (k - 1)).map (fun i => (slab, i)) ++ (out ++ [(slab, k - 1)])).Nodup := by
  constructor
  · intro c hc
    simp only [mem_append, mem_map, mem_range, mem_singleton] at hc ⊢
    rcases hc with ⟨i, hi, rfl⟩ | hc | rfl
    · exact ⟨Or.inr rfl, by simp only; omega⟩
    · exact ⟨Or.inl (hout c hc).1, (hout c hc).2⟩
    · exact ⟨Or.inr rfl, by simp only; omega⟩
  · rw [nodup_append]
    refine ⟨?_, ?_, ?_⟩
    · apply Pairwise.map _ _ (nodup_range (n := k - 1))
      intro a b hab h
      exact hab (Prod.mk.inj h).2
    · rw [nodup_append]
      refine ⟨hnd, by simp, ?_⟩
      intro a ha b hb
      rw [mem_singleton] at hb
      subst hb
      intro h
      subst h
      exact hs (hout _ ha).1
    · intro a ha b hb
      simp only [mem_map, mem_range] at ha
      obtain ⟨i, hi, rfl⟩ := ha
      simp only [mem_append, mem_singleton] at hb
      rcases hb with hb | rfl
      · intro h
        subst h
        exact hs (hout _ hb).1
      · intro h
        have := (Prod.mk.inj h).2
        omega

theorem Inv.takeSlab {s : St} (I : Inv s) (hf : s.free = []) (slab : Nat) (reuse' : List Nat)
    (next' calls' : Nat) (hs : slab ∉ s.active)
    (hnd : (s.active ++ [slab] ++ reuse').Nodup)
    (hlt : ∀ x ∈ s.active ++ [slab] ++ reuse', x < next') (hn : next' = calls')
    (hl : calls' = s.deallocCalls + (s.active.length + 1) + reuse'.length) :
    Inv (takeSlab s slab reuse' next' calls') := by
  have hout : ∀ c ∈ s.out, c.1 ∈ s.active ∧ c.2 < s.k :=
    fun c hc => I.chunks c (mem_append_right _ hc)
  have hnd' : s.out.Nodup := by
    have := I.excl
    rw [hf] at this
    exact this
  obtain ⟨h1, h2⟩ := fresh_slab s.k slab s.active s.out I.kpos hout hnd' hs
  exact ⟨I.kpos, h1, hnd, hlt, hn, h2, by
    show calls' = s.deallocCalls + (s.active ++ [slab]).length + reuse'.length
    rw [length_append]; exact hl⟩

theorem Inv.step {s : St} (I : Inv s) (o : Op) : Inv (step s o).1 := by
  have hk : s.k ≠ 0 := by have := I.kpos; omega
  cases o with
  | alloc =>
    rcases eq_nil_or_concat s.free with hf | ⟨f, c, hf⟩
    · rcases eq_nil_or_concat s.reuse with hr | ⟨rs, r, hr⟩
      · rw [step_alloc_new s hk hf hr]
        have hnd := I.slabsNodup
        have hlt := I.slabsLt
        rw [hr, append_nil] at hnd hlt
        have hfresh : s.nextSlab ∉ s.active := fun h => Nat.lt_irrefl _ (hlt _ h)
        apply I.takeSlab hf
        · exact hfresh
        · rw [append_nil]
          exact (perm_append_singleton _ _).nodup_iff.2 (nodup_cons.2 ⟨hfresh, hnd⟩)
        · intro x hx
          simp only [append_nil, mem_append, mem_singleton] at hx
          rcases hx with hx | rfl
          · have := hlt x hx; omega
          · omega
        · rw [I.next]
        · have := I.ledger
          rw [hr] at this
          simp only [length_nil] at this ⊢
          omega
      · rw [concat_eq_append] at hr
        rw [step_alloc_reuse s hk hf rs r hr]
        have hnd := I.slabsNodup
        have hlt := I.slabsLt
        rw [hr] at hnd hlt
        have hp : (s.active ++ [r] ++ rs).Perm (s.active ++ (rs ++ [r])) := by
          rw [append_assoc]
          exact Perm.append_left _ perm_append_comm
        have hfresh : r ∉ s.active := by
          intro h
          rw [nodup_append] at hnd
          exact hnd.2.2 r h r (by simp) rfl
        apply I.takeSlab hf
        · exact hfresh
        · exact hp.nodup_iff.2 hnd
        · intro x hx
          exact hlt x (hp.mem_iff.1 hx)
        · exact I.next
        · have := I.ledger
          rw [hr, length_append] at this
          simp only [length_cons, length_nil] at this
          omega
    · rw [concat_eq_append] at hf
      rw [step_alloc_free s hk f c hf]
      have hp : (f ++ (s.out ++ [c])).Perm (s.free ++ s.out) := by
        rw [hf, append_assoc]
        exact Perm.append_left _ perm_append_comm
      exact ⟨I.kpos, fun x hx => I.chunks x (hp.mem_iff.1 hx), I.slabsNodup, I.slabsLt, I.next,
        hp.nodup_iff.2 I.excl, I.ledger⟩
  | dealloc slab idx =>
    by_cases h : (slab, idx) ∈ s.out
    · rw [step_dealloc_in s slab idx h]
      have hp : (s.free ++ [(slab, idx)] ++ s.out.erase (slab, idx)).Perm (s.free ++ s.out) := by
        rw [append_assoc]
        exact Perm.append_left _ (perm_cons_erase h).symm
      exact ⟨I.kpos, fun x hx => I.chunks x (hp.mem_iff.1 hx), I.slabsNodup, I.slabsLt, I.next,
        hp.nodup_iff.2 I.excl, I.ledger⟩
    · rw [step_dealloc_out s slab idx h]
      exact I
  | clear =>
    rw [step_clear]
    have hp := clearReuse_perm s
    refine ⟨I.kpos, by simp, ?_, ?_, I.next, by simp, ?_⟩
    · simp only [nil_append]
      exact hp.nodup_iff.2 I.slabsNodup
    · intro x hx
      simp only [nil_append] at hx
      exact I.slabsLt x (hp.mem_iff.1 hx)
    · have := I.ledger
      have hl := hp.length_eq
      rw [length_append] at hl
      simp only [length_nil]
      omega
  | destroy =>
    rw [step_destroy]
    refine ⟨I.kpos, by simp, by simp, by simp, I.next, by simp, ?_⟩
    have := I.ledger
    simp only [length_nil]
    omega

theorem Inv.runOps {s : St} (I : Inv s) (ops : List Op) : Inv (runOps s ops) := by
  induction ops generalizing s with
  | nil => exact I
  | cons o os ih => exact ih (I.step o)

/-! ### `destroy` bookkeeping -/

def isDestroy : Op → Bool
  | .destroy => true
  | _ => false

theorem step_deallocCalls (s : St) (o : Op) (h : isDestroy o = false) :
    (step s o).1.deallocCalls = s.deallocCalls := by
  cases o with
  | alloc =>
    by_cases hk : s.k = 0
    · rw [step_alloc_k0 s hk]
    · rcases eq_nil_or_concat s.free with hf | ⟨f, c, hf⟩
      · rcases eq_nil_or_concat s.reuse with hr | ⟨rs, r, hr⟩
        · rw [step_alloc_new s hk hf hr]; rfl
        · rw [concat_eq_append] at hr; rw [step_alloc_reuse s hk hf rs r hr]; rfl
      · rw [concat_eq_append] at hf; rw [step_alloc_free s hk f c hf]
  | dealloc slab idx =>
    by_cases h : (slab, idx) ∈ s.out
    · rw [step_dealloc_in s slab idx h]
    · rw [step_dealloc_out s slab idx h]
  | clear => rw [step_clear]
  | destroy => cases h

theorem runOps_deallocCalls (s : St) (ops : List Op) (h : ∀ o ∈ ops, isDestroy o = false) :
    (runOps s ops).deallocCalls = s.deallocCalls := by
  induction ops generalizing s with
  | nil => rfl
  | cons o os ih =>
    simp only [runOps]
    rw [ih _ (fun o' ho' => h o' (mem_cons_of_mem _ ho')), step_deallocCalls s o (h o mem_cons_self)]

end Seq

/-! ### the spin lock -/
open Dispenso.Conc

def isLock : L → Bool
  | .aLock | .dLock => true
  | _ => false

/-- the critical-section location entered from a lock location -/
def critOf : L → L
  | .aLock => .aUnlock
  | .dLock => .dUnlock
  | l => l

/-- the local state of thread `t`, at type `L` -/
def lc (s : State proto) (t : TId) : L := s.loc t

theorem bor_0_1 : bor 0 1 = 1 := by decide
theorem bor_1_1 : bor 1 1 = 1 := by decide

theorem op_lc (s : State proto) (t : TId) : proto.op (s.loc t) = op (lc s t) := rfl
theorem cont_lc (s : State proto) (t : TId) (r : Int) :
    proto.cont (s.loc t) r = cont (lc s t) r := rfl

/-- Every enabled action of the lock protocol, in a state without parked threads: a client call
(from a non-critical location to a lock location), a `fetch_or` by a thread at a lock location
(entering the critical section iff it read 0), or the releasing store of a thread in its critical
section. -/
theorem exec_inv {s s' : State proto} {a : Act proto} (hnp : ∀ t, s.parked t = none)
    (he : exec s a = some s') :
    s'.parked = s.parked ∧
    ((∃ t l, a = .call t l ∧ inCritical (lc s t) = false ∧ isLock l = true ∧
        s'.mem = s.mem ∧ lc s' = fun u => if u = t then l else lc s u) ∨
     (∃ t, a = .step t ∧ isLock (lc s t) = true ∧
        s'.mem = (fun g => if g = 0 then bor (s.mem 0) 1 else s.mem g) ∧
        lc s' = fun u => if u = t then (if s.mem 0 = 0 then critOf (lc s t) else lc s t)
          else lc s u) ∨
     (∃ t, a = .step t ∧ inCritical (lc s t) = true ∧
        s'.mem = (fun g => if g = 0 then 0 else s.mem g) ∧
        lc s' = fun u => if u = t then L.done else lc s u)) := by
  cases a with
  | call t l =>
    obtain ⟨_, hop, hent, hm, hp, hloc, _⟩ := exec_call_gen he
    refine ⟨hp, Or.inl ⟨t, l, rfl, ?_, ?_, hm, funext hloc⟩⟩
    · rw [op_lc] at hop
      cases hl : lc s t <;> simp [hl, op, inCritical] at hop ⊢
    · have hent' := hent
      simp only [proto, Bool.and_eq_true] at hent'
      cases l <;> simp [isLock] at hent' ⊢
  | step t =>
    cases hl : lc s t
    case idle => exact (exec_step_none he (Or.inl (by rw [op_lc, hl]; rfl))).elim
    case done => exact (exec_step_none he (Or.inl (by rw [op_lc, hl]; rfl))).elim
    case aLock =>
      have ho : proto.op (s.loc t) = some (.for_ 0 1) := by rw [op_lc, hl]; rfl
      obtain ⟨_, rfl⟩ := exec_step_mem he ho rfl
      refine ⟨rfl, Or.inr (Or.inl ⟨t, rfl, by rw [hl]; rfl, rfl, ?_⟩)⟩
      funext u
      show (if u = t then proto.cont (s.loc t) (s.mem 0) else lc s u) = _
      rw [cont_lc, hl]
      by_cases hm : s.mem 0 = 0 <;> simp [cont, critOf, hm] <;> rfl
    case dLock =>
      have ho : proto.op (s.loc t) = some (.for_ 0 1) := by rw [op_lc, hl]; rfl
      obtain ⟨_, rfl⟩ := exec_step_mem he ho rfl
      refine ⟨rfl, Or.inr (Or.inl ⟨t, rfl, by rw [hl]; rfl, rfl, ?_⟩)⟩
      funext u
      show (if u = t then proto.cont (s.loc t) (s.mem 0) else lc s u) = _
      rw [cont_lc, hl]
      by_cases hm : s.mem 0 = 0 <;> simp [cont, critOf, hm] <;> rfl
    case aUnlock =>
      have ho : proto.op (s.loc t) = some (.store 0 0) := by rw [op_lc, hl]; rfl
      obtain ⟨_, rfl⟩ := exec_step_mem he ho rfl
      refine ⟨rfl, Or.inr (Or.inr ⟨t, rfl, by rw [hl]; rfl, rfl, ?_⟩)⟩
      funext u
      show (if u = t then proto.cont (s.loc t) 0 else lc s u) = _
      rw [cont_lc, hl]; rfl
    case dUnlock =>
      have ho : proto.op (s.loc t) = some (.store 0 0) := by rw [op_lc, hl]; rfl
      obtain ⟨_, rfl⟩ := exec_step_mem he ho rfl
      refine ⟨rfl, Or.inr (Or.inr ⟨t, rfl, by rw [hl]; rfl, rfl, ?_⟩)⟩
      funext u
      show (if u = t then proto.cont (s.loc t) 0 else lc s u) = _
      rw [cont_lc, hl]; rfl
  | wake t ws =>
    obtain ⟨_, f, n, ho, _⟩ := exec_wake_gen he
    rw [op_lc] at ho
    cases hl : lc s t <;> simp [hl, op] at ho
  | timeout t =>
    obtain ⟨f, b, r, hp, _⟩ := exec_unpark_gen (Or.inl he)
    rw [hnp] at hp; cases hp
  | spurious t =>
    obtain ⟨f, b, r, hp, _⟩ := exec_unpark_gen (Or.inr he)
    rw [hnp] at hp; cases hp

structure LInv (s : State proto) : Prop where
  np : ∀ t, s.parked t = none
  rng : s.mem 0 = 0 ∨ s.mem 0 = 1
  uniq : ∀ t u, inCritical (lc s t) = true → inCritical (lc s u) = true → t = u
  held : ∀ t, inCritical (lc s t) = true → s.mem 0 = 1
  owner : s.mem 0 = 1 → ∃ t, inCritical (lc s t) = true

theorem lc_init (t : TId) : lc init t = L.idle := rfl

theorem linv_init : LInv init := by
  refine ⟨fun _ => rfl, Or.inl rfl, ?_, ?_, ?_⟩
  · intro t u h; rw [lc_init] at h; cases h
  · intro t h; rw [lc_init] at h; cases h
  · intro h; simp [init, initState] at h

theorem isLock_not_critical {l : L} (h : isLock l = true) : inCritical l = false := by
  cases l <;> simp_all [isLock, inCritical]

theorem critOf_critical {l : L} (h : isLock l = true) : inCritical (critOf l) = true := by
  cases l <;> simp_all [isLock, inCritical, critOf]

theorem linv_step {s s' : State proto} {a : Act proto} (I : LInv s) (he : exec s a = some s') :
    LInv s' := by
  obtain ⟨np, rng, uniq, held, owner⟩ := I
  obtain ⟨hp, hc⟩ := exec_inv np he
  have np' : ∀ t, s'.parked t = none := by rw [hp]; exact np
  rcases hc with ⟨t, l, _, hnc, hl, hm, hloc⟩ | ⟨t, _, hl, hm, hloc⟩ | ⟨t, _, hcr, hm, hloc⟩
  · have hl' := isLock_not_critical hl
    have hlt : lc s' t = l := by rw [hloc]; exact if_pos rfl
    have hlo : ∀ u, u ≠ t → lc s' u = lc s u := by intro u hu; rw [hloc]; exact if_neg hu
    refine ⟨np', by rw [hm]; exact rng, ?_, ?_, ?_⟩
    · intro a b ha hb
      by_cases h1 : a = t
      · rw [h1, hlt, hl'] at ha; cases ha
      · by_cases h2 : b = t
        · rw [h2, hlt, hl'] at hb; cases hb
        · rw [hlo a h1] at ha; rw [hlo b h2] at hb; exact uniq a b ha hb
    · intro a ha
      by_cases h1 : a = t
      · rw [h1, hlt, hl'] at ha; cases ha
      · rw [hlo a h1] at ha; rw [hm]; exact held a ha
    · intro h
      rw [hm] at h
      obtain ⟨u, hu⟩ := owner h
      have hut : u ≠ t := by intro e; rw [e, hnc] at hu; cases hu
      exact ⟨u, by rw [hlo u hut]; exact hu⟩
  · have hl' := isLock_not_critical hl
    have hm0 : s'.mem 0 = 1 := by
      rw [hm]; simp only [if_true]
      rcases rng with h | h <;> rw [h]
      · exact bor_0_1
      · exact bor_1_1
    have hlo : ∀ u, u ≠ t → lc s' u = lc s u := by intro u hu; rw [hloc]; exact if_neg hu
    by_cases h0 : s.mem 0 = 0
    · -- lock acquired: nobody was inside
      have hnone : ∀ u, inCritical (lc s u) = false := by
        intro u
        cases h : inCritical (lc s u)
        · rfl
        · have := held u h; omega
      have hlt : lc s' t = critOf (lc s t) := by rw [hloc]; simp [h0]
      refine ⟨np', Or.inr hm0, ?_, fun _ _ => hm0, fun _ => ⟨t, ?_⟩⟩
      · intro a b ha hb
        by_cases h1 : a = t
        · by_cases h2 : b = t
          · rw [h1, h2]
          · rw [hlo b h2, hnone] at hb; cases hb
        · rw [hlo a h1, hnone] at ha; cases ha
      · rw [hlt]; exact critOf_critical hl
    · -- lock busy: nothing changes
      have h1 : s.mem 0 = 1 := by omega
      have hloc' : ∀ u, lc s' u = lc s u := by
        intro u
        by_cases hu : u = t
        · rw [hloc]; simp [hu, h0]
        · exact hlo u hu
      refine ⟨np', Or.inr hm0, ?_, fun _ _ => hm0, fun _ => ?_⟩
      · intro a b ha hb
        rw [hloc'] at ha hb
        exact uniq a b ha hb
      · obtain ⟨u, hu⟩ := owner h1
        exact ⟨u, by rw [hloc']; exact hu⟩
  · have hm0 : s'.mem 0 = 0 := by rw [hm]; rfl
    have hnone : ∀ u, inCritical (lc s' u) = false := by
      intro u
      by_cases hu : u = t
      · rw [hloc]; simp [hu, inCritical]
      · have : lc s' u = lc s u := by rw [hloc]; exact if_neg hu
        rw [this]
        cases h : inCritical (lc s u)
        · rfl
        · exact absurd (uniq u t h hcr) hu
    refine ⟨np', Or.inl hm0, ?_, ?_, ?_⟩
    · intro a b ha; rw [hnone] at ha; cases ha
    · intro a ha; rw [hnone] at ha; cases ha
    · intro h; omega

theorem linv_reachable {s : State proto} (h : Reachable init s) : LInv s :=
  invariant LInv linv_init (fun _ _ _ I he => linv_step I he) s h

end Dispenso.PoolAlloc
