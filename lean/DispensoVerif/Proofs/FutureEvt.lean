import DispensoVerif.Proofs.FutureTimed
/-
Proofs for C20: thread-local invariants (the deferred-policy rule of Future timed waits, the
control states a CompletionEvent client can reach) and "a CompletionEvent wait reports completion
only when the event is completed".  Core Lean only.
-/
namespace Dispenso.Future
open Dispenso.Conc Dispenso.ConcL

/-- how an action changes a thread's local state: not at all, by `cont`, or by starting a call -/
theorem loc_cases {cfg e} {s s' : State (mkP cfg e)} {a : Act (mkP cfg e)}
    (h : exec s a = some s') (u : TId) :
    s'.loc u = s.loc u ∨ (∃ r, s'.loc u = cont cfg (s.loc u) r) ∨
      (e (s.loc u) (s'.loc u) = true) := by
  cases a with
  | step t =>
    obtain ⟨hp, hcs⟩ := exec_step h
    rcases hcs with ⟨cur, b, ho, hm, rfl⟩ | ⟨r, m', hs, rfl⟩
    · exact Or.inl rfl
    · by_cases hut : u = t
      · subst hut; exact Or.inr (Or.inl ⟨r, by simp⟩)
      · exact Or.inl (by simp [hut])
  | wake t ws =>
    obtain ⟨hp, f, n, ho, hnd, hsub, hall, htw, rfl⟩ := exec_wake_inv h
    by_cases hut : u = t
    · subst hut
      exact Or.inr (Or.inl ⟨ws.length, by simp [unparkAll_loc s ws hnd, htw]⟩)
    · by_cases huw : u ∈ ws
      · exact Or.inr (Or.inl ⟨rWoken, by simp [unparkAll_loc s ws hnd, hut, huw]⟩)
      · exact Or.inl (by simp [unparkAll_loc s ws hnd, hut, huw])
  | timeout t =>
    obtain ⟨p, r, hp, rfl⟩ := exec_unpark_inv (Or.inl h)
    by_cases hut : u = t
    · subst hut; exact Or.inr (Or.inl ⟨r, by simp⟩)
    · exact Or.inl (by simp [hut])
  | spurious t =>
    obtain ⟨p, r, hp, rfl⟩ := exec_unpark_inv (Or.inr h)
    by_cases hut : u = t
    · subst hut; exact Or.inr (Or.inl ⟨r, by simp⟩)
    · exact Or.inl (by simp [hut])
  | call t l =>
    obtain ⟨hp, ho, he, hm, hpk, hloc, hth⟩ := exec_call_inv h
    by_cases hut : u = t
    · subst hut
      refine Or.inr (Or.inr ?_)
      rw [hloc, if_pos rfl]; exact he
    · exact Or.inl (by rw [hloc, if_neg hut])

/-- a predicate on local states that holds initially, is kept by `cont` and established by every
entry point holds for every thread in every reachable state -/
theorem local_invariant {cfg e} (Q : L → Prop) (hcont : ∀ l r, Q l → Q (cont cfg l r))
    (hentry : ∀ l l', e l l' = true → Q l') {s0 s : State (mkP cfg e)} (h0 : ∀ t, Q (s0.loc t))
    (h : Reachable s0 s) : ∀ t, Q (s.loc t) := by
  induction h with
  | init => exact h0
  | step a _ he ih =>
    intro t
    rcases loc_cases he t with h1 | ⟨r, h1⟩ | h1
    · rw [h1]; exact ih t
    · rw [h1]; exact hcont _ _ (ih t)
    · exact hentry _ _ h1

/-! ### the deferred-policy rule of Future timed waits -/

def isTimedK : K → Bool
  | .timed _ _ | .until _ => true
  | _ => false

/-- a timed wait passes `allowInline_` to `waitCommon`, and is inside `run(int)` only if it is set -/
def Dpc (cfg : Cfg) : PC → Prop
  | .wcLoad k a => isTimedK k = true → a = cfg.allowInline
  | .rnCas k | .fnInc k | .fnStore k | .fnThrow k | .ntStore k | .ntWake k | .tsSub k =>
    isTimedK k = true → cfg.allowInline = true
  | _ => True

theorem Dpc_cont (cfg : Cfg) (l : L) (r : Int) (h : Dpc cfg l.pc) : Dpc cfg (cont cfg l r).pc := by
  obtain ⟨h0, pc⟩ := l
  have hfin : ∀ k, Dpc cfg (fin k) := by intro k; cases k <;> simp [fin, Dpc]
  have hslow : ∀ k, Dpc cfg (slow k) := by intro k; cases k <;> simp [slow, Dpc]
  cases pc <;> simp only [cont, contPC] <;> simp only [Dpc] at h <;> (try (repeat' split)) <;>
    first
      | exact hfin _
      | exact hslow _
      | (simp only [Dpc] <;> first | exact h | trivial | (intro hk; simp_all [isTimedK]))

theorem Dpc_entry (cfg : Cfg) (l l' : L) (h : futEntry cfg l l' = true) : Dpc cfg l'.pc := by
  obtain ⟨h0, pc⟩ := l
  obtain ⟨h1, pc'⟩ := l'
  simp only [futEntry, Bool.and_eq_true, Bool.or_eq_true, decide_eq_true_eq] at h
  obtain ⟨_, hc⟩ := h
  rcases hc with (⟨_, hf⟩ | ⟨_, hf⟩) | ⟨_, rfl⟩
  · cases pc' <;> simp_all [freeEntry, Dpc]
  · cases pc' <;> simp_all [handleEntry, Dpc]
    rename_i k a
    cases k <;> simp_all [handleEntry, isTimedK]
  · simp [Dpc]

/-! ### CompletionEvent: the reachable control states, completion is stable, ready means done -/

/-- the control states of CompletionEvent clients (`notify`, `wait`, `waitFor`, `waitUntil`,
`completed`) and of the clock -/
def evtPC : PC → Bool
  | .idle | .done _ | .tdone _ _ | .wdone => true
  | .ntStore .notify | .ntWake .notify => true
  | .evLoad .wait | .evWait .wait _ => true
  | .tfClock _ false | .wuLoad _ | .wuClock _ | .wfLoad0 _ _ | .wfLoad _ _ | .wfWait _ _ _ => true
  | .irLoad | .tick _ => true
  | _ => false

theorem evtPC_cont (l : L) (r : Int) (h : evtPC l.pc = true) : evtPC (cont evtCfg l r).pc = true := by
  obtain ⟨h0, pc⟩ := l
  cases pc
  case ntStore k => cases k <;> simp_all [evtPC, cont, contPC]
  case ntWake k => cases k <;> simp_all [evtPC, cont, contPC, fin, evtCfg]
  case evLoad k =>
    cases k <;> simp only [evtPC] at h <;> try contradiction
    simp only [cont, contPC, fin]; split <;> simp [evtPC]
  case evWait k c => cases k <;> simp_all [evtPC, cont, contPC]
  case tfClock rel fut => cases fut <;> simp_all [evtPC, cont, contPC]
  all_goals (simp only [evtPC] at h)
  all_goals (try contradiction)
  all_goals (simp only [cont, contPC])
  all_goals (try (repeat' split))
  all_goals simp [evtPC]

theorem evtPC_entry (l l' : L) (h : evtEntry l l' = true) : evtPC l'.pc = true := by
  obtain ⟨h0, pc⟩ := l
  obtain ⟨h1, pc'⟩ := l'
  simp only [evtEntry, Bool.and_eq_true, decide_eq_true_eq] at h
  obtain ⟨_, hf⟩ := h
  cases pc' <;> simp_all [evtEntryPC, evtPC]
  all_goals (rename_i k; cases k <;> simp_all [evtEntryPC, evtPC])

/-- a wait of a CompletionEvent client has reported completion -/
def retReady : PC → Bool
  | .wdone => true
  | .tdone r _ => r = 1
  | _ => false

structure InvE (s : State (mkP evtCfg evtEntry)) : Prop where
  pk : ∀ u f b, s.parked u = some (f, b) →
    f = 0 ∧ ∃ cur, opPC evtCfg (s.loc u).pc = some (.fwait 0 cur b)
  pcs : ∀ t, evtPC (s.loc t).pc = true
  b01 : s.mem 0 = 0 ∨ s.mem 0 = 1
  rr : ∀ t, retReady (s.loc t).pc = true → s.mem 0 = 1

/-- a step of a CompletionEvent client leaves the status alone or sets it to "completed"; a step
that makes the thread report completion saw the status "completed" -/
theorem stepM_E {m m' : Fld → Int} {h0 : Nat} {pc : PC} {r : Int} (hpc : evtPC pc = true)
    (h : StepM evtCfg m pc r m') :
    (m' 0 = m 0 ∨ m' 0 = 1) ∧
    (retReady (cont evtCfg ⟨h0, pc⟩ r).pc = true → retReady pc = true ∨ (m 0 = 1 ∧ m' 0 = 1)) := by
  cases pc
  case ntStore k =>
    cases k <;> simp only [evtPC] at hpc <;> try contradiction
    step_norm; simp [upd, cont, contPC, retReady, evtCfg]
  case ntWake k => simp [StepM, stepRes, opPC, effRes] at h
  case evLoad k =>
    cases k <;> simp only [evtPC] at hpc <;> try contradiction
    step_norm
    simp only [cont, contPC, fin, evtCfg]
    by_cases hm : m 0 = 1 <;> simp [hm, retReady]
  case evWait k c =>
    cases k <;> simp only [evtPC] at hpc <;> try contradiction
    step_norm; simp [cont, contPC, retReady]
  case tfClock rel fut =>
    cases fut <;> simp only [evtPC] at hpc <;> try contradiction
    step_norm; simp [cont, contPC, retReady]
  case wfLoad0 rel lb =>
    step_norm
    simp only [cont, contPC, evtCfg]
    by_cases hm : m 0 = 1 <;> by_cases hr : 0 < rel <;> simp [hm, hr, retReady]
  case wfWait rel lb c =>
    step_norm
    simp [cont, contPC, rAgain, rTimedOut, retReady]
  all_goals (simp only [evtPC] at hpc)
  all_goals (try contradiction)
  all_goals step_norm
  all_goals (simp only [cont, contPC, evtCfg])
  all_goals (by_cases hm : m 0 = 1 <;> simp [hm, retReady, upd] <;> (try split) <;> simp [retReady])

/-- a thread leaving a futex wait does not report completion by that -/
theorem unpark_E {l : L} {cur : Int} {b : Bool} (ho : opPC evtCfg l.pc = some (.fwait 0 cur b))
    (r : Int) : retReady (cont evtCfg l r).pc = false := by
  obtain ⟨hh, pc⟩ := l
  cases pc <;> simp only [opPC, reduceCtorEq, Option.some.injEq] at ho
  case evWait k c => simp [cont, contPC, retReady]
  case wfWait rel lb c =>
    simp only [cont, contPC]
    split <;> simp [retReady]

theorem wake_E {l : L} {f : Fld} {n : Nat} (hpc : evtPC l.pc = true)
    (ho : opPC evtCfg l.pc = some (.fwake f n)) (r : Int) :
    retReady (cont evtCfg l r).pc = false := by
  obtain ⟨hh, pc⟩ := l
  cases pc <;> simp only [opPC, reduceCtorEq, Option.some.injEq] at ho
  case ntWake k =>
    cases k <;> simp only [evtPC] at hpc <;> try contradiction
    simp [cont, contPC, fin, evtCfg, retReady]

theorem entry_E (l l' : L) (h : evtEntry l l' = true) : retReady l'.pc = false := by
  obtain ⟨h0, pc⟩ := l
  obtain ⟨h1, pc'⟩ := l'
  simp only [evtEntry, Bool.and_eq_true, decide_eq_true_eq] at h
  obtain ⟨_, hf⟩ := h
  cases pc' <;> simp_all [evtEntryPC, retReady]

theorem invE_exec {s s' : State (mkP evtCfg evtEntry)} (a : Act (mkP evtCfg evtEntry))
    (I : InvE s) (h : exec s a = some s') : InvE s' := by
  have hpcs : ∀ t, evtPC (s'.loc t).pc = true := by
    intro t
    rcases loc_cases h t with h1 | ⟨r, h1⟩ | h1
    · rw [h1]; exact I.pcs t
    · rw [h1]; exact evtPC_cont _ _ (I.pcs t)
    · exact evtPC_entry _ _ h1
  cases a with
  | step t =>
    obtain ⟨hp, hcs⟩ := exec_step h
    rcases hcs with ⟨cur, b, ho, hm, rfl⟩ | ⟨r, m', hs, rfl⟩
    · refine ⟨fun u f b' hu => ?_, hpcs, I.b01, I.rr⟩
      simp only [setParked_parked] at hu
      split at hu
      · rename_i hut
        subst hut
        injection hu with hu
        injection hu with h1 h2
        subst h1 h2
        exact ⟨rfl, cur, ho⟩
      · exact I.pk u f b' hu
    · have hE := stepM_E (h0 := (s.loc t).h) (I.pcs t) hs
      refine ⟨fun u f b hu => ?_, hpcs, ?_, fun u hu => ?_⟩
      · simp only [setLoc_parked] at hu
        have hut : u ≠ t := fun h' => by rw [h', hp] at hu; cases hu
        simpa [hut] using I.pk u f b hu
      · have := I.b01; show m' 0 = 0 ∨ m' 0 = 1; omega
      · show m' 0 = 1
        simp only [setLoc_loc] at hu
        split at hu
        · rcases hE.2 hu with h1 | ⟨_, h1⟩
          · have := I.rr t h1; omega
          · exact h1
        · have := I.rr u hu; omega
  | wake t ws =>
    obtain ⟨hp, f, n, ho, hnd, hsub, hall, htw, rfl⟩ := exec_wake_inv h
    have ho' : opPC evtCfg (s.loc t).pc = some (.fwake f n) := ho
    refine ⟨fun u g b hu => ?_, hpcs, by simpa using I.b01, fun u hu => ?_⟩
    · simp only [setLoc_parked, unparkAll_parked] at hu
      split at hu
      · cases hu
      · rename_i huw
        have hut : u ≠ t := fun h' => by rw [h', hp] at hu; cases hu
        simpa [hut, huw, unparkAll_loc _ ws hnd] using I.pk u g b hu
    · simp only [setLoc_mem, unparkAll_mem]
      simp only [setLoc_loc, unparkAll_loc s ws hnd] at hu
      by_cases hut : u = t
      · subst hut
        simp only [if_true] at hu
        rw [wake_E (I.pcs u) ho' _] at hu; cases hu
      · simp only [if_neg hut] at hu
        by_cases huw : u ∈ ws
        · simp only [if_pos huw] at hu
          obtain ⟨_, b, hb⟩ := (mem_parkedOn s f u).mp (hsub u huw)
          obtain ⟨rfl, cur, hcur⟩ := I.pk u f b hb
          rw [unpark_E hcur _] at hu; cases hu
        · simp only [if_neg huw] at hu
          exact I.rr u hu
  | timeout t =>
    obtain ⟨p, r, hp, rfl⟩ := exec_unpark_inv (Or.inl h)
    obtain ⟨f, b⟩ := p
    obtain ⟨rfl, cur, hcur⟩ := I.pk t f b hp
    refine ⟨fun u g b' hu => ?_, hpcs, I.b01, fun u hu => ?_⟩
    · simp only [setLoc_parked, setParked_parked] at hu
      split at hu
      · cases hu
      · rename_i hut
        simpa [hut] using I.pk u g b' hu
    · show s.mem 0 = 1
      simp only [setLoc_loc, setParked_loc] at hu
      split at hu
      · rw [unpark_E hcur _] at hu; cases hu
      · exact I.rr u hu
  | spurious t =>
    obtain ⟨p, r, hp, rfl⟩ := exec_unpark_inv (Or.inr h)
    obtain ⟨f, b⟩ := p
    obtain ⟨rfl, cur, hcur⟩ := I.pk t f b hp
    refine ⟨fun u g b' hu => ?_, hpcs, I.b01, fun u hu => ?_⟩
    · simp only [setLoc_parked, setParked_parked] at hu
      split at hu
      · cases hu
      · rename_i hut
        simpa [hut] using I.pk u g b' hu
    · show s.mem 0 = 1
      simp only [setLoc_loc, setParked_loc] at hu
      split at hu
      · rw [unpark_E hcur _] at hu; cases hu
      · exact I.rr u hu
  | call t l =>
    obtain ⟨hp, ho, he, hm, hpk, hloc, hth⟩ := exec_call_inv h
    refine ⟨fun u g b hu => ?_, hpcs, by rw [hm]; exact I.b01, fun u hu => ?_⟩
    · rw [hpk] at hu
      have hut : u ≠ t := fun h' => by rw [h', hp] at hu; cases hu
      rw [hloc, if_neg hut]
      exact I.pk u g b hu
    · rw [hm]
      rw [hloc] at hu
      split at hu
      · rw [entry_E _ _ he] at hu; cases hu
      · exact I.rr u hu

theorem invE_reachable {now : Int} {s : State evtProto} (h : Reachable (evtInit now) s) :
    InvE s :=
  invariant (P := mkP evtCfg evtEntry) InvE
    ⟨fun u f b hu => (by cases hu), fun _ => rfl, Or.inl rfl, fun t ht => (by cases ht)⟩
    (fun _ a _ I he => invE_exec a I he) s h

end Dispenso.Future
