import DispensoVerif.Proofs.SchedShape
import DispensoVerif.Proofs.SchedReach

/-!
History invariant for C04: every frame that holds a passed, not yet consumed cancel check of a set
`S` (`Ob`: a packaged task whose wrapper passed the guard, a call whose cancel check of its set
passed, or a call that decided after such a check to run the reserved task unpackaged) is backed by
an earlier accepted `tsGuard S false _` event of the same thread, executed by that very frame
(the stack of the thread never dropped below the depth of the frame since), with no `begin_` of the
thread at that depth since: every `begin_` of a frame consumes the check it holds.
-/
namespace Dispenso.Sched

/-- guard witness: the trace `tr` contains an accepted event `(t, tsGuard S false site)`, executed
at stack depth `d` of thread `t` in a state where `S` is not cancelled; since then the stack of `t`
never was lower than `d`, and no `begin_` event of `t` was executed at depth `d` -/
def GW (tr : List (Nat × Ev)) (t d S : Nat) : Prop :=
  ∃ tr1 tr2 site s1 s2, tr = tr1 ++ (t, Ev.tsGuard S false site) :: tr2 ∧
    run (St.init 0) tr1 = some s1 ∧ step s1 t (.tsGuard S false site) = some s2 ∧
    S ∉ s1.cancelled ∧ (s1.stack t).length = d ∧
    (∀ a b sm, tr2 = a ++ b → run s2 a = some sm → d ≤ (sm.stack t).length) ∧
    (∀ a id b sm, tr2 = a ++ (t, Ev.begin_ id) :: b → run s2 a = some sm →
      (sm.stack t).length ≠ d)

theorem snoc_eq_append {α} {x : α} : ∀ {l a b : List α}, l ++ [x] = a ++ b →
    (∃ b', b = b' ++ [x] ∧ l = a ++ b') ∨ (a = l ++ [x] ∧ b = [])
  | l, [], b, h => Or.inl ⟨l, h.symm, rfl⟩
  | [], y :: a, b, h => by
    simp only [List.nil_append, List.cons_append, List.cons.injEq] at h
    have := List.append_eq_nil_iff.1 h.2.symm
    exact Or.inr ⟨by simp [h.1, this.1], this.2⟩
  | z :: l, y :: a, b, h => by
    simp only [List.cons_append, List.cons.injEq] at h
    rcases snoc_eq_append h.2 with ⟨b', hb, hl⟩ | ⟨ha, hb⟩
    · exact Or.inl ⟨b', hb, by simp [h.1, hl]⟩
    · exact Or.inr ⟨by simp [h.1, ha], hb⟩

theorem snoc_eq_append_cons {α} {x y : α} {l a b : List α} (h : l ++ [x] = a ++ y :: b) :
    (∃ b', b = b' ++ [x] ∧ l = a ++ y :: b') ∨ (a = l ∧ y = x ∧ b = []) := by
  rcases snoc_eq_append h with ⟨b', hb, hl⟩ | ⟨_, hb⟩
  · cases b' with
    | nil =>
      simp only [List.nil_append, List.cons.injEq] at hb
      exact Or.inr ⟨by simp [hl], hb.1, hb.2⟩
    | cons z b'' =>
      simp only [List.cons_append, List.cons.injEq] at hb
      exact Or.inl ⟨b'', hb.2, by simp [hl, hb.1]⟩
  · cases hb

theorem run_split {s0 s : St} {tr1 tr2 : List (Nat × Ev)} {t : Nat} {e : Ev} {s1 s2 : St}
    (hrun : run s0 (tr1 ++ (t, e) :: tr2) = some s) (h1 : run s0 tr1 = some s1)
    (h2 : step s1 t e = some s2) : run s2 tr2 = some s := by
  rw [run_append, h1] at hrun
  simp only [Option.bind_some, run_cons, h2] at hrun
  exact hrun

/-- a witness survives one more accepted event, if the frame it belongs to survives and the event
is not a `begin_` of that frame -/
theorem GW.extend {tr : List (Nat × Ev)} {s s' : St} {t0 : Nat} {e : Ev} {t d S : Nat}
    (hrun : run (St.init 0) tr = some s) (hstep : step s t0 e = some s')
    (hg : GW tr t d S) (hd : d ≤ (s'.stack t).length)
    (hb : ∀ id, t0 = t → e = .begin_ id → (s.stack t).length ≠ d) :
    GW (tr ++ [(t0, e)]) t d S := by
  obtain ⟨tr1, tr2, site, s1, s2, rfl, h1, h2, h3, h4, h5, h6⟩ := hg
  have hs2 : run s2 tr2 = some s := run_split hrun h1 h2
  refine ⟨tr1, tr2 ++ [(t0, e)], site, s1, s2, by simp, h1, h2, h3, h4, ?_, ?_⟩
  · intro a c sm hac hsm
    rcases snoc_eq_append hac with ⟨c', _, hl⟩ | ⟨ha, _⟩
    · exact h5 a c' sm hl hsm
    · rw [ha, run_snoc, hs2] at hsm
      simp only [Option.bind_some, hstep, Option.some.injEq] at hsm
      rw [← hsm]; exact hd
  · intro a id c sm hac hsm
    rcases snoc_eq_append_cons hac with ⟨c', _, hl⟩ | ⟨ha, hx, _⟩
    · exact h6 a id c' sm hl hsm
    · rw [ha, hs2] at hsm
      have hsm' : s = sm := Option.some.inj hsm
      rw [← hsm']
      have := Prod.mk.inj hx
      exact hb id this.1.symm this.2.symm

/-- the history invariant -/
def Hist (tr : List (Nat × Ev)) (s : St) : Prop :=
  ∀ t pre f rest S, norm (s.thr t) = pre ++ f :: rest → Ob f S → GW tr t (rest.length + 1) S

theorem Hist.init : Hist [] (St.init 0) := by
  intro t pre f rest S h
  have : norm ((St.init 0).thr t) = [{}] := rfl
  rw [this] at h
  have hf : f = {} := by
    cases pre with
    | nil => simp only [List.nil_append, List.cons.injEq] at h; exact h.1.symm
    | cons a pre => simp at h
  subst hf
  simp [Ob]

theorem Hist.next {tr : List (Nat × Ev)} {s s' : St} {t0 : Nat} {e : Ev}
    (hrun : run (St.init 0) tr = some s) (hI : Inv s) (hH : Hist tr s)
    (hstep : step s t0 e = some s') : Hist (tr ++ [(t0, e)]) s' := by
  obtain ⟨f0, rest0, hs0, hst⟩ := step_inv' hstep
  have hsh := hst.shape
  intro t pre f rest S hdec
  have hlen : rest.length + 1 ≤ (s'.stack t).length := by
    rw [stack_eq_norm, hdec]; simp
  -- carry an obligation of an old frame sitting on the same `rest` over to the new trace
  have carry : ∀ (fo : Frame) (pre₀ : List Frame), norm (s.thr t) = pre₀ ++ fo :: rest →
      Ob fo S → (∀ id, t0 = t → e = .begin_ id → pre₀ ≠ []) →
      GW (tr ++ [(t0, e)]) t (rest.length + 1) S := by
    intro fo pre₀ hold hob hne
    refine GW.extend hrun hstep (hH t pre₀ fo rest S hold hob) hlen (fun id h1 h2 => ?_)
    have := hne id h1 h2
    rw [stack_eq_norm, hold]
    cases pre₀ with
    | nil => exact absurd rfl this
    | cons a p => simp; omega
  by_cases ht : t ≠ t0
  · rw [hsh.thr_other ht] at hdec
    exact fun h => carry f pre hdec h (fun _ h1 _ => absurd h1.symm ht)
  have ht : t = t0 := Decidable.not_not.1 ht
  subst ht
  -- a fresh guard event on the top frame
  have fresh : Fresh s e S → rest = rest0 → (s'.stack t).length = rest0.length + 1 →
      GW (tr ++ [(t, e)]) t (rest.length + 1) S := by
    intro ⟨site, he, hc⟩ hr hl
    subst he hr
    refine ⟨tr, [], site, s, s', rfl, hrun, hstep, hc, by rw [stack_eq_norm, hs0]; rfl, ?_, ?_⟩
    · intro a c sm hac hsm
      have := List.append_eq_nil_iff.1 hac.symm
      rw [this.1] at hsm
      simp only [run, Option.some.injEq] at hsm
      rw [← hsm, hl]
      exact Nat.le_refl _
    · intro a id c sm hac
      have := congrArg List.length hac
      simp at this
  cases hsh with
  | same h hb =>
    rw [h] at hdec
    exact fun ho => carry f pre hdec ho (fun id _ h2 => absurd h2 (hb id))
  | push F h hF hb =>
    rw [h, upd_same, norm_cons] at hdec
    rcases List.cons_eq_append_iff.1 hdec with ⟨_, h2⟩ | ⟨pre', _, h2⟩
    · have hf : f = F := (List.cons.inj h2).1
      subst hf
      simp [Ob, hF.1, hF.2]
    · rw [← hs0] at h2
      exact fun ho => carry f pre' h2 ho (fun id _ h2 => absurd h2 (hb id))
  | pop h hk hb =>
    have hr := rest_ne_nil_of_pop hI.bot hs0 hk
    obtain ⟨g, rest', hr'⟩ := List.exists_cons_of_ne_nil hr
    rw [h, upd_same, hr', norm_cons, ← hr'] at hdec
    have hold : norm (s.thr t) = (f0 :: pre) ++ f :: rest := by rw [hs0, hdec]; rfl
    exact fun ho => carry f _ hold ho (fun id _ h2 => absurd h2 (hb id))
  | top f0' h hb hset hfq hO =>
    rw [h, upd_same, norm_cons] at hdec
    have hl : (s'.stack t).length = rest0.length + 1 := by
      rw [stack_eq_norm, h, upd_same, norm_cons]; rfl
    rcases List.cons_eq_append_iff.1 hdec with ⟨hp, h2⟩ | ⟨pre', _, h2⟩
    · obtain ⟨hf, hr⟩ := List.cons.inj h2
      subst hf
      have hold : norm (s.thr t) = [] ++ f0 :: rest := by rw [hs0, ← hr]; rfl
      intro ho
      rcases hO S ho with ho' | hfr
      · exact carry f0 [] hold ho' (fun id _ h2 => absurd h2 (hb id))
      · exact fresh hfr hr hl
    · have hold : norm (s.thr t) = (f0 :: pre') ++ f :: rest := by rw [hs0, h2]; rfl
      exact fun ho => carry f _ hold ho (fun id _ h2 => absurd h2 (hb id))
  | begin F f0' id he h hF hp hg hset hfq =>
    rw [h, upd_same, norm_cons] at hdec
    rcases List.cons_eq_append_iff.1 hdec with ⟨_, h2⟩ | ⟨pre', _, h2⟩
    · have hf : f = F := (List.cons.inj h2).1
      subst hf
      simp [Ob, hF.1, hF.2]
    · rcases List.cons_eq_append_iff.1 h2 with ⟨_, h3⟩ | ⟨pre'', _, h3⟩
      · -- the frame that begins the body: the check it held is consumed
        obtain ⟨hf, hr⟩ := List.cons.inj h3
        subst hf
        simp [Ob, hp, hg]
      · have hold : norm (s.thr t) = (f0 :: pre'') ++ f :: rest := by rw [hs0, h3]; rfl
        exact fun ho => carry f _ hold ho (fun _ _ _ => by simp)
  | endPk g rest' g' hr h hk hb hp hg hset hfq =>
    rw [h, upd_same, norm_cons] at hdec
    rcases List.cons_eq_append_iff.1 hdec with ⟨_, h2⟩ | ⟨pre', _, h2⟩
    · obtain ⟨hf, hr2⟩ := List.cons.inj h2
      subst hf
      have hold : norm (s.thr t) = [f0] ++ g :: rest := by rw [hs0, hr, ← hr2]; rfl
      refine fun ho => carry g _ hold ?_ (fun id _ h2 => absurd h2 (hb id))
      simpa [Ob, hp, hg, hset] using ho
    · have hold : norm (s.thr t) = (f0 :: g :: pre') ++ f :: rest := by rw [hs0, hr, h2]; rfl
      exact fun ho => carry f _ hold ho (fun id _ h2 => absurd h2 (hb id))
  | endNil l h hr hk =>
    subst hr
    have := hI.bot t
    rw [hs0] at this
    simp [botKind, hk] at this

theorem Hist.run_from {tr : List (Nat × Ev)} : ∀ {tr0 : List (Nat × Ev)} {s0 s : St},
    run (St.init 0) tr0 = some s0 → Hist tr0 s0 → run s0 tr = some s → Hist (tr0 ++ tr) s := by
  induction tr with
  | nil =>
    intro tr0 s0 s h0 hH h
    simp only [run, Option.some.injEq] at h
    subst h
    simpa using hH
  | cons x tr ih =>
    obtain ⟨t, e⟩ := x
    intro tr0 s0 s h0 hH h
    rw [run_cons] at h
    cases h1 : step s0 t e with
    | none => rw [h1] at h; simp at h
    | some s1 =>
      rw [h1] at h
      have h0' : run (St.init 0) (tr0 ++ [(t, e)]) = some s1 := by
        rw [run_snoc, h0]; exact h1
      have := ih h0' (Hist.next h0 (Inv.reach ⟨tr0, h0⟩) hH h1) h
      simpa using this

theorem Hist.of_run {tr : List (Nat × Ev)} {s : St} (h : run (St.init 0) tr = some s) :
    Hist tr s := by
  have := Hist.run_from (tr := tr) (tr0 := []) rfl Hist.init h
  simpa using this

end Dispenso.Sched
