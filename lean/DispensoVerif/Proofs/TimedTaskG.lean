import DispensoVerif.Proofs.TimedTaskD

/-! C26, repaired kick-off: `func` is never used after, nor destroyed during, a use -/
namespace Dispenso.TimedTask
set_option linter.unusedSimpArgs false

structure InvG (s : St) : Prop where
  nouaf : s.uaf = false
  dead : s.funcAlive = false → s.dtorRet = true
  retK : s.dtorRet = true → s.k.usesFunc = false
  clrK : s.d = .clear → s.k.usesFunc = false

theorem invG_init (c : Cfg) : InvG (init c) := by
  constructor <;> simp [init, K.usesFunc]

set_option maxHeartbeats 1000000 in
theorem invG_step {c : Cfg} {s s' : St} {a : Act} (hf : c.fixed = true) (hA : InvA c s)
    (hB : InvB c s) (hC : InvC s) (hD : InvD s) (h : InvG s)
    (hs : step c s a = some s') : InvG s' := by
  obtain ⟨h1, h2, h3, h4⟩ := h
  obtain ⟨a1, a2, a3, a4, a5, a6⟩ := hA
  obtain ⟨c1, c2, c3, c4, c5⟩ := hC
  obtain ⟨d1, d2⟩ := hD
  unfold InvB at hB
  have hany : cnt W.busy s.wraps = 0 → (s.wraps.any fun w => w == W.running) = false := any_running_false
  have hk : kHolds c.fixed s.k = 0 → s.k.usesFunc = false := by
    intro h0
    have := a3 hf
    cases hk' : s.k <;> simp_all [kHolds, K.usesFunc, K.isOld]
  tt_steps s a hs => (constructor <;> tt_close)

end Dispenso.TimedTask
