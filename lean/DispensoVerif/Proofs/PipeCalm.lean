import DispensoVerif.Proofs.PipeInvK
/-!
The joint invariant of runs in which no stage function has thrown (`Calm`): the exception /
cancellation machinery is untouched, and behind the caller's progress through
`Generator::wait` (completion event, then `wait()` of stage 1, 2, …) nothing of the generator / of
the stages already waited for exists any more — no frame on any thread, no pool task, no queue
entry, no pending item.  The local preservation lemmas are generated (`PipeInvH`); here they are
combined with the establishing steps (the caller observes `completion_` = 0, `outstanding_` = 0).
-/
namespace Dispenso.Pipe
set_option linter.unusedVariables false
set_option linter.unusedSimpArgs false
set_option linter.unusedTactic false

theorem SW_of_step {c : Cfg} {st st' : St} {t : Nat} {ch : Choice} (w : Frame → Int)
    (hs : step c st t ch = some st') :
    SW w c st' = SW w c st - sumL w (st.thr t) + sumL w (st'.thr t) := by
  obtain ⟨ht, _, hu⟩ := step_loc hs
  have heq : st'.thr = fun u => if u = t then st'.thr t else st.thr u := by
    funext u
    by_cases h : u = t
    · simp [h]
    · simp [h, hu u h]
  unfold SW
  rw [heq, sumT_set w st.thr t (st'.thr t) c.pool ht]
  simp

theorem thrown_mono {c : Cfg} {sh sh' : Sh} {stk stk' : List Frame} (hl : Loc c sh stk sh' stk') :
    sh.thrown ≤ sh'.thrown :=
  thm_loc c sh.thrown hl trivial (Nat.le_refl _)

theorem top_mpc {c : Cfg} {sh sh' : Sh} {stk stk' : List Frame} {ch : Choice}
    (h : stepTop c sh stk ch = some (sh', stk')) : sh'.mpc = sh.mpc :=
  tmp_top c sh.mpc h trivial rfl

theorem wNe_nn : ∀ f, 0 ≤ wNe f := ne_nn
theorem wL0_nn : ∀ f, 0 ≤ wL0 f := l0_nn
theorem wLs_nn (s : Nat) : ∀ f, 0 ≤ wLs s f := by
  intro f
  cases f <;> simp [wLs] <;> (repeat' split) <;> omega

theorem wL0_le_wCpl (f : Frame) : wL0 f ≤ wCpl f := by
  cases f <;> simp only [wL0, wCpl] <;> (repeat' split) <;> simp_all <;> omega

theorem wLs_le_wOut (s : Nat) (f : Frame) : wLs s f ≤ wOut s f := by
  cases f <;> simp only [wLs, wOut, hwOut] <;> (repeat' split) <;> simp_all <;> omega

theorem wCar_le (s : Nat) (f : Frame) : wCar s f ≤ wOut s f + wNe f := by
  cases f with
  | cs k b => simp only [wCar, wOut, wNe]; split <;> simp
  | pkg k pc =>
    cases pc with
    | chk => simp only [wCar, wOut, wNe]; split <;> simp
    | skipQ => simp only [wCar, wOut, wNe]; split <;> simp
    | dec d => cases d <;> cases k <;> simp [wCar, wOut, wNe, isU] <;> (try split) <;> omega
    | dtor => cases k <;> simp [wCar, wOut, wNe, isU] <;> (try split) <;> omega
  | tmp k d => cases d <;> cases k <;> simp [wCar, wOut, wNe] <;> (try split) <;> omega
  | qi s' => simp only [wCar, wOut, wNe]; split <;> simp
  | ui s' o pc => cases pc <;> simp only [wCar, wOut, wNe] <;> split <;> simp
  | ts e pc => simp [wCar, wOut, wNe]
  | exc e => simp [wCar, wOut, wNe]
  | gen o pc => cases pc <;> simp [wCar, wOut, wNe, hwOut] <;> (repeat' split) <;> omega
  | qr s' i pc => cases pc <;> simp [wCar, wOut, wNe, hwOut] <;> (repeat' split) <;> omega
  | ur s' i o pc => cases pc <;> simp [wCar, wOut, wNe, hwOut] <;> (repeat' split) <;> omega

theorem pastL_past0 {j : Nat} {m : MPc} (h : pastL j m) : past0 m := by
  cases m <;> simp_all [pastL, past0]

theorem pastL_succ {j : Nat} {m : MPc} (h : pastL (j + 1) m) : pastL j m := by
  cases m <;> simp_all [pastL]
  omega

/-- the facts that hold as long as no stage function has thrown -/
structure Calm (c : Cfg) (st : St) : Prop where
  ne0 : SW wNe c st = 0
  ne : ∀ j i, PsiNe j i st.sh
  l0 : past0 st.sh.mpc → SW wL0 c st = 0 ∧ Task.gen ∉ st.sh.pool
  lv : ∀ j, j + 1 ≤ c.n → pastL (j + 1) st.sh.mpc → SW (wLs (j + 1)) c st = 0 ∧ PsiLv j st.sh

/-- a step of the caller's own code that only moves its program counter -/
def OnlyMpc (sh sh' : Sh) : Prop := sh' = { sh with mpc := sh'.mpc }

theorem onlyMpc_intro {sh : Sh} {m : MPc} : OnlyMpc sh { sh with mpc := m } := rfl

theorem leaveL_waitL {c : Cfg} {sh sh' : Sh} {stk' : List Frame} {ch : Choice} {s s' : Nat} {pc : WPc}
    (h : stepWaitL c sh s' pc ch = some (sh', stk')) (h1 : s' ≤ s) (hsn : s ≤ c.n)
    (h2 : pastL s sh'.mpc) (hg : sh.guard = 0) (hd : notDrain (.w s' pc)) :
    s' = s ∧ pc = .l0 ∧ sh.out s = 0 ∧ stk' = [] ∧ OnlyMpc sh sh' := by
  fun_cases stepWaitL c sh s' pc ch
  all_goals (try simp only [stepWaitL, reduceCtorEq, ↓reduceIte, *] at h)
  all_goals (try simp only [Option.some.injEq, Prod.mk.injEq, reduceCtorEq, release_some, takeTask_some] at h)
  all_goals (try casesm* _ ∧ _)
  all_goals (try subst_vars)
  all_goals (try (simp [notDrain] at hd; done))
  all_goals (try (simp at h; done))
  all_goals (try (simp only [pastL] at h2; omega))
  -- the only arm left: `.l0`
  dsimp only at h2
  split_ifs at h2 with ho
  · have : s' = s := by
      unfold nextWait at h2
      split_ifs at h2 with hn
      · simp only [pastL] at h2; omega
      · omega
    subst this
    refine ⟨rfl, rfl, ho, rfl, ?_⟩
    simp [OnlyMpc, ho, hg]
  · simp only [pastL] at h2; omega

theorem leaveL_waitU {c : Cfg} {sh sh' : Sh} {stk' : List Frame} {ch : Choice} {s s' : Nat} {pc : WPc}
    (h : stepWaitU c sh s' pc ch = some (sh', stk')) (h1 : s' ≤ s) (hsn : s ≤ c.n)
    (h2 : pastL s sh'.mpc) (hg : sh.guard = 0) :
    s' = s ∧ pc = .l0 ∧ sh.out s = 0 ∧ stk' = [] ∧ OnlyMpc sh sh' := by
  fun_cases stepWaitU c sh s' pc ch
  all_goals (try simp only [stepWaitU, reduceCtorEq, ↓reduceIte, *] at h)
  all_goals (try simp only [Option.some.injEq, Prod.mk.injEq, reduceCtorEq, release_some, takeTask_some] at h)
  all_goals (try casesm* _ ∧ _)
  all_goals (try subst_vars)
  all_goals (try (simp at h; done))
  all_goals (try (simp only [pastL] at h2; omega))
  dsimp only at h2
  split_ifs at h2 with ho
  · have : s' = s := by
      unfold nextWait at h2
      split_ifs at h2 with hn
      · simp only [pastL] at h2; omega
      · omega
    subst this
    refine ⟨rfl, rfl, ho, rfl, ?_⟩
    simp [OnlyMpc, ho, hg]
  · simp only [pastL] at h2; omega

/-- the caller's steps that take it past `wait()` of stage `s` (1 ≤ s ≤ n; nothing has thrown, no discard path) -/
theorem leaveL {c : Cfg} {sh sh' : Sh} {stk' : List Frame} {ch : Choice} {s : Nat} {m : MPc}
    (h : stepMain c sh m ch = some (sh', stk')) (hs : 0 < s) (hsn : s ≤ c.n) (h1 : ¬ pastL s m)
    (h2 : pastL s sh'.mpc) (hg : sh.guard = 0) (hd : notDrain m) :
    m = .w s .l0 ∧ sh.out s = 0 ∧ stk' = [] ∧ OnlyMpc sh sh' := by
  fun_cases stepMain c sh m ch
  all_goals (try simp only [stepMain, *] at h)
  all_goals (try (simp [pastL] at h1; done))
  all_goals (try (simp at h; done))
  case case5 =>
    obtain ⟨a, b, d, e, f⟩ := leaveL_waitL h (by simpa [pastL] using h1) hsn h2 hg hd
    subst a b; exact ⟨rfl, d, e, f⟩
  case case6 =>
    obtain ⟨a, b, d, e, f⟩ := leaveL_waitU h (by simpa [pastL] using h1) hsn h2 hg
    subst a b; exact ⟨rfl, d, e, f⟩
  all_goals (simp only [if_true, if_false, Option.some.injEq, Prod.mk.injEq] at h
             obtain ⟨rfl, rfl⟩ := h
             simp only [pastL] at h2 <;> omega)

theorem leave0 {c : Cfg} {sh sh' : Sh} {stk' : List Frame} {ch : Choice} {m : MPc}
    (h : stepMain c sh m ch = some (sh', stk')) (h1 : ¬ past0 m) (h2 : past0 sh'.mpc) :
    m = .compl ∧ sh.compl = 0 ∧ stk' = [] ∧ OnlyMpc sh sh' := by
  fun_cases stepMain c sh m ch
  all_goals (try simp only [stepMain, *] at h)
  all_goals (try (simp [past0] at h1; done))
  all_goals (try (simp at h; done))
  all_goals (simp only [if_true, if_false, Option.some.injEq, Prod.mk.injEq] at h
             obtain ⟨rfl, rfl⟩ := h)
  all_goals (try (simp only [past0] at h2; done))
  all_goals (refine ⟨rfl, by omega, rfl, ?_⟩; simp [OnlyMpc] <;> omega)


theorem SW_zero_of_le {c : Cfg} {st : St} {w v : Frame → Int} (hw : ∀ f, 0 ≤ w f) (hle : ∀ f, w f ≤ v f)
    (hv : SW v c st ≤ 0) : SW w c st = 0 := by
  have h1 := sumT_le w v hle st.thr c.pool
  have h2 := sumT_nonneg w hw st.thr c.pool
  unfold SW at *
  omega

theorem count_zero_not_mem {α : Type} [DecidableEq α] {a : α} {l : List α} (h : (l.count a : Int) = 0) : a ∉ l := by
  intro hm
  have := List.count_pos_iff.mpr hm
  omega

theorem calm_init (c : Cfg) : Calm c (St.init c) := by
  have hz : ∀ w : Frame → Int, SW w c (St.init c) = 0 := by
    intro w
    have : ∀ n, sumT w (fun _ => ([] : List Frame)) n = 0 := by
      intro n
      induction n with
      | zero => simp [sumT]
      | succ n ih => simp [sumT, ih]
    simp [SW, St.init, this]
  refine ⟨hz _, ?_, ?_, ?_⟩
  · intro j i; simp [PsiNe, St.init, Sh.init, notDrain]
  · intro h; simp [St.init, Sh.init, past0] at h
  · intro j _ h; simp [St.init, Sh.init, pastL] at h

theorem sumL_add (a b : Frame → Int) (l : List Frame) :
    sumL (fun f => a f + b f) l = sumL a l + sumL b l := by
  induction l with
  | nil => simp
  | cons f l ih => simp [ih]; omega

theorem sumT_add (a b : Frame → Int) (thr : Nat → List Frame) (n : Nat) :
    sumT (fun f => a f + b f) thr n = sumT a thr n + sumT b thr n := by
  induction n with
  | zero => simp [sumT, sumL_add]
  | succ n ih => simp only [sumT, ih, sumL_add]; omega

theorem wOut_nn (s : Nat) : ∀ f, 0 ≤ wOut s f := by
  intro f
  cases f <;> simp [wOut, hwOut] <;> (repeat' split) <;> omega

theorem wCar_nn (s : Nat) : ∀ f, 0 ≤ wCar s f := by
  intro f
  cases f <;> simp [wCar] <;> (repeat' split) <;> omega

theorem wLvl_zero : wLvl 0 = fun f => wL0 f + wLs 0 f := by
  funext f; simp [wLvl]

theorem wLvl_succ (j : Nat) : wLvl (j + 1) = wLs (j + 1) := by
  funext f; simp [wLvl]

theorem take_mpc {sh sh' : Sh} {k : Task} (h : takeTask sh k = some sh') : sh'.mpc = sh.mpc := by
  rw [takeTask_some] at h; obtain ⟨_, rfl⟩ := h; rfl

/-- in a calm state, a local step that changes the caller's program counter is a step of its own code -/
theorem calm_main_of_mpc {c : Cfg} {sh sh' : Sh} {stk stk' : List Frame}
    (hl : Loc c sh stk sh' stk') (hz : sumL wNe stk = 0) (hne : sh'.mpc ≠ sh.mpc) :
    stk = [] ∧ ∃ ch, stepMain c sh sh.mpc ch = some (sh', stk') := by
  cases hl with
  | top ch h => exact absurd (top_mpc h) hne
  | main ch h => exact ⟨rfl, ch, h⟩
  | esc e k hk => simp [wNe] at hz
  | take k h => exact absurd (take_mpc h) hne

theorem calm_step {c : Cfg} {st st' : St} {t : Nat} {ch : Choice} (hr : Reach c st)
    (hs : step c st t ch = some st') (hT : st'.sh.thrown = 0) (ih : Calm c st) : Calm c st' := by
  obtain ⟨ht, hl, hu⟩ := step_loc hs
  have hT0 : st.sh.thrown = 0 := by have := thrown_mono hl; omega
  have hzne : sumL wNe (st.thr t) = 0 := sumT_zero wNe_nn st.thr c.pool t ht ih.ne0
  have hdt : dtOk c.n st.sh.mpc := dtk_inv c (fun _ _ => trivial) hr
  have hz0 := z0_inv c hr
  have hq : ∀ s r, st.sh.mpc = .dt s r → st.sh.qn s = 0 := by
    intro s r hm
    cases s with
    | zero => exact hz0.2.2.2.1
    | succ j =>
      have hle : j + 1 ≤ c.n := by rw [hm] at hdt; exact hdt
      exact ((ih.lv j hle (by rw [hm]; simp [pastL])).2).1
  -- the exception / cancellation machinery stays untouched
  have hne : ∀ j i, sumL wNe (st'.thr t) = 0 ∧ PsiNe j i st'.sh :=
    fun j i => ne_loc c j i hl hT hzne hq (ih.ne j i)
  have hne0 : SW wNe c st' = 0 := by
    rw [SW_of_step wNe hs, ih.ne0, hzne, (hne 0 0).1]; simp
  have hg : st.sh.guard = 0 := (ih.ne 0 0).1
  have hcn : st.sh.canceled = false := (ih.ne 0 0).2.1
  have hnd : notDrain st.sh.mpc := (ih.ne 0 0).2.2.2.2.2.2.2
  refine ⟨hne0, fun j i => (hne j i).2, ?_, ?_⟩
  · -- level 0: the generator
    intro hp'
    by_cases hp : past0 st.sh.mpc
    · obtain ⟨h0, hgp⟩ := ih.l0 hp
      have hz : sumL wL0 (st.thr t) = 0 := sumT_zero wL0_nn st.thr c.pool t ht h0
      obtain ⟨h1, h2, _⟩ := l0_loc c hl hz ⟨hgp, hp⟩
      refine ⟨?_, h2⟩
      rw [SW_of_step wL0 hs, h0, hz, h1]; simp
    · -- the caller has just seen the completion event at zero
      have hmne : st'.sh.mpc ≠ st.sh.mpc := fun he => hp (he ▸ hp')
      obtain ⟨hstk, ch', hm⟩ := calm_main_of_mpc hl hzne hmne
      obtain ⟨hmc, hc0, hstk', hom⟩ := leave0 hm hp hp'
      have hcpl := cpl_inv c hr
      have hnn := sumT_nonneg wCpl (fun f => by
        cases f <;> simp [wCpl] <;> (repeat' split) <;> omega) st.thr c.pool
      simp only [SW, GCpl, hmc, hc0] at hcpl
      have hcnt : (0 : Int) ≤ (List.count Task.gen st.sh.pool : Int) := by omega
      have hstc : (0 : Int) ≤ (st.sh.stuckC : Int) := by omega
      have h0 : SW wL0 c st = 0 := SW_zero_of_le wL0_nn wL0_le_wCpl (by unfold SW; omega)
      have hpool : st'.sh.pool = st.sh.pool := by rw [hom]
      refine ⟨?_, ?_⟩
      · rw [SW_of_step wL0 hs, h0, hstk, hstk']; simp
      · rw [hpool]; exact count_zero_not_mem (by omega)
  · -- level j+1: stage j+1
    intro j hjn hp'
    by_cases hp : pastL (j + 1) st.sh.mpc
    · obtain ⟨h0, hΨ⟩ := ih.lv j hjn hp
      have hz : sumL (wLs (j + 1)) (st.thr t) = 0 := sumT_zero (wLs_nn _) st.thr c.pool t ht h0
      have hpv : sumL (wLvl j) (st.thr t) = 0 := by
        cases j with
        | zero =>
          rw [wLvl_zero, sumL_add]
          have a := sumT_zero wL0_nn st.thr c.pool t ht (ih.l0 (pastL_past0 hp)).1
          have b := sumT_zero (wLs_nn 0) st.thr c.pool t ht hz0.1
          omega
        | succ j' =>
          rw [wLvl_succ]
          exact sumT_zero (wLs_nn _) st.thr c.pool t ht (ih.lv j' (by omega) (pastL_succ hp)).1
      obtain ⟨h1, hΨ'⟩ := lv_loc c j hl hg hcn hz hpv hΨ
      refine ⟨?_, hΨ'⟩
      rw [SW_of_step _ hs, h0, hz, h1]; simp
    · -- the caller has just seen outstanding_ of stage j+1 at zero
      have hmne : st'.sh.mpc ≠ st.sh.mpc := fun he => hp (he ▸ hp')
      obtain ⟨hstk, ch', hm⟩ := calm_main_of_mpc hl hzne hmne
      obtain ⟨hmc, hout, hstk', hom⟩ := leaveL hm (Nat.succ_pos j) hjn hp hp' hg hnd
      have ho := out_inv c (j + 1) hr
      have hc := car_inv c (j + 1) hr
      have hon := sumT_nonneg (wOut (j + 1)) (wOut_nn _) st.thr c.pool
      have hcn' := sumT_nonneg (wCar (j + 1)) (wCar_nn _) st.thr c.pool
      have hcle := sumT_le (wCar (j + 1)) (fun f => wOut (j + 1) f + wNe f) (wCar_le (j + 1)) st.thr c.pool
      rw [sumT_add] at hcle
      have hne0' := ih.ne0
      have hlk : st.sh.leaked (j + 1) = 0 := (ih.ne (j + 1) 0).2.2.2.1
      simp only [SW, GOut, GCar, hmc, hout, mhOut, mhCar] at ho hc hne0'
      simp at ho hc
      have hq0 : st.sh.qn (j + 1) = 0 := by omega
      have hcq : (List.count (Task.q (j + 1)) st.sh.pool : Int) = 0 := by omega
      have hcu : (List.count (Task.u (j + 1)) st.sh.pool : Int) = 0 := by omega
      have hwo : SW (wOut (j + 1)) c st ≤ 0 := by unfold SW; omega
      have h0 : SW (wLs (j + 1)) c st = 0 := SW_zero_of_le (wLs_nn _) (wLs_le_wOut _) hwo
      have hpl : (st.sh.pend (j + 1)).length = 0 := by omega
      refine ⟨?_, ?_⟩
      · rw [SW_of_step _ hs, h0, hstk, hstk']; simp
      · rw [hom]
        refine ⟨hq0, List.eq_nil_of_length_eq_zero hpl, hout, count_zero_not_mem hcq, count_zero_not_mem hcu, ?_⟩
        exact hp'


/-- **the calm invariant**: in every reachable state in which no stage function has thrown -/
theorem calm {c : Cfg} {st : St} (hr : Reach c st) (hT : st.sh.thrown = 0) : Calm c st := by
  induction hr with
  | init => exact calm_init c
  | @step st st' t ch hr' hs ih =>
    have := thrown_mono (step_loc hs).2.1
    exact calm_step hr' hs hT (ih (by omega))

end Dispenso.Pipe
