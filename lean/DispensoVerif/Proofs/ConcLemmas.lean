import DispensoVerif.Core.Conc
/-
Generic facts about `Conc.exec` (projections of the state updates, inversion of each kind of
action, counting / summing over the thread list), shared by the Future proofs (C18–C20).
The inversion lemmas are the ones of `Proofs/RWLock.lean`, in their own namespace.
Core Lean only.
-/
namespace Dispenso.ConcL
open Dispenso.Conc

/-! ### generic facts about `Conc.exec` -/
section generic
variable {P : Proto}

@[simp] theorem setLoc_loc (s : State P) (t : TId) (l : P.L) (u : TId) :
    (setLoc s t l).loc u = if u = t then l else s.loc u := rfl
@[simp] theorem setLoc_mem (s : State P) (t : TId) (l : P.L) : (setLoc s t l).mem = s.mem := rfl
@[simp] theorem setLoc_parked (s : State P) (t : TId) (l : P.L) :
    (setLoc s t l).parked = s.parked := rfl
@[simp] theorem setLoc_threads (s : State P) (t : TId) (l : P.L) :
    (setLoc s t l).threads = s.threads := rfl
@[simp] theorem setMem_loc (s : State P) (f : Fld) (v : Int) : (setMem s f v).loc = s.loc := rfl
@[simp] theorem setMem_mem (s : State P) (f : Fld) (v : Int) (g : Fld) :
    (setMem s f v).mem g = if g = f then v else s.mem g := rfl
@[simp] theorem setMem_parked (s : State P) (f : Fld) (v : Int) :
    (setMem s f v).parked = s.parked := rfl
@[simp] theorem setMem_threads (s : State P) (f : Fld) (v : Int) :
    (setMem s f v).threads = s.threads := rfl
@[simp] theorem setParked_loc (s : State P) (t : TId) (p : Option (Fld × Bool)) :
    (setParked s t p).loc = s.loc := rfl
@[simp] theorem setParked_mem (s : State P) (t : TId) (p : Option (Fld × Bool)) :
    (setParked s t p).mem = s.mem := rfl
@[simp] theorem setParked_parked (s : State P) (t : TId) (p : Option (Fld × Bool)) (u : TId) :
    (setParked s t p).parked u = if u = t then p else s.parked u := rfl
@[simp] theorem setParked_threads (s : State P) (t : TId) (p : Option (Fld × Bool)) :
    (setParked s t p).threads = s.threads := rfl

@[simp] theorem unparkAll_mem (s : State P) (ws : List TId) : (unparkAll s ws).mem = s.mem := by
  induction ws generalizing s with
  | nil => rfl
  | cons w ws ih => simp [unparkAll, ih]

@[simp] theorem unparkAll_threads (s : State P) (ws : List TId) :
    (unparkAll s ws).threads = s.threads := by
  induction ws generalizing s with
  | nil => rfl
  | cons w ws ih => simp [unparkAll, ih]

theorem unparkAll_parked (s : State P) (ws : List TId) (u : TId) :
    (unparkAll s ws).parked u = if u ∈ ws then none else s.parked u := by
  induction ws generalizing s with
  | nil => simp [unparkAll]
  | cons w ws ih =>
    simp only [unparkAll, ih, setLoc_parked, setParked_parked, List.mem_cons]
    by_cases h1 : u ∈ ws <;> by_cases h2 : u = w <;> simp [h1, h2]

theorem unparkAll_loc (s : State P) (ws : List TId) (hnd : ws.Nodup) (u : TId) :
    (unparkAll s ws).loc u = if u ∈ ws then P.cont (s.loc u) rWoken else s.loc u := by
  induction ws generalizing s with
  | nil => simp [unparkAll]
  | cons w ws ih =>
    have hw : w ∉ ws := (List.nodup_cons.mp hnd).1
    simp only [unparkAll, ih _ (List.nodup_cons.mp hnd).2, setLoc_loc, setParked_loc,
      List.mem_cons]
    by_cases h1 : u ∈ ws <;> by_cases h2 : u = w
    · subst h2; exact absurd h1 hw
    · simp [h1, h2]
    · subst h2; simp [h1]
    · simp [h1, h2]

theorem mem_parkedOn (s : State P) (f : Fld) (u : TId) :
    u ∈ parkedOn s f ↔ u ∈ s.threads ∧ ∃ b, s.parked u = some (f, b) := by
  unfold parkedOn
  rw [List.mem_filter]
  constructor
  · rintro ⟨h1, h2⟩
    refine ⟨h1, ?_⟩
    split at h2
    · rename_i g b hp
      have : g = f := by simpa using h2
      subst this; exact ⟨b, hp⟩
    · simp at h2
  · rintro ⟨h1, b, hb⟩
    refine ⟨h1, ?_⟩
    simp [hb]

/-- inversion of a `step` -/
theorem exec_step_inv {s s' : State P} {t : TId} (h : exec s (.step t) = some s') :
    s.parked t = none ∧ ∃ o, P.op (s.loc t) = some o ∧
      ((∃ f e b, o = .fwait f e b ∧
          ((s.mem f = e ∧ s' = setParked s t (some (f, b))) ∨
           (s.mem f ≠ e ∧ s' = setLoc s t (P.cont (s.loc t) rAgain)))) ∨
       (∃ r, memEffect s.mem o = some (r, none) ∧ s' = setLoc s t (P.cont (s.loc t) r)) ∨
       (∃ r f v, memEffect s.mem o = some (r, some (f, v)) ∧
          s' = setLoc (setMem s f v) t (P.cont (s.loc t) r))) := by
  simp only [exec] at h
  split at h
  · contradiction
  · rename_i hp
    refine ⟨by simpa using hp, ?_⟩
    split at h
    · contradiction
    · contradiction
    · rename_i f e b ho
      refine ⟨_, ho, Or.inl ⟨f, e, b, rfl, ?_⟩⟩
      split at h <;> (injection h with h; subst h)
      · exact Or.inl ⟨by assumption, rfl⟩
      · exact Or.inr ⟨by assumption, rfl⟩
    · rename_i o _ _ ho
      refine ⟨o, ho, Or.inr ?_⟩
      split at h
      · contradiction
      · rename_i r hm
        injection h with h; subst h
        exact Or.inl ⟨r, hm, rfl⟩
      · rename_i r f v hm
        injection h with h; subst h
        exact Or.inr ⟨r, f, v, hm, rfl⟩

/-- inversion of a `wake` -/
theorem exec_wake_inv {s s' : State P} {t : TId} {ws : List TId}
    (h : exec s (.wake t ws) = some s') :
    s.parked t = none ∧ ∃ f n, P.op (s.loc t) = some (.fwake f n) ∧ ws.Nodup ∧
      (∀ u ∈ ws, u ∈ parkedOn s f) ∧ (ws.length < n → ∀ u ∈ parkedOn s f, u ∈ ws) ∧ t ∉ ws ∧
      s' = setLoc (unparkAll s ws) t (P.cont (s.loc t) ws.length) := by
  simp only [exec] at h
  split at h
  · contradiction
  · rename_i hp
    have hp : s.parked t = none := by simpa using hp
    refine ⟨hp, ?_⟩
    split at h
    · rename_i f n ho
      split at h
      · rename_i hc
        obtain ⟨hnd, hsub, _, hall⟩ := hc
        injection h with h
        have htw : t ∉ ws := by
          intro htw
          have := ((mem_parkedOn s f t).mp (hsub t htw)).2
          rw [hp] at this
          simp at this
        refine ⟨f, n, ho, hnd, hsub, hall, htw, ?_⟩
        rw [← h, unparkAll_loc s ws hnd t, if_neg htw]
      · contradiction
    · contradiction

theorem exec_unpark_inv {s s' : State P} {t : TId}
    (h : exec s (.timeout t) = some s' ∨ exec s (.spurious t) = some s') :
    ∃ p r, s.parked t = some p ∧ s' = setLoc (setParked s t none) t (P.cont (s.loc t) r) := by
  rcases h with h | h
  · simp only [exec] at h
    split at h
    · rename_i f hp
      injection h with h
      exact ⟨_, _, hp, h.symm⟩
    · contradiction
  · simp only [exec] at h
    split at h
    · rename_i p hp
      injection h with h
      exact ⟨_, _, hp, h.symm⟩
    · contradiction

theorem exec_call_inv {s s' : State P} {t : TId} {l : P.L}
    (h : exec s (.call t l) = some s') :
    s.parked t = none ∧ P.op (s.loc t) = none ∧ P.entry (s.loc t) l = true ∧
      s'.mem = s.mem ∧ s'.parked = s.parked ∧ (∀ u, s'.loc u = if u = t then l else s.loc u) ∧
      s'.threads = if t ∈ s.threads then s.threads else t :: s.threads := by
  simp only [exec] at h
  split at h
  · rename_i hc
    obtain ⟨h1, h2, h3⟩ := hc
    injection h with h
    subst h
    exact ⟨h1, h2, h3, rfl, rfl, fun u => rfl, rfl⟩
  · contradiction

theorem exec_threads_length {s s' : State P} {a : Act P} (h : exec s a = some s') :
    s.threads.length ≤ s'.threads.length := by
  cases a with
  | step t =>
    obtain ⟨_, o, _, h⟩ := exec_step_inv h
    rcases h with ⟨_, _, _, _, ⟨_, rfl⟩ | ⟨_, rfl⟩⟩ | ⟨_, _, rfl⟩ | ⟨_, _, _, _, rfl⟩ <;> simp
  | wake t ws =>
    obtain ⟨_, _, _, _, _, _, _, _, rfl⟩ := exec_wake_inv h; simp
  | timeout t => obtain ⟨_, _, _, rfl⟩ := exec_unpark_inv (Or.inl h); simp
  | spurious t => obtain ⟨_, _, _, rfl⟩ := exec_unpark_inv (Or.inr h); simp
  | call t l =>
    have := (exec_call_inv h).2.2.2.2.2.2
    rw [this]; split <;> simp

/-! counting -/
theorem countP_update {ths : List TId} (hnd : ths.Nodup) {t : TId} (ht : t ∈ ths)
    (f g : TId → Bool) (h : ∀ u, u ≠ t → g u = f u) :
    ths.countP g + (f t).toNat = ths.countP f + (g t).toNat := by
  induction ths with
  | nil => cases ht
  | cons a as ih =>
    obtain ⟨ha, hnd'⟩ := List.nodup_cons.mp hnd
    simp only [List.countP_cons]
    by_cases hat : a = t
    · subst hat
      have : as.countP g = as.countP f := by
        apply List.countP_congr
        intro u hu
        have : u ≠ a := fun h => ha (h ▸ hu)
        rw [h u this]
      rw [this]
      cases f a <;> cases g a <;> simp <;> omega
    · have ht' : t ∈ as := by
        rcases List.mem_cons.mp ht with h | h
        · exact absurd h.symm hat
        · exact h
      have := ih hnd' ht'
      rw [h a hat]
      omega


/-- summing a per-thread weight: changing the value at one thread -/
theorem sum_update {ths : List TId} (hnd : ths.Nodup) {t : TId} (ht : t ∈ ths)
    (f g : TId → Nat) (h : ∀ u, u ≠ t → g u = f u) :
    (ths.map g).sum + f t = (ths.map f).sum + g t := by
  induction ths with
  | nil => cases ht
  | cons a as ih =>
    obtain ⟨ha, hnd'⟩ := List.nodup_cons.mp hnd
    simp only [List.map_cons, List.sum_cons]
    by_cases hat : a = t
    · subst hat
      have : as.map g = as.map f := by
        apply List.map_congr_left
        intro u hu
        have : u ≠ a := fun h => ha (h ▸ hu)
        exact h u this
      rw [this]
      omega
    · have ht' : t ∈ as := by
        rcases List.mem_cons.mp ht with h | h
        · exact absurd h.symm hat
        · exact h
      have := ih hnd' ht'
      rw [h a hat]
      omega

theorem le_sum {ths : List TId} {t : TId} (ht : t ∈ ths) (f : TId → Nat) :
    f t ≤ (ths.map f).sum := by
  induction ths with
  | nil => cases ht
  | cons a as ih =>
    simp only [List.map_cons, List.sum_cons]
    rcases List.mem_cons.mp ht with h | h
    · subst h; omega
    · have := ih h; omega

theorem sum_congr {ths : List TId} (f g : TId → Nat) (h : ∀ u ∈ ths, g u = f u) :
    (ths.map g).sum = (ths.map f).sum := by
  rw [List.map_congr_left h]

/-! ### one non-parking step as (result value, new memory) -/

/-- update of one memory cell -/
def upd (m : Fld → Int) (f : Fld) (v : Int) : Fld → Int := fun g => if g = f then v else m g

@[simp] theorem upd_same (m : Fld → Int) (f : Fld) (v : Int) : upd m f v f = v := by simp [upd]
theorem upd_other (m : Fld → Int) (f g : Fld) (v : Int) (h : g ≠ f) : upd m f v g = m g := by
  simp [upd, h]

/-- result value and new memory of an operation that does not park -/
def effRes (m : Fld → Int) : AOp → Option (Int × (Fld → Int))
  | .load f => some (m f, m)
  | .store f v => some (0, upd m f v)
  | .xchg f v => some (m f, upd m f v)
  | .fadd f v => some (m f, upd m f (m f + v))
  | .fsub f v => some (m f, upd m f (m f - v))
  | .for_ f v => some (m f, upd m f (bor (m f) v))
  | .fand f v => some (m f, upd m f (band (m f) v))
  | .cas f e d => some (m f, if m f = e then upd m f d else m)
  | .fence | .yield | .silent => some (0, m)
  | .fwait f e _ => if m f = e then none else some (rAgain, m)
  | .fwake _ _ => none

/-- a `step` either parks the thread or moves it by `cont` with the result / memory of `effRes` -/
theorem exec_step_eff {s s' : State P} {t : TId} (h : exec s (.step t) = some s') :
    s.parked t = none ∧
    ((∃ f cur b, P.op (s.loc t) = some (.fwait f cur b) ∧ s.mem f = cur ∧
        s' = setParked s t (some (f, b))) ∨
     (∃ r m', (P.op (s.loc t)).bind (effRes s.mem) = some (r, m') ∧
        s' = setLoc { s with mem := m' } t (P.cont (s.loc t) r))) := by
  obtain ⟨hp, o, ho, hc⟩ := exec_step_inv h
  refine ⟨hp, ?_⟩
  rcases hc with ⟨f, e', b, rfl, ⟨hm, rfl⟩ | ⟨hm, rfl⟩⟩ | ⟨r, hm, rfl⟩ | ⟨r, f, v, hm, rfl⟩
  · left
    exact ⟨f, e', b, ho, hm, rfl⟩
  · right
    refine ⟨rAgain, s.mem, ?_, rfl⟩
    simp [ho, effRes, hm]
  · right
    refine ⟨r, s.mem, ?_, rfl⟩
    simp only [ho, Option.bind_some]
    cases o <;> simp [memEffect] at hm <;>
      first | (simp [effRes, hm]; done) | (obtain ⟨rfl, h2⟩ := hm; simp [effRes, h2])
  · right
    refine ⟨r, upd s.mem f v, ?_, rfl⟩
    simp only [ho, Option.bind_some]
    cases o <;> simp [memEffect] at hm <;>
      first | (obtain ⟨rfl, rfl, rfl⟩ := hm; simp [effRes]; done) |
        (obtain ⟨rfl, h2, rfl, rfl⟩ := hm; simp [effRes, h2])

end generic

end Dispenso.ConcL
