import DispensoVerif.Model.Future
import DispensoVerif.Proofs.ConcLemmas
/-
Proofs for C18 (Future shared state), layer R: reference counting and deallocation.

`InvR` is an inductive invariant of `futProto cfg` over the generic interleaving semantics
(any number of threads, any schedule, spurious wake-ups, time-outs):
`refCount_` = [closure not yet invoked] + Σ_threads (handles owned + references in flight), a thread
inside any call on the shared state accounts for at least one reference, `dealloc()` is entered
only by the thread whose decrement took the count to zero, at most once.
Core Lean only.
-/
namespace Dispenso.Future
open Dispenso.Conc Dispenso.ConcL

/-- a protocol with the Future's `op`/`cont` and an arbitrary client contract -/
abbrev mkP (cfg : Cfg) (e : L → L → Bool) : Proto := { L := L, op := op cfg, cont := cont cfg, entry := e }

theorem futProto_eq (cfg : Cfg) : futProto cfg = mkP cfg (futEntry cfg) := rfl
theorem evtProto_eq : evtProto = mkP evtCfg evtEntry := rfl

/-! ### one step of a thread, as (result value, new memory) -/

/-- update of one memory cell -/
def upd (m : Fld → Int) (f : Fld) (v : Int) : Fld → Int := fun g => if g = f then v else m g

@[simp] theorem upd_same (m : Fld → Int) (f : Fld) (v : Int) : upd m f v f = v := by simp [upd]
@[simp] theorem upd_other (m : Fld → Int) (f g : Fld) (v : Int) (h : g ≠ f) : upd m f v g = m g := by
  simp [upd, h]

/-- result value and new memory of an operation that does not park -/
def effRes (m : Fld → Int) : AOp → Option (Int × (Fld → Int))
  | .load f => some (m f, m)
  | .store f v => some (0, upd m f v)
  | .xchg f v => some (m f, upd m f v)
  | .fadd f v => some (m f, upd m f (m f + v))
  | .fsub f v => some (m f, upd m f (m f - v))
  | .for_ f v => some (m f, upd m f (bor (m f) v))
  | .fand f v => some (m f, upd m f (band (m f) v))
  | .cas f e d => some (m f, if m f = e then upd m f d else m)
  | .fence | .yield | .silent => some (0, m)
  | .fwait f e _ => if m f = e then none else some (rAgain, m)
  | .fwake _ _ => none

def stepRes (cfg : Cfg) (m : Fld → Int) (pc : PC) : Option (Int × (Fld → Int)) :=
  (opPC cfg pc).bind (effRes m)

def StepM (cfg : Cfg) (m : Fld → Int) (pc : PC) (r : Int) (m' : Fld → Int) : Prop :=
  stepRes cfg m pc = some (r, m')

theorem exec_step {cfg e} {s s' : State (mkP cfg e)} {t : TId} (h : exec s (.step t) = some s') :
    s.parked t = none ∧
    ((∃ cur b, opPC cfg (s.loc t).pc = some (.fwait 0 cur b) ∧ s.mem 0 = cur ∧
        s' = setParked s t (some (0, b))) ∨
     (∃ r m', StepM cfg s.mem (s.loc t).pc r m' ∧
        s' = setLoc { s with mem := m' } t (cont cfg (s.loc t) r))) := by
  obtain ⟨hp, o, ho, hc⟩ := exec_step_inv h
  refine ⟨hp, ?_⟩
  have ho' : opPC cfg (s.loc t).pc = some o := ho
  rcases hc with ⟨f, e', b, rfl, ⟨hm, rfl⟩ | ⟨hm, rfl⟩⟩ | ⟨r, hm, rfl⟩ | ⟨r, f, v, hm, rfl⟩
  · left
    have hf : f = 0 := by
      generalize (s.loc t).pc = pc at ho'
      cases pc <;> simp [opPC] at ho' <;> simp [ho']
    subst hf
    exact ⟨e', b, ho', hm, rfl⟩
  · right
    refine ⟨rAgain, s.mem, ?_, rfl⟩
    simp [StepM, stepRes, ho', effRes, hm]
  · right
    refine ⟨r, s.mem, ?_, rfl⟩
    simp only [StepM, stepRes, ho', Option.bind_some]
    cases o <;> simp [memEffect] at hm <;>
      first | (simp [effRes, hm]; done) | (obtain ⟨rfl, h2⟩ := hm; simp [effRes, h2])
  · right
    refine ⟨r, upd s.mem f v, ?_, rfl⟩
    simp only [StepM, stepRes, ho', Option.bind_some]
    cases o <;> simp [memEffect] at hm <;>
      first | (obtain ⟨rfl, rfl, rfl⟩ := hm; simp [effRes]; done) |
        (obtain ⟨rfl, h2, rfl, rfl⟩ := hm; simp [effRes, h2])

/-! ### layer R: reference counting -/

/-- references a thread holds besides its handles: the closure's reference from taking the token
until `decRefCountMaybeDestroy`, the reference of a handle being destroyed -/
def kw : K → Nat
  | .closure => 1
  | _ => 0

def pcw : PC → Nat
  | .rnCas k | .fnInc k | .fnStore k | .fnThrow k | .ntStore k | .ntWake k | .tsSub k => kw k
  | .wcLoad k _ | .evLoad k | .evWait k _ => kw k
  | .rcSub => 1
  | _ => 0

def w (l : L) : Nat := l.h + pcw l.pc

def kNeeds : K → Bool
  | .closure => false
  | _ => true

/-- control states of calls made through a handle -/
def needsHandle : PC → Bool
  | .rnCas k | .fnInc k | .fnStore k | .fnThrow k | .ntStore k | .ntWake k | .tsSub k => kNeeds k
  | .wcLoad k _ | .evLoad k | .evWait k _ => kNeeds k
  | .tfClock _ _ | .wuLoad _ | .wuClock _ | .wfLoad0 _ _ | .wfLoad _ _ | .wfWait _ _ _ => true
  | .gtExc | .gtLoad | .cpAdd | .irLoad => true
  | _ => false

def inDealloc : PC → Bool
  | .dtExc | .dtStore | .dtFree => true
  | _ => false

/-- control states whose pending operation accesses the shared state object -/
def touches : PC → Bool
  | .idle | .done _ | .tdone _ _ | .wdone | .gdone _ | .bad | .rnTake | .twLoad | .twLoad2 | .tick _ => false
  | _ => true

theorem kNeeds_fin {k : K} (h : needsHandle (fin k) = true) : kNeeds k = true := by
  cases k <;> simp_all [fin, needsHandle, kNeeds]
theorem kNeeds_slow {k : K} (h : needsHandle (slow k) = true) : kNeeds k = true := by
  cases k <;> simp_all [slow, needsHandle, kNeeds]
theorem pcw_fin (k : K) : pcw (fin k) = kw k := by cases k <;> rfl
theorem pcw_slow (k : K) : pcw (slow k) = kw k := by cases k <;> rfl
theorem inDealloc_fin (k : K) : inDealloc (fin k) = false := by cases k <;> rfl
theorem inDealloc_slow (k : K) : inDealloc (slow k) = false := by cases k <;> rfl

/-- what one (non-parking) step of a thread does to the reference count (field 1), the closure
token (5), the dealloc counter (7) and the thread's own weight -/
structure RFacts (m : Fld → Int) (l : L) (m' : Fld → Int) (l' : L) : Prop where
  bal : m' 1 - m' 5 - (w l' : Int) = m 1 - m 5 - (w l : Int)
  cl : (m 5 = 0 ∨ m 5 = 1) → (m' 5 = 0 ∨ m' 5 = 1)
  hh : needsHandle l'.pc = true → (needsHandle l.pc = true ∧ l.h ≤ l'.h) ∨ 1 ≤ l'.h
  ref : m' 1 = m 1 ∨ (l.pc = .cpAdd ∧ m' 1 = m 1 + 1) ∨ (l.pc = .rcSub ∧ m' 1 = m 1 - 1)
  enter : inDealloc l.pc = false → m' 7 = m 7 ∧
    (inDealloc l'.pc = true → l.pc = .rcSub ∧ m 1 = 1 ∧ m' 1 = 0)
  inside : inDealloc l.pc = true → m' 1 = m 1 ∧
    ((inDealloc l'.pc = true ∧ m' 7 = m 7) ∨ (inDealloc l'.pc = false ∧ m' 7 = 1))

set_option hygiene false in
/-- normalise `h : StepM cfg m pc r m'` for a concrete `pc`: substitutes `r` and `m'`, splitting a CAS
into its success / failure case and discarding the parking case of a futex wait -/
macro "step_norm" : tactic => `(tactic| (
  simp only [StepM, stepRes, opPC, effRes, Option.bind_some, Option.bind_none, reduceCtorEq] at h
  try split at h
  all_goals (try simp only [Option.some.injEq, Prod.mk.injEq, reduceCtorEq] at h)
  all_goals (try obtain ⟨rfl, rfl⟩ := h)
  all_goals (try contradiction)))

set_option hygiene false in
macro "rf_tac" : tactic => `(tactic| (
  step_norm
  all_goals
    constructor <;> (try simp only [cont, contPC, fin, slow]) <;> (try (repeat' split)) <;>
      (try simp [w, pcw, kw, needsHandle, kNeeds, inDealloc, upd, *]) <;> (try omega)))

theorem rfacts {cfg : Cfg} {m m' : Fld → Int} {l : L} {r : Int}
    (h : StepM cfg m l.pc r m') : RFacts m l m' (cont cfg l r) := by
  obtain ⟨hh, pc⟩ := l
  cases pc
  case rnCas k => cases k <;> rf_tac
  case fnInc k => cases k <;> rf_tac
  case fnStore k => cases k <;> rf_tac
  case fnThrow k => cases k <;> rf_tac
  case ntStore k => cases k <;> rf_tac
  case ntWake k => cases k <;> rf_tac
  case tsSub k => cases k <;> rf_tac
  case wcLoad k a => cases k <;> rf_tac
  case evLoad k => cases k <;> rf_tac
  case evWait k c => cases k <;> rf_tac
  all_goals rf_tac

theorem RFacts.refl (m : Fld → Int) (l : L) : RFacts m l m l :=
  ⟨rfl, id, fun h => Or.inl ⟨h, Nat.le_refl _⟩, Or.inl rfl,
    fun h => ⟨rfl, fun h' => by rw [h] at h'; cases h'⟩, fun h => ⟨rfl, Or.inl ⟨h, rfl⟩⟩⟩

/-- a step outside `dealloc()` that leaves the memory alone keeps the weight and stays outside -/
theorem RFacts.same {m : Fld → Int} {l l' : L} (F : RFacts m l m l') (h : inDealloc l.pc = false) :
    w l' = w l ∧ inDealloc l'.pc = false := by
  refine ⟨by have := F.bal; omega, ?_⟩
  cases h' : inDealloc l'.pc
  · rfl
  · have := ((F.enter h).2 h').2; omega

/-- waking up from a futex wait (woken, spurious, timed out): the thread re-reads the status -/
theorem rfacts_unpark {cfg : Cfg} {l : L} {cur : Int} {b : Bool} (m : Fld → Int)
    (ho : opPC cfg l.pc = some (.fwait 0 cur b)) (r : Int) : RFacts m l m (cont cfg l r) := by
  obtain ⟨hh, pc⟩ := l
  cases pc <;> simp only [opPC, reduceCtorEq, Option.some.injEq] at ho
  case evWait k c =>
    cases k <;> constructor <;> simp [cont, contPC, w, pcw, kw, needsHandle, kNeeds, inDealloc]
  case wfWait rel lb c =>
    constructor <;> (try simp only [cont, contPC]) <;> (try split) <;>
      simp [w, pcw, kw, needsHandle, kNeeds, inDealloc]

/-- the wake-all of `notify` -/
theorem rfacts_wake {cfg : Cfg} {l : L} {f : Fld} {n : Nat} (m : Fld → Int)
    (ho : opPC cfg l.pc = some (.fwake f n)) (r : Int) : RFacts m l m (cont cfg l r) := by
  obtain ⟨hh, pc⟩ := l
  cases pc <;> simp only [opPC, reduceCtorEq, Option.some.injEq] at ho
  case ntWake k =>
    cases k <;> constructor <;> (try simp only [cont, contPC, fin]) <;> (try split) <;>
      simp [w, pcw, kw, needsHandle, kNeeds, inDealloc]

/-- starting a call allowed by the Future's client contract -/
theorem rfacts_call {cfg : Cfg} {l l' : L} (m : Fld → Int) (h : futEntry cfg l l' = true) :
    RFacts m l m l' := by
  obtain ⟨h0, pc⟩ := l
  obtain ⟨h1, pc'⟩ := l'
  simp only [futEntry, Bool.and_eq_true, Bool.or_eq_true, decide_eq_true_eq] at h
  obtain ⟨hi, hc⟩ := h
  have hw0 : pcw pc = 0 ∧ inDealloc pc = false := by cases pc <;> simp_all [idleOrDone, pcw, inDealloc]
  rcases hc with (⟨rfl, hf⟩ | ⟨⟨rfl, h1'⟩, hf⟩) | ⟨hd, rfl⟩
  · have : pcw pc' = 0 ∧ needsHandle pc' = false ∧ inDealloc pc' = false := by
      cases pc' <;> simp_all [freeEntry, pcw, needsHandle, inDealloc]
    constructor <;> simp_all [w]
  · have : pcw pc' = 0 ∧ inDealloc pc' = false := by
      cases pc' <;> simp_all [handleEntry, pcw, inDealloc]
      rename_i k a
      cases k <;> simp_all [handleEntry, kw]
    constructor <;> simp_all [w]
  · constructor <;> simp_all [w, pcw, needsHandle, inDealloc] <;> omega

def wsum {cfg e} (s : State (mkP cfg e)) : Nat := (s.threads.map fun t => w (s.loc t)).sum

structure InvR {cfg e} (s : State (mkP cfg e)) : Prop where
  out : ∀ t, t ∉ s.threads → s.loc t = ⟨0, .idle⟩ ∧ s.parked t = none
  nd : s.threads.Nodup
  pk : ∀ u f b, s.parked u = some (f, b) →
    f = 0 ∧ ∃ cur, opPC cfg (s.loc u).pc = some (.fwait 0 cur b)
  hh : ∀ t, needsHandle (s.loc t).pc = true → 1 ≤ (s.loc t).h
  cl : s.mem 5 = 0 ∨ s.mem 5 = 1
  sum : s.mem 1 = s.mem 5 + (wsum s : Int)
  dz : ∀ t, inDealloc (s.loc t).pc = true → s.mem 1 = 0 ∧ s.mem 7 = 0
  du : ∀ t u, inDealloc (s.loc t).pc = true → inDealloc (s.loc u).pc = true → t = u
  fr : s.mem 7 = 0 ∨ (s.mem 7 = 1 ∧ s.mem 1 = 0 ∧ ∀ t, inDealloc (s.loc t).pc = false)

theorem InvR.inThreads {cfg e} {s : State (mkP cfg e)} (I : InvR s) {t : TId}
    (h : s.loc t ≠ ⟨0, .idle⟩) : t ∈ s.threads := by
  apply Classical.byContradiction
  intro hn
  exact h (I.out t hn).1

/-- a thread accounts for at most the whole count -/
theorem InvR.w_le {cfg e} {s : State (mkP cfg e)} (I : InvR s) {t : TId} (ht : t ∈ s.threads) :
    (w (s.loc t) : Int) ≤ s.mem 1 := by
  have h1 : w (s.loc t) ≤ wsum s := le_sum ht (fun u => w (s.loc u))
  have h2 := I.sum
  have h3 := I.cl
  omega

/-- frame lemma: the unparked thread `t` makes a step described by `RFacts` -/
theorem invR_move {cfg e} {s : State (mkP cfg e)} {t : TId} (I : InvR s) (ht : t ∈ s.threads)
    (hp : s.parked t = none) {m' : Fld → Int} {l' : L} (F : RFacts s.mem (s.loc t) m' l') :
    InvR (setLoc { s with mem := m' } t l') := by
  have hsum : wsum (setLoc { s with mem := m' } t l') + w (s.loc t) = wsum s + w l' := by
    have := sum_update I.nd ht (fun u => w (s.loc u)) (fun u => w (if u = t then l' else s.loc u))
      (fun u hu => by simp [hu])
    simpa [wsum] using this
  have hwle := I.w_le ht
  have hm1 : (s.loc t).pc = .cpAdd ∨ (s.loc t).pc = .rcSub → 1 ≤ s.mem 1 := by
    intro h
    have : 1 ≤ w (s.loc t) := by
      rcases h with h | h
      · have := I.hh t (by rw [h]; rfl)
        unfold w; omega
      · unfold w; rw [h]; simp [pcw]
    omega
  -- who is inside dealloc() afterwards
  have hothers : ∀ u, u ≠ t → (setLoc { s with mem := m' } t l').loc u = s.loc u := by
    intro u hu; simp [hu]
  have hself : (setLoc { s with mem := m' } t l').loc t = l' := by simp
  refine ⟨fun u hu => ?_, I.nd, fun u f b hu => ?_, fun u hu => ?_, F.cl I.cl, ?_, ?_, ?_, ?_⟩
  · have hut : u ≠ t := fun h => hu (h ▸ ht)
    simpa [hut] using I.out u hu
  · have hut : u ≠ t := fun h => by
      subst h
      simp only [setLoc_parked] at hu
      rw [hp] at hu; cases hu
    simpa [hut] using I.pk u f b hu
  · by_cases hut : u = t
    · subst hut
      rw [hself] at hu ⊢
      rcases F.hh hu with ⟨h1, h2⟩ | h1
      · have := I.hh u h1; omega
      · exact h1
    · rw [hothers u hut] at hu ⊢
      exact I.hh u hu
  · have h1 := F.bal
    have h2 := I.sum
    show m' 1 = m' 5 + (wsum (setLoc { s with mem := m' } t l') : Int)
    omega
  · -- dz
    intro u hu
    show m' 1 = 0 ∧ m' 7 = 0
    cases hd : inDealloc (s.loc t).pc
    · obtain ⟨h7, hent⟩ := F.enter hd
      by_cases hut : u = t
      · subst hut
        rw [hself] at hu
        obtain ⟨_, h11, h10⟩ := hent hu
        refine ⟨h10, ?_⟩
        rcases I.fr with h | ⟨_, h, _⟩
        · omega
        · omega
      · rw [hothers u hut] at hu
        obtain ⟨hz1, hz7⟩ := I.dz u hu
        refine ⟨?_, by omega⟩
        rcases F.ref with h | ⟨h, _⟩ | ⟨h, _⟩
        · omega
        · have := hm1 (Or.inl h); omega
        · have := hm1 (Or.inr h); omega
    · obtain ⟨hz1, hz7⟩ := I.dz t hd
      obtain ⟨h1, hin⟩ := F.inside hd
      by_cases hut : u = t
      · subst hut
        rw [hself] at hu
        rcases hin with ⟨_, h⟩ | ⟨h, _⟩
        · omega
        · rw [h] at hu; cases hu
      · rw [hothers u hut] at hu
        exact absurd (I.du u t hu hd) hut
  · -- du
    intro u v hu hv
    cases hd : inDealloc (s.loc t).pc
    · obtain ⟨h7, hent⟩ := F.enter hd
      have key : ∀ x, inDealloc ((setLoc { s with mem := m' } t l').loc x).pc = true → x ≠ t →
          inDealloc l'.pc = false := by
        intro x hx hxt
        rw [hothers x hxt] at hx
        have hz := (I.dz x hx).1
        cases hl : inDealloc l'.pc
        · rfl
        · have := (hent hl).2.1; omega
      by_cases hut : u = t <;> by_cases hvt : v = t
      · rw [hut, hvt]
      · subst hut; rw [hself] at hu; rw [key v hv hvt] at hu; cases hu
      · subst hvt; rw [hself] at hv; rw [key u hu hut] at hv; cases hv
      · rw [hothers u hut] at hu; rw [hothers v hvt] at hv; exact I.du u v hu hv
    · have key : ∀ x, inDealloc ((setLoc { s with mem := m' } t l').loc x).pc = true → x = t := by
        intro x hx
        apply Classical.byContradiction
        intro hxt
        rw [hothers x hxt] at hx
        exact hxt (I.du x t hx hd)
      rw [key u hu, key v hv]
  · -- fr
    show m' 7 = 0 ∨ (m' 7 = 1 ∧ m' 1 = 0 ∧ ∀ u, inDealloc ((setLoc { s with mem := m' } t l').loc u).pc = false)
    cases hd : inDealloc (s.loc t).pc
    · obtain ⟨h7, hent⟩ := F.enter hd
      rcases I.fr with h | ⟨h7', h1', hno⟩
      · left; omega
      · right
        have hm1' : m' 1 = 0 := by
          rcases F.ref with h | ⟨h, _⟩ | ⟨h, _⟩
          · omega
          · have := hm1 (Or.inl h); omega
          · have := hm1 (Or.inr h); omega
        refine ⟨by omega, hm1', fun u => ?_⟩
        by_cases hut : u = t
        · subst hut
          rw [hself]
          cases hl : inDealloc l'.pc
          · rfl
          · have := (hent hl).2.1; omega
        · rw [hothers u hut]; exact hno u
    · obtain ⟨hz1, hz7⟩ := I.dz t hd
      obtain ⟨h1, hin⟩ := F.inside hd
      rcases hin with ⟨_, h⟩ | ⟨hl, h⟩
      · left; omega
      · right
        refine ⟨by omega, by omega, fun u => ?_⟩
        by_cases hut : u = t
        · subst hut; rw [hself]; exact hl
        · rw [hothers u hut]
          cases hx : inDealloc (s.loc u).pc
          · rfl
          · exact absurd (I.du u t hx hd) hut

/-- frame lemma: memory unchanged, any number of threads move without changing their weight or
their dealloc phase, possibly one new thread (with nothing) joins the thread list -/
theorem invR_relabel {cfg e} {s s' : State (mkP cfg e)} (I : InvR s) (hm : s'.mem = s.mem)
    (hth : s'.threads = s.threads ∨ ∃ t, t ∉ s.threads ∧ s'.threads = t :: s.threads)
    (hloc : ∀ u, s'.loc u = s.loc u ∨
      (RFacts s.mem (s.loc u) s.mem (s'.loc u) ∧ inDealloc (s.loc u).pc = false))
    (hout : ∀ u, u ∉ s'.threads → s'.loc u = s.loc u ∧ s'.parked u = none)
    (hpk : ∀ u f b, s'.parked u = some (f, b) → s.parked u = some (f, b) ∧ s'.loc u = s.loc u) :
    InvR s' := by
  have hw : ∀ u, w (s'.loc u) = w (s.loc u) := fun u => by
    rcases hloc u with h | ⟨F, h⟩
    · rw [h]
    · exact (F.same h).1
  have hdl : ∀ u, inDealloc (s'.loc u).pc = inDealloc (s.loc u).pc := fun u => by
    rcases hloc u with h | ⟨F, h⟩
    · rw [h]
    · rw [(F.same h).2, h]
  have hsub : ∀ u, u ∈ s.threads → u ∈ s'.threads := by
    intro u hu
    rcases hth with h | ⟨t, _, h⟩ <;> rw [h]
    · exact hu
    · exact List.mem_cons_of_mem _ hu
  have hsum : wsum s' = wsum s := by
    unfold wsum
    rcases hth with h | ⟨t, ht, h⟩
    · rw [h]; exact sum_congr _ _ (fun u _ => hw u)
    · rw [h, List.map_cons, List.sum_cons, hw t, (I.out t ht).1]
      have : (s.threads.map fun u => w (s'.loc u)).sum = (s.threads.map fun u => w (s.loc u)).sum :=
        sum_congr _ _ (fun u _ => hw u)
      rw [this]; simp [w, pcw]
  refine ⟨fun u hu => ?_, ?_, fun u f b hu => ?_, fun u hu => ?_, by rw [hm]; exact I.cl, ?_,
    fun u hu => ?_, fun u v hu hv => ?_, ?_⟩
  · obtain ⟨h1, h2⟩ := hout u hu
    have : u ∉ s.threads := fun h => hu (hsub u h)
    exact ⟨h1.trans (I.out u this).1, h2⟩
  · rcases hth with h | ⟨t, ht, h⟩ <;> rw [h]
    · exact I.nd
    · exact List.nodup_cons.mpr ⟨ht, I.nd⟩
  · obtain ⟨h1, h2⟩ := hpk u f b hu
    rw [h2]; exact I.pk u f b h1
  · rcases hloc u with h | ⟨F, _⟩
    · rw [h] at hu ⊢; exact I.hh u hu
    · rcases F.hh hu with ⟨h1, h2⟩ | h1
      · have := I.hh u h1; omega
      · exact h1
  · rw [hm, hsum]; exact I.sum
  · rw [hdl] at hu; rw [hm]; exact I.dz u hu
  · rw [hdl] at hu hv; exact I.du u v hu hv
  · rw [hm]
    rcases I.fr with h | ⟨h1, h2, h3⟩
    · exact Or.inl h
    · exact Or.inr ⟨h1, h2, fun u => by rw [hdl]; exact h3 u⟩

theorem invR_step {cfg e} {s s' : State (mkP cfg e)} {t : TId} (I : InvR s)
    (h : exec s (.step t) = some s') : InvR s' := by
  obtain ⟨hp, hc⟩ := exec_step h
  rcases hc with ⟨cur, b, ho, hm, rfl⟩ | ⟨r, m', hs, rfl⟩
  · -- the thread parks
    have ht : t ∈ s.threads := I.inThreads (fun hl => by rw [hl] at ho; simp [opPC] at ho)
    refine ⟨fun u hu => ?_, I.nd, fun u f b' hu => ?_, I.hh, I.cl, I.sum, I.dz, I.du, I.fr⟩
    · have : u ≠ t := fun h => hu (h ▸ ht)
      simpa [this] using I.out u hu
    · simp only [setParked_parked] at hu
      split at hu
      · rename_i hut
        subst hut
        injection hu with hu
        injection hu with h1 h2
        subst h1 h2
        exact ⟨rfl, cur, ho⟩
      · exact I.pk u f b' hu
  · have ht : t ∈ s.threads := I.inThreads (fun hl => by
      rw [hl] at hs; simp [StepM, stepRes, opPC] at hs)
    exact invR_move I ht hp (rfacts hs)

theorem invR_wake {cfg e} {s s' : State (mkP cfg e)} {t : TId} {ws : List TId} (I : InvR s)
    (h : exec s (.wake t ws) = some s') : InvR s' := by
  obtain ⟨hp, f, n, ho, hnd, hsub, hall, htw, rfl⟩ := exec_wake_inv h
  have ho' : opPC cfg (s.loc t).pc = some (.fwake f n) := ho
  refine invR_relabel I (by simp) (Or.inl (by simp)) (fun u => ?_) (fun u hu => ?_)
    (fun u g b hu => ?_)
  · simp only [setLoc_loc, unparkAll_loc s ws hnd]
    split
    · rename_i hut; subst hut
      refine Or.inr ⟨rfacts_wake _ ho' _, ?_⟩
      generalize (s.loc u).pc = pc at ho'
      cases pc <;> simp [opPC] at ho' <;> rfl
    · split
      · rename_i huw
        obtain ⟨_, b, hb⟩ := (mem_parkedOn s f u).mp (hsub u huw)
        obtain ⟨rfl, cur, hcur⟩ := I.pk u f b hb
        refine Or.inr ⟨rfacts_unpark _ hcur _, ?_⟩
        generalize (s.loc u).pc = pc at hcur
        cases pc <;> simp [opPC] at hcur <;> rfl
      · exact Or.inl rfl
  · simp only [setLoc_threads, unparkAll_threads] at hu
    have hut : u ≠ t := fun h => hu (h ▸ I.inThreads (fun hl => by rw [hl] at ho'; simp [opPC] at ho'))
    have huw : u ∉ ws := fun h => hu ((mem_parkedOn s f u).mp (hsub u h)).1
    simp [hut, huw, unparkAll_loc s ws hnd, unparkAll_parked, (I.out u hu).2]
  · simp only [setLoc_parked, unparkAll_parked] at hu
    split at hu
    · cases hu
    · rename_i huw
      have hut : u ≠ t := fun h => by rw [h, hp] at hu; cases hu
      exact ⟨hu, by simp [hut, huw, unparkAll_loc s ws hnd]⟩

theorem invR_unpark {cfg e} {s s' : State (mkP cfg e)} {t : TId} (I : InvR s)
    (h : exec s (.timeout t) = some s' ∨ exec s (.spurious t) = some s') : InvR s' := by
  obtain ⟨p, r, hp, rfl⟩ := exec_unpark_inv h
  obtain ⟨f, b⟩ := p
  obtain ⟨rfl, cur, hcur⟩ := I.pk t f b hp
  refine invR_relabel I (by simp) (Or.inl (by simp)) (fun u => ?_) (fun u hu => ?_)
    (fun u g b' hu => ?_)
  · simp only [setLoc_loc, setParked_loc]
    split
    · rename_i hut; subst hut
      refine Or.inr ⟨rfacts_unpark _ hcur _, ?_⟩
      generalize (s.loc u).pc = pc at hcur
      cases pc <;> simp [opPC] at hcur <;> rfl
    · exact Or.inl rfl
  · simp only [setLoc_threads, setParked_threads] at hu
    have ht : t ∈ s.threads := by
      apply Classical.byContradiction
      intro hn
      rw [(I.out t hn).2] at hp; cases hp
    have hut : u ≠ t := fun h => hu (h ▸ ht)
    simp [hut, (I.out u hu).2]
  · simp only [setLoc_parked, setParked_parked] at hu
    split at hu
    · cases hu
    · rename_i hut
      exact ⟨hu, by simp [hut]⟩

theorem invR_call {cfg} {s s' : State (mkP cfg (futEntry cfg))} {t : TId} {l : L} (I : InvR s)
    (h : exec s (.call t l) = some s') : InvR s' := by
  obtain ⟨hp, ho, he, hm, hpk, hloc, hth⟩ := exec_call_inv h
  refine invR_relabel I hm ?_ (fun u => ?_) (fun u hu => ?_) (fun u g b hu => ?_)
  · rw [hth]
    split
    · exact Or.inl rfl
    · rename_i hn; exact Or.inr ⟨t, hn, rfl⟩
  · rw [hloc]
    split
    · rename_i hut; subst hut
      refine Or.inr ⟨rfacts_call _ he, ?_⟩
      have hi : idleOrDone (s.loc u).pc = true := by
        simp only [futEntry, Bool.and_eq_true] at he; exact he.1
      generalize (s.loc u).pc = pc at hi
      cases pc <;> simp [idleOrDone] at hi <;> rfl
    · exact Or.inl rfl
  · have hut : u ≠ t := by
      intro h; subst h
      apply hu; rw [hth]; split
      · assumption
      · exact List.mem_cons_self
    have hus : u ∉ s.threads := by
      intro h; apply hu; rw [hth]; split
      · exact h
      · exact List.mem_cons_of_mem _ h
    rw [hloc, if_neg hut, hpk]
    exact ⟨rfl, (I.out u hus).2⟩
  · rw [hpk] at hu
    have hut : u ≠ t := fun h => by rw [h, hp] at hu; cases hu
    exact ⟨hu, by rw [hloc, if_neg hut]⟩

theorem invR_exec {cfg} {s s' : State (mkP cfg (futEntry cfg))} (a : Act (mkP cfg (futEntry cfg)))
    (I : InvR s) (h : exec s a = some s') : InvR s' := by
  cases a with
  | step t => exact invR_step I h
  | wake t ws => exact invR_wake I h
  | timeout t => exact invR_unpark I (Or.inl h)
  | spurious t => exact invR_unpark I (Or.inr h)
  | call t l => exact invR_call I h

theorem invR_init (cfg : Cfg) (hs : List Nat) (now : Int) :
    InvR (cfg := cfg) (e := futEntry cfg) (futInit cfg hs now) := by
  refine ⟨fun t ht => ?_, List.nodup_range, fun u f b h => (by cases h), fun t h => (by cases h),
    Or.inr rfl, ?_, fun t h => (by cases h), fun t u h => (by cases h), Or.inl rfl⟩
  · have hlt : ¬ t < hs.length := by simpa [futInit] using ht
    have hle : hs.length ≤ t := Nat.le_of_not_lt hlt
    refine ⟨?_, rfl⟩
    show (⟨hs.getD t 0, .idle⟩ : L) = ⟨0, .idle⟩
    have : hs.getD t 0 = 0 := by
      simp [List.getD, List.getElem?_eq_none hle]
    rw [this]
  · show ((hsum hs : Int) + 1) = 1 + _
    have : wsum (cfg := cfg) (e := futEntry cfg) (futInit cfg hs now) = hsum hs := by
      unfold wsum hsum futInit
      simp [w, pcw]
    rw [this]; omega

theorem invR_reachable {cfg : Cfg} {hs : List Nat} {now : Int} {s : State (futProto cfg)}
    (h : Reachable (futInit cfg hs now) s) : InvR (cfg := cfg) (e := futEntry cfg) s :=
  invariant (P := mkP cfg (futEntry cfg)) InvR (invR_init cfg hs now)
    (fun _ a _ I he => invR_exec a I he) s h

end Dispenso.Future
