import DispensoVerif.Core.HB
import DispensoVerif.Model.ChaseLev
/-
C10, Chase-Lev deque: NEGATIVE witnesses.  With the memory orders the source declares
(`binding.reqOrder`: every non-relaxed site of chase_lev_deque.h; the other sites are relaxed) the
element slots — plain memory — are NOT free of data races in the happens-before model of
`Core/HB.lean`:

* `discarded_read_races`: a thief reads slot `t` before its claiming CAS; if another thief took
  `t` meanwhile and the owner pushed into the same slot again, the read is concurrent with that
  write.  The CAS then fails and the value is discarded; the source hides the access from
  ThreadSanitizer (`DISPENSO_TSAN_ANNOTATE_IGNORE_READS/WRITES`) and requires a trivially copyable
  element.  No assignment of memory orders to the existing operations removes this race.
* `restore_store_races`: `try_pop` restores `bottom_` with a relaxed store; a thief that reads
  `bottom_` from that store (acquire) is not synchronised with the release store of the push that
  wrote the slot, because a plain store — even by the same thread — ends a release sequence in
  C++20 (it continued it up to C++17, the standard the library is written against).  The thief's
  slot read then races with the push's slot write although its CAS can succeed.
Core Lean only.
-/
namespace Dispenso.ChaseLev
open Dispenso.Conc Dispenso.HB

/-- slots are plain data; the declared orders are the source's -/
def hbSpec (C : Nat) : Spec (proto C) :=
  { plain := fun f => decide (2 ≤ f), ord := (binding C).reqOrder }

def push (v : Int) : List (Act (proto 1)) := [.call 0 (L.pLoadB v), .step 0, .step 0, .step 0, .step 0]
def steal (t : TId) : List (Act (proto 1)) := [.call t L.sLoadT, .step t, .step t, .step t, .step t, .step t]

/-- thief 1 has loaded top and bottom and is about to read slot 0; thief 2 steals position 0;
the owner pushes position 1 into the same slot (capacity 1); thief 1 reads -/
def discarded : List (Act (proto 1)) :=
  push 7 ++ [.call 1 L.sLoadT, .step 1, .step 1, .step 1] ++ steal 2 ++
  [.call 0 (L.pLoadB 8), .step 0, .step 0, .step 0] ++ [.step 1]

theorem discarded_read_races :
    ∃ s tr, runH (hbSpec 1) (init 1) discarded = some (s, tr) ∧ Race tr :=
  exists_race_of_runH (i := 14) (j := 15) (by decide)

/-- push; a pop of the last element up to the relaxed restore of `bottom_`; a thief reads `bottom_`
from that store and then the slot -/
def restore : List (Act (proto 1)) :=
  push 7 ++ [.call 0 (L.oLoadB false), .step 0, .step 0, .step 0, .step 0, .step 0, .step 0] ++
  [.call 1 L.sLoadT, .step 1, .step 1, .step 1, .step 1]

theorem restore_store_races :
    ∃ s tr, runH (hbSpec 1) (init 1) restore = some (s, tr) ∧ Race tr :=
  exists_race_of_runH (i := 2) (j := 13) (by decide)

end Dispenso.ChaseLev
