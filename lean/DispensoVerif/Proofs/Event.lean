import DispensoVerif.Model.Event
/-
Helper lemmas for C21 (CompletionEvent / Latch lost-wake-up freedom).

`latchProto` and `eventProto` differ only in their `entry` relation; both are instances of
`mkP e`.  One invariant `Inv c0` (with `c0` the "released" value of the status word: `0` for the
latch, `1` for the event) is proved inductive for every `mkP e` whose `entry` only starts calls
that are well-formed for `c0`.
Core Lean only.
-/
namespace Dispenso.Conc
section
variable {P : Proto}

@[simp] theorem setLoc_loc (s : State P) (t : TId) (l : P.L) (u : TId) :
    (setLoc s t l).loc u = if u = t then l else s.loc u := rfl
@[simp] theorem setLoc_mem (s : State P) (t : TId) (l : P.L) : (setLoc s t l).mem = s.mem := rfl
@[simp] theorem setLoc_parked (s : State P) (t : TId) (l : P.L) :
    (setLoc s t l).parked = s.parked := rfl
@[simp] theorem setLoc_threads (s : State P) (t : TId) (l : P.L) :
    (setLoc s t l).threads = s.threads := rfl

@[simp] theorem setMem_loc (s : State P) (f : Fld) (v : Int) : (setMem s f v).loc = s.loc := rfl
@[simp] theorem setMem_mem (s : State P) (f : Fld) (v : Int) (g : Fld) :
    (setMem s f v).mem g = if g = f then v else s.mem g := rfl
@[simp] theorem setMem_parked (s : State P) (f : Fld) (v : Int) :
    (setMem s f v).parked = s.parked := rfl
@[simp] theorem setMem_threads (s : State P) (f : Fld) (v : Int) :
    (setMem s f v).threads = s.threads := rfl

@[simp] theorem setParked_loc (s : State P) (t : TId) (p : Option (Fld × Bool)) :
    (setParked s t p).loc = s.loc := rfl
@[simp] theorem setParked_mem (s : State P) (t : TId) (p : Option (Fld × Bool)) :
    (setParked s t p).mem = s.mem := rfl
@[simp] theorem setParked_parked (s : State P) (t : TId) (p : Option (Fld × Bool)) (u : TId) :
    (setParked s t p).parked u = if u = t then p else s.parked u := rfl
@[simp] theorem setParked_threads (s : State P) (t : TId) (p : Option (Fld × Bool)) :
    (setParked s t p).threads = s.threads := rfl

@[simp] theorem unparkAll_mem (s : State P) (ws : List TId) : (unparkAll s ws).mem = s.mem := by
  induction ws generalizing s with
  | nil => rfl
  | cons w ws ih => simp [unparkAll, ih]

@[simp] theorem unparkAll_threads (s : State P) (ws : List TId) :
    (unparkAll s ws).threads = s.threads := by
  induction ws generalizing s with
  | nil => rfl
  | cons w ws ih => simp [unparkAll, ih]

theorem unparkAll_parked (s : State P) (ws : List TId) (u : TId) :
    (unparkAll s ws).parked u = if u ∈ ws then none else s.parked u := by
  induction ws generalizing s with
  | nil => simp [unparkAll]
  | cons w ws ih =>
    simp only [unparkAll, ih, setLoc_parked, setParked_parked, List.mem_cons]
    by_cases h1 : u ∈ ws <;> by_cases h2 : u = w <;> simp [h1, h2]

theorem unparkAll_loc (s : State P) (ws : List TId) (hnd : ws.Nodup) (u : TId) :
    (unparkAll s ws).loc u = if u ∈ ws then P.cont (s.loc u) rWoken else s.loc u := by
  induction ws generalizing s with
  | nil => simp [unparkAll]
  | cons w ws ih =>
    have hw : w ∉ ws := (List.nodup_cons.mp hnd).1
    simp only [unparkAll, ih _ (List.nodup_cons.mp hnd).2, setLoc_loc, setParked_loc,
      List.mem_cons]
    by_cases h1 : u ∈ ws <;> by_cases h2 : u = w
    · subst h2; exact absurd h1 hw
    · simp [h1, h2]
    · subst h2; simp [h1]
    · simp [h1, h2]

theorem mem_parkedOn (s : State P) (f : Fld) (u : TId) :
    u ∈ parkedOn s f ↔ u ∈ s.threads ∧ ∃ b, s.parked u = some (f, b) := by
  unfold parkedOn
  rw [List.mem_filter]
  constructor
  · rintro ⟨h1, h2⟩
    refine ⟨h1, ?_⟩
    split at h2
    · rename_i g b hp
      have : g = f := by simpa using h2
      subst this; exact ⟨b, hp⟩
    · simp at h2
  · rintro ⟨h1, b, hb⟩
    refine ⟨h1, ?_⟩
    simp [hb]

/-- `exec` never removes a thread from the thread list -/
theorem exec_threads_length {s s' : State P} {a : Act P} (h : exec s a = some s') :
    s.threads.length ≤ s'.threads.length := by
  cases a with
  | step t =>
    simp only [exec] at h
    split at h
    · contradiction
    · split at h
      · contradiction
      · contradiction
      · split at h <;> (injection h with h; subst h; simp)
      · split at h
        · contradiction
        · injection h with h; subst h; simp
        · injection h with h; subst h; simp
  | wake t ws =>
    simp only [exec] at h
    split at h
    · contradiction
    · split at h
      · split at h
        · injection h with h; subst h; simp
        · contradiction
      · contradiction
  | timeout t =>
    simp only [exec] at h
    split at h
    · injection h with h; subst h; simp
    · contradiction
  | spurious t =>
    simp only [exec] at h
    split at h
    · injection h with h; subst h; simp
    · contradiction
  | call t l =>
    simp only [exec] at h
    split at h
    · injection h with h; subst h
      show s.threads.length ≤ (if t ∈ s.threads then s.threads else t :: s.threads).length
      split <;> simp
    · contradiction

end
end Dispenso.Conc

namespace Dispenso.Event
open Dispenso.Conc

/-- the common shape of `latchProto`, `eventProto`: same code, different client contract -/
abbrev mkP (e : L → L → Bool) : Proto := { L := L, op := op, cont := cont, entry := e }

/-- the possible outcomes of a `step` of thread `t` -/
inductive StepC {e} (s : State (mkP e)) (t : TId) : State (mkP e) → Prop
  | park (cur : Int) (b : Bool) : op (s.loc t) = some (.fwait 0 cur b) → s.mem 0 = cur →
      StepC s t (setParked s t (some (0, b)))
  | again (cur : Int) (b : Bool) : op (s.loc t) = some (.fwait 0 cur b) → s.mem 0 ≠ cur →
      StepC s t (setLoc s t (cont (s.loc t) rAgain))
  | load : op (s.loc t) = some (.load 0) → StepC s t (setLoc s t (cont (s.loc t) (s.mem 0)))
  | store (c : Int) : op (s.loc t) = some (.store 0 c) →
      StepC s t (setLoc (setMem s 0 c) t (cont (s.loc t) 0))
  | fsub (n : Int) : op (s.loc t) = some (.fsub 0 n) →
      StepC s t (setLoc (setMem s 0 (s.mem 0 - n)) t (cont (s.loc t) (s.mem 0)))

theorem op_cases (l : L) : op l = none ∨ op l = some (.fwake 0 intMax) ∨
    (∃ cur b, op l = some (.fwait 0 cur b)) ∨ op l = some (.load 0) ∨
    (∃ c, op l = some (.store 0 c)) ∨ ∃ n, op l = some (.fsub 0 n) := by
  cases l <;> simp [op]

theorem exec_step {e} {s s' : State (mkP e)} {t : TId} (h : exec s (.step t) = some s') :
    s.parked t = none ∧ StepC s t s' := by
  simp only [exec] at h
  split at h
  · contradiction
  · rename_i hp
    refine ⟨by simpa using hp, ?_⟩
    rcases op_cases (s.loc t) with h1 | h1 | ⟨cur, b, h1⟩ | h1 | ⟨c, h1⟩ | ⟨n, h1⟩
    all_goals simp only [h1, memEffect] at h
    · contradiction
    · contradiction
    · split at h <;> (injection h with h; subst h)
      · exact .park cur b h1 (by assumption)
      · exact .again cur b h1 (by assumption)
    · injection h with h; subst h; exact .load h1
    · injection h with h; subst h; exact .store c h1
    · injection h with h; subst h; exact .fsub n h1

theorem op_fwake {l : L} {f : Fld} {n : Nat} (h : op l = some (.fwake f n)) :
    l = .ntWake ∧ f = 0 ∧ n = intMax := by
  cases l <;> simp [op] at h
  simp [h]

theorem exec_wake {e} {s s' : State (mkP e)} {t : TId} {ws : List TId}
    (h : exec s (.wake t ws) = some s') :
    s.parked t = none ∧ s.loc t = .ntWake ∧ ws.Nodup ∧ (∀ u ∈ ws, u ∈ parkedOn s 0) ∧
      (ws.length < intMax → ∀ u ∈ parkedOn s 0, u ∈ ws) ∧
      s' = setLoc (unparkAll s ws) t (.done 0) := by
  simp only [exec] at h
  split at h
  · contradiction
  · rename_i hp
    have hp : s.parked t = none := by simpa using hp
    split at h
    · rename_i f n ho
      obtain ⟨hl, rfl, rfl⟩ := op_fwake ho
      split at h
      · rename_i hc
        obtain ⟨hnd, hsub, _, hall⟩ := hc
        injection h with h
        have htw : t ∉ ws := by
          intro htw
          have := ((mem_parkedOn s 0 t).mp (hsub t htw)).2
          rw [hp] at this
          simp at this
        have hlt : (unparkAll s ws).loc t = L.ntWake := by
          rw [unparkAll_loc s ws hnd t, if_neg htw]; exact hl
        refine ⟨hp, hl, hnd, hsub, hall, ?_⟩
        rw [← h, hlt]
        rfl
      · contradiction
    · contradiction

theorem exec_unpark {e} {s s' : State (mkP e)} {t : TId}
    (h : exec s (.timeout t) = some s' ∨ exec s (.spurious t) = some s') :
    ∃ p r, s.parked t = some p ∧ s' = setLoc (setParked s t none) t (cont (s.loc t) r) := by
  rcases h with h | h
  · simp only [exec] at h
    split at h
    · rename_i f hp
      injection h with h
      exact ⟨_, _, hp, h.symm⟩
    · contradiction
  · simp only [exec] at h
    split at h
    · rename_i p hp
      injection h with h
      exact ⟨_, _, hp, h.symm⟩
    · contradiction

theorem exec_call {e} {s s' : State (mkP e)} {t : TId} {l : L}
    (h : exec s (.call t l) = some s') :
    s.parked t = none ∧ op (s.loc t) = none ∧ e (s.loc t) l = true ∧
      s'.mem = s.mem ∧ s'.parked = s.parked ∧ (∀ u, s'.loc u = if u = t then l else s.loc u) ∧
      (∀ u, u ∈ s'.threads ↔ u = t ∨ u ∈ s.threads) := by
  simp only [exec] at h
  split at h
  · rename_i hc
    obtain ⟨h1, h2, h3⟩ := hc
    injection h with h
    subst h
    refine ⟨h1, h2, h3, rfl, rfl, fun u => rfl, fun u => ?_⟩
    show u ∈ (if t ∈ s.threads then s.threads else t :: s.threads) ↔ _
    split
    · constructor
      · exact Or.inr
      · rintro (rfl | h)
        · assumption
        · exact h
    · simp
  · contradiction

/-- local states that are well-formed when the released value of the word is `c0`
(`0`: latch, `1`: event without `reset`) -/
def wf (c0 : Int) : L → Prop
  | .ntStore c => c = c0
  | .wLoad c => c = c0
  | .wWait c cur => c = c0 ∧ cur ≠ c0
  | .wfLoad0 c _ => c = c0
  | .wfLoad c => c = c0
  | .wfWait c cur => c = c0 ∧ cur ≠ c0
  | .rsStore => False
  | .cdSub n => c0 = 0 ∧ 1 ≤ n
  | .awSub => c0 = 0
  | _ => True

/-- a pending notification -/
def isN (c0 : Int) (l : L) : Prop := l = .ntWake ∨ (c0 = 0 ∧ l = .ntStore 0)

theorem wf_cont {c0 : Int} {l : L} (r : Int) (h : wf c0 l) : wf c0 (cont l r) := by
  cases l <;> simp only [cont] <;> (repeat' split) <;> simp_all [wf]

theorem wf_fwait {c0 : Int} {l : L} {cur : Int} {b : Bool} (h : wf c0 l)
    (ho : op l = some (.fwait 0 cur b)) : cur ≠ c0 := by
  cases l <;> simp [op] at ho <;> simp_all [wf]

theorem wf_store {c0 : Int} {l : L} {c : Int} (h : wf c0 l) (ho : op l = some (.store 0 c))
    (r : Int) : c = c0 ∧ cont l r = .ntWake := by
  cases l <;> simp [op] at ho <;> simp_all [wf, cont]

theorem wf_fsub {c0 : Int} {l : L} {n : Int} (h : wf c0 l) (ho : op l = some (.fsub 0 n)) :
    c0 = 0 ∧ 1 ≤ n ∧ ∀ r, r - n = 0 → cont l r = .ntStore 0 := by
  cases l <;> simp [op] at ho <;> simp_all [wf, cont]
  all_goals (intro r hr; have : r = n := by omega)
  all_goals simp_all

theorem isN_op {c0 : Int} {l : L} (h : isN c0 l) :
    op l = some (.fwake 0 intMax) ∨ op l = some (.store 0 0) := by
  rcases h with rfl | ⟨_, rfl⟩ <;> simp [op]

structure Inv {e} (c0 : Int) (s : State (mkP e)) : Prop where
  wf : ∀ t, wf c0 (s.loc t)
  out : ∀ t, t ∉ s.threads → s.loc t = .idle ∧ s.parked t = none
  pk : ∀ u f b, s.parked u = some (f, b) → f = 0 ∧ ∃ cur, op (s.loc u) = some (.fwait 0 cur b)
  d : s.threads.length < intMax → s.mem 0 = c0 →
        (∀ u, s.parked u = none) ∨ ∃ t, isN c0 (s.loc t)
  ev : c0 = 1 → s.mem 0 = 0 ∨ s.mem 0 = 1

theorem Inv.inThreads {e c0} {s : State (mkP e)} (I : Inv c0 s) {t : TId}
    (h : op (s.loc t) ≠ none) : t ∈ s.threads := by
  apply Classical.byContradiction
  intro hn
  rw [(I.out t hn).1] at h
  exact h rfl

theorem Inv.parkedInThreads {e c0} {s : State (mkP e)} (I : Inv c0 s) {u : TId}
    (h : s.parked u ≠ none) : u ∈ s.threads := by
  apply Classical.byContradiction
  intro hn
  exact h (I.out u hn).2

theorem Inv.parkedNotN {e c0} {s : State (mkP e)} (I : Inv c0 s) {u : TId}
    (h : s.parked u ≠ none) : ¬ isN c0 (s.loc u) := by
  intro hN
  cases hp : s.parked u with
  | none => exact h hp
  | some p =>
    obtain ⟨f, b⟩ := p
    obtain ⟨_, cur, ho⟩ := I.pk u f b hp
    rcases isN_op hN with h1 | h1 <;> rw [h1] at ho <;> simp at ho

/-- frame lemma: an unparked running thread `t` moves to the well-formed local state `l'`, memory
may change -/
theorem inv_setLoc {e c0} {s s1 : State (mkP e)} {t : TId} (I : Inv c0 s)
    (hp : s.parked t = none) (ht : t ∈ s.threads) {l' : L} (hw : wf c0 l')
    (h1 : s1.loc = s.loc) (h2 : s1.parked = s.parked) (h3 : s1.threads = s.threads)
    (hd : s.threads.length < intMax → s1.mem 0 = c0 →
      (∀ u, s.parked u = none) ∨ ∃ u, isN c0 (if u = t then l' else s.loc u))
    (hev : c0 = 1 → s1.mem 0 = 0 ∨ s1.mem 0 = 1) : Inv c0 (setLoc s1 t l') := by
  refine ⟨fun u => ?_, fun u hu => ?_, fun u f b hu => ?_, fun hs hz => ?_, hev⟩
  · simp only [setLoc_loc, h1]
    split
    · exact hw
    · exact I.wf u
  · simp only [setLoc_threads, h3] at hu
    have : u ≠ t := fun h => hu (h ▸ ht)
    simpa [this, h1, h2] using I.out u hu
  · simp only [setLoc_parked, h2] at hu
    have : u ≠ t := fun h => by rw [h, hp] at hu; cases hu
    simpa [this, h1] using I.pk u f b hu
  · simp only [setLoc_threads, h3, setLoc_mem, setLoc_parked, h2, setLoc_loc, h1] at hs hz ⊢
    exact hd hs hz

theorem Inv.d_keep {e c0} {s : State (mkP e)} (I : Inv c0 s) {t : TId}
    (hnt : ¬ isN c0 (s.loc t)) (l' : L) :
    s.threads.length < intMax → s.mem 0 = c0 →
      (∀ u, s.parked u = none) ∨ ∃ u, isN c0 (if u = t then l' else s.loc u) := by
  intro hs hz
  rcases I.d hs hz with h | ⟨u, hu⟩
  · exact Or.inl h
  · refine Or.inr ⟨u, ?_⟩
    have : u ≠ t := fun h => hnt (h ▸ hu)
    rwa [if_neg this]

theorem not_isN_of_op {c0 : Int} {l : L} (h1 : op l ≠ some (.fwake 0 intMax))
    (h2 : op l ≠ some (.store 0 0)) : ¬ isN c0 l := fun h => by
  rcases isN_op h with h | h
  · exact h1 h
  · exact h2 h

theorem inv_stepC {e c0} {s s' : State (mkP e)} {t : TId} (I : Inv c0 s)
    (hp : s.parked t = none) (h : StepC s t s') : Inv c0 s' := by
  cases h with
  | park cur b ho hm =>
    have ht : t ∈ s.threads := I.inThreads (by simp [ho])
    refine ⟨fun u => I.wf u, fun u hu => ?_, fun u f b' hu => ?_, fun _ hz => ?_, I.ev⟩
    · have : u ≠ t := fun h => hu (h ▸ ht)
      simpa [this] using I.out u hu
    · simp only [setParked_parked, setParked_loc] at hu ⊢
      split at hu
      · rename_i hut
        subst hut
        injection hu with hu
        injection hu with h1 h2
        subst h1 h2
        exact ⟨rfl, cur, ho⟩
      · exact I.pk u f b' hu
    · exact absurd (hm.symm.trans hz) (wf_fwait (I.wf t) ho)
  | again cur b ho hm =>
    have ht : t ∈ s.threads := I.inThreads (by simp [ho])
    exact inv_setLoc I hp ht (wf_cont _ (I.wf t)) rfl rfl rfl
      (I.d_keep (not_isN_of_op (by simp [ho]) (by simp [ho])) _) I.ev
  | load ho =>
    have ht : t ∈ s.threads := I.inThreads (by simp [ho])
    exact inv_setLoc I hp ht (wf_cont _ (I.wf t)) rfl rfl rfl
      (I.d_keep (not_isN_of_op (by simp [ho]) (by simp [ho])) _) I.ev
  | store c ho =>
    have ht : t ∈ s.threads := I.inThreads (by simp [ho])
    obtain ⟨hc, hk⟩ := wf_store (I.wf t) ho 0
    refine inv_setLoc I hp ht (wf_cont _ (I.wf t)) rfl rfl rfl (fun _ _ => Or.inr ⟨t, ?_⟩) ?_
    · rw [if_pos rfl, hk]; exact Or.inl rfl
    · intro h1
      simp only [setMem_mem, if_pos]
      right; omega
  | fsub n ho =>
    have ht : t ∈ s.threads := I.inThreads (by simp [ho])
    obtain ⟨hc, hn, hk⟩ := wf_fsub (I.wf t) ho
    refine inv_setLoc I hp ht (wf_cont _ (I.wf t)) rfl rfl rfl (fun _ hz => Or.inr ⟨t, ?_⟩) ?_
    · simp only [setMem_mem, if_pos] at hz
      rw [if_pos rfl, hk _ (by omega)]; exact Or.inr ⟨hc, rfl⟩
    · intro h1; omega

theorem inv_wake {e c0} {s s' : State (mkP e)} {t : TId} {ws : List TId} (I : Inv c0 s)
    (h : exec s (.wake t ws) = some s') : Inv c0 s' := by
  obtain ⟨hp, hl, hnd, hsub, hall, rfl⟩ := exec_wake h
  have ht : t ∈ s.threads := I.inThreads (by simp [hl, op])
  have htw : t ∉ ws := fun htw => by
    obtain ⟨_, b, hb⟩ := (mem_parkedOn s 0 t).mp (hsub t htw)
    rw [hp] at hb; cases hb
  refine ⟨fun u => ?_, fun u hu => ?_, fun u f b hu => ?_, fun hs hz => Or.inl fun u => ?_, ?_⟩
  · simp only [setLoc_loc, unparkAll_loc s ws hnd]
    split
    · trivial
    · split
      · exact wf_cont _ (I.wf u)
      · exact I.wf u
  · simp only [setLoc_threads, unparkAll_threads] at hu
    have h1 : u ≠ t := fun h => hu (h ▸ ht)
    have h2 : u ∉ ws := fun h => hu ((mem_parkedOn s 0 u).mp (hsub u h)).1
    simpa [h1, h2, unparkAll_loc s ws hnd, unparkAll_parked] using I.out u hu
  · simp only [setLoc_parked, unparkAll_parked] at hu
    split at hu
    · cases hu
    · rename_i h2
      have h1 : u ≠ t := fun h => by rw [h, hp] at hu; cases hu
      simpa [h1, h2, unparkAll_loc s ws hnd] using I.pk u f b hu
  · simp only [setLoc_threads, unparkAll_threads] at hs
    simp only [setLoc_parked, unparkAll_parked]
    split
    · rfl
    · rename_i h2
      cases hpu : s.parked u with
      | none => rfl
      | some p =>
        exfalso
        obtain ⟨f, b⟩ := p
        obtain ⟨rfl, _⟩ := I.pk u f b hpu
        have hlen : ws.length < intMax :=
          Nat.lt_of_le_of_lt (List.Nodup.length_le_of_subset hnd
            (fun u hu => ((mem_parkedOn s 0 u).mp (hsub u hu)).1)) hs
        exact h2 (hall hlen u ((mem_parkedOn s 0 u).mpr
          ⟨I.parkedInThreads (by simp [hpu]), b, hpu⟩))
  · simpa using I.ev

theorem inv_unpark {e c0} {s s' : State (mkP e)} {t : TId} (I : Inv c0 s)
    (h : exec s (.timeout t) = some s' ∨ exec s (.spurious t) = some s') : Inv c0 s' := by
  obtain ⟨p, r, hp, rfl⟩ := exec_unpark h
  have hpn : s.parked t ≠ none := by simp [hp]
  have ht : t ∈ s.threads := I.parkedInThreads hpn
  refine ⟨fun u => ?_, fun u hu => ?_, fun u f b hu => ?_, fun hs hz => ?_, ?_⟩
  · simp only [setLoc_loc, setParked_loc]
    split
    · exact wf_cont _ (I.wf t)
    · exact I.wf u
  · simp only [setLoc_threads, setParked_threads] at hu
    have h1 : u ≠ t := fun h => hu (h ▸ ht)
    simpa [h1] using I.out u hu
  · simp only [setLoc_parked, setParked_parked] at hu
    split at hu
    · cases hu
    · rename_i h1
      simpa [h1] using I.pk u f b hu
  · simp only [setLoc_threads, setParked_threads, setLoc_mem, setParked_mem] at hs hz
    rcases I.d hs hz with h1 | ⟨u, hu⟩
    · exact absurd (h1 t) hpn
    · refine Or.inr ⟨u, ?_⟩
      have : u ≠ t := fun h => I.parkedNotN hpn (h ▸ hu)
      simpa [this] using hu
  · simpa using I.ev

theorem inv_call {e c0} (hE : ∀ l l', e l l' = true → wf c0 l') {s s' : State (mkP e)} {t : TId}
    {l : L} (I : Inv c0 s) (h : exec s (.call t l) = some s') : Inv c0 s' := by
  have hlen := exec_threads_length h
  obtain ⟨hp, ho, he, hm, hpk, hloc, hth⟩ := exec_call h
  refine ⟨fun u => ?_, fun u hu => ?_, fun u f b hu => ?_, fun hs hz => ?_, ?_⟩
  · rw [hloc]
    split
    · exact hE _ _ he
    · exact I.wf u
  · rw [hth] at hu
    have h1 : u ≠ t := fun h => hu (Or.inl h)
    have h2 : u ∉ s.threads := fun h => hu (Or.inr h)
    rw [hloc, hpk, if_neg h1]
    exact I.out u h2
  · rw [hpk] at hu
    have h1 : u ≠ t := fun h => by rw [h, hp] at hu; cases hu
    rw [hloc, if_neg h1]
    exact I.pk u f b hu
  · rw [hm] at hz
    rw [hpk]
    rcases I.d (Nat.lt_of_le_of_lt hlen hs) hz with h1 | ⟨u, hu⟩
    · exact Or.inl h1
    · refine Or.inr ⟨u, ?_⟩
      have : u ≠ t := fun h => by
        subst h
        rcases isN_op hu with h2 | h2 <;> rw [ho] at h2 <;> cases h2
      rw [hloc, if_neg this]
      exact hu
  · rw [hm]; exact I.ev

theorem inv_exec {e c0} (hE : ∀ l l', e l l' = true → wf c0 l') {s s' : State (mkP e)}
    (a : Act (mkP e)) (I : Inv c0 s) (h : exec s a = some s') : Inv c0 s' := by
  cases a with
  | step t => obtain ⟨hp, hc⟩ := exec_step h; exact inv_stepC I hp hc
  | wake t ws => exact inv_wake I h
  | timeout t => exact inv_unpark I (Or.inl h)
  | spurious t => exact inv_unpark I (Or.inr h)
  | call t l => exact inv_call hE I h

theorem inv_init {e} (c0 v : Int) (h1 : c0 = 1 → v = 0) :
    Inv (e := e) c0 (initState (mkP e) L.idle (fun _ => v)) :=
  ⟨fun _ => trivial, fun _ _ => ⟨rfl, rfl⟩, fun _ _ _ h => (by cases h),
    fun _ _ => Or.inl fun _ => rfl, fun h => Or.inl (h1 h)⟩

/-- how one action can change the status word -/
theorem exec_mem0 {e c0} {s s' : State (mkP e)} (a : Act (mkP e)) (I : Inv c0 s)
    (h : exec s a = some s') :
    s'.mem 0 = s.mem 0 ∨ s'.mem 0 = c0 ∨ (c0 = 0 ∧ ∃ n, 1 ≤ n ∧ s'.mem 0 = s.mem 0 - n) := by
  cases a with
  | step t =>
    obtain ⟨hp, hc⟩ := exec_step h
    cases hc with
    | park cur b ho hm => exact Or.inl rfl
    | again cur b ho hm => exact Or.inl rfl
    | load ho => exact Or.inl rfl
    | store c ho => exact Or.inr (Or.inl (wf_store (I.wf t) ho 0).1)
    | fsub n ho =>
      obtain ⟨hc, hn, _⟩ := wf_fsub (I.wf t) ho
      exact Or.inr (Or.inr ⟨hc, n, hn, rfl⟩)
  | wake t ws => obtain ⟨_, _, _, _, _, rfl⟩ := exec_wake h; exact Or.inl (by simp)
  | timeout t => obtain ⟨_, _, _, rfl⟩ := exec_unpark (Or.inl h); exact Or.inl rfl
  | spurious t => obtain ⟨_, _, _, rfl⟩ := exec_unpark (Or.inr h); exact Or.inl rfl
  | call t l => exact Or.inl (by rw [(exec_call h).2.2.2.1])

/-- a step of a `wait`-like load returns "done" only if it saw the awaited value -/
theorem step_load_done {e} {s s' : State (mkP e)} {t : TId} (h : exec s (.step t) = some s')
    {c r : Int} (hl : s.loc t = .wLoad c ∧ r = 0 ∨ (∃ b, s.loc t = .wfLoad0 c b) ∧ r = 1 ∨
      s.loc t = .wfLoad c ∧ r = 1) (hd : s'.loc t = .done r) : s.mem 0 = c := by
  obtain ⟨hp, hc⟩ := exec_step h
  have hop : op (s.loc t) = some (.load 0) := by
    rcases hl with ⟨h, _⟩ | ⟨⟨b, h⟩, _⟩ | ⟨h, _⟩ <;> rw [h] <;> rfl
  cases hc with
  | park cur b ho hm => rw [hop] at ho; cases ho
  | again cur b ho hm => rw [hop] at ho; cases ho
  | store c ho => rw [hop] at ho; cases ho
  | fsub n ho => rw [hop] at ho; cases ho
  | load ho =>
    simp only [setLoc_loc, if_pos] at hd
    apply Classical.byContradiction
    intro hne
    rcases hl with ⟨h, rfl⟩ | ⟨⟨b, h⟩, rfl⟩ | ⟨h, rfl⟩ <;> rw [h] at hd <;>
      simp only [cont, if_neg hne] at hd
    · cases hd
    · cases b <;> simp at hd
    · cases hd

def latchE : L → L → Bool := fun l l' => idleOrDone l && isLatchEntry l'
def eventE : L → L → Bool := fun l l' => idleOrDone l && isEventEntry l'

theorem latchE_wf (l l' : L) (h : latchE l l' = true) : wf 0 l' := by
  cases l' <;> simp_all [latchE, isLatchEntry, wf]

theorem eventE_wf (l l' : L) (h : eventE l l' = true) : wf 1 l' := by
  cases l' <;> simp_all [eventE, isEventEntry, wf]

theorem latch_inv (c : Int) (s : State (mkP latchE))
    (h : Reachable (initState (mkP latchE) L.idle (fun _ => c)) s) : Inv 0 s :=
  invariant (Inv 0) (inv_init 0 c (fun h => by cases h))
    (fun _ a _ I he => inv_exec latchE_wf a I he) s h

theorem event_inv (s : State (mkP eventE))
    (h : Reachable (initState (mkP eventE) L.idle (fun _ => 0)) s) : Inv 1 s :=
  invariant (Inv 1) (inv_init 1 0 (fun _ => rfl))
    (fun _ a _ I he => inv_exec eventE_wf a I he) s h

theorem sum_map_nonneg {α} (f : α → Int) (hf : ∀ a, 0 ≤ f a) (l : List α) :
    0 ≤ (l.map f).sum := by
  induction l with
  | nil => simp
  | cons a l ih => simp only [List.map_cons, List.sum_cons]; have := hf a; omega

end Dispenso.Event
