import DispensoVerif.Proofs.SchedInvStk
import DispensoVerif.Proofs.SchedInvCnt
import DispensoVerif.Proofs.SchedInvTask

/-!
The invariants of the scheduling ledger and their preservation by every `Step`
(`SchedMeas`: definitions; `SchedInvStk`, `SchedInvCnt`, `SchedInvTask`: the preservation lemmas).
-/
