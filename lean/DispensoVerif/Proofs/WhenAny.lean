import DispensoVerif.Model.WhenComb
import DispensoVerif.Proofs.ConcLemmas
/-
Proofs for C19 (when_any): the winner index is set once, only by a continuation whose input is
ready or by the inline path after it waited for input 0; the result future becomes ready only after
the winner has been stored as its result.  Core Lean only.
-/
namespace Dispenso.WhenComb.Any
open Dispenso.Conc Dispenso.ConcL Dispenso.WhenComb

/-- `proto N` as a reducible definition -/
abbrev AP (N : Nat) : Proto :=
  { L := PC, op := op, cont := cont, entry := entry N }
theorem proto_eq (N : Nat) : proto N = AP N := rfl

/-- what a control state implies about the memory -/
def LocA (N : Nat) (m : Fld → Int) : PC → Prop
  | .pbLoad i => i < N
  | .pbDone i => i < N ∧ m (fIn i) = 2
  | .ctCas i => i < N ∧ m (fIn i) = 2
  | .waCas _ => m (fIn 0) = 2
  | .waLoad2 _ => m 0 ≠ -1
  | .rcVal _ w => m 0 = w ∧ w ≠ -1
  | .rcStore _ => m 2 = m 0 ∧ m 0 ≠ -1
  | .rcWake _ => m 2 = m 0 ∧ m 0 ≠ -1 ∧ m 1 = 2
  | .gtVal => m 1 = 2
  | _ => True

/-- the winner, once set, is the index of a ready input -/
def WinOK (N : Nat) (m : Fld → Int) : Prop :=
  m 0 = -1 ∨ (0 ≤ m 0 ∧ m 0 < N ∧ m (fIn (m 0).toNat) = 2)

structure Inv (N : Nat) (s : State (AP N)) : Prop where
  pk : ∀ u f b, s.parked u = some (f, b) →
    (∃ g cur, s.loc u = .wC g cur) ∨ (∃ cur, s.loc u = .gwWait cur)
  wn : WinOK N s.mem
  lc : ∀ t, LocA N s.mem (s.loc t)
  rs : s.mem 1 = 2 → s.mem 2 = s.mem 0 ∧ s.mem 0 ≠ -1

theorem fIn_ne (i j : Nat) : fIn i ≠ 0 ∧ fIn i ≠ 1 ∧ fIn i ≠ 2 ∧ (fIn i = fIn j ↔ i = j) := by
  show (2 * i + 10 : Nat) ≠ 0 ∧ (2 * i + 10 : Nat) ≠ 1 ∧ (2 * i + 10 : Nat) ≠ 2 ∧
    ((2 * i + 10 : Nat) = 2 * j + 10 ↔ i = j)
  omega

/-- local facts survive a memory change that keeps the winner, the result status / value, and
every "input ready" -/
theorem LocA_frame {N : Nat} {m m' : Fld → Int} {pc : PC} (h : LocA N m pc) (h0 : m' 0 = m 0)
    (h1 : m 1 = 2 → m' 1 = 2) (h2 : m' 2 = m 2) (hi : ∀ i, m (fIn i) = 2 → m' (fIn i) = 2) :
    LocA N m' pc := by
  cases pc <;> simp only [LocA] at h ⊢
  case pbLoad i => exact h
  case pbDone i => exact ⟨h.1, hi i h.2⟩
  case ctCas i => exact ⟨h.1, hi i h.2⟩
  case waCas g => exact hi 0 h
  case waLoad2 g => rw [h0]; exact h
  case rcVal g w => rw [h0]; exact h
  case rcStore g => rw [h0, h2]; exact h
  case rcWake g => rw [h0, h2]; exact ⟨h.1, h.2.1, h1 h.2.2⟩
  case gtVal => exact h1 h

/-- while nobody has won, no control state depends on the winner -/
theorem LocA_win {N : Nat} {m m' : Fld → Int} {pc : PC} (h : LocA N m pc) (hw : m 0 = -1)
    (h1 : m' 1 = m 1) (hi : ∀ i, m' (fIn i) = m (fIn i)) : LocA N m' pc := by
  cases pc <;> simp only [LocA] at h ⊢
  case pbLoad i => exact h
  case pbDone i => rw [hi]; exact h
  case ctCas i => rw [hi]; exact h
  case waCas g => rw [hi]; exact h
  case waLoad2 g => exact absurd hw h
  case rcVal g w => exact absurd (h.1 ▸ hw) h.2
  case rcStore g => exact absurd hw h.2
  case rcWake g => exact absurd hw h.2.1
  case gtVal => rw [h1]; exact h

theorem WinOK_frame {N : Nat} {m m' : Fld → Int} (h : WinOK N m) (h0 : m' 0 = m 0)
    (hi : ∀ i, m (fIn i) = 2 → m' (fIn i) = 2) : WinOK N m' := by
  unfold WinOK at *
  rw [h0]
  rcases h with h | ⟨a, b, c⟩
  · exact Or.inl h
  · exact Or.inr ⟨a, b, hi _ c⟩

/-- storing the winner as the result value keeps all local facts -/
theorem LocA_val {N : Nat} {m : Fld → Int} {pc : PC} (h : LocA N m pc) :
    LocA N (upd m 2 (m 0)) pc := by
  have e0 : upd m 2 (m 0) 0 = m 0 := upd_other _ _ _ _ (by decide)
  have e1 : upd m 2 (m 0) 1 = m 1 := upd_other _ _ _ _ (by decide)
  have hfi : ∀ j, upd m 2 (m 0) (fIn j) = m (fIn j) := fun j => upd_other _ _ _ _ (fIn_ne j j).2.2.1
  cases pc <;> simp only [LocA] at h ⊢
  case pbLoad i => exact h
  case pbDone i => rw [hfi]; exact h
  case ctCas i => rw [hfi]; exact h
  case waCas g => rw [hfi]; exact h
  case waLoad2 g => rw [e0]; exact h
  case rcVal g w => rw [e0]; exact h
  case rcStore g => rw [e0, upd_same]; exact ⟨rfl, h.2⟩
  case rcWake g => rw [e0, upd_same]; exact ⟨rfl, h.2⟩
  case gtVal => rw [e1]; exact h

/-- restatement of `Inv` for the state in which the unparked thread `t` moved to `l'` -/
theorem inv_move {N : Nat} {s : State (AP N)} (I : Inv N s) (t : TId) (hp : s.parked t = none)
    (m' : Fld → Int) (l' : PC) (hwn : WinOK N m') (hlt : LocA N m' l')
    (hlo : ∀ u, u ≠ t → LocA N m' (s.loc u)) (hrs : m' 1 = 2 → m' 2 = m' 0 ∧ m' 0 ≠ -1) :
    Inv N (setLoc { s with mem := m' } t l') := by
  refine ⟨fun u f b hu => ?_, hwn, fun u => ?_, hrs⟩
  · simp only [setLoc_parked] at hu
    have hut : u ≠ t := fun h' => by rw [h', hp] at hu; cases hu
    simpa [hut] using I.pk u f b hu
  · simp only [setLoc_loc]
    split
    · exact hlt
    · rename_i hut; exact hlo u hut

set_option hygiene false in
macro "a_norm" : tactic => `(tactic| (
  simp only [op, effRes, Option.bind_some, Option.bind_none, reduceCtorEq] at h
  try split at h
  all_goals (try simp only [Option.some.injEq, Prod.mk.injEq, reduceCtorEq] at h)
  all_goals (try obtain ⟨rfl, rfl⟩ := h)
  all_goals (try contradiction)))

theorem inv_step {N : Nat} (hN : 1 ≤ N) {s s' : State (AP N)} {t : TId} (I : Inv N s)
    (hx : exec s (.step t) = some s') : Inv N s' := by
  obtain ⟨hp, hcs⟩ := exec_step_eff hx
  rcases hcs with ⟨f, cur, b, ho, hm, rfl⟩ | ⟨r, m', h, rfl⟩
  · -- park
    refine ⟨fun u g b' hu => ?_, I.wn, I.lc, I.rs⟩
    simp only [setParked_parked] at hu
    split at hu
    · rename_i hut
      subst hut
      have ho' : op (s.loc u) = some (.fwait f cur b) := ho
      cases hpc : s.loc u <;> rw [hpc] at ho' <;> simp [op] at ho'
      · exact Or.inl ⟨_, _, hpc⟩
      · exact Or.inr ⟨_, hpc⟩
    · exact I.pk u g b' hu
  have hop : (AP N).op (s.loc t) = op (s.loc t) := rfl
  have hcont : ∀ r, (AP N).cont (s.loc t) r = cont (s.loc t) r := fun _ => rfl
  rw [hop] at h
  rw [hcont]
  have hlc := I.lc t
  -- steps that leave the memory alone
  have hsame : ∀ l', LocA N s.mem l' → Inv N (setLoc { s with mem := s.mem } t l') :=
    fun l' hl' => inv_move I t hp s.mem l' I.wn hl' (fun u _ => I.lc u) I.rs
  cases hl : s.loc t <;> rw [hl] at h hlc
  case idle => simp [op] at h
  case done => simp [op] at h
  case bad => simp [op] at h
  case pbDone => simp [op] at h
  case inWake => simp [op, effRes] at h
  case rcWake g => simp [op, effRes] at h
  case inStore i =>
    a_norm
    have hi : ∀ j, s.mem (fIn j) = 2 → upd s.mem (fIn i) 2 (fIn j) = 2 := by
      intro j hj
      by_cases hij : j = i
      · subst hij; simp
      · rw [upd_other _ _ _ _ (fun hh => hij ((fIn_ne j i).2.2.2.mp hh))]; exact hj
    have h0 := upd_other s.mem (fIn i) 0 2 (fIn_ne i i).1.symm
    have h1 := upd_other s.mem (fIn i) 1 2 (fIn_ne i i).2.1.symm
    have h2 := upd_other s.mem (fIn i) 2 2 (fIn_ne i i).2.2.1.symm
    refine inv_move I t hp _ _ (WinOK_frame I.wn h0 hi) (by simp [cont, LocA])
      (fun u _ => LocA_frame (I.lc u) h0 (fun h => by rw [h1]; exact h) h2 hi) (fun hr => ?_)
    rw [h1] at hr
    rw [h2, h0]; exact I.rs hr
  case pbLoad i =>
    a_norm
    refine hsame _ ?_
    simp only [cont]
    split
    · rename_i hr; exact ⟨hlc, hr⟩
    · trivial
  case wA g =>
    a_norm
    refine hsame _ ?_
    simp only [cont]
    split
    · rename_i hr; exact hr
    · trivial
  case wB g =>
    a_norm
    refine hsame _ ?_
    simp only [cont]
    split
    · rename_i hr; exact hr
    · trivial
  case wC g c =>
    a_norm
    exact hsame _ trivial
  case ctCas i =>
    a_norm
    · -- this continuation wins
      rename_i hw
      obtain ⟨hiN, hir⟩ := hlc
      have hfi : ∀ j, upd s.mem 0 (i : Int) (fIn j) = s.mem (fIn j) :=
        fun j => upd_other _ _ _ _ (fIn_ne j j).1
      refine inv_move I t hp _ _ ?_ (by simp [cont, hw, LocA])
        (fun u _ => LocA_win (I.lc u) hw (upd_other _ _ _ _ (by decide)) hfi) (fun hr => ?_)
      · right
        simp only [upd_same]
        refine ⟨by omega, by omega, ?_⟩
        rw [hfi]; simpa using hir
      · rw [upd_other _ _ _ _ (by decide)] at hr
        have := (I.rs hr).2; exact absurd hw this
    · rename_i hw
      exact hsame _ (by simp [cont, hw, LocA])
  case rcCas g =>
    a_norm
    · rename_i h0
      have hfi : ∀ j, upd s.mem 1 1 (fIn j) = s.mem (fIn j) := fun j => upd_other _ _ _ _ (fIn_ne j j).2.1
      refine inv_move I t hp _ _ (WinOK_frame I.wn (upd_other _ _ _ _ (by decide)) (fun j hj => by rw [hfi]; exact hj))
        (by simp [cont, h0, LocA])
        (fun u _ => LocA_frame (I.lc u) (upd_other _ _ _ _ (by decide)) (fun h2 => by omega)
          (upd_other _ _ _ _ (by decide)) (fun j hj => by rw [hfi]; exact hj))
        (fun hr => by simp [upd] at hr)
    · rename_i h0
      refine hsame _ ?_
      simp only [cont, if_neg h0]; split <;> simp [LocA]
  case waLoad g =>
    a_norm
    refine hsame _ ?_
    simp only [cont]
    split
    · trivial
    · rename_i hw; exact ⟨rfl, hw⟩
  case waCas g =>
    have hin0 : s.mem (fIn 0) = 2 := hlc
    a_norm
    · rename_i hw
      have hfi : ∀ j, upd s.mem 0 (0 : Int) (fIn j) = s.mem (fIn j) :=
        fun j => upd_other _ _ _ _ (fIn_ne j j).1
      refine inv_move I t hp _ _ ?_ (by simp [cont, LocA, upd])
        (fun u _ => LocA_win (I.lc u) hw (upd_other _ _ _ _ (by decide)) hfi) (fun hr => ?_)
      · right
        simp only [upd_same]
        refine ⟨by omega, by omega, ?_⟩
        rw [hfi]; simpa using hin0
      · rw [upd_other _ _ _ _ (by decide)] at hr
        have := (I.rs hr).2; exact absurd hw this
    · rename_i hw
      exact hsame _ (by simpa [cont, LocA] using hw)
  case waLoad2 g =>
    a_norm
    exact hsame _ (by simp only [cont, LocA]; exact ⟨trivial, hlc⟩)
  case rcVal g w =>
    a_norm
    obtain ⟨h0, hw⟩ := hlc
    have hfi : ∀ j, upd s.mem 2 w (fIn j) = s.mem (fIn j) := fun j => upd_other _ _ _ _ (fIn_ne j j).2.2.1
    have e0 : upd s.mem 2 w 0 = s.mem 0 := upd_other _ _ _ _ (by decide)
    have e1 : upd s.mem 2 w 1 = s.mem 1 := upd_other _ _ _ _ (by decide)
    refine inv_move I t hp _ _ (WinOK_frame I.wn e0 (fun j hj => by rw [hfi]; exact hj))
      (by simp only [cont, LocA, upd_same, e0]; exact ⟨h0.symm, by omega⟩)
      (fun u _ => by have := LocA_val (I.lc u); rw [h0] at this; exact this) (fun hr => ?_)
    · rw [e1] at hr
      rw [upd_same, e0]
      exact ⟨by omega, by omega⟩
  case rcStore g =>
    a_norm
    obtain ⟨h2, hw⟩ := hlc
    have hfi : ∀ j, upd s.mem 1 2 (fIn j) = s.mem (fIn j) := fun j => upd_other _ _ _ _ (fIn_ne j j).2.1
    have e0 : upd s.mem 1 2 0 = s.mem 0 := upd_other _ _ _ _ (by decide)
    have e2 : upd s.mem 1 2 2 = s.mem 2 := upd_other _ _ _ _ (by decide)
    refine inv_move I t hp _ _ (WinOK_frame I.wn e0 (fun j hj => by rw [hfi]; exact hj))
      (by simp only [cont, LocA, e0, e2, upd_same]; exact ⟨h2, hw, trivial⟩)
      (fun u _ => LocA_frame (I.lc u) e0 (fun _ => upd_same _ _ _) e2 (fun j hj => by rw [hfi]; exact hj))
      (fun _ => by rw [e2, e0]; exact ⟨h2, hw⟩)
  case gtLoad =>
    a_norm
    refine hsame _ ?_
    simp only [cont]
    split
    · rename_i hr; exact hr
    · split <;> simp [LocA]
  case gwLoad =>
    a_norm
    refine hsame _ ?_
    simp only [cont]
    split
    · rename_i hr; exact hr
    · simp [LocA]
  case gwWait c =>
    a_norm
    exact hsame _ (by simp [cont, LocA])
  case gtVal =>
    a_norm
    exact hsame _ (by simp [cont, LocA])

/-- frame lemma for the actions that leave the memory alone -/
theorem inv_relabel {N : Nat} {s s' : State (AP N)} (I : Inv N s) (hm : s'.mem = s.mem)
    (hloc : ∀ u, s'.loc u = s.loc u ∨ LocA N s.mem (s'.loc u))
    (hpk : ∀ u f b, s'.parked u = some (f, b) → s.parked u = some (f, b) ∧ s'.loc u = s.loc u) :
    Inv N s' := by
  refine ⟨fun u f b hu => ?_, by rw [hm]; exact I.wn, fun u => ?_, by rw [hm]; exact I.rs⟩
  · obtain ⟨h1, h2⟩ := hpk u f b hu
    rw [h2]; exact I.pk u f b h1
  · rw [hm]
    rcases hloc u with h | h
    · rw [h]; exact I.lc u
    · exact h

/-- a thread leaving a futex wait goes back to its load -/
theorem LocA_unpark {N : Nat} {m : Fld → Int} {pc : PC}
    (hpc : (∃ g cur, pc = .wC g cur) ∨ (∃ cur, pc = .gwWait cur)) (r : Int) :
    LocA N m (cont pc r) := by
  rcases hpc with ⟨g, cur, rfl⟩ | ⟨cur, rfl⟩ <;> simp [cont, LocA]

theorem inv_exec {N : Nat} (hN : 1 ≤ N) {s s' : State (AP N)} (a : Act (AP N)) (I : Inv N s)
    (h : exec s a = some s') : Inv N s' := by
  cases a with
  | step t => exact inv_step hN I h
  | wake t ws =>
    obtain ⟨hp, f, n, ho, hnd, hsub, hall, htw, rfl⟩ := exec_wake_inv h
    have ho' : op (s.loc t) = some (.fwake f n) := ho
    refine inv_relabel I (by simp) (fun u => ?_) (fun u g b hu => ?_)
    · simp only [setLoc_loc, unparkAll_loc s ws hnd]
      by_cases hut : u = t
      · subst hut
        right
        simp only [if_true, if_neg htw]
        show LocA N s.mem (cont (s.loc u) _)
        have hlu := I.lc u
        cases hpc : s.loc u <;> rw [hpc] at ho' hlu <;> simp [op] at ho'
        · simp [cont, LocA]
        · simp only [cont]; split
          · exact hlu.2.2
          · trivial
      · simp only [if_neg hut]
        by_cases huw : u ∈ ws
        · simp only [if_pos huw]
          obtain ⟨_, b, hb⟩ := (mem_parkedOn s f u).mp (hsub u huw)
          exact Or.inr (LocA_unpark (I.pk u f b hb) _)
        · simp only [if_neg huw]; exact Or.inl trivial
    · simp only [setLoc_parked, unparkAll_parked] at hu
      split at hu
      · cases hu
      · rename_i huw
        have hut : u ≠ t := fun h' => by rw [h', hp] at hu; cases hu
        exact ⟨hu, by simp [hut, huw, unparkAll_loc s ws hnd]⟩
  | timeout t =>
    obtain ⟨p, r, hp, rfl⟩ := exec_unpark_inv (Or.inl h)
    obtain ⟨f, b⟩ := p
    refine inv_relabel I (by simp) (fun u => ?_) (fun u g b' hu => ?_)
    · simp only [setLoc_loc, setParked_loc]
      split
      · rename_i hut; subst hut
        exact Or.inr (LocA_unpark (I.pk u f b hp) _)
      · exact Or.inl rfl
    · simp only [setLoc_parked, setParked_parked] at hu
      split at hu
      · cases hu
      · rename_i hut; exact ⟨hu, by simp [hut]⟩
  | spurious t =>
    obtain ⟨p, r, hp, rfl⟩ := exec_unpark_inv (Or.inr h)
    obtain ⟨f, b⟩ := p
    refine inv_relabel I (by simp) (fun u => ?_) (fun u g b' hu => ?_)
    · simp only [setLoc_loc, setParked_loc]
      split
      · rename_i hut; subst hut
        exact Or.inr (LocA_unpark (I.pk u f b hp) _)
      · exact Or.inl rfl
    · simp only [setLoc_parked, setParked_parked] at hu
      split at hu
      · cases hu
      · rename_i hut; exact ⟨hu, by simp [hut]⟩
  | call t l =>
    obtain ⟨hp, ho, he, hm, hpk, hloc, hth⟩ := exec_call_inv h
    refine inv_relabel I hm (fun u => ?_) (fun u g b hu => ?_)
    · rw [hloc]
      split
      · right
        have he' : entry N (s.loc t) l = true := he
        simp only [entry, Bool.or_eq_true, Bool.and_eq_true] at he'
        rcases he' with ⟨_, h2⟩ | h2
        · cases l <;> simp [isEntry] at h2 <;> first | trivial | exact h2
        · have hlt := I.lc t
          cases hpc : s.loc t <;> rw [hpc] at h2 hlt <;> cases l <;> simp at h2
          subst h2
          exact hlt
      · exact Or.inl rfl
    · rw [hpk] at hu
      have hut : u ≠ t := fun h' => by rw [h', hp] at hu; cases hu
      exact ⟨hu, by rw [hloc, if_neg hut]⟩

theorem inv_init (N : Nat) : Inv N (init N : State (AP N)) :=
  ⟨fun u f b h => (by cases h), Or.inl (by simp [init, initState]), fun _ => trivial,
    fun h => (by simp [init, initState] at h)⟩

theorem inv_reachable {N : Nat} (hN : 1 ≤ N) {s : State (proto N)} (h : Reachable (init N) s) :
    Inv N (s : State (AP N)) :=
  invariant (P := AP N) (Inv N) (inv_init N) (fun _ a _ I he => inv_exec hN a I he) s h

end Dispenso.WhenComb.Any
