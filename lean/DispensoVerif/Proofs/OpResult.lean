import DispensoVerif.Model.OpResult

/-! Helper lemmas for C40 (`OpResult`): association-list facts about `get`/`set`/`engaged`,
the id-uniqueness invariant `WF` and the ledger invariant `Inv`, and their preservation. -/
namespace Dispenso.OpResult

abbrev Pool := List (Nat × Option Int)

/-- lookup in a raw pool -/
def lk (l : Pool) (o : Nat) : Option (Option Int) := (l.find? (·.1 = o)).map (·.2)

/-- overwrite in a raw pool -/
def upd (l : Pool) (o : Nat) (c : Option Int) : Pool :=
  l.map fun p => if p.1 = o then (p.1, c) else p

/-- engaged count of a raw pool -/
def eng (l : Pool) : Int := ((l.filter fun p => p.2.isSome).length : Nat)

theorem get_eq (s : St) (o : Nat) : get s o = lk s.objs o := rfl
theorem set_objs (s : St) (o : Nat) (c : Option Int) : (set s o c).objs = upd s.objs o c := rfl
@[simp] theorem set_live (s : St) (o : Nat) (c : Option Int) : (set s o c).live = s.live := rfl
@[simp] theorem set_next (s : St) (o : Nat) (c : Option Int) : (set s o c).next = s.next := rfl
theorem engaged_eq (s : St) : engaged s = eng s.objs := rfl

@[simp] theorem lk_nil (o : Nat) : lk [] o = none := rfl
theorem lk_cons (p : Nat × Option Int) (t : Pool) (o : Nat) :
    lk (p :: t) o = if p.1 = o then some p.2 else lk t o := by
  unfold lk
  by_cases h : p.1 = o <;> simp [h]

@[simp] theorem upd_nil (o : Nat) (c : Option Int) : upd [] o c = [] := rfl
theorem upd_cons (p : Nat × Option Int) (t : Pool) (o : Nat) (c : Option Int) :
    upd (p :: t) o c = (if p.1 = o then (p.1, c) else p) :: upd t o c := rfl

@[simp] theorem eng_nil : eng [] = 0 := rfl
theorem eng_cons (p : Nat × Option Int) (t : Pool) : eng (p :: t) = b2i p.2.isSome + eng t := by
  unfold eng b2i
  by_cases h : p.2.isSome = true <;> simp [h] <;> omega

theorem eng_append (l₁ l₂ : Pool) : eng (l₁ ++ l₂) = eng l₁ + eng l₂ := by
  unfold eng
  simp [List.filter_append]

theorem eng_single (n : Nat) (c : Option Int) : eng [(n, c)] = b2i c.isSome := by
  rw [eng_cons]; simp

theorem upd_ids (l : Pool) (o : Nat) (c : Option Int) :
    (upd l o c).map Prod.fst = l.map Prod.fst := by
  induction l with
  | nil => rfl
  | cons p t ih =>
    rw [upd_cons, List.map_cons, List.map_cons, ih]
    by_cases h : p.1 = o <;> simp [h]

theorem lk_none_iff (l : Pool) (o : Nat) : lk l o = none ↔ o ∉ l.map Prod.fst := by
  induction l with
  | nil => simp
  | cons p t ih =>
    rw [lk_cons]
    by_cases h : p.1 = o
    · simp [h]
    · simp only [h, if_false, ih, List.map_cons, List.mem_cons, not_or]
      exact ⟨fun h' => ⟨fun e => h e.symm, h'⟩, fun h' => h'.2⟩

theorem upd_of_not_mem (l : Pool) (o : Nat) (c : Option Int) (h : o ∉ l.map Prod.fst) :
    upd l o c = l := by
  induction l with
  | nil => rfl
  | cons p t ih =>
    simp only [List.map_cons, List.mem_cons, not_or] at h
    rw [upd_cons, ih h.2, if_neg (fun e => h.1 e.symm)]

theorem lk_upd_self (l : Pool) (o : Nat) (c : Option Int) :
    lk (upd l o c) o = (lk l o).map fun _ => c := by
  induction l with
  | nil => rfl
  | cons p t ih =>
    rw [upd_cons, lk_cons, lk_cons]
    by_cases h : p.1 = o <;> simp [h, ih]

theorem lk_upd_ne (l : Pool) (o o' : Nat) (c : Option Int) (hne : o' ≠ o) :
    lk (upd l o c) o' = lk l o' := by
  induction l with
  | nil => rfl
  | cons p t ih =>
    rw [upd_cons, lk_cons, lk_cons, ih]
    by_cases h : p.1 = o
    · simp [h, Ne.symm hne]
    · simp [h]

theorem lk_append (l₁ l₂ : Pool) (o : Nat) :
    lk (l₁ ++ l₂) o = (lk l₁ o).or (lk l₂ o) := by
  induction l₁ with
  | nil => simp
  | cons p t ih =>
    rw [List.cons_append, lk_cons, lk_cons, ih]
    by_cases h : p.1 = o <;> simp [h]

theorem lk_filter (l : Pool) (o o' : Nat) :
    lk (l.filter (·.1 ≠ o)) o' = if o' = o then none else lk l o' := by
  induction l with
  | nil => simp
  | cons p t ih =>
    by_cases h : p.1 = o
    · rw [List.filter_cons_of_neg (by simp [h]), ih, lk_cons]
      by_cases h' : o' = o
      · simp [h']
      · have : ¬ p.1 = o' := fun e => h' (e.symm.trans h)
        simp [h', this]
    · rw [List.filter_cons_of_pos (by simp [h]), lk_cons, lk_cons, ih]
      by_cases h' : o' = o
      · simp [h', h]
      · simp [h']

theorem filter_of_not_mem (l : Pool) (o : Nat) (h : o ∉ l.map Prod.fst) :
    l.filter (·.1 ≠ o) = l := by
  induction l with
  | nil => rfl
  | cons p t ih =>
    simp only [List.map_cons, List.mem_cons, not_or] at h
    rw [List.filter_cons_of_pos (by simpa using fun e => h.1 e.symm), ih h.2]

/-- effect of overwriting the (unique) object `o` on the engaged count -/
theorem eng_upd (l : Pool) (o : Nat) (c d : Option Int) (hn : (l.map Prod.fst).Nodup)
    (hd : lk l o = some d) : eng (upd l o c) = eng l - b2i d.isSome + b2i c.isSome := by
  induction l with
  | nil => simp at hd
  | cons p t ih =>
    rw [List.map_cons, List.nodup_cons] at hn
    rw [lk_cons] at hd
    rw [upd_cons, eng_cons, eng_cons]
    by_cases h : p.1 = o
    · simp only [h, if_true, Option.some.injEq] at hd
      rw [upd_of_not_mem t o c (h ▸ hn.1), if_pos h, hd]
      simp only
      omega
    · simp only [h, if_false] at hd
      rw [ih hn.2 hd, if_neg h]
      omega

/-- effect of removing the (unique) object `o` on the engaged count -/
theorem eng_filter (l : Pool) (o : Nat) (d : Option Int) (hn : (l.map Prod.fst).Nodup)
    (hd : lk l o = some d) : eng (l.filter (·.1 ≠ o)) = eng l - b2i d.isSome := by
  induction l with
  | nil => simp at hd
  | cons p t ih =>
    rw [List.map_cons, List.nodup_cons] at hn
    rw [lk_cons] at hd
    by_cases h : p.1 = o
    · simp only [h, if_true, Option.some.injEq] at hd
      rw [List.filter_cons_of_neg (by simp [h]), filter_of_not_mem t o (h ▸ hn.1), eng_cons, hd]
      omega
    · simp only [h, if_false] at hd
      rw [List.filter_cons_of_pos (by simp [h]), eng_cons, eng_cons, ih hn.2 hd]
      omega

theorem b2i_nonneg (b : Bool) : 0 ≤ b2i b := by unfold b2i; split <;> omega

/-! ### invariants -/

/-- ids are unique and below `next` -/
structure WF (s : St) : Prop where
  nodup : (s.objs.map Prod.fst).Nodup
  lt : ∀ p ∈ s.objs, p.1 < s.next

theorem WF.init : WF St.init := ⟨by simp [St.init], by simp [St.init]⟩

theorem WF.next_not_mem {s : St} (h : WF s) : s.next ∉ s.objs.map Prod.fst := by
  intro hm
  obtain ⟨p, hp, e⟩ := List.mem_map.1 hm
  have := h.lt p hp
  omega

theorem WF.get_next {s : St} (h : WF s) : get s s.next = none :=
  (lk_none_iff _ _).2 h.next_not_mem

theorem WF.pres_append {s : St} (h : WF s) (c : Option Int) (l : Int) :
    WF { s with objs := s.objs ++ [(s.next, c)], next := s.next + 1, live := l } := by
  constructor
  · simp only [List.map_append, List.map_cons, List.map_nil]
    rw [List.nodup_append]
    refine ⟨h.nodup, by simp, ?_⟩
    intro a ha b hb e
    simp only [List.mem_singleton] at hb
    subst hb; subst e
    exact h.next_not_mem ha
  · intro p hp
    simp only [List.mem_append, List.mem_singleton] at hp
    rcases hp with hp | hp
    · have := h.lt p hp; simp only; omega
    · subst hp; simp

theorem WF.pres_set {s : St} (h : WF s) (o : Nat) (c : Option Int) : WF (set s o c) := by
  constructor
  · rw [set_objs, upd_ids]; exact h.nodup
  · intro p hp
    have : p.1 ∈ (set s o c).objs.map Prod.fst := List.mem_map.2 ⟨p, hp, rfl⟩
    rw [set_objs, upd_ids] at this
    obtain ⟨q, hq, e⟩ := List.mem_map.1 this
    rw [← e]; exact h.lt q hq

theorem WF.pres_live {s : St} (h : WF s) (l : Int) : WF { s with live := l } := ⟨h.nodup, h.lt⟩

theorem WF.pres_filter {s : St} (h : WF s) (o : Nat) (l : Int) :
    WF { s with objs := s.objs.filter (·.1 ≠ o), live := l } := by
  constructor
  · exact (List.filter_sublist.map Prod.fst).nodup h.nodup
  · intro p hp
    exact h.lt p (List.mem_filter.1 hp).1

/-- `step` (and `stepOld`) preserve id-uniqueness -/
theorem WF.pres_stepGen {s : St} (h : WF s) (b : Bool) (op : Op) : WF (stepGen b s op).1 := by
  cases op with
  | mkEmpty => exact h.pres_append none _
  | mkVal v => exact h.pres_append (some v) _
  | copyCtor src =>
    simp only [OpResult.stepGen]
    split
    · exact h
    · exact h.pres_append _ _
  | moveCtor src =>
    simp only [OpResult.stepGen]
    split
    · exact h
    · next c _ =>
      have h1 := (h.pres_append c (s.live + b2i c.isSome)).pres_set src none
      cases b
      · exact h1
      · exact h1.pres_live _
  | copyAssign dst src =>
    simp only [OpResult.stepGen]
    split
    · split
      · exact h
      · exact (h.pres_live _).pres_set _ _
    · exact h
  | moveAssign dst src =>
    simp only [OpResult.stepGen]
    split
    · split
      · exact h
      · next d c _ _ _ =>
        have h1 := (((h.pres_live (s.live - b2i d.isSome + b2i c.isSome)).pres_set dst c).pres_set src none)
        cases b
        · exact h1
        · exact h1.pres_live _
    · exact h
  | emplace dst v =>
    simp only [OpResult.stepGen]
    split
    · exact (h.pres_live _).pres_set _ _
    · exact h
  | destroy o =>
    simp only [OpResult.stepGen]
    split
    · exact h.pres_filter _ _
    · exact h
  | query o =>
    simp only [OpResult.stepGen]
    split <;> exact h

theorem WF.pres_step {s : St} (h : WF s) (op : Op) : WF (step s op).1 := h.pres_stepGen true op

/-! ### `get` after the primitive updates -/

theorem get_append (s : St) (c : Option Int) (l : Int) (n' o : Nat) :
    get { s with objs := s.objs ++ [(s.next, c)], next := n', live := l } o
      = (get s o).or (if s.next = o then some c else none) := by
  rw [get_eq, get_eq, lk_append, lk_cons, lk_nil]

theorem get_set_self (s : St) (o : Nat) (c : Option Int) :
    get (set s o c) o = (get s o).map fun _ => c := by
  rw [get_eq, set_objs, lk_upd_self, get_eq]

theorem get_set_ne (s : St) (o o' : Nat) (c : Option Int) (h : o' ≠ o) :
    get (set s o c) o' = get s o' := by
  rw [get_eq, set_objs, lk_upd_ne _ _ _ _ h, get_eq]

theorem get_live (s : St) (l : Int) (o : Nat) : get { s with live := l } o = get s o := rfl

theorem get_filter (s : St) (l : Int) (o o' : Nat) :
    get { s with objs := s.objs.filter (·.1 ≠ o), live := l } o'
      = if o' = o then none else get s o' := by
  rw [get_eq, get_eq, lk_filter]

/-! ### the ledger invariant -/

structure Inv (s : St) : Prop where
  wf : WF s
  ledger : s.live = engaged s

theorem Inv.init : Inv St.init := ⟨WF.init, rfl⟩

theorem engaged_append (s : St) (c : Option Int) (l : Int) (n' : Nat) :
    engaged { s with objs := s.objs ++ [(s.next, c)], next := n', live := l }
      = engaged s + b2i c.isSome := by
  rw [engaged_eq, engaged_eq, eng_append, eng_single]

theorem engaged_set {s : St} (h : WF s) (o : Nat) (c d : Option Int) (hd : get s o = some d) :
    engaged (set s o c) = engaged s - b2i d.isSome + b2i c.isSome := by
  rw [engaged_eq, set_objs, eng_upd _ _ _ _ h.nodup hd, engaged_eq]

theorem engaged_live (s : St) (l : Int) : engaged { s with live := l } = engaged s := rfl

theorem engaged_filter {s : St} (h : WF s) (o : Nat) (d : Option Int) (l : Int)
    (hd : get s o = some d) :
    engaged { s with objs := s.objs.filter (·.1 ≠ o), live := l } = engaged s - b2i d.isSome := by
  rw [engaged_eq, engaged_eq, eng_filter _ _ _ h.nodup hd]

theorem Inv.pres_step {s : St} (h : Inv s) (op : Op) : Inv (step s op).1 := by
  refine ⟨h.wf.pres_step op, ?_⟩
  have hl := h.ledger
  have hw := h.wf
  cases op with
  | mkEmpty =>
    simp only [OpResult.step, OpResult.stepGen]
    rw [engaged_append]; simp [b2i, hl]
  | mkVal v =>
    simp only [OpResult.step, OpResult.stepGen]
    rw [engaged_append]; simp [b2i, hl]
  | copyCtor src =>
    simp only [OpResult.step, OpResult.stepGen]
    split
    · exact hl
    · simp only; rw [engaged_append, hl]
  | moveCtor src =>
    simp only [OpResult.step, OpResult.stepGen]
    split
    · exact hl
    · next c hc =>
      simp only [if_true, set_live]
      have hw1 := hw.pres_append c (s.live + b2i c.isSome)
      have hg : get { s with objs := s.objs ++ [(s.next, c)], next := s.next + 1,
                             live := s.live + b2i c.isSome } src = some c := by
        rw [get_append, hc]; rfl
      rw [engaged_live, engaged_set hw1 src none c hg, engaged_append, hl]
      simp [b2i]
  | copyAssign dst src =>
    simp only [OpResult.step, OpResult.stepGen]
    split
    · next d c hd hc =>
      split
      · exact hl
      · rw [set_live, engaged_set (hw.pres_live _) dst c d (by rw [get_live]; exact hd), engaged_live, hl]
    · exact hl
  | moveAssign dst src =>
    simp only [OpResult.step, OpResult.stepGen]
    split
    · next d c hd hc =>
      split
      · exact hl
      · next hne =>
        simp only [if_true, set_live]
        have hw1 := hw.pres_live (s.live - b2i d.isSome + b2i c.isSome)
        have hg : get (set { s with live := s.live - b2i d.isSome + b2i c.isSome } dst c) src
            = some c := by
          rw [get_set_ne _ _ _ _ (Ne.symm hne), get_live]; exact hc
        rw [engaged_live, engaged_set (hw1.pres_set dst c) src none c hg,
          engaged_set hw1 dst c d (by rw [get_live]; exact hd), engaged_live, hl]
        simp [b2i]
    · exact hl
  | emplace dst v =>
    simp only [OpResult.step, OpResult.stepGen]
    split
    · next d hd =>
      rw [set_live, engaged_set (hw.pres_live _) dst (some v) d (by rw [get_live]; exact hd),
        engaged_live, hl]
      simp [b2i]
    · exact hl
  | destroy o =>
    simp only [OpResult.step, OpResult.stepGen]
    split
    · next d hd =>
      simp only
      rw [engaged_filter hw o d _ hd, hl]
    · exact hl
  | query o =>
    simp only [OpResult.step, OpResult.stepGen]
    split <;> exact hl

theorem Inv.pres_runOps {s : St} (h : Inv s) (ops : List Op) : Inv (runOps step s ops) := by
  induction ops generalizing s with
  | nil => exact h
  | cons o os ih => exact ih (h.pres_step o)

theorem WF.pres_runOps {s : St} (h : WF s) (ops : List Op) : WF (runOps step s ops) := by
  induction ops generalizing s with
  | nil => exact h
  | cons o os ih => exact ih (h.pres_step o)

end Dispenso.OpResult
