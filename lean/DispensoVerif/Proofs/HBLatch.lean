import DispensoVerif.Proofs.HBEvent
/-
C10 for `Latch`: data written by each participant before its `count_down()` /
`arrive_and_wait()` is visible to every thread whose `wait()` / `try_wait()` /
`arrive_and_wait()` observed the count at zero.

Client model: `cproto true isLatchEntry` of `HBEvent.lean` (plain accesses between calls; at most
one publishing call per thread).  Contract (`Party`): a duplicate-free list `parts` of participant
threads, the initial count is `parts.length`, every participant counts down by one (once), only
participants write, and only locations they own (`owner x = t`).
-/
namespace Dispenso.Event
open Dispenso.Conc Dispenso.HB

abbrev laP : Proto := cproto true isLatchEntry

/-- the orders the publication needs (a sub-table of `binding.reqOrder`) -/
def needLa : L → Nat
  | .ntStore _ => 3 | .wLoad _ => 2 | .wfLoad0 _ _ => 2 | .wfLoad _ => 2 | .twLoad => 2
  | .cdSub _ => 4 | .awSub => 4
  | _ => 0

def isPubL : L → Bool
  | .cdSub _ => true
  | .awSub => true
  | _ => false

/-- the participant's decrement has not been executed yet -/
abbrev pend (c : CL) : Bool := c.wr || isPubL c.l

def Party (parts : List TId) (owner : Fld → TId) (a : Act laP) : Prop :=
  ∀ t (c : CL), a = Act.call t c →
    (∀ w x, c.acc = some (w, x) → (w = true → t ∈ parts ∧ owner x = t) ∧
      (w = false → c.rd = true ∨ (t ∈ parts ∧ owner x = t))) ∧
    (c.acc = none → (∀ n, c.l = .cdSub n → n = 1 ∧ t ∈ parts) ∧ (c.l = .awSub → t ∈ parts))

/-! ### counting the pending participants -/

theorem countP_zero {p : TId → Bool} {l : List TId} (h : l.countP p = 0) :
    ∀ t ∈ l, p t = false := by
  intro t ht
  have := List.countP_eq_zero.1 h t ht
  simpa using this

theorem countP_flip {p p' : TId → Bool} {l : List TId} (hn : l.Nodup) {t : TId} (ht : t ∈ l)
    (h1 : p t = true) (h2 : p' t = false) (h3 : ∀ u, u ≠ t → p' u = p u) :
    l.countP p = l.countP p' + 1 := by
  induction l with
  | nil => cases ht
  | cons a as ih =>
    have hn' := List.nodup_cons.1 hn
    by_cases e : a = t
    · subst e
      have hrest : as.countP p = as.countP p' := by
        apply List.countP_congr
        intro u hu
        have : u ≠ a := fun e => hn'.1 (e ▸ hu)
        rw [h3 u this]
      simp [List.countP_cons, h1, h2, hrest]
    · have ht' : t ∈ as := by
        rcases List.mem_cons.1 ht with h | h
        · exact absurd h.symm e
        · exact h
      have := ih hn'.2 ht'
      simp [List.countP_cons, h3 a e, this]
      omega

theorem countP_one {p : TId → Bool} {l : List TId} (hn : l.Nodup) {t : TId} (ht : t ∈ l)
    (h1 : p t = true) (hc : l.countP p = 1) : ∀ u ∈ l, u ≠ t → p u = false := by
  have := countP_flip (p' := fun u => if u = t then false else p u) hn ht h1 (by simp)
    (fun u hu => by simp [hu])
  have h0 : l.countP (fun u => if u = t then false else p u) = 0 := by omega
  intro u hu hne
  have := countP_zero h0 u hu
  simpa [hne] using this

theorem countP_same {p p' : TId → Bool} {l : List TId} (h : ∀ u ∈ l, p' u = p u) :
    l.countP p' = l.countP p := by
  apply List.countP_congr
  intro u hu
  rw [h u hu]

/-! ### the invariant -/

structure LocL (parts : List TId) (owner : Fld → TId) (m0 : Int) (d : D) (t : TId) (c : CL) :
    Prop where
  wf : wf 0 c.l
  ncl : c.l ≠ .cLoad
  rd : c.rd = true → m0 = 0 ∧ ∀ x, owner x ∈ parts → d.cW t x = true
  nt : ∀ v, c.l = .ntStore v → m0 = 0 ∧ ∀ x, owner x ∈ parts → d.cW t x = true
  pub : isPubL c.l = true → t ∈ parts ∧ c.wr = false ∧ ∀ n, c.l = .cdSub n → n = 1
  acc : ∀ w x, c.acc = some (w, x) → 1 ≤ x ∧ op c.l = none ∧
    (w = true → t ∈ parts ∧ owner x = t ∧ c.wr = true) ∧
    (w = false → c.rd = true ∨ (t ∈ parts ∧ owner x = t))

structure LJ (parts : List TId) (owner : Fld → TId) (s : State laP) (d : D) : Prop where
  pk : ParkedFutex s
  nd : parts.Nodup
  cnt : s.mem 0 = ((parts.countP fun t => pend (s.loc t) : Nat) : Int)
  cWo : ∀ t ∈ parts, ∀ x, owner x = t → d.cW t x = true
  cAo : ∀ t ∈ parts, (s.loc t).wr = true → ∀ x, owner x = t → d.cA t x = true
  msg : ∀ t ∈ parts, pend (s.loc t) = false → ∀ x, owner x = t → d.mW 0 x = true
  free : ∀ x, owner x ∉ parts → ∀ t, d.cW t x = true
  loc : ∀ t, LocL parts owner (s.mem 0) d t (s.loc t)

theorem lj_init (parts : List TId) (owner : Fld → TId) (hn : parts.Nodup) :
    LJ parts owner (cinit true isLatchEntry parts.length) D.init := by
  refine ⟨parkedFutex_init _ _, hn, ?_, fun _ _ _ _ => rfl, fun _ _ _ _ _ => rfl, ?_,
    fun _ _ _ => rfl, ?_⟩
  · show ((parts.length : Nat) : Int) = _
    congr 1
    rw [List.countP_eq_length.2]
    intro t _; rfl
  · intro t _ h; simp [cinit, initState, pend] at h
  · intro t
    refine ⟨trivial, by simp [cinit, initState], ?_, ?_, ?_, ?_⟩
    · intro h; simp [cinit, initState] at h
    · intro v h; simp [cinit, initState] at h
    · intro h; simp [cinit, initState, isPubL] at h
    · intro w x h; simp [cinit, initState] at h

theorem LocL.mono {parts : List TId} {owner : Fld → TId} {m0 : Int} {d d' : D} {u : TId} {c : CL}
    (h : LocL parts owner m0 d u c) (hc : ∀ x, d.cW u x = true → d'.cW u x = true) :
    LocL parts owner m0 d' u c :=
  ⟨h.wf, h.ncl, fun hr => ⟨(h.rd hr).1, fun x hx => hc x ((h.rd hr).2 x hx)⟩,
   fun v hv => ⟨(h.nt v hv).1, fun x hx => hc x ((h.nt v hv).2 x hx)⟩, h.pub, h.acc⟩

/-- while the count is positive nobody has observed zero and nobody is about to store it -/
theorem LocL.pos {parts : List TId} {owner : Fld → TId} {m0 m0' : Int} {d d' : D} {u : TId}
    {c : CL} (h : LocL parts owner m0 d u c) (hp : 1 ≤ m0) : LocL parts owner m0' d' u c :=
  ⟨h.wf, h.ncl, fun hr => by have := (h.rd hr).1; omega,
   fun v hv => by have := (h.nt v hv).1; omega, h.pub, h.acc⟩

theorem futex_cont2 {l : L} (h : isFutexOp (op l) = true) (r : Int) :
    cont l r ≠ .cLoad ∧ isPubL (cont l r) = false ∧ isPubL l = false := by
  cases l <;> simp [op, isFutexOp] at h <;> simp [cont, isPubL]
  all_goals (split <;> simp)

theorem load_cont2 {l : L} (k : op l = some (.load 0)) (r : Int) :
    cont l r ≠ .cLoad ∧ isPubL (cont l r) = false ∧ isPubL l = false := by
  cases l <;> simp [op] at k
  all_goals simp only [cont]
  all_goals refine ⟨?_, ?_, rfl⟩
  all_goals (repeat' split)
  all_goals (first | rfl | (intro hh; cases hh))

theorem load_observed0 {l : L} (k : op l = some (.load 0)) (hwf : wf 0 l) (hn : l ≠ .cLoad)
    {r : Int} (h : observed l r = true) : r = 0 ∧ needLa l = 2 := by
  cases l <;> simp [op] at k <;> simp [observed] at h <;> simp only [wf] at hwf <;>
    first | exact absurd rfl hn | (refine ⟨by omega, rfl⟩)

theorem store_facts0 {l : L} {cv : Int} (k : op l = some (.store 0 cv)) (hwf : wf 0 l) :
    (∃ v, l = .ntStore v) ∧ observed l 0 = false ∧ isPubL l = false ∧ cv = 0 := by
  cases l <;> simp [op] at k <;> simp_all [wf, observed, isPubL]

theorem fsub_facts {l : L} {n : Int} (k : op l = some (.fsub 0 n)) :
    isPubL l = true ∧ (l = .cdSub n ∨ (l = .awSub ∧ n = 1)) := by
  cases l <;> simp [op] at k <;> simp_all [isPubL]

variable {parts : List TId} {owner : Fld → TId}

/-- a thread continues from a futex operation (woken, timed out, or `EAGAIN`) -/
theorem sched_loc {m0 : Int} {d : D} {u : TId} {c : CL} (h : LocL parts owner m0 d u c)
    (hf : isFutexOp (laP.op c) = true) (r : Int) :
    (laP.cont c r).wr = c.wr ∧ pend (laP.cont c r) = pend c ∧
      LocL parts owner m0 d u (laP.cont c r) := by
  have hacc : c.acc = none := by
    cases ha : c.acc with
    | none => rfl
    | some p =>
      obtain ⟨w, x⟩ := p
      have : laP.op c = cop c := rfl
      rw [this] at hf
      cases w <;> simp [cop, ha, isFutexOp] at hf
  have hf' : isFutexOp (op c.l) = true := by
    have : laP.op c = cop c := rfl
    rw [this] at hf
    simpa [cop, hacc] using hf
  obtain ⟨f1, _, f3⟩ := futex_cont hf' r
  obtain ⟨g1, g2, g3⟩ := futex_cont2 hf' r
  have e2 : laP.cont c r = { c with l := cont c.l r, rd := c.rd || observed c.l r } := by
    show ccont c r = _
    simp [ccont, hacc]
  rw [e2, f1, Bool.or_false]
  refine ⟨rfl, by simp [pend, g2, g3], wf_cont r h.wf, g1, h.rd,
    fun v hv => absurd hv (f3 v), fun hp => ?_, fun w x hx => by simp [hacc] at hx⟩
  rw [g2] at hp; cases hp

theorem lj_step (o : L → Nat) (ho : ∀ l, ordGE (needLa l) (o l) = true)
    {s s' : State laP} {d : D} {a : Act laP} (hJ : LJ parts owner s d)
    (hok : Party parts owner a) (he : exec s a = some s') :
    ∃ d', d.run (hevl (cSpec true isLatchEntry o) s a) = some d' ∧ LJ parts owner s' d' := by
  have pk' := parkedFutex_exec hJ.pk he
  obtain ⟨pk, nd, cnt, cWo, cAo, msg, free, hloc⟩ := hJ
  -- consequences of the count
  have zero_np : s.mem 0 = 0 → ∀ u ∈ parts, pend (s.loc u) = false := by
    intro h0 u hu
    rw [cnt] at h0
    exact countP_zero (p := fun t => pend (s.loc t)) (by omega) u hu
  cases exec_kind (cSpec true isLatchEntry o) pk he with
  | sched hmem hev hl =>
    have key : ∀ u, (s'.loc u).wr = (s.loc u).wr ∧ pend (s'.loc u) = pend (s.loc u) ∧
        LocL parts owner (s.mem 0) d u (s'.loc u) := by
      intro u
      rcases hl u with e | ⟨hf, r, e⟩
      · rw [e]; exact ⟨rfl, rfl, hloc u⟩
      · rw [e]; exact sched_loc (hloc u) hf r
    refine ⟨d, by rw [hev]; rfl, pk', nd, ?_, cWo, ?_, ?_, free, ?_⟩
    · rw [hmem, cnt, countP_same (fun u _ => (key u).2.1)]
    · intro t ht hw; rw [(key t).1] at hw; exact cAo t ht hw
    · intro t ht hp; rw [(key t).2.1] at hp; exact msg t ht hp
    · intro u; rw [hmem]; exact (key u).2.2
  | call t c' ha hop hent hmem hev hl =>
    subst ha
    have h := hloc t
    obtain ⟨ok1, ok2⟩ := hok t c' rfl
    have hent' : centry true isLatchEntry (s.loc t) c' = true := hent
    simp only [centry, Bool.and_eq_true] at hent'
    obtain ⟨⟨hn, hidle⟩, hrest⟩ := hent'
    have hopl : op (s.loc t).l = none := op_idle hidle
    have hnp0 : isPubL (s.loc t).l = false := by
      cases hh : (s.loc t).l <;> simp [hh, idleOrDone] at hidle <;> rfl
    have key : c'.wr = true → (s.loc t).wr = true := by
      intro hw
      cases hacc : c'.acc with
      | some p =>
        obtain ⟨w, x⟩ := p
        simp only [hacc, Bool.and_eq_true, decide_eq_true_eq, beq_iff_eq] at hrest
        rw [← hrest.1.1.1.2]; exact hw
      | none =>
        simp only [hacc, Bool.and_eq_true, beq_iff_eq] at hrest
        rw [hrest.1.2] at hw
        simp only [Bool.and_eq_true] at hw
        exact hw.1
    have keyp : pend c' = pend (s.loc t) := by
      cases hacc : c'.acc with
      | some p =>
        obtain ⟨w, x⟩ := p
        simp only [hacc, Bool.and_eq_true, decide_eq_true_eq, beq_iff_eq] at hrest
        obtain ⟨⟨⟨⟨e1, e2⟩, e3⟩, e4⟩, e5⟩ := hrest
        simp [pend, e1, e2]
      | none =>
        simp only [hacc, Bool.and_eq_true, beq_iff_eq, Bool.or_eq_true, Bool.not_eq_true'] at hrest
        obtain ⟨⟨⟨e1, eo⟩, e2⟩, e3⟩ := hrest
        simp only [pend, hnp0, e2]
        cases hp : publishes c'.l
        · have : isPubL c'.l = false := by
            cases hh : c'.l <;> simp [hh, publishes] at hp <;> rfl
          simp [this]
        · have hw : (s.loc t).wr = true := by
            rcases eo with eo | eo
            · simp [hp] at eo
            · exact eo
          have : isPubL c'.l = true := by
            cases hh : c'.l <;> simp [hh, publishes] at hp <;>
              first | rfl | (rw [hh] at e1; simp [isLatchEntry] at e1)
          simp [this, hw]
    have hl' : ∀ u, s'.loc u = if u = t then c' else s.loc u := fun u => by rw [hl]
    refine ⟨d, by rw [hev]; rfl, pk', nd, ?_, cWo, ?_, ?_, free, ?_⟩
    · have hp : ∀ u, pend (s'.loc u) = pend (s.loc u) := by
        intro u
        rw [hl' u]; split
        · rename_i e; subst e; exact keyp
        · rfl
      rw [hmem, cnt, countP_same (fun u _ => hp u)]
    · intro u hu hw
      rw [hl' u] at hw
      split at hw
      · rename_i e; subst e; exact cAo u hu (key hw)
      · exact cAo u hu hw
    · intro u hu hp
      rw [hl' u] at hp
      split at hp
      · rename_i e; subst e; rw [keyp] at hp; exact msg u hu hp
      · exact msg u hu hp
    · intro u
      rw [hmem, hl' u]
      split
      · rename_i e; subst e
        cases hacc : c'.acc with
        | some p =>
          obtain ⟨w, x⟩ := p
          simp only [hacc, Bool.and_eq_true, decide_eq_true_eq, beq_iff_eq] at hrest
          obtain ⟨⟨⟨⟨e1, e2⟩, e3⟩, e4⟩, e5⟩ := hrest
          obtain ⟨k1, k2⟩ := ok1 w x hacc
          refine ⟨by rw [e1]; exact h.wf, by rw [e1]; exact h.ncl, by rw [e3]; exact h.rd,
            by rw [e1]; exact h.nt, by rw [e1, e2]; exact h.pub, ?_⟩
          intro w' x' hx
          rw [hacc] at hx
          simp only [Option.some.injEq, Prod.mk.injEq] at hx
          obtain ⟨rfl, rfl⟩ := hx
          refine ⟨e4, by rw [e1]; exact hopl, ?_, ?_⟩
          · intro hw; subst hw
            simp only [if_true] at e5
            exact ⟨(k1 rfl).1, (k1 rfl).2, by rw [e2]; exact e5⟩
          · intro hw; subst hw
            rcases k2 rfl with k | k
            · left; exact k
            · right; exact k
        | none =>
          simp only [hacc, Bool.and_eq_true, beq_iff_eq] at hrest
          obtain ⟨⟨⟨e1, eo⟩, e2⟩, e3⟩ := hrest
          refine ⟨latchE_wf (s.loc u).l c'.l (by simp [latchE, hidle, e1]), ?_, ?_, ?_, ?_, ?_⟩
          · intro hh; rw [hh] at e1; simp [isLatchEntry] at e1
          · rw [e3]; exact h.rd
          · intro v hv; rw [hv] at e1; simp [isLatchEntry] at e1
          · intro hp
            have hpub : publishes c'.l = true := by
              cases hh : c'.l <;> simp [hh, isPubL] at hp <;> rfl
            refine ⟨?_, by rw [e2, hpub]; simp, fun n hn => ((ok2 hacc).1 n hn).1⟩
            cases hh : c'.l <;> simp [hh, isPubL] at hp
            · exact ((ok2 hacc).1 _ hh).2
            · exact (ok2 hacc).2 hh
          · intro w x hx; rw [hacc] at hx; cases hx
      · exact hloc u
  | op t o_ r eff ha hop hnf hme hmem hl hev =>
    subst ha
    have h := hloc t
    have hop' : cop (s.loc t) = some o_ := hop
    have hl' : ∀ u, s'.loc u = if u = t then laP.cont (s.loc t) r else s.loc u :=
      fun u => by rw [hl]
    cases hacc : (s.loc t).acc with
    | some p =>
      obtain ⟨w, x⟩ := p
      obtain ⟨x1, x2, x3, x4⟩ := h.acc w x hacc
      have hx0 : x ≠ 0 := Nat.ne_of_gt x1
      have e2 : laP.cont (s.loc t) r = { s.loc t with acc := none } := by
        show ccont (s.loc t) r = _
        simp [ccont, hacc]
      have hself : LocL parts owner (s.mem 0) d t { s.loc t with acc := none } :=
        ⟨h.wf, h.ncl, h.rd, h.nt, h.pub, fun w x hx => by simp at hx⟩
      have hwr : ∀ u, (s'.loc u).wr = (s.loc u).wr := by
        intro u; rw [hl' u]; split
        · rename_i e; subst e; rw [e2]
        · rfl
      have hpd : ∀ u, pend (s'.loc u) = pend (s.loc u) := by
        intro u; rw [hl' u]; split
        · rename_i e; subst e; rw [e2]
        · rfl
      cases w with
      | true =>
        obtain ⟨htp, hown, hwt⟩ := x3 rfl
        simp only [cop, hacc, Option.some.injEq] at hop'
        subst hop'
        simp only [memEffect, Option.some.injEq, Prod.mk.injEq] at hme
        obtain ⟨rfl, rfl⟩ := hme
        have hm0' : s'.mem 0 = s.mem 0 := by
          rw [hmem]; simp [applyEff, Ne.symm hx0]
        have hc := cAo t htp hwt x hown
        have hpt : pend (s.loc t) = true := by simp [pend, hwt]
        have hm0 : 1 ≤ s.mem 0 := by
          by_cases h0 : s.mem 0 < 1
          · have : s.mem 0 = 0 := by rw [cnt] at h0 ⊢; omega
            have := zero_np this t htp
            rw [hpt] at this; cases this
          · omega
        refine ⟨d.afterWrite t x, ?_, pk', nd, ?_, ?_, ?_, ?_, ?_, ?_⟩
        · rw [hev]; simp [evl1, evOfOp, cSpec, x1, step_pwrite, hc]
        · rw [hm0', cnt, countP_same (fun u _ => hpd u)]
        · intro u hu y hy
          show (d.afterWrite t x).cW u y = true
          simp only [D.afterWrite]; split
          · rename_i e; simp [← hy, e, hown]
          · exact cWo u hu y hy
        · intro u hu hw y hy
          rw [hwr u] at hw
          simp only [afterWrite_cA]; split
          · rename_i e; simp [← hy, e, hown]
          · exact cAo u hu hw y hy
        · intro u hu hp y hy
          rw [hpd u] at hp
          show (d.afterWrite t x).mW 0 y = true
          simp only [D.afterWrite]; split
          · rename_i e
            have : u = t := by rw [← hy, e, hown]
            rw [this, hpt] at hp; cases hp
          · exact msg u hu hp y hy
        · intro y hy u
          show (d.afterWrite t x).cW u y = true
          simp only [D.afterWrite]; split
          · rename_i e; rw [e, hown] at hy; exact absurd htp hy
          · exact free y hy u
        · intro u
          rw [hm0', hl' u]; split
          · rename_i e; subst e; rw [e2]; exact hself.pos hm0
          · exact (hloc u).pos hm0
      | false =>
        simp only [cop, hacc, Option.some.injEq] at hop'
        subst hop'
        simp only [memEffect, Option.some.injEq, Prod.mk.injEq] at hme
        obtain ⟨rfl, rfl⟩ := hme
        have hm0' : s'.mem 0 = s.mem 0 := by rw [hmem]; rfl
        have hc : (d.cW t x || d.cA t x) = true := by
          rcases x4 rfl with k | ⟨k1, k2⟩
          · by_cases hp : owner x ∈ parts
            · simp [(h.rd k).2 x hp]
            · simp [free x hp t]
          · simp [cWo t k1 x k2]
        refine ⟨d.afterRead t x, ?_, pk', nd, ?_, ?_, ?_, ?_, ?_, ?_⟩
        · rw [hev]; simp [evl1, evOfOp, cSpec, x1, step_pread, hc]
        · rw [hm0', cnt, countP_same (fun u _ => hpd u)]
        · intro u hu y hy; simp only [afterRead_cW]; exact cWo u hu y hy
        · intro u hu hw y hy
          rw [hwr u] at hw
          simp only [afterRead_cA]; split
          · rename_i e
            have hut : u = t := by
              rcases x4 rfl with k | ⟨_, k2⟩
              · have h0 := (h.rd k).1
                have := zero_np h0 u hu
                simp only [pend, hw, Bool.true_or] at this
                cases this
              · rw [← hy, e, k2]
            rw [hut, cAo t (hut ▸ hu) (hut ▸ hw) y (hut ▸ hy)]
            simp
          · exact cAo u hu hw y hy
        · intro u hu hp y hy
          rw [hpd u] at hp; simp only [afterRead_mW]; exact msg u hu hp y hy
        · intro y hy u; simp only [afterRead_cW]; exact free y hy u
        · intro u
          rw [hm0', hl' u]; split
          · rename_i e; subst e; rw [e2]
            exact hself.mono (fun y hy => by simpa only [afterRead_cW] using hy)
          · exact (hloc u).mono (fun y hy => by simpa only [afterRead_cW] using hy)
    | none =>
      have hop2 : op (s.loc t).l = some o_ := by simpa [cop, hacc] using hop'
      have e2 : laP.cont (s.loc t) r =
          { s.loc t with l := cont (s.loc t).l r, rd := (s.loc t).rd || observed (s.loc t).l r } := by
        show ccont (s.loc t) r = _
        simp [ccont, hacc]
      rcases op_cases (s.loc t).l with k | k | ⟨cur, b, k⟩ | k | ⟨cv, k⟩ | ⟨n, k⟩
      · rw [k] at hop2; cases hop2
      · rw [k] at hop2; cases hop2; simp [isFutexOp] at hnf
      · rw [k] at hop2; cases hop2; simp [isFutexOp] at hnf
      · -- an atomic load of the count
        rw [k] at hop2; cases hop2
        simp only [memEffect, Option.some.injEq, Prod.mk.injEq] at hme
        obtain ⟨rfl, rfl⟩ := hme
        have hm0' : s'.mem 0 = s.mem 0 := by rw [hmem]; rfl
        obtain ⟨lc1, lc2, lc3⟩ := load_cont2 k (s.mem 0)
        have hwr : ∀ u, (s'.loc u).wr = (s.loc u).wr := by
          intro u; rw [hl' u]; split
          · rename_i e; subst e; rw [e2]
          · rfl
        have hpd : ∀ u, pend (s'.loc u) = pend (s.loc u) := by
          intro u; rw [hl' u]; split
          · rename_i e; subst e; rw [e2]; simp [pend, lc2, lc3]
          · rfl
        have hcw : ∀ v y, d.cW v y = true → (d.afterLoad t 0 (o (s.loc t).l)).cW v y = true := by
          intro v y hy; simp only [afterLoad_cW]; split <;> simp [hy]
        refine ⟨d.afterLoad t 0 (o (s.loc t).l), ?_, pk', nd, ?_, ?_, ?_, ?_, ?_, ?_⟩
        · rw [hev]; simp [evl1, evOfOp, cSpec, hacc, step_load]
        · rw [hm0', cnt, countP_same (fun u _ => hpd u)]
        · intro u hu y hy; exact hcw u y (cWo u hu y hy)
        · intro u hu hw y hy; rw [hwr u] at hw; exact afterLoad_cA_mono (cAo u hu hw y hy)
        · intro u hu hp y hy; rw [hpd u] at hp; simp only [afterLoad_mW]; exact msg u hu hp y hy
        · intro y hy u; exact hcw u y (free y hy u)
        · intro u
          rw [hm0', hl' u]; split
          · rename_i e; subst e; rw [e2]
            obtain ⟨_, lc4⟩ := load_cont_facts k (s.mem 0)
            refine ⟨wf_cont _ h.wf, lc1, ?_, fun v hv => absurd hv (lc4 v), ?_,
              fun w x hx => by simp [hacc] at hx⟩
            · intro hr
              have hr' : ((s.loc u).rd || observed (s.loc u).l (s.mem 0)) = true := hr
              rw [Bool.or_eq_true] at hr'
              rcases hr' with hr | hr
              · obtain ⟨h1, h2⟩ := h.rd hr
                exact ⟨h1, fun x hx => hcw u x (h2 x hx)⟩
              · obtain ⟨hm1, hn2⟩ := load_observed0 k h.wf h.ncl hr
                have hacq : isAcq (o (s.loc u).l) = true :=
                  isAcq_of_ordGE (ho _) (by rw [hn2]; rfl)
                refine ⟨hm1, fun x hx => ?_⟩
                have := msg (owner x) hx (zero_np hm1 _ hx) x rfl
                simp [hacq, this]
            · intro hp
              have : isPubL (cont (s.loc u).l (s.mem 0)) = true := hp
              rw [lc2] at this; cases this
          · exact (hloc u).mono (fun y hy => hcw u y hy)
      · -- the notifying store of zero
        rw [k] at hop2; cases hop2
        simp only [memEffect, Option.some.injEq, Prod.mk.injEq] at hme
        obtain ⟨rfl, rfl⟩ := hme
        obtain ⟨⟨v0, hv0⟩, hobs, hnpub, hcv⟩ := store_facts0 k h.wf
        obtain ⟨hm0, hall⟩ := h.nt v0 hv0
        have hrel : isRel (o (s.loc t).l) = true := isRel_of_ordGE (ho _) (by rw [hv0]; rfl)
        obtain ⟨_, hcont⟩ := wf_store h.wf k 0
        have hm0' : s'.mem 0 = s.mem 0 := by rw [hmem]; simp [applyEff, hcv, hm0]
        have hwr : ∀ u, (s'.loc u).wr = (s.loc u).wr := by
          intro u; rw [hl' u]; split
          · rename_i e; subst e; rw [e2]
          · rfl
        have hpd : ∀ u, pend (s'.loc u) = pend (s.loc u) := by
          intro u; rw [hl' u]; split
          · rename_i e; subst e; rw [e2, hcont]
            show ((s.loc u).wr || isPubL L.ntWake) = ((s.loc u).wr || isPubL (s.loc u).l)
            rw [hnpub]; rfl
          · rfl
        refine ⟨d.afterStore t 0 (o (s.loc t).l), ?_, pk', nd, ?_, ?_, ?_, ?_, ?_, ?_⟩
        · rw [hev]; simp [evl1, evOfOp, cSpec, hacc, step_store]
        · rw [hm0', cnt, countP_same (fun u _ => hpd u)]
        · intro u hu y hy; simp only [afterStore_cW]; exact cWo u hu y hy
        · intro u hu hw y hy; rw [hwr u] at hw; simp only [afterStore_cA]; exact cAo u hu hw y hy
        · intro u hu _ y hy
          simp only [afterStore_mW, if_true, hrel, Bool.true_and]
          exact hall y (by rw [hy]; exact hu)
        · intro y hy u; simp only [afterStore_cW]; exact free y hy u
        · intro u
          rw [hm0', hl' u]; split
          · rename_i e; subst e; rw [e2, hcont, hobs, Bool.or_false]
            refine ⟨trivial, by simp, ?_, by simp, by simp [isPubL],
              fun w x hx => by simp [hacc] at hx⟩
            intro hr
            exact ⟨(h.rd hr).1, fun x hx => (h.rd hr).2 x hx⟩
          · exact (hloc u).mono (fun y hy => by simpa only [afterStore_cW] using hy)
      · -- the decrement of a participant
        rw [k] at hop2; cases hop2
        simp only [memEffect, Option.some.injEq, Prod.mk.injEq] at hme
        obtain ⟨rfl, rfl⟩ := hme
        obtain ⟨hpubl, hwhich⟩ := fsub_facts k
        obtain ⟨htp, hwt, hn1⟩ := h.pub hpubl
        have hn : n = 1 := by
          rcases hwhich with hw | ⟨_, hw⟩
          · exact hn1 n hw
          · exact hw
        subst hn
        have hacq : isAcq (o (s.loc t).l) = true := by
          rcases hwhich with hw | ⟨hw, _⟩ <;> exact isAcq_of_ordGE (ho _) (by rw [hw]; rfl)
        have hrel : isRel (o (s.loc t).l) = true := by
          rcases hwhich with hw | ⟨hw, _⟩ <;> exact isRel_of_ordGE (ho _) (by rw [hw]; rfl)
        have hpt : pend (s.loc t) = true := by simp [pend, hpubl]
        have hnpub' : isPubL (cont (s.loc t).l (s.mem 0)) = false := by
          rcases hwhich with hw | ⟨hw, _⟩ <;> rw [hw] <;> simp only [cont] <;> split <;> rfl
        have hpt' : pend (laP.cont (s.loc t) (s.mem 0)) = false := by
          rw [e2]; simp [pend, hwt, hnpub']
        have hcnt := countP_flip (p := fun u => pend (s.loc u)) (p' := fun u => pend (s'.loc u))
          nd htp hpt (by rw [hl' t]; simp [hpt']) (fun u hu => by rw [hl' u]; simp [hu])
        have hm0 : 1 ≤ s.mem 0 := by rw [cnt, hcnt]; omega
        have hm0' : s'.mem 0 = s.mem 0 - 1 := by rw [hmem]; simp [applyEff]
        have hwr : ∀ u, (s'.loc u).wr = (s.loc u).wr := by
          intro u; rw [hl' u]; split
          · rename_i e; subst e; rw [e2]
          · rfl
        have hpd : ∀ u, u ≠ t → pend (s'.loc u) = pend (s.loc u) := by
          intro u hu; rw [hl' u]; simp [hu]
        have hcw : ∀ v y, d.cW v y = true → (d.afterRmw t 0 (o (s.loc t).l)).cW v y = true := by
          intro v y hy; simp only [afterRmw_cW]; split <;> simp [hy]
        have hmw : ∀ y, d.mW 0 y = true → (d.afterRmw t 0 (o (s.loc t).l)).mW 0 y = true := by
          intro y hy; simp only [afterRmw_mW, if_true]; simp [hy]
        -- when the count was one, this thread now knows every participant's data
        have hlast : s.mem 0 = 1 → ∀ x, owner x ∈ parts →
            (d.afterRmw t 0 (o (s.loc t).l)).cW t x = true := by
          intro h1 x hx
          simp only [afterRmw_cW, if_true]
          by_cases e : owner x = t
          · simp [cWo t htp x e]
          · have hc1 : parts.countP (fun u => pend (s.loc u)) = 1 := by
              rw [cnt] at h1; omega
            have := countP_one nd htp hpt hc1 (owner x) hx e
            simp [hacq, msg (owner x) hx this x rfl]
        refine ⟨d.afterRmw t 0 (o (s.loc t).l), ?_, pk', nd, ?_, ?_, ?_, ?_, ?_, ?_⟩
        · rw [hev]; simp [evl1, evOfOp, cSpec, hacc, step_rmw]
        · rw [hm0', cnt, hcnt]; omega
        · intro u hu y hy; exact hcw u y (cWo u hu y hy)
        · intro u hu hw y hy; rw [hwr u] at hw; exact afterRmw_cA_mono (cAo u hu hw y hy)
        · intro u hu hp y hy
          by_cases e : u = t
          · subst e
            simp only [afterRmw_mW, if_true]
            simp [hrel, cWo u hu y hy]
          · rw [hpd u e] at hp; exact hmw y (msg u hu hp y hy)
        · intro y hy u; exact hcw u y (free y hy u)
        · intro u
          rw [hl' u]; split
          · rename_i e; subst e; rw [e2]
            refine ⟨wf_cont _ h.wf, ?_, ?_, ?_, ?_, fun w x hx => by simp [hacc] at hx⟩
            · rcases hwhich with hw | ⟨hw, _⟩ <;> rw [hw] <;> simp only [cont] <;> split <;> simp
            · intro hr
              have hr' : ((s.loc u).rd || observed (s.loc u).l (s.mem 0)) = true := hr
              rw [Bool.or_eq_true] at hr'
              rcases hr' with hr | hr
              · have := (h.rd hr).1; omega
              · have h1 : s.mem 0 = 1 := by
                  rcases hwhich with hw | ⟨hw, _⟩ <;> rw [hw] at hr <;> simp [observed] at hr
                  omega
                exact ⟨by omega, hlast h1⟩
            · intro v hv
              have hv' : cont (s.loc u).l (s.mem 0) = .ntStore v := hv
              have h1 : s.mem 0 = 1 := by
                rcases hwhich with hw | ⟨hw, _⟩
                · rw [hw] at hv'; simp only [cont] at hv'
                  split at hv'
                  · assumption
                  · cases hv'
                · rw [hw] at hv'; simp only [cont] at hv'
                  split at hv'
                  · cases hv'
                  · omega
              exact ⟨by omega, hlast h1⟩
            · intro hp
              have : isPubL (cont (s.loc u).l (s.mem 0)) = true := hp
              rw [hnpub'] at this; cases this
          · exact (hloc u).pos hm0

/-- every execution of the Latch model in which the participants (`parts`, the initial count is
their number) write only their own data before counting down once, and data is read only after the
count was observed at zero, is free of data races on the client data -/
theorem latch_race_free (parts : List TId) (owner : Fld → TId) (hn : parts.Nodup) (o : L → Nat)
    (ho : ∀ l, ordGE (needLa l) (o l) = true) (acts : List (Act laP))
    (hok : ∀ a ∈ acts, Party parts owner a) (s : State laP) (tr : Trace)
    (hrun : runH (cSpec true isLatchEntry o) (cinit true isLatchEntry parts.length) acts
      = some (s, tr)) : ¬ Race tr :=
  race_free_of_inv (cSpec true isLatchEntry o) (LJ parts owner) (Party parts owner)
    (fun _ _ _ _ hJ hk he => lj_step o ho hJ hk he) _ (lj_init parts owner hn) acts hok s tr hrun

end Dispenso.Event
