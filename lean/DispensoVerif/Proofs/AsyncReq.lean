import DispensoVerif.Model.AsyncReq
/-
Helper lemmas for C24 (AsyncRequest): inversion of `exec` for the AsyncRequest protocols, the
inductive invariant of the repaired protocol, and the history (put/take alternation) lemma.
Core Lean only.
-/
namespace Dispenso.AsyncReq
open Dispenso.Conc

/-- threads that own the object: between a successful claiming CAS and the releasing store -/
def holder : L → Bool
  | .teWrite _ => true
  | .tePublish => true
  | .guTake => true
  | .guReset _ => true
  | _ => false

/-! ### projections of the state updates -/

@[simp] theorem setLoc_loc {P : Proto} (s : State P) (t u : TId) (l : P.L) :
    (setLoc s t l).loc u = if u = t then l else s.loc u := rfl
@[simp] theorem setLoc_mem {P : Proto} (s : State P) (t : TId) (l : P.L) :
    (setLoc s t l).mem = s.mem := rfl
@[simp] theorem setLoc_parked {P : Proto} (s : State P) (t : TId) (l : P.L) :
    (setLoc s t l).parked = s.parked := rfl
@[simp] theorem setLoc_threads {P : Proto} (s : State P) (t : TId) (l : P.L) :
    (setLoc s t l).threads = s.threads := rfl
@[simp] theorem setMem_loc {P : Proto} (s : State P) (f : Fld) (v : Int) :
    (setMem s f v).loc = s.loc := rfl
@[simp] theorem setMem_mem {P : Proto} (s : State P) (f g : Fld) (v : Int) :
    (setMem s f v).mem g = if g = f then v else s.mem g := rfl
@[simp] theorem setMem_parked {P : Proto} (s : State P) (f : Fld) (v : Int) :
    (setMem s f v).parked = s.parked := rfl
@[simp] theorem setMem_threads {P : Proto} (s : State P) (f : Fld) (v : Int) :
    (setMem s f v).threads = s.threads := rfl
@[simp] theorem setParked_loc {P : Proto} (s : State P) (t : TId) (p : Option (Fld × Bool)) :
    (setParked s t p).loc = s.loc := rfl
@[simp] theorem setParked_mem {P : Proto} (s : State P) (t : TId) (p : Option (Fld × Bool)) :
    (setParked s t p).mem = s.mem := rfl
@[simp] theorem setParked_parked {P : Proto} (s : State P) (t u : TId)
    (p : Option (Fld × Bool)) :
    (setParked s t p).parked u = if u = t then p else s.parked u := rfl
@[simp] theorem setParked_threads {P : Proto} (s : State P) (t : TId) (p : Option (Fld × Bool)) :
    (setParked s t p).threads = s.threads := rfl

/-! ### inversion of `exec` for protocols built from `op`/`cont` -/

/-- one atomic operation of thread `t` in local state `l`, as a relation on (memory, result) -/
inductive OpStep (m : Fld → Int) : L → L → (Fld → Int) → Prop where
  | ruCasOk : m 0 = 0 → OpStep m .ruCas (.done 0 0) (fun g => if g = 0 then 1 else m g)
  | ruCasFail : m 0 ≠ 0 → OpStep m .ruCas (.done 0 0) m
  | urLoad : OpStep m .urLoad (.done (if m 0 = 1 then 1 else 0) 0) m
  | teCasOk v : m 0 = 1 → OpStep m (.teCas v) (.teWrite v) (fun g => if g = 0 then 2 else m g)
  | teCasFail v : m 0 ≠ 1 → OpStep m (.teCas v) (.done 0 0) m
  | teWrite v : OpStep m (.teWrite v) .tePublish (fun g => if g = 1 then v else m g)
  | tePublish : OpStep m .tePublish (.done 1 0) (fun g => if g = 0 then 3 else m g)
  | guCasOk : m 0 = 3 → OpStep m .guCas .guTake (fun g => if g = 0 then 2 else m g)
  | guCasFail : m 0 ≠ 3 → OpStep m .guCas (.done 0 0) m
  | guTake : OpStep m .guTake (.guReset (m 1)) (fun g => if g = 1 then -1 else m g)
  | guReset v : OpStep m (.guReset v) (.done 1 v) (fun g => if g = 0 then 0 else m g)
  | guLoadOk : m 0 = 3 → OpStep m .guLoadOld .guTake m
  | guLoadFail : m 0 ≠ 3 → OpStep m .guLoadOld (.done 0 0) m

/-- Every enabled action of `proto` in a state without parked threads is either a client call or
one `OpStep` of some thread. -/
theorem exec_inv {s s' : State proto} {a : Act proto} (hnp : ∀ t, s.parked t = none)
    (he : exec s a = some s') :
    (∃ t l, a = .call t l ∧ idleOrDone (s.loc t) = true ∧ isEntry l = true ∧
        s'.mem = s.mem ∧ s'.parked = s.parked ∧
        s'.loc = fun u => if u = t then l else s.loc u) ∨
    (∃ t l', a = .step t ∧ OpStep s.mem (s.loc t) l' s'.mem ∧ s'.parked = s.parked ∧
        s'.loc = fun u => if u = t then l' else s.loc u) := by
  cases a with
  | call t l =>
    left
    simp only [exec] at he
    split at he
    · rename_i hc
      obtain ⟨_, _, hentry⟩ := hc
      simp only [proto, Bool.and_eq_true] at hentry
      cases he
      exact ⟨t, l, rfl, hentry.1, hentry.2, rfl, rfl, rfl⟩
    · cases he
  | step t =>
    right
    simp only [exec, hnp, ne_eq, not_true_eq_false, ↓reduceIte] at he
    have hop : proto.op (s.loc t) = op (s.loc t) := rfl
    have hcont : ∀ r, proto.cont (s.loc t) r = cont (s.loc t) r := fun _ => rfl
    rw [hop] at he
    simp only [hcont] at he
    cases hl : (s.loc t : L) <;>
      simp only [hl, op, cont, memEffect, kNone, kNeedsUpdate, kUpdating, kReady, movedFrom]
        at he
    case idle => cases he
    case done => cases he
    case ruCas =>
      by_cases hm : s.mem 0 = 0
      · simp only [hm, if_true] at he; cases he
        exact ⟨t, _, rfl, by rw [hl]; exact .ruCasOk hm, rfl, rfl⟩
      · simp only [hm, if_false] at he; cases he
        exact ⟨t, _, rfl, by rw [hl]; exact .ruCasFail hm, rfl, rfl⟩
    case urLoad => cases he; exact ⟨t, _, rfl, by rw [hl]; exact .urLoad, rfl, rfl⟩
    case teCas v =>
      by_cases hm : s.mem 0 = 1
      · simp only [hm, if_true] at he; cases he
        exact ⟨t, _, rfl, by rw [hl]; exact .teCasOk v hm, rfl, rfl⟩
      · simp only [hm, if_false] at he; cases he
        exact ⟨t, _, rfl, by rw [hl]; exact .teCasFail v hm, rfl, rfl⟩
    case teWrite v => cases he; exact ⟨t, _, rfl, by rw [hl]; exact .teWrite v, rfl, rfl⟩
    case tePublish => cases he; exact ⟨t, _, rfl, by rw [hl]; exact .tePublish, rfl, rfl⟩
    case guCas =>
      by_cases hm : s.mem 0 = 3
      · simp only [hm, if_true] at he; cases he
        exact ⟨t, _, rfl, by rw [hl]; exact .guCasOk hm, rfl, rfl⟩
      · simp only [hm, if_false] at he; cases he
        exact ⟨t, _, rfl, by rw [hl]; exact .guCasFail hm, rfl, rfl⟩
    case guTake => cases he; exact ⟨t, _, rfl, by rw [hl]; exact .guTake, rfl, rfl⟩
    case guReset v => cases he; exact ⟨t, _, rfl, by rw [hl]; exact .guReset v, rfl, rfl⟩
    case guLoadOld =>
      by_cases hm : s.mem 0 = 3
      · simp only [hm, if_true] at he; cases he
        exact ⟨t, _, rfl, by rw [hl]; exact .guLoadOk hm, rfl, rfl⟩
      · simp only [hm, if_false] at he; cases he
        exact ⟨t, _, rfl, by rw [hl]; exact .guLoadFail hm, rfl, rfl⟩
  | wake t ws =>
    exfalso
    simp only [exec, hnp, ne_eq, not_true_eq_false, ↓reduceIte] at he
    have hop : proto.op (s.loc t) = op (s.loc t) := rfl
    rw [hop] at he
    cases hl : (s.loc t : L) <;> simp [hl, op] at he
  | timeout t =>
    simp [exec, hnp] at he
  | spurious t =>
    simp [exec, hnp] at he

/-! ### the inductive invariant of the repaired protocol -/

/-- what is known about the stored object (`m1 = mem 1`) when a thread is at a given location -/
def LocOk (m1 : Int) : L → Prop
  | .teCas v => 0 ≤ v
  | .teWrite v => 0 ≤ v ∧ m1 = -1
  | .tePublish => 0 ≤ m1
  | .guTake => 0 ≤ m1
  | .guReset v => 0 ≤ v ∧ m1 = -1
  | .guLoadOld => False
  | _ => True

structure Inv (s : State proto) : Prop where
  np : ∀ t, s.parked t = none
  rng : s.mem 0 = 0 ∨ s.mem 0 = 1 ∨ s.mem 0 = 2 ∨ s.mem 0 = 3
  uniq : ∀ t u, holder (s.loc t) = true → holder (s.loc u) = true → t = u
  held : ∀ t, holder (s.loc t) = true → s.mem 0 = 2
  owner : s.mem 0 = 2 → ∃ t, holder (s.loc t) = true
  free : s.mem 0 = 0 ∨ s.mem 0 = 1 → s.mem 1 = -1
  ready : s.mem 0 = 3 → 0 ≤ s.mem 1
  locOk : ∀ t, LocOk (s.mem 1) (s.loc t)

theorem inv_init : Inv init := by
  refine ⟨fun _ => rfl, Or.inl rfl, ?_, ?_, ?_, fun _ => rfl, ?_, fun _ => trivial⟩
  · intro t u h; simp [init, initState, holder] at h
  · intro t h; simp [init, initState, holder] at h
  · intro h; simp [init, initState] at h
  · intro h; simp [init, initState] at h

theorem locOk_of_not_holder {m m' : Int} {l : L} (h : holder l = false) (hk : LocOk m l) :
    LocOk m' l := by
  cases l <;> simp_all [holder, LocOk]

theorem inv_call {s s' : State proto} {t : TId} {l : L} (hI : Inv s)
    (hidle : idleOrDone (s.loc t) = true) (hent : isEntry l = true) (hm : s'.mem = s.mem)
    (hp : s'.parked = s.parked) (hloc : s'.loc = fun u => if u = t then l else s.loc u) :
    Inv s' := by
  obtain ⟨np, rng, uniq, held, owner, free, ready, locOk⟩ := hI
  have hnh : holder (s.loc t) = false := by
    cases hlt : (s.loc t : L) <;> simp_all [idleOrDone, holder]
  have hl : holder l = false ∧ ∀ m, LocOk m l := by
    cases l <;> simp_all [isEntry, holder, LocOk]
  obtain ⟨hl1, hl2⟩ := hl
  refine ⟨by simpa [hp] using np, ?_, ?_, ?_, ?_, ?_, ?_, ?_⟩
  all_goals simp only [hm, hloc]
  all_goals grind

theorem inv_opstep {s s' : State proto} {t : TId} {l' : L} (hI : Inv s)
    (hs : OpStep s.mem (s.loc t) l' s'.mem)
    (hp : s'.parked = s.parked) (hloc : s'.loc = fun u => if u = t then l' else s.loc u) :
    Inv s' := by
  obtain ⟨np, rng, uniq, held, owner, free, ready, locOk⟩ := hI
  generalize hl : (s.loc t : L) = l at hs
  generalize hm : s'.mem = m' at hs
  have hlk := locOk t
  cases hs
  all_goals
    refine ⟨by simpa [hp] using np, ?_, ?_, ?_, ?_, ?_, ?_, ?_⟩
  all_goals simp only [hm, hloc]
  all_goals (first | grind [holder, LocOk] | skip)
  all_goals
    intro u
    rw [hl] at hlk
    by_cases hu : u = t
    · subst hu; simp only [↓reduceIte, LocOk] at hlk ⊢; grind
    · have h1 := locOk u
      have h2 := uniq u t
      rw [hl] at h2
      simp only [hu, ↓reduceIte]
      refine locOk_of_not_holder ?_ h1
      cases hh : holder (s.loc u)
      · rfl
      · exact absurd (h2 hh rfl) hu

theorem inv_step {s s' : State proto} {a : Act proto} (hI : Inv s) (he : exec s a = some s') :
    Inv s' := by
  rcases exec_inv hI.np he with ⟨t, l, rfl, hidle, hent, hm, hp, hloc⟩ | ⟨t, l', rfl, hs, hp, hloc⟩
  · exact inv_call hI hidle hent hm hp hloc
  · exact inv_opstep hI hs hp hloc

theorem inv_reachable {s : State proto} (h : Reachable init s) : Inv s :=
  invariant Inv inv_init (fun _ _ _ hI he => inv_step hI he) s h

/-! ### histories: puts and takes alternate, starting with a put -/

/-- the stored value that has been put and not yet taken (the object is live iff its tag is ≥ 0) -/
def pend (s : State proto) : List Int := if 0 ≤ s.mem 1 then [s.mem 1] else []

/-- the events contributed by one action (as in `runEvs`) -/
def evl (s : State proto) (a : Act proto) : List Ev :=
  match evOf s a with
  | some e => [e]
  | none => []

/-- `pre` is the pending value (if any) at the start of the history `evs` -/
def Hist (pre : List Int) (evs : List Ev) : Prop :=
  takes evs <+: pre ++ puts evs ∧ (pre ++ puts evs).length ≤ (takes evs).length + 1 ∧
    ∀ v ∈ takes evs, 0 ≤ v

theorem takes_append (a b : List Ev) : takes (a ++ b) = takes a ++ takes b := by
  simp [takes, List.filterMap_append]

theorem puts_append (a b : List Ev) : puts (a ++ b) = puts a ++ puts b := by
  simp [puts, List.filterMap_append]

/-- every action is neutral for the object, a put into an empty slot, or a take of a live value -/
theorem step_kind {s s' : State proto} {a : Act proto} (hI : Inv s) (he : exec s a = some s') :
    (takes (evl s a) = [] ∧ puts (evl s a) = [] ∧ s'.mem 1 = s.mem 1) ∨
    (∃ v, takes (evl s a) = [] ∧ puts (evl s a) = [v] ∧ s.mem 1 = -1 ∧ s'.mem 1 = v ∧ 0 ≤ v) ∨
    (∃ v, takes (evl s a) = [v] ∧ puts (evl s a) = [] ∧ s.mem 1 = v ∧ 0 ≤ v ∧ s'.mem 1 = -1) := by
  rcases exec_inv hI.np he with ⟨t, l, rfl, _, _, hm, _, _⟩ | ⟨t, l', rfl, hs, _, _⟩
  · left; simp [evl, evOf, takes, puts, hm]
  · have hlk := hI.locOk t
    clear he
    generalize hl : (s.loc t : L) = l at hs
    generalize hm : s'.mem = m' at hs
    rw [hl] at hlk
    cases hs <;>
      simp [evl, evOf, proto, hl, op, memEffect, takes, puts, LocOk, movedFrom, kReady, kNone,
        kNeedsUpdate, kUpdating] at hlk ⊢
    all_goals omega

theorem hist_step {s s' : State proto} {a : Act proto} (hI : Inv s) (he : exec s a = some s')
    {evs : List Ev} (h : Hist (pend s') evs) : Hist (pend s) (evl s a ++ evs) := by
  unfold Hist at *
  rw [takes_append, puts_append]
  rcases step_kind hI he with ⟨ht, hp, hm⟩ | ⟨v, ht, hp, hm, hm', hv⟩ | ⟨v, ht, hp, hm, hv, hm'⟩
  · simp only [ht, hp, List.nil_append]
    simpa only [pend, hm] using h
  · have h1 : pend s = [] := by simp [pend, hm]
    have h2 : pend s' = [v] := by simp [pend, hm', hv]
    rw [h2] at h
    simpa only [ht, hp, h1, List.nil_append, List.singleton_append] using h
  · have h1 : pend s = [v] := by simp [pend, hm, hv]
    have h2 : pend s' = [] := by simp [pend, hm']
    rw [h2] at h
    simp only [List.nil_append] at h
    obtain ⟨ha, hb, hc⟩ := h
    simp only [ht, hp, h1, List.nil_append, List.singleton_append, List.length_cons]
    refine ⟨(List.prefix_cons_inj v).2 ha, by omega, ?_⟩
    intro x hx
    rcases List.mem_cons.1 hx with rfl | hx
    · exact hv
    · exact hc x hx

theorem pend_length (s : State proto) : (pend s).length ≤ 1 := by
  unfold pend; split <;> simp

theorem hist_run (as : List (Act proto)) : ∀ (s sf : State proto) (evs : List Ev), Inv s →
    runEvs s as = some (sf, evs) → Hist (pend s) evs := by
  induction as with
  | nil =>
    intro s sf evs _ h
    simp only [runEvs, Option.some.injEq, Prod.mk.injEq] at h
    obtain ⟨_, rfl⟩ := h
    have := pend_length s
    simp [Hist, takes, puts]
    omega
  | cons a as ih =>
    intro s sf evs hI h
    simp only [runEvs] at h
    split at h
    · rename_i s' he
      split at h
      · rename_i sf' evs' hr
        simp only [Option.some.injEq, Prod.mk.injEq] at h
        obtain ⟨_, rfl⟩ := h
        exact hist_step hI he (ih s' sf' evs' (inv_step hI he) hr)
      · cases h
    · cases h

/-- `exec_inv` for a `step` action -/
theorem exec_step_inv {s s' : State proto} {t : TId} (hnp : ∀ t, s.parked t = none)
    (he : exec s (.step t) = some s') :
    ∃ l', OpStep s.mem (s.loc t) l' s'.mem ∧ s'.parked = s.parked ∧
      s'.loc = fun u => if u = t then l' else s.loc u := by
  rcases exec_inv hnp he with ⟨t', l, h, _⟩ | ⟨t', l', h, hs, hp, hloc⟩
  · cases h
  · cases h; exact ⟨l', hs, hp, hloc⟩

/-- unpack a computed history projection into the existential form used by the statements -/
theorem exists_of_runEvs_map {P : Proto} {α : Type} {s0 : State P} {as : List (Act P)}
    {f : List Ev → α} {x : α} (h : (runEvs s0 as).map (fun p => f p.2) = some x) :
    ∃ s evs, runEvs s0 as = some (s, evs) ∧ f evs = x := by
  cases hr : runEvs s0 as with
  | none => simp [hr] at h
  | some p =>
    obtain ⟨s, evs⟩ := p
    simp only [hr, Option.map_some, Option.some.injEq] at h
    exact ⟨s, evs, rfl, h⟩

end Dispenso.AsyncReq
