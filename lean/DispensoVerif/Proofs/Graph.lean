import DispensoVerif.Model.Graph
import Mathlib.Tactic.SplitIfs
import Mathlib.Data.List.Nodup
/-
Abstractions and basic lemmas for the task-graph model (C30, C31):
`edges`, `incPreds`, `indeg`, `WF`, `Consistent`, `Closed`, `Acyclic`, `PredOK`, `Reach`,
node-level lemmas for `setNode`, counting lemmas over `edges`.
-/
namespace Dispenso.Graph
open List

/-! ### node access -/

theorem completed_iff (n : NodeS) : completed n = true ↔ n.inc = kCompleted := by
  simp [completed]

theorem not_completed_iff (n : NodeS) : ¬ completed n = true ↔ n.inc ≠ kCompleted := by
  simp [completed]

theorem node_of_ge {g : G} {i : Nat} (h : g.nodes.length ≤ i) : g.node i = dead := by
  unfold G.node
  rw [List.getD_eq_getElem?_getD, List.getElem?_eq_none h]
  rfl

theorem dead_alive : dead.alive = false := rfl

theorem lt_of_alive {g : G} {i : Nat} (h : (g.node i).alive = true) : i < g.nodes.length := by
  by_contra hc
  rw [node_of_ge (Nat.le_of_not_lt hc)] at h
  exact absurd h (by decide)

theorem setNode_node (g : G) (i : Nat) (n : NodeS) (j : Nat) :
    (g.setNode i n).node j = if i = j ∧ i < g.nodes.length then n else g.node j := by
  unfold G.node G.setNode
  simp only [List.getD_eq_getElem?_getD, List.getElem?_set]
  by_cases h : i = j
  · subst h
    by_cases h2 : i < g.nodes.length
    · simp [h2]
    · simp [h2]
  · simp [h]

theorem setNode_node_self (g : G) (i : Nat) (n : NodeS) (h : i < g.nodes.length) :
    (g.setNode i n).node i = n := by
  rw [setNode_node]; simp [h]

theorem setNode_node_ne (g : G) (i : Nat) (n : NodeS) (j : Nat) (h : i ≠ j) :
    (g.setNode i n).node j = g.node j := by
  rw [setNode_node]; simp [h]

@[simp] theorem setNode_length (g : G) (i : Nat) (n : NodeS) :
    (g.setNode i n).nodes.length = g.nodes.length := by
  simp [G.setNode]

@[simp] theorem setNode_subs (g : G) (i : Nat) (n : NodeS) : (g.setNode i n).subs = g.subs := rfl
@[simp] theorem setNode_biSets (g : G) (i : Nat) (n : NodeS) : (g.setNode i n).biSets = g.biSets := rfl
@[simp] theorem setNode_biProp (g : G) (i : Nat) (n : NodeS) : (g.setNode i n).biProp = g.biProp := rfl

theorem setNode_self_eq (g : G) (i : Nat) : g.setNode i (g.node i) = g := by
  unfold G.setNode G.node
  cases g with
  | mk nodes subs biSets biProp =>
    simp only [G.mk.injEq, and_true]
    apply List.ext_getElem?
    intro j
    rw [List.getElem?_set]
    by_cases h : i = j
    · subst h
      by_cases h2 : i < nodes.length
      · simp [h2, List.getD_eq_getElem?_getD]
      · simp [h2]
    · simp [h]

/-! ### sums over duplicate-free index lists -/

theorem sum_map_update (l : List Nat) (hnd : l.Nodup) (f f' : Nat → Nat) (c k : Nat)
    (hc : c ∈ l) (hne : ∀ p ∈ l, p ≠ c → f' p = f p) (heq : f' c = f c + k) :
    (l.map f').sum = (l.map f).sum + k := by
  induction l with
  | nil => cases hc
  | cons a l ih =>
    rw [List.nodup_cons] at hnd
    simp only [List.map_cons, List.sum_cons]
    by_cases hac : a = c
    · subst hac
      have : l.map f' = l.map f := by
        apply List.map_congr_left
        intro p hp
        exact hne p (List.mem_cons_of_mem _ hp) (fun h => hnd.1 (h ▸ hp))
      rw [this, heq]; omega
    · have hc' : c ∈ l := by
        rcases List.mem_cons.1 hc with h | h
        · exact absurd h.symm hac
        · exact h
      rw [ih hnd.2 hc' (fun p hp => hne p (List.mem_cons_of_mem _ hp)),
        hne a List.mem_cons_self hac]
      omega

theorem sum_map_congr (l : List Nat) (f f' : Nat → Nat) (h : ∀ p ∈ l, f' p = f p) :
    (l.map f').sum = (l.map f).sum := by
  rw [List.map_congr_left h]

theorem countP_split {α : Type} (l : List α) (p p1 p2 : α → Bool)
    (h : ∀ e ∈ l, (p e = true ↔ (p1 e = true ∨ p2 e = true)) ∧ ¬ (p1 e = true ∧ p2 e = true)) :
    l.countP p = l.countP p1 + l.countP p2 := by
  induction l with
  | nil => simp
  | cons a l ih =>
    have ha := h a List.mem_cons_self
    have ih' := ih (fun e he => h e (List.mem_cons_of_mem _ he))
    simp only [List.countP_cons]
    rw [ih']
    by_cases h1 : p1 a = true <;> by_cases h2 : p2 a = true <;> by_cases h0 : p a = true <;>
      simp_all <;> omega

/-! ### edges -/

/-- all `(p, d)` with `p` live and `d` a dependent of `p` (with multiplicity) -/
def edges (g : G) : List (Nat × Nat) :=
  (List.range g.nodes.length).flatMap fun p =>
    if (g.node p).alive then (g.node p).dependents.map (fun d => (p, d)) else []

theorem mem_edges {g : G} {p d : Nat} :
    (p, d) ∈ edges g ↔ (g.node p).alive = true ∧ d ∈ (g.node p).dependents := by
  unfold edges
  simp only [List.mem_flatMap, List.mem_range]
  constructor
  · rintro ⟨a, _, h⟩
    by_cases hal : (g.node a).alive = true
    · rw [if_pos hal] at h
      simp only [List.mem_map, Prod.mk.injEq] at h
      obtain ⟨x, hx, rfl, rfl⟩ := h
      exact ⟨hal, hx⟩
    · rw [if_neg hal] at h; cases h
  · rintro ⟨hal, hd⟩
    refine ⟨p, lt_of_alive hal, ?_⟩
    rw [if_pos hal]
    exact List.mem_map.2 ⟨d, hd, rfl⟩

theorem countP_edges (q : Nat × Nat → Bool) (g : G) :
    (edges g).countP q = ((List.range g.nodes.length).map fun p =>
      if (g.node p).alive then (g.node p).dependents.countP (fun d => q (p, d)) else 0).sum := by
  unfold edges
  rw [List.countP_flatMap]
  congr 1
  apply List.map_congr_left
  intro p _
  simp only [Function.comp]
  by_cases hal : (g.node p).alive = true
  · simp only [hal, if_true, List.countP_map]; rfl
  · simp [hal]

/-- number of edges from the live node `c` to `n` -/
theorem countP_edges_src (g : G) (c n : Nat) (hc : (g.node c).alive = true) :
    (edges g).countP (fun e => decide (e.1 = c ∧ e.2 = n)) = (g.node c).dependents.count n := by
  rw [countP_edges]
  have h := sum_map_update (List.range g.nodes.length) List.nodup_range (fun _ => 0)
    (fun p => if (g.node p).alive then
      (g.node p).dependents.countP (fun d => decide ((p, d).1 = c ∧ (p, d).2 = n)) else 0)
    c ((g.node c).dependents.count n) (List.mem_range.2 (lt_of_alive hc)) ?_ ?_
  · rw [h]
    have hz : ∀ l : List Nat, (l.map (fun _ => 0)).sum = 0 := by
      intro l; induction l <;> simp_all
    rw [hz]; omega
  · intro p _ hpc
    simp [hpc]
  · simp only [hc, if_true, true_and, Nat.zero_add]
    rw [List.count_eq_countP]
    apply List.countP_congr
    intro x _
    simp

/-- in-degree of `n` (edges from live sources, with multiplicity) -/
def indeg (g : G) (n : Nat) : Nat := (edges g).countP (fun e => decide (e.2 = n))

/-- number of edges into `n` whose source is live and not completed -/
def incPreds (g : G) (n : Nat) : Nat :=
  (edges g).countP (fun e => decide (e.2 = n ∧ ¬ completed (g.node e.1) = true))

/-- structural well-formedness: dependents are live nodes, `allNodes` enumerates the live nodes -/
structure WF (g : G) : Prop where
  deps_live : ∀ p d, (p, d) ∈ edges g → (g.node d).alive = true
  nodup : (allNodes g).Nodup
  mem_all : ∀ i, i ∈ allNodes g ↔ (g.node i).alive = true

structure Consistent (g : G) : Prop where
  wf : WF g
  inc_eq : ∀ n, (g.node n).alive = true → ¬ completed (g.node n) = true →
    (g.node n).inc = incPreds g n ∧ incPreds g n < kCompleted

/-- dependents of incomplete nodes are incomplete -/
def Closed (g : G) : Prop :=
  ∀ p d, (p, d) ∈ edges g → ¬ completed (g.node p) = true → ¬ completed (g.node d) = true

def Acyclic (g : G) : Prop := ∃ r : Nat → Nat, ∀ p d, (p, d) ∈ edges g → r p < r d

/-- `numPred` is the in-degree -/
def PredOK (g : G) : Prop := ∀ n, (g.node n).alive = true → (g.node n).numPred = indeg g n

/-- no counter can wrap: fewer than 2^64-1 edges -/
def EdgeBound (g : G) : Prop := (edges g).length < kCompleted

/-- forward-dependency closure of the nodes that are incomplete in `g` -/
inductive Reach (g : G) : Nat → Prop
  | root (i : Nat) : (g.node i).alive = true → ¬ completed (g.node i) = true → Reach g i
  | step (p d : Nat) : Reach g p → (p, d) ∈ edges g → Reach g d

theorem incPreds_le_length (g : G) (n : Nat) : incPreds g n ≤ (edges g).length :=
  List.countP_le_length

theorem indeg_le_length (g : G) (n : Nat) : indeg g n ≤ (edges g).length :=
  List.countP_le_length

theorem incPreds_pos {g : G} {p n : Nat} (he : (p, n) ∈ edges g)
    (hp : ¬ completed (g.node p) = true) : 0 < incPreds g n := by
  unfold incPreds
  rw [List.countP_pos_iff]
  exact ⟨(p, n), he, by simp [hp]⟩

theorem exists_of_incPreds_pos {g : G} {n : Nat} (h : 0 < incPreds g n) :
    ∃ p, (p, n) ∈ edges g ∧ ¬ completed (g.node p) = true := by
  unfold incPreds at h
  rw [List.countP_pos_iff] at h
  obtain ⟨⟨p, d⟩, he, hq⟩ := h
  simp only [decide_eq_true_eq] at hq
  obtain ⟨rfl, hq⟩ := hq
  exact ⟨p, he, hq⟩

/-- graphs that differ only in the `inc` fields -/
structure SameShape (g0 g : G) : Prop where
  len : g.nodes.length = g0.nodes.length
  subs : g.subs = g0.subs
  biProp : g.biProp = g0.biProp
  biSets : g.biSets = g0.biSets
  deps : ∀ i, (g.node i).dependents = (g0.node i).dependents
  alive : ∀ i, (g.node i).alive = (g0.node i).alive
  numPred : ∀ i, (g.node i).numPred = (g0.node i).numPred
  biSet : ∀ i, (g.node i).biSet = (g0.node i).biSet

theorem SameShape.refl (g : G) : SameShape g g :=
  ⟨rfl, rfl, rfl, rfl, fun _ => rfl, fun _ => rfl, fun _ => rfl, fun _ => rfl⟩

theorem SameShape.trans {a b c : G} (h1 : SameShape a b) (h2 : SameShape b c) : SameShape a c :=
  ⟨h2.len.trans h1.len, h2.subs.trans h1.subs, h2.biProp.trans h1.biProp,
    h2.biSets.trans h1.biSets,
    fun i => (h2.deps i).trans (h1.deps i), fun i => (h2.alive i).trans (h1.alive i),
    fun i => (h2.numPred i).trans (h1.numPred i), fun i => (h2.biSet i).trans (h1.biSet i)⟩

theorem SameShape.edges {g0 g : G} (h : SameShape g0 g) : edges g = edges g0 := by
  unfold Dispenso.Graph.edges
  rw [h.len]
  apply List.flatMap_congr
  intro p _
  rw [h.alive p, h.deps p]

theorem SameShape.allNodes {g0 g : G} (h : SameShape g0 g) : allNodes g = allNodes g0 := by
  unfold Dispenso.Graph.allNodes; rw [h.subs]

/-- changing only the `inc` field of one node keeps the shape -/
theorem sameShape_setInc (g : G) (i v : Nat) :
    SameShape g (g.setNode i { g.node i with inc := v }) := by
  refine ⟨by simp, rfl, rfl, rfl, ?_, ?_, ?_, ?_⟩ <;> intro j <;> rw [setNode_node] <;>
    split_ifs with h <;> first | rfl | (obtain ⟨rfl, _⟩ := h; rfl)

theorem WF.of_sameShape {g0 g : G} (h : SameShape g0 g) (hw : WF g0) : WF g := by
  refine ⟨?_, ?_, ?_⟩
  · intro p d he
    rw [h.edges] at he
    rw [h.alive]
    exact hw.deps_live p d he
  · rw [h.allNodes]; exact hw.nodup
  · intro i
    rw [h.allNodes, h.alive]
    exact hw.mem_all i

end Dispenso.Graph
