import DispensoVerif.Core.HB
import DispensoVerif.Core.Trace
/-
The order comparison of the happens-before theorems (`HB.ordGE`) is the comparison the trace
acceptor applies to the declared order of every real-code atomic operation (`Trace.orderOK`), and it
is transitive: a table accepted against `binding.reqOrder` is at least the `need` table of the
race-freedom theorems.  Core Lean only.
-/
namespace Dispenso.HB
open Dispenso

theorem ordGE_eq_orderOK (r a : Nat) : ordGE r a = Trace.orderOK r a := by
  unfold ordGE Trace.orderOK
  split <;> (rw [Bool.eq_iff_iff]; simp [or_assoc])

theorem ordGE_big {a : Nat} (h : 5 ≤ a) (x : Nat) : ordGE a x = (x == 5) := by
  unfold ordGE; split <;> first | omega | rfl

theorem ordGE_bound {a b : Nat} (h : ordGE a b = true) : a = 0 ∨ (1 ≤ b ∧ b ≤ 5) := by
  unfold ordGE at h
  split at h <;> simp at h <;> omega

theorem ordGE_trans_fin : ∀ a, a < 6 → ∀ b, b < 6 → ∀ c, c < 6 →
    ordGE a b = true → ordGE b c = true → ordGE a c = true := by decide

theorem ordGE_trans {a b c : Nat} (h1 : ordGE a b = true) (h2 : ordGE b c = true) :
    ordGE a c = true := by
  rcases ordGE_bound h1 with rfl | hb
  · rfl
  rcases ordGE_bound h2 with rfl | hc
  · omega
  by_cases ha : a < 6
  · exact ordGE_trans_fin a ha b (by omega) c (by omega) h1 h2
  · rw [ordGE_big (by omega)] at h1 ⊢
    have : b = 5 := by simpa using h1
    subst this
    exact h2

/-- a table the acceptor accepts against `req` is at least any sub-table `need ≤ req` -/
theorem table_ge {α : Type} {need req o : α → Nat} (hn : ∀ l, ordGE (need l) (req l) = true)
    (ho : ∀ l, Trace.orderOK (req l) (o l) = true) : ∀ l, ordGE (need l) (o l) = true := by
  intro l
  exact ordGE_trans (hn l) (by rw [ordGE_eq_orderOK]; exact ho l)

end Dispenso.HB
