import DispensoVerif.Proofs.GraphSets
import DispensoVerif.Proofs.GraphProp
/-
`SubgraphT::clear` (`clearSubgraph`): the swap-with-last removal loop with early exit, the
decrement / mark / remove / destroy phases, and the resulting graph.
-/
namespace Dispenso.Graph
open List

/-! ### swap-with-last removal -/

theorem swapRemove_perm : ∀ (l : List Nat) (i : Nat), i < l.length →
    l ~ l.getD i 0 :: (l.set i (l.getD (l.length - 1) 0)).dropLast := by
  intro l
  induction l with
  | nil => intro i h; cases h
  | cons a t ih =>
    intro i hi
    cases t with
    | nil =>
      have : i = 0 := by simpa using hi
      subst this
      simp
    | cons b t' =>
      have hlast : (a :: b :: t').getD ((a :: b :: t').length - 1) 0 =
          (b :: t').getD ((b :: t').length - 1) 0 := by
        simp
      rw [hlast]
      cases i with
      | zero =>
        simp only [List.getD_cons_zero, List.set_cons_zero]
        rw [List.dropLast_cons_of_ne_nil (by simp)]
        have hne : (b :: t') ≠ [] := by simp
        have h1 : (b :: t').getD ((b :: t').length - 1) 0 = (b :: t').getLast hne := by
          rw [List.getLast_eq_getElem, List.getD_eq_getElem?_getD,
            List.getElem?_eq_getElem (by simp)]
          rfl
        rw [h1]
        have h2 := List.dropLast_append_getLast hne
        have h3 : (b :: t') ~ (b :: t').getLast hne :: (b :: t').dropLast := by
          conv_lhs => rw [← h2]
          exact List.perm_append_singleton _ _
        exact h3.cons a
      | succ j =>
        simp only [List.getD_cons_succ, List.set_cons_succ]
        have hj : j < (b :: t').length := by simpa using hi
        rw [List.dropLast_cons_of_ne_nil (by
          intro h
          have := congrArg List.length h
          simp at this)]
        have := ih j hj
        exact (this.cons a).trans (List.Perm.swap _ _ _)

theorem swapRemove_getD_lt (l : List Nat) (i j x : Nat) (hj : j < i) (hi : i < l.length) :
    ((l.set i x).dropLast).getD j 0 = l.getD j 0 := by
  simp only [List.getD_eq_getElem?_getD, List.getElem?_dropLast, List.length_set]
  rw [if_pos (by omega), List.getElem?_set, if_neg (by omega)]

/-! ### removeMarked -/

def marked (g : G) (d : Nat) : Bool := decide ((g.node d).numPred = kToDelete)

theorem removeMarked_spec (g : G) :
    ∀ (fuel : Nat) (deps : List Nat) (i budget : Nat), deps.length < fuel + i → i ≤ deps.length →
      (∀ j, j < i → marked g (deps.getD j 0) = false) → 1 ≤ budget →
      deps.countP (marked g) ≤ budget →
      (removeMarked g fuel deps i budget).1 ~ deps.filter (fun d => !marked g d) ∧
      (removeMarked g fuel deps i budget).2 = budget - deps.countP (marked g) := by
  intro fuel
  induction fuel with
  | zero => intro deps i budget h1 h2; omega
  | succ fuel ih =>
    intro deps i budget h1 h2 hpre hb hcnt
    unfold removeMarked
    by_cases hi : i < deps.length
    · rw [if_pos hi]
      by_cases hm : (g.node (deps.getD i 0)).numPred = kToDelete
      · rw [if_pos hm]
        have hmx : marked g (deps.getD i 0) = true := by unfold marked; exact decide_eq_true hm
        set deps' := (deps.set i (deps.getD (deps.length - 1) 0)).dropLast with hdeps'
        have hperm := swapRemove_perm deps i hi
        rw [← hdeps'] at hperm
        have hc : deps.countP (marked g) = deps'.countP (marked g) + 1 := by
          rw [hperm.countP_eq, List.countP_cons, hmx]; simp
        have hf : deps.filter (fun d => !marked g d) ~ deps'.filter (fun d => !marked g d) := by
          have := hperm.filter (fun d => !marked g d)
          rw [List.filter_cons, hmx] at this
          simpa using this
        have hlen : deps'.length = deps.length - 1 := by
          rw [hdeps', List.length_dropLast, List.length_set]
        by_cases hb1 : budget - 1 = 0
        · rw [if_pos hb1]
          have hz : deps'.countP (marked g) = 0 := by omega
          have hall : deps'.filter (fun d => !marked g d) = deps' := by
            rw [List.filter_eq_self]
            intro a ha
            rw [List.countP_eq_zero] at hz
            have := hz a ha
            simpa using this
          refine ⟨?_, by simp only; omega⟩
          show deps' ~ _
          rw [hall] at hf
          exact hf.symm
        · rw [if_neg hb1]
          have := ih deps' i (budget - 1) (by omega) (by omega) (by
            intro j hj
            rw [hdeps', swapRemove_getD_lt deps i j _ hj hi]
            exact hpre j hj) (by omega) (by omega)
          refine ⟨this.1.trans hf.symm, ?_⟩
          rw [this.2]; omega
      · rw [if_neg hm]
        have hmx : marked g (deps.getD i 0) = false := by unfold marked; exact decide_eq_false hm
        exact ih deps (i + 1) budget (by omega) (by omega) (by
          intro j hj
          by_cases hji : j = i
          · subst hji; exact hmx
          · exact hpre j (by omega)) hb hcnt
    · rw [if_neg hi]
      have hall : ∀ a ∈ deps, marked g a = false := by
        intro a ha
        obtain ⟨j, hj, rfl⟩ := List.mem_iff_getElem.1 ha
        have := hpre j (by omega)
        rw [List.getD_eq_getElem?_getD, List.getElem?_eq_getElem hj] at this
        exact this
      have hz : deps.countP (marked g) = 0 := by
        rw [List.countP_eq_zero]
        intro a ha; simp [hall a ha]
      refine ⟨?_, by simp only; omega⟩
      have : deps.filter (fun d => !marked g d) = deps := by
        rw [List.filter_eq_self]
        intro a ha; simp [hall a ha]
      rw [this]

/-! ### graphs that differ only in counters and set lists -/

structure SameDeps (a b : G) : Prop where
  len : b.nodes.length = a.nodes.length
  subs : b.subs = a.subs
  biProp : b.biProp = a.biProp
  deps : ∀ i, (b.node i).dependents = (a.node i).dependents
  alive : ∀ i, (b.node i).alive = (a.node i).alive
  biSet : ∀ i, (b.node i).biSet = (a.node i).biSet

theorem SameDeps.refl (g : G) : SameDeps g g :=
  ⟨rfl, rfl, rfl, fun _ => rfl, fun _ => rfl, fun _ => rfl⟩

theorem SameDeps.trans {a b c : G} (h1 : SameDeps a b) (h2 : SameDeps b c) : SameDeps a c :=
  ⟨h2.len.trans h1.len, h2.subs.trans h1.subs, h2.biProp.trans h1.biProp,
    fun i => (h2.deps i).trans (h1.deps i), fun i => (h2.alive i).trans (h1.alive i),
    fun i => (h2.biSet i).trans (h1.biSet i)⟩

theorem SameDeps.edges {a b : G} (h : SameDeps a b) : edges b = edges a := by
  unfold Dispenso.Graph.edges
  rw [h.len]
  apply List.flatMap_congr
  intro p _
  rw [h.alive p, h.deps p]

theorem sameDeps_setCounters (g : G) (i np v : Nat) :
    SameDeps g (g.setNode i { g.node i with numPred := np, inc := v }) := by
  refine ⟨by simp, rfl, rfl, ?_, ?_, ?_⟩ <;> intro j <;> rw [setNode_node] <;>
    split_ifs with h <;> first | rfl | (obtain ⟨rfl, _⟩ := h; rfl)

/-! ### phase 1: decrementDependentCounters -/

def decVisit (id : Nat) (g : G) (d : Nat) : G :=
  let dn := g.node d
  let inc' := if ¬ completed (g.node id) ∧ ¬ completed dn then wrap ((dn.inc : Int) - 1) else dn.inc
  g.setNode d { dn with numPred := dn.numPred - 1, inc := inc' }

def decBi (g1 : G) (id : Nat) (b : Option Nat) : G :=
  match b with
  | some s => { g1 with biSets := g1.biSets.set s ((g1.biSets.getD s []).filter (· ≠ id)) }
  | none => g1

def decOuter (g : G) (id : Nat) : G :=
  decBi ((g.node id).dependents.foldl (decVisit id) g) id (g.node id).biSet

theorem decrement_eq (g : G) (sub : Nat) :
    decrementDependentCounters g sub = (g.subs.getD sub []).foldl decOuter g := by
  unfold decrementDependentCounters decOuter decBi decVisit
  rfl

theorem decVisit_sameDeps (id : Nat) (g : G) (d : Nat) : SameDeps g (decVisit id g d) :=
  sameDeps_setCounters g d _ _

theorem decVisit_biSets (id : Nat) (g : G) (d : Nat) : (decVisit id g d).biSets = g.biSets := rfl

theorem decVisit_numPred_ne (id : Nat) (g : G) (d j : Nat) (h : j ≠ d) :
    ((decVisit id g d).node j).numPred = (g.node j).numPred := by
  unfold decVisit
  rw [setNode_node_ne g d _ j (Ne.symm h)]

theorem decVisit_numPred_self (id : Nat) (g : G) (d : Nat) (h : d < g.nodes.length) :
    ((decVisit id g d).node d).numPred = (g.node d).numPred - 1 := by
  unfold decVisit
  rw [setNode_node_self g d _ h]

theorem decBi_node (g1 : G) (id : Nat) (b : Option Nat) (j : Nat) :
    (decBi g1 id b).node j = g1.node j := by
  cases b <;> rfl

theorem decBi_sameDeps (g1 : G) (id : Nat) (b : Option Nat) : SameDeps g1 (decBi g1 id b) := by
  cases b <;> exact ⟨rfl, rfl, rfl, fun _ => rfl, fun _ => rfl, fun _ => rfl⟩

structure DInv (g gc : G) (Dn pend : List Nat) : Prop where
  sd : SameDeps g gc
  np : ∀ n, (g.node n).alive = true →
    (gc.node n).numPred + srcCount g Dn n = (g.node n).numPred + pend.count n
  pendl : ∀ d ∈ pend, (g.node d).alive = true

theorem DInv.visit {g gc : G} {Dn pend : List Nat} {d : Nat} (id : Nat)
    (hge : ∀ n S, (g.node n).alive = true → srcCount g S n ≤ (g.node n).numPred)
    (h : DInv g gc Dn (d :: pend)) : DInv g (decVisit id gc d) Dn pend := by
  have hal := h.pendl d List.mem_cons_self
  have hlt : d < gc.nodes.length := by rw [h.sd.len]; exact lt_of_alive hal
  refine ⟨h.sd.trans (decVisit_sameDeps id gc d), ?_,
    fun x hx => h.pendl x (List.mem_cons_of_mem _ hx)⟩
  intro n hn
  have := h.np n hn
  rw [List.count_cons] at this
  by_cases hnd : n = d
  · subst hnd
    rw [decVisit_numPred_self id gc n hlt]
    have := hge n Dn hn
    simp only [beq_self_eq_true, if_true] at *
    omega
  · rw [decVisit_numPred_ne id gc d n hnd]
    have hne : ¬ d = n := fun e => hnd e.symm
    simpa [hne] using this

theorem DInv.visitFold {g : G} {Dn : List Nat} (id : Nat)
    (hge : ∀ n S, (g.node n).alive = true → srcCount g S n ≤ (g.node n).numPred) :
    ∀ (pend : List Nat) (gc : G), DInv g gc Dn pend →
      DInv g (pend.foldl (decVisit id) gc) Dn [] ∧
      (pend.foldl (decVisit id) gc).biSets = gc.biSets := by
  intro pend
  induction pend with
  | nil => intro gc h; exact ⟨h, rfl⟩
  | cons d pend ih =>
    intro gc h
    rw [List.foldl_cons]
    have := ih _ (h.visit id hge)
    exact ⟨this.1, this.2.trans (decVisit_biSets id gc d)⟩

theorem DInv.outer {g gc : G} {Dn : List Nat} {c : Nat} (hw : WF g)
    (hge : ∀ n S, (g.node n).alive = true → srcCount g S n ≤ (g.node n).numPred)
    (h : DInv g gc Dn []) (hc : (g.node c).alive = true) (hcD : c ∉ Dn) :
    DInv g (decOuter gc c) (Dn ++ [c]) [] ∧
    (decOuter gc c).biSets = (decBi gc c (g.node c).biSet).biSets := by
  have h1 : DInv g gc (Dn ++ [c]) (gc.node c).dependents := by
    refine ⟨h.sd, ?_, ?_⟩
    · intro n hn
      have := h.np n hn
      rw [srcCount_snoc g Dn c n hc hcD, h.sd.deps c]
      simp at this
      omega
    · intro d hd
      rw [h.sd.deps] at hd
      exact hw.deps_live c d (mem_edges.2 ⟨hc, hd⟩)
  obtain ⟨h2, h3⟩ := DInv.visitFold c hge _ _ h1
  unfold decOuter
  refine ⟨⟨h2.sd.trans (decBi_sameDeps _ _ _), ?_, h2.pendl⟩, ?_⟩
  · intro n hn
    rw [decBi_node]; exact h2.np n hn
  · rw [h.sd.biSet c]
    cases (g.node c).biSet with
    | none => exact h3
    | some s => simp only [decBi]; rw [h3]

/-- the set lists after removing the ids in `Dn` -/
def SetsFiltered (g gc : G) (Dn : List Nat) : Prop :=
  ∀ s, gc.biSets.getD s [] = (g.biSets.getD s []).filter (fun x => decide (x ∉ Dn))

theorem getD_set_filter (l : List (List Nat)) (s s' : Nat) (p : Nat → Bool) :
    (l.set s ((l.getD s []).filter p)).getD s' [] =
      if s = s' then (l.getD s []).filter p else l.getD s' [] := by
  rw [getD_set_eq]
  by_cases h : s = s'
  · subst h
    by_cases h2 : s < l.length
    · simp [h2]
    · simp [h2]
  · simp [h]

theorem SetsFiltered.step {g gc : G} {Dn : List Nat} {c : Nat} (hs : SetsOK g)
    (h : SetsFiltered g gc Dn) : SetsFiltered g (decBi gc c (g.node c).biSet) (Dn ++ [c]) := by
  intro s
  have hnot : ∀ s', (g.node c).biSet ≠ some s' →
      (g.biSets.getD s' []).filter (fun x => decide (x ∉ Dn ++ [c])) =
      (g.biSets.getD s' []).filter (fun x => decide (x ∉ Dn)) := by
    intro s' hne
    apply List.filter_congr
    intro x hx
    have hxc : x ≠ c := by
      rintro rfl
      exact hne (hs.of_mem s' x hx).2
    simp [hxc]
  cases hb : (g.node c).biSet with
  | none =>
    show gc.biSets.getD s [] = _
    rw [h s, hnot s (by rw [hb]; simp)]
  | some s0 =>
    show (gc.biSets.set s0 ((gc.biSets.getD s0 []).filter (· ≠ c))).getD s [] = _
    rw [getD_set_filter]
    by_cases h0 : s0 = s
    · subst h0
      rw [if_pos rfl, h s0, List.filter_filter]
      apply List.filter_congr
      intro x _
      by_cases hxc : x = c <;> simp [hxc]
    · rw [if_neg h0, h s, hnot s (by rw [hb]; intro e; cases e; exact h0 rfl)]

theorem decrement_fold {g : G} (hw : WF g)
    (hge : ∀ n S, (g.node n).alive = true → srcCount g S n ≤ (g.node n).numPred) :
    ∀ (rest : List Nat) (gc : G) (Dn : List Nat), DInv g gc Dn [] → (Dn ++ rest).Nodup →
      (∀ x ∈ rest, (g.node x).alive = true) → (SetsOK g → SetsFiltered g gc Dn) →
      DInv g (rest.foldl decOuter gc) (Dn ++ rest) [] ∧
      (SetsOK g → SetsFiltered g (rest.foldl decOuter gc) (Dn ++ rest)) := by
  intro rest
  induction rest with
  | nil => intro gc Dn h _ _ hs; simpa using ⟨h, hs⟩
  | cons c rest ih =>
    intro gc Dn h hnd hl hs
    rw [List.foldl_cons]
    have hcD : c ∉ Dn := by
      intro hm
      rw [List.nodup_append] at hnd
      exact hnd.2.2 c hm c List.mem_cons_self rfl
    obtain ⟨h1, h2⟩ := h.outer hw hge (hl c List.mem_cons_self) hcD
    have heq : Dn ++ [c] ++ rest = Dn ++ c :: rest := by simp
    have := ih (decOuter gc c) (Dn ++ [c]) h1 (by rw [heq]; exact hnd)
      (fun x hx => hl x (List.mem_cons_of_mem _ hx)) (by
        intro hso
        have h3 := (hs hso).step (c := c) hso
        intro s
        rw [h2]; exact h3 s)
    rw [heq] at this
    exact this

/-! ### phase 2: markNodesWithPredecessors -/

def markF (n : NodeS) : NodeS := if n.numPred ≠ 0 then { n with numPred := kToDelete } else n

def markFn (acc : G × Nat) (id : Nat) : G × Nat :=
  let n := acc.1.node id
  if n.numPred ≠ 0 then (acc.1.setNode id { n with numPred := kToDelete }, acc.2 + n.numPred)
  else acc

theorem markNodes_eq (g : G) (sub : Nat) :
    markNodesWithPredecessors g sub = (g.subs.getD sub []).foldl markFn (g, 0) := rfl

theorem markF_idem (x : NodeS) : markF (markF x) = markF x := by
  unfold markF
  by_cases h : x.numPred ≠ 0
  · simp [h, kToDelete, kCompleted]
  · simp [h]

theorem markFn_step (gc : G) (t id : Nat) :
    markFn (gc, t) id = (gc.setNode id (markF (gc.node id)), t + (gc.node id).numPred) := by
  unfold markFn markF
  by_cases h : (gc.node id).numPred ≠ 0
  · simp [h]
  · have h0 : (gc.node id).numPred = 0 := by omega
    simp [h0, setNode_self_eq]

theorem markFn_fold : ∀ (l : List Nat) (gc : G) (t : Nat), l.Nodup →
    (l.foldl markFn (gc, t)).1 = l.foldl (fun g id => g.setNode id (markF (g.node id))) gc ∧
    (l.foldl markFn (gc, t)).2 = t + (l.map fun id => (gc.node id).numPred).sum := by
  intro l
  induction l with
  | nil => intro gc t _; simp
  | cons id l ih =>
    intro gc t hnd
    rw [List.nodup_cons] at hnd
    rw [List.foldl_cons, List.foldl_cons, markFn_step]
    obtain ⟨h1, h2⟩ := ih (gc.setNode id (markF (gc.node id))) (t + (gc.node id).numPred) hnd.2
    refine ⟨h1, ?_⟩
    rw [h2, List.map_cons, List.sum_cons]
    have : (l.map fun x => ((gc.setNode id (markF (gc.node id))).node x).numPred) =
        l.map fun x => (gc.node x).numPred := by
      apply List.map_congr_left
      intro x hx
      rw [setNode_node_ne]
      rintro rfl
      exact hnd.1 hx
    rw [this]; omega

/-! ### phase 3: removePredecessorDependencies -/

def remStep (acc : G × Nat) (id : Nat) : G × Nat :=
  if acc.2 = 0 then acc else
  let n := acc.1.node id
  let r := removeMarked acc.1 (n.dependents.length + 1) n.dependents 0 acc.2
  (acc.1.setNode id { n with dependents := r.1 }, r.2)

def others (g : G) (sub : Nat) : List Nat :=
  ((g.subs.zipIdx.filter fun p => p.2 ≠ sub).map (·.1)).flatten

theorem removePred_eq (g : G) (sub budget : Nat) :
    removePredecessorDependencies g sub budget = ((others g sub).foldl remStep (g, budget)).1 := rfl

structure SameButDeps (a b : G) : Prop where
  len : b.nodes.length = a.nodes.length
  subs : b.subs = a.subs
  biProp : b.biProp = a.biProp
  biSets : b.biSets = a.biSets
  alive : ∀ i, (b.node i).alive = (a.node i).alive
  numPred : ∀ i, (b.node i).numPred = (a.node i).numPred
  biSet : ∀ i, (b.node i).biSet = (a.node i).biSet

theorem SameButDeps.refl (g : G) : SameButDeps g g :=
  ⟨rfl, rfl, rfl, rfl, fun _ => rfl, fun _ => rfl, fun _ => rfl⟩

theorem SameButDeps.trans {a b c : G} (h1 : SameButDeps a b) (h2 : SameButDeps b c) :
    SameButDeps a c :=
  ⟨h2.len.trans h1.len, h2.subs.trans h1.subs, h2.biProp.trans h1.biProp,
    h2.biSets.trans h1.biSets, fun i => (h2.alive i).trans (h1.alive i),
    fun i => (h2.numPred i).trans (h1.numPred i), fun i => (h2.biSet i).trans (h1.biSet i)⟩

theorem sameButDeps_setDeps (g : G) (i : Nat) (l : List Nat) :
    SameButDeps g (g.setNode i { g.node i with dependents := l }) := by
  refine ⟨by simp, rfl, rfl, rfl, ?_, ?_, ?_⟩ <;> intro j <;> rw [setNode_node] <;>
    split_ifs with h <;> first | rfl | (obtain ⟨rfl, _⟩ := h; rfl)

theorem SameButDeps.marked {a b : G} (h : SameButDeps a b) : marked b = marked a := by
  funext d; unfold Dispenso.Graph.marked; rw [h.numPred]

def mcount (g2 : G) (q : Nat) : Nat := ((g2.node q).dependents).countP (marked g2)

structure RInv (g2 gc : G) (b : Nat) (donel rest : List Nat) : Prop where
  sb : SameButDeps g2 gc
  dn : ∀ q ∈ donel, (gc.node q).dependents ~
    ((g2.node q).dependents).filter (fun d => !marked g2 d)
  nd : ∀ q, q ∉ donel → (gc.node q).dependents = (g2.node q).dependents
  bud : b = (rest.map (mcount g2)).sum

theorem filter_unmarked_self {g2 : G} {l : List Nat} (h : l.countP (marked g2) = 0) :
    l.filter (fun d => !marked g2 d) = l := by
  rw [List.filter_eq_self]
  intro a ha
  rw [List.countP_eq_zero] at h
  simpa using h a ha

theorem RInv.step {g2 gc : G} {b : Nat} {donel rest : List Nat} {id : Nat}
    (h : RInv g2 gc b donel (id :: rest)) (hid : id < g2.nodes.length) (hidd : id ∉ donel) :
    RInv g2 (remStep (gc, b) id).1 (remStep (gc, b) id).2 (donel ++ [id]) rest := by
  have hbud := h.bud
  rw [List.map_cons, List.sum_cons] at hbud
  have hdeps := h.nd id hidd
  unfold remStep
  by_cases hb0 : b = 0
  · simp only [hb0, if_true]
    have hm0 : mcount g2 id = 0 := by omega
    refine ⟨h.sb, ?_, ?_, by omega⟩
    · intro q hq
      rw [List.mem_append, List.mem_singleton] at hq
      rcases hq with hq | rfl
      · exact h.dn q hq
      · rw [hdeps, filter_unmarked_self hm0]
    · intro q hq
      exact h.nd q (fun hm => hq (List.mem_append_left _ hm))
  · simp only [hb0, if_false]
    have hspec := removeMarked_spec gc ((gc.node id).dependents.length + 1) (gc.node id).dependents
      0 b (by omega) (by omega) (fun j hj => by omega) (by omega) (by
        rw [h.sb.marked, hdeps]
        show mcount g2 id ≤ b
        omega)
    rw [h.sb.marked, hdeps] at hspec
    have hidc : id < gc.nodes.length := by rw [h.sb.len]; exact hid
    refine ⟨h.sb.trans (sameButDeps_setDeps gc id _), ?_, ?_, ?_⟩
    · intro q hq
      rw [List.mem_append, List.mem_singleton] at hq
      by_cases hqi : q = id
      · subst hqi
        rw [setNode_node_self gc q _ hidc]
        rw [hdeps]
        exact hspec.1
      · rw [setNode_node_ne gc id _ q (Ne.symm hqi)]
        rcases hq with hq | hq
        · exact h.dn q hq
        · exact absurd hq hqi
    · intro q hq
      have hqi : q ≠ id := fun e => hq (List.mem_append_right _ (by simp [e]))
      rw [setNode_node_ne gc id _ q (Ne.symm hqi)]
      exact h.nd q (fun hm => hq (List.mem_append_left _ hm))
    · show (removeMarked gc ((gc.node id).dependents.length + 1) (gc.node id).dependents 0 b).2 = _
      rw [hdeps, hspec.2]
      show b - mcount g2 id = _
      omega

theorem RInv.fold {g2 : G} :
    ∀ (rest : List Nat) (gc : G) (b : Nat) (donel : List Nat), RInv g2 gc b donel rest →
      (donel ++ rest).Nodup → (∀ x ∈ rest, x < g2.nodes.length) →
      RInv g2 (rest.foldl remStep (gc, b)).1 (rest.foldl remStep (gc, b)).2 (donel ++ rest) [] := by
  intro rest
  induction rest with
  | nil => intro gc b donel h _ _; simpa using h
  | cons id rest ih =>
    intro gc b donel h hnd hr
    rw [List.foldl_cons]
    have hidd : id ∉ donel := by
      intro hm
      rw [List.nodup_append] at hnd
      exact hnd.2.2 id hm id List.mem_cons_self rfl
    have h1 := h.step (hr id List.mem_cons_self) hidd
    have heq : donel ++ [id] ++ rest = donel ++ id :: rest := by simp
    have := ih _ _ (donel ++ [id]) h1 (by rw [heq]; exact hnd)
      (fun x hx => hr x (List.mem_cons_of_mem _ hx))
    rw [heq] at this
    exact this

theorem remStep_zero_fold : ∀ (l : List Nat) (g : G), l.foldl remStep (g, 0) = (g, 0) := by
  intro l
  induction l with
  | nil => intro g; rfl
  | cons a l ih =>
    intro g
    rw [List.foldl_cons]
    have : remStep (g, 0) a = (g, 0) := by unfold remStep; simp
    rw [this]; exact ih g

/-! ### combinatorial glue -/

theorem zipIdx_filter_ne : ∀ (l : List (List Nat)) (n k : Nat),
    ((l.zipIdx n).filter (fun p => decide (p.2 ≠ n + k))).map (·.1) = l.eraseIdx k := by
  intro l
  induction l with
  | nil => intro n k; simp
  | cons a l ih =>
    intro n k
    rw [List.zipIdx_cons]
    cases k with
    | zero =>
      have h1 : decide ((a, n).2 ≠ n + 0) = false := by simp
      rw [List.filter_cons, h1]
      simp only [Bool.false_eq_true, if_false, List.eraseIdx_cons_zero]
      have : (l.zipIdx (n + 1)).filter (fun p => decide (p.2 ≠ n + 0)) = l.zipIdx (n + 1) := by
        rw [List.filter_eq_self]
        intro p hp
        have := List.le_snd_of_mem_zipIdx hp
        simp only [Nat.add_zero, ne_eq, decide_not, Bool.not_eq_eq_eq_not, Bool.not_true,
          decide_eq_false_iff_not]
        omega
      rw [this, List.zipIdx_map_fst]
    | succ k =>
      have h1 : decide ((a, n).2 ≠ n + (k + 1)) = true := by
        simp only [ne_eq, decide_not, Bool.not_eq_eq_eq_not, Bool.not_true,
          decide_eq_false_iff_not]
        omega
      rw [List.filter_cons, h1]
      simp only [if_true, List.map_cons, List.eraseIdx_cons_succ]
      have := ih (n + 1) k
      have h2 : n + 1 + k = n + (k + 1) := by omega
      rw [h2] at this
      rw [this]

theorem others_eq (g : G) (sub : Nat) : others g sub = (g.subs.eraseIdx sub).flatten := by
  unfold others
  have := zipIdx_filter_ne g.subs 0 sub
  rw [Nat.zero_add] at this
  show ((List.filter (fun p => decide (p.2 ≠ sub)) (g.subs.zipIdx 0)).map (·.1)).flatten = _
  rw [this]

theorem getD_nil_of_ge {l : List (List Nat)} {k : Nat} (h : l.length ≤ k) : l.getD k [] = [] := by
  rw [List.getD_eq_getElem?_getD, List.getElem?_eq_none h]; rfl

theorem others_spec (g : G) (sub : Nat) (hw : WF g) :
    (others g sub).Nodup ∧ (g.subs.getD sub []).Nodup ∧
    (∀ x, x ∈ others g sub ↔ (x ∈ allNodes g ∧ x ∉ g.subs.getD sub [])) ∧
    (∀ x, x ∈ g.subs.getD sub [] → x ∈ allNodes g) := by
  rw [others_eq]
  by_cases h : sub < g.subs.length
  · have hperm := flatten_perm_getD g.subs sub h
    have hnd : (g.subs.getD sub [] ++ (g.subs.eraseIdx sub).flatten).Nodup :=
      hperm.nodup_iff.1 hw.nodup
    rw [List.nodup_append] at hnd
    refine ⟨hnd.2.1, hnd.1, ?_, ?_⟩
    · intro x
      unfold allNodes
      rw [hperm.mem_iff, List.mem_append]
      constructor
      · intro hx
        exact ⟨Or.inr hx, fun hS => hnd.2.2 x hS x hx rfl⟩
      · rintro ⟨h1 | h1, h2⟩
        · exact absurd h1 h2
        · exact h1
    · intro x hx
      unfold allNodes
      rw [hperm.mem_iff, List.mem_append]; exact Or.inl hx
  · have h' : g.subs.length ≤ sub := Nat.le_of_not_lt h
    rw [List.eraseIdx_of_length_le h', getD_nil_of_ge h']
    refine ⟨hw.nodup, List.nodup_nil, fun x => by simp [allNodes], fun x hx => by cases hx⟩

theorem allNodes_clear_perm (g : G) (sub : Nat) :
    (g.subs.set sub []).flatten ~ others g sub := by
  rw [others_eq]
  by_cases h : sub < g.subs.length
  · simpa using flatten_set_perm g.subs sub [] h
  · have h' : g.subs.length ≤ sub := Nat.le_of_not_lt h
    rw [List.eraseIdx_of_length_le h', List.set_eq_of_length_le h']

theorem sum_map_zero (l : List Nat) : (l.map (fun _ => 0)).sum = 0 := by
  induction l <;> simp_all

theorem sum_indicator (n : Nat) (f : Nat → Nat) : ∀ (l : List Nat), l.Nodup → (∀ x ∈ l, x < n) →
    (l.map f).sum = ((List.range n).map fun p => if p ∈ l then f p else 0).sum := by
  intro l
  induction l with
  | nil => intro _ _; simp
  | cons a l ih =>
    intro hnd hl
    rw [List.nodup_cons] at hnd
    rw [List.map_cons, List.sum_cons, ih hnd.2 (fun x hx => hl x (List.mem_cons_of_mem _ hx))]
    have := sum_map_update (List.range n) List.nodup_range
      (fun p => if p ∈ l then f p else 0) (fun p => if p ∈ a :: l then f p else 0) a (f a)
      (List.mem_range.2 (hl a List.mem_cons_self)) (by
        intro p _ hpa
        simp [hpa]) (by simp [hnd.1])
    rw [this]; omega

theorem sum_countP_targets (L : List (Nat × Nat)) (P : Nat × Nat → Bool) :
    ∀ (S : List Nat), S.Nodup →
      (S.map fun x => L.countP (fun e => decide (e.2 = x) && P e)).sum =
        L.countP (fun e => decide (e.2 ∈ S) && P e) := by
  intro S
  induction S with
  | nil => intro _; simp
  | cons x S ih =>
    intro hnd
    rw [List.nodup_cons] at hnd
    rw [List.map_cons, List.sum_cons, ih hnd.2]
    symm
    apply countP_split
    intro e _
    simp only [Bool.and_eq_true, decide_eq_true_eq, List.mem_cons]
    constructor
    · constructor
      · rintro ⟨h1 | h1, h2⟩
        · exact Or.inl ⟨h1, h2⟩
        · exact Or.inr ⟨h1, h2⟩
      · rintro (⟨h1, h2⟩ | ⟨h1, h2⟩)
        · exact ⟨Or.inl h1, h2⟩
        · exact ⟨Or.inr h1, h2⟩
    · rintro ⟨⟨h1, _⟩, h2, _⟩
      exact hnd.1 (h1 ▸ h2)

/-! ### assembling `clearSubgraph` -/

/-- edges into `d` from sources outside `S` -/
def extCount (g : G) (S : List Nat) (d : Nat) : Nat :=
  (edges g).countP (fun e => decide (e.2 = d) && decide (e.1 ∉ S))

theorem indeg_split (g : G) (S : List Nat) (d : Nat) :
    indeg g d = extCount g S d + srcCount g S d := by
  unfold indeg extCount srcCount
  apply countP_split
  intro e _
  simp only [Bool.and_eq_true, decide_eq_true_eq]
  constructor
  · constructor
    · intro h1
      by_cases h2 : e.1 ∈ S
      · exact Or.inr ⟨h1, h2⟩
      · exact Or.inl ⟨h1, h2⟩
    · rintro (⟨h1, _⟩ | ⟨h1, _⟩) <;> exact h1
  · rintro ⟨⟨_, h2⟩, _, h3⟩
    exact h2 h3

theorem clearSubgraph_eq (g : G) (sub : Nat) : clearSubgraph g sub =
    (let g1 := decrementDependentCounters g sub
     let m := markNodesWithPredecessors g1 sub
     let g3 := if m.2 ≠ 0 then removePredecessorDependencies m.1 sub m.2 else m.1
     let g4 := (g3.subs.getD sub []).foldl (fun g id => g.setNode id dead) g3
     { g4 with subs := g4.subs.set sub [] }) := rfl

theorem others_congr {a b : G} (h : b.subs = a.subs) (sub : Nat) : others b sub = others a sub := by
  unfold others; rw [h]

structure ClearRes (g g' : G) (sub : Nat) (S : List Nat) : Prop where
  len : g'.nodes.length = g.nodes.length
  biProp : g'.biProp = g.biProp
  subs : g'.subs = g.subs.set sub []
  dead : ∀ i ∈ S, g'.node i = Dispenso.Graph.dead
  alive : ∀ i, i ∉ S → (g'.node i).alive = (g.node i).alive
  biSet : ∀ i, i ∉ S → (g'.node i).biSet = (g.node i).biSet
  numPred : ∀ i, i ∉ S → (g.node i).alive = true →
    (g'.node i).numPred + srcCount g S i = (g.node i).numPred
  deps : ∀ p, (g.node p).alive = true → p ∉ S →
    (g'.node p).dependents ~ ((g.node p).dependents).filter (fun d => decide (d ∉ S))
  sets : SetsOK g → ∀ s, g'.biSets.getD s [] = (g.biSets.getD s []).filter (fun x => decide (x ∉ S))

theorem markF_deps (x : NodeS) : (markF x).dependents = x.dependents := by
  unfold markF; split_ifs <;> rfl
theorem markF_alive (x : NodeS) : (markF x).alive = x.alive := by
  unfold markF; split_ifs <;> rfl
theorem markF_biSet (x : NodeS) : (markF x).biSet = x.biSet := by
  unfold markF; split_ifs <;> rfl

theorem clear_res (g : G) (sub : Nat) (hw : WF g) (hp : PredOK g) (hb : EdgeBound g) :
    ClearRes g (clearSubgraph g sub) sub (g.subs.getD sub []) := by
  obtain ⟨hOnd, hSnd, hOmem, hSall⟩ := others_spec g sub hw
  set S := g.subs.getD sub [] with hS
  have hSlive : ∀ x ∈ S, (g.node x).alive = true := fun x hx => (hw.mem_all x).1 (hSall x hx)
  have hge : ∀ n T, (g.node n).alive = true → srcCount g T n ≤ (g.node n).numPred := by
    intro n T hn
    rw [hp n hn]
    unfold srcCount indeg
    apply List.countP_mono_left
    intro e _ he
    simp only [decide_eq_true_eq] at he ⊢
    exact he.1
  unfold EdgeBound at hb
  -- phase 1
  have hD0 : DInv g g [] [] := by
    refine ⟨SameDeps.refl g, ?_, fun d hd => by cases hd⟩
    intro n _; rw [srcCount_nil]; simp
  have hF0 : SetsOK g → SetsFiltered g g [] := by
    intro _ s
    symm
    rw [List.filter_eq_self]
    intro a _; simp
  obtain ⟨D1, hs1⟩ := decrement_fold hw hge S g [] hD0 (by simpa using hSnd) hSlive hF0
  have hdeq : decrementDependentCounters g sub = S.foldl decOuter g := decrement_eq g sub
  rw [List.nil_append, ← hdeq] at D1 hs1
  set g1 := decrementDependentCounters g sub with hg1
  have hsubs1 : g1.subs.getD sub [] = S := by rw [D1.sd.subs]
  -- numPred after phase 1 = external in-degree
  have hnp1 : ∀ d, (g.node d).alive = true → (g1.node d).numPred = extCount g S d := by
    intro d hd
    have h1 := D1.np d hd
    have h2 := indeg_split g S d
    rw [← hp d hd] at h2
    simp at h1
    omega
  -- phase 2
  have hrange1 : ∀ i ∈ S, i < g1.nodes.length := by
    intro i hi; rw [D1.sd.len]; exact lt_of_alive (hSlive i hi)
  obtain ⟨hm1, hm2⟩ := markFn_fold S g1 0 hSnd
  obtain ⟨hn2, hlen2, hsubs2, hbs2, hbp2⟩ := foldl_setNode_node markF markF_idem S g1 hrange1
  have hmeq : markNodesWithPredecessors g1 sub = S.foldl markFn (g1, 0) := by
    rw [markNodes_eq, hsubs1]
  rw [← hmeq] at hm1 hm2
  rw [← hm1] at hn2 hlen2 hsubs2 hbs2 hbp2
  set g2 := (markNodesWithPredecessors g1 sub).1 with hg2
  set total := (markNodesWithPredecessors g1 sub).2 with htotal
  have hdeps2 : ∀ i, (g2.node i).dependents = (g.node i).dependents := by
    intro i
    rw [hn2 i]
    split_ifs
    · rw [markF_deps, D1.sd.deps]
    · rw [D1.sd.deps]
  have halive2 : ∀ i, (g2.node i).alive = (g.node i).alive := by
    intro i
    rw [hn2 i]
    split_ifs
    · rw [markF_alive, D1.sd.alive]
    · rw [D1.sd.alive]
  have hbiSet2 : ∀ i, (g2.node i).biSet = (g.node i).biSet := by
    intro i
    rw [hn2 i]
    split_ifs
    · rw [markF_biSet, D1.sd.biSet]
    · rw [D1.sd.biSet]
  -- marks
  have hmark : ∀ d, (g.node d).alive = true →
      (marked g2 d = true ↔ (d ∈ S ∧ extCount g S d ≠ 0)) := by
    intro d hd
    unfold marked
    rw [decide_eq_true_eq, hn2 d]
    have hle : extCount g S d ≤ (edges g).length := List.countP_le_length
    by_cases hdS : d ∈ S
    · rw [if_pos hdS]
      unfold markF
      rw [hnp1 d hd]
      by_cases h0 : extCount g S d ≠ 0
      · rw [if_pos h0]
        simp only [true_iff]
        exact ⟨hdS, h0⟩
      · rw [if_neg h0, hnp1 d hd]
        constructor
        · intro h; exfalso; unfold kToDelete at h; omega
        · intro h; exact absurd h.2 h0
    · rw [if_neg hdS, hnp1 d hd]
      constructor
      · intro h; exfalso; unfold kToDelete at h; omega
      · intro h; exact absurd h.1 hdS
  have hkey : ∀ p d, (g.node p).alive = true → p ∉ S → d ∈ (g.node p).dependents →
      (marked g2 d = true ↔ d ∈ S) := by
    intro p d hpl hpS hd
    have he : (p, d) ∈ edges g := mem_edges.2 ⟨hpl, hd⟩
    rw [hmark d (hw.deps_live p d he)]
    constructor
    · exact fun h => h.1
    · intro hdS
      refine ⟨hdS, ?_⟩
      have : 0 < extCount g S d := by
        unfold extCount
        rw [List.countP_pos_iff]
        exact ⟨(p, d), he, by simp [hpS]⟩
      omega
  -- the budget identity
  have hothers2 : others g2 sub = others g sub := others_congr (hsubs2.trans D1.sd.subs) sub
  have hOlive : ∀ q, q ∈ others g sub ↔ ((g.node q).alive = true ∧ q ∉ S) := by
    intro q; rw [hOmem q, hw.mem_all]
  have hbudget : total = ((others g sub).map (mcount g2)).sum := by
    rw [hm2, Nat.zero_add]
    have e1 : (S.map fun id => (g1.node id).numPred) = S.map fun id => extCount g S id := by
      apply List.map_congr_left
      intro id hid
      exact hnp1 id (hSlive id hid)
    rw [e1]
    have e2 := sum_countP_targets (edges g) (fun e => decide (e.1 ∉ S)) S hSnd
    have e2' : (S.map fun id => extCount g S id).sum =
        (edges g).countP (fun e => decide (e.2 ∈ S) && decide (e.1 ∉ S)) := e2
    rw [e2', countP_edges]
    rw [sum_indicator g.nodes.length (mcount g2) (others g sub) hOnd
      (fun x hx => lt_of_alive ((hOlive x).1 hx).1)]
    apply sum_map_congr
    intro p _
    by_cases hpl : (g.node p).alive = true
    · rw [if_pos hpl]
      by_cases hpS : p ∈ S
      · rw [if_neg (fun h => ((hOlive p).1 h).2 hpS)]
        rw [List.countP_eq_zero]
        intro d _; simp [hpS]
      · rw [if_pos ((hOlive p).2 ⟨hpl, hpS⟩)]
        unfold mcount
        rw [hdeps2 p]
        apply List.countP_congr
        intro d hd
        rw [hkey p d hpl hpS hd]
        simp [hpS]
    · rw [if_neg hpl, if_neg (fun h => hpl ((hOlive p).1 h).1)]
  -- phase 3
  have hg3eq : (if total ≠ 0 then removePredecessorDependencies g2 sub total else g2) =
      ((others g sub).foldl remStep (g2, total)).1 := by
    by_cases ht : total = 0
    · rw [if_neg (by simpa using ht), ht, remStep_zero_fold]
    · rw [if_pos ht, removePred_eq, hothers2]
  have hR0 : RInv g2 g2 total [] (others g sub) :=
    ⟨SameButDeps.refl g2, fun q hq => (by cases hq), fun q _ => rfl, hbudget⟩
  have R3 := RInv.fold (others g sub) g2 total [] hR0 (by simpa using hOnd)
    (fun x hx => by rw [hlen2, D1.sd.len]; exact lt_of_alive ((hOlive x).1 hx).1)
  rw [List.nil_append, ← hg3eq] at R3
  set g3 := (if total ≠ 0 then removePredecessorDependencies g2 sub total else g2) with hg3
  have hsubs3 : g3.subs = g.subs := R3.sb.subs.trans (hsubs2.trans D1.sd.subs)
  have hlen3 : g3.nodes.length = g.nodes.length := R3.sb.len.trans (hlen2.trans D1.sd.len)
  -- phase 4
  have hrange3 : ∀ i ∈ S, i < g3.nodes.length := by
    intro i hi; rw [hlen3]; exact lt_of_alive (hSlive i hi)
  obtain ⟨hn4, hlen4, hsubs4, hbs4, hbp4⟩ :=
    foldl_setNode_node (fun _ => Dispenso.Graph.dead) (fun _ => rfl) S g3 hrange3
  have hfinal : clearSubgraph g sub =
      { (S.foldl (fun g id => g.setNode id Dispenso.Graph.dead) g3) with
        subs := (S.foldl (fun g id => g.setNode id Dispenso.Graph.dead) g3).subs.set sub [] } := by
    rw [clearSubgraph_eq]
    simp only
    rw [← hg1, ← hg2, ← htotal, ← hg3, hsubs3, ← hS]
  have hnodeF : ∀ i, (clearSubgraph g sub).node i =
      if i ∈ S then Dispenso.Graph.dead else g3.node i := by
    intro i; rw [hfinal]; exact hn4 i
  refine ⟨?_, ?_, ?_, ?_, ?_, ?_, ?_, ?_, ?_⟩
  · rw [hfinal]; exact hlen4.trans hlen3
  · rw [hfinal]
    exact hbp4.trans (R3.sb.biProp.trans (hbp2.trans D1.sd.biProp))
  · rw [hfinal]
    show (S.foldl (fun g id => g.setNode id Dispenso.Graph.dead) g3).subs.set sub [] = _
    rw [hsubs4, hsubs3]
  · intro i hi; rw [hnodeF i, if_pos hi]
  · intro i hi
    rw [hnodeF i, if_neg hi, R3.sb.alive, halive2]
  · intro i hi
    rw [hnodeF i, if_neg hi, R3.sb.biSet, hbiSet2]
  · intro i hi hal
    rw [hnodeF i, if_neg hi, R3.sb.numPred, hn2 i, if_neg hi]
    have := D1.np i hal
    simpa using this
  · intro p hpl hpS
    rw [hnodeF p, if_neg hpS]
    have hpo := (hOlive p).2 ⟨hpl, hpS⟩
    have h1 := R3.dn p hpo
    rw [hdeps2 p] at h1
    have h2 : ((g.node p).dependents).filter (fun d => !marked g2 d) =
        ((g.node p).dependents).filter (fun d => decide (d ∉ S)) := by
      apply List.filter_congr
      intro d hd
      have := hkey p d hpl hpS hd
      by_cases hdS : d ∈ S
      · simp [hdS, this.2 hdS]
      · have : marked g2 d = false := by
          by_contra hc
          exact hdS (this.1 (by simpa using hc))
        simp [hdS, this]
    rw [h2] at h1
    exact h1
  · intro hso s
    rw [hfinal]
    show (S.foldl (fun g id => g.setNode id Dispenso.Graph.dead) g3).biSets.getD s [] = _
    rw [hbs4, R3.sb.biSets, hbs2]
    exact hs1 hso s

/-! ### consequences -/

theorem ClearRes.countP_edges {g g' : G} {sub : Nat} {S : List Nat} (h : ClearRes g g' sub S)
    (q : Nat × Nat → Bool) :
    (edges g').countP q =
      (edges g).countP (fun e => q e && decide (e.1 ∉ S ∧ e.2 ∉ S)) := by
  rw [Dispenso.Graph.countP_edges, Dispenso.Graph.countP_edges, h.len]
  apply sum_map_congr
  intro p _
  by_cases hpS : p ∈ S
  · rw [h.dead p hpS, dead_alive]
    simp only [Bool.false_eq_true, if_false]
    split_ifs
    · symm
      rw [List.countP_eq_zero]
      intro d _; simp [hpS]
    · rfl
  · rw [h.alive p hpS]
    by_cases hpl : (g.node p).alive = true
    · rw [if_pos hpl, if_pos hpl, (h.deps p hpl hpS).countP_eq, List.countP_filter]
      apply List.countP_congr
      intro d _
      simp [hpS]
    · rw [if_neg hpl, if_neg hpl]

theorem ClearRes.edges_perm {g g' : G} {sub : Nat} {S : List Nat} (h : ClearRes g g' sub S) :
    edges g' ~ (edges g).filter (fun e => decide (e.1 ∉ S ∧ e.2 ∉ S)) := by
  rw [List.perm_iff_count]
  intro a
  rw [List.count_eq_countP, List.count_eq_countP, h.countP_edges, List.countP_filter]

theorem ClearRes.mem_edges {g g' : G} {sub : Nat} {S : List Nat} (h : ClearRes g g' sub S)
    (p d : Nat) : (p, d) ∈ edges g' ↔ ((p, d) ∈ edges g ∧ p ∉ S ∧ d ∉ S) := by
  rw [h.edges_perm.mem_iff, List.mem_filter]
  simp

theorem ClearRes.alive_iff {g g' : G} {sub : Nat} {S : List Nat} (h : ClearRes g g' sub S)
    (i : Nat) : (g'.node i).alive = true ↔ ((g.node i).alive = true ∧ i ∉ S) := by
  by_cases hi : i ∈ S
  · rw [h.dead i hi, dead_alive]
    simp [hi]
  · rw [h.alive i hi]
    simp [hi]

theorem ClearRes.wf {g g' : G} {sub : Nat} (h : ClearRes g g' sub (g.subs.getD sub []))
    (hw : WF g) : WF g' := by
  obtain ⟨hOnd, _, hOmem, _⟩ := others_spec g sub hw
  have hperm : allNodes g' ~ others g sub := by
    unfold allNodes; rw [h.subs]; exact allNodes_clear_perm g sub
  refine ⟨?_, hperm.nodup_iff.2 hOnd, ?_⟩
  · intro p d he
    obtain ⟨he', _, hd⟩ := (h.mem_edges p d).1 he
    rw [h.alive_iff]
    exact ⟨hw.deps_live p d he', hd⟩
  · intro i
    rw [hperm.mem_iff, hOmem i, hw.mem_all, h.alive_iff]

theorem ClearRes.predOK {g g' : G} {sub : Nat} {S : List Nat} (h : ClearRes g g' sub S)
    (hp : PredOK g) : PredOK g' := by
  intro n hn
  obtain ⟨hal, hnS⟩ := (h.alive_iff n).1 hn
  have h1 := h.numPred n hnS hal
  have h2 := indeg_split g S n
  rw [← hp n hal] at h2
  have h3 : indeg g' n = extCount g S n := by
    unfold indeg extCount
    rw [h.countP_edges]
    apply List.countP_congr
    intro e _
    simp only [Bool.and_eq_true, decide_eq_true_eq]
    constructor
    · rintro ⟨h4, h5, _⟩; exact ⟨h4, h5⟩
    · rintro ⟨h4, h5⟩; exact ⟨h4, h5, h4 ▸ hnS⟩
  omega

theorem ClearRes.setsOK {g g' : G} {sub : Nat} {S : List Nat} (h : ClearRes g g' sub S)
    (hs : SetsOK g) : SetsOK g' := by
  have hsets := h.sets hs
  refine ⟨?_, ?_⟩
  · intro i s hal hb
    obtain ⟨hal', hiS⟩ := (h.alive_iff i).1 hal
    rw [h.biSet i hiS] at hb
    rw [hsets s, List.mem_filter]
    exact ⟨hs.mem_of i s hal' hb, by simp [hiS]⟩
  · intro s i hm
    rw [hsets s, List.mem_filter] at hm
    have hiS : i ∉ S := by simpa using hm.2
    have := hs.of_mem s i hm.1
    rw [h.alive i hiS, h.biSet i hiS]
    exact this

theorem ClearRes.edgeBound {g g' : G} {sub : Nat} {S : List Nat} (h : ClearRes g g' sub S)
    (hb : EdgeBound g) : EdgeBound g' := by
  unfold EdgeBound at hb ⊢
  have := h.edges_perm.length_eq
  have h2 := List.length_filter_le (fun e => decide (e.1 ∉ S ∧ e.2 ∉ S)) (edges g)
  omega

end Dispenso.Graph
