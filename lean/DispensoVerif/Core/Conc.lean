/-
Generic interleaving semantics for small lock-free protocols, at the granularity of one model
action per atomic operation of the C++ code (C18–C24, C34–C37, C41, C42, C45).

A protocol supplies, for every thread-local control state `L`, the atomic operation the thread
performs next (`op`) and its local state after the operation returned a value (`cont`).  Shared
memory, futex parking/waking, time-outs and spurious wake-ups are generic.  The same `exec`
function is (a) what the theorems quantify over (`Reachable`: any finite action sequence, any number
of threads) and (b) what `dvdriver` runs to accept or reject a trace of the real code recorded by
dsched (field, operation, operand and observed value must match) — so the proved model and the
validated model are literally the same definition.

Sequentially consistent; memory orders are the subject of C10.  Values are unbounded `Int`
(wrap-around excluded); the trace comparison normalises modulo the field width.
Core Lean only.
-/
namespace Dispenso.Conc

abbrev TId := Nat
abbrev Fld := Nat

/-- futex return codes as seen by `cont` -/
def rWoken : Int := 0
def rAgain : Int := 11     -- EAGAIN: value mismatch, did not park
def rTimedOut : Int := 110 -- ETIMEDOUT

inductive AOp where
  | load (f : Fld)
  | store (f : Fld) (v : Int)
  | xchg (f : Fld) (v : Int)
  | fadd (f : Fld) (v : Int)
  | fsub (f : Fld) (v : Int)
  | for_ (f : Fld) (v : Int)
  | fand (f : Fld) (v : Int)
  | cas (f : Fld) (exp des : Int)
  | fwait (f : Fld) (exp : Int) (timed : Bool)
  | fwake (f : Fld) (n : Nat)
  | fence
  | yield
  | silent
  deriving Repr, DecidableEq

structure Proto where
  L : Type
  /-- the next atomic operation of a thread in local state `l`; `none`: not inside an API call -/
  op : L → Option AOp
  /-- local state after the pending operation returned `r`
      (load/rmw: previous value; cas: observed value, success iff it equals `exp`;
       fwait: `rWoken`/`rAgain`/`rTimedOut`; fwake: number woken) -/
  cont : L → Int → L
  /-- client contract: from idle local state `l` the client may start the call that sets `l'` -/
  entry : L → L → Bool

structure State (P : Proto) where
  mem : Fld → Int
  loc : TId → P.L
  parked : TId → Option (Fld × Bool)
  threads : List TId

inductive Act (P : Proto) where
  | step (t : TId)
  | wake (t : TId) (woken : List TId)
  | timeout (t : TId)
  | spurious (t : TId)
  | call (t : TId) (l : P.L)

def setLoc {P : Proto} (s : State P) (t : TId) (l : P.L) : State P :=
  { s with loc := fun u => if u = t then l else s.loc u }

def setMem {P : Proto} (s : State P) (f : Fld) (v : Int) : State P :=
  { s with mem := fun g => if g = f then v else s.mem g }

def setParked {P : Proto} (s : State P) (t : TId) (p : Option (Fld × Bool)) : State P :=
  { s with parked := fun u => if u = t then p else s.parked u }

/-- bitwise or/and for the non-negative words the protocols use (lock words, flags) -/
def bor (a b : Int) : Int := Int.ofNat (a.toNat ||| b.toNat)
def band (a b : Int) : Int := Int.ofNat (a.toNat &&& b.toNat)

/-- result value and memory effect of a non-futex operation -/
def memEffect (mem : Fld → Int) : AOp → Option (Int × Option (Fld × Int))
  | .load f => some (mem f, none)
  | .store f v => some (0, some (f, v))
  | .xchg f v => some (mem f, some (f, v))
  | .fadd f v => some (mem f, some (f, mem f + v))
  | .fsub f v => some (mem f, some (f, mem f - v))
  | .for_ f v => some (mem f, some (f, bor (mem f) v))
  | .fand f v => some (mem f, some (f, band (mem f) v))
  | .cas f e d => some (mem f, if mem f = e then some (f, d) else none)
  | .fence => some (0, none)
  | .yield => some (0, none)
  | .silent => some (0, none)
  | .fwait _ _ _ => none
  | .fwake _ _ => none

def parkedOn {P : Proto} (s : State P) (f : Fld) : List TId :=
  s.threads.filter fun u => match s.parked u with
    | some (g, _) => g = f
    | none => false

/-- wake up the threads of `ws` (each continues with `rWoken`) -/
def unparkAll {P : Proto} (s : State P) : List TId → State P
  | [] => s
  | u :: us => unparkAll (setLoc (setParked s u none) u (P.cont (s.loc u) rWoken)) us

def exec {P : Proto} (s : State P) : Act P → Option (State P)
  | .step t =>
    if s.parked t ≠ none then none else
    match P.op (s.loc t) with
    | none => none
    | some (.fwake _ _) => none
    | some (.fwait f e timed) =>
      if s.mem f = e then some (setParked s t (some (f, timed)))
      else some (setLoc s t (P.cont (s.loc t) rAgain))
    | some o =>
      match memEffect s.mem o with
      | none => none
      | some (r, none) => some (setLoc s t (P.cont (s.loc t) r))
      | some (r, some (f, v)) => some (setLoc (setMem s f v) t (P.cont (s.loc t) r))
  | .wake t ws =>
    if s.parked t ≠ none then none else
    match P.op (s.loc t) with
    | some (.fwake f n) =>
      let ps := parkedOn s f
      if ws.Nodup ∧ (∀ u ∈ ws, u ∈ ps) ∧ ws.length ≤ n ∧ (ws.length < n → ∀ u ∈ ps, u ∈ ws) then
        let s1 := unparkAll s ws
        some (setLoc s1 t (P.cont (s1.loc t) ws.length))
      else none
    | _ => none
  | .timeout t =>
    match s.parked t with
    | some (_, true) => some (setLoc (setParked s t none) t (P.cont (s.loc t) rTimedOut))
    | _ => none
  | .spurious t =>
    match s.parked t with
    | some _ => some (setLoc (setParked s t none) t (P.cont (s.loc t) rWoken))
    | none => none
  | .call t l =>
    if s.parked t = none ∧ P.op (s.loc t) = none ∧ P.entry (s.loc t) l = true then
      some { setLoc s t l with threads := if t ∈ s.threads then s.threads else t :: s.threads }
    else none

def run {P : Proto} (s : State P) : List (Act P) → Option (State P)
  | [] => some s
  | a :: as => match exec s a with
    | some s' => run s' as
    | none => none

/-- states reachable from `s0` by any finite sequence of actions -/
inductive Reachable {P : Proto} (s0 : State P) : State P → Prop where
  | init : Reachable s0 s0
  | step {s s' : State P} (a : Act P) : Reachable s0 s → exec s a = some s' → Reachable s0 s'

theorem reachable_of_run {P : Proto} {s0 s : State P} (as : List (Act P)) (h : run s0 as = some s) :
    Reachable s0 s := by
  induction as generalizing s0 with
  | nil => simp [run] at h; subst h; exact .init
  | cons a as ih =>
    simp only [run] at h
    split at h
    · rename_i s' hs'
      have r := ih h
      clear ih h
      induction r with
      | init => exact .step a .init hs'
      | step b _ hb ih2 => exact .step b ih2 hb
    · contradiction

/-- invariants: true initially and preserved by every action ⇒ true in every reachable state -/
theorem invariant {P : Proto} {s0 : State P} (Inv : State P → Prop) (h0 : Inv s0)
    (hstep : ∀ s a s', Inv s → exec s a = some s' → Inv s') : ∀ s, Reachable s0 s → Inv s := by
  intro s hr
  induction hr with
  | init => exact h0
  | step a _ he ih => exact hstep _ a _ ih he

/-! ### histories: the operations executed along a run, with the values they returned -/

structure Ev where
  tid : TId
  op : AOp
  res : Int
  deriving Repr, DecidableEq

/-- the visible event (operation + returned value) of an action, if it executes an operation -/
def evOf {P : Proto} (s : State P) : Act P → Option Ev
  | .step t =>
    match P.op (s.loc t) with
    | some (.fwait f e timed) => some ⟨t, .fwait f e timed, s.mem f⟩
    | some o => match memEffect s.mem o with
      | some (r, _) => some ⟨t, o, r⟩
      | none => none
    | none => none
  | .wake t ws =>
    match P.op (s.loc t) with
    | some o => some ⟨t, o, ws.length⟩
    | none => none
  | _ => none

/-- run an action list, collecting the history of executed operations -/
def runEvs {P : Proto} (s : State P) : List (Act P) → Option (State P × List Ev)
  | [] => some (s, [])
  | a :: as => match exec s a with
    | some s' => match runEvs s' as with
      | some (sf, evs) => some (sf, (match evOf s a with | some e => [e] | none => []) ++ evs)
      | none => none
    | none => none

/-! ### returns: calls that completed along a run -/

/-- threads whose pending call completed by action `a` (busy before, not busy after) -/
def retsOf {P : Proto} (s s' : State P) (a : Act P) : List (TId × P.L) :=
  let cands : List TId := match a with
    | .call _ _ => []
    | .step t => [t]
    | .wake t ws => t :: ws
    | .timeout t => [t]
    | .spurious t => [t]
  (cands.filter fun t => (P.op (s.loc t)).isSome && (P.op (s'.loc t)).isNone).map fun t => (t, s'.loc t)

/-- run an action list, collecting the calls that returned (thread, local state at return) -/
def runRets {P : Proto} (s : State P) : List (Act P) → Option (State P × List (TId × P.L))
  | [] => some (s, [])
  | a :: as => match exec s a with
    | some s' => match runRets s' as with
      | some (sf, rs) => some (sf, retsOf s s' a ++ rs)
      | none => none
    | none => none

/-- the calls started along an action list -/
def callsOf {P : Proto} : List (Act P) → List (TId × P.L)
  | [] => []
  | .call t l :: as => (t, l) :: callsOf as
  | _ :: as => callsOf as

def initState (P : Proto) (idle : P.L) (mem : Fld → Int) : State P :=
  { mem := mem, loc := fun _ => idle, parked := fun _ => none, threads := [] }

end Dispenso.Conc
