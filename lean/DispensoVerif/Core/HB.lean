import DispensoVerif.Core.Conc
/-
Happens-before and data races over executions of `Core/Conc.lean` (C10).

An execution of a protocol (`Conc.exec`) is projected to a trace of memory events: plain
(non-atomic) reads/writes of the payload locations, atomic loads/stores/read-modify-writes with the
memory order DECLARED at the program point (`Spec.ord`, `std::memory_order` numbering: 0 relaxed,
1 consume, 2 acquire, 3 release, 4 acq_rel, 5 seq_cst), and fences.

The relations are the RC11 / C++20 ones, computed on the interleaving order of `Conc`:
* `po`   program order: same thread, earlier in the trace;
* `rf`   an atomic read reads from the last atomic write to its location before it (the trace order
         is the per-location coherence order: the executions considered are sequentially consistent
         per atomic location — the theorems rule out every race that does not need a reordering of
         the atomic history itself);
* `rseq` release sequence (C++20): a write and the maximal run of read-modify-writes that follows it
         in the modification order of the location;
* `sw`   synchronizes-with: a release write `h`, an acquire read that reads from a write in the
         release sequence of `h`;
* `hb` = (po ∪ sw)⁺.  Fences are events but create no `sw` edge here (fewer edges ⇒ more races: every
         race-freedom theorem holds a fortiori with fence edges; `consume` counts as relaxed).
* `Race`: two conflicting plain accesses (same location, different threads, one a write) that are
         not ordered by `hb`.

`D` is a vector-clock style detector abstracted to what race freedom of plain data needs:
`cA t x` = every earlier access of `x` happens-before the next event of thread `t`; `mA f x` = the
message carried by the current release sequence on the atomic location `f` covers every earlier
access of `x`.  `detector_sound`: if the detector accepts the whole trace there is no `Race`.
Protocol proofs establish an inductive invariant on (protocol state, detector state) for ALL
interleavings (`race_free_of_inv`).
Core Lean only.
-/
namespace Dispenso.HB
open Dispenso.Conc

inductive Kind where
  | pread | pwrite | load | store | rmw | fence
  deriving DecidableEq, Repr

structure Ev where
  tid : TId
  kind : Kind
  loc : Fld
  ord : Nat
  deriving DecidableEq, Repr

def isAcq (o : Nat) : Bool := o == 2 || o == 4 || o == 5
def isRel (o : Nat) : Bool := o == 3 || o == 4 || o == 5

def Ev.isPlain (e : Ev) : Bool := match e.kind with | .pread | .pwrite => true | _ => false
def Ev.isAWrite (e : Ev) : Bool := match e.kind with | .store | .rmw => true | _ => false
def Ev.isARead (e : Ev) : Bool := match e.kind with | .load | .rmw => true | _ => false

abbrev Trace := List Ev

def dflt : Ev := ⟨0, .fence, 0, 0⟩
def evAt (tr : Trace) (i : Nat) : Ev := tr.getD i dflt

/-! ### the relations -/

def po (tr : Trace) (i j : Nat) : Prop :=
  i < j ∧ j < tr.length ∧ (evAt tr i).tid = (evAt tr j).tid

def rf (tr : Trace) (w r : Nat) : Prop :=
  w < r ∧ r < tr.length ∧ (evAt tr r).isARead = true ∧ (evAt tr w).isAWrite = true ∧
  (evAt tr w).loc = (evAt tr r).loc ∧
  ∀ k, k < r → w < k → ¬ ((evAt tr k).isAWrite = true ∧ (evAt tr k).loc = (evAt tr r).loc)

def rseq (tr : Trace) (h w : Nat) : Prop :=
  h ≤ w ∧ w < tr.length ∧ (evAt tr h).isAWrite = true ∧ (evAt tr w).isAWrite = true ∧
  (evAt tr w).loc = (evAt tr h).loc ∧
  ∀ k, k < w + 1 → h < k → (evAt tr k).isAWrite = true → (evAt tr k).loc = (evAt tr h).loc →
    (evAt tr k).kind = .rmw

def sw (tr : Trace) (i j : Nat) : Prop :=
  isRel (evAt tr i).ord = true ∧ isAcq (evAt tr j).ord = true ∧
  ∃ w, w < j ∧ (rseq tr i w ∧ rf tr w j)

def step1 (tr : Trace) (i j : Nat) : Prop := po tr i j ∨ sw tr i j

inductive hb (tr : Trace) : Nat → Nat → Prop where
  | base {i j : Nat} : step1 tr i j → hb tr i j
  | trans {i j k : Nat} : hb tr i j → hb tr j k → hb tr i k

def conflict (a b : Ev) : Prop :=
  a.isPlain = true ∧ b.isPlain = true ∧ a.loc = b.loc ∧ a.tid ≠ b.tid ∧
  (a.kind = .pwrite ∨ b.kind = .pwrite)

/-- a data race: two conflicting plain accesses, the later one not hb-after the earlier one
(`hb` only relates earlier to later events, see `hb_lt`) -/
def Race (tr : Trace) : Prop :=
  ∃ i j, i < j ∧ j < tr.length ∧ conflict (evAt tr i) (evAt tr j) ∧ ¬ hb tr i j

instance (tr : Trace) (i j : Nat) : Decidable (po tr i j) := by unfold po; infer_instance
instance (tr : Trace) (i j : Nat) : Decidable (rf tr i j) := by unfold rf; infer_instance
instance (tr : Trace) (i j : Nat) : Decidable (rseq tr i j) := by unfold rseq; infer_instance
instance (tr : Trace) (i j : Nat) : Decidable (sw tr i j) := by unfold sw; infer_instance
instance (tr : Trace) (i j : Nat) : Decidable (step1 tr i j) := by unfold step1; infer_instance
instance (a b : Ev) : Decidable (conflict a b) := by unfold conflict; infer_instance

theorem step1_lt {tr : Trace} {i j : Nat} (h : step1 tr i j) : i < j ∧ j < tr.length := by
  rcases h with h | h
  · exact ⟨h.1, h.2.1⟩
  · obtain ⟨_, _, w, _, hs, hr⟩ := h
    exact ⟨Nat.lt_of_le_of_lt hs.1 hr.1, hr.2.1⟩

theorem hb_lt {tr : Trace} {i j : Nat} (h : hb tr i j) : i < j ∧ j < tr.length := by
  induction h with
  | base h => exact step1_lt h
  | trans _ _ ih1 ih2 => exact ⟨Nat.lt_trans ih1.1 ih2.1, ih2.2⟩

/-- `¬ hb` from a set that contains `i`, not `j`, and is closed under `po ∪ sw` (used for the
concrete racy executions; all hypotheses are decidable) -/
theorem not_hb_of_closed (tr : Trace) (S : Nat → Bool)
    (hcl : ∀ a, a < tr.length → ∀ b, b < tr.length → S a = true → step1 tr a b → S b = true)
    {i j : Nat} (hi : S i = true) (hj : S j = false) : ¬ hb tr i j := by
  intro h
  have key : ∀ a b, hb tr a b → S a = true → S b = true := by
    intro a b hab
    induction hab with
    | base h1 =>
      intro ha
      have := step1_lt h1
      exact hcl _ (Nat.lt_trans this.1 this.2) _ this.2 ha h1
    | trans _ _ ih1 ih2 => intro ha; exact ih2 (ih1 ha)
  rw [key i j h hi] at hj
  cases hj

/-- forward closure of `{i}` under `po ∪ sw`, computed in one pass (edges go forward) -/
def closure (tr : Trace) (i : Nat) : Nat → List Bool → List Bool
  | 0, acc => acc
  | n + 1, acc =>
    let b := acc.length
    let v := decide (b = i) ||
      (List.range b).any fun a => acc.getD a false && decide (step1 tr a b)
    closure tr i n (acc ++ [v])

/-- decidable witness of a race between events `i < j` -/
def raceAt (tr : Trace) (i j : Nat) : Bool :=
  let S := closure tr i tr.length []
  decide (i < j) && decide (j < tr.length) && decide (conflict (evAt tr i) (evAt tr j)) &&
  S.getD i false && !(S.getD j false) &&
  decide (∀ a, a < tr.length → ∀ b, b < tr.length → S.getD a false = true → step1 tr a b →
    S.getD b false = true)

theorem race_of_raceAt {tr : Trace} {i j : Nat} (h : raceAt tr i j = true) : Race tr := by
  simp only [raceAt, Bool.and_eq_true, decide_eq_true_eq, Bool.not_eq_true'] at h
  obtain ⟨⟨⟨⟨⟨h1, h2⟩, h3⟩, h4⟩, h5⟩, h6⟩ := h
  exact ⟨i, j, h1, h2, h3, not_hb_of_closed tr _ h6 h4 h5⟩

/-! ### the detector -/

structure D where
  /-- every earlier access of `x` happens-before the next event of thread `t` -/
  cA : TId → Fld → Bool
  /-- every earlier write of `x` happens-before the next event of thread `t` -/
  cW : TId → Fld → Bool
  /-- the release sequence currently heading the atomic location `f` carries all accesses of `x` -/
  mA : Fld → Fld → Bool
  mW : Fld → Fld → Bool

def D.init : D := ⟨fun _ _ => true, fun _ _ => true, fun _ _ => true, fun _ _ => true⟩

def D.step (d : D) (e : Ev) : Option D :=
  match e.kind with
  | .pwrite =>
    if d.cA e.tid e.loc = true then
      some { cA := fun u y => if y = e.loc then decide (u = e.tid) else d.cA u y
             cW := fun u y => if y = e.loc then decide (u = e.tid) else d.cW u y
             mA := fun f y => if y = e.loc then false else d.mA f y
             mW := fun f y => if y = e.loc then false else d.mW f y }
    else none
  | .pread =>
    if (d.cW e.tid e.loc || d.cA e.tid e.loc) = true then
      some { cA := fun u y => if y = e.loc then (decide (u = e.tid) && d.cA u y) else d.cA u y
             cW := d.cW
             mA := fun f y => if y = e.loc then false else d.mA f y
             mW := d.mW }
    else none
  | .store =>
    some { cA := d.cA
           cW := d.cW
           mA := fun f y => if f = e.loc then (isRel e.ord && d.cA e.tid y) else d.mA f y
           mW := fun f y => if f = e.loc then (isRel e.ord && d.cW e.tid y) else d.mW f y }
  | .load =>
    some { cA := fun u y => if u = e.tid then (d.cA u y || (isAcq e.ord && d.mA e.loc y)) else d.cA u y
           cW := fun u y => if u = e.tid then (d.cW u y || (isAcq e.ord && d.mW e.loc y)) else d.cW u y
           mA := d.mA
           mW := d.mW }
  | .rmw =>
    some { cA := fun u y => if u = e.tid then (d.cA u y || (isAcq e.ord && d.mA e.loc y)) else d.cA u y
           cW := fun u y => if u = e.tid then (d.cW u y || (isAcq e.ord && d.mW e.loc y)) else d.cW u y
           mA := fun f y => if f = e.loc then
               (d.mA f y || (isRel e.ord && (d.cA e.tid y || (isAcq e.ord && d.mA e.loc y))))
             else d.mA f y
           mW := fun f y => if f = e.loc then
               (d.mW f y || (isRel e.ord && (d.cW e.tid y || (isAcq e.ord && d.mW e.loc y))))
             else d.mW f y }
  | .fence => some d

def D.run (d : D) : Trace → Option D
  | [] => some d
  | e :: es => match d.step e with
    | some d' => D.run d' es
    | none => none

/-! ### soundness of the detector -/

def inPast (tr : Trace) (k : Nat) (t : TId) (i : Nat) : Prop :=
  ∃ j, j < k ∧ (evAt tr j).tid = t ∧ (i = j ∨ hb tr i j)

/-- `w` is the last atomic write to `f` among the first `k` events -/
def lastW (tr : Trace) (k : Nat) (f : Fld) (w : Nat) : Prop :=
  w < k ∧ (evAt tr w).isAWrite = true ∧ (evAt tr w).loc = f ∧
  ∀ k', k' < k → w < k' → ¬ ((evAt tr k').isAWrite = true ∧ (evAt tr k').loc = f)

def inMsg (tr : Trace) (k : Nat) (f : Fld) (i : Nat) : Prop :=
  ∃ h w, lastW tr k f w ∧ rseq tr h w ∧ isRel (evAt tr h).ord = true ∧ hb tr i h

def accA (tr : Trace) (x : Fld) (i : Nat) : Prop := (evAt tr i).isPlain = true ∧ (evAt tr i).loc = x
def accW (tr : Trace) (x : Fld) (i : Nat) : Prop := (evAt tr i).kind = .pwrite ∧ (evAt tr i).loc = x

structure Sem (tr : Trace) (k : Nat) (d : D) : Prop where
  cA : ∀ t x, d.cA t x = true → ∀ i, i < k → accA tr x i → inPast tr k t i
  cW : ∀ t x, d.cW t x = true → ∀ i, i < k → accW tr x i → inPast tr k t i
  mA : ∀ f x, d.mA f x = true → ∀ i, i < k → accA tr x i → inMsg tr k f i
  mW : ∀ f x, d.mW f x = true → ∀ i, i < k → accW tr x i → inMsg tr k f i

theorem sem_init (tr : Trace) : Sem tr 0 D.init :=
  ⟨fun _ _ _ i h => absurd h (Nat.not_lt_zero i), fun _ _ _ i h => absurd h (Nat.not_lt_zero i),
   fun _ _ _ i h => absurd h (Nat.not_lt_zero i), fun _ _ _ i h => absurd h (Nat.not_lt_zero i)⟩

theorem inPast_mono {tr : Trace} {k : Nat} {t : TId} {i : Nat} (h : inPast tr k t i) :
    inPast tr (k + 1) t i := by
  obtain ⟨j, h1, h2, h3⟩ := h
  exact ⟨j, Nat.lt_succ_of_lt h1, h2, h3⟩

/-- what lies in the past of thread `t` happens-before `t`'s event at position `k` -/
theorem hb_of_inPast {tr : Trace} {k : Nat} {i : Nat} (hk : k < tr.length)
    (h : inPast tr k (evAt tr k).tid i) (hne : (evAt tr i).tid ≠ (evAt tr k).tid) : hb tr i k := by
  obtain ⟨j, h1, h2, h3⟩ := h
  have hpo : hb tr j k := .base (.inl ⟨h1, hk, h2⟩)
  rcases h3 with rfl | h3
  · exact absurd h2 hne
  · exact .trans h3 hpo

theorem hb_of_inPast' {tr : Trace} {k : Nat} {i : Nat} (hk : k < tr.length)
    (h : inPast tr k (evAt tr k).tid i) : hb tr i k := by
  obtain ⟨j, h1, h2, h3⟩ := h
  have hpo : hb tr j k := .base (.inl ⟨h1, hk, h2⟩)
  rcases h3 with rfl | h3
  · exact hpo
  · exact .trans h3 hpo

theorem inPast_self {tr : Trace} {k i : Nat} (h : hb tr i k) : inPast tr (k + 1) (evAt tr k).tid i :=
  ⟨k, Nat.lt_succ_self k, rfl, .inr h⟩

/-- the message on `f` is unchanged by an event that is not an atomic write to `f` -/
theorem inMsg_frame {tr : Trace} {k : Nat} {f : Fld} {i : Nat}
    (hnw : ¬ ((evAt tr k).isAWrite = true ∧ (evAt tr k).loc = f)) (h : inMsg tr k f i) :
    inMsg tr (k + 1) f i := by
  obtain ⟨h0, w, ⟨w1, w2, w3, w4⟩, hs, hr, hh⟩ := h
  refine ⟨h0, w, ⟨Nat.lt_succ_of_lt w1, w2, w3, ?_⟩, hs, hr, hh⟩
  intro k' hk' hw
  by_cases e : k' = k
  · subst e; exact hnw
  · exact w4 k' (by omega) hw

/-- an acquire read at `k` of `f` receives the message on `f` -/
theorem hb_of_inMsg {tr : Trace} {k : Nat} {i : Nat} (hk : k < tr.length)
    (hr : (evAt tr k).isARead = true) (ha : isAcq (evAt tr k).ord = true)
    (h : inMsg tr k (evAt tr k).loc i) : hb tr i k := by
  obtain ⟨h0, w, ⟨w1, w2, w3, w4⟩, hs, hrel, hh⟩ := h
  have hrf : rf tr w k := ⟨w1, hk, hr, w2, w3, fun k' h1 h2 => w4 k' h1 h2⟩
  exact .trans hh (.base (.inr ⟨hrel, ha, w, w1, hs, hrf⟩))

/-- a release write at `k` starts a message carrying everything that happens-before it -/
theorem inMsg_new {tr : Trace} {k : Nat} {i : Nat} (hk : k < tr.length)
    (hw : (evAt tr k).isAWrite = true) (hrel : isRel (evAt tr k).ord = true) (h : hb tr i k) :
    inMsg tr (k + 1) (evAt tr k).loc i := by
  refine ⟨k, k, ⟨Nat.lt_succ_self k, hw, rfl, ?_⟩, ⟨Nat.le_refl k, hk, hw, hw, rfl, ?_⟩, hrel, h⟩
  · intro k' h1 h2; omega
  · intro k' h1 h2; omega

/-- a read-modify-write at `k` continues the release sequence on its location -/
theorem inMsg_rmw {tr : Trace} {k : Nat} {i : Nat} (hk : k < tr.length)
    (hkind : (evAt tr k).kind = .rmw) (h : inMsg tr k (evAt tr k).loc i) :
    inMsg tr (k + 1) (evAt tr k).loc i := by
  obtain ⟨h0, w, ⟨w1, w2, w3, w4⟩, ⟨s1, s2, s3, s4, s5, s6⟩, hrel, hh⟩ := h
  have hw : (evAt tr k).isAWrite = true := by simp [Ev.isAWrite, hkind]
  refine ⟨h0, k, ⟨Nat.lt_succ_self k, hw, rfl, ?_⟩, ⟨by omega, hk, s3, hw, ?_, ?_⟩, hrel, hh⟩
  · intro k' h1 h2; omega
  · rw [← w3, s5]
  · intro k' h1 h2 h3 h4
    by_cases e : k' = k
    · subst e; exact hkind
    · by_cases e2 : k' ≤ w
      · exact s6 k' (by omega) h2 h3 h4
      · exact absurd ⟨h3, by rw [h4, ← s5, w3]⟩ (w4 k' (by omega) (by omega))

theorem step_sem {tr : Trace} {k : Nat} {d d' : D} (hk : k < tr.length) (hs : Sem tr k d)
    (hd : d.step (evAt tr k) = some d') : Sem tr (k + 1) d' := by
  obtain ⟨sA, sW, sMA, sMW⟩ := hs
  -- facts used in several cases
  have split : ∀ i, i < k + 1 → i < k ∨ i = k := fun i h => by omega
  cases hkind : (evAt tr k).kind with
  | pwrite =>
    simp only [D.step, hkind] at hd
    split at hd
    · rename_i hc
      cases hd
      have nw : ∀ f, ¬ ((evAt tr k).isAWrite = true ∧ (evAt tr k).loc = f) := by
        intro f h; simp [Ev.isAWrite, hkind] at h
      refine ⟨?_, ?_, ?_, ?_⟩
      · intro t x hx i hi ha
        simp only at hx
        by_cases hy : x = (evAt tr k).loc
        · rw [if_pos hy] at hx
          have ht : t = (evAt tr k).tid := by simpa using hx
          subst ht; subst hy
          rcases split i hi with h | h
          · exact inPast_mono (sA _ _ hc i h ha)
          · subst h; exact ⟨i, Nat.lt_succ_self i, rfl, .inl rfl⟩
        · rw [if_neg hy] at hx
          rcases split i hi with h | h
          · exact inPast_mono (sA _ _ hx i h ha)
          · subst h; exact absurd ha.2.symm hy
      · intro t x hx i hi ha
        simp only at hx
        by_cases hy : x = (evAt tr k).loc
        · rw [if_pos hy] at hx
          have ht : t = (evAt tr k).tid := by simpa using hx
          subst ht; subst hy
          rcases split i hi with h | h
          · exact inPast_mono (sA _ _ hc i h ⟨by simp [Ev.isPlain, ha.1], ha.2⟩)
          · subst h; exact ⟨i, Nat.lt_succ_self i, rfl, .inl rfl⟩
        · rw [if_neg hy] at hx
          rcases split i hi with h | h
          · exact inPast_mono (sW _ _ hx i h ha)
          · subst h; exact absurd ha.2.symm hy
      · intro f x hx i hi ha
        simp only at hx
        by_cases hy : x = (evAt tr k).loc
        · rw [if_pos hy] at hx; cases hx
        · rw [if_neg hy] at hx
          rcases split i hi with h | h
          · exact inMsg_frame (nw f) (sMA _ _ hx i h ha)
          · subst h; exact absurd ha.2.symm hy
      · intro f x hx i hi ha
        simp only at hx
        by_cases hy : x = (evAt tr k).loc
        · rw [if_pos hy] at hx; cases hx
        · rw [if_neg hy] at hx
          rcases split i hi with h | h
          · exact inMsg_frame (nw f) (sMW _ _ hx i h ha)
          · subst h; exact absurd ha.2.symm hy
    · cases hd
  | pread =>
    simp only [D.step, hkind] at hd
    split at hd
    · rename_i hc
      cases hd
      have nw : ∀ f, ¬ ((evAt tr k).isAWrite = true ∧ (evAt tr k).loc = f) := by
        intro f h; simp [Ev.isAWrite, hkind] at h
      refine ⟨?_, ?_, ?_, ?_⟩
      · intro t x hx i hi ha
        simp only at hx
        by_cases hy : x = (evAt tr k).loc
        · rw [if_pos hy] at hx
          simp only [Bool.and_eq_true, decide_eq_true_eq] at hx
          obtain ⟨ht, hx⟩ := hx
          subst ht; subst hy
          rcases split i hi with h | h
          · exact inPast_mono (sA _ _ hx i h ha)
          · subst h; exact ⟨i, Nat.lt_succ_self i, rfl, .inl rfl⟩
        · rw [if_neg hy] at hx
          rcases split i hi with h | h
          · exact inPast_mono (sA _ _ hx i h ha)
          · subst h; exact absurd ha.2.symm hy
      · intro t x hx i hi ha
        rcases split i hi with h | h
        · exact inPast_mono (sW _ _ hx i h ha)
        · subst h; have h1 := ha.1; rw [hkind] at h1; cases h1
      · intro f x hx i hi ha
        simp only at hx
        by_cases hy : x = (evAt tr k).loc
        · rw [if_pos hy] at hx; cases hx
        · rw [if_neg hy] at hx
          rcases split i hi with h | h
          · exact inMsg_frame (nw f) (sMA _ _ hx i h ha)
          · subst h; exact absurd ha.2.symm hy
      · intro f x hx i hi ha
        rcases split i hi with h | h
        · exact inMsg_frame (nw f) (sMW _ _ hx i h ha)
        · subst h; have h1 := ha.1; rw [hkind] at h1; cases h1
    · cases hd
  | store =>
    simp only [D.step, hkind] at hd
    cases hd
    have hw : (evAt tr k).isAWrite = true := by simp [Ev.isAWrite, hkind]
    have np : (evAt tr k).isPlain = false := by simp [Ev.isPlain, hkind]
    have ltk : ∀ x i, i < k + 1 → accA tr x i → i < k := by
      intro x i hi ha
      rcases split i hi with h | h
      · exact h
      · subst h; have h1 := ha.1; rw [np] at h1; cases h1
    have ltkW : ∀ x i, i < k + 1 → accW tr x i → i < k := by
      intro x i hi ha
      exact ltk x i hi ⟨by simp [Ev.isPlain, ha.1], ha.2⟩
    refine ⟨?_, ?_, ?_, ?_⟩
    · intro t x hx i hi ha
      exact inPast_mono (sA _ _ hx i (ltk x i hi ha) ha)
    · intro t x hx i hi ha
      exact inPast_mono (sW _ _ hx i (ltkW x i hi ha) ha)
    · intro f x hx i hi ha
      simp only at hx
      have hik := ltk x i hi ha
      by_cases hf : f = (evAt tr k).loc
      · rw [if_pos hf] at hx
        simp only [Bool.and_eq_true] at hx
        subst hf
        exact inMsg_new hk hw hx.1 (hb_of_inPast' hk (sA _ _ hx.2 i hik ha))
      · rw [if_neg hf] at hx
        exact inMsg_frame (fun h => hf h.2.symm) (sMA _ _ hx i hik ha)
    · intro f x hx i hi ha
      simp only at hx
      have hik := ltkW x i hi ha
      by_cases hf : f = (evAt tr k).loc
      · rw [if_pos hf] at hx
        simp only [Bool.and_eq_true] at hx
        subst hf
        exact inMsg_new hk hw hx.1 (hb_of_inPast' hk (sW _ _ hx.2 i hik ha))
      · rw [if_neg hf] at hx
        exact inMsg_frame (fun h => hf h.2.symm) (sMW _ _ hx i hik ha)
  | load =>
    simp only [D.step, hkind] at hd
    cases hd
    have hr : (evAt tr k).isARead = true := by simp [Ev.isARead, hkind]
    have nw : ∀ f, ¬ ((evAt tr k).isAWrite = true ∧ (evAt tr k).loc = f) := by
      intro f h; simp [Ev.isAWrite, hkind] at h
    have np : (evAt tr k).isPlain = false := by simp [Ev.isPlain, hkind]
    have ltk : ∀ x i, i < k + 1 → accA tr x i → i < k := by
      intro x i hi ha
      rcases split i hi with h | h
      · exact h
      · subst h; have h1 := ha.1; rw [np] at h1; cases h1
    have ltkW : ∀ x i, i < k + 1 → accW tr x i → i < k := by
      intro x i hi ha
      exact ltk x i hi ⟨by simp [Ev.isPlain, ha.1], ha.2⟩
    refine ⟨?_, ?_, ?_, ?_⟩
    · intro t x hx i hi ha
      simp only at hx
      have hik := ltk x i hi ha
      by_cases ht : t = (evAt tr k).tid
      · rw [if_pos ht] at hx
        subst ht
        simp only [Bool.or_eq_true, Bool.and_eq_true] at hx
        rcases hx with hx | ⟨hacq, hx⟩
        · exact inPast_mono (sA _ _ hx i hik ha)
        · exact inPast_self (hb_of_inMsg hk hr hacq (sMA _ _ hx i hik ha))
      · rw [if_neg ht] at hx
        exact inPast_mono (sA _ _ hx i hik ha)
    · intro t x hx i hi ha
      simp only at hx
      have hik := ltkW x i hi ha
      by_cases ht : t = (evAt tr k).tid
      · rw [if_pos ht] at hx
        subst ht
        simp only [Bool.or_eq_true, Bool.and_eq_true] at hx
        rcases hx with hx | ⟨hacq, hx⟩
        · exact inPast_mono (sW _ _ hx i hik ha)
        · exact inPast_self (hb_of_inMsg hk hr hacq (sMW _ _ hx i hik ha))
      · rw [if_neg ht] at hx
        exact inPast_mono (sW _ _ hx i hik ha)
    · intro f x hx i hi ha
      exact inMsg_frame (nw f) (sMA _ _ hx i (ltk x i hi ha) ha)
    · intro f x hx i hi ha
      exact inMsg_frame (nw f) (sMW _ _ hx i (ltkW x i hi ha) ha)
  | rmw =>
    simp only [D.step, hkind] at hd
    cases hd
    have hr : (evAt tr k).isARead = true := by simp [Ev.isARead, hkind]
    have hw : (evAt tr k).isAWrite = true := by simp [Ev.isAWrite, hkind]
    have np : (evAt tr k).isPlain = false := by simp [Ev.isPlain, hkind]
    have ltk : ∀ x i, i < k + 1 → accA tr x i → i < k := by
      intro x i hi ha
      rcases split i hi with h | h
      · exact h
      · subst h; have h1 := ha.1; rw [np] at h1; cases h1
    have ltkW : ∀ x i, i < k + 1 → accW tr x i → i < k := by
      intro x i hi ha
      exact ltk x i hi ⟨by simp [Ev.isPlain, ha.1], ha.2⟩
    -- what the thread knows after the acquire part happens-before the event itself
    have knowA : ∀ x, (d.cA (evAt tr k).tid x || (isAcq (evAt tr k).ord && d.mA (evAt tr k).loc x)) = true →
        ∀ i, i < k → accA tr x i → hb tr i k := by
      intro x hx i hik ha
      simp only [Bool.or_eq_true, Bool.and_eq_true] at hx
      rcases hx with hx | ⟨hacq, hx⟩
      · exact hb_of_inPast' hk (sA _ _ hx i hik ha)
      · exact hb_of_inMsg hk hr hacq (sMA _ _ hx i hik ha)
    have knowW : ∀ x, (d.cW (evAt tr k).tid x || (isAcq (evAt tr k).ord && d.mW (evAt tr k).loc x)) = true →
        ∀ i, i < k → accW tr x i → hb tr i k := by
      intro x hx i hik ha
      simp only [Bool.or_eq_true, Bool.and_eq_true] at hx
      rcases hx with hx | ⟨hacq, hx⟩
      · exact hb_of_inPast' hk (sW _ _ hx i hik ha)
      · exact hb_of_inMsg hk hr hacq (sMW _ _ hx i hik ha)
    refine ⟨?_, ?_, ?_, ?_⟩
    · intro t x hx i hi ha
      simp only at hx
      have hik := ltk x i hi ha
      by_cases ht : t = (evAt tr k).tid
      · rw [if_pos ht] at hx
        subst ht
        exact inPast_self (knowA x hx i hik ha)
      · rw [if_neg ht] at hx
        exact inPast_mono (sA _ _ hx i hik ha)
    · intro t x hx i hi ha
      simp only at hx
      have hik := ltkW x i hi ha
      by_cases ht : t = (evAt tr k).tid
      · rw [if_pos ht] at hx
        subst ht
        exact inPast_self (knowW x hx i hik ha)
      · rw [if_neg ht] at hx
        exact inPast_mono (sW _ _ hx i hik ha)
    · intro f x hx i hi ha
      simp only at hx
      have hik := ltk x i hi ha
      by_cases hf : f = (evAt tr k).loc
      · rw [if_pos hf] at hx
        subst hf
        rw [Bool.or_eq_true] at hx
        rcases hx with hx | hx
        · exact inMsg_rmw hk hkind (sMA _ _ hx i hik ha)
        · rw [Bool.and_eq_true] at hx
          exact inMsg_new hk hw hx.1 (knowA x hx.2 i hik ha)
      · rw [if_neg hf] at hx
        exact inMsg_frame (fun h => hf h.2.symm) (sMA _ _ hx i hik ha)
    · intro f x hx i hi ha
      simp only at hx
      have hik := ltkW x i hi ha
      by_cases hf : f = (evAt tr k).loc
      · rw [if_pos hf] at hx
        subst hf
        rw [Bool.or_eq_true] at hx
        rcases hx with hx | hx
        · exact inMsg_rmw hk hkind (sMW _ _ hx i hik ha)
        · rw [Bool.and_eq_true] at hx
          exact inMsg_new hk hw hx.1 (knowW x hx.2 i hik ha)
      · rw [if_neg hf] at hx
        exact inMsg_frame (fun h => hf h.2.symm) (sMW _ _ hx i hik ha)
  | fence =>
    simp only [D.step, hkind] at hd
    cases hd
    have nw : ∀ f, ¬ ((evAt tr k).isAWrite = true ∧ (evAt tr k).loc = f) := by
      intro f h; simp [Ev.isAWrite, hkind] at h
    have np : (evAt tr k).isPlain = false := by simp [Ev.isPlain, hkind]
    have ltk : ∀ x i, i < k + 1 → accA tr x i → i < k := by
      intro x i hi ha
      rcases split i hi with h | h
      · exact h
      · subst h; have h1 := ha.1; rw [np] at h1; cases h1
    have ltkW : ∀ x i, i < k + 1 → accW tr x i → i < k := by
      intro x i hi ha
      exact ltk x i hi ⟨by simp [Ev.isPlain, ha.1], ha.2⟩
    exact ⟨fun t x hx i hi ha => inPast_mono (sA _ _ hx i (ltk x i hi ha) ha),
      fun t x hx i hi ha => inPast_mono (sW _ _ hx i (ltkW x i hi ha) ha),
      fun f x hx i hi ha => inMsg_frame (nw f) (sMA _ _ hx i (ltk x i hi ha) ha),
      fun f x hx i hi ha => inMsg_frame (nw f) (sMW _ _ hx i (ltkW x i hi ha) ha)⟩

/-- an accepted plain access is hb-after every earlier conflicting access -/
theorem step_ordered {tr : Trace} {k : Nat} {d d' : D} (hk : k < tr.length) (hs : Sem tr k d)
    (hd : d.step (evAt tr k) = some d') (i : Nat) (hi : i < k)
    (hc : conflict (evAt tr i) (evAt tr k)) : hb tr i k := by
  obtain ⟨c1, c2, c3, c4, c5⟩ := hc
  cases hkind : (evAt tr k).kind with
  | pwrite =>
    simp only [D.step, hkind] at hd
    split at hd
    · rename_i hx
      exact hb_of_inPast hk (hs.cA _ _ hx i hi ⟨c1, c3⟩) c4
    · cases hd
  | pread =>
    simp only [D.step, hkind] at hd
    split at hd
    · rename_i hx
      have hw : (evAt tr i).kind = .pwrite := by
        rcases c5 with h | h
        · exact h
        · rw [hkind] at h; cases h
      rw [Bool.or_eq_true] at hx
      rcases hx with hx | hx
      · exact hb_of_inPast hk (hs.cW _ _ hx i hi ⟨hw, c3⟩) c4
      · exact hb_of_inPast hk (hs.cA _ _ hx i hi ⟨c1, c3⟩) c4
    · cases hd
  | load => simp [Ev.isPlain, hkind] at c2
  | store => simp [Ev.isPlain, hkind] at c2
  | rmw => simp [Ev.isPlain, hkind] at c2
  | fence => simp [Ev.isPlain, hkind] at c2

theorem evAt_drop {tr es : Trace} {e : Ev} {k : Nat} (h : tr.drop k = e :: es) :
    k < tr.length ∧ evAt tr k = e ∧ tr.drop (k + 1) = es := by
  have hk : k < tr.length := by
    rcases Nat.lt_or_ge k tr.length with h1 | h1
    · exact h1
    · rw [List.drop_eq_nil_of_le h1] at h
      cases h
  refine ⟨hk, ?_, ?_⟩
  · have := List.getElem_cons_drop (as := tr) (i := k) hk
    rw [h] at this
    simp only [List.cons.injEq] at this
    simp [evAt, List.getD, hk, this.1]
  · have : tr.drop (k + 1) = (tr.drop k).drop 1 := by rw [List.drop_drop]
    rw [this, h]; rfl

theorem run_ordered (tr : Trace) : ∀ (es : Trace) (k : Nat) (d d' : D), tr.drop k = es →
    Sem tr k d → d.run es = some d' →
    ∀ j, k ≤ j → j < tr.length → ∀ i, i < j → conflict (evAt tr i) (evAt tr j) → hb tr i j := by
  intro es
  induction es with
  | nil =>
    intro k d d' hdrop _ _ j hkj hj
    have : tr.length ≤ k := by
      have := congrArg List.length hdrop
      simp at this; omega
    omega
  | cons e es ih =>
    intro k d d' hdrop hs hrun j hkj hj i hij hc
    obtain ⟨hk, he, hdrop'⟩ := evAt_drop hdrop
    simp only [D.run] at hrun
    split at hrun
    · rename_i d1 hd1
      rw [← he] at hd1
      by_cases e2 : j = k
      · subst e2; exact step_ordered hk hs hd1 i hij hc
      · exact ih (k + 1) d1 d' hdrop' (step_sem hk hs hd1) hrun j (by omega) hj i hij hc
    · cases hrun

/-- **soundness of the detector**: a trace it accepts has no data race -/
theorem detector_sound (tr : Trace) (d' : D) (h : D.init.run tr = some d') : ¬ Race tr := by
  rintro ⟨i, j, hij, hj, hc, hn⟩
  exact hn (run_ordered tr tr 0 D.init d' rfl (sem_init tr) h j (Nat.zero_le j) hj i hij hc)

@[simp] theorem run_nil (d : D) : d.run [] = some d := rfl

@[simp] theorem run_single (d : D) (e : Ev) : d.run [e] = d.step e := by
  simp only [D.run]
  cases d.step e <;> rfl

theorem run_append (d : D) (a b : Trace) :
    d.run (a ++ b) = match d.run a with
      | some d1 => d1.run b
      | none => none := by
  induction a generalizing d with
  | nil => rfl
  | cons e es ih =>
    simp only [List.cons_append, D.run]
    cases d.step e with
    | none => rfl
    | some d1 => exact ih d1

/-! ### the detector's step, by event kind (for the protocol proofs) -/

def D.afterWrite (d : D) (t : TId) (x : Fld) : D :=
  { cA := fun u y => if y = x then decide (u = t) else d.cA u y
    cW := fun u y => if y = x then decide (u = t) else d.cW u y
    mA := fun f y => if y = x then false else d.mA f y
    mW := fun f y => if y = x then false else d.mW f y }

def D.afterRead (d : D) (t : TId) (x : Fld) : D :=
  { cA := fun u y => if y = x then (decide (u = t) && d.cA u y) else d.cA u y
    cW := d.cW
    mA := fun f y => if y = x then false else d.mA f y
    mW := d.mW }

def D.afterStore (d : D) (t : TId) (f : Fld) (ord : Nat) : D :=
  { cA := d.cA
    cW := d.cW
    mA := fun g y => if g = f then (isRel ord && d.cA t y) else d.mA g y
    mW := fun g y => if g = f then (isRel ord && d.cW t y) else d.mW g y }

def D.afterLoad (d : D) (t : TId) (f : Fld) (ord : Nat) : D :=
  { cA := fun u y => if u = t then (d.cA u y || (isAcq ord && d.mA f y)) else d.cA u y
    cW := fun u y => if u = t then (d.cW u y || (isAcq ord && d.mW f y)) else d.cW u y
    mA := d.mA
    mW := d.mW }

def D.afterRmw (d : D) (t : TId) (f : Fld) (ord : Nat) : D :=
  { cA := fun u y => if u = t then (d.cA u y || (isAcq ord && d.mA f y)) else d.cA u y
    cW := fun u y => if u = t then (d.cW u y || (isAcq ord && d.mW f y)) else d.cW u y
    mA := fun g y => if g = f then
        (d.mA g y || (isRel ord && (d.cA t y || (isAcq ord && d.mA f y))))
      else d.mA g y
    mW := fun g y => if g = f then
        (d.mW g y || (isRel ord && (d.cW t y || (isAcq ord && d.mW f y))))
      else d.mW g y }

theorem step_pwrite (d : D) (t : TId) (x : Fld) (o : Nat) (h : d.cA t x = true) :
    d.step ⟨t, .pwrite, x, o⟩ = some (d.afterWrite t x) := by
  simp only [D.step, h, if_true]; rfl

theorem step_pread (d : D) (t : TId) (x : Fld) (o : Nat) (h : (d.cW t x || d.cA t x) = true) :
    d.step ⟨t, .pread, x, o⟩ = some (d.afterRead t x) := by
  simp only [D.step, h, if_true]; rfl

theorem step_store (d : D) (t : TId) (f : Fld) (o : Nat) :
    d.step ⟨t, .store, f, o⟩ = some (d.afterStore t f o) := rfl

theorem step_load (d : D) (t : TId) (f : Fld) (o : Nat) :
    d.step ⟨t, .load, f, o⟩ = some (d.afterLoad t f o) := rfl

theorem step_rmw (d : D) (t : TId) (f : Fld) (o : Nat) :
    d.step ⟨t, .rmw, f, o⟩ = some (d.afterRmw t f o) := rfl

theorem step_fence (d : D) (t : TId) (f : Fld) (o : Nat) :
    d.step ⟨t, .fence, f, o⟩ = some d := rfl

@[simp] theorem afterWrite_cA (d : D) (t x u y) :
    (d.afterWrite t x).cA u y = if y = x then decide (u = t) else d.cA u y := rfl
@[simp] theorem afterWrite_mA (d : D) (t x f y) :
    (d.afterWrite t x).mA f y = if y = x then false else d.mA f y := rfl
@[simp] theorem afterRead_cA (d : D) (t x u y) :
    (d.afterRead t x).cA u y = if y = x then (decide (u = t) && d.cA u y) else d.cA u y := rfl
@[simp] theorem afterRead_cW (d : D) (t x) : (d.afterRead t x).cW = d.cW := rfl
@[simp] theorem afterRead_mA (d : D) (t x f y) :
    (d.afterRead t x).mA f y = if y = x then false else d.mA f y := rfl
@[simp] theorem afterRead_mW (d : D) (t x) : (d.afterRead t x).mW = d.mW := rfl
@[simp] theorem afterStore_cA (d : D) (t f o) : (d.afterStore t f o).cA = d.cA := rfl
@[simp] theorem afterStore_cW (d : D) (t f o) : (d.afterStore t f o).cW = d.cW := rfl
@[simp] theorem afterStore_mA (d : D) (t f o g y) :
    (d.afterStore t f o).mA g y = if g = f then (isRel o && d.cA t y) else d.mA g y := rfl
@[simp] theorem afterStore_mW (d : D) (t f o g y) :
    (d.afterStore t f o).mW g y = if g = f then (isRel o && d.cW t y) else d.mW g y := rfl
@[simp] theorem afterLoad_cA (d : D) (t f o u y) :
    (d.afterLoad t f o).cA u y =
      if u = t then (d.cA u y || (isAcq o && d.mA f y)) else d.cA u y := rfl
@[simp] theorem afterLoad_cW (d : D) (t f o u y) :
    (d.afterLoad t f o).cW u y =
      if u = t then (d.cW u y || (isAcq o && d.mW f y)) else d.cW u y := rfl
@[simp] theorem afterLoad_mA (d : D) (t f o) : (d.afterLoad t f o).mA = d.mA := rfl
@[simp] theorem afterLoad_mW (d : D) (t f o) : (d.afterLoad t f o).mW = d.mW := rfl
@[simp] theorem afterRmw_cA (d : D) (t f o u y) :
    (d.afterRmw t f o).cA u y =
      if u = t then (d.cA u y || (isAcq o && d.mA f y)) else d.cA u y := rfl
@[simp] theorem afterRmw_cW (d : D) (t f o u y) :
    (d.afterRmw t f o).cW u y =
      if u = t then (d.cW u y || (isAcq o && d.mW f y)) else d.cW u y := rfl
@[simp] theorem afterRmw_mA (d : D) (t f o g y) :
    (d.afterRmw t f o).mA g y = if g = f then
        (d.mA g y || (isRel o && (d.cA t y || (isAcq o && d.mA f y))))
      else d.mA g y := rfl
@[simp] theorem afterRmw_mW (d : D) (t f o g y) :
    (d.afterRmw t f o).mW g y = if g = f then
        (d.mW g y || (isRel o && (d.cW t y || (isAcq o && d.mW f y))))
      else d.mW g y := rfl

/-- loads and read-modify-writes only add knowledge -/
theorem afterLoad_cA_mono {d : D} {t f o u y} (h : d.cA u y = true) :
    (d.afterLoad t f o).cA u y = true := by
  simp only [afterLoad_cA]; split <;> simp [h]
theorem afterRmw_cA_mono {d : D} {t f o u y} (h : d.cA u y = true) :
    (d.afterRmw t f o).cA u y = true := by
  simp only [afterRmw_cA]; split <;> simp [h]
theorem afterRmw_mA_mono {d : D} {t f o g y} (h : d.mA g y = true) :
    (d.afterRmw t f o).mA g y = true := by
  simp only [afterRmw_mA]; split <;> simp [h]

/-! ### traces of protocol executions -/

/-- which locations are plain data, and the memory order declared at each program point -/
structure Spec (P : Proto) where
  plain : Fld → Bool
  ord : P.L → Nat
  /-- failure order of a compare-exchange -/
  ordFail : P.L → Nat := fun _ => 0

def evOfOp {P : Proto} (S : Spec P) (t : TId) (l : P.L) (mem : Fld → Int) : AOp → Option Ev
  | .load f => some (if S.plain f then ⟨t, .pread, f, 0⟩ else ⟨t, .load, f, S.ord l⟩)
  | .store f _ => some (if S.plain f then ⟨t, .pwrite, f, 0⟩ else ⟨t, .store, f, S.ord l⟩)
  | .xchg f _ => some (if S.plain f then ⟨t, .pwrite, f, 0⟩ else ⟨t, .rmw, f, S.ord l⟩)
  | .fadd f _ => some (if S.plain f then ⟨t, .pwrite, f, 0⟩ else ⟨t, .rmw, f, S.ord l⟩)
  | .fsub f _ => some (if S.plain f then ⟨t, .pwrite, f, 0⟩ else ⟨t, .rmw, f, S.ord l⟩)
  | .for_ f _ => some (if S.plain f then ⟨t, .pwrite, f, 0⟩ else ⟨t, .rmw, f, S.ord l⟩)
  | .fand f _ => some (if S.plain f then ⟨t, .pwrite, f, 0⟩ else ⟨t, .rmw, f, S.ord l⟩)
  | .cas f e _ =>
    some (if S.plain f then ⟨t, .pwrite, f, 0⟩
      else if mem f = e then ⟨t, .rmw, f, S.ord l⟩ else ⟨t, .load, f, S.ordFail l⟩)
  | .fence => some ⟨t, .fence, 0, S.ord l⟩
  | .fwait _ _ _ => none
  | .fwake _ _ => none
  | .yield => none
  | .silent => none

/-- the memory event of an action (only `step` actions execute an operation) -/
def hevOf {P : Proto} (S : Spec P) (s : State P) : Act P → Option Ev
  | .step t => match P.op (s.loc t) with
    | some o => evOfOp S t (s.loc t) s.mem o
    | none => none
  | _ => none

def hevl {P : Proto} (S : Spec P) (s : State P) (a : Act P) : Trace :=
  match hevOf S s a with
  | some e => [e]
  | none => []

/-- run an action list, collecting the trace of memory events -/
def runH {P : Proto} (S : Spec P) (s : State P) : List (Act P) → Option (State P × Trace)
  | [] => some (s, [])
  | a :: as => match exec s a with
    | some s' => match runH S s' as with
      | some (sf, tr) => some (sf, hevl S s a ++ tr)
      | none => none
    | none => none

/-- **the proof rule**: an invariant `J` on (protocol state, detector state) that every permitted
action preserves while the detector accepts the action's event. Then every permitted run from a
`J`-state yields a trace the detector accepts. -/
theorem run_accepted {P : Proto} (S : Spec P) (J : State P → D → Prop) (ok : Act P → Prop)
    (hstep : ∀ s d a s', J s d → ok a → exec s a = some s' →
      ∃ d', d.run (hevl S s a) = some d' ∧ J s' d') :
    ∀ (acts : List (Act P)) (s0 : State P) (d0 : D) (s : State P) (tr : Trace), J s0 d0 →
      (∀ a ∈ acts, ok a) → runH S s0 acts = some (s, tr) → ∃ d', d0.run tr = some d' ∧ J s d' := by
  intro acts
  induction acts with
  | nil =>
    intro s0 d0 s tr hJ _ hr
    simp only [runH, Option.some.injEq, Prod.mk.injEq] at hr
    obtain ⟨rfl, rfl⟩ := hr
    exact ⟨d0, rfl, hJ⟩
  | cons a as ih =>
    intro s0 d0 s tr hJ hok hr
    simp only [runH] at hr
    split at hr
    · rename_i s1 he
      split at hr
      · rename_i sf tr1 hr1
        simp only [Option.some.injEq, Prod.mk.injEq] at hr
        obtain ⟨rfl, rfl⟩ := hr
        obtain ⟨d1, hd1, hJ1⟩ := hstep s0 d0 a s1 hJ (hok a List.mem_cons_self) he
        obtain ⟨d2, hd2, hJ2⟩ := ih s1 d1 _ _ hJ1 (fun b hb => hok b (List.mem_cons_of_mem _ hb)) hr1
        exact ⟨d2, by rw [run_append, hd1]; exact hd2, hJ2⟩
      · cases hr
    · cases hr

/-- race freedom of every permitted run, from an invariant -/
theorem race_free_of_inv {P : Proto} (S : Spec P) (J : State P → D → Prop) (ok : Act P → Prop)
    (hstep : ∀ s d a s', J s d → ok a → exec s a = some s' →
      ∃ d', d.run (hevl S s a) = some d' ∧ J s' d')
    (s0 : State P) (h0 : J s0 D.init) (acts : List (Act P)) (hok : ∀ a ∈ acts, ok a)
    (s : State P) (tr : Trace) (hr : runH S s0 acts = some (s, tr)) : ¬ Race tr := by
  obtain ⟨d', hd, _⟩ := run_accepted S J ok hstep acts s0 D.init s tr h0 hok hr
  exact detector_sound tr d' hd

/-- unpack a computed projection of `runH` (for the concrete racy executions) -/
theorem exists_of_runH_map {P : Proto} {S : Spec P} {s0 : State P} {as : List (Act P)}
    {f : Trace → Bool} (h : (runH S s0 as).map (fun p => f p.2) = some true) :
    ∃ s tr, runH S s0 as = some (s, tr) ∧ f tr = true := by
  cases hr : runH S s0 as with
  | none => simp [hr] at h
  | some p =>
    obtain ⟨s, tr⟩ := p
    simp only [hr, Option.map_some, Option.some.injEq] at h
    exact ⟨s, tr, rfl, h⟩

/-- a computed race witness of a concrete execution -/
theorem exists_race_of_runH {P : Proto} {S : Spec P} {s0 : State P} {as : List (Act P)}
    {i j : Nat} (h : (runH S s0 as).map (fun p => raceAt p.2 i j) = some true) :
    ∃ s tr, runH S s0 as = some (s, tr) ∧ Race tr := by
  obtain ⟨s, tr, h1, h2⟩ := exists_of_runH_map (f := fun tr => raceAt tr i j) h
  exact ⟨s, tr, h1, race_of_raceAt h2⟩

/-- is `actual` at least as strong as `required` (the acceptor's check, `Trace.orderOK`) -/
def ordGE (required actual : Nat) : Bool :=
  match required with
  | 0 => true
  | 1 => actual == 1 || actual == 2 || actual == 4 || actual == 5
  | 2 => actual == 2 || actual == 4 || actual == 5
  | 3 => actual == 3 || actual == 4 || actual == 5
  | 4 => actual == 4 || actual == 5
  | _ => actual == 5

theorem isAcq_of_ordGE {r a : Nat} (h : ordGE r a = true) (hr : isAcq r = true) : isAcq a = true := by
  unfold ordGE at h
  split at h <;> simp_all [isAcq]
  all_goals (rcases h with h | h | h <;> simp_all) <;> omega

theorem isRel_of_ordGE {r a : Nat} (h : ordGE r a = true) (hr : isRel r = true) : isRel a = true := by
  unfold ordGE at h
  split at h <;> simp_all [isRel]
  all_goals (rcases h with h | h | h <;> simp_all) <;> omega

end Dispenso.HB
