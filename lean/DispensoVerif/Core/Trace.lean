import DispensoVerif.Core.Conc
/-
Trace acceptance: run a dsched trace of the real code through a protocol's `Conc.exec`.
A trace line is one of
  <tid> call <name> <int args…>
  <tid> ret <name> <int values…>
  <tid> <kind> <field> <mo> <operand> <result> <aux>
with kind ∈ load store xchg fadd fsub for fand cas_ok cas_fail fence futex_wait futex_wait_ret
futex_wake.  Every event must be the pending operation of that thread in the model, with the same
field and operands, and the value the code observed must be the model's value.
Core Lean only.
-/
namespace Dispenso.Trace
open Dispenso.Conc

structure Binding (P : Proto) where
  fieldOf : String → Option Fld
  bits : Fld → Nat
  mkCall : String → List Int → P.L → Option P.L
  retOf : P.L → Option (List Int)
  /-- fields holding plain (non-atomic) data: operations on them leave no event in the trace and are
      executed together with the preceding visible operation of the same thread -/
  silentFld : Fld → Bool := fun _ => false
  /-- fields whose values are addresses (or otherwise not modelled): the operation kind and field
      must match, the values are not compared -/
  opaqueFld : Fld → Bool := fun _ => false
  /-- minimal declared memory order the protocol relies on for the operation pending at a local
      state (the call site), in `std::memory_order` numbering (0 relaxed, 1 consume, 2 acquire,
      3 release, 4 acq_rel, 5 seq_cst); 0 = no requirement. For a failed CAS the failure order is
      checked against `reqFailOrder`. A trace event whose declared order is weaker is rejected (the
      SC proofs presuppose these orders; see C10). -/
  reqOrder : P.L → Nat := fun _ => 0
  reqFailOrder : P.L → Nat := fun _ => 0

/-- signed normalisation modulo 2^bits -/
def norm (bits : Nat) (x : Int) : Int :=
  let m : Int := (2 : Int) ^ bits
  let y := x % m
  if y ≥ m / 2 then y - m else y

/-- is the declared order `actual` at least as strong as `required`? (acquire and release are incomparable) -/
def orderOK (required actual : Nat) : Bool :=
  match required with
  | 0 => true
  | 1 => actual = 1 ∨ actual = 2 ∨ actual = 4 ∨ actual = 5
  | 2 => actual = 2 ∨ actual = 4 ∨ actual = 5
  | 3 => actual = 3 ∨ actual = 4 ∨ actual = 5
  | 4 => actual = 4 ∨ actual = 5
  | _ => actual = 5

def bitsToList (mask : Int) : List Nat :=
  (List.range 63).filter fun i => (mask.toNat >>> i) % 2 = 1

def isSilentOp {P : Proto} (B : Binding P) : AOp → Bool
  | .silent => true
  | .load f => B.silentFld f
  | .store f _ => B.silentFld f
  | .xchg f _ => B.silentFld f
  | .cas f _ _ => B.silentFld f
  | _ => false

/-- run the silent (thread-local / plain-data) steps of thread `t`.
    A silent `cas` models acquiring a mutex: the real thread passes a scheduling point before it
    acquires, so acquisition is only attempted in the run that precedes the thread's next visible
    event (`lock = true`); releases and plain accesses run right after the preceding visible event. -/
def runSilent {P : Proto} (B : Binding P) (s : State P) (t : TId) (fuelIn : Nat) (lock : Bool := false) : State P :=
  match fuelIn with
  | 0 => s
  | fuel + 1 =>
    if s.parked t ≠ none then s else
    match P.op (s.loc t) with
    | some o =>
      if isSilentOp B o then
        match o, exec s (.step t) with
        | .cas f e _, some s' => if lock && s.mem f = e then runSilent B s' t fuel lock else s
        | _, some s' => runSilent B s' t fuel lock
        | _, none => s
      else s
    | none => s

def showOp : Option AOp → String
  | none => "none"
  | some o => reprStr o

def acceptLine {P : Proto} (B : Binding P) (s : State P) (toks : List String) :
    Except String (State P) :=
  match toks with
  | tidS :: kind :: rest =>
    match tidS.toNat? with
    | none => .error "bad tid"
    | some t =>
      if kind = "thread_start" ∨ kind = "thread_end" ∨ kind = "note" then .ok s else
      if kind = "call" then
        match rest with
        | name :: args =>
          match args.mapM String.toInt? with
          | none => .error "bad call args"
          | some as =>
            match B.mkCall name as (s.loc t) with
            | none => .error s!"unknown call {name}"
            | some l =>
              match exec s (.call t l) with
              | some s' => .ok (runSilent B s' t 64)
              | none => .error s!"call {name} not enabled for thread {t} (pending {showOp (P.op (s.loc t))})"
        | [] => .error "bad call"
      else if kind = "ret" then
        match rest with
        | _ :: vals =>
          match vals.mapM String.toInt? with
          | none => .error "bad ret values"
          | some vs =>
            if s.parked t ≠ none then .error s!"thread {t} returned while model has it parked" else
            match P.op (s.loc t), B.retOf (s.loc t) with
            | none, some mv => if mv = vs then .ok s else .error s!"return value: impl {vs} model {mv}"
            | none, none => .error "model is idle at return"
            | some o, _ => .error s!"thread {t} returned but model still has pending {reprStr o}"
        | [] => .error "bad ret"
      else
        match rest with
        | [fieldS, moS, operandS, resultS, auxS] =>
          let mo : Nat := moS.toNat?.getD 0
          match operandS.toInt?, resultS.toInt?, auxS.toInt? with
          | some operand, some result, some aux =>
            if kind = "fence" then
              match P.op (s.loc t) with
              | some .fence =>
                if ¬ orderOK (B.reqOrder (s.loc t)) mo then .error s!"fence declared with memory order {mo}, protocol requires {B.reqOrder (s.loc t)}" else
                match exec s (.step t) with
                | some s' => .ok (runSilent B s' t 64)
                | none => .error "fence step failed"
              | o => .error s!"impl fence, model pending {showOp o}"
            else
            match B.fieldOf fieldS with
            | none => .error s!"unknown field {fieldS}"
            | some f =>
              -- silent steps that could not run earlier (e.g. a mutex that was busy) run now
              let s := runSilent B s t 64 true
              let nb := B.bits f
              let same (a b : Int) : Bool := B.opaqueFld f || norm nb a = norm nb b
              if kind = "futex_wait_ret" then
                if result = 110 then
                  match exec s (.timeout t) with
                  | some s' => .ok (runSilent B s' t 64)
                  | none => .error s!"timeout of thread {t} not enabled in model"
                else if result = 11 then
                  if s.parked t = none then .ok s else .error "EAGAIN but model parked the thread"
                else
                  match s.parked t with
                  | none => .ok (runSilent B s t 64)
                  | some _ => match exec s (.spurious t) with
                    | some s' => .ok (runSilent B s' t 64)
                    | none => .error "spurious wake failed"
              else
              match P.op (s.loc t) with
              | none => .error s!"impl {kind} {fieldS} but model thread {t} has no pending operation"
              | some o =>
                let stepIt : Except String (State P) :=
                  match exec s (.step t) with
                  | some s' => .ok (runSilent B s' t 64)
                  | none => .error s!"model step not enabled for {reprStr o}"
                let bad (why : String) : Except String (State P) :=
                  .error s!"{why}: impl {kind} {fieldS} operand={operand} result={result} aux={aux}; model pending {reprStr o} mem={s.mem f}"
                let need : Nat := if kind = "cas_fail" then B.reqFailOrder (s.loc t) else B.reqOrder (s.loc t)
                if (kind = "load" ∨ kind = "store" ∨ kind = "xchg" ∨ kind = "fadd" ∨ kind = "fsub" ∨ kind = "for" ∨ kind = "fand"
                    ∨ kind = "cas_ok" ∨ kind = "cas_fail") ∧ ¬ orderOK need mo then
                  bad s!"declared memory order {mo} weaker than the required {need}"
                else
                match kind, o with
                | "pload", .load g => if g = f then stepIt else bad "plain load"
                | "pstore", .store g _ => if g = f then stepIt else bad "plain store"
                | "pload", .xchg g _ => if g = f then stepIt else bad "plain move-out"
                | "load", .load g =>
                  if g = f ∧ same result (s.mem f) then stepIt else bad "load"
                | "store", .store g v =>
                  if g = f ∧ same operand v then stepIt else bad "store"
                | "xchg", .xchg g v =>
                  if g = f ∧ same operand v ∧ same result (s.mem f) then stepIt else bad "xchg"
                | "fadd", .fadd g v =>
                  if g = f ∧ same operand v ∧ same result (s.mem f) then stepIt else bad "fadd"
                | "fsub", .fsub g v =>
                  if g = f ∧ same operand v ∧ same result (s.mem f) then stepIt else bad "fsub"
                | "fadd", .fsub g v =>
                  if g = f ∧ same operand (-v) ∧ same result (s.mem f) then stepIt else bad "fadd/fsub"
                | "fsub", .fadd g v =>
                  if g = f ∧ same operand (-v) ∧ same result (s.mem f) then stepIt else bad "fsub/fadd"
                | "for", .for_ g v =>
                  if g = f ∧ same operand v ∧ same result (s.mem f) then stepIt else bad "fetch_or"
                | "fand", .fand g v =>
                  if g = f ∧ same operand v ∧ same result (s.mem f) then stepIt else bad "fetch_and"
                | "cas_ok", .cas g e d =>
                  if g = f ∧ same aux e ∧ same operand d ∧ same result (s.mem f) ∧ same (s.mem f) e
                  then stepIt else bad "cas_ok"
                | "cas_fail", .cas g e d =>
                  if g = f ∧ same aux e ∧ same operand d ∧ same result (s.mem f) ∧ ¬ same (s.mem f) e
                  then stepIt else bad "cas_fail"
                | "futex_wait", .fwait g e timed =>
                  if g = f ∧ same operand e ∧ same result (s.mem f) ∧ (timed = (aux ≠ 0)) then
                    match exec s (.step t) with
                    | some s' => .ok s'
                    | none => .error "futex_wait step failed"
                  else bad "futex_wait"
                | "futex_wake", .fwake g n =>
                  if g = f ∧ operand = n then
                    match exec s (.wake t (bitsToList aux)) with
                    | some s' => .ok (runSilent B s' t 64)
                    | none => bad s!"futex_wake woken set {bitsToList aux} not allowed (parked {parkedOn s f})"
                  else bad "futex_wake"
                | _, _ => bad "operation kind"
          | _, _, _ => .error "bad numbers"
        | _ => .error "bad event line"
  | _ => .error "short line"

end Dispenso.Trace
