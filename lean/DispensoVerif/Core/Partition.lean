/-
Generic facts about partitions of an integer interval by a monotone boundary sequence.
Used by C12, C13, C15, C17 (chunk lists), C33/C37 (reserved ranges).
Core Lean only.
-/
namespace Dispenso

/-- `b` is non-decreasing on `[0, n]`. -/
def MonoUpTo (b : Nat → Int) (n : Nat) : Prop := ∀ i, i < n → b i ≤ b (i + 1)

theorem MonoUpTo.le {b : Nat → Int} {n : Nat} (h : MonoUpTo b n) :
    ∀ i j, i ≤ j → j ≤ n → b i ≤ b j := by
  intro i j hij hjn
  induction j with
  | zero =>
    have : i = 0 := by omega
    subst this; exact Int.le_refl _
  | succ k ih =>
    by_cases hik : i = k + 1
    · subst hik; exact Int.le_refl _
    · have h1 : b i ≤ b k := ih (by omega) (by omega)
      have h2 : b k ≤ b (k + 1) := h k (by omega)
      omega

/-- Every point of `[b 0, b n)` lies in some chunk `[b i, b (i+1))`, `i < n`. -/
theorem chunk_exists (b : Nat → Int) (n : Nat) (x : Int)
    (hlo : b 0 ≤ x) (hhi : x < b n) : ∃ i, i < n ∧ b i ≤ x ∧ x < b (i + 1) := by
  induction n with
  | zero => omega
  | succ k ih =>
    by_cases hk : x < b k
    · obtain ⟨i, hi, h1, h2⟩ := ih hk
      exact ⟨i, by omega, h1, h2⟩
    · exact ⟨k, by omega, by omega, hhi⟩

/-- Chunks of a monotone boundary sequence are pairwise disjoint. -/
theorem chunk_unique {b : Nat → Int} {n : Nat} (h : MonoUpTo b n) (x : Int)
    (i j : Nat) (hi : i < n) (hj : j < n)
    (hi1 : b i ≤ x) (hi2 : x < b (i + 1)) (hj1 : b j ≤ x) (hj2 : x < b (j + 1)) : i = j := by
  by_cases hlt : i < j
  · have := h.le (i + 1) j (by omega) (by omega); omega
  · by_cases hgt : j < i
    · have := h.le (j + 1) i (by omega) (by omega); omega
    · omega

/-- Exactly-once cover: for a monotone boundary sequence, each point of `[b 0, b n)` is in exactly
one chunk. -/
theorem chunk_exists_unique {b : Nat → Int} {n : Nat} (h : MonoUpTo b n) (x : Int)
    (hlo : b 0 ≤ x) (hhi : x < b n) :
    ∃ i, (i < n ∧ b i ≤ x ∧ x < b (i + 1)) ∧
      ∀ j, (j < n ∧ b j ≤ x ∧ x < b (j + 1)) → j = i := by
  obtain ⟨i, hi, h1, h2⟩ := chunk_exists b n x hlo hhi
  refine ⟨i, ⟨hi, h1, h2⟩, ?_⟩
  intro j ⟨hj, g1, g2⟩
  exact chunk_unique h x j i hj hi g1 g2 h1 h2

/-- No chunk reaches outside `[b 0, b n)`. -/
theorem chunk_inside {b : Nat → Int} {n : Nat} (h : MonoUpTo b n) (i : Nat) (hi : i < n) :
    b 0 ≤ b i ∧ b (i + 1) ≤ b n :=
  ⟨h.le 0 i (by omega) (by omega), h.le (i + 1) n (by omega) (by omega)⟩

/-! ### List form: a list of `(start, end)` pairs is a *tiling* of `[lo, hi)` -/

/-- `Tiles lo hi l`: the chunks of `l`, in order, are contiguous from `lo` to `hi` and non-empty. -/
def Tiles : Int → Int → List (Int × Int) → Prop
  | lo, hi, [] => lo = hi
  | lo, hi, (s, e) :: rest => s = lo ∧ s < e ∧ Tiles e hi rest

theorem Tiles.le : ∀ {lo hi : Int} {l : List (Int × Int)}, Tiles lo hi l → lo ≤ hi
  | lo, hi, [], h => by simp [Tiles] at h; omega
  | lo, hi, (s, e) :: rest, h => by
    obtain ⟨h1, h2, h3⟩ := h
    have := Tiles.le h3
    omega

/-- number of chunks of the list containing `x` -/
def coverCount (l : List (Int × Int)) (x : Int) : Nat :=
  (l.filter (fun c => decide (c.1 ≤ x) && decide (x < c.2))).length

theorem Tiles.coverCount_out_left : ∀ {lo hi : Int} {l : List (Int × Int)},
    Tiles lo hi l → ∀ x, x < lo → coverCount l x = 0
  | lo, hi, [], _, x, _ => by simp [coverCount]
  | lo, hi, (s, e) :: rest, h, x, hx => by
    obtain ⟨h1, h2, h3⟩ := h
    have ih := Tiles.coverCount_out_left h3 x (by omega)
    unfold coverCount at ih ⊢
    rw [List.filter_cons]
    have : (decide (s ≤ x) && decide (x < e)) = false := by
      simp; omega
    simp [this, ih]

/-- Exactly-once cover in list form: a tiling of `[lo,hi)` contains each `x ∈ [lo,hi)` in exactly
one chunk and each `x ∉ [lo,hi)` in none. -/
theorem Tiles.coverCount_eq : ∀ {lo hi : Int} {l : List (Int × Int)},
    Tiles lo hi l → ∀ x, coverCount l x = if lo ≤ x ∧ x < hi then 1 else 0
  | lo, hi, [], h, x => by
    simp [Tiles] at h
    simp [coverCount]; omega
  | lo, hi, (s, e) :: rest, h, x => by
    obtain ⟨h1, h2, h3⟩ := h
    have ih := Tiles.coverCount_eq h3 x
    have hle := Tiles.le h3
    unfold coverCount at ih ⊢
    rw [List.filter_cons]
    by_cases hin : s ≤ x ∧ x < e
    · have : (decide (s ≤ x) && decide (x < e)) = true := by simp; omega
      have h0 := Tiles.coverCount_out_left h3 x (by omega)
      unfold coverCount at h0
      simp [this, h0]; omega
    · have : (decide (s ≤ x) && decide (x < e)) = false := by
        simp; omega
      simp only [this]
      rw [if_neg (by simp), ih]
      by_cases hx : e ≤ x ∧ x < hi
      · rw [if_pos hx, if_pos (by omega)]
      · rw [if_neg hx, if_neg (by omega)]

theorem Tiles.append : ∀ {lo mid hi : Int} {l1 l2 : List (Int × Int)},
    Tiles lo mid l1 → Tiles mid hi l2 → Tiles lo hi (l1 ++ l2)
  | lo, mid, hi, [], l2, h1, h2 => by simp [Tiles] at h1; subst h1; simpa using h2
  | lo, mid, hi, (s, e) :: rest, l2, h1, h2 => by
    obtain ⟨a, b, c⟩ := h1
    exact ⟨a, b, Tiles.append c h2⟩

end Dispenso
