import DispensoVerif.Proofs.PipeFinal

/-!
# C27 — the pipeline delivers every item through every stage exactly once

Model: `DispensoVerif/Model/Pipeline.lean`; `Reach c st`: `st` is reachable by any finite
interleaving of the steps of the caller and of the pool threads, for any configuration `c`
(number of stages `c.n`, stage limits, filtering stages, pool size, generator instances).

Ghost counters of the model, per stage `s` (1 … `c.n`, `c.n` = the sink) and item tag `i`:
`made i` (the generator returned `i`), `arr s i` (`i` was handed to stage `s`:
`pipeNext_.execute`), `ran s i` (the stage function was entered with `i`), `passed s i` (it returned a
value for stage `s+1`), `stopped s i` (it filtered `i` out, or is the sink).  A closure carries its
item from `execute` to the stage function, so "stage `s+1` receives the output of stage `s` for
item `i`" is `arr (s+1) i = passed s i`.

`C27_drained` and `C27_exactly_once` are about the states in which `pipeline()` has returned
(`mpc = .done r`) and no stage function has thrown (`thrown = 0`; the throwing runs are C29's).
-/
namespace Dispenso.Pipe
open Choice
set_option linter.unusedSimpArgs false
set_option linter.unusedTactic false
set_option linter.unusedVariables false

/-- **C27.a** No item passes a stage twice — in every reachable state, for every configuration
(also when stages throw). -/
theorem C27_never_twice (c : Cfg) (st : St) (hr : Reach c st) (s i : Nat) : st.sh.ran s i ≤ 1 :=
  ran_le_one hr s i

/-- **C27.b** `pipeline()` returns only when nothing is in flight or queued: when it has returned
and no stage function has thrown, no generator closure and no closure of any stage exists on any
thread (before, inside or after its stage function), no such task is queued in the pool, every local
queue is empty, `outstanding_` of every stage is zero and no item is pending anywhere. -/
theorem C27_drained (c : Cfg) (st : St) (hr : Reach c st) (r : Option Exc)
    (hd : st.sh.mpc = .done r) (hT : st.sh.thrown = 0) :
    (SW wL0 c st = 0 ∧ Task.gen ∉ st.sh.pool) ∧
    ∀ s, 1 ≤ s → s ≤ c.n →
      SW (wLs s) c st = 0 ∧ st.sh.qn s = 0 ∧ st.sh.pend s = [] ∧ st.sh.out s = 0 ∧
        Task.q s ∉ st.sh.pool ∧ Task.u s ∉ st.sh.pool := by
  have hc := calm hr hT
  refine ⟨hc.l0 (by rw [hd]; simp [past0]), ?_⟩
  intro s h1 hn
  obtain ⟨j, rfl⟩ : ∃ j, s = j + 1 := ⟨s - 1, by omega⟩
  obtain ⟨h0, a, b, d, e, f, _⟩ := hc.lv j hn (by rw [hd]; exact pastL_done _ _)
  exact ⟨h0, a, b, d, e, f⟩

/-- **C27.c** When `pipeline()` has returned and no stage function has thrown, every item `i` the
generator produced has passed stage `s` (1 ≤ s ≤ n, n = the sink) exactly once if every earlier
stage forwarded it, and not at all otherwise (it was filtered out before); stage `s+1` was handed `i`
exactly when stage `s` forwarded it. -/
theorem C27_exactly_once (c : Cfg) (st : St) (hr : Reach c st) (r : Option Exc)
    (hd : st.sh.mpc = .done r) (hT : st.sh.thrown = 0) (i : Nat) (hi : st.sh.made i = 1) :
    ∀ s, 1 ≤ s → s ≤ c.n →
      (st.sh.ran s i = 1 ↔ ∀ s', 1 ≤ s' → s' < s → st.sh.passed s' i = 1) ∧
      st.sh.ran s i ≤ 1 ∧ st.sh.arr (s + 1) i = st.sh.passed s i := by
  have hz : SW (wP3 0 i) c st = 0 := SW_zero_of_le (wP3_nn _ _) (wP3_le_ls 0 i) (by
    have := (z0_inv c hr).1; omega)
  have hfirst := arr_first hr i hz
  intro s
  induction s with
  | zero => intro h; exact absurd h (by omega)
  | succ s ih =>
    intro _ hn
    obtain ⟨e1, e2, e3⟩ := item_final hr hd hT (s + 1) i (by omega) hn
    have hle := ran_le_one hr (s + 1) i
    refine ⟨?_, hle, e2⟩
    cases s with
    | zero =>
      simp only [Nat.zero_add] at e1 e2 e3 ⊢
      constructor
      · intro _ s' a b; omega
      · intro _; omega
    | succ s' =>
      obtain ⟨ihi, _, iha⟩ := ih (by omega) (by omega)
      obtain ⟨f1, f2, f3⟩ := item_final hr hd hT (s' + 1) i (by omega) (by omega)
      have hle' := ran_le_one hr (s' + 1) i
      constructor
      · intro h s'' a b
        have hp : st.sh.passed (s' + 1) i = 1 := by omega
        by_cases hh : s'' = s' + 1
        · subst hh; exact hp
        · exact ihi.mp (by omega) s'' a (by omega)
      · intro h
        have hp : st.sh.passed (s' + 1) i = 1 := h (s' + 1) (by omega) (by omega)
        omega

/-! ### non-vacuity: a complete run of the repaired model (the labels are those of a trace of the real
code: one stage of limit 2, two pool threads, three items) -/

def exCfg : Cfg :=
  { n := 1, lim := fun s => if s = 1 then some 2 else some 1, filt := fun _ => false, genInst := 1, pool := 2,
    fix := Fix.all }

def exRun : List (Nat × Choice) :=
  [(0, go), (0, pkg), (0, go), (2, take (.gen)), (2, go), (2, go), (2, go),
   (2, item 0), (2, go), (2, go), (2, go), (2, deq), (2, pkg), (2, go),
   (2, go), (2, deqFail), (2, go), (2, go), (2, go), (2, item 1), (2, go),
   (2, go), (2, go), (2, deq), (2, pkg), (2, go), (2, go), (2, go),
   (2, go), (2, go), (2, item 2), (2, go), (2, go), (2, go), (2, go),
   (2, go), (2, go), (2, done), (2, go), (2, go), (2, go), (0, go),
   (0, go), (0, go), (0, go), (0, deq), (0, go), (0, go), (0, go),
   (2, take (.q 1)), (2, go), (2, begin 0), (2, pass), (0, take (.q 1)), (0, go), (0, begin 1),
   (0, pass), (0, deqFail), (0, go), (2, deqFail), (2, go), (2, go), (2, go),
   (0, go), (0, go), (0, go), (0, pkg), (0, go), (0, go), (0, go),
   (0, deqFail), (0, takeFail), (0, go), (0, go), (2, take (.q 1)), (2, go), (2, begin 2),
   (2, pass), (2, deqFail), (2, go), (2, go), (2, go), (0, deqFail), (0, takeFail),
   (0, go), (0, go), (0, go), (0, go), (0, deqFail), (0, go), (0, go),
   (0, go)]

example : ∃ st, Reach exCfg st ∧ st.sh.mpc = .done none ∧ st.sh.thrown = 0 ∧
    st.sh.made 0 = 1 ∧ st.sh.made 1 = 1 ∧ st.sh.made 2 = 1 ∧ st.sh.ran 1 2 = 1 := by
  have hsome : (run exCfg (St.init exCfg) exRun).isSome = true := by decide
  obtain ⟨st, hst⟩ := Option.isSome_iff_exists.mp hsome
  have h1 : (run exCfg (St.init exCfg) exRun).map
      (fun s => (decide (s.sh.mpc = .done none), s.sh.thrown, s.sh.made 0, s.sh.made 1, s.sh.made 2, s.sh.ran 1 2))
      = some (true, 0, 1, 1, 1, 1) := by decide
  rw [hst] at h1
  simp only [Option.map_some, Option.some.injEq, Prod.mk.injEq, decide_eq_true_eq] at h1
  obtain ⟨a, b, d, e, f, g⟩ := h1
  exact ⟨st, reach_of_run exRun .init hst, a, b, d, e, f, g⟩

end Dispenso.Pipe
