import DispensoVerif.Proofs.ResPool
import Mathlib.Data.List.Nodup
/-
C25 — `dispenso::ResourcePool<T>` / `Resource<T>`: bounds and exclusivity.

Model: `Model/ResPool.lean` (handle level: the queue of free resources is a bag guarded by a counting
semaphore; `acquire` = semaphore wait + dequeue, `recycle` = enqueue + signal; `Resource` move
construction / move assignment / destruction; pool construction and destruction), one action per
step, any number of threads and handles, any interleaving (`Reachable size`).  For every `size`:

* `C25_conservation`: every constructed resource is in exactly one place — the free queue, one live
  handle, or destroyed; `C25_at_most_size_held`: at most `size` resources are held;
  `C25_exclusive`: no resource is held by two handles (nor held and free, nor held and destroyed);
* `C25_blocks_only_when_all_held`: whenever a thread is blocked in `acquire()` (waiting on the
  semaphore at count 0), every resource in the free queue is already claimed by an `acquire` that
  passed the semaphore or its `signal` is still pending; with no such call in flight every resource
  is held.  `C25_acquire_enabled`: with a positive count the wait does not block;
* `C25_dtor_never_blocks`: once the destructor runs (all resources returned: class contract) it
  always has an enabled step; `C25_destroyed_once`: when it is done every resource has been
  destroyed exactly once and nothing is left in the queue or in a handle;
  `C25_no_destroy_before_dtor`: nothing is destroyed before.
-/
namespace Dispenso.ResPool
open List

/-- **C25.1** conservation: the resources in the free queue, in live handles and destroyed are
exactly the resources constructed so far, each once; after construction that is `size` resources. -/
theorem C25_conservation (size : Nat) (s : St) (h : Reachable size s) :
    allRids s.sh ~ List.range s.sh.made ∧ s.sh.made ≤ size ∧
    (s.sh.phase = .alive ∨ s.sh.phase = .dying ∨ s.sh.phase = .dead → s.sh.made = size) := by
  have I := reachable_inv h
  have hs := reachable_size h
  exact ⟨I.perm, hs ▸ I.made_le, fun hp => hs ▸ I.ph_made hp⟩

/-- **C25.1'** at most `size` resources are held at any time. -/
theorem C25_at_most_size_held (size : Nat) (s : St) (h : Reachable size s) :
    (heldRids s.sh).length ≤ size := by
  obtain ⟨hp, hm, _⟩ := C25_conservation size s h
  have := hp.length_eq
  simp only [allRids, length_append, length_range] at this
  omega

/-- **C25.2** each resource is in at most one place; in particular no two handles hold the same
resource, and a held resource is neither free nor destroyed. -/
theorem C25_exclusive (size : Nat) (s : St) (h : Reachable size s) :
    (allRids s.sh).Nodup ∧ (heldRids s.sh).Nodup ∧
    (∀ e₁ ∈ s.sh.held, ∀ e₂ ∈ s.sh.held, e₁.2 = e₂.2 → e₁ = e₂) ∧
    (∀ r ∈ heldRids s.sh, r ∉ s.sh.queue ∧ r ∉ s.sh.destroyed) := by
  have hnd : (allRids s.sh).Nodup := (C25_conservation size s h).1.nodup_iff.mpr nodup_range
  have h1 := hnd
  unfold allRids at h1
  rw [nodup_append] at h1
  obtain ⟨hqh, hdn, hdis⟩ := h1
  rw [nodup_append] at hqh
  obtain ⟨hq, hh, hqd⟩ := hqh
  refine ⟨hnd, hh, ?_, ?_⟩
  · intro e₁ h₁ e₂ h₂ he
    exact inj_on_of_nodup_map hh h₁ h₂ he
  · intro r hr
    exact ⟨fun hq' => hqd r hq' r hr rfl, fun hd => hdis r (mem_append_right _ hr) r hd rfl⟩

/-- **C25.3** `acquire()` blocks only while all resources are held: if a thread waits on the
semaphore at count 0 (pool alive), the free queue contains exactly as many resources as there are
calls that already took a token or whose signal is pending; if there is no such call, the queue is
empty and all `size` resources are held by handles. -/
theorem C25_blocks_only_when_all_held (size : Nat) (s : St) (h : Reachable size s) (t : TId)
    (hb : blockedIn s t) (ha : s.sh.phase = .alive) :
    s.sh.queue.length = takers s + pending s ∧
    (takers s = 0 → pending s = 0 → s.sh.queue = [] ∧ (heldRids s.sh).length = size) := by
  have I := reachable_inv h
  obtain ⟨hd, _, hsem⟩ := hb
  have hq := I.semq
  rw [hsem] at hq
  refine ⟨by omega, fun ht hp => ?_⟩
  have hq0 : s.sh.queue = [] := length_eq_zero_iff.mp (by omega)
  have hlen := allRids_length I
  have hdes := I.early (Or.inr (Or.inr ha))
  have hmade := I.ph_made (Or.inl ha)
  have hs := reachable_size h
  refine ⟨hq0, ?_⟩
  simp only [heldRids, length_map]
  rw [hq0, hdes] at hlen
  simp at hlen
  omega

/-- **C25.3'** with a positive semaphore count the wait of `acquire()` is enabled (does not block). -/
theorem C25_acquire_enabled (s : St) (t : TId) (hd : HId) (hf : findT s t = some ⟨t, .acqSem hd⟩)
    (hs : 0 < s.sh.sem) : (exec s (.step t)).isSome := by
  simp [exec, hf, tstep, hs]

/-- **C25.4** the pool's destructor never blocks: while it runs, some action is enabled. -/
theorem C25_dtor_never_blocks (size : Nat) (s : St) (h : Reachable size s) (hd : s.sh.phase = .dying) :
    ∃ a s', exec s a = some s' := by
  have I := reachable_inv h
  obtain ⟨hheld, t, left, hl, hthr⟩ := I.dying hd
  have hlen := allRids_length I
  have hmade := I.ph_made (Or.inr (Or.inl hd))
  have hq := I.semq
  rw [hheld] at hlen
  simp only [length_nil, Nat.add_zero] at hlen
  rcases hthr with hthr | ⟨h1, hthr⟩
  · have hf : findT s t = some ⟨t, .dSem left⟩ := by simp [findT, hthr]
    have htk : takers s = 0 := by simp [takers, hthr, isTaker]
    have hpd : pending s = 0 := by simp [pending, hthr, isPend]
    by_cases h0 : left = 0
    · exact ⟨.step t, _, by simp [exec, hf, tstep, h0]; rfl⟩
    · have hs : 0 < s.sh.sem := by omega
      exact ⟨.step t, _, by simp [exec, hf, tstep, h0, hs]; rfl⟩
  · have hf : findT s t = some ⟨t, .dDeq left⟩ := by simp [findT, hthr]
    have htk : takers s = 1 := by simp [takers, hthr, isTaker]
    have hne : s.sh.queue ≠ [] := by
      intro h0; rw [h0] at hq; simp at hq; omega
    obtain ⟨r, rest, hr⟩ := exists_cons_of_ne_nil hne
    have hmem : r ∈ s.sh.queue := by rw [hr]; simp
    exact ⟨.deq t r, _, by simp [exec, hf, tdeq, hmem]; rfl⟩

/-- **C25.4'** when the destructor has finished, every resource has been destroyed exactly once, the
free queue is empty and no handle holds a resource. -/
theorem C25_destroyed_once (size : Nat) (s : St) (h : Reachable size s) (hd : s.sh.phase = .dead) :
    s.sh.destroyed ~ List.range size ∧ s.sh.destroyed.Nodup ∧ s.sh.queue = [] ∧ s.sh.held = [] := by
  have I := reachable_inv h
  obtain ⟨hh, hq⟩ := I.dead hd
  have hp := I.perm
  have hm := I.ph_made (Or.inr (Or.inr hd))
  rw [reachable_size h] at hm
  simp only [allRids, heldRids, hh, hq, map_nil, nil_append, hm] at hp
  exact ⟨hp, hp.nodup_iff.mpr nodup_range, hq, hh⟩

/-- **C25.4''** nothing is destroyed before the destructor runs. -/
theorem C25_no_destroy_before_dtor (size : Nat) (s : St) (h : Reachable size s)
    (hp : s.sh.phase = .unborn ∨ s.sh.phase = .ctor ∨ s.sh.phase = .alive) : s.sh.destroyed = [] :=
  (reachable_inv h).early hp

/-! ### non-vacuity -/

/-- pool of 2: construct; thread 1 acquires into handle 10, thread 2 into handle 20; thread 3 waits -/
def demo : List Act :=
  [.call 0 .ctor, .step 0, .step 0, .step 0, .ret 0,
   .call 1 (.acquire 10), .step 1, .deq 1 1, .ret 1,
   .call 2 (.acquire 20), .step 2, .deq 2 0, .ret 2,
   .call 3 (.acquire 30)]

example : (run (St.init 2) demo).map (fun s => (s.sh.held, s.sh.queue, s.sh.sem, s.thr)) =
    some ([(20, 0), (10, 1)], [], 0, [⟨3, .acqSem 30⟩]) := by decide
-- thread 3 is blocked (its step is not enabled) until a handle is destroyed
example : (run (St.init 2) (demo ++ [.step 3])).isNone := by decide
example : (run (St.init 2) (demo ++ [.call 1 (.destroy 10), .step 1, .step 1, .step 3, .deq 3 1])).map
    (fun s => s.sh.held) = some [(30, 1), (20, 0)] := by decide
-- move construction, move assignment over a holding handle, destruction, then the pool's destructor
example : (run (St.init 2) (demo.take 13 ++
    [.call 1 (.moveCtor 11 10), .ret 1, .call 1 (.moveAssign 11 20), .step 1, .step 1, .step 1, .ret 1,
     .call 1 (.destroy 11), .step 1, .step 1, .step 1, .ret 1,
     .call 1 (.destroy 10), .step 1, .step 1, .ret 1, .call 1 (.destroy 20), .step 1, .step 1, .ret 1,
     .call 0 .dtor, .step 0, .deq 0 1, .step 0, .deq 0 0, .step 0, .ret 0])).map
    (fun s => (s.sh.phase, s.sh.destroyed, s.sh.liveH)) = some (.dead, [1, 0], []) := by decide

end Dispenso.ResPool
