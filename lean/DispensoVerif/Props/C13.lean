import DispensoVerif.Props.C12

/-!
# C13 — granularity contract

With `granularity > 1` (honoured in the adaptive and the static chunking modes), every body
invocation except possibly the last one in range order has a size that is a multiple of the
granularity, and the last one ends at `stop` (only it may absorb the `size % granularity` tail).
All modes: static (tail run by the caller or folded into the last chunk when `wait = false`),
dynamic adaptive, stripes (repaired stripe boundaries: aligned relative to `start`).
-/
namespace Dispenso.ParFor
open Dispenso Dispenso.Chunk

/-- **C13** every invocation except possibly the last (in range order) has a size that is a
multiple of the granularity. -/
theorem C13_granularity (c : Cfg) (_h : Dom c) (hg : 1 < (c.granularity : Int))
    (hmode : c.chunk = 0 ∨ c.chunk = c.ty.maxVal) :
    ∀ p ∈ (chunksOf c).dropLast, (p.2 - p.1) % (c.granularity : Int) = 0 := by
  unfold chunksOf
  suffices hs : AllDvd (c.granularity : Int) (plan c).chunks.dropLast from
    fun p hp => Int.emod_eq_zero_of_dvd (hs p hp)
  have hgran : ∀ {g te ht}, GranSpec c g te ht → g = (c.granularity : Int) := by
    intro g te ht gs
    have := gs.gran hmode
    omega
  apply plan_cases c (fun p => AllDvd (c.granularity : Int) p.chunks.dropLast)
  · intro _ p hp; exact absurd (show p ∈ [] from hp) List.not_mem_nil
  · intro _ p hp; exact absurd (show p ∈ [] from hp) List.not_mem_nil
  · -- static, folded tail: only the last chunk is irregular
    intro g te ht mt st ctx _ _ _
    obtain ⟨wf, hsz, _, _⟩ := ctx.mapper
    rw [← hgran ctx.facts.1]
    exact mapper_fold_allDvd _ wf g (fun i => (hsz i).2) c.stop
  · intro g te ht mt st ctx _ _
    obtain ⟨wf, hsz, _, _⟩ := ctx.mapper
    rw [← hgran ctx.facts.1]
    exact allDvd_dropLast_tail te c.stop ht (mapper_allDvd _ wf g (fun i => (hsz i).2))
  · -- stripes
    intro g te ht mt st ctx _ hc0 _
    obtain ⟨gs, _, _⟩ := ctx.facts
    have hgg := hgran gs
    rw [← hgg]
    have hcs := calcChunkSize_dvd (te - c.start) c.chunk (toLaunch c mt) true
      (max 1 (c.minItemsPerChunk : Int)) g 64 hc0 (by omega) gs.dvd
    apply allDvd_dropLast_tail
    exact stripesFrom_allDvd c.start te _ g hcs gs.dvd _ c.start (by simp)
      (stripeBounds_dvd c.start te _ g (by omega) gs.dvd)
  · -- dynamic (adaptive, wait = false)
    intro g te ht mt st ctx hst _
    obtain ⟨gs, _, _⟩ := ctx.facts
    have hgg := hgran gs
    rw [← hgg]
    have hc0 : c.chunk = 0 := by
      rcases hmode with h0 | h1
      · exact h0
      · have := adj_static c te h1
        rw [ctx.adj_eq] at this
        dsimp only at this
        rw [hst] at this
        cases this
    have hcs := calcChunkSize_dvd (te - c.start) c.chunk (toLaunch c mt) c.wait
      (max 1 (c.minItemsPerChunk : Int)) g 16 hc0 (by omega) gs.dvd
    apply allDvd_dropLast_tail
    exact dynChunks_allDvd c.start te _ _ g hcs gs.dvd

/-- **C13** the last invocation (the only one that may be irregular) ends at `stop`. -/
theorem C13_last_ends_at_stop (c : Cfg) (h : Dom c) (p : Int × Int)
    (hp : (chunksOf c).getLast? = some p) : p.2 = c.stop :=
  (C12_partition c h).getLast_snd p hp

/-! ### non-vacuity -/
example : (chunksOf exStaticTail).dropLast = [(0, 8), (8, 12), (12, 16), (16, 20)] ∧
    (chunksOf exStaticTail).getLast? = some (20, 23) := by decide
example : (chunksOf exStaticFold).dropLast = [(0, 8), (8, 12), (12, 16)] ∧
    (chunksOf exStaticFold).getLast? = some (16, 23) := by decide
example : (chunksOf exStripes).dropLast = [(2, 10), (10, 14), (14, 22), (22, 26), (26, 34), (34, 42)] ∧
    (chunksOf exStripes).getLast? = some (42, 45) := by decide
example : ∀ p ∈ (chunksOf exStripes).dropLast, (p.2 - p.1) % 4 = 0 :=
  C13_granularity exStripes (by decide) (by decide) (by decide)
/-- the granularity is ignored for explicit chunk sizes (hence `hmode`) -/
example : chunksOf exDynamic = [(-5, 2), (2, 9), (9, 16), (16, 20)] ∧ exDynamic.granularity = 4 := by
  decide

end Dispenso.ParFor
