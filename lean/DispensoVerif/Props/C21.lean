import DispensoVerif.Proofs.Event

/-!
# C21 — no lost wake-up in `CompletionEvent` / `Latch` (futex variant)

Model: `DispensoVerif/Model/Event.lean` (one action per atomic operation / futex call), generic
interleaving semantics `DispensoVerif/Core/Conc.lean` (any number of threads, any schedule,
spurious wake-ups, time-outs).  Field 0 is the status word.

* Latch (`latchProto`, count initially `c ≥ 0`, clients obey the usage contract "never start
  decrements exceeding the count"): once the count is zero, either no thread is blocked or a
  notification (store + wake-all) is still pending; when the decrementers have returned nobody is
  blocked; `wait()` returns only after observing zero; zero is stable.
* CompletionEvent (`eventProto`, no `reset`): the same for the value `1`.
* `C21_old_count_down_loses_wakeup`: the code before the repair of `Latch::count_down`
  (`fetch_sub(n) == 1`) reaches a state where the count is zero, every running thread has returned,
  and a waiter is blocked forever.
-/
namespace Dispenso.Event
open Dispenso.Conc

/-- amount a thread is about to subtract from the latch count -/
def pendingDec : L → Int
  | .cdSub n => n
  | .awSub => 1
  | _ => 0

/-- what is left of the count once every started-but-not-yet-executed decrement has happened -/
def budget (s : State latchProto) : Int :=
  s.mem 0 - (s.threads.map fun t => pendingDec (s.loc t)).sum

/-- usage contract of a latch: clients never start decrements exceeding the count -/
def Contract (s : State latchProto) : Prop := 0 ≤ budget s

instance (s : State latchProto) : Decidable (Contract s) :=
  inferInstanceAs (Decidable (0 ≤ budget s))

/-- states reachable under the contract -/
inductive ReachC (c : Int) : State latchProto → Prop where
  | init : ReachC c (initState latchProto L.idle (fun _ => c))
  | step {s s'} (a : Act latchProto) : ReachC c s → exec s a = some s' → Contract s' → ReachC c s'

theorem ReachC.reachable {c : Int} {s : State latchProto} (h : ReachC c s) :
    Reachable (initState latchProto L.idle (fun _ => c)) s := by
  induction h with
  | init => exact .init
  | step a _ he _ ih => exact .step a ih he

theorem ReachC.inv {c : Int} {s : State latchProto} (h : ReachC c s) : Inv (e := latchE) 0 s :=
  latch_inv c s h.reachable

theorem ReachC.contract {c : Int} (hc : 0 ≤ c) {s : State latchProto} (h : ReachC c s) :
    Contract s := by
  cases h with
  | init => simpa [Contract, budget, initState] using hc
  | step a _ _ hk => exact hk

/-- under the contract the count never goes negative -/
theorem ReachC.count_nonneg {c : Int} (hc : 0 ≤ c) {s : State latchProto} (h : ReachC c s) :
    0 ≤ s.mem 0 := by
  have hk : 0 ≤ budget s := h.contract hc
  have hs : 0 ≤ (s.threads.map fun t => pendingDec (s.loc t)).sum :=
    sum_map_nonneg _ (fun t => by
      have hw := h.inv.wf t
      generalize s.loc t = l at hw
      cases l <;> simp_all [pendingDec, wf] <;> omega) _
  unfold budget at hk
  omega

-- `hc` (and for C21.c also `h`) are part of the agreed statements but not needed by the proofs:
-- C21.a–c hold in every reachable state of `latchProto`, contract or not (see `C21_latch_*_any`).
set_option linter.unusedVariables false

/-- **C21.a** Latch: once the count is zero, either no thread is blocked or a notification
(store of 0 followed by wake-all) is still pending. -/
theorem C21_latch_no_lost_wakeup (c : Int) (hc : 0 ≤ c) (s : State latchProto) (h : ReachC c s)
    (hn : s.threads.length < intMax) :
    s.mem 0 = 0 → (∀ u, s.parked u = none) ∨ (∃ t, s.loc t = .ntStore 0 ∨ s.loc t = .ntWake) := by
  intro hz
  rcases h.inv.d hn hz with h1 | ⟨t, ht⟩
  · exact Or.inl h1
  · refine Or.inr ⟨t, ?_⟩
    rcases ht with ht | ⟨_, ht⟩
    · exact Or.inr ht
    · exact Or.inl ht

/-- **C21.b** Latch: when the count is zero and every thread that is not blocked has returned from
its call, no thread is blocked. -/
theorem C21_latch_quiescent (c : Int) (hc : 0 ≤ c) (s : State latchProto) (h : ReachC c s)
    (hn : s.threads.length < intMax)
    (hq : ∀ t, s.parked t = none → latchProto.op (s.loc t) = none) (hz : s.mem 0 = 0) :
    ∀ u, s.parked u = none := by
  rcases h.inv.d hn hz with h1 | ⟨t, ht⟩
  · exact h1
  · exfalso
    have hpt : s.parked t ≠ none := fun hp => by
      have ho : op (s.loc t) = none := hq t hp
      rcases isN_op ht with h2 | h2 <;> rw [ho] at h2 <;> cases h2
    exact h.inv.parkedNotN hpt ht

/-- **C21.c** Latch: `wait()` returns only in a state where the count is zero. -/
theorem C21_latch_never_early (c : Int) (hc : 0 ≤ c) (s s' : State latchProto) (h : ReachC c s)
    (t : TId) (he : exec s (.step t) = some s') (h1 : s.loc t = .wLoad 0)
    (h2 : s'.loc t = .done 0) : s.mem 0 = 0 :=
  step_load_done (e := latchE) he (Or.inl ⟨h1, rfl⟩) h2

set_option linter.unusedVariables true

/-- **C21.d** Latch: under the contract a zero count stays zero. -/
theorem C21_latch_zero_stable (c : Int) (hc : 0 ≤ c) (s : State latchProto) (h : ReachC c s)
    (hz : s.mem 0 = 0) (a : Act latchProto) (s' : State latchProto) (he : exec s a = some s')
    (hk : Contract s') : s'.mem 0 = 0 := by
  have h0 : 0 ≤ s'.mem 0 := (ReachC.step a h he hk).count_nonneg hc
  rcases exec_mem0 (e := latchE) a h.inv he with h1 | h1 | ⟨_, n, hn, h1⟩
  · rw [h1, hz]
  · exact h1
  · rw [hz] at h1; omega

/-- **C21.e** CompletionEvent: once completed, either no thread is blocked or the wake-all of a
`notify` is still pending. -/
theorem C21_event_no_lost_wakeup (s : State eventProto) (h : Reachable (initState eventProto L.idle (fun _ => 0)) s)
    (hn : s.threads.length < intMax) :
    s.mem 0 = 1 → (∀ u, s.parked u = none) ∨ (∃ t, s.loc t = .ntWake) := by
  intro hz
  rcases (event_inv s h).d hn hz with h1 | ⟨t, ht⟩
  · exact Or.inl h1
  · refine Or.inr ⟨t, ?_⟩
    rcases ht with ht | ⟨h0, _⟩
    · exact ht
    · cases h0

/-- **C21.f** CompletionEvent: completed and every non-blocked thread has returned ⇒ nobody is
blocked. -/
theorem C21_event_quiescent (s : State eventProto) (h : Reachable (initState eventProto L.idle (fun _ => 0)) s)
    (hn : s.threads.length < intMax)
    (hq : ∀ t, s.parked t = none → eventProto.op (s.loc t) = none) (hz : s.mem 0 = 1) :
    ∀ u, s.parked u = none := by
  have I := event_inv s h
  rcases I.d hn hz with h1 | ⟨t, ht⟩
  · exact h1
  · exfalso
    have hpt : s.parked t ≠ none := fun hp => by
      have ho : op (s.loc t) = none := hq t hp
      rcases isN_op ht with h2 | h2 <;> rw [ho] at h2 <;> cases h2
    exact I.parkedNotN hpt ht

/-- **C21.g** CompletionEvent: `wait()` returns, and `waitFor`/`waitUntil` return `true`, only in
a state where the event is completed. -/
theorem C21_event_never_early (s s' : State eventProto) (t : TId)
    (he : exec s (.step t) = some s')
    (hl : (s.loc t = .wLoad 1 ∧ s'.loc t = .done 0) ∨
      (((∃ b, s.loc t = .wfLoad0 1 b) ∨ s.loc t = .wfLoad 1) ∧ s'.loc t = .done 1)) :
    s.mem 0 = 1 := by
  rcases hl with ⟨h1, h2⟩ | ⟨h1 | h1, h2⟩
  · exact step_load_done (e := eventE) he (Or.inl ⟨h1, rfl⟩) h2
  · exact step_load_done (e := eventE) he (Or.inr (Or.inl ⟨h1, rfl⟩)) h2
  · exact step_load_done (e := eventE) he (Or.inr (Or.inr ⟨h1, rfl⟩)) h2

/-- **C21.h** CompletionEvent (without `reset`): the word is 0 or 1, and once 1 it stays 1. -/
theorem C21_event_completed_stable (s : State eventProto) (h : Reachable (initState eventProto L.idle (fun _ => 0)) s) :
    (s.mem 0 = 0 ∨ s.mem 0 = 1) ∧
      (s.mem 0 = 1 → ∀ (a : Act eventProto) (s' : State eventProto),
        exec s a = some s' → s'.mem 0 = 1) := by
  have I := event_inv s h
  refine ⟨I.ev rfl, fun hz a s' he => ?_⟩
  rcases exec_mem0 (e := eventE) a I he with h1 | h1 | ⟨h0, _⟩
  · rw [h1, hz]
  · exact h1
  · cases h0

/-- C21.a without the contract: in every reachable state of the latch protocol (clients may even
over-decrement) a zero count means nobody is blocked or a notification is pending. -/
theorem C21_latch_no_lost_wakeup_any (c : Int) (s : State latchProto)
    (h : Reachable (initState latchProto L.idle (fun _ => c)) s)
    (hn : s.threads.length < intMax) :
    s.mem 0 = 0 → (∀ u, s.parked u = none) ∨ (∃ t, s.loc t = .ntStore 0 ∨ s.loc t = .ntWake) := by
  intro hz
  rcases (latch_inv c s h).d hn hz with h1 | ⟨t, ht⟩
  · exact Or.inl h1
  · refine Or.inr ⟨t, ?_⟩
    rcases ht with ht | ⟨_, ht⟩
    · exact Or.inr ht
    · exact Or.inl ht

/-! ## The repaired defect: `fetch_sub(n) == 1` instead of `== n` -/

/-- the schedule: thread 1 calls `wait()` and blocks (count 2), thread 2 calls `count_down(2)`;
the old code compares the previous value 2 with 1 and returns without notifying -/
def oldWitnessActs : List (Act latchProtoOld) :=
  [.call 1 (L.wLoad 0), .step 1, .step 1, .call 2 (L.cdSub 2), .step 2]

/-- **C21.i** (witness of the defect repaired in `Latch::count_down`) with the old comparison
`fetch_sub(n) == 1`, a latch initialised to 2 reaches a state where the count is zero, every thread
that is not blocked has returned, and thread 1 is blocked in `wait()` with no notification pending: nobody
is left to wake it. -/
theorem C21_old_count_down_loses_wakeup :
    ∃ s, Reachable (initState latchProtoOld L.idle (fun _ => 2)) s ∧ s.mem 0 = 0 ∧
      s.parked 1 ≠ none ∧ (∀ t, s.parked t = none → latchProtoOld.op (s.loc t) = none) := by
  let s0 : State latchProtoOld := initState latchProtoOld L.idle (fun _ => 2)
  let s1 : State latchProtoOld := { setLoc s0 1 (L.wLoad 0) with threads := [1] }
  let s2 : State latchProtoOld := setLoc s1 1 (L.wWait 0 2)
  let s3 : State latchProtoOld := setParked s2 1 (some (0, false))
  let s4 : State latchProtoOld := { setLoc s3 2 (L.cdSub 2) with threads := [2, 1] }
  let s5 : State latchProtoOld := setLoc (setMem s4 0 0) 2 (L.done 0)
  have hr : run s0 oldWitnessActs = some s5 := rfl
  refine ⟨s5, reachable_of_run _ hr, rfl, by decide, fun t ht => ?_⟩
  by_cases h1 : t = 1
  · subst h1; exact absurd ht (by decide)
  · by_cases h2 : t = 2
    · subst h2; rfl
    · show op (if t = 2 then L.done 0 else if t = 2 then L.cdSub 2 else
        if t = 1 then L.wWait 0 2 else if t = 1 then L.wLoad 0 else L.idle) = none
      simp [h1, h2, op]

/-! ## Non-vacuity: the contract-respecting runs contain real blocking and waking -/

/-- run a schedule, checking the contract after every action -/
def runC (s : State latchProto) : List (Act latchProto) → Option (State latchProto)
  | [] => some s
  | a :: as => match exec s a with
    | some s' => if Contract s' then runC s' as else none
    | none => none

theorem reachC_of_runC {c : Int} {s s' : State latchProto} (as : List (Act latchProto))
    (h : ReachC c s) (hr : runC s as = some s') : ReachC c s' := by
  induction as generalizing s with
  | nil => simp only [runC] at hr; injection hr with hr; subst hr; exact h
  | cons a as ih =>
    simp only [runC] at hr
    split at hr
    · rename_i s1 he
      split at hr
      · rename_i hk
        exact ih (.step a h he hk) hr
      · contradiction
    · contradiction

/-- latch initialised to 1: thread 1 calls `wait()` and blocks, thread 2 calls `count_down(1)` and
has executed the `fetch_sub` -/
def demoActs1 : List (Act latchProto) :=
  [.call 1 (L.wLoad 0), .step 1, .step 1, .call 2 (L.cdSub 1), .step 2]

/-- ... then thread 2 stores, wakes thread 1, and thread 1 re-checks and returns -/
def demoActs2 : List (Act latchProto) := [.step 2, .wake 2 [1], .step 1]

/-- under the contract a state is reachable where the count is zero, a waiter is blocked and the
notification is pending (so the second disjunct of `C21_latch_no_lost_wakeup` is needed) … -/
theorem demo_blocked : ∃ s, ReachC 1 s ∧ runC (initState latchProto L.idle (fun _ => 1)) demoActs1
    = some s ∧ s.mem 0 = 0 ∧ s.parked 1 = some (0, false) ∧ s.loc 2 = L.ntStore 0 := by
  let s0 : State latchProto := initState latchProto L.idle (fun _ => 1)
  let s1 : State latchProto := { setLoc s0 1 (L.wLoad 0) with threads := [1] }
  let s2 : State latchProto := setLoc s1 1 (L.wWait 0 1)
  let s3 : State latchProto := setParked s2 1 (some (0, false))
  let s4 : State latchProto := { setLoc s3 2 (L.cdSub 1) with threads := [2, 1] }
  let s5 : State latchProto := setLoc (setMem s4 0 0) 2 (L.ntStore 0)
  have hr : runC s0 demoActs1 = some s5 := rfl
  exact ⟨s5, reachC_of_runC _ .init hr, hr, rfl, rfl, rfl⟩

/-- … and from there the notifier stores, wakes the waiter, and the waiter returns from `wait()`:
nobody is blocked, every thread has returned -/
example : ∃ s s', ReachC 1 s ∧ s.parked 1 ≠ none ∧ runC s demoActs2 = some s' ∧ ReachC 1 s' ∧
    s'.mem 0 = 0 ∧ s'.parked 1 = none ∧ s'.loc 1 = L.done 0 ∧ s'.loc 2 = L.done 0 := by
  let s0 : State latchProto := initState latchProto L.idle (fun _ => 1)
  let s1 : State latchProto := { setLoc s0 1 (L.wLoad 0) with threads := [1] }
  let s2 : State latchProto := setLoc s1 1 (L.wWait 0 1)
  let s3 : State latchProto := setParked s2 1 (some (0, false))
  let s4 : State latchProto := { setLoc s3 2 (L.cdSub 1) with threads := [2, 1] }
  let s5 : State latchProto := setLoc (setMem s4 0 0) 2 (L.ntStore 0)
  let s6 : State latchProto := setLoc (setMem s5 0 0) 2 L.ntWake
  let s7 : State latchProto := setLoc (unparkAll s6 [1]) 2 (L.done 0)
  let s8 : State latchProto := setLoc s7 1 (L.done 0)
  have hr : runC s0 demoActs1 = some s5 := rfl
  have hr2 : runC s5 demoActs2 = some s8 := rfl
  have h5 : ReachC 1 s5 := reachC_of_runC _ .init hr
  exact ⟨s5, s8, h5, by decide, hr2, reachC_of_runC _ h5 hr2, rfl, rfl, rfl, rfl⟩

/-- the same for the CompletionEvent: thread 1 blocks in `wait()`, thread 2 is between the store
and the wake-all of `notify()`; then the wake-all releases thread 1, which returns -/
example : ∃ s s', Reachable (initState eventProto L.idle (fun _ => 0)) s ∧ s.mem 0 = 1 ∧
    s.parked 1 = some (0, false) ∧ s.loc 2 = L.ntWake ∧
    run s [.wake 2 [1], .step 1] = some s' ∧ s'.parked 1 = none ∧ s'.loc 1 = L.done 0 := by
  let s0 : State eventProto := initState eventProto L.idle (fun _ => 0)
  let s1 : State eventProto := { setLoc s0 1 (L.wLoad 1) with threads := [1] }
  let s2 : State eventProto := setLoc s1 1 (L.wWait 1 0)
  let s3 : State eventProto := setParked s2 1 (some (0, false))
  let s4 : State eventProto := { setLoc s3 2 (L.ntStore 1) with threads := [2, 1] }
  let s5 : State eventProto := setLoc (setMem s4 0 1) 2 L.ntWake
  let s6 : State eventProto := setLoc (unparkAll s5 [1]) 2 (L.done 0)
  let s7 : State eventProto := setLoc s6 1 (L.done 0)
  have hr : run s0 [.call 1 (L.wLoad 1), .step 1, .step 1, .call 2 (L.ntStore 1), .step 2]
      = some s5 := rfl
  have hr2 : run s5 [.wake 2 [1], .step 1] = some s7 := rfl
  exact ⟨s5, s7, reachable_of_run _ hr, rfl, rfl, rfl, hr2, rfl, rfl⟩

end Dispenso.Event
