import DispensoVerif.Proofs.SchedReach

/-!
# C05 — an exception thrown by a task of a set is captured once and rethrown once, by `wait`

Model: `DispensoVerif/Model/Sched.lean`; `captured` = the sets holding a captured, not yet
delivered exception; `captures S` / `rethrows S` count the `tsCapture` / `tsRethrow` events of `S`.
-/
namespace Dispenso.Sched

/-- the capture state machine: a set holds an exception iff it captured one more than it
delivered; hence `rethrows ≤ captures ≤ rethrows + 1` -/
theorem C05_capture_state {s : St} (h : Reach s) (S : Nat) :
    (S ∈ s.captured ↔ s.captures S = s.rethrows S + 1) ∧
    (S ∉ s.captured → s.captures S = s.rethrows S) := by
  have := (Inv.reach h).cap.2 S
  refine ⟨⟨this.1, fun he => ?_⟩, this.2⟩
  refine Classical.byContradiction fun hn => ?_
  have := this.2 hn
  omega

/-- no captured exception is delivered twice, and between two deliveries a new capture happened -/
theorem C05_rethrows_le_captures {s : St} (h : Reach s) (S : Nat) :
    s.rethrows S ≤ s.captures S ∧ s.captures S ≤ s.rethrows S + 1 := by
  have := (Inv.reach h).cap.2 S
  by_cases hm : S ∈ s.captured
  · have := this.1 hm; omega
  · have := this.2 hm; omega

/-- a set holds at most one captured exception -/
theorem C05_captured_nodup {s : St} (h : Reach s) : s.captured.Nodup := (Inv.reach h).cap.1

/-- a second capture while one is pending is rejected (the first exception wins) -/
theorem C05_capture_once {s : St} {t S : Nat} (hc : S ∈ s.captured) :
    step s t (.tsCapture S) = none := by
  simp [step, hc]

/-- the exception is only rethrown by a wait on that set, after the counter was observed at zero -/
theorem C05_rethrow_after_zero {s s' : St} {t S : Nat} (hs : step s t (.tsRethrow S) = some s') :
    (s.top t).kind = .wait ∧ (s.top t).set = S ∧ (s.top t).zeroSeen = true ∧ S ∈ s.captured := by
  obtain ⟨f, rest, hf, hst⟩ := step_inv' hs
  cases hst with
  | tsRethrow _ hk hset hz hc => rw [top_eq hf]; exact ⟨hk, hset, hz, hc⟩

/-- a wait that reports completion has delivered any captured exception, and it reports an
exception iff it rethrew one in this call -/
theorem C05_done_delivers {s s' : St} {t S : Nat} {exc : Bool}
    (hs : step s t (.retWait S true exc) = some s') :
    S ∉ s.captured ∧ exc = (s.top t).rethrown := by
  obtain ⟨f, rest, hf, hst⟩ := step_inv' hs
  cases hst with
  | retWait _ _ _ hk hset hst hz hexc hc => rw [top_eq hf]; exact ⟨hc rfl, hexc⟩

/-! ### non-vacuity -/


example : (run (St.init 0) sampleExcTrace).map (fun s => (s.captured, s.captures 1, s.rethrows 1))
    = some ([], 1, 1) := rfl

/-- reporting completion without delivering the captured exception is rejected -/
example : (run (St.init 0) (sampleExcTrace.take 18 ++ [(0, .retWait 1 true false)])).isSome
    = false := rfl

end Dispenso.Sched
