import DispensoVerif.Props.C32
import DispensoVerif.Props.C34
import DispensoVerif.Props.C35
import DispensoVerif.Props.C36
import DispensoVerif.Props.C37
import DispensoVerif.Props.C38
import DispensoVerif.Props.C39
import DispensoVerif.Props.C40
import DispensoVerif.Props.C42

/-!
# C11 — memory safe and leak free, including error paths (PARTIAL: ledgers of the modelled parts)

What is proved about memory and lifetimes lives with the components: the ledger / bounds theorems
of C32 (ConcurrentVector), C37 (ConcurrentObjectArena), C38 (SmallVector), C39 (OnceFunction),
C40 (OpResult), C42 (PoolAllocator) are re-checked and axiom-audited as C11 obligations by
`tools/props/c11.py`.  This file adds the statements the property's anchors name, in the
`OnceFunction` model (`Model/OnceFn.lean`, `Props/C39.lean`):

* the cancellation skip path of `TaskSetBase::packageTask` (detail/task_set_impl.h): the packaged
  closure `[this, f = std::move(f)]` is what the pool's `OnceFunction` holds; the pool invokes it
  whether or not the set is cancelled, and destroy-on-call then destroys the closure — and with it
  the captured body `f` — exactly once even though `f()` was skipped (`C11_packaged_task_destroyed_once`);
* a `OnceFunction` that is never invoked is released exactly once by `cleanupNotRun()`
  (`C11_never_invoked_released_by_cleanup`), and along every history nothing is destroyed twice
  (`C11_no_double_destroy`);
* what the model does NOT give: `OnceFunction` has no releasing destructor, so an object still
  holding a callable that is neither invoked nor cleaned up keeps its callable and its spill block
  (`C11_unconsumed_is_not_released`) — a skipped body that is itself a `OnceFunction` (the pipeline
  stages, lead C29) therefore leaks unless the skip path calls `cleanupNotRun()`.

Memory safety of the compiled code as such is observed (ASan/UBSan/LSan + allocation counting on the
error-path programs of `harness/native/c11_paths.cpp`), not proved.
-/
namespace Dispenso.OnceFn

/-- **C11.a** skip path of `packageTask`: the object `o` holds the packaged closure `f` (which owns
the task body by value).  Invoking `o` — which the pool does for every queued task, cancelled or
not — destroys the closure exactly once and leaves the object empty. -/
theorem C11_packaged_task_destroyed_once (s : St) (hinv : Inv s) (o : Nat) (f : Fn)
    (h : get s o = some (some f)) :
    let s' := (step s (.invoke o)).1
    count s'.destroyed f.callable = 1 ∧ get s' o = some none := by
  have := C39_invoke s hinv o f h
  exact ⟨this.2.1, this.2.2⟩

/-- **C11.b** a callable that is never invoked is destroyed exactly once by `cleanupNotRun()`,
without being called, and the object is left empty. -/
theorem C11_never_invoked_released_by_cleanup (s : St) (hinv : Inv s) (o : Nat) (f : Fn)
    (h : get s o = some (some f)) :
    let s' := (step s (.cleanup o)).1
    count s'.called f.callable = 0 ∧ count s'.destroyed f.callable = 1 ∧ get s' o = some none :=
  C39_cleanup s hinv o f h

/-- **C11.c** along every history of creations, moves, invocations, clean-ups and drops no callable
is destroyed twice, and the spill blocks outstanding are exactly those of objects still holding a
spilled callable (none once every object is empty). -/
theorem C11_no_double_destroy (ops : List Op) (c : Nat) :
    let s := runOps St.init ops
    count s.destroyed c ≤ 1 ∧ (count s.called c = 1 → count s.destroyed c = 1) ∧
      ((∀ p ∈ s.objs, p.2 = none) → s.blocks = 0) := by
  intro s
  have h1 := C39_exactly_once ops c
  have h2 := C39_blocks_ledger ops
  exact ⟨h1.2.1, h1.2.2, h2.2⟩

/-- **C11.d** (negative) there is no releasing destructor: an object that still holds a callable
cannot be dropped in the model — its callable is not destroyed and its block is not returned. -/
theorem C11_unconsumed_is_not_released (s : St) (o : Nat) (f : Fn)
    (h : get s o = some (some f)) : step s (.drop o) = (s, none) :=
  C39_drop_requires_empty s o f h

/-- non-vacuity: a spilled 100-byte callable that is never invoked: `cleanupNotRun` destroys it once
and returns the block; without it the block stays outstanding -/
example :
    let s := runOps St.init [.create 100 8]
    s.blocks = 1 ∧ (runOps s [.cleanup 0]).blocks = 0 ∧
    count (runOps s [.cleanup 0]).destroyed 0 = 1 ∧ (runOps s [.drop 0]).blocks = 1 := by
  decide

end Dispenso.OnceFn
