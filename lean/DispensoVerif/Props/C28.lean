import DispensoVerif.Props.C27

/-!
# C28 — pipeline stages never exceed their concurrency limit

Model: `DispensoVerif/Model/Pipeline.lean` (one step per access to shared state of
`LimitGatedScheduler`, the pipes of `pipeline_impl.h` and the task set; every thread is a stack of
frames; `Reach c st`: `st` is reachable by *any* finite interleaving of thread steps for the
configuration `c` — any number of stages, limits, pool threads, items, filtering or throwing stages,
and any combination of the repaired / original behaviours `c.fix`).

(The three property files import each other in a chain — C27, C28, C29 — only so that the auxiliary
match lemmas Lean generates on demand are created once.)

`inflight c st s` counts the frames that are inside the stage function of stage `s` (between the
begin and the end step of an invocation), `genInflight` those inside the generator function.
-/
namespace Dispenso.Pipe
open Choice

/-- **C28.a** For every reachable state and every stage `s` with limit `L` (`stage(f, L)`, or a plain
function: `L = 1`): at most `L` invocations of the stage function are in progress. -/
theorem C28_stage_limit (c : Cfg) (st : St) (hr : Reach c st) (s L : Nat) (hL : c.lim s = some L) :
    inflight c st s ≤ L := by
  have h1 := slot_inv c s hr
  have h2 := fk_inv c s hr
  have h3 := (nou_inv c s L hL hr).1
  have hb : 0 ≤ st.sh.borrowed s := by
    have := sumT_nonneg (wFk s) (fun f => by
      cases f <;> simp [wFk, hwFk] <;> (repeat' split) <;> omega) st.thr c.pool
    simp only [SW, GFk] at h2
    split at h2 <;> omega
  have h4 : 0 ≤ st.sh.res s + st.sh.borrowed s :=
    rb_inv c s (fun st' hr' => by
      have h2' := fk_inv c s hr'
      have := sumT_nonneg (wFk s) (fun f => by
        cases f <;> simp [wFk, hwFk] <;> (repeat' split) <;> omega) st'.thr c.pool
      simp only [SW, GFk] at h2'
      simp only [PRb]
      split at h2' <;> omega) hr
  have hle := sumT_le (wRun s) (fun f => wSlot s f - wFk s f + wNou s f) (wRun_le s) st.thr c.pool
  rw [sumT_comb] at hle
  simp only [SW, GSlot, GFk, inflight] at *
  have hinit : (Sh.init c).res s = L := by simp [Sh.init, hL]
  have hc : (0 : Int) ≤ (List.count (Task.q s) st.sh.pool : Int) := by omega
  have hl : (0 : Int) ≤ (st.sh.lost s : Int) := by omega
  split at h1 <;> split at h2 <;> first | omega | contradiction

/-- **C28.b** At most `c.genInst = max 1 (min poolThreads generatorLimit)` (≤ the generator's limit)
invocations of the generator function are in progress. -/
theorem C28_generator_limit (c : Cfg) (st : St) (hr : Reach c st) : genInflight c st ≤ c.genInst := by
  have h1 := cpl_inv c hr
  have h2 : st.sh.compl ≤ c.genInst := cle_inv c (fun _ _ => trivial) hr
  have hle := sumT_le wGenRun wCpl wGenRun_le st.thr c.pool
  simp only [SW, GCpl, genInflight] at *
  have hc : (0 : Int) ≤ (List.count Task.gen st.sh.pool : Int) := by omega
  have hs : (0 : Int) ≤ (st.sh.stuckC : Int) := by omega
  split at h1 <;> omega

/-! ### non-vacuity: the limit is reached — a run of the repaired model (a prefix of a trace of the real
code, reordered so that two pool/caller threads are inside the stage function of a stage of limit 2) -/

def exCfg28 : Cfg :=
  { n := 1, lim := fun s => if s = 1 then some 2 else some 1, filt := fun _ => false, genInst := 1, pool := 2,
    fix := Fix.all }

def exRun28 : List (Nat × Choice) :=
  [(0, go), (0, pkg), (0, go), (2, take (.gen)), (2, go), (2, go), (2, go),
   (2, item 0), (2, go), (2, go), (2, go), (2, deq), (2, pkg), (2, go),
   (2, go), (2, deqFail), (2, go), (2, go), (2, go), (2, item 1), (2, go),
   (2, go), (2, go), (2, deq), (2, pkg), (2, go), (2, go), (2, go),
   (2, go), (2, go), (2, item 2), (2, go), (2, go), (2, go), (2, go),
   (2, go), (2, go), (2, done), (2, go), (2, go), (2, go), (0, go),
   (0, go), (0, go), (0, go), (0, deq), (0, go), (0, go), (0, go),
   (2, take (.q 1)), (2, go), (2, begin 0), (0, take (.q 1)), (0, go), (0, begin 1)]

example : ∃ st, Reach exCfg28 st ∧ inflight exCfg28 st 1 = 2 := by
  have hsome : (run exCfg28 (St.init exCfg28) exRun28).isSome = true := by decide
  obtain ⟨st, hst⟩ := Option.isSome_iff_exists.mp hsome
  have h1 : (run exCfg28 (St.init exCfg28) exRun28).map (fun s => inflight exCfg28 s 1) = some 2 := by decide
  rw [hst] at h1
  simp only [Option.map_some, Option.some.injEq] at h1
  exact ⟨st, reach_of_run exRun28 .init hst, h1⟩

end Dispenso.Pipe
