import DispensoVerif.Proofs.ConVecGrow
/-!
# C33 — ConcurrentVector concurrent growth is exact

Model: `DispensoVerif/Model/ConVecGrow.lean` — one model action per atomic operation of
`emplace_back`/`push_back`, the `grow_by` family (`growByUninitialized` + the range variant of
`allocAsNecessaryImpl` with its counting pass, assigning pass and wait loops), `grow_to_at_least`
(load, then `grow_by`) and of a reader of an element that existed before; memory = `size_`,
`buffers_[b]` and one tag per element (0 = never constructed).  `c : GCfg` = realloc strategy,
first-bucket shift, initial size `n0`, iterator kind; `pre` = the buckets allocated initially,
`el0` = the initial elements.  All theorems hold for every configuration, every number of threads
and every interleaving (`Reachable (init c pre el0) s` / every finite run).
-/
namespace Dispenso.ConVecGrow
open Dispenso.Conc Dispenso.ConVec Dispenso.ConVecAlloc

/-! ### index reservation -/

theorem sum_nonneg_of (l : List Int) (h : ∀ z ∈ l, 0 ≤ z) : 0 ≤ l.sum := by
  induction l with
  | nil => simp
  | cons a r ih =>
    have h1 := h a List.mem_cons_self
    have h2 := ih (fun z hz => h z (List.mem_cons_of_mem _ hz))
    simp only [List.sum_cons]; omega

theorem chain_facts : ∀ (l : List (Int × Int)) (a b : Int), Chain a l b →
    l.Pairwise (fun x y => x.1 + x.2 ≤ y.1) ∧ (∀ x ∈ l, a ≤ x.1 ∧ 0 ≤ x.2 ∧ x.1 + x.2 ≤ b) ∧
      b = a + (l.map (·.2)).sum := by
  intro l
  induction l with
  | nil => intro a b h; simp only [Chain] at h; subst h; simp
  | cons p l ih =>
    intro a b h
    obtain ⟨r, v⟩ := p
    obtain ⟨rfl, hv, hc⟩ := h
    obtain ⟨h1, h2, h3⟩ := ih _ _ hc
    refine ⟨List.pairwise_cons.2 ⟨?_, h1⟩, ?_, ?_⟩
    · intro y hy; have := (h2 y hy).1; simpa using this
    · intro x hx
      rcases List.mem_cons.1 hx with rfl | hx
      · refine ⟨Int.le_refl _, hv, ?_⟩
        have : 0 ≤ (l.map (·.2)).sum := by
          apply sum_nonneg_of
          intro z hz
          obtain ⟨q, hq, rfl⟩ := List.mem_map.1 hz
          exact (h2 q hq).2.1
        simp only; omega
      · have := h2 x hx; omega
    · simp only [List.map_cons, List.sum_cons]; omega

/-- **C33.a** Index reservation is exact.  Along every run, the `fetch_add`s on `size_` (one per
`emplace_back` / `grow_by` / growing `grow_to_at_least`) return consecutive ranges: each one starts
where the previous one ended, so the reserved ranges `[r, r + d)` are pairwise disjoint, lie in
`[n0, size)`, tile it, and the final size is the initial size plus the total growth. -/
theorem C33_reservations_tile (c : GCfg) (pre : Nat → Bool) (el0 : Nat → Int)
    (as : List (Act (proto c))) (s : State (proto c)) (evs : List Ev)
    (h : runEvs (init c pre el0) as = some (s, evs)) :
    Chain c.n0 (adds evs) (s.mem fSize) ∧
    (adds evs).Pairwise (fun x y => x.1 + x.2 ≤ y.1) ∧
    (∀ x ∈ adds evs, (c.n0 : Int) ≤ x.1 ∧ 0 ≤ x.2 ∧ x.1 + x.2 ≤ s.mem fSize) ∧
    s.mem fSize = c.n0 + ((adds evs).map (·.2)).sum := by
  have hc := chain_run as (init c pre el0) s evs (fun _ => rfl) h
  have e : (init c pre el0).mem fSize = c.n0 := rfl
  rw [e] at hc
  exact ⟨hc, chain_facts _ _ _ hc⟩

/-- **C33.b** At every moment the reservations held by different threads are disjoint and lie in
`[n0, size)` (a call holds `[i, i+d)` from its `fetch_add` until the thread's next call). -/
theorem C33_reservations_disjoint (c : GCfg) (pre : Nat → Bool) (el0 : Nat → Int) (s : State (proto c))
    (h : Reachable (init c pre el0) s) :
    (∀ t i d, rangeOf (s.loc t) = some (i, d) → c.n0 ≤ i ∧ ((i + d : Nat) : Int) ≤ s.mem fSize) ∧
    (∀ t u i d i' d', t ≠ u → rangeOf (s.loc t) = some (i, d) → rangeOf (s.loc u) = some (i', d') →
      i + d ≤ i' ∨ i' + d' ≤ i) := by
  have hI := inv_reachable h
  refine ⟨fun t i d hr => ?_, hI.disj⟩
  have := hI.rng t i d hr
  rw [hI.szeq]; omega

/-! ### bucket allocation -/

theorem pstore_of_op (c : GCfg) (l : L) (k : Nat) (v : Int) (h : op c l = some (.store (fBuf k) v)) :
    pstore c l = some k := by
  cases l <;> simp only [op, Option.some.injEq, reduceCtorEq, AOp.store.injEq] at h
  · obtain ⟨h1, _⟩ := h; simp only [pstore, fBuf_inj h1]
  · obtain ⟨h1, _⟩ := h; exact absurd h1 (fEl_ne_fBuf _ _)
  · obtain ⟨h1, _⟩ := h; simp only [pstore, fBuf_inj h1]
  · obtain ⟨h1, _⟩ := h; exact absurd h1 (fEl_ne_fBuf _ _)

/-- **C33.c** No double allocation.  Whenever a thread is about to store the pointer of bucket `k`,
`buffers_[k]` is still null, the trigger index of `k` lies in that thread's reservation, and no other
thread is about to store the same bucket: `tryAssignBuffer`'s load-then-store never overwrites a
pointer, although it is not a CAS. -/
theorem C33_bucket_stored_once (c : GCfg) (pre : Nat → Bool) (el0 : Nat → Int) (s : State (proto c))
    (h : Reachable (init c pre el0) s) (t : TId) (k : Nat) (v : Int)
    (hop : op c (s.loc t) = some (.store (fBuf k) v)) :
    s.mem (fBuf k) = 0 ∧ v ≠ 0 ∧
    (∃ i d, rangeOf (s.loc t) = some (i, d) ∧ 1 ≤ k ∧
      i ≤ bucketStart c.s (k - 1) + allocCheckIndex c.st (bucketCap c.s (k - 1)) ∧
      bucketStart c.s (k - 1) + allocCheckIndex c.st (bucketCap c.s (k - 1)) < i + d) ∧
    ∀ u w, op c (s.loc u) = some (.store (fBuf k) w) → u = t := by
  have hI := inv_reachable h
  have hp := pstore_of_op c _ k v hop
  obtain ⟨i, d, hr, h1, h2, h3, h4⟩ := own_of_pstore c (hI.locOk t) hp
  refine ⟨h4, ?_, ⟨i, d, hr, h1, h2, h3⟩, ?_⟩
  · cases hl : (s.loc t : L) <;> rw [hl] at hop <;>
      simp only [op, Option.some.injEq, reduceCtorEq, AOp.store.injEq] at hop
    · rw [← hop.2]; exact tok_ne _
    · exact absurd hop.1 (fEl_ne_fBuf _ _)
    · rw [← hop.2]; exact tok_ne _
    · exact absurd hop.1 (fEl_ne_fBuf _ _)
  · intro u w hu
    by_cases e : u = t
    · exact e
    · exfalso
      obtain ⟨i', d', hr', _, b2, b3, _⟩ := own_of_pstore c (hI.locOk u) (pstore_of_op c _ k w hu)
      have := hI.disj u t i' d' i d e hr' hr
      unfold trigAbs at *
      omega

/-- **C33.d** Addresses are stable.  A bucket pointer that is non-null never changes again, under any
action of any thread: references and iterators to existing elements stay valid while others grow
the vector. -/
theorem C33_buffers_stable (c : GCfg) (pre : Nat → Bool) (el0 : Nat → Int) (s s' : State (proto c))
    (h : Reachable (init c pre el0) s) (a : Act (proto c)) (he : exec s a = some s') (k : Nat)
    (hk : s.mem (fBuf k) ≠ 0) : s'.mem (fBuf k) = s.mem (fBuf k) := by
  have hI := inv_reachable h
  rcases exec_inv c hI.np he with ⟨t, l, rfl, _, _, hm, _, _⟩ | ⟨t, o, r, rfl, hop, heff, _, _⟩
  · rw [hm]
  · generalize hm : s'.mem = m' at heff
    cases heff with
    | load f => rfl
    | store f v =>
      by_cases e : fBuf k = f
      · subst e
        exact absurd (C33_bucket_stored_once c pre el0 s h t k v hop).1 hk
      · rw [upd_ne _ _ e]
    | fadd f v =>
      obtain ⟨rfl, _⟩ := op_fadd_size c _ f v hop
      rw [upd_ne _ _ (fBuf_ne_size k)]

/-! ### elements -/

theorem unwr_of_op (c : GCfg) (m : Fld → Int) (l : L) (x : Nat) (v : Int) (hk : LocOk c m l)
    (h : op c l = some (.store (fEl x) v)) : unwr l x ∧ v ≠ 0 ∧ m (fBuf (bkt c x)) ≠ 0 := by
  cases l <;> simp only [op, Option.some.injEq, reduceCtorEq, AOp.store.injEq] at h
  · exact absurd h.1 (fBuf_ne_fEl _ _)
  · obtain ⟨h1, h2⟩ := h
    have := fEl_inj h1; subst this; subst h2
    exact ⟨rfl, by have := hk.1; omega, hk.2⟩
  · exact absurd h.1 (fBuf_ne_fEl _ _)
  · rename_i i d v' stp j
    obtain ⟨h1, h2⟩ := h
    have := fEl_inj h1; subst this; subst h2
    obtain ⟨hval, hj, hw, _⟩ := hk
    refine ⟨by simp only [unwr]; omega, valOk_ne hval j, ?_⟩
    exact hw _ (bkt_mono c (by omega)) (by have := bkt_mono c (show i + j ≤ i + d by omega); omega)

/-- **C33.e** Every element is constructed exactly once, in allocated storage, by the call that
reserved its index.  Whenever a thread is about to construct the element at index `x`: `x` lies in
that thread's reservation (so `n0 ≤ x < size`), the bucket of `x` is allocated, the slot has never
been constructed, the tag written is non-zero, and no other thread is about to construct `x`. -/
theorem C33_element_written_once (c : GCfg) (pre : Nat → Bool) (el0 : Nat → Int) (s : State (proto c))
    (h : Reachable (init c pre el0) s) (t : TId) (x : Nat) (v : Int)
    (hop : op c (s.loc t) = some (.store (fEl x) v)) :
    s.mem (fEl x) = 0 ∧ v ≠ 0 ∧ s.mem (fBuf (bucketAndSubIndex c.s x).bucket) ≠ 0 ∧
    (∃ i d, rangeOf (s.loc t) = some (i, d) ∧ i ≤ x ∧ x < i + d ∧ c.n0 ≤ x ∧ (x : Int) < s.mem fSize) ∧
    ∀ u w, op c (s.loc u) = some (.store (fEl x) w) → u = t := by
  have hI := inv_reachable h
  obtain ⟨hu, hv, hb⟩ := unwr_of_op c s.mem _ x v (hI.locOk t) hop
  obtain ⟨i, d, hr, h1, h2⟩ := unwr_range hu
  have hrg := hI.rng t i d hr
  refine ⟨hI.unw t x hu, hv, hb, ⟨i, d, hr, h1, h2, by omega, by rw [hI.szeq]; omega⟩, ?_⟩
  intro u w hou
  by_cases e : u = t
  · exact e
  · exfalso
    obtain ⟨hu', _, _⟩ := unwr_of_op c s.mem _ x w (hI.locOk u) hou
    obtain ⟨i', d', hr', g1, g2⟩ := unwr_range hu'
    have := hI.disj u t i' d' i d e hr' hr
    omega

/-- **C33.f** No element is overwritten or lost by a later action: a constructed element (non-zero
tag) keeps its value under every action of every thread; the elements that existed before the
concurrent phase always hold their initial values. -/
theorem C33_elements_stable (c : GCfg) (pre : Nat → Bool) (el0 : Nat → Int) (s s' : State (proto c))
    (h : Reachable (init c pre el0) s) (a : Act (proto c)) (he : exec s a = some s') :
    (∀ x, s.mem (fEl x) ≠ 0 → s'.mem (fEl x) = s.mem (fEl x)) ∧ (∀ x, x < c.n0 → s.mem (fEl x) = el0 x) := by
  have hI := inv_reachable h
  refine ⟨fun x hx => ?_, hI.old⟩
  rcases exec_inv c hI.np he with ⟨t, l, rfl, _, _, hm, _, _⟩ | ⟨t, o, r, rfl, hop, heff, _, _⟩
  · rw [hm]
  · generalize hm : s'.mem = m' at heff
    cases heff with
    | load f => rfl
    | store f v =>
      by_cases e : fEl x = f
      · subst e
        exact absurd (C33_element_written_once c pre el0 s h t x v hop).1 hx
      · rw [upd_ne _ _ e]
    | fadd f v =>
      obtain ⟨rfl, _⟩ := op_fadd_size c _ f v hop
      rw [upd_ne _ _ (fEl_ne_size x)]

/-- **C33.g** What a finished growth call leaves behind: when a call that reserved `[i, i+d)` has
returned (position `i`), its `d` elements hold exactly the call's tags, inside `[n0, size)`. -/
theorem C33_call_result (c : GCfg) (pre : Nat → Bool) (el0 : Nat → Int) (s : State (proto c))
    (h : Reachable (init c pre el0) s) (t : TId) (i d : Nat) (v stp : Int)
    (hl : s.loc t = L.done i d v stp) :
    (∀ j, j < d → s.mem (fEl (i + j)) = v + stp * j ∧ s.mem (fEl (i + j)) ≠ 0) ∧
      c.n0 ≤ i ∧ ((i + d : Nat) : Int) ≤ s.mem fSize := by
  have hI := inv_reachable h
  have hk := hI.locOk t
  rw [hl] at hk
  have hr := hI.rng t i d (by rw [hl]; rfl)
  refine ⟨fun j hj => ⟨hk.2 j hj, by rw [hk.2 j hj]; exact valOk_ne hk.1 j⟩, hr.1, by rw [hI.szeq]; omega⟩

/-- **C33.h** Nothing is lost: in a quiescent state (no call in progress) every index below `size` is
constructed — the initial ones with their initial values, the others with a non-zero tag. -/
theorem C33_quiescent_complete (c : GCfg) (pre : Nat → Bool) (el0 : Nat → Int) (s : State (proto c))
    (h : Reachable (init c pre el0) s) (hq : ∀ t, isIdle (s.loc t) = true) (x : Nat)
    (hx : (x : Int) < s.mem fSize) :
    (x < c.n0 → s.mem (fEl x) = el0 x) ∧ (c.n0 ≤ x → s.mem (fEl x) ≠ 0) := by
  have hI := inv_reachable h
  refine ⟨hI.old x, fun h1 => ?_⟩
  rw [hI.szeq] at hx
  rcases hI.wr x h1 (by omega) with h2 | ⟨t, h2⟩
  · exact h2
  · exact absurd h2 (idle_no_unwr (hq t) x)

/-- **C33.i** A reader of an element that existed before the concurrent phase sees its initial value,
whatever the growing threads are doing. -/
theorem C33_reader (c : GCfg) (pre : Nat → Bool) (el0 : Nat → Int) (s s' : State (proto c))
    (h : Reachable (init c pre el0) s) (t : TId) (k : Nat) (hl : s.loc t = L.rRead k)
    (he : exec s (.step t) = some s') : k < c.n0 ∧ s'.loc t = L.rdone (el0 k) := by
  have hI := inv_reachable h
  have hk := hI.locOk t
  rw [hl] at hk
  have hk' : k < c.n0 := hk
  refine ⟨hk', ?_⟩
  rcases exec_inv c hI.np he with ⟨t', l, h1, _⟩ | ⟨t', o, r, h1, hop, heff, _, hloc⟩
  · cases h1
  · cases h1
    rw [hl] at hop hloc
    simp only [op, Option.some.injEq] at hop
    subst hop
    generalize hm : s'.mem = m' at heff
    cases heff
    have hc : cont c (L.rRead k) (s.mem (fEl k)) = L.rdone (el0 k) := by
      simp only [cont, hI.old k hk']
    rw [hloc]
    simp only [↓reduceIte]
    exact hc

/-- **C33.j** Elements are only ever constructed in allocated buckets below the wait loops: when a
thread has passed the wait loops of its call, every bucket of its reservation is allocated. -/
theorem C33_range_allocated (c : GCfg) (pre : Nat → Bool) (el0 : Nat → Int) (s : State (proto c))
    (h : Reachable (init c pre el0) s) (t : TId) (i d : Nat) (v stp : Int) (j : Nat)
    (hl : s.loc t = L.gWrite i d v stp j) (x : Nat) (h1 : i ≤ x) (h2 : x < i + d) :
    s.mem (fBuf (bucketAndSubIndex c.s x).bucket) ≠ 0 := by
  have hk := (inv_reachable h).locOk t
  rw [hl] at hk
  show s.mem (fBuf (bkt c x)) ≠ 0
  exact hk.2.2.1 _ (bkt_mono c h1) (by have := bkt_mono c (show x ≤ i + d by omega); omega)

/-! ### no orphan wait -/

/-- **C33.k** Every wait has an owner.  Provided the vector starts in a state the sequential
operations produce (`PreOk`: bucket 0 exists and every bucket whose trigger index is below the
initial size exists — `C32_alloc_ahead`), whenever a thread spins on a bucket pointer that is still
null, another thread is on its way to publish exactly that bucket and is itself not waiting (it is in
the allocation part of its call, which precedes its own wait loops): no cyclic wait, no bucket that
nobody will allocate. -/
theorem C33_wait_has_owner (c : GCfg) (pre : Nat → Bool) (el0 : Nat → Int) (hp : PreOk c pre)
    (s : State (proto c)) (h : Reachable (init c pre el0) s) (t : TId) (k : Nat)
    (hw : isWaiting (s.loc t) = true) (hop : op c (s.loc t) = some (.load (fBuf k)))
    (hnull : s.mem (fBuf k) = 0) :
    ∃ u, u ≠ t ∧ willStore c (s.loc u) k ∧ isWaiting (s.loc u) = false := by
  obtain ⟨hI, hO⟩ := own_reachable hp h
  have key : ∀ k', k = k' + 1 → (trigAbs c.st c.s k' : Int) < s.mem fSize →
      ∃ u, u ≠ t ∧ willStore c (s.loc u) k ∧ isWaiting (s.loc u) = false := by
    intro k' e hlt
    rcases hO.2 k' hlt with h1 | ⟨u, h1⟩
    · rw [← e] at h1; exact absurd hnull h1
    · rw [← e] at h1
      refine ⟨u, ?_, h1, willStore_not_waiting c h1⟩
      intro eu; rw [eu] at h1
      have := willStore_not_waiting c h1
      rw [hw] at this; cases this
  have hlk := hI.locOk t
  cases hl : (s.loc t : L) <;> rw [hl] at hw hop hlk <;> simp only [isWaiting, Bool.false_eq_true] at hw
  case eWait i v =>
    simp only [op, Option.some.injEq, AOp.load.injEq] at hop
    have hk : k = bkt c i := (fBuf_inj hop).symm
    have hr := hI.rng t i 1 (by rw [hl]; rfl)
    by_cases h0 : k = 0
    · rw [h0] at hnull; exact absurd hnull hO.1
    · obtain ⟨k', hk'⟩ : ∃ k', k = k' + 1 := ⟨k - 1, by omega⟩
      apply key k' hk'
      have h1 := trigAbs_lt c.st c.s k'
      have h2 := bk_start_le c.s i
      have h3 : bk c.s i = k' + 1 := by rw [← hk']; exact hk.symm
      rw [h3] at h2
      rw [hI.szeq]; omega
  case gWait i d v stp b =>
    simp only [op, Option.some.injEq, AOp.load.injEq] at hop
    have hk : k = b := (fBuf_inj hop).symm
    obtain ⟨_, hb1, hb2, _⟩ := hlk
    have hr := hI.rng t i d (by rw [hl]; rfl)
    by_cases h0 : k = 0
    · rw [h0] at hnull; exact absurd hnull hO.1
    · obtain ⟨k', hk'⟩ : ∃ k', k = k' + 1 := ⟨k - 1, by omega⟩
      apply key k' hk'
      have h1 := trigAbs_lt c.st c.s k'
      have h2 := bk_start_le c.s (i + d)
      have h3 := bucketStart_mono c.s (show k' + 1 ≤ bk c.s (i + d) by
        have : bkt c (i + d) = bk c.s (i + d) := rfl
        omega)
      rw [hI.szeq]; omega

/-! ### non-vacuity: concrete interleavings -/

/-- kAsNeeded, first bucket of one element, empty vector with buckets 0 and 1 allocated.  Thread 1
does `grow_by(3)` (tags 10,11,12), thread 2 `emplace_back(7)`; thread 2's `fetch_add` comes second,
so it gets index 3 — the last index of bucket 2, whose successor bucket 3 it must allocate, while it
has to wait for bucket 2, which thread 1 allocates.  Final size 4, elements 10,11,12,7. -/
def exCfg : GCfg := { st := .asNeeded, s := 0, n0 := 0, fastIter := true }

/-- the interleaving of the example below -/
def exRun : List (Act (proto exCfg)) :=
  [.call 1 (.gAdd 3 10 1), .call 2 (.eAdd 7), .step 1, .step 2,
   -- thread 2: trigger index → load buffers_[3], store it, then spin on buffers_[2] (still null)
   .step 2, .step 2, .step 2, .step 2,
   -- thread 1: count buffers_[1], buffers_[2]; assign: load 1 (allocated), load 2 (null), store 2; wait on
   -- buckets 0, 1, 2; iterator; three writes
   .step 1, .step 1, .step 1, .step 1, .step 1, .step 1, .step 1, .step 1, .step 1, .step 1, .step 1, .step 1,
   -- thread 2: now buffers_[2] is there
   .step 2, .step 2, .step 2]

/-- kAsNeeded, first bucket of one element, empty vector with buckets 0 and 1 allocated.  Thread 1
does `grow_by(3)` (tags 10,11,12), thread 2 `emplace_back(7)`; thread 2's `fetch_add` comes second,
so it gets index 3 — the last index of bucket 2, whose successor bucket 3 it must allocate, while it
has to wait for bucket 2, which thread 1 allocates.  Final size 4, elements 10,11,12,7, both calls
returned their positions 0 and 3. -/
example :
    (runEvs (init exCfg (fun b => decide (b < 2)) (fun _ => 0)) exRun).map
      (fun p => (p.1.mem fSize, [0, 1, 2, 3].map (fun k => p.1.mem (fEl k)), adds p.2))
    = some (4, [10, 11, 12, 7], [(0, 3), (3, 1)]) := by
  decide

/-- the initial state of the example satisfies `PreOk`, and after 8 actions thread 2 spins on the null
    `buffers_[2]` while thread 1 (counting pass) is its owner -/
example : PreOk exCfg (fun b => decide (b < 2)) := by
  refine ⟨rfl, fun k hk => ?_⟩
  have : exCfg.n0 = 0 := rfl
  omega

example :
    (run (init exCfg (fun b => decide (b < 2)) (fun _ => 0)) (exRun.take 8)).map
      (fun s => (isWaiting (s.loc 2), (binding exCfg).retOf (s.loc 2), s.mem (fBuf 2), isWaiting (s.loc 1)))
    = some (true, none, 0, false) := by
  decide

example :
    (runEvs (init exCfg (fun b => decide (b < 2)) (fun _ => 0)) exRun).map
      (fun p => ([2, 3].map (fun b => p.1.mem (fBuf b)), (binding exCfg).retOf (p.1.loc 1),
                 (binding exCfg).retOf (p.1.loc 2)))
    = some ([1, 4], some [0], some [3]) := by
  decide

end Dispenso.ConVecGrow
