import DispensoVerif.Proofs.HBOrd
import DispensoVerif.Proofs.HBWitAsync
import DispensoVerif.Proofs.HBWitSpsc
import DispensoVerif.Proofs.HBWitMpmc
import DispensoVerif.Proofs.HBWitEvent
import DispensoVerif.Proofs.HBWitLatch
import DispensoVerif.Proofs.HBWitChaseLev

/-!
# C10 — no data races under the weak memory model (PARTIAL: the named hand-off protocols)

`Core/HB.lean`: executions of the protocol models (`Conc.exec`, any number of threads, any
interleaving) are projected to traces of memory events — plain reads/writes of the payload
locations, atomic loads / stores / read-modify-writes carrying the memory order DECLARED at the
program point (table `o`), fences — and `hb = (po ∪ sw)⁺` is the C++20 / RC11 happens-before
(release sequences; `consume` and fences give no edge) computed on executions that are sequentially
consistent per atomic location.  `Race tr`: two conflicting plain accesses of different threads not
ordered by `hb`.

For each protocol below:
* `C10_<p>_race_free`: for EVERY execution of the model (under the client contract stated), if the
  declared order at every program point is at least the one the trace acceptor requires
  (`Trace.orderOK (binding.reqOrder l) (o l)` — exactly the check applied to every atomic operation
  of the real code in the V ties of C21/C24/C34/C35), there is no `Race` on the payload.  Internally
  the theorems need only the sub-table `need` (`need ≤ reqOrder`, `*_need_le_req`).
* `C10_<p>_order_needed`: for every non-relaxed entry of `need`, the source's table with THAT entry
  weakened to relaxed admits a contract-respecting execution with a `Race`.

Not covered here: the rest of the library; executions whose atomic history itself is not SC per
location; fence-based synchronisation (none of these protocols relies on it for the payload).
-/
namespace Dispenso
open Dispenso.Conc Dispenso.HB

/-- **C10.0** soundness of the happens-before detector the protocol proofs are phrased with: a
trace it accepts has no data race (for all traces). -/
theorem C10_detector_sound (tr : Trace) (d' : D) (h : D.init.run tr = some d') : ¬ Race tr :=
  detector_sound tr d' h

/-- **C10.0'** the order comparison of the theorems is the acceptor's (`Trace.orderOK`). -/
theorem C10_order_check_is_acceptors (r a : Nat) : ordGE r a = Trace.orderOK r a :=
  ordGE_eq_orderOK r a

/-! ### SPSC ring buffer -/

theorem C10_spsc_need_le_req (K : Nat) (l : Spsc.L) :
    ordGE (Spsc.need l) ((Spsc.binding K).reqOrder l) = true := by
  cases l <;> rfl

/-- **C10.1** SPSC ring (one producer `P`, one consumer `C`; single and batch operations; any
buffer size): no data race on any element slot. -/
theorem C10_spsc_race_free (K : Nat) (hK : 1 ≤ K) (P C : TId) (hPC : P ≠ C) (o : Spsc.L → Nat)
    (ho : ∀ l, Trace.orderOK ((Spsc.binding K).reqOrder l) (o l) = true)
    (acts : List (Act (Spsc.proto K))) (hr : Spsc.Roles P C acts)
    (s : State (Spsc.proto K)) (tr : Trace)
    (hrun : runH (Spsc.hbSpec K o) (Spsc.init K) acts = some (s, tr)) : ¬ Race tr :=
  Spsc.race_free hK hPC o (table_ge (C10_spsc_need_le_req K) ho) acts hr s tr hrun

/-- **C10.1'** each of the eight acquire/release orders of the SPSC ring is necessary. -/
theorem C10_spsc_order_needed (c : Spsc.Site) :
    ∃ acts s tr, runH (Spsc.hbSpec 2 (Spsc.reqBut 2 c)) (Spsc.init 2) acts = some (s, tr) ∧
      Spsc.Roles 0 1 acts ∧ Race tr := by
  have r := Spsc.wit_roles
  cases c
  · obtain ⟨s, tr, h1, h2⟩ := Spsc.needed_pLoadH
    exact ⟨_, s, tr, h1, Spsc.roles_of_rolesB r.2.1, h2⟩
  · obtain ⟨s, tr, h1, h2⟩ := Spsc.needed_pPub
    exact ⟨_, s, tr, h1, Spsc.roles_of_rolesB r.1, h2⟩
  · obtain ⟨s, tr, h1, h2⟩ := Spsc.needed_cLoadT
    exact ⟨_, s, tr, h1, Spsc.roles_of_rolesB r.1, h2⟩
  · obtain ⟨s, tr, h1, h2⟩ := Spsc.needed_cPub
    exact ⟨_, s, tr, h1, Spsc.roles_of_rolesB r.2.1, h2⟩
  · obtain ⟨s, tr, h1, h2⟩ := Spsc.needed_bLoadH
    exact ⟨_, s, tr, h1, Spsc.roles_of_rolesB r.2.2.2.2.2, h2⟩
  · obtain ⟨s, tr, h1, h2⟩ := Spsc.needed_bPub
    exact ⟨_, s, tr, h1, Spsc.roles_of_rolesB r.2.2.1, h2⟩
  · obtain ⟨s, tr, h1, h2⟩ := Spsc.needed_qLoadT
    exact ⟨_, s, tr, h1, Spsc.roles_of_rolesB r.2.2.2.1, h2⟩
  · obtain ⟨s, tr, h1, h2⟩ := Spsc.needed_qPub
    exact ⟨_, s, tr, h1, Spsc.roles_of_rolesB r.2.2.2.2.1, h2⟩

/-! ### MPMC ring buffer -/

theorem C10_mpmc_need_le_req (K : Nat) (l : Mpmc.L) :
    ordGE (Mpmc.need l) ((Mpmc.binding K).reqOrder l) = true := by
  cases l <;> rfl

/-- **C10.2** MPMC ring (any number of producers and consumers, single and batch pushes, buffer
size ≥ 2): no data race on any slot element; the per-slot sequence number hands the slot over in
both directions. -/
theorem C10_mpmc_race_free (K : Nat) (hK : 2 ≤ K) (o : Mpmc.L → Nat)
    (ho : ∀ l, Trace.orderOK ((Mpmc.binding K).reqOrder l) (o l) = true)
    (acts : List (Act (Mpmc.proto K))) (s : State (Mpmc.proto K)) (tr : Trace)
    (hrun : runH (Mpmc.hbSpec K o) (Mpmc.init K) acts = some (s, tr)) : ¬ Race tr :=
  Mpmc.race_free hK o (table_ge (C10_mpmc_need_le_req K) ho) acts s tr hrun

/-- **C10.2'** each of the six acquire/release orders of the MPMC ring is necessary. -/
theorem C10_mpmc_order_needed (c : Mpmc.Site) :
    ∃ acts s tr, runH (Mpmc.hbSpec 2 (Mpmc.reqBut 2 c)) (Mpmc.init 2) acts = some (s, tr) ∧
      Race tr := by
  cases c
  · exact ⟨_, Mpmc.needed_eLoadSeq⟩
  · exact ⟨_, Mpmc.needed_ePub⟩
  · exact ⟨_, Mpmc.needed_oLoadSeq⟩
  · exact ⟨_, Mpmc.needed_oPub⟩
  · exact ⟨_, Mpmc.needed_bSeq⟩
  · exact ⟨_, Mpmc.needed_bPub⟩

/-! ### AsyncRequest -/

theorem C10_asyncreq_need_le_req (l : AsyncReq.L) :
    ordGE (AsyncReq.need l) (AsyncReq.binding.reqOrder l) = true := by
  cases l <;> rfl

/-- **C10.3** AsyncRequest (any number of requesters, producers, consumers): no data race on the
stored object: it is emplaced before the state release-store and moved out after the acquiring
CAS, in both directions. -/
theorem C10_asyncreq_race_free (o : AsyncReq.L → Nat)
    (ho : ∀ l, Trace.orderOK (AsyncReq.binding.reqOrder l) (o l) = true)
    (acts : List (Act AsyncReq.proto)) (s : State AsyncReq.proto) (tr : Trace)
    (hrun : runH (AsyncReq.hbSpec o) AsyncReq.init acts = some (s, tr)) : ¬ Race tr :=
  AsyncReq.race_free o (table_ge C10_asyncreq_need_le_req ho) acts s tr hrun

/-- **C10.3'** the acquire of both claiming CASes and the release of both publishing stores are
necessary. -/
theorem C10_asyncreq_order_needed (c : AsyncReq.Site) :
    ∃ acts s tr, runH (AsyncReq.hbSpec (AsyncReq.reqBut c)) AsyncReq.init acts = some (s, tr) ∧
      Race tr := by
  cases c
  · exact ⟨_, AsyncReq.needed_teCas⟩
  · exact ⟨_, AsyncReq.needed_tePublish⟩
  · exact ⟨_, AsyncReq.needed_guCas⟩
  · exact ⟨_, AsyncReq.needed_guReset⟩

/-! ### CompletionEvent -/

theorem C10_event_need_le_req (l : Event.L) :
    ordGE (Event.needEv l) (Event.binding.reqOrder l) = true := by
  cases l <;> rfl

/-- **C10.4** CompletionEvent (`notify`, `wait`, `waitFor`/`waitUntil`, `completed`; futex parking,
time-outs and spurious wake-ups included): with one notifier that is the only writer of the client
data (writes before its `notify`), every thread that reads the data only after one of its calls
observed completion reads without a data race. -/
theorem C10_event_race_free (N : TId) (o : Event.L → Nat)
    (ho : ∀ l, Trace.orderOK (Event.binding.reqOrder l) (o l) = true)
    (acts : List (Act Event.evP)) (hok : ∀ a ∈ acts, Event.Notifier N a)
    (s : State Event.evP) (tr : Trace)
    (hrun : runH (Event.cSpec false Event.isEventEntry o) (Event.cinit false Event.isEventEntry 0) acts
      = some (s, tr)) : ¬ Race tr :=
  Event.race_free N o (table_ge C10_event_need_le_req ho) acts hok s tr hrun

/-- **C10.4'** the release of the notifying store and the acquire of each observing load are
necessary. -/
theorem C10_event_order_needed (c : Event.Site) :
    ∃ acts s tr, runH (Event.cSpec false Event.isEventEntry (Event.reqBut c))
        (Event.cinit false Event.isEventEntry 0) acts = some (s, tr) ∧
      (∀ a ∈ acts, Event.Notifier 0 a) ∧ Race tr := by
  have r := Event.wit_contract
  cases c
  · obtain ⟨s, tr, h1, h2⟩ := Event.needed_ntStore
    exact ⟨_, s, tr, h1, Event.notifier_of_notifierB r.1, h2⟩
  · obtain ⟨s, tr, h1, h2⟩ := Event.needed_wLoad
    exact ⟨_, s, tr, h1, Event.notifier_of_notifierB r.1, h2⟩
  · obtain ⟨s, tr, h1, h2⟩ := Event.needed_wfLoad0
    exact ⟨_, s, tr, h1, Event.notifier_of_notifierB r.2.1, h2⟩
  · obtain ⟨s, tr, h1, h2⟩ := Event.needed_wfLoad
    exact ⟨_, s, tr, h1, Event.notifier_of_notifierB r.2.2.2, h2⟩
  · obtain ⟨s, tr, h1, h2⟩ := Event.needed_cLoad
    exact ⟨_, s, tr, h1, Event.notifier_of_notifierB r.2.2.1, h2⟩

/-! ### Latch -/

theorem C10_latch_need_le_req (l : Event.L) :
    ordGE (Event.needLa l) (Event.binding.reqOrder l) = true := by
  cases l <;> rfl

/-- **C10.5** Latch (`count_down()`, `arrive_and_wait()`, `wait()`, `try_wait()`; futex parking
included): the participants `parts` (duplicate-free; the initial count is their number) each write
only data they own, only before their single decrement; every thread that reads data only after
one of its calls observed the count at zero (or reads its own data) reads without a data race. -/
theorem C10_latch_race_free (parts : List TId) (owner : Fld → TId) (hn : parts.Nodup)
    (o : Event.L → Nat) (ho : ∀ l, Trace.orderOK (Event.binding.reqOrder l) (o l) = true)
    (acts : List (Act Event.laP)) (hok : ∀ a ∈ acts, Event.Party parts owner a)
    (s : State Event.laP) (tr : Trace)
    (hrun : runH (Event.cSpec true Event.isLatchEntry o)
      (Event.cinit true Event.isLatchEntry parts.length) acts = some (s, tr)) : ¬ Race tr :=
  Event.latch_race_free parts owner hn o (table_ge C10_latch_need_le_req ho) acts hok s tr hrun

/-- **C10.5'** the acq_rel of the decrements, the release of the store of zero and the acquire of
the observing loads are necessary. -/
theorem C10_latch_order_needed (c : Event.LSite) :
    ∃ acts s tr, runH (Event.cSpec true Event.isLatchEntry (Event.lreqBut c))
        (Event.cinit true Event.isLatchEntry 1) acts = some (s, tr) ∧
      (∀ a ∈ acts, Event.Party [0] Event.own0 a) ∧ Race tr := by
  have r := Event.lwit_contract
  cases c
  · obtain ⟨s, tr, h1, h2⟩ := Event.lneeded_ntStore
    exact ⟨_, s, tr, h1, Event.party_of_partyB r.2.2.1, h2⟩
  · obtain ⟨s, tr, h1, h2⟩ := Event.lneeded_wLoad
    exact ⟨_, s, tr, h1, Event.party_of_partyB r.2.2.2, h2⟩
  · obtain ⟨s, tr, h1, h2⟩ := Event.lneeded_twLoad
    exact ⟨_, s, tr, h1, Event.party_of_partyB r.2.2.1, h2⟩
  · obtain ⟨s, tr, h1, h2⟩ := Event.lneeded_cdSub
    exact ⟨_, s, tr, h1, Event.party_of_partyB r.1, h2⟩
  · obtain ⟨s, tr, h1, h2⟩ := Event.lneeded_awSub
    exact ⟨_, s, tr, h1, Event.party_of_partyB r.2.1, h2⟩

/-! ### Chase-Lev deque: negative witnesses (no payload theorem) -/

/-- **C10.6** (negative) with the source's declared orders a thief's slot read that is later
discarded (its CAS fails) is concurrent with the owner's next write of the same slot: plain race
freedom of the element storage is false for the deque; the source hides the access from TSan. -/
theorem C10_chaselev_discarded_read_races :
    ∃ acts s tr, runH (ChaseLev.hbSpec 1) (ChaseLev.init 1) acts = some (s, tr) ∧ Race tr :=
  ⟨_, ChaseLev.discarded_read_races⟩

/-- **C10.6'** (negative) a thief that reads `bottom_` from the relaxed restoring store of
`try_pop` is not synchronised (C++20 release sequences) with the push that wrote the slot it then
reads, although its claiming CAS can still succeed. -/
theorem C10_chaselev_restore_store_races :
    ∃ acts s tr, runH (ChaseLev.hbSpec 1) (ChaseLev.init 1) acts = some (s, tr) ∧ Race tr :=
  ⟨_, ChaseLev.restore_store_races⟩

/-! ### non-vacuity: executions with payload accesses of two threads that the theorems cover -/

/-- SPSC, source table: a run in which slot 0 is written, moved out and written again; the trace
has 19 memory events, 5 of them plain slot accesses. -/
example : (runH (Spsc.hbSpec 2 (Spsc.binding 2).reqOrder) (Spsc.init 2) Spsc.reuse).map
    (fun p => (p.2.length, (p.2.filter Ev.isPlain).length)) = some (19, 5) := by decide

/-- AsyncRequest, source table: emplace / take / emplace again by three threads. -/
example : (runH (AsyncReq.hbSpec AsyncReq.binding.reqOrder) AsyncReq.init AsyncReq.round2).map
    (fun p => (p.2.length, (p.2.filter Ev.isPlain).length)) = some (10, 3) := by decide

end Dispenso
