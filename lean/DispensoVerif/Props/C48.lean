import DispensoVerif.Props.C12

/-!
# C48 — `maxThreads` bounds the number of loop tasks

`(plan c).tasks` = scheduled tasks + the caller when it takes part; each task runs one body
invocation at a time, so the bound limits the concurrency of body invocations.
`tailConcurrent = false`: the granularity tail is never run while scheduled chunks may still run.

History: the original `adjustChunkSizing` overwrote the thread budget with `size - wait` for an
explicit chunk size, `minItemsPerChunk ≤ 1` and a range no longer than `poolThreads + wait`
(`SmallExplicit`, `Proofs/ParFor.lean`), so `maxThreads` was not honoured there.  The repaired code
takes `min(maxThreads, size - wait)` and the bounds below hold for *every* configuration.  The old
behaviour is kept as a witness (`planOld`, counterexamples at the end).
-/
namespace Dispenso.ParFor
open Dispenso Dispenso.Chunk

/-- **C48** at most `max(maxThreads, 1)` loop tasks (as the code reads the option: uint32 → int32);
the tail never runs concurrently with scheduled chunks. -/
theorem C48_tasks_bound (c : Cfg) :
    (plan c).tasks ≤ max (clampMaxThreads c.maxThreads) 1 ∧ (plan c).tailConcurrent = false := by
  have hcl := clamp_pos c.maxThreads
  have e : max (clampMaxThreads c.maxThreads) 1 = clampMaxThreads c.maxThreads := by omega
  rw [e]
  apply plan_cases c (fun p => p.tasks ≤ clampMaxThreads c.maxThreads ∧ p.tailConcurrent = false)
  · intro _; exact ⟨by show (0 : Int) ≤ _; omega, rfl⟩
  · intro _; exact ⟨hcl, rfl⟩
  · intro g te ht mt st ctx _ _ _
    obtain ⟨_, _, s3, _⟩ := ctx.mapper
    have := adj_le_clamp c te
    rw [ctx.adj_eq] at this
    exact ⟨by show staticThreads _ _ _ _ ≤ _; dsimp only at this; omega, rfl⟩
  · intro g te ht mt st ctx _ _
    obtain ⟨_, _, s3, _⟩ := ctx.mapper
    have := adj_le_clamp c te
    rw [ctx.adj_eq] at this
    exact ⟨by show staticThreads _ _ _ _ ≤ _; dsimp only at this; omega, rfl⟩
  · intro g te ht mt st ctx _ _ hw
    obtain ⟨_, _, l3⟩ := toLaunch_spec c mt ctx.pool ctx.mt2
    have := adj_le_clamp c te
    rw [ctx.adj_eq] at this
    rw [hw] at l3
    have e1 : b2n true = 1 := rfl
    exact ⟨by show toLaunch c mt + 1 ≤ _; dsimp only at this; omega, rfl⟩
  · intro g te ht mt st ctx _ _
    obtain ⟨_, _, l3⟩ := toLaunch_spec c mt ctx.pool ctx.mt2
    have := adj_le_clamp c te
    rw [ctx.adj_eq] at this
    exact ⟨by show toLaunch c mt + b2n c.wait ≤ _; dsimp only at this; omega, rfl⟩

/-- **C48** with `maxThreads` 0 or 1 the loop runs serially on the caller. -/
theorem C48_serial (c : Cfg) (h : c.maxThreads = 0 ∨ c.maxThreads = 1) :
    (plan c).mode = .none ∨ (plan c).mode = .serial := by
  have hcl : clampMaxThreads c.maxThreads = 1 := by
    rcases h with h | h <;> rw [h] <;> decide
  have key : ∀ g te ht mt st, ParCtx c g te ht mt st → False := by
    intro g te ht mt st ctx
    have := adj_le_clamp c te
    rw [ctx.adj_eq, hcl] at this
    have := ctx.mt2
    dsimp only at *
    omega
  apply plan_cases c (fun p => p.mode = .none ∨ p.mode = .serial)
  · intro _; left; rfl
  · intro _; right; rfl
  · intro g te ht mt st ctx; exact (key _ _ _ _ _ ctx).elim
  · intro g te ht mt st ctx; exact (key _ _ _ _ _ ctx).elim
  · intro g te ht mt st ctx; exact (key _ _ _ _ _ ctx).elim
  · intro g te ht mt st ctx; exact (key _ _ _ _ _ ctx).elim

/-- **C48** never more loop tasks than pool threads + the caller (unconditional). -/
theorem C48_tasks_pool (c : Cfg) : (plan c).tasks ≤ (c.poolThreads : Int) + 1 := by
  apply plan_cases c (fun p => p.tasks ≤ (c.poolThreads : Int) + 1)
  · intro _; show (0 : Int) ≤ _; omega
  · intro _; show (1 : Int) ≤ _; omega
  · intro g te ht mt st ctx _ _ _
    exact ctx.mapper.2.2.2
  · intro g te ht mt st ctx _ _
    exact ctx.mapper.2.2.2
  · intro g te ht mt st ctx _ _ _
    obtain ⟨_, l2, _⟩ := toLaunch_spec c mt ctx.pool ctx.mt2
    show toLaunch c mt + 1 ≤ _; omega
  · intro g te ht mt st ctx _ _
    obtain ⟨_, l2, _⟩ := toLaunch_spec c mt ctx.pool ctx.mt2
    have := b2n_range c.wait
    show toLaunch c mt + b2n c.wait ≤ _; omega

/-- the tail is never concurrent (unconditional) -/
theorem C48_tail_not_concurrent (c : Cfg) : (plan c).tailConcurrent = false := by
  apply plan_cases c (fun p => p.tailConcurrent = false) <;> intros <;> rfl

/-! ### witness: the original sizing (`planOld`) ignored `maxThreads` for small explicit-chunk ranges -/

def exSmallExplicit (mt : Nat) : Cfg :=
  { ty := ⟨32, true⟩, start := 0, stop := 5, chunk := 1, maxThreads := mt, wait := false,
    minItemsPerChunk := 0, granularity := 1, poolThreads := 10, recursive := false }

/-- original code: 5 loop tasks although `maxThreads = 2` -/
example : SmallExplicit (exSmallExplicit 2) ∧ (planOld (exSmallExplicit 2)).tasks = 5 ∧
    ¬ (planOld (exSmallExplicit 2)).tasks ≤ max (clampMaxThreads (exSmallExplicit 2).maxThreads) 1 := by
  decide
/-- original code: `maxThreads = 1` did not run serially -/
example : SmallExplicit (exSmallExplicit 1) ∧ (planOld (exSmallExplicit 1)).mode = .dynamic ∧
    (planOld (exSmallExplicit 1)).tasks = 5 := by decide
/-- repaired code on the same configurations -/
example : (plan (exSmallExplicit 2)).tasks = 2 ∧ (plan (exSmallExplicit 2)).mode = .dynamic ∧
    (plan (exSmallExplicit 1)).mode = .serial ∧ (plan (exSmallExplicit 1)).tasks = 1 := by decide
/-- elsewhere the two agree, e.g. -/
example : (planOld exStaticTail).chunks = (plan exStaticTail).chunks ∧
    (planOld exStaticTail).tasks = (plan exStaticTail).tasks ∧
    (planOld exStripes).chunks = (plan exStripes).chunks ∧
    (planOld exStripes).tasks = (plan exStripes).tasks ∧
    (planOld exDynamic).chunks = (plan exDynamic).chunks ∧
    (planOld exDynamic).tasks = (plan exDynamic).tasks := by decide

/-! ### non-vacuity -/
example : (plan exStaticTail).tasks = 4 ∧
    clampMaxThreads exStaticTail.maxThreads = 8 := by decide
example : (plan exStripes).tasks = 3 ∧
    clampMaxThreads exStripes.maxThreads = 3 := by decide
example : (plan exDynamic).tasks = 3 ∧ clampMaxThreads exDynamic.maxThreads = 8 := by decide
example : exSerial.maxThreads = 1 ∧ (plan exSerial).mode = .serial := by decide
/-- uint32 → int32 conversion: 2^32 - 1 reads as -1, clamped to 1 -/
example : clampMaxThreads 4294967295 = 1 ∧ clampMaxThreads 2147483647 = 2147483647 := by decide

end Dispenso.ParFor
