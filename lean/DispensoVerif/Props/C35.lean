import DispensoVerif.Proofs.Spsc
/-
C35 — `dispenso::SPSCRingBuffer`: with one producer thread and one consumer thread, every
interleaving of the atomic operations of `try_push`/`try_push_batch`/`try_pop`/`try_pop_batch`
(plus the observers `empty`/`full`/`size` and the destructor's loads, by any thread) is FIFO:
the values moved out of slots are a prefix of the values written into slots, the ring never
holds more than `K - 1` elements, and a pop never returns a moved-from slot.
-/
namespace Dispenso.Spsc
open Dispenso.Conc

/-- FIFO, exactly-once, bounded occupancy, no moved-from value is ever popped. -/
theorem C35_fifo (K : Nat) (hK : 2 ≤ K) (P C : TId) (hPC : P ≠ C)
    (as : List (Act (proto K))) (s : State (proto K)) (evs : List Ev)
    (hr : Roles P C as) (h : runEvs (init K) as = some (s, evs)) :
    popped evs <+: pushed evs ∧ (pushed evs).length ≤ (popped evs).length + (K - 1) ∧
    ∀ v ∈ popped evs, 0 ≤ v := by
  obtain ⟨hA, tA, q, inv, hq, hp⟩ :=
    run_inv hPC as (init K) 0 0 [] (Inv.init (by omega)) hr s evs h
  simp only [List.nil_append] at hq
  refine ⟨⟨q, hq.symm⟩, ?_, hp⟩
  have := inv.qlen
  rw [hq, List.length_append]
  omega

/-- the sub-protocol without batch calls (a corollary of `C35_fifo`) -/
theorem C35_fifo_partial (K : Nat) (hK : 2 ≤ K) (P C : TId) (hPC : P ≠ C)
    (as : List (Act (proto K))) (s : State (proto K)) (evs : List Ev)
    (hr : Roles P C as)
    (_hnb : ∀ a ∈ as, ∀ t l, a = Act.call t l → (∀ vs, l ≠ L.bLoadT vs) ∧ (∀ m, l ≠ L.qLoadH m))
    (h : runEvs (init K) as = some (s, evs)) :
    popped evs <+: pushed evs ∧ (pushed evs).length ≤ (popped evs).length + (K - 1) ∧
    ∀ v ∈ popped evs, 0 ≤ v :=
  C35_fifo K hK P C hPC as s evs hr h

/-- head and tail stay valid slot indices in every reachable state (no role assumption). -/
theorem C35_indices_in_range (K : Nat) (hK : 1 ≤ K) (s : State (proto K))
    (hr : Reachable (init K) s) :
    0 ≤ s.mem 0 ∧ s.mem 0 < K ∧ 0 ≤ s.mem 1 ∧ s.mem 1 < K := by
  have inv : Inv0 K s :=
    invariant (Inv0 K) (Inv0.init hK) (fun s a s' i he => Inv0.step hK i a he) s hr
  exact ⟨inv.h0.1, inv.h0.2, inv.h1.1, inv.h1.2⟩

/-- `try_push` after loading `head` rejects (returns 0 without writing) iff the ring is full:
`inc tail = head`; otherwise it goes on to write slot `tail`. -/
theorem C35_push_reject_iff_full (K : Nat) (s s' : State (proto K)) (p : TId) (v t : Int)
    (hl : s.loc p = L.pLoadH v t) (he : exec s (.step p) = some s') :
    (s'.loc p = L.done [0] ↔ inc K t = s.mem 0) ∧
    (s'.loc p = L.pWrite v t ↔ inc K t ≠ s.mem 0) ∧ s'.mem = s.mem := by
  have hp : s.parked p = none := by
    apply Classical.byContradiction; intro hne
    simp [exec, hne] at he
  rw [(exec_step_load s p 0 hp (by rw [hl]; rfl)).1] at he
  cases he
  rw [hl, setLoc_loc_self]
  refine ⟨?_, ?_, rfl⟩
  · by_cases hc : inc K t = s.mem 0
    · rw [show (proto K).cont (L.pLoadH v t) (s.mem 0) = L.done [0] from if_pos hc]; simp [hc] <;> rfl
    · rw [show (proto K).cont (L.pLoadH v t) (s.mem 0) = L.pWrite v t from if_neg hc]; simp [hc] <;> rfl
  · by_cases hc : inc K t = s.mem 0
    · rw [show (proto K).cont (L.pLoadH v t) (s.mem 0) = L.done [0] from if_pos hc]; simp [hc] <;> rfl
    · rw [show (proto K).cont (L.pLoadH v t) (s.mem 0) = L.pWrite v t from if_neg hc]; simp [hc] <;> rfl

/-- `try_pop` after loading `tail` rejects (returns 0 without taking) iff the ring is empty:
`head = tail`; otherwise it goes on to take slot `head`. -/
theorem C35_pop_reject_iff_empty (K : Nat) (s s' : State (proto K)) (c : TId) (h : Int)
    (hl : s.loc c = L.cLoadT h) (he : exec s (.step c) = some s') :
    (s'.loc c = L.done [0] ↔ h = s.mem 1) ∧
    (s'.loc c = L.cTake h ↔ h ≠ s.mem 1) ∧ s'.mem = s.mem := by
  have hp : s.parked c = none := by
    apply Classical.byContradiction; intro hne
    simp [exec, hne] at he
  rw [(exec_step_load s c 1 hp (by rw [hl]; rfl)).1] at he
  cases he
  rw [hl, setLoc_loc_self]
  refine ⟨?_, ?_, rfl⟩
  · by_cases hc : h = s.mem 1
    · rw [show (proto K).cont (L.cLoadT h) (s.mem 1) = L.done [0] from if_pos hc]; simp [hc] <;> rfl
    · rw [show (proto K).cont (L.cLoadT h) (s.mem 1) = L.cTake h from if_neg hc]; simp [hc] <;> rfl
  · by_cases hc : h = s.mem 1
    · rw [show (proto K).cont (L.cLoadT h) (s.mem 1) = L.done [0] from if_pos hc]; simp [hc] <;> rfl
    · rw [show (proto K).cont (L.cLoadT h) (s.mem 1) = L.cTake h from if_neg hc]; simp [hc] <;> rfl

/-! ### non-vacuity: a concrete run for K = 3, producer 1, consumer 2 -/

/-- push 7, push 8 (thread 1), pop (thread 2) -/
def demoActs : List (Act (proto 3)) :=
  [.call 1 (L.pLoadT 7), .step 1, .step 1, .step 1, .step 1,
   .call 1 (L.pLoadT 8), .step 1, .step 1, .step 1, .step 1,
   .call 2 L.cLoadH, .step 2, .step 2, .step 2, .step 2]

example : (runEvs (init 3) demoActs).map (fun p => (pushed p.2, popped p.2)) =
    some ([7, 8], [7]) := by decide

example : Roles 1 2 demoActs := by
  intro a ha t l e
  subst e
  simp [demoActs] at ha
  rcases ha with ⟨rfl, rfl⟩ | ⟨rfl, rfl⟩ | ⟨rfl, rfl⟩ <;> simp [isPushCall, isPopCall]

/-- batch variant: `try_push_batch [5, 6, 7]` stores only 2 (capacity), `try_pop_batch 5` takes 2 -/
def demoBatch : List (Act (proto 3)) :=
  [.call 1 (L.bLoadT [5, 6, 7]), .step 1, .step 1, .step 1, .step 1, .step 1,
   .call 2 (L.qLoadH 5), .step 2, .step 2, .step 2, .step 2, .step 2]

example : (runEvs (init 3) demoBatch).map (fun p => (pushed p.2, popped p.2, (p.1.loc 1 : L), (p.1.loc 2 : L))) =
    some ([5, 6], [5, 6], L.done [2], L.done [2, 5, 6]) := by decide

/-- the consumer may interleave with an unfinished batch push and only sees published slots -/
def demoInterleaved : List (Act (proto 3)) :=
  [.call 1 (L.bLoadT [5, 6]), .step 1, .step 1, .step 1,
   .call 2 L.cLoadH, .step 2, .step 2,
   .step 1, .step 1,
   .call 2 L.cLoadH, .step 2, .step 2, .step 2, .step 2]

example : (runEvs (init 3) demoInterleaved).map
    (fun p => (pushed p.2, popped p.2, (p.1.loc 1 : L), (p.1.loc 2 : L))) =
    some ([5, 6], [5], L.done [2], L.done [1, 5]) := by decide

end Dispenso.Spsc
