import DispensoVerif.Proofs.ParInvoke

/-!
# C16 — `parallel_invoke` runs each functor exactly once

Model: `Model/ParInvoke.lean` (the recursion of `parallel_invoke.h` over an abstract task set:
`schedule(f, skipRecheck)` either runs `f` inline or packages it as a task that is executed exactly
once; `wait()` returns when no task is outstanding).  A program is an arbitrary, arbitrarily deep
tree `P` of `parallel_invoke` calls (`P p` functors at node `p`; the children of a node are the
functors of the call it makes; the root is the top-level call site).  `Reachable P s` quantifies
over every interleaving of the calling thread and any number of executing threads, and over every
choice between inline execution and queuing at every `schedule`.

* `C16_at_most_once`  no functor is ever invoked twice.
* `C16_return`        when a `parallel_invoke` call has returned, its last functor has been invoked
                      exactly once, on the calling thread, not as a task, and has returned; every
                      other functor has been invoked inline or handed to the task set.
* `C16_wait`          when the task set's `wait()` has returned, every functor of the whole tree —
                      any arity `n ≥ 1`, any depth — has been invoked exactly once and has finished.
-/
namespace Dispenso.ParInvoke

/-- **C16** no functor is invoked more than once, at any time, under any interleaving. -/
theorem C16_at_most_once (P : Path → Nat) (s : St) (r : Reachable P s) (p : Path) (i : Nat) :
    s.count (p ++ [i]) ≤ 1 ∧
    (s.count (p ++ [i]) = 1 ↔ (s.status (p ++ [i]) = .running ∨ s.status (p ++ [i]) = .finished)) := by
  have h := inv_reachable r
  rw [h.cnt p i]
  split_ifs with hc
  · exact ⟨Nat.le_refl _, fun _ => hc, fun _ => rfl⟩
  · exact ⟨Nat.zero_le _, fun x => absurd x (by decide), fun x => absurd x hc⟩

/-- **C16** when the `parallel_invoke` call of node `p` (`n = P p ≥ 1` functors) has returned: the
last functor was invoked exactly once, directly on the calling thread (`thr`, not as a task) and has
finished; each of the others has been invoked inline or handed to the task set, none more than once. -/
theorem C16_return (P : Path → Nat) (s : St) (r : Reachable P s) (p : Path)
    (hf : s.status p = .finished) (hn : 1 ≤ P p) :
    s.status (p ++ [P p - 1]) = .finished ∧ s.count (p ++ [P p - 1]) = 1 ∧
    s.thr (p ++ [P p - 1]) = s.thr p ∧ s.asTask (p ++ [P p - 1]) = false ∧
    (∀ i, i < P p → s.status (p ++ [i]) ≠ .untouched ∧ s.count (p ++ [i]) ≤ 1) ∧
    (∀ i, i + 1 < P p → s.status (p ++ [i]) = .queued ∨ s.count (p ++ [i]) = 1) := by
  have h := inv_reachable r
  obtain ⟨hk, hin⟩ := h.fin p hf
  obtain ⟨l1, l2⟩ := h.lastc p hk hn
  have htouched : ∀ i, i < P p → s.status (p ++ [i]) ≠ .untouched := by
    intro i hi; exact (h.child p i).mp (by omega)
  have hlast : s.status (p ++ [P p - 1]) = .finished := by
    have ht := htouched (P p - 1) (by omega)
    cases hs : s.status (p ++ [P p - 1]) with
    | untouched => exact absurd hs ht
    | queued => have := h.qidx p _ hs; omega
    | running => have := h.inlc p _ hs l1; rw [hin] at this; cases this
    | finished => rfl
  refine ⟨hlast, ?_, l2, l1, ?_, ?_⟩
  · rw [h.cnt p _, hlast, if_pos (Or.inr rfl)]
  · intro i hi
    exact ⟨htouched i hi, (C16_at_most_once P s r p i).1⟩
  · intro i hi
    have ht := htouched i (by omega)
    rw [h.cnt p i]
    cases hs : s.status (p ++ [i]) with
    | untouched => exact absurd hs ht
    | queued => left; rfl
    | running => right; rw [if_pos (Or.inl rfl)]
    | finished => right; rw [if_pos (Or.inr rfl)]

/-- when `wait()` has returned, every node of the tree has finished -/
theorem finished_of_waited (P : Path → Nat) (s : St) (r : Reachable P s) (hw : s.waited = true)
    (p : Path) (ht : InTree P p) : s.status p = .finished := by
  have h := inv_reachable r
  induction ht with
  | root =>
    rcases h.root with h1 | h1
    · exact absurd h1 (h.wt hw []).1
    · exact h1
  | @child q i _ hi ih =>
    obtain ⟨hk, _⟩ := h.fin q ih
    have ht := (h.child q i).mp (by omega)
    obtain ⟨w1, w2⟩ := h.wt hw (q ++ [i])
    cases hs : s.status (q ++ [i]) with
    | untouched => exact absurd hs ht
    | queued => exact absurd hs w2
    | running => exact absurd hs w1
    | finished => rfl

/-- **C16** once the task set's `wait()` has returned, every functor of the program — every arity,
every depth of recursive use — has been invoked exactly once and has finished. -/
theorem C16_wait (P : Path → Nat) (s : St) (r : Reachable P s) (hw : s.waited = true)
    (p : Path) (i : Nat) (ht : InTree P p) (hi : i < P p) :
    s.status (p ++ [i]) = .finished ∧ s.count (p ++ [i]) = 1 := by
  have hf := finished_of_waited P s r hw (p ++ [i]) (.child i ht hi)
  refine ⟨hf, ?_⟩
  rw [(inv_reachable r).cnt p i, hf, if_pos (Or.inr rfl)]

/-- **C16** a flat call `parallel_invoke(tasks, f_0, …, f_{n-1})`, `n ≥ 1`: after it has returned and
`wait()` has returned each `f_i` has run exactly once, `f_{n-1}` on the caller. -/
theorem C16_flat (n : Nat) (hn : 1 ≤ n) (s : St)
    (r : Reachable (fun p => if p = [] then n else 0) s) (hw : s.waited = true) :
    (∀ i, i < n → s.count [i] = 1 ∧ s.status [i] = .finished) ∧ s.thr [n - 1] = s.thr [] ∧
    s.asTask [n - 1] = false := by
  have hroot := finished_of_waited _ s r hw [] .root
  constructor
  · intro i hi
    have := C16_wait _ s r hw [] i .root (by rw [if_pos rfl]; exact hi)
    exact ⟨this.2, this.1⟩
  · have := C16_return _ s r [] hroot (by rw [if_pos rfl]; exact hn)
    rw [if_pos rfl] at this
    exact ⟨this.2.2.1, this.2.2.2.1⟩

/-! ### non-vacuity: concrete interleavings -/

/-- `parallel_invoke(f0, f1, f2)` where `f0` itself calls `parallel_invoke(g0, g1)` -/
def exProg : Path → Nat := fun p => if p = [] then 3 else if p = [0] then 2 else 0

/-- `f0` queued and taken by thread 7, which queues `g0` and runs `g1` inline; `f1` runs inline in the
caller's `schedule`; `f2` is the last functor; the caller executes `g0` itself inside `wait()` -/
def exRun : List Act :=
  [.queue [], .take [0] 7, .runInline [], .queue [0], .runInline [0], .finishInline [], .runInline [],
   .finishInline [0], .finishInline [], .finishTask [0], .finishTask [], .take [0, 0] 0, .finishTask [0, 0], .waitDone]

example : ((run exProg St.init exRun).map fun s =>
    (s.waited, [s.count [0], s.count [1], s.count [2], s.count [0, 0], s.count [0, 1]])) =
    some (true, [1, 1, 1, 1, 1]) := by decide
example : ((run exProg St.init exRun).map fun s =>
    ([s.thr [2], s.thr [0], s.thr [0, 1]], s.asTask [0], s.asTask [2])) =
    some ([0, 7, 7], true, false) := by decide
/-- `wait()` cannot return while the task `g0` is outstanding -/
example : ((run exProg St.init (exRun.take 11 ++ [.waitDone])).map fun s => s.waited) = none := by decide
/-- the last functor cannot be queued, and a functor cannot be taken twice -/
example : ((run exProg St.init [.runInline [], .finishInline [], .runInline [], .finishInline [], .queue []]).map
    fun s => s.waited) = none := by decide
example : ((run exProg St.init [.queue [], .take [0] 1, .take [0] 2]).map fun s => s.waited) = none := by decide
example : InTree exProg [0, 1] := .child 1 (.child 0 .root (by decide)) (by decide)

end Dispenso.ParInvoke
