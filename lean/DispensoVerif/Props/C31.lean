import DispensoVerif.Proofs.GraphFwd
import DispensoVerif.Proofs.GraphBi
import DispensoVerif.Props.C30
/-
C31 — `ForwardPropagator`, `setAllNodesIncomplete` and partial re-evaluation.
`Reach g id`: `id` is reachable along `edges g` from a node that is incomplete in `g`.
-/
namespace Dispenso.Graph
open List

/-- Plain graphs: after `forwardPropagate` the incomplete set is exactly the forward-dependency
    closure of the nodes marked incomplete, and the state is consistent and closed.
    (No assumption on the `inc` values of `g`; `numPred` is not used either.) -/
theorem C31_propagate (g : G) (hw : WF g) (hb : EdgeBound g) (hbp : g.biProp = false) :
    let g' := forwardPropagate g
    (∀ id ∈ allNodes g, (¬ completed (g'.node id) = true ↔ Reach g id)) ∧
    Consistent g' ∧ Closed g' ∧ SameShape g g' :=
  forwardPropagate_plain g hw hb hbp

theorem Acyclic.of_sameShape {g g' : G} (hs : SameShape g g') (ha : Acyclic g) : Acyclic g' := by
  obtain ⟨r, hr⟩ := ha
  exact ⟨r, fun p d he => hr p d (hs.edges ▸ he)⟩

/-- `setIncomplete`, `execute`, `forwardPropagate`, `setAllNodesIncomplete` only change `inc` fields
    (`SameShape`); all structural hypotheses used in C30/C31 transfer along `SameShape`, so the
    theorems chain (build → execute → mark → propagate → execute …). -/
theorem C31_setIncomplete_shape (g : G) (id : Nat) : SameShape g (setIncomplete g id) := by
  unfold setIncomplete
  by_cases h : completed (g.node id) = true
  · simp only [h, if_true]
    exact sameShape_setInc g id 0
  · simp only [h]
    exact SameShape.refl g

theorem C31_invariants_sameShape {g g' : G} (hs : SameShape g g') :
    (WF g → WF g') ∧ (PredOK g → PredOK g') ∧ (EdgeBound g → EdgeBound g') ∧
    (Acyclic g → Acyclic g') ∧ (SetsOK g → SetsOK g') := by
  refine ⟨WF.of_sameShape hs, ?_, ?_, Acyclic.of_sameShape hs, SetsOK.of_sameShape hs⟩
  · intro hp n hn
    rw [hs.alive] at hn
    unfold indeg
    rw [hs.numPred, hs.edges]
    exact hp n hn
  · intro hb
    unfold EdgeBound
    rw [hs.edges]; exact hb

/-- partial re-evaluation: exactly the forward closure of the marked nodes runs, in dependency
    order, and everything ends complete -/
theorem C31_reexecute (g : G) (hw : WF g) (hb : EdgeBound g) (hbp : g.biProp = false)
    (ha : Acyclic g) :
    let r := execute (forwardPropagate g)
    (∀ id, id ∈ r.2 ↔ (id ∈ allNodes g ∧ Reach g id)) ∧ r.2.Nodup ∧
    (∀ p d, (p, d) ∈ edges g → p ∈ r.2 → d ∈ r.2 → r.2.idxOf p < r.2.idxOf d) ∧
    (∀ id ∈ allNodes g, completed (r.1.node id) = true) := by
  obtain ⟨h1, hc, hcl, hs⟩ := forwardPropagate_plain g hw hb hbp
  obtain ⟨e1, e2, e3, e4, _⟩ := execute_spec (forwardPropagate g) hc (Or.inr hcl)
    (Acyclic.of_sameShape hs ha)
  rw [hs.allNodes] at e1 e4
  rw [hs.edges] at e3
  refine ⟨?_, e2, e3, e4⟩
  intro id
  rw [e1 id]
  constructor
  · rintro ⟨h2, h3⟩; exact ⟨h2, (h1 id h2).1 h3⟩
  · rintro ⟨h2, h3⟩; exact ⟨h2, (h1 id h2).2 h3⟩

/-- full re-evaluation: after `setAllNodesIncomplete` every live node runs -/
theorem C31_setAll_full (g : G) (hw : WF g) (hp : PredOK g) (hb : EdgeBound g) (ha : Acyclic g) :
    let r := execute (setAllNodesIncomplete g)
    (∀ id, id ∈ r.2 ↔ id ∈ allNodes g) ∧ r.2.Nodup ∧
    (∀ p d, (p, d) ∈ edges g → r.2.idxOf p < r.2.idxOf d) ∧
    (∀ id ∈ allNodes g, completed (r.1.node id) = true) := by
  obtain ⟨hc, hcl, hall, hs⟩ := setAll_spec g hw hp hb
  obtain ⟨e1, e2, e3, e4, _⟩ := execute_spec (setAllNodesIncomplete g) hc (Or.inr hcl)
    (Acyclic.of_sameShape hs ha)
  rw [hs.allNodes] at e1 e4
  rw [hs.edges] at e3
  have hmem : ∀ id, id ∈ (execute (setAllNodesIncomplete g)).2 ↔ id ∈ allNodes g := by
    intro id
    rw [e1 id]
    constructor
    · exact fun h => h.1
    · intro h
      refine ⟨h, hall id ?_⟩
      rw [hs.alive]; exact (hw.mem_all id).1 h
  refine ⟨hmem, e2, ?_, e4⟩
  intro p d he
  have hpl := (mem_edges.1 he).1
  have hdl := hw.deps_live p d he
  exact e3 p d he ((hmem p).2 ((hw.mem_all p).2 hpl)) ((hmem d).2 ((hw.mem_all d).2 hdl))

/-- BiProp graphs (`SetsOK`: the set lists and the nodes' set pointers agree): the incomplete set
    afterwards is the forward closure together with every member of a bidirectional-propagation
    set that meets the closure (`SetTouched`); the state is consistent. `Closed` can fail (a set
    member made incomplete whose dependents stay complete, see `triBi` below); what holds is that
    every dependent of a node of the forward closure is incomplete. -/
theorem C31_propagate_biprop (g : G) (hw : WF g) (hb : EdgeBound g) (hs : SetsOK g)
    (hbp : g.biProp = true) :
    let g' := forwardPropagate g
    (∀ id ∈ allNodes g, (¬ completed (g'.node id) = true ↔ (Reach g id ∨
      ∃ s, (g.node id).biSet = some s ∧ ∃ m, Reach g m ∧ (g.node m).biSet = some s))) ∧
    Consistent g' ∧
    (∀ p d, (p, d) ∈ edges g → Reach g p → ¬ completed (g'.node d) = true) ∧
    SameShape g g' :=
  forwardPropagate_biprop g hw hb hs hbp

/-- partial re-evaluation of a BiProp graph: exactly the closure and the touched set members run,
    in dependency order -/
theorem C31_reexecute_biprop (g : G) (hw : WF g) (hb : EdgeBound g) (hs : SetsOK g)
    (hbp : g.biProp = true) (ha : Acyclic g) :
    let r := execute (forwardPropagate g)
    (∀ id, id ∈ r.2 ↔ (id ∈ allNodes g ∧ (Reach g id ∨ SetTouched g id))) ∧ r.2.Nodup ∧
    (∀ p d, (p, d) ∈ edges g → p ∈ r.2 → d ∈ r.2 → r.2.idxOf p < r.2.idxOf d) ∧
    (∀ id ∈ allNodes g, completed (r.1.node id) = true) := by
  obtain ⟨h1, hc, _, hsh⟩ := forwardPropagate_biprop g hw hb hs hbp
  obtain ⟨e1, e2, e3, e4, _⟩ := execute_spec (forwardPropagate g) hc
    (Or.inl (by rw [hsh.biProp]; exact hbp)) (Acyclic.of_sameShape hsh ha)
  rw [hsh.allNodes] at e1 e4
  rw [hsh.edges] at e3
  refine ⟨?_, e2, e3, e4⟩
  intro id
  rw [e1 id]
  constructor
  · rintro ⟨h2, h3⟩; exact ⟨h2, (h1 id h2).1 h3⟩
  · rintro ⟨h2, h3⟩; exact ⟨h2, (h1 id h2).2 h3⟩

/-- the set bookkeeping invariant is preserved by every graph operation -/
theorem C31_sets_ok (g : G) (hs : SetsOK g) :
    SetsOK (addSubgraph g).1 ∧ (∀ sub, SetsOK (addNode g sub).1) ∧
    (∀ n p, (g.node n).alive = true → (g.node p).alive = true → SetsOK (dependsOn g n p)) ∧
    (∀ n p, (g.node n).alive = true → (g.node p).alive = true →
      SetsOK (biPropDependsOn g n p)) ∧
    (∀ sub, WF g → PredOK g → EdgeBound g → SetsOK (clearSubgraph g sub)) :=
  ⟨hs.addSubgraph, fun sub => hs.addNode sub, fun n p hn hp => hs.dependsOn n p hn hp,
    fun n p hn hp => (biPropDependsOn_spec g n p hs hn hp).sets,
    fun sub hw hp hb => (clear_res g sub hw hp hb).setsOK hs⟩

theorem C31_sets_ok_init (b : Bool) : SetsOK (G.init b) := SetsOK.init b

theorem C31_sets_ok_built (b : Bool) (g : G) (h : Built b g) : SetsOK g := h.setsOK

/-- after `n.biPropDependsOn(p)` both nodes are in one set, together with all former members of
    both sets (every member is repointed); apart from the set bookkeeping the graph is
    `dependsOn g n p` -/
theorem C31_sets_merge (g : G) (n p : Nat) (hs : SetsOK g) (hn : (g.node n).alive = true)
    (hp : (g.node p).alive = true) :
    let g2 := biPropDependsOn g n p
    SameCore (dependsOn g n p) g2 ∧
    ∃ s, (g2.node n).biSet = some s ∧ (g2.node p).biSet = some s ∧
      n ∈ g2.biSets.getD s [] ∧ p ∈ g2.biSets.getD s [] ∧
      ∀ s0 i, ((g.node n).biSet = some s0 ∨ (g.node p).biSet = some s0) →
        i ∈ g.biSets.getD s0 [] → ((g2.node i).biSet = some s ∧ i ∈ g2.biSets.getD s []) := by
  have h := biPropDependsOn_spec g n p hs hn hp
  obtain ⟨s, h1, h2, h3⟩ := h.same
  have hal : ∀ i, ((biPropDependsOn g n p).node i).alive = (g.node i).alive := by
    intro i
    rw [h.core.alive, dependsOn_node g n p i (lt_of_alive hn) (lt_of_alive hp)]
  refine ⟨h.core, s, h1, h2, h.sets.mem_of n s (by rw [hal]; exact hn) h1,
    h.sets.mem_of p s (by rw [hal]; exact hp) h2, ?_⟩
  intro s0 i h0 hi
  have h4 := h3 s0 i h0 hi
  exact ⟨h4, h.sets.mem_of i s (by rw [hal]; exact (hs.of_mem s0 i hi).1) h4⟩

/-! ### concrete instances (the diamond of C30: N4=0, N1=1, N3=2, N0=3, N2=4) -/

/-- mark N1 after a full run, propagate, execute: exactly N1 and N4 run -/
example : (execute (forwardPropagate (setIncomplete (execute (diamond false)).1 1))).2 = [1, 0] := by
  decide
/-- mark N0: N0, N1, N4 -/
example : (execute (forwardPropagate (setIncomplete (execute (diamond false)).1 3))).2 = [3, 1, 0] := by
  decide
/-- nothing marked: nothing runs -/
example : (execute (forwardPropagate (execute (diamond false)).1)).2 = [] := by decide

/-- BiProp: 0→1 bidirectional (set {0,1}), 0→2 plain -/
def triBi : G :=
  let g := (addNode (addNode (addNode (G.init true) 0).1 0).1 0).1
  dependsOn (biPropDependsOn g 1 0) 2 0

example : (execute triBi).2 = [0, 1, 2] := by decide
/-- mark 1: its set-mate 0 becomes incomplete too, 2 stays complete (so `Closed` fails) -/
example : (forwardPropagate (setIncomplete (execute triBi).1 1)).nodes.map
    (fun n => completed n) = [false, false, true] := by decide
example : (execute (forwardPropagate (setIncomplete (execute triBi).1 1))).2 = [0, 1] := by decide

end Dispenso.Graph
