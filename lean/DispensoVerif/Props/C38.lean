import DispensoVerif.Proofs.SmallVec
/-
C38 — `dispenso::SmallVector<T, N>`: a vector with `N` inline slots that moves to a heap buffer
when it grows beyond them.  For every sequence of constructions, copies, moves, assignments,
`push_back`/`pop_back`/`resize`/`reserve`/`clear`/`erase` calls and destructions, and for every
inline capacity `N`,
* every element object constructed is destroyed exactly once and every heap buffer allocated is
  freed exactly once — `C38_ledger`, `C38_all_destroyed`;
* (for `N ≥ 1`) the size never exceeds the capacity of the storage in use, and inline vectors have
  capacity `N` — `C38_capacity`;
* each operation has the `std::vector` semantics — `C38_sem_*` (facts about the contents after
  one `step`, for every state satisfying the id-uniqueness invariant `WF`, which every reachable
  state satisfies: `C38_wf_reachable`, `C38_wf_step`);
* element addresses are aligned when the buffer is — `C38_elem_aligned`.
-/
namespace Dispenso.SmallVec

/-! ### ledger -/

/-- live element objects = sum of the sizes; heap buffers outstanding = vectors on the heap -/
theorem C38_ledger (N : Nat) (ops : List Op) :
    let s := runOps (St.init N) ops
    s.live = totalItems s ∧ s.heapBlocks = heapVecs s := by
  intro s
  have h := Led.pres_runOps (WF.init N) (Led.init N) ops
  exact ⟨by rw [totalItems_eq]; exact h.live, by rw [heapVecs_eq]; exact h.heap⟩

/-- once every vector has been destroyed, no element is alive and no heap buffer outstanding -/
theorem C38_all_destroyed (N : Nat) (ops : List Op) (h : (runOps (St.init N) ops).vecs = []) :
    (runOps (St.init N) ops).live = 0 ∧ (runOps (St.init N) ops).heapBlocks = 0 := by
  obtain ⟨h1, h2⟩ := C38_ledger N ops
  rw [h1, h2, totalItems, heapVecs, h]
  exact ⟨rfl, rfl⟩

/-! ### capacity -/

/-- sizes stay within the capacity of the storage in use; inline vectors have capacity `N` -/
theorem C38_capacity (N : Nat) (hN : 1 ≤ N) (ops : List Op) :
    ∀ p ∈ (runOps (St.init N) ops).vecs,
      p.2.items.length ≤ p.2.cap ∧ (p.2.heap = false → p.2.cap = N) := by
  intro p hp
  have h := (Cap.pres_runOps hN (Cap.init N) ops).ok p hp
  exact ⟨h.1, h.2.1⟩

/-- the inline capacity never changes -/
theorem C38_N_const (N : Nat) (ops : List Op) : (runOps (St.init N) ops).N = N := by
  suffices h : ∀ s : St, (runOps s ops).N = s.N from h (St.init N)
  induction ops with
  | nil => intro s; rfl
  | cons o os ih => intro s; rw [runOps_cons, ih, stepSt_N]

/-! ### well-formedness of reachable states -/

theorem C38_wf_init (N : Nat) : WF (St.init N) := WF.init N

theorem C38_wf_step (s : St) (h : WF s) (op : Op) : WF (step s op).1 := by
  rw [step_fst]; exact h.pres_stepSt op

theorem C38_wf_reachable (N : Nat) (ops : List Op) : WF (runOps (St.init N) ops) :=
  (WF.init N).pres_runOps ops

/-! ### vector semantics, operation by operation -/

/-- the contents of vector `o`, if it exists -/
def itemsOf (s : St) (o : Nat) : Option (List Int) := (get s o).map (·.items)

/-- `SmallVector()`: the new vector `s.next` is empty -/
theorem C38_sem_mk (s : St) (h : WF s) : itemsOf (step s .mk).1 s.next = some [] := by
  have hnx : lk s.vecs s.next = none := h.get_next
  rw [step_fst]
  simp [stepSt, itemsOf, get_eq, lk_append, lk_cons, hnx]

/-- `SmallVector(n, x)`: the new vector `s.next` holds `n` copies of `x` -/
theorem C38_sem_mkCount (s : St) (h : WF s) (n : Nat) (x : Int) :
    itemsOf (step s (.mkCount n x)).1 s.next = some (List.replicate n x) := by
  have hnx : lk s.vecs s.next = none := h.get_next
  rw [step_fst]
  simp [stepSt, itemsOf, get_eq, lk_append, lk_cons, hnx, resizeVec_items]

/-- copy construction: the new vector has the source's contents; the source is unchanged -/
theorem C38_sem_copyCtor (s : St) (h : WF s) (src : Nat) (sv : Vec) (hsrc : get s src = some sv) :
    itemsOf (step s (.copyCtor src)).1 s.next = some sv.items ∧
    get (step s (.copyCtor src)).1 src = some sv := by
  have hnx : lk s.vecs s.next = none := h.get_next
  have hsrc' : lk s.vecs src = some sv := hsrc
  rw [step_fst]
  simp only [stepSt, hsrc, itemsOf]
  constructor
  · simp [get_eq, lk_append, lk_cons, hnx, copyP_items]
  · simp [get_eq, lk_append, hsrc']

/-- move construction: the new vector has the source's contents; the source is left empty -/
theorem C38_sem_moveCtor (s : St) (h : WF s) (src : Nat) (sv : Vec) (hsrc : get s src = some sv) :
    itemsOf (step s (.moveCtor src)).1 s.next = some sv.items ∧
    itemsOf (step s (.moveCtor src)).1 src = some [] := by
  have hnx : lk s.vecs s.next = none := h.get_next
  have hsrc' : lk s.vecs src = some sv := hsrc
  have hne : s.next ≠ src := by
    intro e; rw [← e, hnx] at hsrc'; cases hsrc'
  rw [step_fst]
  simp only [stepSt, hsrc, itemsOf]
  constructor
  · simp [get_eq, lk_append, lk_cons, lk_upd_ne _ _ _ _ hne, hnx, moveFrom_fst_items]
  · simp [get_eq, lk_append, lk_upd_self, hsrc', moveFrom_snd]

/-- copy assignment (`dst ≠ src`): `dst` takes the source's contents; the source is unchanged -/
theorem C38_sem_copyAssign (s : St) (dst src : Nat) (dv sv : Vec) (hne : dst ≠ src)
    (hdst : get s dst = some dv) (hsrc : get s src = some sv) :
    itemsOf (step s (.copyAssign dst src)).1 dst = some sv.items ∧
    get (step s (.copyAssign dst src)).1 src = some sv := by
  have hdst' : lk s.vecs dst = some dv := hdst
  have hsrc' : lk s.vecs src = some sv := hsrc
  rw [step_fst]
  simp only [stepSt, hdst, hsrc, if_neg hne, itemsOf]
  constructor
  · simp [get_eq, lk_upd_self, hdst', copyP_items]
  · simp [get_eq, lk_upd_ne _ _ _ _ (Ne.symm hne), hsrc']

/-- move assignment (`dst ≠ src`): `dst` takes the source's contents; the source is left empty -/
theorem C38_sem_moveAssign (s : St) (dst src : Nat) (dv sv : Vec) (hne : dst ≠ src)
    (hdst : get s dst = some dv) (hsrc : get s src = some sv) :
    itemsOf (step s (.moveAssign dst src)).1 dst = some sv.items ∧
    itemsOf (step s (.moveAssign dst src)).1 src = some [] := by
  have hdst' : lk s.vecs dst = some dv := hdst
  have hsrc' : lk s.vecs src = some sv := hsrc
  rw [step_fst]
  simp only [stepSt, hdst, hsrc, if_neg hne, itemsOf]
  constructor
  · simp [get_eq, lk_upd_self, lk_upd_ne _ _ _ _ hne, hdst', moveFrom_fst_items]
  · simp [get_eq, lk_upd_self, lk_upd_ne _ _ _ _ (Ne.symm hne), hsrc', moveFrom_snd]

/-- self copy-assignment leaves the whole state unchanged -/
theorem C38_sem_copyAssign_self (s : St) (o : Nat) : (step s (.copyAssign o o)).1 = s := by
  rw [step_fst]; simp only [stepSt]
  split
  · simp
  · rfl

/-- self move-assignment leaves the whole state unchanged -/
theorem C38_sem_moveAssign_self (s : St) (o : Nat) : (step s (.moveAssign o o)).1 = s := by
  rw [step_fst]; simp only [stepSt]
  split
  · simp
  · rfl

/-- `push_back(x)` appends `x` -/
theorem C38_sem_pushBack (s : St) (o : Nat) (x : Int) (v : Vec) (ho : get s o = some v) :
    itemsOf (step s (.pushBack o x)).1 o = some (v.items ++ [x]) := by
  have ho' : lk s.vecs o = some v := ho
  rw [step_fst]
  simp [stepSt, ho, itemsOf, get_eq, lk_upd_self, ho', emplaceBack_items]

/-- `pop_back()` on a non-empty vector removes the last element -/
theorem C38_sem_popBack (s : St) (o : Nat) (v : Vec) (ho : get s o = some v)
    (hne : v.items ≠ []) :
    itemsOf (step s (.popBack o)).1 o = some v.items.dropLast := by
  have ho' : lk s.vecs o = some v := ho
  rw [step_fst]
  simp [stepSt, ho, hne, itemsOf, get_eq, lk_upd_self, ho']

/-- `resize(n, x)`: truncates when shrinking, pads with copies of `x` when growing -/
theorem C38_sem_resize (s : St) (o n : Nat) (x : Int) (v : Vec) (ho : get s o = some v) :
    (n ≤ v.items.length → itemsOf (step s (.resize o n x)).1 o = some (v.items.take n)) ∧
    (v.items.length ≤ n → itemsOf (step s (.resize o n x)).1 o
        = some (v.items ++ List.replicate (n - v.items.length) x)) := by
  have ho' : lk s.vecs o = some v := ho
  have key : itemsOf (step s (.resize o n x)).1 o
      = some (v.items.take n ++ List.replicate (n - v.items.length) x) := by
    rw [step_fst]
    simp [stepSt, ho, itemsOf, get_eq, lk_upd_self, ho', resizeVec_items]
  rw [key]
  constructor
  · intro hn
    have : n - v.items.length = 0 := by omega
    simp [this]
  · intro hn
    rw [List.take_of_length_le hn]

/-- `reserve(n)` does not change the contents -/
theorem C38_sem_reserve (s : St) (o n : Nat) (v : Vec) (ho : get s o = some v) :
    itemsOf (step s (.reserve o n)).1 o = some v.items := by
  have ho' : lk s.vecs o = some v := ho
  rw [step_fst]
  simp [stepSt, ho, itemsOf, get_eq, lk_upd_self, ho', ensureCapacity_items]

/-- after `reserve(n)` the capacity is at least `n` (for a vector within its capacity) -/
theorem C38_sem_reserve_cap (s : St) (o n : Nat) (v : Vec) (ho : get s o = some v)
    (hv : VecOK s.N v) :
    ∃ v', get (step s (.reserve o n)).1 o = some v' ∧ v'.items = v.items ∧ n ≤ v'.cap := by
  have ho' : lk s.vecs o = some v := ho
  refine ⟨(ensureCapacity s.N v n).1, ?_, ensureCapacity_items _ _ _, ?_⟩
  · rw [step_fst]
    simp [stepSt, ho, get_eq, lk_upd_self, ho']
  · by_cases hn : v.items.length ≤ n
    · exact (ensureCapacity_ok s.N v n hv).2 hn
    · have h1 := (ensureCapacity_ok s.N v n hv).1.1
      rw [ensureCapacity_items] at h1
      omega

/-- `clear()` empties the vector -/
theorem C38_sem_clear (s : St) (o : Nat) (v : Vec) (ho : get s o = some v) :
    itemsOf (step s (.clear o)).1 o = some [] := by
  have ho' : lk s.vecs o = some v := ho
  rw [step_fst]
  simp [stepSt, ho, itemsOf, get_eq, lk_upd_self, ho']

/-- `erase(begin() + idx)` removes the element at a valid index -/
theorem C38_sem_erase (s : St) (o idx : Nat) (v : Vec) (ho : get s o = some v)
    (hidx : idx < v.items.length) :
    itemsOf (step s (.erase o idx)).1 o = some (v.items.eraseIdx idx) := by
  have ho' : lk s.vecs o = some v := ho
  rw [step_fst]
  simp [stepSt, ho, hidx, itemsOf, get_eq, lk_upd_self, ho']

/-- destruction: the vector no longer exists -/
theorem C38_sem_destroy (s : St) (o : Nat) : get (step s (.destroy o)).1 o = none := by
  rw [step_fst]; simp only [stepSt]
  split
  · rw [get_eq]; simp only []; rw [lk_filter]; simp
  · next hn => exact hn

/-- observers change nothing -/
theorem C38_sem_query (s : St) (o : Nat) : (step s (.query o)).1 = s := by
  rw [step_fst]; rfl

/-- an operation that is rejected (unknown vector, `pop_back` on an empty vector, `erase` out of
    range) changes nothing -/
theorem C38_sem_rejected (s : St) (op : Op) (h : (step s op).2 = none) : (step s op).1 = s := by
  cases op with
  | mk => simp [step, outOf] at h
  | mkCount n x => simp [step, outOf] at h
  | destroy o =>
    simp only [step] at h ⊢
    cases hg : get s o <;> simp only [hg] at h ⊢
    simp at h
  | query o =>
    simp only [step] at h ⊢
    cases hg : get s o <;> simp only [hg] at h ⊢
  | copyAssign dst src =>
    simp only [step] at h ⊢
    cases hd : get s dst <;> cases hs : get s src <;> simp only [hd, hs] at h ⊢
    split at h <;> simp [outOf] at h
  | moveAssign dst src =>
    simp only [step] at h ⊢
    cases hd : get s dst <;> cases hs : get s src <;> simp only [hd, hs] at h ⊢
    split at h <;> simp [outOf] at h
  | popBack o =>
    simp only [step] at h ⊢
    cases hg : get s o <;> simp only [hg] at h ⊢
    split at h
    · simp [*]
    · simp [outOf] at h
  | erase o idx =>
    simp only [step] at h ⊢
    cases hg : get s o <;> simp only [hg] at h ⊢
    split at h
    · simp [outOf] at h
    · simp [*]
  | _ =>
    simp only [step] at h ⊢
    cases hg : get s _ <;> simp only [hg] at h ⊢
    simp [outOf] at h

/-- the vector ids an operation may write (create, modify or remove) in state `s` -/
def writes (s : St) : Op → List Nat
  | .mk => [s.next]
  | .mkCount _ _ => [s.next]
  | .copyCtor _ => [s.next]
  | .moveCtor src => [s.next, src]
  | .copyAssign dst _ => [dst]
  | .moveAssign dst src => [dst, src]
  | .pushBack o _ => [o]
  | .popBack o => [o]
  | .resize o _ _ => [o]
  | .reserve o _ => [o]
  | .clear o => [o]
  | .erase o _ => [o]
  | .destroy o => [o]
  | .query _ => []

/-- frame: every other vector is untouched (and every other id stays absent) -/
theorem C38_sem_frame (s : St) (op : Op) (o : Nat) (ho : o ∉ writes s op) :
    get (step s op).1 o = get s o := by
  rw [step_fst]
  cases op with
  | mk =>
    simp only [writes, List.mem_singleton] at ho
    simp [stepSt, get_eq, lk_append, lk_cons, Ne.symm ho]
  | mkCount n x =>
    simp only [writes, List.mem_singleton] at ho
    simp [stepSt, get_eq, lk_append, lk_cons, Ne.symm ho]
  | copyCtor src =>
    simp only [writes, List.mem_singleton] at ho
    simp only [stepSt]
    split
    · rfl
    · simp [get_eq, lk_append, lk_cons, Ne.symm ho]
  | moveCtor src =>
    simp only [writes, List.mem_cons, List.not_mem_nil, or_false, not_or] at ho
    simp only [stepSt]
    split
    · rfl
    · simp [get_eq, lk_append, lk_cons, Ne.symm ho.1, lk_upd_ne _ _ _ _ ho.2]
  | copyAssign dst src =>
    simp only [writes, List.mem_singleton] at ho
    simp only [stepSt]
    split
    · split
      · rfl
      · simp [get_eq, lk_upd_ne _ _ _ _ ho]
    · rfl
  | moveAssign dst src =>
    simp only [writes, List.mem_cons, List.not_mem_nil, or_false, not_or] at ho
    simp only [stepSt]
    split
    · split
      · rfl
      · simp [get_eq, lk_upd_ne _ _ _ _ ho.1, lk_upd_ne _ _ _ _ ho.2]
    · rfl
  | pushBack o' x =>
    simp only [writes, List.mem_singleton] at ho
    simp only [stepSt]
    split
    · simp [get_eq, lk_upd_ne _ _ _ _ ho]
    · rfl
  | popBack o' =>
    simp only [writes, List.mem_singleton] at ho
    simp only [stepSt]
    split
    · split
      · rfl
      · simp [get_eq, lk_upd_ne _ _ _ _ ho]
    · rfl
  | resize o' n x =>
    simp only [writes, List.mem_singleton] at ho
    simp only [stepSt]
    split
    · simp [get_eq, lk_upd_ne _ _ _ _ ho]
    · rfl
  | reserve o' n =>
    simp only [writes, List.mem_singleton] at ho
    simp only [stepSt]
    split
    · simp [get_eq, lk_upd_ne _ _ _ _ ho]
    · rfl
  | clear o' =>
    simp only [writes, List.mem_singleton] at ho
    simp only [stepSt]
    split
    · simp [get_eq, lk_upd_ne _ _ _ _ ho]
    · rfl
  | erase o' idx =>
    simp only [writes, List.mem_singleton] at ho
    simp only [stepSt]
    split
    · split
      · simp [get_eq, lk_upd_ne _ _ _ _ ho]
      · rfl
    · rfl
  | destroy o' =>
    simp only [writes, List.mem_singleton] at ho
    simp only [stepSt]
    split
    · simp only [get_eq]; rw [lk_filter, if_neg ho]
    · rfl
  | query o' => rfl

/-! ### alignment -/

/-- if the buffer address is a multiple of the alignment and `sizeof(T)` is a multiple of
    `alignof(T)`, every element address is aligned -/
theorem C38_elem_aligned (a S A i : Nat) (_hA : 0 < A) (ha : a % A = 0) (hS : S % A = 0) :
    elemAddr a S i % A = 0 := by
  unfold elemAddr
  have h1 : A ∣ a := Nat.dvd_of_mod_eq_zero ha
  have h2 : A ∣ i * S := Nat.dvd_trans (Nat.dvd_of_mod_eq_zero hS) (Nat.dvd_mul_left S i)
  exact Nat.mod_eq_zero_of_dvd (Nat.dvd_add h1 h2)

/-! ### concrete runs -/

/-- `N = 2`: three pushes move the vector to a heap buffer of capacity 4 -/
example :
    let s := runOps (St.init 2) [.mk, .pushBack 0 10, .pushBack 0 11, .pushBack 0 12]
    s.vecs = [(0, { items := [10, 11, 12], heap := true, cap := 4 })] ∧
    s.live = 3 ∧ s.heapBlocks = 1 := by
  decide

/-- … move construction steals the buffer; clearing the new vector frees it -/
example :
    let s := runOps (St.init 2)
      [.mk, .pushBack 0 10, .pushBack 0 11, .pushBack 0 12, .moveCtor 0, .clear 1]
    s.vecs = [(0, { items := [], heap := false, cap := 2 }),
              (1, { items := [], heap := false, cap := 2 })] ∧
    s.live = 0 ∧ s.heapBlocks = 0 := by
  decide

/-- copies, resize, erase, assignment and destruction; everything is released at the end -/
example :
    let s := runOps (St.init 2)
      [.mkCount 3 5, .copyCtor 0, .resize 1 1 0, .pushBack 1 8, .erase 0 1, .moveAssign 1 0,
       .copyAssign 0 1, .popBack 0, .reserve 0 9]
    s.vecs = [(0, { items := [5], heap := true, cap := 9 }),
              (1, { items := [5, 5], heap := true, cap := 3 })] ∧
    s.live = 3 ∧ s.heapBlocks = 2 ∧
    (runOps s [.destroy 0, .destroy 1]).vecs = [] ∧
    (runOps s [.destroy 0, .destroy 1]).live = 0 ∧
    (runOps s [.destroy 0, .destroy 1]).heapBlocks = 0 := by
  decide

end Dispenso.SmallVec
